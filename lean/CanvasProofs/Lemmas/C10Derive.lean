import CanvasProofs.Lemmas.C10
import CanvasModel.C10.Derive
/-! Helper lemmas for C10: Split, Reverse and the coordinate map keep paths well-formed. -/
set_option linter.unusedSectionVars false
set_option linter.unusedVariables false
set_option linter.unusedSimpArgs false
namespace Canvas.Path
variable {α : Type} [DecidableEq α] (G : Geo α) (near : Pt α → Pt α → Bool)

/-! ### Split -/

theorem splitRuns_flatten (cs : RPath α) : (splitRuns cs).flatten = cs := by
  induction cs with
  | nil => rfl
  | cons c rest ih =>
    simp only [splitRuns]
    cases h : splitRuns rest with
    | nil => rw [h] at ih; simp at ih; subst ih; simp
    | cons p ps =>
      rw [h] at ih
      by_cases hm : c.isMove = true <;> simp [hm, ← ih]

/-- every run is well-formed and the newest run ends in the state of the whole path -/
theorem splitRuns_state {cs : RPath α} : ∀ {st : St α}, endState near false cs = some st →
    (∀ p ∈ splitRuns cs, ∃ s, endState near false p = some s) ∧
    (match splitRuns cs with
      | [] => st = .start
      | p :: _ => endState near false p = some st) := by
  induction cs with
  | nil => intro st h; simp [endState] at h; subst h; simp [splitRuns]
  | cons c rest ih =>
    intro st h
    obtain ⟨st0, h0, hs⟩ := endState_cons_some near false h
    obtain ⟨hall, hnew⟩ := ih h0
    simp only [splitRuns]
    cases hr : splitRuns rest with
    | nil =>
      rw [hr] at hnew; simp only at hnew; subst hnew
      have : endState near false [c] = some st := endState_cons_of near false rfl hs
      exact ⟨by intro p hp; simp at hp; subst hp; exact ⟨_, this⟩, this⟩
    | cons p ps =>
      rw [hr] at hnew hall; simp only at hnew
      by_cases hm : c.isMove = true
      · obtain ⟨a, rfl⟩ : ∃ a, c = .move a := by cases c <;> simp [Cmd.isMove] at hm; exact ⟨_, rfl⟩
        rw [step_move_iff] at hs; obtain ⟨rfl, _⟩ := hs
        have h1 : endState near false [Cmd.move a] = some (.moved a) := by simp [endState, step]
        simp only [Cmd.isMove, if_true]
        refine ⟨?_, h1⟩
        intro q hq
        rcases List.mem_cons.1 hq with rfl | hq
        · exact ⟨_, h1⟩
        · exact hall q hq
      · simp only [hm, if_false]
        have h1 : endState near false (c :: p) = some st := endState_cons_of near false hnew hs
        refine ⟨?_, h1⟩
        intro q hq
        rcases List.mem_cons.1 hq with rfl | hq
        · exact ⟨_, h1⟩
        · exact hall q (List.mem_cons_of_mem _ hq)

theorem split_subset (cs : RPath α) : ∀ p ∈ split cs, p ∈ splitRuns cs := by
  intro p hp
  unfold split at hp
  cases h : splitRuns cs with
  | nil => rw [h] at hp; simp at hp
  | cons q qs =>
    rw [h] at hp
    simp only at hp
    split at hp
    · exact List.mem_cons_of_mem _ (by simpa using hp)
    · have : p ∈ qs ∨ p = q := by simpa using hp
      rcases this with h' | h'
      · exact List.mem_cons_of_mem _ h'
      · subst h'; exact List.mem_cons_self ..

/-! ### Reverse -/

/-- loop invariant of Reverse on the path written so far -/
def RevInv (closed : Bool) (first : Pt α) (out todo : RPath α) : Prop :=
  (endState near false out = some (.moved first) ∨ endState near false out = some (.opened first)) ∨
  (endState near false out = some .closed ∧ closed = false ∧ (todo = [] ∨ headIsMove todo = true))

theorem rev_close_ok {out : RPath α} {first : Pt α}
    (hn : endState near false out = some (.moved first) ∨ endState near false out = some (.opened first)) :
    endState near false (.close first :: out) = some .closed := by
  rcases hn with hn | hn
  · exact endState_cons_of near false hn ((step_close_iff near false).2 ⟨rfl, first, Or.inr ⟨rfl, rfl⟩, Or.inl rfl⟩)
  · exact endState_cons_of near false hn ((step_close_iff near false).2 ⟨rfl, first, Or.inl rfl, Or.inl rfl⟩)

theorem revGo_ok : ∀ (todo : RPath α) (closed : Bool) (first start : Pt α) (out : RPath α),
    RevInv near closed first out todo → Ok near false (revGo G closed first start out todo) := by
  intro todo
  induction todo with
  | nil =>
    intro closed first start out h
    simp only [revGo]
    rcases h with h | ⟨h, hc, _⟩
    · split
      · exact ⟨.closed, rev_close_ok near h⟩
      · rcases h with h | h <;> exact ⟨_, h⟩
    · subst hc; exact ⟨_, h⟩
  | cons c rest ih =>
    intro closed first start out h
    -- a drawing record keeps the normal form of the invariant
    have hdraw : ∀ d : Cmd α, d.isDraw = true →
        (endState near false out = some (.moved first) ∨ endState near false out = some (.opened first)) →
        ∀ cl, RevInv near cl first (d :: out) rest := by
      intro d hd hn cl
      left; right
      rcases hn with hn | hn
      · exact endState_cons_of near false hn ((step_draw_iff near false hd).2 ⟨first, Or.inl rfl, rfl⟩)
      · exact endState_cons_of near false hn ((step_draw_iff near false hd).2 ⟨first, Or.inr rfl, rfl⟩)
    have hclose := @rev_close_ok α _ near out first
    cases c with
    | move p =>
      simp only [revGo]
      -- the path after the pending Close (if any) is in some state; a MoveTo is accepted in every state
      have hout1 : ∃ st1, endState near false (if closed = true then Cmd.close first :: out else out) = some st1 ∧
          (closed = false → endState near false out = some st1) := by
        rcases h with hn | ⟨hc, hcl, _⟩
        · by_cases hcl : closed = true
          · rw [if_pos hcl]; exact ⟨_, hclose hn, fun h' => by rw [hcl] at h'; cases h'⟩
          · rw [if_neg hcl]; rcases hn with hn | hn <;> exact ⟨_, hn, fun _ => hn⟩
        · subst hcl; simp only [Bool.false_eq_true, if_false]; exact ⟨_, hc, fun _ => hc⟩
      obtain ⟨st1, h1, _⟩ := hout1
      split
      · rename_i hre
        have : rest = [] := by cases rest <;> simp at hre ⊢
        subst this
        apply ih
        -- nothing follows: either normal form or closed with nothing to do
        by_cases hcl : closed = true
        · right
          rw [if_pos hcl] at h1 ⊢
          rcases h with hn | ⟨hc, hcl', _⟩
          · exact ⟨hclose hn, rfl, Or.inl rfl⟩
          · rw [hcl'] at hcl; cases hcl
        · rw [if_neg hcl] at h1 ⊢
          rcases h with hn | ⟨hc, _, _⟩
          · left; exact hn
          · right; exact ⟨hc, rfl, Or.inl rfl⟩
      · apply ih
        left; left
        exact endState_cons_of near false h1 ((step_move_iff near false).2 ⟨rfl, by simp⟩)
    | close p =>
      simp only [revGo]
      apply ih
      rcases h with hn | ⟨_, _, hm⟩
      · split
        · left; exact hn
        · exact hdraw (.line _) rfl hn true
      · rcases hm with hm | hm <;> simp [headIsMove] at hm
    | line p =>
      simp only [revGo]
      rcases h with hn | ⟨_, _, hm⟩
      · split
        · rename_i hcond
          apply ih
          right
          simp only [Bool.and_eq_true, Bool.or_eq_true] at hcond
          refine ⟨hclose hn, rfl, ?_⟩
          rcases hcond.2 with hr | hr
          · left; cases rest <;> simp at hr ⊢
          · right; exact hr
        · exact ih _ _ _ _ (hdraw (.line _) rfl hn closed)
      · rcases hm with hm | hm <;> simp [headIsMove] at hm
    | quad cp p =>
      simp only [revGo]
      rcases h with hn | ⟨_, _, hm⟩
      · exact ih _ _ _ _ (hdraw (.quad _ _) rfl hn closed)
      · rcases hm with hm | hm <;> simp [headIsMove] at hm
    | cube c1 c2 p =>
      simp only [revGo]
      rcases h with hn | ⟨_, _, hm⟩
      · exact ih _ _ _ _ (hdraw (.cube _ _ _) rfl hn closed)
      · rcases hm with hm | hm <;> simp [headIsMove] at hm
    | arc rx ry phi l s p =>
      simp only [revGo]
      rcases h with hn | ⟨_, _, hm⟩
      · exact ih _ _ _ _ (hdraw (.arc _ _ _ _ _ _) rfl hn closed)
      · rcases hm with hm | hm <;> simp [headIsMove] at hm

/-- 1 if the oldest record is a MoveTo -/
def oldestMove : RPath α → Nat
  | [] => 0
  | [c] => if c.isMove then 1 else 0
  | _ :: t => oldestMove t

theorem oldestMove_cons (c : Cmd α) (d : Cmd α) (t : RPath α) : oldestMove (c :: d :: t) = oldestMove (d :: t) := rfl

theorem countMoves_move (p : Pt α) (cs : RPath α) : countMoves (.move p :: cs) = countMoves cs + 1 := by
  simp [countMoves, Cmd.isMove]; omega

theorem countMoves_nonmove {c : Cmd α} (h : c.isMove = false) (cs : RPath α) : countMoves (c :: cs) = countMoves cs := by
  simp [countMoves, h]

theorem revGo_move_last (closed : Bool) (first start p : Pt α) (out : RPath α) :
    revGo G closed first start out [.move p] = if closed then .close first :: out else out := by
  cases closed <;> simp [revGo]

theorem revGo_move_cons (closed : Bool) (first start p : Pt α) (out : RPath α) (d : Cmd α) (t : RPath α) :
    revGo G closed first start out (.move p :: d :: t) =
      revGo G false (pos G (d :: t)) (pos G (d :: t))
        (.move (pos G (d :: t)) :: (if closed then .close first :: out else out)) (d :: t) := rfl

theorem revGo_close (closed : Bool) (first start p : Pt α) (out rest : RPath α) :
    revGo G closed first start out (.close p :: rest) =
      revGo G true first (pos G rest) (if G.ptEq start (pos G rest) then out else .line (pos G rest) :: out) rest := rfl

theorem revGo_line (closed : Bool) (first start p : Pt α) (out rest : RPath α) :
    revGo G closed first start out (.line p :: rest) =
      if closed && (rest.isEmpty || headIsMove rest) then revGo G false first (pos G rest) (.close first :: out) rest
      else revGo G closed first (pos G rest) (.line (pos G rest) :: out) rest := rfl

/-- number of MoveTos written by the loop: one per MoveTo read that is not the oldest record -/
theorem revGo_moves : ∀ (todo : RPath α) (closed : Bool) (first start : Pt α) (out : RPath α),
    countMoves (revGo G closed first start out todo) + oldestMove todo = countMoves out + countMoves todo := by
  intro todo
  induction todo with
  | nil =>
    intro closed first start out
    simp only [revGo, oldestMove]
    split
    · rw [countMoves_nonmove rfl]; simp [countMoves]
    · simp [countMoves]
  | cons c rest ih =>
    intro closed first start out
    have hold : ∀ (c : Cmd α), c.isMove = false → oldestMove (c :: rest) = oldestMove rest := by
      intro c hc
      cases rest with
      | nil => simp [oldestMove, hc]
      | cons d t => rfl
    cases c with
    | move p =>
      cases rest with
      | nil =>
        rw [revGo_move_last]
        simp only [oldestMove, Cmd.isMove, if_true, countMoves_move]
        split
        · rw [countMoves_nonmove rfl]; simp [countMoves]
        · simp [countMoves]
      | cons d t =>
        rw [revGo_move_cons, countMoves_move]
        have := ih false (pos G (d :: t)) (pos G (d :: t)) (.move (pos G (d :: t)) :: (if closed = true then Cmd.close first :: out else out))
        rw [countMoves_move] at this
        have hc : countMoves (if closed = true then Cmd.close first :: out else out) = countMoves out := by
          split
          · exact countMoves_nonmove rfl _
          · rfl
        rw [hc] at this
        rw [oldestMove_cons]
        omega
    | close p =>
      rw [revGo_close, hold _ rfl, countMoves_nonmove rfl]
      have := ih true first (pos G rest) (if G.ptEq start (pos G rest) = true then out else Cmd.line (pos G rest) :: out)
      have hc : countMoves (if G.ptEq start (pos G rest) = true then out else Cmd.line (pos G rest) :: out) = countMoves out := by
        split
        · rfl
        · exact countMoves_nonmove rfl _
      rw [hc] at this
      exact this
    | line p =>
      rw [revGo_line, hold _ rfl, countMoves_nonmove rfl]
      split
      · have := ih false first (pos G rest) (Cmd.close first :: out)
        rw [countMoves_nonmove rfl] at this
        exact this
      · have := ih closed first (pos G rest) (Cmd.line (pos G rest) :: out)
        rw [countMoves_nonmove rfl] at this
        exact this
    | quad cp p =>
      rw [hold _ rfl, countMoves_nonmove rfl]
      have := ih closed first (pos G rest) (Cmd.quad cp (pos G rest) :: out)
      rw [countMoves_nonmove rfl] at this
      exact this
    | cube c1 c2 p =>
      rw [hold _ rfl, countMoves_nonmove rfl]
      have := ih closed first (pos G rest) (Cmd.cube c2 c1 (pos G rest) :: out)
      rw [countMoves_nonmove rfl] at this
      exact this
    | arc rx ry phi l s p =>
      rw [hold _ rfl, countMoves_nonmove rfl]
      have := ih closed first (pos G rest) (Cmd.arc rx ry phi l (!s) (pos G rest) :: out)
      rw [countMoves_nonmove rfl] at this
      exact this

/-! ### coordinate map -/

theorem map_state (f : Pt α → Pt α) (g : α × α × α × Bool × Bool → α × α × α × Bool × Bool)
    (near' : Pt α → Pt α → Bool) (hn : ∀ a b, near a b = true → near' (f a) (f b) = true) (b : Bool)
    {cs : RPath α} : ∀ {st : St α}, endState near b cs = some st →
      endState near' b (cs.map (mapCmd f g)) = some (match st with
        | .start => .start | .moved s => .moved (f s) | .opened s => .opened (f s) | .closed => .closed) := by
  induction cs with
  | nil => intro st h; simp [endState] at h; subst h; rfl
  | cons c rest ih =>
    intro st h
    obtain ⟨st0, h0, hs⟩ := endState_cons_some near b h
    have ih0 := ih h0
    simp only [List.map_cons]
    apply endState_cons_of near' b ih0
    rcases cmd_trichotomy c with ⟨p, rfl⟩ | ⟨p, rfl⟩ | hc
    · rw [step_move_iff] at hs; obtain ⟨rfl, hnm⟩ := hs
      simp only [mapCmd]; rw [step_move_iff]
      refine ⟨rfl, fun hb s => ?_⟩
      have := hnm hb
      cases st0 <;> simp at this ⊢
    · rw [step_close_iff] at hs; obtain ⟨rfl, s, hs0, hnear⟩ := hs
      simp only [mapCmd]; rw [step_close_iff]
      refine ⟨rfl, f s, ?_, ?_⟩
      · rcases hs0 with rfl | ⟨rfl, hb⟩
        · left; rfl
        · right; exact ⟨rfl, hb⟩
      · rcases hnear with rfl | hnear
        · left; rfl
        · right; exact hn _ _ hnear
    · rw [step_draw_iff near b hc] at hs; obtain ⟨s, hs0, rfl⟩ := hs
      have hc' : (mapCmd f g c).isDraw = true := by cases c <;> simp [Cmd.isDraw] at hc <;> rfl
      rw [step_draw_iff near' b hc']
      refine ⟨f s, ?_, rfl⟩
      rcases hs0 with rfl | rfl
      · left; rfl
      · right; rfl

end Canvas.Path
