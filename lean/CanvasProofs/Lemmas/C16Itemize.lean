import CanvasModel.C16
/-! Lemmas for C16 (d): ScriptItemizer partitions the rune sequence; indexer.index. -/
namespace Canvas.C16

theorem sloop_flatten (rs : List R) : ∀ (scripts : List Nat) (started prevRepl : Bool) (cur : List R) (acc : List SItem),
    ((sloop scripts started prevRepl cur acc rs).map (·.text)).flatten
      = (acc.reverse.map (·.text)).flatten ++ cur.reverse ++ rs := by
  induction rs with
  | nil => intro scripts started prevRepl cur acc; simp [sloop]
  | cons r rs ih =>
    intro scripts started prevRepl cur acc
    simp only [sloop]
    split
    · rw [ih]; simp
    · rw [ih]; simp

theorem itemize_flatten (rs : List R) : ((itemize rs).map (·.text)).flatten = rs := by
  unfold itemize
  split
  · rename_i h; simp [List.isEmpty_iff] at h; simp [h]
  · rw [sloop_flatten]; simp

theorem sloop_nonempty (rs : List R) : ∀ (scripts : List Nat) (started prevRepl : Bool) (cur : List R) (acc : List SItem),
    (started = true → cur ≠ []) → (started = true ∨ rs ≠ []) → (∀ it ∈ acc, it.text ≠ []) →
    ∀ it ∈ sloop scripts started prevRepl cur acc rs, it.text ≠ [] := by
  induction rs with
  | nil =>
    intro scripts started prevRepl cur acc h1 h2 h3 it hit
    simp [sloop] at hit
    rcases hit with hit | hit
    · exact h3 it hit
    · subst hit
      have : started = true := by simpa using h2
      simpa using h1 this
  | cons r rs ih =>
    intro scripts started prevRepl cur acc h1 h2 h3
    simp only [sloop]
    split
    · rename_i hb
      have hs : started = true := by
        cases started <;> simp_all
      apply ih
      · intro _; simp
      · left; rfl
      · intro it hit
        simp at hit
        rcases hit with hit | hit
        · subst hit; simpa using h1 hs
        · exact h3 it hit
    · apply ih
      · intro _; simp
      · left; rfl
      · exact h3

theorem itemize_nonempty (rs : List R) : ∀ it ∈ itemize rs, it.text ≠ [] := by
  unfold itemize
  split
  · simp
  · rename_i h
    apply sloop_nonempty
    · intro h'; cases h'
    · right; intro h'; simp [h'] at h
    · simp

/-! indexer.index: the result is the number of leading starts `≤ loc`, minus one -/

theorem indexGo_spec (loc : Int) : ∀ (ix : List Int) (i : Int),
    (indexGo loc i ix).getD (i + ix.length - 1) = i + (ix.takeWhile (fun s => decide (s ≤ loc))).length - 1 := by
  intro ix
  induction ix with
  | nil => intro i; simp [indexGo]
  | cons s r ih =>
    intro i
    simp only [indexGo]
    split
    · rename_i h
      have : ¬ s ≤ loc := by omega
      simp [List.takeWhile, this]
    · rename_i h
      have hs : s ≤ loc := by omega
      have := ih (i + 1)
      simp only [List.length_cons, List.takeWhile, hs, decide_true] at *
      rw [show i + ((r.length + 1 : Nat) : Int) - 1 = i + 1 + r.length - 1 by omega]
      rw [this]; omega

theorem indexOf_spec (ix : List Int) (loc : Int) :
    indexOf ix loc = (ix.takeWhile (fun s => decide (s ≤ loc))).length - 1 := by
  have := indexGo_spec loc ix 0
  unfold indexOf
  simpa using this

end Canvas.C16
