import CanvasProofs.Lemmas.C17Opt9
/-! C17, `optimal`, part 10: assembly. -/
set_option linter.unusedSectionVars false
set_option linter.unusedVariables false
namespace Canvas.C17

section field
variable {K : Type} [Field K] [LinearOrder K] [IsStrictOrderedRing K]

/-- core of DP completeness with the final state exposed -/
theorem opt_core (P : Params K) (items : List (Item K)) (lineW : K) (hwf : WF P items lineW)
    (m : Nat) (hlen : items.length = m + 1) (hfo : forcedAt P items m = true) (hle : legalAt P items m = true)
    (seq : List Nat) (d : K) (hpw : seq.Pairwise (· < ·)) (hns : NoSkip P items none seq)
    (hlast : seq.getLast? = some m)
    (hcost : seqCost P items lineW (some P.tolerance) none 1 0 seq = some d) :
    ∃ lbf nb breaks, passLoop P items lineW (some P.tolerance) 0 none items (initLB false) = PassRes.done lbf ∧
      Inv P items lineW (some P.tolerance) items.length lbf ∧ lbf.ovf = false ∧ nb ∈ lbf.act ∧
      breaks = (fixNonRoot P (nb.d :: nb.anc)).reverse ∧ linebreak P items lineW 0 = Outcome.ok breaks true ∧
      nb.d.pos = m ∧ nb.anc ≠ [] ∧ nb.d.dem ≤ d := by
  have hrefl : ∀ a : K, (a == a) = true := fun a => beq_self_eq_true a
  obtain ⟨lbf, hp, hov, n, hn, hnd⟩ := passLoop_opt P items lineW hwf (some P.tolerance) items 0 (initLB false)
    none 1 0 seq d rfl (Nat.zero_le _) (inv_init P items lineW _ false) (fun x _ => Nat.zero_le _) hpw hns
    (fun a ha => by cases ha) (fun he => by rw [he] at hlast; cases hlast)
    (fun x hx => by rw [hlast] at hx; cases hx; omega) hcost
    ⟨root, by simp [initLB], ⟨rfl, hwf.fl⟩, Or.inl ⟨rfl, by show (k 0 : K) ≤ 0; rw [k0]⟩⟩
  have hp : passLoop P items lineW (some P.tolerance) 0 none items (initLB false) = PassRes.done lbf := hp
  have hI : Inv P items lineW (some P.tolerance) items.length lbf :=
    passLoop_inv hrefl P items lineW _ items 0 (initLB false) lbf rfl (Nat.zero_le _) (inv_init P items lineW _ false) hp
  have hovf : lbf.ovf = false := hov
  cases hf : finish P items.length 0 lbf with
  | panic => simp [finish] at hf; split at hf <;> cases hf
  | fuelOut => simp [finish] at hf; split at hf <;> cases hf
  | ok breaks fit =>
    obtain ⟨nb, hnb, hb, hfit, hpos, hanc, h0⟩ := finish_spec P items lineW _ 0 lbf m hlen hfo hle hI breaks fit hf
    have hmin := (chooseBest_none_min lbf.act nb (h0 rfl)).2 n hn
    refine ⟨lbf, nb, breaks, hp, hI, hovf, hnb, hb, ?_, hpos, hanc, le_trans hmin hnd⟩
    unfold linebreak fuelFor
    simp only [linebreakFuel, hp, hf]
    rw [hfit, hovf]; rfl

theorem last_dem (P : Params K) (nb : Node K) (hanc : nb.anc ≠ []) :
    ((fixNonRoot P (nb.d :: nb.anc)).reverse.getLast?).map (·.dem) = some nb.d.dem := by
  cases ha : nb.anc with
  | nil => exact absurd ha hanc
  | cons p rest =>
    simp only [fixNonRoot, List.getLast?_reverse, List.head?_cons, Option.map_some]
    congr 1
    unfold clampRatio; split <;> rfl

/-- **Optimality** against the L3 specification: for a well-formed paragraph and looseness 0, if the
exhaustive specification `best` finds a breaking within `[-1, Tolerance]` with total demerits `dOpt`,
then `linebreak` reports no overflow and the total demerits it returns are exactly `dOpt`. -/
theorem optimal_core (P : Params K) (items : List (Item K)) (lineW : K) (hwf : WF P items lineW)
    (htol : P.tolerance < P.infinity) (m : Nat) (hlen : items.length = m + 1)
    (hfo : forcedAt P items m = true) (hle : legalAt P items m = true) (dOpt : K)
    (hbest : best P items lineW = some dOpt) :
    ∃ breaks, linebreak P items lineW 0 = Outcome.ok breaks true ∧
      (breaks.getLast?).map (·.dem) = some dOpt := by
  have hb0 : bestFrom P items lineW P.tolerance none 1 (List.range' 0 items.length) = some dOpt := by
    unfold best at hbest
    rw [List.range_eq_range'] at hbest
    exact hbest
  -- the optimum is attained by a legal breaking ...
  obtain ⟨seq, s1, s2, s3, s4, _, s6⟩ := bestFrom_attained P items lineW P.tolerance hwf htol items.length 0 none 1 dOpt
    (fun x hx => by cases hx) (fun f _ hf => by omega) hb0
  have hlast : seq.getLast? = some m := by rw [s4]; congr 1; omega
  have hcost : seqCost P items lineW (some P.tolerance) none 1 0 seq = some dOpt := by
    rw [s6 0]; congr 1; ring
  -- ... so the code returns something at least as cheap
  obtain ⟨lbf, nb, breaks, hp, hI, hovf, hnb, hb, hrun, hpos, hanc, hle'⟩ :=
    opt_core P items lineW hwf m hlen hfo hle seq dOpt s2 s3 hlast hcost
  refine ⟨breaks, hrun, ?_⟩
  rw [hb, last_dem P nb hanc]
  congr 1
  apply le_antisymm hle'
  -- and what it returns is itself a legal breaking, so it cannot be cheaper than the optimum
  have hch : ChainOK P items lineW (some P.tolerance) false (nb.d :: nb.anc) := by
    have := (hI.act nb hnb).1
    rw [hovf] at this
    exact this
  have hfit : FitAll nb := (passLoop_fit P items lineW _ items 0 none (initLB false) lbf (fitInv_init false) hp).1 nb hnb
  have hst := chain_state P items lineW P.tolerance hwf.fl hch hfit nb.d nb.anc rfl
  have hcost' : seqCost P items lineW (some P.tolerance) none 1 0 (nonRootPos (nb.d :: nb.anc)).reverse = some nb.d.dem := by
    rw [seqCost_eq_state, hst]; rfl
  have hsorted := (chain_sorted hch).1
  have hpw' : ((nonRootPos (nb.d :: nb.anc)).reverse).Pairwise (· < ·) := List.pairwise_reverse.mpr hsorted
  have hmem : ∀ x, x ∈ (nonRootPos (nb.d :: nb.anc)).reverse → 0 ≤ x ∧ x < 0 + items.length := by
    intro x hx
    have := legalAt_lt (chain_legal hch x (List.mem_reverse.mp hx))
    omega
  have hns' : NoSkip P items none (nonRootPos (nb.d :: nb.anc)).reverse := by
    apply noSkip_of_mem P items _ none hpw' (fun y _ a ha => by cases ha)
    intro f hfo' _
    have hlf := forced_legal P items hwf.inf f hfo'
    exact List.mem_reverse.mpr (hI.forced nb hnb f (legalAt_lt hlf) hfo' hlf)
  have hlast' : ((nonRootPos (nb.d :: nb.anc)).reverse).getLast? = some (0 + items.length - 1) := by
    cases ha : nb.anc with
    | nil => exact absurd ha hanc
    | cons p rest =>
      simp only [nonRootPos, List.getLast?_reverse, List.head?_cons, hpos]
      congr 1; omega
  obtain ⟨d', hd', hle''⟩ := bestFrom_le P items lineW P.tolerance hwf htol items.length 0 none 1 _ 0 nb.d.dem
    (fun x hx => by cases hx) hmem hpw' hns' hlast' hcost'
  rw [hb0] at hd'
  cases hd'
  linarith

end field
end Canvas.C17
