import CanvasModel.C09.Polish
import Mathlib.Algebra.Order.Field.Basic
import Mathlib.Algebra.Order.Ring.Abs
import Mathlib.Tactic.Ring
import Mathlib.Tactic.Linarith
/-!
C09 helper lemmas about the polish loop of `invSpeedApprox` over an ordered field with exact
operations: on exit either the residual is within the tolerance or all iterations were spent; `t` stays
between `lo` and `hi`, which stay between `tmin` and `tmax` (bracket invariant, by induction) - for any
`fLength`, any speed `fp`, any estimate inside the bracket, increasing or decreasing parameter.
-/
set_option linter.unusedSectionVars false
namespace C09L
open Canvas.C09
variable {K : Type} [Field K] [LinearOrder K] [IsStrictOrderedRing K]

/-- the operations of `P` are the exact field operations and order (`copysign` is not constrained) -/
structure ExactPolish (P : PolishOps K) : Prop where
  zero : P.zero = 0
  add : ∀ a b, P.add a b = a + b
  sub : ∀ a b, P.sub a b = a - b
  mul : ∀ a b, P.mul a b = a * b
  abs : ∀ a, P.abs a = |a|
  le : ∀ a b, P.le a b = decide (a ≤ b)
  lt : ∀ a b, P.lt a b = decide (a < b)
  half : ∀ a, P.half a = a / 2

/-- `x` lies between `a` and `b` (in either order) -/
def Between (a b x : K) : Prop := min a b ≤ x ∧ x ≤ max a b

theorem between_of_mul_neg (a b x : K) (h : (x - a) * (x - b) < 0) : Between a b x := by
  rcases mul_neg_iff.mp h with ⟨h1, h2⟩ | ⟨h1, h2⟩
  · exact ⟨le_trans (min_le_left _ _) (by linarith), le_trans (by linarith) (le_max_right _ _)⟩
  · exact ⟨le_trans (min_le_right _ _) (by linarith), le_trans (by linarith) (le_max_left _ _)⟩

theorem between_mid (a b : K) : Between a b ((a + b) / 2) := by
  rcases le_total a b with h | h
  · exact ⟨by rw [min_eq_left h]; linarith, by rw [max_eq_right h]; linarith⟩
  · exact ⟨by rw [min_eq_right h]; linarith, by rw [max_eq_left h]; linarith⟩

theorem between_left (a b : K) : Between a b a := ⟨min_le_left _ _, le_max_left _ _⟩
theorem between_right (a b : K) : Between a b b := ⟨min_le_right _ _, le_max_right _ _⟩

/-- a point between two points that lie between `m` and `M` lies between `m` and `M` -/
theorem between_trans (m M a b x : K) (ha : Between m M a) (hb : Between m M b) (hx : Between a b x) :
    Between m M x :=
  ⟨le_trans (le_min ha.1 hb.1) hx.1, le_trans hx.2 (max_le ha.2 hb.2)⟩

/-- bracket invariant: `t` between `lo` and `hi`, both between `tmin` and `tmax` -/
structure Bracket (tmin tmax : K) (s : PState K) : Prop where
  t : Between s.lo s.hi s.t
  lo : Between tmin tmax s.lo
  hi : Between tmin tmax s.hi

variable {P : PolishOps K} (hP : ExactPolish P) (fL fp : K → K) (h L tol : K)

include hP in
theorem polishStep_none (s : PState K) (hs : polishStep P fL fp h L tol s = none) : |fL s.t - L| ≤ tol := by
  unfold polishStep at hs
  simp only [hP.sub, hP.abs, hP.le] at hs
  by_cases hc : |fL s.t - L| ≤ tol
  · exact hc
  · simp [hc] at hs

include hP in
theorem polishStep_bracket (tmin tmax : K) (s s' : PState K) (hb : Bracket tmin tmax s)
    (hs : polishStep P fL fp h L tol s = some s') : Bracket tmin tmax s' := by
  unfold polishStep at hs
  simp only [hP.sub, hP.abs, hP.le, hP.lt, hP.zero, hP.mul, hP.add, hP.half] at hs
  by_cases hc : |fL s.t - L| ≤ tol
  · simp [hc] at hs
  · simp only [hc, decide_false, Bool.false_eq_true, if_false, Option.some.injEq] at hs
    have htin : Between tmin tmax s.t := between_trans tmin tmax s.lo s.hi s.t hb.lo hb.hi hb.t
    subst hs
    by_cases hd : fL s.t - L < 0
    · simp only [hd, decide_true, if_true]
      refine ⟨?_, htin, hb.hi⟩
      split
      · rename_i hm
        exact between_of_mul_neg _ _ _ (by simpa using hm)
      · exact between_mid _ _
    · simp only [hd, decide_false, Bool.false_eq_true, if_false]
      refine ⟨?_, hb.lo, htin⟩
      split
      · rename_i hm
        exact between_of_mul_neg _ _ _ (by simpa using hm)
      · exact between_mid _ _

include hP in
/-- the loop: exit condition and bracket invariant -/
theorem polishLoop_spec (tmin tmax : K) (n : Nat) : ∀ (s : PState K), Bracket tmin tmax s →
    let r := polishLoop P fL fp h L tol n s
    Bracket tmin tmax r.st ∧ (r.converged = true → |fL r.st.t - L| ≤ tol) ∧
      (r.converged = false → r.iters = n) ∧ r.iters ≤ n := by
  induction n with
  | zero => intro s hb; exact ⟨hb, by simp [polishLoop], by simp [polishLoop], by simp [polishLoop]⟩
  | succ n ih =>
    intro s hb
    simp only [polishLoop]
    cases hs : polishStep P fL fp h L tol s with
    | none =>
      exact ⟨hb, fun _ => polishStep_none hP fL fp h L tol s hs, by simp, by simp⟩
    | some s' =>
      obtain ⟨h1, h2, h3, h4⟩ := ih s' (polishStep_bracket hP fL fp h L tol tmin tmax s s' hb hs)
      exact ⟨h1, h2, fun hc => by simp [h3 hc], by simp; omega⟩

end C09L
