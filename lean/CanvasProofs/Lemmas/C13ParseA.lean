import CanvasModel.C13.Parse
import CanvasProofs.Lemmas.C13Num

/-! C13 serialise-then-parse, part A: characters, tokens, tails, leaf values. -/
namespace C13L
open Canvas.C13 Canvas.C13.Rd Canvas.C13.P

/-- characters a printed number may consist of -/
def numChar (c : UInt8) : Bool := isDigit c || c == 0x2E || c == 0x2D || c == 0x2B

/-- a printable number: non-empty, digits / sign / point only (what `dec` prints for finite floats) -/
def numTok (p : Bytes) : Bool := !p.isEmpty && p.all numChar

/-- a byte satisfies a table property if all 256 values do -/
theorem byte_cases (P : UInt8 → Prop) (h : ∀ n, n < 256 → P n.toUInt8) (c : UInt8) : P c := by
  have := h c.toNat (UInt8.toNat_lt c)
  have e : c.toNat.toUInt8 = c := UInt8.ofNat_toNat
  rw [e] at this
  exact this

set_option maxRecDepth 100000 in
theorem numChar_props : ∀ c : UInt8, numChar c = true → isReg c = true ∧ isWS c = false ∧ c ≠ 0x5D ∧ c ≠ 0x52 ∧ c ≠ 0x74 ∧ c ≠ 0x66 := by
  apply byte_cases; decide

set_option maxRecDepth 100000 in
theorem isDigit_numChar : ∀ c : UInt8, isDigit c = true → numChar c = true := by
  apply byte_cases; decide

set_option maxRecDepth 100000 in
theorem isReg_props : ∀ c : UInt8, isReg c = true → isWS c = false ∧ isDelim c = false := by
  apply byte_cases; decide

set_option maxRecDepth 100000 in
theorem isDelim_props : ∀ c : UInt8, isDelim c = true → isReg c = false ∧ isWS c = false ∧ c ≠ 0x52 := by
  apply byte_cases; decide

set_option maxRecDepth 100000 in
theorem isWS_props : ∀ c : UInt8, isWS c = true → isReg c = false := by
  apply byte_cases; decide

/-! ### skipWs / spanReg -/

theorem skipWs_cons_of_not_ws {c : UInt8} (r : Bytes) (h : isWS c = false) : skipWs (c :: r) = c :: r := by
  simp [skipWs, h]

theorem skipWs_cons_ws {c : UInt8} (r : Bytes) (h : isWS c = true) : skipWs (c :: r) = skipWs r := by
  simp [skipWs, h]

/-- `T` is empty or starts with a non-regular character: a token that precedes it ends there -/
def NR (T : Bytes) : Prop := ∀ c T', T = c :: T' → isReg c = false

theorem spanReg_append (s T : Bytes) (hs : s.all isReg = true) (hT : NR T) : spanReg (s ++ T) = (s, T) := by
  induction s with
  | nil =>
    cases T with
    | nil => rfl
    | cons c T' => simp [spanReg, hT c T' rfl]
  | cons c s ih =>
    simp only [List.all_cons, Bool.and_eq_true] at hs
    simp [spanReg, hs.1, ih hs.2]

theorem all_numChar_isReg (p : Bytes) (h : p.all numChar = true) : p.all isReg = true := by
  simp only [List.all_eq_true] at *
  intro c hc
  exact (numChar_props c (h c hc)).1

/-! ### digits -/

theorem digit_isDigit (d : Nat) (h : d < 10) : isDigit (48 + d).toUInt8 = true := by
  have : d = 0 ∨ d = 1 ∨ d = 2 ∨ d = 3 ∨ d = 4 ∨ d = 5 ∨ d = 6 ∨ d = 7 ∨ d = 8 ∨ d = 9 := by omega
  rcases this with rfl | rfl | rfl | rfl | rfl | rfl | rfl | rfl | rfl | rfl <;> decide

theorem natBytes_all_digit (n : Nat) : (natBytes n).all isDigit = true := by
  induction n using natBytes.induct with
  | case1 x hx =>
    rw [natBytes.eq_1]; simp only [hx, if_true, List.all_cons, List.all_nil, Bool.and_true]
    exact digit_isDigit x hx
  | case2 x hx ih =>
    rw [natBytes.eq_1]; simp only [hx, if_false, List.all_append, ih, Bool.true_and, List.all_cons, List.all_nil, Bool.and_true]
    exact digit_isDigit _ (Nat.mod_lt x (by omega : 0 < 10))

theorem natBytes_ne_nil (n : Nat) : natBytes n ≠ [] := by
  have := natBytes_length_pos n
  intro h; rw [h] at this; simp at this

theorem isNatTok_natBytes (n : Nat) : isNatTok (natBytes n) = true := by
  unfold isNatTok
  simp [natBytes_all_digit, natBytes_ne_nil]

theorem natOf_natBytes (n : Nat) : natOf (natBytes n) = n := parseNat_natBytes n

theorem natBytes_numTok (n : Nat) : numTok (natBytes n) = true := by
  unfold numTok
  have h := natBytes_all_digit n
  simp only [List.all_eq_true] at h
  simp only [Bool.and_eq_true, Bool.not_eq_true', List.all_eq_true]
  refine ⟨by simpa using natBytes_ne_nil n, fun c hc => isDigit_numChar c (h c hc)⟩

theorem intBytes_numTok (i : Int) : numTok (intBytes i) = true := by
  unfold intBytes
  split
  · have h := natBytes_numTok i.natAbs
    unfold numTok at *
    simp only [Bool.and_eq_true] at h
    simp [h.2]; decide
  · exact natBytes_numTok _

/-- a number token is neither `true` nor `false` -/
theorem numTok_not_kw (p : Bytes) (h : numTok p = true) : p ≠ kTrue ∧ p ≠ kFalse := by
  unfold numTok at h
  simp only [Bool.and_eq_true] at h
  constructor <;> (intro e; rw [e] at h; revert h; decide)

/-! ### strict number syntax and names -/

set_option maxRecDepth 100000 in
theorem isDigit_props : ∀ c : UInt8, isDigit c = true → (c == 0x2E) = false ∧ (c == 0x2B || c == 0x2D) = false := by
  apply byte_cases; decide

theorem filter_dot_digits (d : Bytes) (h : d.all isDigit = true) : d.filter (· == 0x2E) = [] := by
  rw [List.filter_eq_nil_iff]
  intro a ha
  simp only [List.all_eq_true] at h
  simp [(isDigit_props a (h a ha)).1]

theorem stripSign_digit (c : UInt8) (r : Bytes) (h : (c == 0x2B || c == 0x2D) = false) : stripSign (c :: r) = c :: r := by
  simp [stripSign, h]

/-- strict numbers are number-like tokens -/
theorem isNumTok_numTok (p : Bytes) (h : isNumTok p = true) : numTok p = true := by
  unfold isNumTok numBody at h
  simp only [Bool.and_eq_true, Bool.not_eq_true', decide_eq_true_eq] at h
  obtain ⟨⟨⟨hne, hall⟩, _⟩, _⟩ := h
  have conv : ∀ b : Bytes, b.all (fun c => isDigit c || c == 0x2E) = true → b.all numChar = true := by
    intro b hb
    simp only [List.all_eq_true] at *
    intro c hc
    have := hb c hc
    unfold numChar
    simp only [Bool.or_eq_true] at this ⊢
    rcases this with h1 | h1
    · exact Or.inl (Or.inl (Or.inl h1))
    · exact Or.inl (Or.inl (Or.inr h1))
  cases p with
  | nil => simp [stripSign] at hne
  | cons c r =>
    unfold numTok
    simp only [List.isEmpty_cons, Bool.not_false, Bool.true_and, List.all_cons, Bool.and_eq_true]
    by_cases hs : (c == 0x2B || c == 0x2D) = true
    · have e : stripSign (c :: r) = r := by simp [stripSign, hs]
      rw [e] at hall
      refine ⟨?_, conv r hall⟩
      unfold numChar
      simp only [Bool.or_eq_true] at hs ⊢
      rcases hs with h1 | h1
      · exact Or.inr h1
      · exact Or.inl (Or.inr h1)
    · have e : stripSign (c :: r) = c :: r := stripSign_digit c r (by simpa using hs)
      rw [e] at hall
      have := conv (c :: r) hall
      simpa using this

theorem numBody_digits (d : Bytes) (hd : d.all isDigit = true) (hne : d ≠ []) : numBody d = true := by
  unfold numBody
  rw [filter_dot_digits d hd]
  have h1 : d.all (fun c => isDigit c || c == 0x2E) = true := by
    simp only [List.all_eq_true] at *
    intro c hc; simp [hd c hc]
  have h2 : d.any isDigit = true := by
    cases d with
    | nil => exact absurd rfl hne
    | cons c r => simp only [List.all_cons, Bool.and_eq_true] at hd; simp [hd.1]
  cases d with
  | nil => exact absurd rfl hne
  | cons c r => simp [h1, h2]

theorem isNumTok_natBytes (n : Nat) : isNumTok (natBytes n) = true := by
  have hd := natBytes_all_digit n
  have hne := natBytes_ne_nil n
  unfold isNumTok
  cases e : natBytes n with
  | nil => exact absurd e hne
  | cons c r =>
    rw [e] at hd
    have hc : isDigit c = true := by simp only [List.all_cons, Bool.and_eq_true] at hd; exact hd.1
    rw [stripSign_digit c r (isDigit_props c hc).2]
    exact numBody_digits _ hd (by simp)

theorem isNumTok_intBytes (i : Int) : isNumTok (intBytes i) = true := by
  unfold intBytes
  split
  · unfold isNumTok
    have : stripSign (0x2D :: natBytes i.natAbs) = natBytes i.natAbs := by simp [stripSign]
    rw [this]
    exact numBody_digits _ (natBytes_all_digit _) (natBytes_ne_nil _)
  · exact isNumTok_natBytes _

/-- a name without `#` is read as written -/
theorem unescName_id (s : Bytes) (h : ∀ c ∈ s, c ≠ 0x23) : unescName s = s := by
  induction s using unescName.induct with
  | case1 c h1 h2 r2 hc a b ha hb ih =>
    exact absurd (by simpa using hc) (h c (by simp))
  | case2 c h1 h2 r2 hc hno ih =>
    exact absurd (by simpa using hc) (h c (by simp))
  | case3 c h1 h2 r2 hc ih =>
    rw [unescName]; simp only [hc, Bool.false_eq_true, if_false]
    rw [ih (fun x hx => h x (by simp [hx]))]
  | case4 c r hshape ih =>
    rw [unescName.eq_def]
    cases r with
    | nil => simp [unescName]
    | cons a r' =>
      cases r' with
      | nil =>
        have := ih (fun x hx => h x (by simp [hx]))
        simp [this]
      | cons b r'' => exact absurd rfl (hshape a b r'')
  | case5 => rfl

end C13L
