import CanvasModel.C13.Parse
import CanvasProofs.Lemmas.C13Num

/-! C13 serialise-then-parse, part A: characters, tokens, tails, leaf values. -/
namespace C13L
open Canvas.C13 Canvas.C13.Rd Canvas.C13.P

/-- characters a printed number may consist of -/
def numChar (c : UInt8) : Bool := isDigit c || c == 0x2E || c == 0x2D || c == 0x2B

/-- a printable number: non-empty, digits / sign / point only (what `dec` prints for finite floats) -/
def numTok (p : Bytes) : Bool := !p.isEmpty && p.all numChar

/-- a byte satisfies a table property if all 256 values do -/
theorem byte_cases (P : UInt8 → Prop) (h : ∀ n, n < 256 → P n.toUInt8) (c : UInt8) : P c := by
  have := h c.toNat (UInt8.toNat_lt c)
  have e : c.toNat.toUInt8 = c := UInt8.ofNat_toNat
  rw [e] at this
  exact this

set_option maxRecDepth 100000 in
theorem numChar_props : ∀ c : UInt8, numChar c = true → isReg c = true ∧ isWS c = false ∧ c ≠ 0x5D ∧ c ≠ 0x52 ∧ c ≠ 0x74 ∧ c ≠ 0x66 := by
  apply byte_cases; decide

set_option maxRecDepth 100000 in
theorem isDigit_numChar : ∀ c : UInt8, isDigit c = true → numChar c = true := by
  apply byte_cases; decide

set_option maxRecDepth 100000 in
theorem isReg_props : ∀ c : UInt8, isReg c = true → isWS c = false ∧ isDelim c = false := by
  apply byte_cases; decide

set_option maxRecDepth 100000 in
theorem isDelim_props : ∀ c : UInt8, isDelim c = true → isReg c = false ∧ isWS c = false ∧ c ≠ 0x52 := by
  apply byte_cases; decide

set_option maxRecDepth 100000 in
theorem isWS_props : ∀ c : UInt8, isWS c = true → isReg c = false := by
  apply byte_cases; decide

/-! ### skipWs / spanReg -/

theorem skipWs_cons_of_not_ws {c : UInt8} (r : Bytes) (h : isWS c = false) : skipWs (c :: r) = c :: r := by
  simp [skipWs, h]

theorem skipWs_cons_ws {c : UInt8} (r : Bytes) (h : isWS c = true) : skipWs (c :: r) = skipWs r := by
  simp [skipWs, h]

/-- `T` is empty or starts with a non-regular character: a token that precedes it ends there -/
def NR (T : Bytes) : Prop := ∀ c T', T = c :: T' → isReg c = false

theorem spanReg_append (s T : Bytes) (hs : s.all isReg = true) (hT : NR T) : spanReg (s ++ T) = (s, T) := by
  induction s with
  | nil =>
    cases T with
    | nil => rfl
    | cons c T' => simp [spanReg, hT c T' rfl]
  | cons c s ih =>
    simp only [List.all_cons, Bool.and_eq_true] at hs
    simp [spanReg, hs.1, ih hs.2]

theorem all_numChar_isReg (p : Bytes) (h : p.all numChar = true) : p.all isReg = true := by
  simp only [List.all_eq_true] at *
  intro c hc
  exact (numChar_props c (h c hc)).1

/-! ### digits -/

theorem digit_isDigit (d : Nat) (h : d < 10) : isDigit (48 + d).toUInt8 = true := by
  have : d = 0 ∨ d = 1 ∨ d = 2 ∨ d = 3 ∨ d = 4 ∨ d = 5 ∨ d = 6 ∨ d = 7 ∨ d = 8 ∨ d = 9 := by omega
  rcases this with rfl | rfl | rfl | rfl | rfl | rfl | rfl | rfl | rfl | rfl <;> decide

theorem natBytes_all_digit (n : Nat) : (natBytes n).all isDigit = true := by
  induction n using natBytes.induct with
  | case1 x hx =>
    rw [natBytes.eq_1]; simp only [hx, if_true, List.all_cons, List.all_nil, Bool.and_true]
    exact digit_isDigit x hx
  | case2 x hx ih =>
    rw [natBytes.eq_1]; simp only [hx, if_false, List.all_append, ih, Bool.true_and, List.all_cons, List.all_nil, Bool.and_true]
    exact digit_isDigit _ (Nat.mod_lt x (by omega : 0 < 10))

theorem natBytes_ne_nil (n : Nat) : natBytes n ≠ [] := by
  have := natBytes_length_pos n
  intro h; rw [h] at this; simp at this

theorem isNatTok_natBytes (n : Nat) : isNatTok (natBytes n) = true := by
  unfold isNatTok
  simp [natBytes_all_digit, natBytes_ne_nil]

theorem natOf_natBytes (n : Nat) : natOf (natBytes n) = n := parseNat_natBytes n

theorem natBytes_numTok (n : Nat) : numTok (natBytes n) = true := by
  unfold numTok
  have h := natBytes_all_digit n
  simp only [List.all_eq_true] at h
  simp only [Bool.and_eq_true, Bool.not_eq_true', List.all_eq_true]
  refine ⟨by simpa using natBytes_ne_nil n, fun c hc => isDigit_numChar c (h c hc)⟩

theorem intBytes_numTok (i : Int) : numTok (intBytes i) = true := by
  unfold intBytes
  split
  · have h := natBytes_numTok i.natAbs
    unfold numTok at *
    simp only [Bool.and_eq_true] at h
    simp [h.2]; decide
  · exact natBytes_numTok _

/-- a number token is neither `true` nor `false` -/
theorem numTok_not_kw (p : Bytes) (h : numTok p = true) : p ≠ kTrue ∧ p ≠ kFalse := by
  unfold numTok at h
  simp only [Bool.and_eq_true] at h
  constructor <;> (intro e; rw [e] at h; revert h; decide)

end C13L
