import CanvasProofs.Lemmas.C07Basics

/-! # C07 helper lemmas: quadratic forms of ellipses — push-forward, pull-back, and the soundness of the
executable arc verdict `arcOK` (CanvasModel/C07.lean), which `Drv/C07.lean` runs over exact rationals. -/
set_option linter.unusedSectionVars false
set_option linter.unusedVariables false
namespace C07
open Canvas Canvas.C07 GenK

variable {K : Type} [Field K] [LinearOrder K] [IsStrictOrderedRing K]

theorem pull_eval (g : Form K) (t00 t01 t10 t11 x y : K) :
    (g.pull t00 t01 t10 t11).eval x y = g.eval (t00 * x + t01 * y) (t10 * x + t11 * y) := by
  simp only [Form.pull, Form.eval]; ring

/-- the push-forward form takes on `M p` the value the original form takes on `p` -/
theorem push_eval (q : Form K) (ma mb md me x y : K) (hdet : ma * me - mb * md ≠ 0) :
    (q.push ma mb md me).eval (ma * x + mb * y) (md * x + me * y) = q.eval x y := by
  simp only [Form.push, Form.eval]
  generalize hD : ma * me - mb * md = D at hdet ⊢
  field_simp
  rw [← hD]
  ring

theorem pull_push (q : Form K) (ma mb md me : K) (hdet : ma * me - mb * md ≠ 0) :
    (q.push ma mb md me).pull ma mb md me = q := by
  cases q with | mk qa qb qc =>
  simp only [Form.push, Form.pull, Form.mk.injEq]
  generalize hD : ma * me - mb * md = D at hdet ⊢
  refine ⟨?_, ?_, ?_⟩ <;> field_simp <;> rw [← hD] <;> ring

/-- pulling back along a product `T·S` is pulling back along `T`, then along `S` -/
theorem pull_comp (g : Form K) (t00 t01 t10 t11 s00 s01 s10 s11 : K) :
    g.pull (t00 * s00 + t01 * s10) (t00 * s01 + t01 * s11) (t10 * s00 + t11 * s10) (t10 * s01 + t11 * s11) =
      (g.pull t00 t01 t10 t11).pull s00 s01 s10 s11 := by
  simp only [Form.pull, Form.mk.injEq]
  refine ⟨?_, ?_, ?_⟩ <;> ring

/-- in its own axes frame `R(c,s)·diag(rx, ry)` an ellipse is the unit circle -/
theorem ellipseForm_pull_axes (rx ry c s : K) (hcs : c * c + s * s = 1) (hrx : rx ≠ 0) (hry : ry ≠ 0) :
    (ellipseForm rx ry c s).pull (c * rx) (-(s * ry)) (s * rx) (c * ry) = ⟨1, 0, 1⟩ := by
  simp only [ellipseForm, Form.pull, Form.mk.injEq]
  refine ⟨?_, ?_, ?_⟩
  · field_simp
    linear_combination (ry * ry * (c * c + s * s + 1)) * hcs
  · field_simp
    ring
  · field_simp
    linear_combination (rx * rx * (c * c + s * s + 1)) * hcs

theorem frame_eq (ma mb md me rx ry c s : K) :
    frame ma mb md me rx ry c s =
      (ma * (c * rx) + mb * (s * rx), ma * (-(s * ry)) + mb * (c * ry), md * (c * rx) + me * (s * rx), md * (-(s * ry)) + me * (c * ry)) := by
  simp only [frame, Prod.mk.injEq]
  refine ⟨?_, ?_, ?_, ?_⟩ <;> ring

/-- the exact image ellipse passes the verdict with tolerance 0 -/
theorem arcOK_of_image (ma mb md me rx ry c s rx' ry' c' s' : K) (hcs : c * c + s * s = 1) (hdet : ma * me - mb * md ≠ 0)
    (hrx : rx ≠ 0) (hry : ry ≠ 0) (himg : ellipseForm rx' ry' c' s' = (ellipseForm rx ry c s).push ma mb md me) :
    arcOK ma mb md me rx ry c s rx' ry' c' s' 0 = true := by
  unfold arcOK
  rw [frame_eq]
  simp only []
  rw [himg, pull_comp, pull_push _ _ _ _ _ hdet, ellipseForm_pull_axes rx ry c s hcs hrx hry]
  simp [Form.nearId]

theorem nearId_iff (p : Form K) (rel : K) :
    p.nearId rel = true ↔ |p.a - 1| ≤ rel ∧ |p.b| ≤ rel ∧ |p.c - 1| ≤ rel := by
  simp only [Form.nearId, Bool.and_eq_true, decide_eq_true_iff, abs_le]
  constructor
  · rintro ⟨⟨⟨⟨⟨h1, h2⟩, h3⟩, h4⟩, h5⟩, h6⟩
    exact ⟨⟨by linarith, by linarith⟩, ⟨h3, h4⟩, ⟨by linarith, by linarith⟩⟩
  · rintro ⟨⟨h1, h2⟩, ⟨h3, h4⟩, ⟨h5, h6⟩⟩
    exact ⟨⟨⟨⟨⟨by linarith, by linarith⟩, h3⟩, h4⟩, by linarith⟩, by linarith⟩

/-- a form within `rel` of the identity takes values within `2·rel` of 1 on the unit circle -/
theorem nearId_eval (p : Form K) (rel x y : K) (h : p.nearId rel = true) (hxy : x * x + y * y = 1) :
    |p.eval x y - 1| ≤ 2 * rel := by
  rw [nearId_iff] at h
  obtain ⟨ha, hb, hc⟩ := h
  have hrel : 0 ≤ rel := le_trans (abs_nonneg _) hb
  have e : p.eval x y - 1 = (p.a - 1) * (x * x) + p.b * (2 * (x * y)) + (p.c - 1) * (y * y) := by
    simp only [Form.eval]; linear_combination hxy
  rw [e]
  have hx := mul_self_nonneg x
  have hy := mul_self_nonneg y
  have hxy2 : |2 * (x * y)| ≤ 1 := by
    rw [abs_le]
    constructor
    · nlinarith [mul_self_nonneg (x + y)]
    · nlinarith [mul_self_nonneg (x - y)]
  have t1 : |(p.a - 1) * (x * x)| ≤ rel * (x * x) := by
    rw [abs_mul, abs_of_nonneg hx]; exact mul_le_mul_of_nonneg_right ha hx
  have t3 : |(p.c - 1) * (y * y)| ≤ rel * (y * y) := by
    rw [abs_mul, abs_of_nonneg hy]; exact mul_le_mul_of_nonneg_right hc hy
  have t2 : |p.b * (2 * (x * y))| ≤ rel * 1 := by
    rw [abs_mul]; exact mul_le_mul hb hxy2 (abs_nonneg _) hrel
  calc |(p.a - 1) * (x * x) + p.b * (2 * (x * y)) + (p.c - 1) * (y * y)|
      ≤ |(p.a - 1) * (x * x) + p.b * (2 * (x * y))| + |(p.c - 1) * (y * y)| := abs_add_le _ _
    _ ≤ |(p.a - 1) * (x * x)| + |p.b * (2 * (x * y))| + |(p.c - 1) * (y * y)| := by
        have := abs_add_le ((p.a - 1) * (x * x)) (p.b * (2 * (x * y))); linarith
    _ ≤ rel * (x * x) + rel * 1 + rel * (y * y) := by linarith
    _ = 2 * rel := by linear_combination rel * hxy

end C07
