import CanvasProofs.Lemmas.C16Tiles
/-!
Lemmas for C16 (c): reorderSpans (every run of spans at a level or deeper is mirrored within its own
extent, for every level that starts at a span) re-tiles the interval of the line for ALL embedding
levels. Model: `extent`, `mir`, `mirror`, `fixGo`, `reorder` in CanvasModel/C16.lean.
-/
namespace Canvas.C16.Fix
open Canvas.C16

/-! ## proofs over `Int` -/

abbrev S := Span Int

theorem extent_fold (r : List S) : ∀ (lo hi : Int),
    let e := r.foldl (fun (lh : Int × Int) t =>
      (if t.x < lh.1 then t.x else lh.1, if lh.2 < t.x + t.w then t.x + t.w else lh.2)) (lo, hi)
    e.1 ≤ lo ∧ hi ≤ e.2 ∧ (∀ t ∈ r, e.1 ≤ t.x ∧ t.x + t.w ≤ e.2) ∧
    (e.1 = lo ∨ ∃ t ∈ r, t.x = e.1) ∧ (e.2 = hi ∨ ∃ t ∈ r, t.x + t.w = e.2) := by
  induction r with
  | nil => intro lo hi; simp
  | cons a r ih =>
    intro lo hi
    simp only [List.foldl_cons]
    have hl : (if a.x < lo then a.x else lo) ≤ lo ∧ (if a.x < lo then a.x else lo) ≤ a.x ∧
        ((if a.x < lo then a.x else lo) = lo ∨ (if a.x < lo then a.x else lo) = a.x) := by
      split <;> omega
    have hh : hi ≤ (if hi < a.x + a.w then a.x + a.w else hi) ∧ a.x + a.w ≤ (if hi < a.x + a.w then a.x + a.w else hi) ∧
        ((if hi < a.x + a.w then a.x + a.w else hi) = hi ∨ (if hi < a.x + a.w then a.x + a.w else hi) = a.x + a.w) := by
      split <;> omega
    generalize (if a.x < lo then a.x else lo) = lo' at hl ⊢
    generalize (if hi < a.x + a.w then a.x + a.w else hi) = hi' at hh ⊢
    have := ih lo' hi'
    simp only [] at this
    obtain ⟨h1, h2, h3, h4, h5⟩ := this
    refine ⟨by omega, by omega, ?_, ?_, ?_⟩
    · intro t ht
      simp only [List.mem_cons] at ht
      rcases ht with rfl | ht
      · omega
      · exact h3 t ht
    · rcases h4 with h4 | ⟨t, ht, hx⟩
      · rcases hl.2.2 with e | e
        · left; omega
        · right; exact ⟨a, List.mem_cons_self .., by omega⟩
      · right; exact ⟨t, List.mem_cons_of_mem _ ht, hx⟩
    · rcases h5 with h5 | ⟨t, ht, hx⟩
      · rcases hh.2.2 with e | e
        · left; omega
        · right; exact ⟨a, List.mem_cons_self .., by omega⟩
      · right; exact ⟨t, List.mem_cons_of_mem _ ht, hx⟩

/-- if all spans of the run lie in `[a,b]` and both ends are touched, the scanned extent is `(a,b)` -/
theorem extent_eq (s : S) (r : List S) (a b : Int)
    (hin : ∀ t ∈ s :: r, a ≤ t.x ∧ t.x + t.w ≤ b)
    (hlo : ∃ t ∈ s :: r, t.x = a) (hhi : ∃ t ∈ s :: r, t.x + t.w = b) :
    extent s r = (a, b) := by
  have hf : (extent s r).1 ≤ s.x ∧ s.x + s.w ≤ (extent s r).2 ∧
      (∀ t ∈ r, (extent s r).1 ≤ t.x ∧ t.x + t.w ≤ (extent s r).2) ∧
      ((extent s r).1 = s.x ∨ ∃ t ∈ r, t.x = (extent s r).1) ∧
      ((extent s r).2 = s.x + s.w ∨ ∃ t ∈ r, t.x + t.w = (extent s r).2) := extent_fold r s.x (s.x + s.w)
  obtain ⟨h1, h2, h3, h4, h5⟩ := hf
  have hs := hin s (List.mem_cons_self ..)
  obtain ⟨tl, htl, hxl⟩ := hlo
  obtain ⟨th, hth, hxh⟩ := hhi
  have e1 : (extent s r).1 = a := by
    have lb : a ≤ (extent s r).1 := by
      rcases h4 with h4 | ⟨t, ht, hx⟩
      · rw [h4]; exact hs.1
      · rw [← hx]; exact (hin t (List.mem_cons_of_mem _ ht)).1
    have ub : (extent s r).1 ≤ a := by
      simp only [List.mem_cons] at htl
      rcases htl with rfl | htl
      · rw [← hxl]; exact h1
      · rw [← hxl]; exact (h3 tl htl).1
    omega
  have e2 : (extent s r).2 = b := by
    have ub : (extent s r).2 ≤ b := by
      rcases h5 with h5 | ⟨t, ht, hx⟩
      · rw [h5]; exact hs.2
      · rw [← hx]; exact (hin t (List.mem_cons_of_mem _ ht)).2
    have lb : b ≤ (extent s r).2 := by
      simp only [List.mem_cons] at hth
      rcases hth with rfl | hth
      · rw [← hxh]; exact h2
      · rw [← hxh]; exact (h3 th hth).2
    omega
  exact Prod.ext e1 e2

theorem sumw_nonneg (l : List S) (h : ∀ t ∈ l, 0 ≤ t.w) : 0 ≤ sumw l := by
  induction l with
  | nil => simp [sumw]
  | cons a r ih =>
    have := h a (List.mem_cons_self ..)
    have := ih (fun t ht => h t (List.mem_cons_of_mem _ ht))
    simp [sumw]; omega

theorem contig_bounds (l : List S) : ∀ c, Contig c l → (∀ t ∈ l, 0 ≤ t.w) →
    ∀ t ∈ l, c ≤ t.x ∧ t.x + t.w ≤ c + sumw l := by
  induction l with
  | nil => intro c _ _ t ht; simp at ht
  | cons a r ih =>
    intro c hc hw t ht
    simp only [Contig] at hc
    have ha := hw a (List.mem_cons_self ..)
    have hr := sumw_nonneg r (fun t ht => hw t (List.mem_cons_of_mem _ ht))
    simp only [List.mem_cons] at ht
    simp only [sumw]
    rcases ht with rfl | ht
    · omega
    · have := ih (c + a.w) hc.2 (fun t ht => hw t (List.mem_cons_of_mem _ ht)) t ht
      omega

theorem contig_last (l : List S) : ∀ c, l ≠ [] → Contig c l → ∃ t ∈ l, t.x + t.w = c + sumw l := by
  induction l with
  | nil => intro c h; exact absurd rfl h
  | cons a r ih =>
    intro c _ hc
    simp only [Contig] at hc
    cases r with
    | nil => exact ⟨a, List.mem_cons_self .., by simp [sumw]; omega⟩
    | cons b r' =>
      obtain ⟨t, ht, hx⟩ := ih (c + a.w) (by simp) hc.2
      exact ⟨t, List.mem_cons_of_mem _ ht, by simp only [sumw] at *; omega⟩

theorem sumw_map_mir (K1 K2 : Int) (l : List S) : sumw (l.map (mir K1 K2)) = sumw l := by
  induction l with
  | nil => rfl
  | cons a r ih => simp [sumw, mir, ih]

theorem sumw_reverse (l : List S) : sumw l.reverse = sumw l := sumw_perm (List.reverse_perm l)

/-- mirroring a contiguous list about `K1+K2` gives a list that is contiguous in reverse order -/
theorem contig_mir (K1 K2 : Int) (l : List S) : ∀ c, Contig c l →
    Contig (K1 + K2 - c - sumw l) ((l.map (mir K1 K2)).reverse) := by
  induction l with
  | nil => intro c _; simp [Contig]
  | cons a r ih =>
    intro c hc
    simp only [Contig] at hc
    simp only [List.map_cons, List.reverse_cons]
    rw [contig_append]
    refine ⟨?_, ?_⟩
    · have := ih (c + a.w) hc.2
      simp only [sumw]
      rw [show K1 + K2 - c - (a.w + sumw r) = K1 + K2 - (c + a.w) - sumw r by omega]
      exact this
    · simp only [Contig, and_true, sumw_reverse, sumw_map_mir, sumw, mir]
      omega

/-- spans laid out monotonically from `a`: in logical order or in reverse logical order -/
def Mono (a : Int) (l : List S) : Prop := Contig a l ∨ Contig a l.reverse

theorem mono_facts {a : Int} {l : List S} (h : Mono a l) (hw : ∀ t ∈ l, 0 ≤ t.w) (hne : l ≠ []) :
    (∀ t ∈ l, a ≤ t.x ∧ t.x + t.w ≤ a + sumw l) ∧ (∃ t ∈ l, t.x = a) ∧ (∃ t ∈ l, t.x + t.w = a + sumw l) := by
  rcases h with h | h
  · refine ⟨contig_bounds l a h hw, ?_, contig_last l a hne h⟩
    cases l with
    | nil => exact absurd rfl hne
    | cons s r => exact ⟨s, List.mem_cons_self .., h.1⟩
  · have hw' : ∀ t ∈ l.reverse, 0 ≤ t.w := fun t ht => hw t (List.mem_reverse.mp ht)
    have hne' : l.reverse ≠ [] := by simpa using hne
    refine ⟨?_, ?_, ?_⟩
    · intro t ht
      have := contig_bounds l.reverse a h hw' t (List.mem_reverse.mpr ht)
      rw [sumw_reverse] at this; exact this
    · cases hr : l.reverse with
      | nil => exact absurd hr hne'
      | cons s r =>
        rw [hr] at h
        exact ⟨s, List.mem_reverse.mp (by rw [hr]; exact List.mem_cons_self ..), h.1⟩
    · obtain ⟨t, ht, hx⟩ := contig_last l.reverse a hne' h
      exact ⟨t, List.mem_reverse.mp ht, by rw [sumw_reverse] at hx; exact hx⟩

theorem mirror_sumw (l : List S) : sumw (mirror l) = sumw l := by
  unfold mirror
  split
  · rfl
  · rfl
  · exact sumw_map_mir _ _ _

theorem mirror_w (l : List S) (hw : ∀ t ∈ l, 0 ≤ t.w) : ∀ t ∈ mirror l, 0 ≤ t.w := by
  unfold mirror
  split
  · simpa using hw
  · simpa using hw
  · intro t ht
    simp only [List.mem_map] at ht
    obtain ⟨u, hu, rfl⟩ := ht
    exact hw u hu

/-- a monotone run stays monotone on the same interval when mirrored (the orientation flips) -/
theorem mirror_mono {a : Int} {l : List S} (h : Mono a l) (hw : ∀ t ∈ l, 0 ≤ t.w) : Mono a (mirror l) := by
  unfold mirror
  split
  · exact h
  · exact h
  · rename_i s t r
    obtain ⟨f1, f2, f3⟩ := mono_facts h hw (by simp)
    have he := extent_eq s (t :: r) a (a + sumw (s :: t :: r)) f1 f2 f3
    rw [he]
    simp only []
    rcases h with h | h
    · right
      have := contig_mir a (a + sumw (s :: t :: r)) (s :: t :: r) a h
      rw [show a + (a + sumw (s :: t :: r)) - a - sumw (s :: t :: r) = a by omega] at this
      exact this
    · left
      have := contig_mir a (a + sumw (s :: t :: r)) (s :: t :: r).reverse a h
      rw [sumw_reverse, show a + (a + sumw (s :: t :: r)) - a - sumw (s :: t :: r) = a by omega,
        List.map_reverse, List.reverse_reverse] at this
      exact this

theorem fixGo_sumw : ∀ (fuel prev : Nat) (l : List S), sumw (fixGo fuel prev l) = sumw l := by
  intro fuel
  induction fuel with
  | zero => intro prev l; simp [fixGo]
  | succ fuel ih =>
    intro prev l
    cases l with
    | nil => simp [fixGo]
    | cons s rest =>
      simp only [fixGo]
      split
      · rw [sumw_append, ih, ih, mirror_sumw]
        have hsplit := takeWhile_append_drop (fun t : S => decide (prev + 1 ≤ t.level)) rest
        generalize List.takeWhile (fun t : S => decide (prev + 1 ≤ t.level)) rest = inRun at hsplit ⊢
        generalize List.drop inRun.length rest = tail at hsplit ⊢
        subst hsplit
        simp [sumw, sumw_append]; omega
      · simp [sumw, ih]

theorem tiles_append_swap {x0 : Int} {a b : List S} (hb : Tiles x0 b) (ha : Tiles (x0 + sumw b) a) :
    Tiles x0 (a ++ b) := by
  obtain ⟨p, hp, hc⟩ := tiles_append hb ha
  exact ⟨p, hp.trans List.perm_append_comm, hc⟩

/-- MAIN: for every level list, from a monotone layout with non-negative widths the repaired
reorderSpans yields spans that tile the same interval -/
theorem fixGo_tiles : ∀ (fuel prev : Nat) (l : List S) (a : Int), (∀ t ∈ l, 0 ≤ t.w) → Mono a l →
    Tiles a (fixGo fuel prev l) := by
  intro fuel
  induction fuel with
  | zero =>
    intro prev l a _ h
    simp only [fixGo]
    rcases h with h | h
    · exact ⟨l, List.Perm.refl _, h⟩
    · exact ⟨l.reverse, List.reverse_perm l, h⟩
  | succ fuel ih =>
    intro prev l a hw h
    cases l with
    | nil => exact ⟨[], by simp [fixGo], trivial⟩
    | cons s rest =>
      simp only [fixGo]
      split
      · -- a run starts here
        have hsplit := takeWhile_append_drop (fun t : S => decide (prev + 1 ≤ t.level)) rest
        generalize List.takeWhile (fun t : S => decide (prev + 1 ≤ t.level)) rest = inRun at hsplit ⊢
        generalize List.drop inRun.length rest = tail at hsplit ⊢
        subst hsplit
        have hwr : ∀ t ∈ s :: inRun, 0 ≤ t.w := fun t ht => hw t (by
          simp only [List.mem_cons, List.mem_append] at ht ⊢
          rcases ht with ht | ht
          · exact Or.inl ht
          · exact Or.inr (Or.inl ht))
        have hwt : ∀ t ∈ tail, 0 ≤ t.w := fun t ht => hw t (by simp [ht])
        have hsw : sumw (fixGo fuel (prev + 1) (mirror (s :: inRun))) = sumw (s :: inRun) := by
          rw [fixGo_sumw, mirror_sumw]
        rcases h with h | h
        · -- logical order: the run comes first
          have h' : Contig a ((s :: inRun) ++ tail) := by simpa using h
          rw [contig_append] at h'
          apply tiles_append
          · exact ih _ _ a (mirror_w _ hwr) (mirror_mono (Or.inl h'.1) hwr)
          · rw [hsw]; exact ih _ _ _ hwt (Or.inl h'.2)
        · -- reverse order: the tail comes first
          have h' : Contig a (tail.reverse ++ (s :: inRun).reverse) := by
            have : (s :: (inRun ++ tail)).reverse = tail.reverse ++ (s :: inRun).reverse := by simp
            rw [this] at h; exact h
          rw [contig_append, sumw_reverse] at h'
          apply tiles_append_swap
          · exact ih _ _ a hwt (Or.inr h'.1)
          · rw [fixGo_sumw]
            exact ih _ _ _ (mirror_w _ hwr) (mirror_mono (Or.inr h'.2) hwr)
      · -- no boundary: the span stays
        have hwr : ∀ t ∈ rest, 0 ≤ t.w := fun t ht => hw t (List.mem_cons_of_mem _ ht)
        rcases h with h | h
        · simp only [Contig] at h
          exact tiles_cons h.1 (ih _ _ _ hwr (Or.inl h.2))
        · have h' : Contig a (rest.reverse ++ [s]) := by simpa using h
          rw [contig_append, sumw_reverse] at h'
          have : Tiles a ([s] ++ fixGo fuel s.level rest) := by
            apply tiles_append_swap
            · exact ih _ _ a hwr (Or.inr h'.1)
            · rw [fixGo_sumw]; exact ⟨[s], List.Perm.refl _, by simpa [Contig] using h'.2⟩
          simpa using this

/-- `reorder_perm` at full strength for the repaired code: all level sequences -/
theorem fix_tiles (x0 : Int) (l : List S) (hc : Contig x0 l) (hw : ∀ t ∈ l, 0 ≤ t.w) :
    Tiles x0 (reorder l) :=
  fixGo_tiles _ 0 l x0 hw (Or.inl hc)

/-- the three inputs on which the unrepaired code overlaps / misorders -/
example : (reorder [(⟨2, 0, 3⟩ : S), ⟨2, 3, 4⟩, ⟨1, 7, 5⟩]).map (·.x) = [5, 8, 0] := by decide
example : (reorder [(⟨1, 0, 1⟩ : S), ⟨2, 1, 1⟩, ⟨3, 2, 1⟩, ⟨3, 3, 1⟩, ⟨2, 4, 1⟩, ⟨1, 5, 1⟩]).map (·.x) = [5, 1, 3, 2, 4, 0] := by decide
example : (reorder [(⟨0, 0, 1⟩ : S), ⟨2, 1, 2⟩, ⟨1, 3, 1⟩, ⟨0, 4, 1⟩]).map (·.x) = [0, 2, 1, 4] := by decide

end Canvas.C16.Fix
