import CanvasModel.C19.Spec
import CanvasProofs.Lemmas.C19State
/-! `setStyling` is the pure `cascade`; the stack machine `walk` is the environment-passing `render`.
Generic in `Ops α`. -/
namespace C19
open Canvas Canvas.C19
variable {α : Type} (o : Ops α)

theorem withSty_sty (p : P α) : withSty p (sty p) = p := rfl
theorem sty_withSty (p : P α) (s : Sty α) : sty (withSty p s) = s := rfl
theorem withSty_withSty (p : P α) (s t : Sty α) : withSty (withSty p s) t = withSty p t := rfl

theorem setAttribute_withSty (p : P α) (s : Sty α) (k : String) (v : Val α) :
    setAttribute o (withSty p s) k v = withSty p (attrCore o p.diagonal s k v) := rfl

/-- a fold of steps that act through `withSty` is `withSty` of the fold -/
theorem foldl_withSty {β : Type} (p : P α) (f : Sty α → β → Sty α) (g : P α → β → P α)
    (hg : ∀ s b, g (withSty p s) b = withSty p (f s b)) (l : List β) :
    ∀ s, l.foldl g (withSty p s) = withSty p (l.foldl f s) := by
  induction l with
  | nil => intro s; rfl
  | cons b t ih => intro s; simp only [List.foldl_cons]; rw [hg, ih]

theorem setProps_withSty (p : P α) (s : Sty α) (props : List (String × Val α)) :
    setProps o (withSty p s) props = withSty p (propsCore o p.diagonal s props) := by
  unfold setProps propsCore
  exact foldl_withSty p _ _ (fun s kv => setAttribute_withSty o p s kv.1 kv.2) props s

theorem applyPlain_withSty (p : P α) (s : Sty α) (a : Attr α) :
    applyPlain o (withSty p s) a = withSty p (plainCore o p.diagonal s a) := by
  cases a with
  | plain k v => exact setAttribute_withSty o p s k v
  | style ps => rfl

theorem applyStyle_withSty (p : P α) (s : Sty α) (a : Attr α) :
    applyStyle o (withSty p s) a = withSty p (styleCore o p.diagonal s a) := by
  cases a with
  | plain k v => rfl
  | style ps => exact setProps_withSty o p s ps

theorem applyRules_withSty (p : P α) (s : Sty α) (rules : List (Rule α)) :
    applyRules o (withSty p s) rules = withSty p (rulesCore o p.diagonal p.elems s rules) := by
  unfold applyRules rulesCore
  exact foldl_withSty p _ _ (fun s (nr : Nat × Rule α) => setProps_withSty o p s nr.2.props) _ s

/-- **styling is the cascade**: `setStyling` changes nothing but style, importer state and error flag,
and computes them as the pure function `cascade` of the inherited values and the element's own
declarations (attributes, then matching rules by specificity and order, then the style attribute) -/
theorem setStyling_eq_cascade (p : P α) (attrs : List (Attr α)) :
    setStyling o p attrs = withSty p (cascade o p.diagonal p.rules p.elems (sty p) attrs) := by
  unfold setStyling cascade
  simp only []
  have h1 : attrs.foldl (applyPlain o) p = withSty p (attrs.foldl (plainCore o p.diagonal) (sty p)) := by
    have := foldl_withSty p (plainCore o p.diagonal) (applyPlain o) (fun s a => applyPlain_withSty o p s a) attrs (sty p)
    rwa [withSty_sty] at this
  rw [h1]
  have h2 : (withSty p (attrs.foldl (plainCore o p.diagonal) (sty p))).rules = p.rules := rfl
  rw [h2, applyRules_withSty]
  exact foldl_withSty p (styleCore o p.diagonal) (applyStyle o) (fun s a => applyStyle_withSty o p s a) attrs _

/-! ## stack machine = environment passing -/

theorem mkP_inh_thr (p : P α) : mkP (inhOf p) (thrOf p) = p := rfl
theorem inhOf_mkP (i : Inh α) (t : Thr α) : inhOf (mkP i t) = i := rfl
theorem thrOf_mkP (i : Inh α) (t : Thr α) : thrOf (mkP i t) = t := rfl

/-- popping after a subtree that left the pushed environment in place restores the caller's environment
and keeps the threaded outputs -/
theorem pop_mkP (i : Inh α) (t t' : Thr α) (tag : String) (attrs : List (Attr α)) (c : CState α) (s : SState α) :
    pop (mkP { inhOf (push (mkP i t) tag attrs) with ctx := c, st := s } t') = mkP i t' := by
  cases i; rfl

theorem enter_outer (i : Inh α) (t : Thr α) (tag : String) (attrs : List (Attr α)) :
    outer (enter o i t tag attrs) = outer (push (mkP i t) tag attrs) := by
  unfold enter
  have hd := congrArg Inner.out (inner_drawShape o (setStyling o (push (mkP i t) tag attrs) attrs) tag attrs)
  simp only [inner] at hd
  rw [hd, outer_setStyling]

theorem inhOf_eq_of_outer (q r : P α) (h : outer q = outer r) :
    inhOf q = { inhOf r with ctx := q.ctx, st := q.st } := by
  have h1 : q.ctxStack = r.ctxStack := congrArg Outer.ctxStack h
  have h2 : q.stStack = r.stStack := congrArg Outer.stStack h
  have h3 : q.elems = r.elems := congrArg Outer.elems h
  have h4 : q.cw = r.cw := congrArg Outer.cw h
  have h5 : q.ch = r.ch := congrArg Outer.ch h
  have h6 : q.width = r.width := congrArg Outer.width h
  have h7 : q.height = r.height := congrArg Outer.height h
  have h8 : q.diagonal = r.diagonal := congrArg Outer.diagonal h
  simp only [inhOf, h1, h2, h3, h4, h5, h6, h7, h8]

mutual
theorem walk_eq_render_aux : ∀ (t : Canvas.C19.Tree α) (i : Inh α) (th : Thr α),
    walk o t (mkP i th) = mkP i (render o t i th)
  | .elem tag attrs children, i, th => by
    rw [walk, render]
    have hq : drawShape o (setStyling o (push (mkP i th) tag attrs) attrs) tag attrs = enter o i th tag attrs := rfl
    rw [hq]
    have he := mkP_inh_thr (enter o i th tag attrs)
    rw [← he, walkList_eq_renderList_aux children, inhOf_mkP, thrOf_mkP,
      inhOf_eq_of_outer _ _ (enter_outer o i th tag attrs)]
    exact pop_mkP i th _ tag attrs _ _
  | .css rules, i, th => by rw [walk, render]; rfl
theorem walkList_eq_renderList_aux : ∀ (ts : List (Canvas.C19.Tree α)) (i : Inh α) (th : Thr α),
    walkList o ts (mkP i th) = mkP i (renderList o ts i th)
  | [], i, th => by rw [walkList, renderList]
  | t :: ts, i, th => by rw [walkList, renderList, walk_eq_render_aux t, walkList_eq_renderList_aux ts]
end

/-! ## importer cascade vs. the specification cascade -/

theorem stableSort_sorted {β : Type} (key : β → Nat) (l : List β)
    (h : l.Pairwise (fun a b => key a ≤ key b)) : stableSort key l = l := by
  induction l with
  | nil => rfl
  | cons x t ih =>
    have ht := (List.pairwise_cons.mp h).2
    have hx := (List.pairwise_cons.mp h).1
    show insFront key x (stableSort key t) = x :: t
    rw [ih ht]
    cases t with
    | nil => rfl
    | cons y ys => simp [insFront, hx y (List.mem_cons_self)]

theorem ruleSpec_isSome_aux (props : List (String × Val α)) (elems : List Elem) (sels : List Selector) :
    ∀ best : Option Nat,
      (sels.foldl (fun best s =>
        if ruleApplies (⟨[s], props⟩ : Rule α) elems then
          match best with
          | none => some (specificity s)
          | some b => some (max b (specificity s))
        else best) best).isSome =
      (best.isSome || sels.any (fun s => ruleApplies (⟨[s], props⟩ : Rule α) elems)) := by
  induction sels with
  | nil => intro best; simp
  | cons s t ih =>
    intro best
    simp only [List.foldl_cons, List.any_cons]
    rw [ih]
    by_cases h : ruleApplies (⟨[s], props⟩ : Rule α) elems = true
    · simp only [h, if_true, Bool.true_or, Bool.or_true]
      cases best <;> rfl
    · simp only [h, Bool.false_eq_true, if_false, Bool.false_or]

/-- a rule has a specificity on an element exactly when it applies to it -/
theorem ruleSpec_isSome (r : Rule α) (elems : List Elem) : (ruleSpec r elems).isSome = ruleApplies r elems := by
  unfold ruleSpec
  refine (ruleSpec_isSome_aux (α := α) r.props elems r.selectors none).trans ?_
  simp only [Option.isSome_none, Bool.false_or]
  unfold ruleApplies
  simp only [List.any_cons, List.any_nil, Bool.or_false]

end C19
