import CanvasProofs.Lemmas.C13Core

/-! Helper lemmas for C13: `Close` fills every reserved slot. -/
namespace C13L
open Canvas.C13

theorem inv_writeFontObjs (env : Env) {P : Nat → Prop} {c : Core} (r : Nat) (h : Inv P c) (hr : 1 ≤ r) :
    Inv (fun x => P x ∧ x ≠ r) (writeFontObjs env c r) := by
  unfold writeFontObjs
  exact inv_lateWrite r _ (inv_foldl_writeObject _ h) hr

theorem inv_writeFonts (env : Env) : ∀ (L : List Nat) {P : Nat → Prop} {c : Core}, Inv P c → (∀ r ∈ L, 1 ≤ r) →
    Inv (fun x => P x ∧ x ∉ L) (writeFonts env c L)
  | [], P, c, h, _ => by
    unfold writeFonts
    exact h.weaken (fun x hx => ⟨hx, by simp⟩)
  | r :: L, P, c, h, hL => by
    have h1 := inv_writeFontObjs env r h (hL r (by simp))
    have h2 := inv_writeFonts env L h1 (fun x hx => hL x (by simp [hx]))
    unfold writeFonts at *
    simp only [List.foldl_cons]
    refine h2.weaken ?_
    intro x hx
    simp only [List.mem_cons, not_or]
    exact ⟨hx.1.1, hx.1.2, hx.2⟩

/-- after everything `Close` writes before the xref table, no object number is pending -/
theorem inv_closeBody (env : Env) {s : St} (h : SInv s) : Inv (fun _ => False) (closeBody env s).core := by
  have h1 : SInv (flushPage env s) := sinv_flushPage env h
  unfold closeBody
  simp only []
  have hH : ∀ r ∈ (flushPage env s).fontsH.map (·.2), 1 ≤ r := fun r hr => (h1.refsH r hr).1
  have hV : ∀ r ∈ (flushPage env s).fontsV.map (·.2), 1 ≤ r := fun r hr => (h1.refsV r hr).1
  have i1 := inv_writeFonts env _ h1.inv hH
  have i2 := inv_writeFonts env _ i1 hV
  have i3 := inv_lateWrite 1 (catalogDict (flushPage env s)) i2 (Nat.le_refl 1)
  have i4 := inv_lateWrite 2 (infoDict env (flushPage env s)) i3 (by omega)
  have i5 := inv_lateWrite 3 (pagesDict (flushPage env s).pages) i4 (by omega)
  refine i5.weaken ?_
  intro x hx
  obtain ⟨⟨⟨⟨⟨hp, hnH⟩, hnV⟩, n1⟩, n2⟩, n3⟩ := hx
  unfold Pend at hp
  rcases hp with a | a | a | a | a
  · exact n1 a
  · exact n2 a
  · exact n3 a
  · exact hnH a
  · exact hnV a

theorem inv_close (env : Env) {s : St} (h : SInv s) : Inv (fun _ => False) (close env s).st.core := by
  unfold close
  exact inv_emit _ (inv_closeBody env h)

end C13L
