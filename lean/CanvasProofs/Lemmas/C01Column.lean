import CanvasModel.C01
/-! Induction over sweep-line columns: the winding fields computed by `computeSweepFields` are
the signed crossing sums of the non-vertical segments below (per polygon). Core Lean only. -/
namespace Canvas.C01

/-- signed crossings a segment contributes to (subject, clipping) for everything above it -/
def contrib (s : Seg) (f : Fields) : Int × Int :=
  if s.vertical then (0, 0) else if s.clipping then (f.osw, f.sw) else (f.sw, f.osw)

/-- crossing sums (subject, clipping) of all segments of a list -/
def sums : List (Seg × Fields) → Int × Int
  | [] => (0, 0)
  | (s, f) :: rest => ((contrib s f).1 + (sums rest).1, (contrib s f).2 + (sums rest).2)

/-- what the fields of a segment must be, given the sums below it: own polygon first -/
def expected (cur : Seg) (sc : Int × Int) : Int × Int := if cur.clipping then (sc.2, sc.1) else (sc.1, sc.2)

def Good : List (Seg × Fields) → Prop
  | [] => True
  | (s, f) :: below => (f.w, f.ow) = expected s (sums below) ∧ Good below

theorem compute_expected (below : List (Seg × Fields)) (cur : Seg) (h : Good below) :
    ((compute below cur).w, (compute below cur).ow) = expected cur (sums below) := by
  induction below with
  | nil => simp [compute, firstNonVertical, expected, sums]
  | cons hd rest ih =>
    obtain ⟨p, f⟩ := hd
    obtain ⟨hp, hrest⟩ := h
    by_cases hv : p.vertical = true
    · -- vertical segments are skipped and contribute nothing
      have e1 : compute ((p, f) :: rest) cur = compute rest cur := by
        simp [compute, firstNonVertical, hv]
      have e2 : sums ((p, f) :: rest) = sums rest := by
        simp [sums, contrib, hv]
      rw [e1, e2]; exact ih hrest
    · have hv' : p.vertical = false := by simpa using hv
      simp only [expected] at hp
      simp only [compute, firstNonVertical, hv', sums, contrib, expected]
      cases hc : cur.clipping <;> cases hpc : p.clipping <;> simp_all <;> omega

theorem good_step (below : List (Seg × Fields)) (cur : Seg) (h : Good below) :
    Good ((cur, compute below cur) :: below) :=
  ⟨compute_expected below cur h, h⟩

theorem good_foldl (col : List Seg) (acc : List (Seg × Fields)) (h : Good acc) :
    Good (col.foldl (fun acc s => (s, compute acc s) :: acc) acc) := by
  induction col generalizing acc with
  | nil => exact h
  | cons s rest ih => exact ih _ (good_step acc s h)

theorem good_foldColumn (col : List Seg) : Good (foldColumn col) :=
  good_foldl col [] trivial

/-- unfolding `Good` at any position of the processed column -/
theorem good_at (pre : List (Seg × Fields)) (s : Seg) (f : Fields) (below : List (Seg × Fields))
    (h : Good (pre ++ (s, f) :: below)) : (f.w, f.ow) = expected s (sums below) := by
  induction pre with
  | nil => exact h.1
  | cons x xs ih => exact ih h.2

end Canvas.C01
