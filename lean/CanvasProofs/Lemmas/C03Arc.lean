import CanvasGen.CoreK
import CanvasGen.BezierK
import Mathlib.Tactic.Ring
import Mathlib.Tactic.Linarith
/-! C03: the fixed relative error of `ellipseToCubicBeziers` (path_util.go:287) on a 90° piece. -/
set_option linter.unusedSectionVars false
namespace C03L
open Canvas GenK
variable {K : Type} [Field K] [LinearOrder K] [IsStrictOrderedRing K] [Env K]

/-- the control length of path_util.go:293: `sin(dθ)·(sqrt(4 + 3·tan²(dθ/2)) − 1)/3`, with the values of
sin, tan and the square root as arguments -/
def kappaK (sinD sq : K) : K := sinD * (sq - 1) / 3

/-- unit circle, dθ = 90° (sin = 1, tan(45°) = 1, so the root is √7 =: a): the cubic
(1,0),(1,κ),(κ,1),(0,1) built by the code passes at parameter 1/2 through a point whose distance r from
the centre satisfies 1 − 2.0e-3 ≤ r ≤ 1 − 1.9e-3 (stated for r²). -/
theorem quarter_midpoint_radius (a : K) (ha : 0 ≤ a) (ha2 : a * a = 4 + 3 * (1 * 1)) :
    let k := kappaK 1 a
    let m := cubicBezierPos (Pt.mk 1 0) (Pt.mk 1 k) (Pt.mk k 1) (Pt.mk 0 1) (1 / 2)
    (1 - 20 / 10000) ^ 2 ≤ m.x * m.x + m.y * m.y ∧ m.x * m.x + m.y * m.y ≤ (1 - 19 / 10000) ^ 2 := by
  have hlo : (26457 : K) / 10000 < a := by nlinarith
  have hhi : a < (26458 : K) / 10000 := by nlinarith
  simp only [kappaK, cubicBezierPos, Point.Mul, Point.Add]
  have e : (((1 - 3 * (1 / 2) + 3 * (1 / 2) * (1 / 2) - 1 / 2 * (1 / 2) * (1 / 2)) * 1 +
        (3 * (1 / 2) - 6 * (1 / 2) * (1 / 2) + 3 * (1 / 2) * (1 / 2) * (1 / 2)) * 1 +
        (3 * (1 / 2) * (1 / 2) - 3 * (1 / 2) * (1 / 2) * (1 / 2)) * (1 * (a - 1) / 3) +
        1 / 2 * (1 / 2) * (1 / 2) * 0) : K) = (3 + a) / 8 := by ring
  have e' : (((1 - 3 * (1 / 2) + 3 * (1 / 2) * (1 / 2) - 1 / 2 * (1 / 2) * (1 / 2)) * 0 +
        (3 * (1 / 2) - 6 * (1 / 2) * (1 / 2) + 3 * (1 / 2) * (1 / 2) * (1 / 2)) * (1 * (a - 1) / 3) +
        (3 * (1 / 2) * (1 / 2) - 3 * (1 / 2) * (1 / 2) * (1 / 2)) * 1 +
        1 / 2 * (1 / 2) * (1 / 2) * 1) : K) = (3 + a) / 8 := by ring
  rw [e, e']
  constructor <;> nlinarith

end C03L
