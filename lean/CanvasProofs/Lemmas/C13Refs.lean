import CanvasProofs.Lemmas.C13Res

/-! C13: every indirect reference the writer itself generates (page tree kids, page contents, font
and image resources, catalog, trailer) is the number of an entry of the final object table. -/
namespace C13L
open Canvas.C13

def InR (len r : Nat) : Prop := 1 ≤ r ∧ r ≤ len

theorem InR.mono {len len' r : Nat} (h : InR len r) (hl : len ≤ len') : InR len' r := ⟨h.1, Nat.le_trans h.2 hl⟩

/-- the references stored in a page's resource maps -/
def PRefs (p : Page) (len : Nat) : Prop := (∀ e ∈ p.fonts, InR len e.2) ∧ (∀ e ∈ p.xobjs, InR len e.2)

theorem PRefs.mono {p : Page} {len len' : Nat} (h : PRefs p len) (hl : len ≤ len') : PRefs p len' :=
  ⟨fun e he => (h.1 e he).mono hl, fun e he => (h.2 e he).mono hl⟩

theorem PRefs.of_eq {p p' : Page} {len : Nat} (h : PRefs p len) (hf : p'.fonts = p.fonts) (hx : p'.xobjs = p.xobjs) :
    PRefs p' len := by unfold PRefs; rw [hf, hx]; exact h

structure RefInv (s : St) : Prop where
  sinv : SInv s
  pages : ∀ r ∈ s.pages, 2 ≤ r ∧ r ≤ s.core.offs.length
  images : ∀ e ∈ s.images, InR s.core.offs.length e.2
  cur : ∀ p, s.page = some p → PRefs p s.core.offs.length
  done : ∀ p ∈ s.done, PRefs p s.core.offs.length

theorem setAlpha_maps (p : Page) (k pr : Bytes) : (p.setAlpha k pr).fonts = p.fonts ∧ (p.setAlpha k pr).xobjs = p.xobjs := by
  unfold Page.setAlpha; split
  · exact ⟨rfl, rfl⟩
  · split <;> exact ⟨rfl, rfl⟩

theorem setGradient_maps (env : Env) (p : Page) (st : Bool) (k a1 : Bytes) :
    (p.setGradient env st k a1).fonts = p.fonts ∧ (p.setGradient env st k a1).xobjs = p.xobjs := by
  have h := setAlpha_maps p env.alpha1 a1
  unfold Page.setGradient
  cases st
  · simp only [Bool.false_eq_true, if_false]; split
    · exact h
    · exact h
  · simp only [if_true]; split
    · exact h
    · exact h

theorem foldl_writeObject_len (vs : List Val) (c : Core) : c.offs.length ≤ (vs.foldl Core.writeObject c).offs.length := by
  induction vs generalizing c with
  | nil => exact Nat.le_refl _
  | cons v vs ih => exact Nat.le_trans (by rw [writeObject_len]; omega) (ih (c.writeObject v))

theorem getFont_images (s : St) (id : Nat) (vert : Bool) : (getFont s id vert).1.images = s.images := by
  unfold getFont
  cases vert <;> simp only [if_true, Bool.false_eq_true, if_false] <;> split <;> rfl

theorem getFont_len (s : St) (id : Nat) (vert : Bool) :
    s.core.offs.length ≤ (getFont s id vert).1.core.offs.length := by
  unfold getFont
  cases vert <;> simp only [if_true, Bool.false_eq_true, if_false] <;> split <;> simp [Core.reserve]

/-- the reference `getFont` returns is an entry of the (possibly extended) object table -/
theorem getFont_ref (s : St) (id : Nat) (vert : Bool) (h : SInv s) :
    InR (getFont s id vert).1.core.offs.length (getFont s id vert).2 := by
  have hs' := sinv_getFont id vert h
  unfold getFont at hs' ⊢
  cases vert
  · simp only [Bool.false_eq_true, if_false] at hs' ⊢
    split
    · next r heq =>
      have : r ∈ s.fontsH.map (·.2) := by
        unfold lookupFont at heq
        obtain ⟨e, he, rfl⟩ := Option.map_eq_some_iff.mp heq
        exact List.mem_map.mpr ⟨e, List.mem_of_find?_eq_some he, rfl⟩
      exact h.refsH r this
    · exact ⟨by simp [Core.reserve], Nat.le_refl _⟩
  · simp only [if_true] at hs' ⊢
    split
    · next r heq =>
      have : r ∈ s.fontsV.map (·.2) := by
        unfold lookupFont at heq
        obtain ⟨e, he, rfl⟩ := Option.map_eq_some_iff.mp heq
        exact List.mem_map.mpr ⟨e, List.mem_of_find?_eq_some he, rfl⟩
      exact h.refsV r this
    · exact ⟨by simp [Core.reserve], Nat.le_refl _⟩

theorem refinv_flush (env : Env) {s : St} (h : RefInv s) : RefInv (flushPage env s) ∧ (flushPage env s).page = none := by
  have hs := sinv_flushPage env h.sinv
  unfold flushPage at hs ⊢
  cases hp : s.page with
  | none => exact ⟨by simpa [hp] using h, hp⟩
  | some p =>
    simp only [hp] at hs
    have hlen : (writePage env s.compress s.core p).1.offs.length = s.core.offs.length + 2 := by
      simp [writePage, writeObject_len]
    have href : (writePage env s.compress s.core p).2 = s.core.offs.length + 2 := by
      simp [writePage, writeObject_len]
    refine ⟨⟨hs, ?_, ?_, ?_, ?_⟩, rfl⟩
    · intro r hr
      simp only [List.mem_append, List.mem_singleton] at hr
      show 2 ≤ r ∧ r ≤ (writePage env s.compress s.core p).1.offs.length
      rcases hr with hr | rfl
      · have := h.pages r hr; omega
      · rw [href, hlen]; omega
    · intro e he
      exact (h.images e he).mono (by show _ ≤ (writePage env s.compress s.core p).1.offs.length; omega)
    · intro q hq; cases hq
    · intro q hq
      simp only [List.mem_append, List.mem_singleton] at hq
      have hl : s.core.offs.length ≤ (writePage env s.compress s.core p).1.offs.length := by omega
      rcases hq with hq | rfl
      · exact (h.done q hq).mono hl
      · exact (h.cur q hp).mono hl

/-- operations that only rewrite the current page without touching its Font/XObject maps -/
theorem refinv_page_only {s : St} (h : RefInv s) {p p' : Page} (hp : s.page = some p)
    (hf : p'.fonts = p.fonts) (hx : p'.xobjs = p.xobjs) : RefInv { s with page := some p' } :=
  ⟨h.sinv, h.pages, h.images, fun q hq => by cases hq; exact (h.cur p hp).of_eq hf hx, h.done⟩

theorem refinv_step (env : Env) {s s' : St} (op : Op) (h : RefInv s) (hs : step env s op = some s') : RefInv s' := by
  have hs' := sinv_step env op h.sinv hs
  cases op with
  | setCompress b => simp [step] at hs; subst hs; exact ⟨hs', h.pages, h.images, h.cur, h.done⟩
  | setMeta k rs => simp [step] at hs; subst hs; exact ⟨hs', h.pages, h.images, h.cur, h.done⟩
  | writeObj v =>
    simp [step] at hs; subst hs
    have hl : s.core.offs.length ≤ (s.core.writeObject v).offs.length := by rw [writeObject_len]; omega
    exact ⟨hs', fun r hr => ⟨(h.pages r hr).1, Nat.le_trans (h.pages r hr).2 hl⟩, fun e he => (h.images e he).mono hl,
      fun p hp => (h.cur p hp).mono hl, fun p hp => (h.done p hp).mono hl⟩
  | getFont id vert =>
    simp [step] at hs; subst hs
    have hl := getFont_len s id vert
    have e1 := getFont_page_done s id vert
    refine ⟨hs', ?_, ?_, ?_, ?_⟩
    · rw [getFont_pages]; exact fun r hr => ⟨(h.pages r hr).1, Nat.le_trans (h.pages r hr).2 hl⟩
    · rw [getFont_images]; exact fun e he => (h.images e he).mono hl
    · rw [e1.1]; exact fun p hp => (h.cur p hp).mono hl
    · rw [e1.2]; exact fun p hp => (h.done p hp).mono hl
  | newPage w hh cm =>
    simp [step] at hs; subst hs
    have hf := (refinv_flush env h).1
    exact ⟨hs', hf.pages, hf.images, fun q hq => by cases hq; exact ⟨fun e he => by simp at he, fun e he => by simp at he⟩, hf.done⟩
  | pageWrite bs => simp [step] at hs; obtain ⟨p, hp, rfl⟩ := hs; exact refinv_page_only h hp rfl rfl
  | setAlpha k pr =>
    simp [step] at hs; obtain ⟨p, hp, rfl⟩ := hs
    exact refinv_page_only h hp (setAlpha_maps p k pr).1 (setAlpha_maps p k pr).2
  | setGradient st k a1 =>
    simp [step] at hs; obtain ⟨p, hp, rfl⟩ := hs
    exact refinv_page_only h hp (setGradient_maps env p st k a1).1 (setGradient_maps env p st k a1).2
  | addURI u a b c d => simp [step] at hs; obtain ⟨p, hp, rfl⟩ := hs; exact refinv_page_only h hp rfl rfl
  | startText =>
    simp only [step] at hs
    split at hs
    · simp at hs
    · next p hp =>
      split at hs
      · simp at hs
      · simp at hs; subst hs; exact refinv_page_only h hp rfl rfl
  | endText =>
    simp only [step] at hs
    split at hs
    · simp at hs
    · next p hp =>
      split at hs
      · simp at hs; subst hs; exact refinv_page_only h hp rfl rfl
      · simp at hs
  | setRenderMode m =>
    simp only [step] at hs
    split at hs
    · simp at hs
    · next p hp =>
      split at hs
      · simp at hs
      · split at hs
        · simp at hs; subst hs; exact h
        · simp at hs; subst hs; exact refinv_page_only h hp rfl rfl
  | setFont id k pr vert =>
    simp only [step] at hs
    split at hs
    · simp at hs
    · next p hp =>
      split at hs
      · simp at hs
      · split at hs
        · simp at hs; subst hs; exact h
        · simp at hs; subst hs
          have hl := getFont_len s id vert
          have e1 := getFont_page_done s id vert
          have hr := getFont_ref s id vert h.sinv
          refine ⟨hs', ?_, ?_, ?_, ?_⟩
          · show ∀ r ∈ (getFont s id vert).1.pages, _
            rw [getFont_pages]; exact fun r hr => ⟨(h.pages r hr).1, Nat.le_trans (h.pages r hr).2 hl⟩
          · show ∀ e ∈ (getFont s id vert).1.images, _
            rw [getFont_images]; exact fun e he => (h.images e he).mono hl
          · intro q hq
            simp only [Option.some.injEq] at hq
            subst hq
            have hc := (h.cur p hp).mono hl
            refine ⟨?_, hc.2⟩
            intro e he
            simp only [Page.write] at he
            split at he
            · exact hc.1 e he
            · simp only [List.mem_append, List.mem_singleton] at he
              rcases he with he | rfl
              · exact hc.1 e he
              · exact hr
          · show ∀ q ∈ (getFont s id vert).1.done, _
            rw [e1.2]; exact fun q hq => (h.done q hq).mono hl
  | drawImage id clip cm a1 =>
    simp only [step] at hs
    split at hs
    · simp at hs
    · next p hp =>
      simp at hs; subst hs
      -- embedImage
      have hE : s.core.offs.length ≤ (embedImage env s id).1.core.offs.length
          ∧ InR (embedImage env s id).1.core.offs.length (embedImage env s id).2
          ∧ (∀ e ∈ (embedImage env s id).1.images, InR (embedImage env s id).1.core.offs.length e.2) := by
        unfold embedImage
        split
        · next r heq =>
          have : (id, r) ∈ s.images ∨ ∃ e ∈ s.images, e.2 = r := by
            unfold lookupFont at heq
            obtain ⟨e, he, rfl⟩ := Option.map_eq_some_iff.mp heq
            exact Or.inr ⟨e, List.mem_of_find?_eq_some he, rfl⟩
          refine ⟨Nat.le_refl _, ?_, h.images⟩
          rcases this with h1 | ⟨e, he, rfl⟩
          · exact h.images _ h1
          · exact h.images e he
        · have hl := foldl_writeObject_len (env.imageVals id) s.core
          have h3 := h.sinv.inv.three
          refine ⟨hl, ⟨by show 1 ≤ (List.foldl Core.writeObject s.core (env.imageVals id)).offs.length; omega, Nat.le_refl _⟩, ?_⟩
          intro e he
          simp only [List.mem_append, List.mem_singleton] at he
          rcases he with he | rfl
          · exact (h.images e he).mono hl
          · exact ⟨by show 1 ≤ (List.foldl Core.writeObject s.core (env.imageVals id)).offs.length; omega, Nat.le_refl _⟩
      have hpg : (embedImage env s id).1.pages = s.pages := embedImage_pages env s id
      have hdn : (embedImage env s id).1.done = s.done := embedImage_done env s id
      unfold drawImage
      refine ⟨hs', ?_, hE.2.2, ?_, ?_⟩
      · show ∀ r ∈ (embedImage env s id).1.pages, _
        rw [hpg]; exact fun r hr => ⟨(h.pages r hr).1, Nat.le_trans (h.pages r hr).2 hE.1⟩
      · intro q hq
        simp only [Option.some.injEq] at hq
        subst hq
        have hc := ((h.cur p hp).of_eq (setAlpha_maps p env.alpha1 a1).1 (setAlpha_maps p env.alpha1 a1).2).mono hE.1
        refine ⟨hc.1, ?_⟩
        intro e he
        simp only [Page.write, List.mem_append, List.mem_singleton] at he
        rcases he with he | rfl
        · exact hc.2 e he
        · exact hE.2.1
      · show ∀ q ∈ (embedImage env s id).1.done, _
        rw [hdn]; exact fun q hq => (h.done q hq).mono hE.1

theorem refinv_run (env : Env) : ∀ (ops : List Op) {s s' : St}, RefInv s → run env s ops = some s' → RefInv s'
  | [], s, s', h, hs => by simp [run] at hs; subst hs; exact h
  | op :: ops, s, s', h, hs => by
    simp only [run] at hs
    split at hs
    · simp at hs
    · next s1 h1 => exact refinv_run env ops (refinv_step env op h h1) hs

theorem refinv_init : RefInv ({} : St) :=
  ⟨sinv_init0, fun r hr => by simp at hr, fun e he => by simp at he, fun p hp => by simp at hp, fun p hp => by simp at hp⟩

theorem writeFontObjs_len (env : Env) (c : Core) (r : Nat) : c.offs.length ≤ (writeFontObjs env c r).offs.length := by
  unfold writeFontObjs
  rw [lateWrite_len]
  exact foldl_writeObject_len _ c

theorem writeFonts_len (env : Env) (L : List Nat) (c : Core) : c.offs.length ≤ (writeFonts env c L).offs.length := by
  unfold writeFonts
  induction L generalizing c with
  | nil => exact Nat.le_refl _
  | cons r L ih => exact Nat.le_trans (writeFontObjs_len env c r) (ih _)

theorem close_len (env : Env) (s : St) :
    (flushPage env s).core.offs.length ≤ (close env s).st.core.offs.length := by
  simp only [close, closeBody, emit_offs, lateWrite_len]
  exact Nat.le_trans (writeFonts_len env _ _) (writeFonts_len env _ _)

end C13L
