import CanvasModel.C07
import CanvasGen.CoreK
import Mathlib.Tactic.Ring
import Mathlib.Tactic.Linarith
import Mathlib.Tactic.FieldSimp
import Mathlib.Tactic.Positivity
import Mathlib.Tactic.LinearCombination

/-! # C07 helper lemmas (ordered field `K`): the `Ops K` instance of the hand-written model, the laws
assumed of the abstract `Env` functions, `Equal`, `solveQuadratic`. -/
set_option linter.unusedSectionVars false
set_option linter.unusedVariables false
namespace C07
open Canvas Canvas.C07 GenK

variable {K : Type} [Field K] [LinearOrder K] [IsStrictOrderedRing K] [Env K]

/-- the hand-written model over `K`: the *generated* definitions of /repo and the abstract `Env`.
`fmod` (math.Mod) and `nan` are never looked at by a theorem. -/
instance opsK : Ops K where
  equal := GenK.Equal
  mmul := GenK.Matrix.Mul
  minv := GenK.Matrix.Inv
  mT := GenK.Matrix.T
  mdet := GenK.Matrix.Det
  mdot := GenK.Matrix.Dot
  mscale := GenK.Matrix.Scale
  mtranslate := GenK.Matrix.Translate
  decompose := GenK.Matrix.Decompose
  sqrt := Env.sqrt
  hypot := Env.hypot
  atan2 := Env.atan2
  sin := Env.sin
  cos := Env.cos
  abs := fun x => |x|
  fmod := fun x _ => x
  pi := Env.pi
  nan := 0

@[simp] theorem ops_equal (a b : K) : Ops.equal a b = GenK.Equal a b := rfl
@[simp] theorem ops_mmul (m q : Mat K) : Ops.mmul m q = Matrix.Mul m q := rfl
@[simp] theorem ops_minv (m : Mat K) : Ops.minv m = Matrix.Inv m := rfl
@[simp] theorem ops_mT (m : Mat K) : Ops.mT m = Matrix.T m := rfl
@[simp] theorem ops_mdet (m : Mat K) : Ops.mdet m = Matrix.Det m := rfl
@[simp] theorem ops_mdot (m : Mat K) (p : Pt K) : Ops.mdot m p = Matrix.Dot m p := rfl
@[simp] theorem ops_mscale (m : Mat K) (x y : K) : Ops.mscale m x y = Matrix.Scale m x y := rfl
@[simp] theorem ops_mtranslate (m : Mat K) (x y : K) : Ops.mtranslate m x y = Matrix.Translate m x y := rfl
@[simp] theorem ops_decompose (m : Mat K) : Ops.decompose m = Matrix.Decompose m := rfl
@[simp] theorem ops_sqrt (a : K) : Ops.sqrt a = Env.sqrt a := rfl
@[simp] theorem ops_hypot (a b : K) : Ops.hypot a b = Env.hypot a b := rfl
@[simp] theorem ops_atan2 (a b : K) : Ops.atan2 a b = Env.atan2 a b := rfl
@[simp] theorem ops_sin (a : K) : Ops.sin a = Env.sin a := rfl
@[simp] theorem ops_cos (a : K) : Ops.cos a = Env.cos a := rfl
@[simp] theorem ops_abs (a : K) : Ops.abs a = |a| := rfl
@[simp] theorem ops_pi : (Ops.pi : K) = Env.pi := rfl

/-- What the theorems assume of the abstract functions of `Env` (all true of the real functions).
Each theorem names the fields it uses through this structure; the idealisation `epsilon = 0`
(exact comparisons) is a separate, explicit hypothesis wherever it is needed. -/
structure Laws (K : Type) [Field K] [LinearOrder K] [IsStrictOrderedRing K] [Env K] : Prop where
  sqrt_sq : ∀ x : K, 0 ≤ x → Env.sqrt x * Env.sqrt x = x
  hypot_sq : ∀ x y : K, Env.hypot x y * Env.hypot x y = x * x + y * y
  cos_add : ∀ x y : K, Env.cos (x + y) = Env.cos x * Env.cos y - Env.sin x * Env.sin y
  sin_add : ∀ x y : K, Env.sin (x + y) = Env.sin x * Env.cos y + Env.cos x * Env.sin y
  cos_sub : ∀ x y : K, Env.cos (x - y) = Env.cos x * Env.cos y + Env.sin x * Env.sin y
  sin_sub : ∀ x y : K, Env.sin (x - y) = Env.sin x * Env.cos y - Env.cos x * Env.sin y
  cos_zero : Env.cos (0 : K) = 1
  sin_zero : Env.sin (0 : K) = 0
  /-- `atan2 y x` is the angle of the vector `(x, y)` -/
  atan2_cos : ∀ x y : K, Env.sqrt (x * x + y * y) * Env.cos (Env.atan2 y x) = x
  atan2_sin : ∀ x y : K, Env.sqrt (x * x + y * y) * Env.sin (Env.atan2 y x) = y
  pi_ne : (Env.pi : K) ≠ 0

theorem Laws.cos_sq_add_sin_sq (L : Laws K) (x : K) : Env.cos x * Env.cos x + Env.sin x * Env.sin x = 1 := by
  have h := L.cos_sub x x
  rw [sub_self, L.cos_zero] at h
  linarith

theorem Laws.cos_neg (L : Laws K) (x : K) : Env.cos (-x) = Env.cos x := by
  have h := L.cos_sub 0 x
  rw [zero_sub, L.cos_zero, L.sin_zero] at h
  linarith

theorem Laws.sin_neg (L : Laws K) (x : K) : Env.sin (-x) = -Env.sin x := by
  have h := L.sin_sub 0 x
  rw [zero_sub, L.cos_zero, L.sin_zero] at h
  linarith

theorem Laws.sqrt_eq_zero (L : Laws K) {x : K} (hx : 0 ≤ x) (h : Env.sqrt x = 0) : x = 0 := by
  have := L.sqrt_sq x hx
  rw [h] at this
  linarith

/-! ## `Equal` -/

theorem equal_iff_abs (a b : K) : Equal a b = true ↔ |a - b| ≤ (Env.epsilon : K) := by
  unfold Equal
  split
  · rename_i h
    rw [decide_eq_true_iff, abs_of_neg (by linarith), neg_sub]
  · rename_i h
    rw [decide_eq_true_iff, abs_of_nonneg (by linarith [not_lt.mp h])]

/-- with exact comparisons (`Epsilon = 0`) `Equal` is equality -/
theorem equal_iff_eq (h0 : (Env.epsilon : K) = 0) (a b : K) : Equal a b = true ↔ a = b := by
  rw [equal_iff_abs, h0]
  constructor
  · intro h
    have := abs_nonneg (a - b)
    have h' : |a - b| = 0 := le_antisymm h this
    exact sub_eq_zero.mp (abs_eq_zero.mp h')
  · rintro rfl
    simp

theorem equal_false_iff_ne (h0 : (Env.epsilon : K) = 0) (a b : K) : Equal a b = false ↔ a ≠ b := by
  have := equal_iff_eq h0 a b
  cases h : Equal a b <;> simp_all

theorem equal_refl (h0 : (0 : K) ≤ Env.epsilon) (a : K) : Equal a a = true := by
  rw [equal_iff_abs]; simpa using h0

theorem equal_symm (a b : K) : Equal a b = Equal b a := by
  have h1 := equal_iff_abs a b
  have h2 := equal_iff_abs b a
  rw [abs_sub_comm] at h1
  cases hA : Equal a b <;> cases hB : Equal b a <;> simp_all
  · exact absurd h2 (not_le.mpr h1)

/-! ## `Matrix.Rotate` -/

theorem rotateSC_eq (m : Mat K) (s c : K) :
    rotateSC m s c = Mat.mk (m.a * c + m.b * s) (m.b * c - m.a * s) m.c (m.d * c + m.e * s) (m.e * c - m.d * s) m.f := by
  simp only [rotateSC, rotMat, ops_mmul, Matrix.Mul]
  congr 1 <;> ring

/-! ## `solveQuadraticFormula` -/

/-- the Go function never returns `(NaN, x)` -/
theorem solveQuadratic_fst_none' (a b c : K) (h : (solveQuadratic a b c).1 = none) : (solveQuadratic a b c).2 = none := by
  unfold solveQuadratic at h ⊢
  simp only [ops_equal] at h ⊢
  split_ifs at h ⊢ <;> simp_all

end C07
