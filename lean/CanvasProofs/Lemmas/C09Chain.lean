import CanvasModel.C09
/-! C09 helper lemmas: chains of drawing commands and their reversal. Core Lean only. -/
namespace C09L
open Canvas Canvas.Path Canvas.C09
variable {α : Type}

/-- induction from the end of a list -/
theorem rev_ind {β : Type} {motive : List β → Prop} (nil : motive [])
    (snoc : ∀ xs y, motive xs → motive (xs ++ [y])) (l : List β) : motive l := by
  have h : ∀ l : List β, motive l.reverse := by
    intro l
    induction l with
    | nil => exact nil
    | cons x xs ih => rw [List.reverse_cons]; exact snoc _ _ ih
  have := h l.reverse
  rwa [List.reverse_reverse] at this

@[simp] theorem retarget_endp (c : Cmd α) (e : Pt α) : (retarget c e).endp = e := by
  cases c <;> rfl

@[simp] theorem retarget_isDraw (c : Cmd α) (e : Pt α) : (retarget c e).isDraw = c.isDraw := by
  cases c <;> rfl

@[simp] theorem retarget_isLine (c : Cmd α) (e : Pt α) : isLine (retarget c e) = isLine c := by
  cases c <;> rfl

@[simp] theorem retarget_isMove (c : Cmd α) (e : Pt α) : (retarget c e).isMove = c.isMove := by
  cases c <;> rfl

/-- reversing a command twice (back to its own end point) gives the command -/
@[simp] theorem retarget_retarget (c : Cmd α) (e : Pt α) : retarget (retarget c e) c.endp = c := by
  cases c <;> simp [retarget, Cmd.endp]

theorem isLine_eq (c : Cmd α) (h : isLine c = true) : c = .line c.endp := by
  cases c <;> simp_all [isLine, Cmd.endp]

theorem isDraw_not_move (c : Cmd α) (h : c.isDraw = true) : c.isMove = false := by
  cases c <;> simp_all [Cmd.isDraw, Cmd.isMove]

@[simp] theorem chainEnd_nil (a : Pt α) : chainEnd a [] = a := rfl
@[simp] theorem chainEnd_cons (a : Pt α) (c : Cmd α) (cs : List (Cmd α)) :
    chainEnd a (c :: cs) = chainEnd c.endp cs := rfl

theorem chainEnd_append (a : Pt α) (xs ys : List (Cmd α)) :
    chainEnd a (xs ++ ys) = chainEnd (chainEnd a xs) ys := by
  induction xs generalizing a with
  | nil => rfl
  | cons c cs ih => simp [ih]

@[simp] theorem chainEnd_snoc (a : Pt α) (xs : List (Cmd α)) (y : Cmd α) :
    chainEnd a (xs ++ [y]) = y.endp := by
  simp [chainEnd_append]

@[simp] theorem revChain_nil (a : Pt α) : revChain a [] = [] := rfl
@[simp] theorem revChain_cons (a : Pt α) (c : Cmd α) (cs : List (Cmd α)) :
    revChain a (c :: cs) = revChain c.endp cs ++ [retarget c a] := rfl

theorem revChain_append (a : Pt α) (xs ys : List (Cmd α)) :
    revChain a (xs ++ ys) = revChain (chainEnd a xs) ys ++ revChain a xs := by
  induction xs generalizing a with
  | nil => simp
  | cons c cs ih => simp [ih]

theorem revChain_snoc (a : Pt α) (xs : List (Cmd α)) (y : Cmd α) :
    revChain a (xs ++ [y]) = retarget y (chainEnd a xs) :: revChain a xs := by
  simp [revChain_append]

@[simp] theorem revChain_length (a : Pt α) (cs : List (Cmd α)) : (revChain a cs).length = cs.length := by
  induction cs generalizing a with
  | nil => rfl
  | cons c cs ih => simp [ih]

theorem revChain_eq_nil (a : Pt α) (cs : List (Cmd α)) : revChain a cs = [] ↔ cs = [] := by
  constructor
  · intro h
    have := congrArg List.length h
    simp at this
    exact this
  · intro h; subst h; rfl

/-- the reversed chain ends where the chain started -/
theorem chainEnd_revChain (a b : Pt α) (cs : List (Cmd α)) (h : cs ≠ []) :
    chainEnd b (revChain a cs) = a := by
  cases cs with
  | nil => exact absurd rfl h
  | cons c cs => simp

theorem chainEnd_revChain_self (a : Pt α) (cs : List (Cmd α)) :
    chainEnd (chainEnd a cs) (revChain a cs) = a := by
  cases cs with
  | nil => rfl
  | cons c cs => simp

/-- reversing a chain twice gives the chain -/
theorem revChain_revChain (a : Pt α) (cs : List (Cmd α)) :
    revChain (chainEnd a cs) (revChain a cs) = cs := by
  induction cs generalizing a with
  | nil => rfl
  | cons c cs ih =>
    simp only [chainEnd_cons, revChain_cons]
    rw [revChain_append, chainEnd_revChain_self, ih]
    simp

theorem revChain_all_draw (a : Pt α) (cs : List (Cmd α)) (h : cs.all Cmd.isDraw = true) :
    (revChain a cs).all Cmd.isDraw = true := by
  induction cs generalizing a with
  | nil => rfl
  | cons c cs ih =>
    simp only [List.all_cons, Bool.and_eq_true] at h
    simp [ih _ h.2, h.1]

theorem firstIsLine_append (xs ys : List (Cmd α)) (h : xs ≠ []) :
    firstIsLine (xs ++ ys) = firstIsLine xs := by
  cases xs with
  | nil => exact absurd rfl h
  | cons c cs => rfl

theorem firstIsLine_revChain (a : Pt α) (cs : List (Cmd α)) :
    firstIsLine (revChain a cs) = lastIsLine cs := by
  induction cs generalizing a with
  | nil => rfl
  | cons c cs ih =>
    cases cs with
    | nil => simp [firstIsLine, lastIsLine]
    | cons d ds =>
      rw [revChain_cons, firstIsLine_append _ _ (by simp [revChain_eq_nil]), ih]
      rfl

theorem lastIsLine_snoc (xs : List (Cmd α)) (y : Cmd α) : lastIsLine (xs ++ [y]) = isLine y := by
  induction xs with
  | nil => rfl
  | cons c cs ih =>
    cases cs with
    | nil => rfl
    | cons d ds => simpa [lastIsLine] using ih

theorem lastIsLine_revChain (a : Pt α) (cs : List (Cmd α)) :
    lastIsLine (revChain a cs) = firstIsLine cs := by
  cases cs with
  | nil => rfl
  | cons c cs => simp [lastIsLine_snoc, firstIsLine]

end C09L
