import CanvasModel.C04
/-! C04 helper lemmas: the control skeleton of `offset()` — which joins and caps are requested.
Core Lean only; by induction over the state list. -/
namespace C04L
open Canvas Canvas.C04
variable {α : Type}

/-- the pairs of states between which `offset()` looks at a join: consecutive states, and
(last, first) when the subpath is closed -/
def adjPairs (first : Seg α) (closed : Bool) : List (Seg α) → List (Seg α × Seg α)
  | [] => []
  | [s] => if closed then [(s, first)] else []
  | s :: t :: rest => (s, t) :: adjPairs first closed (t :: rest)

/-- a corner: the end normal of `s` differs from the start normal of `t` -/
def isCorner (eqN : Pt α → Pt α → Bool) (p : Seg α × Seg α) : Bool := !eqN p.1.n1 p.2.n0

theorem joinOf_length (eqN : Pt α → Pt α → Bool) (s t : Seg α) :
    (joinOf eqN s t).length = if isCorner eqN (s, t) then 1 else 0 := by
  unfold joinOf isCorner
  cases eqN s.n1 t.n0 <;> simp

theorem joinOf_all_join (eqN : Pt α → Pt α → Bool) (s t : Seg α) :
    ∀ e ∈ joinOf eqN s t, e.isJoin = true := by
  intro e he
  unfold joinOf at he
  cases h : eqN s.n1 t.n0 <;> simp [h] at he
  subst he; rfl

theorem joinsFrom_all_join (eqN : Pt α → Pt α → Bool) (first : Seg α) (closed : Bool) :
    ∀ segs : List (Seg α), ∀ e ∈ joinsFrom eqN first closed segs, e.isJoin = true := by
  intro segs
  induction segs with
  | nil => intro e he; simp [joinsFrom] at he
  | cons s tl ih =>
    cases tl with
    | nil =>
      intro e he
      cases closed <;> simp [joinsFrom] at he
      exact joinOf_all_join eqN s first e he
    | cons t rest =>
      intro e he
      simp only [joinsFrom, List.mem_append] at he
      rcases he with he | he
      · exact joinOf_all_join eqN s t e he
      · exact ih e he

theorem joinsFrom_length (eqN : Pt α → Pt α → Bool) (first : Seg α) (closed : Bool) :
    ∀ segs : List (Seg α),
      (joinsFrom eqN first closed segs).length = (adjPairs first closed segs).countP (isCorner eqN) := by
  intro segs
  induction segs with
  | nil => simp [joinsFrom, adjPairs]
  | cons s tl ih =>
    cases tl with
    | nil =>
      cases closed
      · simp [joinsFrom, adjPairs]
      · simp only [joinsFrom, adjPairs, if_true, joinOf_length, List.countP_cons, List.countP_nil]
        cases isCorner eqN (s, first) <;> simp
    | cons t rest =>
      simp only [joinsFrom, adjPairs, List.length_append, joinOf_length, List.countP_cons, ih]
      cases isCorner eqN (s, t) <;> simp <;> omega

theorem adjPairs_length (first : Seg α) (closed : Bool) :
    ∀ segs : List (Seg α), segs ≠ [] →
      (adjPairs first closed segs).length = if closed then segs.length else segs.length - 1 := by
  intro segs
  induction segs with
  | nil => intro h; exact absurd rfl h
  | cons s tl ih =>
    intro _
    cases tl with
    | nil => cases closed <;> simp [adjPairs]
    | cons t rest =>
      have := ih (by simp)
      simp only [adjPairs, List.length_cons] at this ⊢
      cases closed <;> simp_all <;> omega

theorem filter_isJoin_of_all (es : List (Ev α)) (h : ∀ e ∈ es, e.isJoin = true) :
    es.filter Ev.isJoin = es := List.filter_eq_self.mpr h

theorem isCap_of_isJoin (e : Ev α) (h : e.isJoin = true) : e.isCap = false := by
  cases e <;> simp_all [Ev.isJoin, Ev.isCap]

theorem filter_isCap_of_all (es : List (Ev α)) (h : ∀ e ∈ es, e.isJoin = true) :
    es.filter Ev.isCap = [] := by
  apply List.filter_eq_nil_iff.mpr
  intro e he
  simp [isCap_of_isJoin e (h e he)]

end C04L
