import CanvasProofs.Lemmas.C07Basics

/-! # C07 helper lemmas: `Matrix.Decompose` recomposed, `Matrix.ToSVG` notations -/
set_option linter.unusedSectionVars false
set_option linter.unusedVariables false
namespace C07
open Canvas Canvas.C07 GenK

variable {K : Type} [Field K] [LinearOrder K] [IsStrictOrderedRing K] [Env K]

/-- `Identity.Translate(tx,ty).Rotate(phi).Scale(sx,sy).Rotate(theta)` written out -/
theorem recompose_entries (tx ty phi sx sy theta : K) :
    recompose (tx, ty, phi, sx, sy, theta) =
      Mat.mk (Env.cos (phi * Env.pi / 180) * sx * Env.cos (theta * Env.pi / 180) - Env.sin (phi * Env.pi / 180) * sy * Env.sin (theta * Env.pi / 180))
        (-(Env.sin (phi * Env.pi / 180) * sy * Env.cos (theta * Env.pi / 180)) - Env.cos (phi * Env.pi / 180) * sx * Env.sin (theta * Env.pi / 180))
        tx
        (Env.sin (phi * Env.pi / 180) * sx * Env.cos (theta * Env.pi / 180) + Env.cos (phi * Env.pi / 180) * sy * Env.sin (theta * Env.pi / 180))
        (Env.cos (phi * Env.pi / 180) * sy * Env.cos (theta * Env.pi / 180) - Env.sin (phi * Env.pi / 180) * sx * Env.sin (theta * Env.pi / 180))
        ty := by
  simp only [recompose, rotate, rotateSC_eq, ops_mscale, ops_mtranslate, ops_sin, ops_cos, ops_pi, identity,
    Matrix.Translate, Matrix.Scale, Matrix.Mul]
  congr 1 <;> ring

/-- the linear part `R(φ)·diag(Q+R, Q−R)·R(θ)` with `φ+θ = a2`, `φ−θ = a1` is `Q·R(a2) + R·R(a1)·diag(1,−1)` -/
theorem recompose_core (L : Laws K) (E F G H Qv Rv a1 a2 φ θ : K) (hφθ : φ + θ = a2) (hφθ' : φ - θ = a1)
    (hE : Qv * Env.cos a2 = E) (hH : Qv * Env.sin a2 = H) (hF : Rv * Env.cos a1 = F) (hG : Rv * Env.sin a1 = G) :
    Env.cos φ * (Qv + Rv) * Env.cos θ - Env.sin φ * (Qv - Rv) * Env.sin θ = E + F ∧
    -(Env.sin φ * (Qv - Rv) * Env.cos θ) - Env.cos φ * (Qv + Rv) * Env.sin θ = G - H ∧
    Env.sin φ * (Qv + Rv) * Env.cos θ + Env.cos φ * (Qv - Rv) * Env.sin θ = G + H ∧
    Env.cos φ * (Qv - Rv) * Env.cos θ - Env.sin φ * (Qv + Rv) * Env.sin θ = E - F := by
  have hc2 := L.cos_add φ θ
  have hs2 := L.sin_add φ θ
  have hc1 := L.cos_sub φ θ
  have hs1 := L.sin_sub φ θ
  rw [hφθ] at hc2 hs2
  rw [hφθ'] at hc1 hs1
  refine ⟨?_, ?_, ?_, ?_⟩
  · linear_combination (-Qv) * hc2 - Rv * hc1 + hE + hF
  · linear_combination Qv * hs2 - Rv * hs1 - hH + hG
  · linear_combination (-Qv) * hs2 - Rv * hs1 + hH + hG
  · linear_combination (-Qv) * hc2 + Rv * hc1 + hE - hF

/-- **`Decompose` describes the same transformation**: with exact comparisons, for *every* matrix
(also singular ones and reflections), `Identity.Translate(tx,ty).Rotate(phi).Scale(sx,sy).Rotate(theta)`
built from the six results of `Decompose` is the matrix itself. Covers the merged-rotation branch
(`sx = sy = 1`: `theta += phi; phi = 0`). -/
theorem decompose_recompose' (L : Laws K) (h0 : (Env.epsilon : K) = 0) (m : Mat K) :
    recompose (Matrix.Decompose m) = m := by
  have hpi := L.pi_ne
  -- abbreviations of the Go code
  have hE := L.atan2_cos ((m.a + m.e) / 2) ((m.d - m.b) / 2)
  have hH := L.atan2_sin ((m.a + m.e) / 2) ((m.d - m.b) / 2)
  have hF := L.atan2_cos ((m.a - m.e) / 2) ((m.d + m.b) / 2)
  have hG := L.atan2_sin ((m.a - m.e) / 2) ((m.d + m.b) / 2)
  unfold Matrix.Decompose
  simp only []
  generalize hQ : Env.sqrt ((m.a + m.e) / 2 * ((m.a + m.e) / 2) + (m.d - m.b) / 2 * ((m.d - m.b) / 2)) = Qv at hE hH ⊢
  generalize hR : Env.sqrt ((m.a - m.e) / 2 * ((m.a - m.e) / 2) + (m.d + m.b) / 2 * ((m.d + m.b) / 2)) = Rv at hF hG ⊢
  generalize Env.atan2 ((m.d - m.b) / 2) ((m.a + m.e) / 2) = a2 at hE hH ⊢
  generalize Env.atan2 ((m.d + m.b) / 2) ((m.a - m.e) / 2) = a1 at hF hG ⊢
  split_ifs with hm
  · -- merged rotation: sx = sy = 1, so R = 0 and the matrix is a rotation
    obtain ⟨h1, h2⟩ := hm
    rw [equal_iff_eq h0] at h1 h2
    have hRv : Rv = 0 := by linarith
    have hQv : Qv = 1 := by linarith
    rw [recompose_entries]
    have hz : (0 : K) * Env.pi / 180 = 0 := by simp
    have ha : ((a2 - a1) / 2 * 180 / Env.pi + (a2 + a1) / 2 * 180 / Env.pi) * Env.pi / 180 = a2 := by
      field_simp; ring
    rw [hz, ha, L.cos_zero, L.sin_zero, h1, h2]
    rw [hRv] at hF hG
    rw [hQv] at hE hH
    cases m with | mk a b c d e f =>
    simp only at hE hH hF hG ⊢
    congr 1
    · linear_combination hE + hF
    · linear_combination (-1 : K) * hH + hG
    · linear_combination hH + hG
    · linear_combination hE - hF
  · rw [recompose_entries]
    have hφ : (a2 + a1) / 2 * 180 / Env.pi * Env.pi / 180 = (a2 + a1) / 2 := by field_simp
    have hθ : (a2 - a1) / 2 * 180 / Env.pi * Env.pi / 180 = (a2 - a1) / 2 := by field_simp
    rw [hφ, hθ]
    obtain ⟨g1, g2, g3, g4⟩ := recompose_core L ((m.a + m.e) / 2) ((m.a - m.e) / 2) ((m.d + m.b) / 2) ((m.d - m.b) / 2)
      Qv Rv a1 a2 ((a2 + a1) / 2) ((a2 - a1) / 2) (by ring) (by ring) hE hH hF hG
    cases m with | mk a b c d e f =>
    simp only at g1 g2 g3 g4 ⊢
    congr 1
    · rw [g1]; ring
    · rw [g2]; ring
    · rw [g3]; ring
    · rw [g4]; ring

theorem Laws.cos_bound (L : Laws K) (x : K) : -1 ≤ Env.cos x ∧ Env.cos x ≤ 1 := by
  have h := L.cos_sq_add_sin_sq x
  constructor <;> nlinarith [mul_self_nonneg (Env.sin x), mul_self_nonneg (Env.cos x + 1), mul_self_nonneg (Env.cos x - 1)]

theorem Laws.sin_bound (L : Laws K) (x : K) : -1 ≤ Env.sin x ∧ Env.sin x ≤ 1 := by
  have h := L.cos_sq_add_sin_sq x
  constructor <;> nlinarith [mul_self_nonneg (Env.cos x), mul_self_nonneg (Env.sin x + 1), mul_self_nonneg (Env.sin x - 1)]

/-- entrywise distance of two matrices is at most `δ` -/
def MatWithin (p q : Mat K) (δ : K) : Prop :=
  |p.a - q.a| ≤ δ ∧ |p.b - q.b| ≤ δ ∧ |p.c - q.c| ≤ δ ∧ |p.d - q.d| ≤ δ ∧ |p.e - q.e| ≤ δ ∧ |p.f - q.f| ≤ δ

theorem abs_mul_diff_le {r u v ε : K} (hr : |r| ≤ ε) (hu : -1 ≤ u ∧ u ≤ 1) (hv : -1 ≤ v ∧ v ≤ 1) : |r * (u - v)| ≤ 2 * ε := by
  rw [abs_mul]
  have h1 : |u - v| ≤ 2 := by rw [abs_le]; constructor <;> linarith [hu.1, hu.2, hv.1, hv.2]
  have := abs_nonneg r
  have := abs_nonneg (u - v)
  nlinarith

theorem abs_mul_sum_le {r u v ε : K} (hr : |r| ≤ ε) (hu : -1 ≤ u ∧ u ≤ 1) (hv : -1 ≤ v ∧ v ≤ 1) : |r * (u + v)| ≤ 2 * ε := by
  have := abs_mul_diff_le hr hu (show -1 ≤ -v ∧ -v ≤ 1 by constructor <;> linarith [hv.1, hv.2])
  simpa using this

/-- The same statement for the real tolerance: for any `Epsilon ≥ 0` the recomposed matrix is within
`2·Epsilon` of `m` in every entry (the merged-rotation branch replaces `R(φ)·diag(sx,sy)·R(θ)` by
`diag(sx,sy)·R(θ+φ)` when both scales are within Epsilon of 1). -/
theorem decompose_recompose_within' (L : Laws K) (h0 : (0 : K) ≤ Env.epsilon) (m : Mat K) :
    MatWithin (recompose (Matrix.Decompose m)) m (2 * Env.epsilon) := by
  have hpi := L.pi_ne
  have hE := L.atan2_cos ((m.a + m.e) / 2) ((m.d - m.b) / 2)
  have hH := L.atan2_sin ((m.a + m.e) / 2) ((m.d - m.b) / 2)
  have hF := L.atan2_cos ((m.a - m.e) / 2) ((m.d + m.b) / 2)
  have hG := L.atan2_sin ((m.a - m.e) / 2) ((m.d + m.b) / 2)
  have h2e : (0 : K) ≤ 2 * Env.epsilon := by linarith
  unfold Matrix.Decompose
  simp only []
  generalize hQ : Env.sqrt ((m.a + m.e) / 2 * ((m.a + m.e) / 2) + (m.d - m.b) / 2 * ((m.d - m.b) / 2)) = Qv at hE hH ⊢
  generalize hR : Env.sqrt ((m.a - m.e) / 2 * ((m.a - m.e) / 2) + (m.d + m.b) / 2 * ((m.d + m.b) / 2)) = Rv at hF hG ⊢
  generalize Env.atan2 ((m.d - m.b) / 2) ((m.a + m.e) / 2) = a2 at hE hH ⊢
  generalize Env.atan2 ((m.d + m.b) / 2) ((m.a - m.e) / 2) = a1 at hF hG ⊢
  split_ifs with hm
  · obtain ⟨h1, h2⟩ := hm
    rw [equal_iff_abs] at h1 h2
    have hRv : |Rv| ≤ Env.epsilon := by
      rw [abs_le] at h1 h2 ⊢
      constructor <;> linarith [h1.1, h1.2, h2.1, h2.2]
    rw [recompose_entries]
    have hz : (0 : K) * Env.pi / 180 = 0 := by simp
    have ha : ((a2 - a1) / 2 * 180 / Env.pi + (a2 + a1) / 2 * 180 / Env.pi) * Env.pi / 180 = a2 := by
      field_simp; ring
    rw [hz, ha, L.cos_zero, L.sin_zero]
    have c1 := L.cos_bound a1
    have c2 := L.cos_bound a2
    have s1 := L.sin_bound a1
    have s2 := L.sin_bound a2
    cases m with | mk a b c d e f =>
    simp only [MatWithin] at hE hH hF hG ⊢
    refine ⟨?_, ?_, by simpa using h2e, ?_, ?_, by simpa using h2e⟩
    · have : 1 * (Qv + Rv) * Env.cos a2 - 0 * (Qv - Rv) * Env.sin a2 - a = Rv * (Env.cos a2 - Env.cos a1) := by
        linear_combination hE + hF
      rw [this]; exact abs_mul_diff_le hRv c2 c1
    · have : -(0 * (Qv - Rv) * Env.cos a2) - 1 * (Qv + Rv) * Env.sin a2 - b = -(Rv * (Env.sin a2 + Env.sin a1)) := by
        linear_combination (-1 : K) * hH + hG
      rw [this, abs_neg]; exact abs_mul_sum_le hRv s2 s1
    · have : 0 * (Qv + Rv) * Env.cos a2 + 1 * (Qv - Rv) * Env.sin a2 - d = -(Rv * (Env.sin a2 + Env.sin a1)) := by
        linear_combination hH + hG
      rw [this, abs_neg]; exact abs_mul_sum_le hRv s2 s1
    · have : 1 * (Qv - Rv) * Env.cos a2 - 0 * (Qv + Rv) * Env.sin a2 - e = -(Rv * (Env.cos a2 - Env.cos a1)) := by
        linear_combination hE - hF
      rw [this, abs_neg]; exact abs_mul_diff_le hRv c2 c1
  · rw [recompose_entries]
    have hφ : (a2 + a1) / 2 * 180 / Env.pi * Env.pi / 180 = (a2 + a1) / 2 := by field_simp
    have hθ : (a2 - a1) / 2 * 180 / Env.pi * Env.pi / 180 = (a2 - a1) / 2 := by field_simp
    rw [hφ, hθ]
    obtain ⟨g1, g2, g3, g4⟩ := recompose_core L ((m.a + m.e) / 2) ((m.a - m.e) / 2) ((m.d + m.b) / 2) ((m.d - m.b) / 2)
      Qv Rv a1 a2 ((a2 + a1) / 2) ((a2 - a1) / 2) (by ring) (by ring) hE hH hF hG
    cases m with | mk a b c d e f =>
    simp only [MatWithin] at g1 g2 g3 g4 ⊢
    rw [g1, g2, g3, g4]
    refine ⟨?_, ?_, by simpa using h2e, ?_, ?_, by simpa using h2e⟩ <;>
    · have : ∀ x y : K, x = y → |x - y| ≤ 2 * Env.epsilon := by
        intro x y h; rw [h]; simpa using h2e
      apply this; ring

end C07
