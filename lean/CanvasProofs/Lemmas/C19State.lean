import CanvasModel.C19
/-! Frame lemmas for the C19 model, generic in `Ops α`: which parts of the parser state each phase of
the document walk can touch. -/
namespace C19
open Canvas Canvas.C19
variable {α : Type} (o : Ops α)

/-- the parts of the state that only push/pop/init touch: both stacks, the element stack and the
document dimensions -/
structure Outer (α : Type) where
  ctxStack : List (CState α)
  stStack : List (SState α)
  elems : List Elem
  cw : α
  ch : α
  width : α
  height : α
  diagonal : α

def outer (p : P α) : Outer α :=
  ⟨p.ctxStack, p.stStack, p.elems, p.cw, p.ch, p.width, p.height, p.diagonal⟩

theorem outer_setAttribute (p : P α) (k : String) (v : Val α) : outer (setAttribute o p k v) = outer p := by
  unfold setAttribute
  split <;> rfl

theorem rules_setAttribute (p : P α) (k : String) (v : Val α) : (setAttribute o p k v).rules = p.rules := by
  unfold setAttribute
  split <;> rfl

theorem layers_setAttribute (p : P α) (k : String) (v : Val α) : (setAttribute o p k v).layers = p.layers := by
  unfold setAttribute
  split <;> rfl

theorem outer_setProps (props : List (String × Val α)) : ∀ p : P α, outer (setProps o p props) = outer p := by
  unfold setProps
  induction props with
  | nil => intro p; rfl
  | cons kv t ih => intro p; simp only [List.foldl_cons]; rw [ih, outer_setAttribute]

theorem layers_setProps (props : List (String × Val α)) : ∀ p : P α, (setProps o p props).layers = p.layers := by
  unfold setProps
  induction props with
  | nil => intro p; rfl
  | cons kv t ih => intro p; simp only [List.foldl_cons]; rw [ih, layers_setAttribute]

theorem rules_setProps (props : List (String × Val α)) : ∀ p : P α, (setProps o p props).rules = p.rules := by
  unfold setProps
  induction props with
  | nil => intro p; rfl
  | cons kv t ih => intro p; simp only [List.foldl_cons]; rw [ih, rules_setAttribute]

theorem outer_applyRules (rules : List (Rule α)) : ∀ p : P α, outer (applyRules o p rules) = outer p := by
  unfold applyRules
  induction rules with
  | nil => intro p; rfl
  | cons r t ih =>
    intro p; simp only [List.foldl_cons]; rw [ih]
    split
    · exact outer_setProps o _ _
    · rfl

theorem layers_applyRules (rules : List (Rule α)) : ∀ p : P α, (applyRules o p rules).layers = p.layers := by
  unfold applyRules
  induction rules with
  | nil => intro p; rfl
  | cons r t ih =>
    intro p; simp only [List.foldl_cons]; rw [ih]
    split
    · exact layers_setProps o _ _
    · rfl

theorem rules_applyRules (rules : List (Rule α)) : ∀ p : P α, (applyRules o p rules).rules = p.rules := by
  unfold applyRules
  induction rules with
  | nil => intro p; rfl
  | cons r t ih =>
    intro p; simp only [List.foldl_cons]; rw [ih]
    split
    · exact rules_setProps o _ _
    · rfl

theorem outer_applyAttr (p : P α) (a : Attr α) : outer (applyAttr o p a) = outer p := by
  cases a with
  | plain k v => exact outer_setAttribute o p k v
  | style props => exact outer_setProps o props p

theorem layers_applyAttr (p : P α) (a : Attr α) : (applyAttr o p a).layers = p.layers := by
  cases a with
  | plain k v => exact layers_setAttribute o p k v
  | style props => exact layers_setProps o props p

theorem rules_applyAttr (p : P α) (a : Attr α) : (applyAttr o p a).rules = p.rules := by
  cases a with
  | plain k v => exact rules_setAttribute o p k v
  | style props => exact rules_setProps o props p

theorem outer_foldAttrs (attrs : List (Attr α)) : ∀ p : P α, outer (attrs.foldl (applyAttr o) p) = outer p := by
  induction attrs with
  | nil => intro p; rfl
  | cons a t ih => intro p; simp only [List.foldl_cons]; rw [ih, outer_applyAttr]

theorem layers_foldAttrs (attrs : List (Attr α)) : ∀ p : P α, (attrs.foldl (applyAttr o) p).layers = p.layers := by
  induction attrs with
  | nil => intro p; rfl
  | cons a t ih => intro p; simp only [List.foldl_cons]; rw [ih, layers_applyAttr]

theorem rules_foldAttrs (attrs : List (Attr α)) : ∀ p : P α, (attrs.foldl (applyAttr o) p).rules = p.rules := by
  induction attrs with
  | nil => intro p; rfl
  | cons a t ih => intro p; simp only [List.foldl_cons]; rw [ih, rules_applyAttr]

theorem outer_setStyling (p : P α) (attrs : List (Attr α)) : outer (setStyling o p attrs) = outer p := by
  unfold setStyling; rw [outer_foldAttrs, outer_applyRules]

/-- styling never draws -/
theorem layers_setStyling (p : P α) (attrs : List (Attr α)) : (setStyling o p attrs).layers = p.layers := by
  unfold setStyling; rw [layers_foldAttrs, layers_applyRules]

theorem rules_setStyling (p : P α) (attrs : List (Attr α)) : (setStyling o p attrs).rules = p.rules := by
  unfold setStyling; rw [rules_foldAttrs, rules_applyRules]

/-- the part of the state drawing cannot touch: everything but `err`, `layers`, `lens` -/
structure Inner (α : Type) where
  ctx : CState α
  st : SState α
  rules : List (Rule α)
  out : Outer α

def inner (p : P α) : Inner α := ⟨p.ctx, p.st, p.rules, outer p⟩

theorem inner_dimAttr (p : P α) (attrs : List (Attr α)) (k : String) (par : α) :
    inner (dimAttr o p attrs k par).2 = inner p := by
  unfold dimAttr
  split <;> rfl

theorem inner_drawPath (p : P α) (x y : α) (path : RPath α) : inner (drawPath o p x y path) = inner p := by
  unfold drawPath
  simp only []
  split <;> rfl

/-- drawing appends at most one layer on top -/
theorem layers_drawPath (p : P α) (x y : α) (path : RPath α) :
    ∃ new, (drawPath o p x y path).layers = new ++ p.layers ∧ new.length ≤ 1 := by
  unfold drawPath
  simp only []
  split
  · exact ⟨[], rfl, by simp⟩
  · exact ⟨[_], rfl, by simp⟩

theorem layers_dimAttr (p : P α) (attrs : List (Attr α)) (k : String) (par : α) :
    (dimAttr o p attrs k par).2.layers = p.layers := by
  unfold dimAttr
  split <;> rfl

theorem inner_drawShape (p : P α) (tag : String) (attrs : List (Attr α)) :
    inner (drawShape o p tag attrs) = inner p := by
  unfold drawShape
  split
  all_goals (try split)
  all_goals simp only [inner_drawPath, inner_dimAttr]

theorem layers_drawShape (p : P α) (tag : String) (attrs : List (Attr α)) :
    ∃ new, (drawShape o p tag attrs).layers = new ++ p.layers ∧ new.length ≤ 1 := by
  unfold drawShape
  split
  all_goals (try split)
  all_goals first
    | exact ⟨[], rfl, by simp⟩
    | (obtain ⟨n, h1, h2⟩ := layers_drawPath o _ _ _ _
       refine ⟨n, ?_, h2⟩
       rw [h1]; try simp only [layers_dimAttr])

end C19
