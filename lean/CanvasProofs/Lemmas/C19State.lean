import CanvasModel.C19
/-! Frame lemmas for the C19 model, generic in `Ops α`: which parts of the parser state each phase of
the document walk can touch. -/
namespace C19
open Canvas Canvas.C19
variable {α : Type} (o : Ops α)

/-- the parts of the state that only push/pop/init touch: both stacks, the element stack and the
document dimensions -/
structure Outer (α : Type) where
  ctxStack : List (CState α)
  stStack : List (SState α)
  elems : List Elem
  cw : α
  ch : α
  width : α
  height : α
  diagonal : α

def outer (p : P α) : Outer α :=
  ⟨p.ctxStack, p.stStack, p.elems, p.cw, p.ch, p.width, p.height, p.diagonal⟩

theorem outer_setAttribute (p : P α) (k : String) (v : Val α) : outer (setAttribute o p k v) = outer p := rfl

theorem rules_setAttribute (p : P α) (k : String) (v : Val α) : (setAttribute o p k v).rules = p.rules := rfl

theorem layers_setAttribute (p : P α) (k : String) (v : Val α) : (setAttribute o p k v).layers = p.layers := rfl

theorem outer_setProps (props : List (String × Val α)) : ∀ p : P α, outer (setProps o p props) = outer p := by
  unfold setProps
  induction props with
  | nil => intro p; rfl
  | cons kv t ih => intro p; simp only [List.foldl_cons]; rw [ih, outer_setAttribute]

theorem layers_setProps (props : List (String × Val α)) : ∀ p : P α, (setProps o p props).layers = p.layers := by
  unfold setProps
  induction props with
  | nil => intro p; rfl
  | cons kv t ih => intro p; simp only [List.foldl_cons]; rw [ih, layers_setAttribute]

theorem rules_setProps (props : List (String × Val α)) : ∀ p : P α, (setProps o p props).rules = p.rules := by
  unfold setProps
  induction props with
  | nil => intro p; rfl
  | cons kv t ih => intro p; simp only [List.foldl_cons]; rw [ih, rules_setAttribute]

/-- a fold of state transformers that each preserve a projection preserves it -/
theorem foldl_preserves {β γ : Type} (f : P α → β → P α) (g : P α → γ) (h : ∀ p b, g (f p b) = g p)
    (l : List β) : ∀ p : P α, g (l.foldl f p) = g p := by
  induction l with
  | nil => intro p; rfl
  | cons a t ih => intro p; simp only [List.foldl_cons]; rw [ih, h]

theorem applyRules_nil (p : P α) : applyRules o p [] = p := rfl

theorem outer_applyRules (rules : List (Rule α)) (p : P α) : outer (applyRules o p rules) = outer p := by
  unfold applyRules
  exact foldl_preserves _ outer (fun q (nr : Nat × Rule α) => outer_setProps o nr.2.props q) _ p

theorem layers_applyRules (rules : List (Rule α)) (p : P α) : (applyRules o p rules).layers = p.layers := by
  unfold applyRules
  exact foldl_preserves _ (fun q => q.layers) (fun q (nr : Nat × Rule α) => layers_setProps o nr.2.props q) _ p

theorem rules_applyRules (rules : List (Rule α)) (p : P α) : (applyRules o p rules).rules = p.rules := by
  unfold applyRules
  exact foldl_preserves _ (fun q => q.rules) (fun q (nr : Nat × Rule α) => rules_setProps o nr.2.props q) _ p

theorem outer_applyPlain (p : P α) (a : Attr α) : outer (applyPlain o p a) = outer p := by
  cases a with
  | plain k v => exact outer_setAttribute o p k v
  | style props => rfl

theorem layers_applyPlain (p : P α) (a : Attr α) : (applyPlain o p a).layers = p.layers := by
  cases a with
  | plain k v => exact layers_setAttribute o p k v
  | style props => rfl

theorem rules_applyPlain (p : P α) (a : Attr α) : (applyPlain o p a).rules = p.rules := by
  cases a with
  | plain k v => exact rules_setAttribute o p k v
  | style props => rfl

theorem outer_applyStyle (p : P α) (a : Attr α) : outer (applyStyle o p a) = outer p := by
  cases a with
  | plain k v => rfl
  | style props => exact outer_setProps o props p

theorem layers_applyStyle (p : P α) (a : Attr α) : (applyStyle o p a).layers = p.layers := by
  cases a with
  | plain k v => rfl
  | style props => exact layers_setProps o props p

theorem rules_applyStyle (p : P α) (a : Attr α) : (applyStyle o p a).rules = p.rules := by
  cases a with
  | plain k v => rfl
  | style props => exact rules_setProps o props p

theorem outer_setStyling (p : P α) (attrs : List (Attr α)) : outer (setStyling o p attrs) = outer p := by
  unfold setStyling
  simp only []
  rw [foldl_preserves (applyStyle o) outer (outer_applyStyle o), outer_applyRules,
    foldl_preserves (applyPlain o) outer (outer_applyPlain o)]

/-- styling never draws -/
theorem layers_setStyling (p : P α) (attrs : List (Attr α)) : (setStyling o p attrs).layers = p.layers := by
  unfold setStyling
  simp only []
  rw [foldl_preserves (applyStyle o) (fun q => q.layers) (layers_applyStyle o), layers_applyRules,
    foldl_preserves (applyPlain o) (fun q => q.layers) (layers_applyPlain o)]

theorem rules_setStyling (p : P α) (attrs : List (Attr α)) : (setStyling o p attrs).rules = p.rules := by
  unfold setStyling
  simp only []
  rw [foldl_preserves (applyStyle o) (fun q => q.rules) (rules_applyStyle o), rules_applyRules,
    foldl_preserves (applyPlain o) (fun q => q.rules) (rules_applyPlain o)]

/-- the part of the state drawing cannot touch: everything but `err`, `layers`, `lens` -/
structure Inner (α : Type) where
  ctx : CState α
  st : SState α
  rules : List (Rule α)
  out : Outer α

def inner (p : P α) : Inner α := ⟨p.ctx, p.st, p.rules, outer p⟩

theorem inner_dimAttr (p : P α) (attrs : List (Attr α)) (k : String) (par : α) :
    inner (dimAttr o p attrs k par).2 = inner p := by
  unfold dimAttr
  split <;> rfl

theorem inner_drawPath (p : P α) (x y : α) (path : RPath α) : inner (drawPath o p x y path) = inner p := by
  unfold drawPath
  simp only []
  split <;> rfl

/-- drawing appends at most one layer on top -/
theorem layers_drawPath (p : P α) (x y : α) (path : RPath α) :
    ∃ new, (drawPath o p x y path).layers = new ++ p.layers ∧ new.length ≤ 1 := by
  unfold drawPath
  simp only []
  split
  · exact ⟨[], rfl, by simp⟩
  · exact ⟨[_], rfl, by simp⟩

theorem layers_dimAttr (p : P α) (attrs : List (Attr α)) (k : String) (par : α) :
    (dimAttr o p attrs k par).2.layers = p.layers := by
  unfold dimAttr
  split <;> rfl

theorem inner_drawShapeCore (p : P α) (tag : String) (attrs : List (Attr α)) :
    inner (drawShapeCore o p tag attrs) = inner p := by
  unfold drawShapeCore
  split
  all_goals (try split)
  all_goals simp only [inner_drawPath, inner_dimAttr]

theorem layers_drawShapeCore (p : P α) (tag : String) (attrs : List (Attr α)) :
    ∃ new, (drawShapeCore o p tag attrs).layers = new ++ p.layers ∧ new.length ≤ 1 := by
  unfold drawShapeCore
  split
  all_goals (try split)
  all_goals first
    | exact ⟨[], rfl, by simp⟩
    | (obtain ⟨n, h1, h2⟩ := layers_drawPath o _ _ _ _
       refine ⟨n, ?_, h2⟩
       rw [h1]; try simp only [layers_dimAttr])

/-- the dash scaling around a shape is undone afterwards: nothing of the inner state changes -/
theorem inner_drawShape (p : P α) (tag : String) (attrs : List (Attr α)) :
    inner (drawShape o p tag attrs) = inner p := by
  unfold drawShape
  simp only []
  split
  · have h := inner_drawShapeCore o { p with ctx := { p.ctx with dashOff := o.mul p.ctx.dashOff (o.div o.one p.ctx.sw), dashes := p.ctx.dashes.map (fun d => o.mul d (o.div o.one p.ctx.sw)) } } tag attrs
    simp only [inner, outer, Inner.mk.injEq, Outer.mk.injEq] at h ⊢
    obtain ⟨h1, h2, h3, h4⟩ := h
    refine ⟨?_, h2, h3, h4⟩
    rw [h1]
  · exact inner_drawShapeCore o p tag attrs

theorem layers_drawShape (p : P α) (tag : String) (attrs : List (Attr α)) :
    ∃ new, (drawShape o p tag attrs).layers = new ++ p.layers ∧ new.length ≤ 1 := by
  unfold drawShape
  simp only []
  split
  · exact layers_drawShapeCore o _ tag attrs
  · exact layers_drawShapeCore o p tag attrs

end C19
