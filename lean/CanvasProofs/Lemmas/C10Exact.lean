import CanvasModel.Path
import Mathlib.Tactic.Linarith
/-! Exact integer instances of the builder oracle: `goGeo` uses the Go code's sign-bit direction
test literally, `fixedGeo` the dot product.  Used for witness theorems and non-vacuity. -/
namespace Canvas.Path

def iperp (p q : Pt Int) : Int := p.x * q.y - p.y * q.x
def idot (p q : Pt Int) : Int := p.x * q.x + p.y * q.y

/-- Exact arithmetic, every formula as in path.go (Signbit x = x < 0; Epsilon = 0). -/
def goGeo : Geo Int where
  zero := 0
  eq a b := a == b
  isInf _ := false
  abs a := if a < 0 then -a else a
  lt a b := a < b
  mul a b := a * b
  sub p q := ⟨p.x - q.x, p.y - q.y⟩
  parallel da db := iperp da db == 0
  sameDir da db :=
    if da.y < da.x then decide (da.x < 0) == decide (db.x < 0) else decide (da.y < 0) == decide (db.y < 0)
  angleEq0 p q := iperp p q == 0 && decide (0 ≤ idot p q)
  angleIs0 p q := iperp p q == 0 && decide (0 ≤ idot p q)
  rotPlus90 r := r + 90
  phiOf r := r
  lambda _ _ _ _ _ := 0
  gtOne l := decide (1 < l)
  radToDeg r := r
  arcPlan _ _ _ _ _ s := ⟨false, false, false, false, s, s⟩

/-- The same with the direction test the comment in LineTo intends (`da · db > 0`) and an angle test
that is false for zero vectors. -/
def fixedGeo : Geo Int :=
  { goGeo with
    sameDir := fun da db => decide (0 < idot da db)
    angleEq0 := fun p q => iperp p q == 0 && decide (0 < idot p q)
    angleIs0 := fun p q => iperp p q == 0 && decide (0 < idot p q) }

/-- the command values of path.go as integers -/
def intCodes : Codes Int where
  move := 1
  line := 2
  quad := 4
  cube := 8
  arc := 16
  close := 32
  flag l s := (if l then 1 else 0) + (if s then 2 else 0)

theorem fixedGeo_ptEq (a b : Pt Int) : fixedGeo.ptEq a b = true ↔ a = b := by
  cases a; cases b; simp [Geo.ptEq, fixedGeo, goGeo]

theorem fixedGeo_sane : Sane fixedGeo := by
  constructor
  · intro a b
    cases h : fixedGeo.ptEq b a
    · cases h' : fixedGeo.ptEq a b
      · rfl
      · rw [fixedGeo_ptEq] at h'; subst h'
        have : fixedGeo.ptEq a a = true := (fixedGeo_ptEq a a).2 rfl
        rw [this] at h; cases h
    · rw [fixedGeo_ptEq] at h; subst h; exact (fixedGeo_ptEq b b).2 rfl
  · intro a b hab
    have hne : a ≠ b := fun h => by
      have := (fixedGeo_ptEq a b).2 h; rw [this] at hab; cases hab
    cases a with | mk ax ay => cases b with | mk bx byy =>
    have hd : decide (0 < idot (⟨bx - ax, byy - ay⟩ : Pt Int) ⟨ax - bx, ay - byy⟩) = false := by
      apply decide_eq_false
      simp only [idot, not_lt]
      nlinarith [mul_self_nonneg (bx - ax), mul_self_nonneg (byy - ay)]
    show (iperp (⟨bx - ax, byy - ay⟩ : Pt Int) ⟨ax - bx, ay - byy⟩ == 0 &&
      decide (0 < idot (⟨bx - ax, byy - ay⟩ : Pt Int) ⟨ax - bx, ay - byy⟩)) = false
    rw [hd, Bool.and_false]

theorem fixedGeo_mergeSound : MergeSound fixedGeo := by
  intro a s p has _ _ hdir
  cases h : fixedGeo.ptEq a p
  · rfl
  · exfalso
    rw [fixedGeo_ptEq] at h; subst h
    have hne : a ≠ s := fun h => by
      have := (fixedGeo_ptEq a s).2 h; rw [this] at has; cases has
    cases a with | mk ax ay => cases s with | mk sx sy =>
    have hd : 0 < idot (⟨sx - ax, sy - ay⟩ : Pt Int) ⟨ax - sx, ay - sy⟩ := of_decide_eq_true hdir
    simp only [idot] at hd
    nlinarith [mul_self_nonneg (sx - ax), mul_self_nonneg (sy - ay)]

end Canvas.Path
