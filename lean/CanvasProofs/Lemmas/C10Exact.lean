import CanvasModel.Path
import Mathlib.Tactic.Linarith
/-! Exact integer instances of the builder oracle: `goGeo` uses the Go code's dominant-axis sign-bit
direction test literally, `fixedGeo` the dot product.  Used for witness theorems and non-vacuity. -/
namespace Canvas.Path

def iperp (p q : Pt Int) : Int := p.x * q.y - p.y * q.x
def idot (p q : Pt Int) : Int := p.x * q.x + p.y * q.y

def iabs (a : Int) : Int := if a < 0 then -a else a

/-- Exact arithmetic, every formula as in path.go (Signbit x = x < 0; Epsilon = 0). -/
def goGeo : Geo Int where
  zero := 0
  eq a b := a == b
  isInf _ := false
  abs := iabs
  lt a b := a < b
  mul a b := a * b
  sub p q := ⟨p.x - q.x, p.y - q.y⟩
  parallel da db := iperp da db == 0
  sameDir da db :=
    if iabs da.y < iabs da.x then decide (da.x < 0) == decide (db.x < 0) else decide (da.y < 0) == decide (db.y < 0)
  angleEq0 p q := iperp p q == 0 && decide (0 ≤ idot p q)
  angleIs0 p q := iperp p q == 0 && decide (0 ≤ idot p q)
  rotPlus90 r := r + 90
  phiOf r := r
  lambda _ _ _ _ _ := 0
  gtOne l := decide (1 < l)
  radToDeg r := r
  arcPlan _ _ _ _ _ s := ⟨false, false, false, false, s, s⟩

/-- The same with the direction test the comment in LineTo intends (`da · db > 0`) and an angle test
that is false for zero vectors. -/
def fixedGeo : Geo Int :=
  { goGeo with
    sameDir := fun da db => decide (0 < idot da db)
    angleEq0 := fun p q => iperp p q == 0 && decide (0 < idot p q)
    angleIs0 := fun p q => iperp p q == 0 && decide (0 < idot p q) }

/-- the command values of path.go as integers -/
def intCodes : Codes Int where
  move := 1
  line := 2
  quad := 4
  cube := 8
  arc := 16
  close := 32
  flag l s := (if l then 1 else 0) + (if s then 2 else 0)

theorem fixedGeo_ptEq (a b : Pt Int) : fixedGeo.ptEq a b = true ↔ a = b := by
  cases a; cases b; simp [Geo.ptEq, fixedGeo, goGeo]

theorem fixedGeo_sane : Sane fixedGeo := by
  constructor
  · intro a b
    cases h : fixedGeo.ptEq b a
    · cases h' : fixedGeo.ptEq a b
      · rfl
      · rw [fixedGeo_ptEq] at h'; subst h'
        have : fixedGeo.ptEq a a = true := (fixedGeo_ptEq a a).2 rfl
        rw [this] at h; cases h
    · rw [fixedGeo_ptEq] at h; subst h; exact (fixedGeo_ptEq b b).2 rfl
  · intro a b hab
    have hne : a ≠ b := fun h => by
      have := (fixedGeo_ptEq a b).2 h; rw [this] at hab; cases hab
    cases a with | mk ax ay => cases b with | mk bx byy =>
    have hd : decide (0 < idot (⟨bx - ax, byy - ay⟩ : Pt Int) ⟨ax - bx, ay - byy⟩) = false := by
      apply decide_eq_false
      simp only [idot, not_lt]
      nlinarith [mul_self_nonneg (bx - ax), mul_self_nonneg (byy - ay)]
    show (iperp (⟨bx - ax, byy - ay⟩ : Pt Int) ⟨ax - bx, ay - byy⟩ == 0 &&
      decide (0 < idot (⟨bx - ax, byy - ay⟩ : Pt Int) ⟨ax - bx, ay - byy⟩)) = false
    rw [hd, Bool.and_false]

theorem fixedGeo_mergeSound : MergeSound fixedGeo := by
  intro a s p has _ _ hdir
  cases h : fixedGeo.ptEq a p
  · rfl
  · exfalso
    rw [fixedGeo_ptEq] at h; subst h
    have hne : a ≠ s := fun h => by
      have := (fixedGeo_ptEq a s).2 h; rw [this] at has; cases has
    cases a with | mk ax ay => cases s with | mk sx sy =>
    have hd : 0 < idot (⟨sx - ax, sy - ay⟩ : Pt Int) ⟨ax - sx, ay - sy⟩ := of_decide_eq_true hdir
    simp only [idot] at hd
    nlinarith [mul_self_nonneg (sx - ax), mul_self_nonneg (sy - ay)]

theorem goGeo_ptEq (a b : Pt Int) : goGeo.ptEq a b = true ↔ a = b := by
  cases a; cases b; simp [Geo.ptEq, goGeo]

theorem goGeo_ptEq_false {a b : Pt Int} (h : goGeo.ptEq a b = false) : a ≠ b := by
  intro hab
  have := (goGeo_ptEq a b).2 hab
  rw [this] at h; cases h

theorem goGeo_sane : Sane goGeo := by
  constructor
  · intro a b
    cases h : goGeo.ptEq b a
    · cases h' : goGeo.ptEq a b
      · rfl
      · rw [goGeo_ptEq] at h'; subst h'
        have : goGeo.ptEq a a = true := (goGeo_ptEq a a).2 rfl
        rw [this] at h; cases h
    · rw [goGeo_ptEq] at h; subst h; exact (goGeo_ptEq b b).2 rfl
  · intro a b hab
    have hne := goGeo_ptEq_false hab
    cases a with | mk ax ay => cases b with | mk bx byy =>
    have hd : decide (0 ≤ idot (⟨bx - ax, byy - ay⟩ : Pt Int) ⟨ax - bx, ay - byy⟩) = false := by
      apply decide_eq_false
      simp only [idot, not_le]
      have hne' : bx - ax ≠ 0 ∨ byy - ay ≠ 0 := by
        by_contra hc
        simp only [not_or, not_not] at hc
        apply hne
        have h1 : ax = bx := by omega
        have h2 : ay = byy := by omega
        rw [h1, h2]
      rcases hne' with h | h
      · have := mul_self_pos.2 h
        nlinarith [mul_self_nonneg (byy - ay)]
      · have := mul_self_pos.2 h
        nlinarith [mul_self_nonneg (bx - ax)]
    show (iperp (⟨bx - ax, byy - ay⟩ : Pt Int) ⟨ax - bx, ay - byy⟩ == 0 &&
      decide (0 ≤ idot (⟨bx - ax, byy - ay⟩ : Pt Int) ⟨ax - bx, ay - byy⟩)) = false
    rw [hd, Bool.and_false]

/-- The repaired direction test of LineTo (path.go, commit 219108c) is sound in exact arithmetic: a
line that is parallel to the previous, non-zero one and whose dominant component has the same sign
does not lead back to that line's start. -/
theorem goGeo_mergeSound : MergeSound goGeo := by
  intro a s p has _ _ hdir
  cases h : goGeo.ptEq a p
  · rfl
  · exfalso
    rw [goGeo_ptEq] at h; subst h
    have hne := goGeo_ptEq_false has
    cases a with | mk ax ay => cases s with | mk sx sy =>
    have hne' : sx - ax ≠ 0 ∨ sy - ay ≠ 0 := by
      by_contra hc
      simp only [not_or, not_not] at hc
      apply hne
      have h1 : ax = sx := by omega
      have h2 : ay = sy := by omega
      rw [h1, h2]
    have hdir' : (if iabs (sy - ay) < iabs (sx - ax) then decide (sx - ax < 0) == decide (ax - sx < 0)
        else decide (sy - ay < 0) == decide (ay - sy < 0)) = true := hdir
    have habs0 : ∀ x : Int, 0 ≤ iabs x := by intro x; unfold iabs; split <;> omega
    have habsz : ∀ x : Int, iabs x ≤ 0 → x = 0 := by intro x; unfold iabs; split <;> omega
    have hflip : ∀ x : Int, x ≠ 0 → (decide (x < 0) == decide (-x < 0)) = false := by
      intro x hx
      by_cases hs : x < 0
      · have h2 : ¬ (-x < 0) := by omega
        rw [decide_eq_true hs, decide_eq_false h2]; rfl
      · have h2 : -x < 0 := by omega
        rw [decide_eq_false hs, decide_eq_true h2]; rfl
    have e1 : ax - sx = -(sx - ax) := by omega
    have e2 : ay - sy = -(sy - ay) := by omega
    rw [e1, e2] at hdir'
    by_cases hlt : iabs (sy - ay) < iabs (sx - ax)
    · rw [if_pos hlt] at hdir'
      have hx : sx - ax ≠ 0 := by
        intro h0
        have := habs0 (sy - ay)
        rw [h0] at hlt
        have : iabs 0 = 0 := rfl
        omega
      rw [hflip _ hx] at hdir'
      exact Bool.false_ne_true hdir'
    · rw [if_neg hlt] at hdir'
      by_cases h0 : sy - ay = 0
      · have : sx - ax = 0 := by
          apply habsz
          rw [h0] at hlt
          have : iabs 0 = 0 := rfl
          omega
        rcases hne' with h | h
        · exact h this
        · exact h h0
      · rw [hflip _ h0] at hdir'
        exact Bool.false_ne_true hdir'

end Canvas.Path
