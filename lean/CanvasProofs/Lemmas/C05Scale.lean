import CanvasProofs.Lemmas.C05

/-! Unit independence of the dash bookkeeping: scaling the pattern, the start position and the
subpath length by `s > 0` scales the position list of `Dash` by `s` and leaves the indices alone
(exact arithmetic, `Epsilon = 0`). So a dependence of the real `Dash` on the unit of the coordinates
can only come from `SplitAt`/`Length` or from the absolute `Epsilon`. -/
set_option linter.unusedSectionVars false
namespace C05L
open Canvas.C05
variable {K : Type} [Field K] [LinearOrder K] [IsStrictOrderedRing K]

theorem positionsLoop_scale (s : K) (hs : 0 < s) (d : List K) (length : K) :
    ∀ (fuel i : Nat) (pos : K) (acc : List K),
      positionsLoop 0 (d.map (s * ·)) (s * length) fuel i (s * pos) (acc.map (s * ·)) =
        (positionsLoop 0 d length fuel i pos acc).map (fun r => (r.1.map (s * ·), r.2)) := by
  intro fuel
  induction fuel with
  | zero => intro i pos acc; simp [positionsLoop]
  | succ f ih =>
    intro i pos acc
    unfold positionsLoop
    rw [List.getElem?_map, List.length_map]
    cases hdi : d[i]? with
    | none => simp
    | some di =>
      simp only [Option.map_some]
      have e1 : s * pos + s * di + 0 = s * (pos + di + 0) := by ring
      have e2 : s * pos + s * di = s * (pos + di) := by ring
      have hc : (s * pos + s * di + 0 < s * length) ↔ (pos + di + 0 < length) := by
        rw [e1]; exact mul_lt_mul_iff_right₀ hs
      by_cases hlt : pos + di + 0 < length
      · rw [if_pos (hc.mpr hlt), if_pos hlt, e2]
        have hp : (0 < s * (pos + di)) ↔ (0 < pos + di) := by
          constructor
          · intro h; exact pos_of_mul_pos_right h (le_of_lt hs)
          · intro h; exact mul_pos hs h
        by_cases hpos : 0 < pos + di
        · rw [if_pos (hp.mpr hpos), if_pos hpos]
          have := ih (if i + 1 = d.length then 0 else i + 1) (pos + di) (acc ++ [pos + di])
          simpa [List.map_append] using this
        · rw [if_neg (fun h => hpos (hp.mp h)), if_neg hpos]
          exact ih _ _ _
      · rw [if_neg (fun h => hlt (hc.mp h)), if_neg hlt]
        simp

theorem dashStartLoop_scale (s : K) (hs : 0 < s) (d : List K) :
    ∀ (fuel i : Nat) (off : K),
      dashStartLoop (d.map (s * ·)) fuel i (s * off) =
        (dashStartLoop d fuel i off).map (fun r => (r.1, s * r.2)) := by
  intro fuel
  induction fuel with
  | zero => intro i off; simp [dashStartLoop]
  | succ f ih =>
    intro i off
    unfold dashStartLoop
    rw [List.getElem?_map, List.length_map]
    cases hdi : d[i]? with
    | none => simp
    | some di =>
      simp only [Option.map_some]
      have hc : (s * di ≤ s * off) ↔ (di ≤ off) := mul_le_mul_iff_right₀ hs
      by_cases hle : di ≤ off
      · rw [if_pos (hc.mpr hle), if_pos hle, show s * off - s * di = s * (off - di) by ring]
        exact ih _ _
      · rw [if_neg (fun h => hle (hc.mp h)), if_neg hle]
        simp

end C05L
