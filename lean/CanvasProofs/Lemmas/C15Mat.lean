import CanvasGen.CoreK
import Mathlib.Tactic.Ring
import Mathlib.Tactic.Linarith
/-! Matrix facts about the generated (`GenK`) definitions that the C15 theorems use. They are the
statements of `C07.mul_assoc`, `C07.dot_mul`, `C07.translate_dot`, `C07.rect_transform_contains`
(property C07 owns the matrix algebra); re-proved here so that C15 does not depend on another
property's proof file. -/
set_option linter.unusedSectionVars false
namespace C15M
open Canvas GenK
variable {K : Type} [Field K] [LinearOrder K] [IsStrictOrderedRing K] [Env K]

def ident : Mat K := Mat.mk 1 0 0 0 1 0

theorem mul_assoc (m q r : Mat K) : Matrix.Mul (Matrix.Mul m q) r = Matrix.Mul m (Matrix.Mul q r) := by
  simp only [Matrix.Mul]; congr 1 <;> ring

theorem dot_mul (m q : Mat K) (p : Pt K) : Matrix.Dot (Matrix.Mul m q) p = Matrix.Dot m (Matrix.Dot q p) := by
  simp only [Matrix.Mul, Matrix.Dot]; congr 1 <;> ring

theorem translate_dot (m : Mat K) (x y : K) (p : Pt K) :
    Matrix.Dot (Matrix.Translate m x y) p = Matrix.Dot m (Pt.mk (p.x + x) (p.y + y)) := by
  simp only [Matrix.Translate, Matrix.Mul, Matrix.Dot]; congr 1 <;> ring

theorem rect_transform_contains (m : Mat K) (r : Rct K) (p : Pt K)
    (hx : r.x0 ≤ p.x ∧ p.x ≤ r.x1) (hy : r.y0 ≤ p.y ∧ p.y ≤ r.y1) :
    (Rect.Transform r m).x0 ≤ (Matrix.Dot m p).x ∧ (Matrix.Dot m p).x ≤ (Rect.Transform r m).x1 ∧
    (Rect.Transform r m).y0 ≤ (Matrix.Dot m p).y ∧ (Matrix.Dot m p).y ≤ (Rect.Transform r m).y1 := by
  obtain ⟨hx0, hx1⟩ := hx
  obtain ⟨hy0, hy1⟩ := hy
  simp only [Rect.Transform, Matrix.Dot]
  -- a bilinear form on a box is bounded by its corner values
  have key : ∀ (u v w : K), min (u * r.x0 + v * r.y0 + w) (min (u * r.x1 + v * r.y0 + w) (min (u * r.x1 + v * r.y1 + w) (u * r.x0 + v * r.y1 + w))) ≤ u * p.x + v * p.y + w
      ∧ u * p.x + v * p.y + w ≤ max (u * r.x0 + v * r.y0 + w) (max (u * r.x1 + v * r.y0 + w) (max (u * r.x1 + v * r.y1 + w) (u * r.x0 + v * r.y1 + w))) := by
    intro u v w
    rcases le_total 0 u with hu | hu <;> rcases le_total 0 v with hv | hv
    · constructor
      · exact (min_le_left _ _).trans (by nlinarith)
      · exact le_trans (by nlinarith) (le_max_of_le_right (le_max_of_le_right (le_max_left _ _)))
    · constructor
      · exact (min_le_of_right_le (min_le_of_right_le (min_le_right _ _))).trans (by nlinarith)
      · exact le_trans (by nlinarith) (le_max_of_le_right (le_max_left _ _))
    · constructor
      · exact (min_le_of_right_le (min_le_left _ _)).trans (by nlinarith)
      · exact le_trans (by nlinarith) (le_max_of_le_right (le_max_of_le_right (le_max_right _ _)))
    · constructor
      · exact (min_le_of_right_le (min_le_of_right_le (min_le_left _ _))).trans (by nlinarith)
      · exact le_trans (by nlinarith) (le_max_left _ _)
  exact ⟨(key m.a m.b m.c).1, (key m.a m.b m.c).2, (key m.d m.e m.f).1, (key m.d m.e m.f).2⟩

end C15M
