import CanvasModel.C01Avl
/-! Lemmas about the functional model of the `SweepStatus` AVL tree: rotations and the loop body of
`rebalance` preserve the in-order sequence; the AVL invariant is preserved by `InsertAfter` and
`Remove`; hence by induction over arbitrary operation histories the "Tree too far out of shape!"
panic is unreachable. Core Lean only. -/
namespace Canvas.C01Avl
open Tree

/-- stored heights are the true heights and every node is AVL balanced -/
def Good : Tree → Prop
  | .nil => True
  | .node l _ h r => Good l ∧ Good r ∧ h = max l.ht r.ht + 1 ∧ l.ht ≤ r.ht + 1 ∧ r.ht ≤ l.ht + 1

/-- the invariant of the status tree: as `Good`, except that the ROOT's own stored height is
unconstrained (the code leaves it stale after hanging a child under a leaf root) -/
def Inv : Tree → Prop
  | .nil => True
  | .node l _ _ r => Good l ∧ Good r ∧ l.ht ≤ r.ht + 1 ∧ r.ht ≤ l.ht + 1

/-- true height -/
def realHt : Tree → Nat
  | .nil => 0
  | .node l _ _ r => max (realHt l) (realHt r) + 1

/-- AVL balance in terms of true heights, at every node -/
def Balanced : Tree → Prop
  | .nil => True
  | .node l _ _ r => Balanced l ∧ Balanced r ∧ realHt l ≤ realHt r + 1 ∧ realHt r ≤ realHt l + 1

theorem Good.toInv {t : Tree} (g : Good t) : Inv t := by
  cases t with
  | nil => trivial
  | node l x h r => exact ⟨g.1, g.2.1, g.2.2.2.1, g.2.2.2.2⟩

theorem good_ht_real {t : Tree} (g : Good t) : t.ht = realHt t := by
  induction t with
  | nil => rfl
  | node l x h r ihl ihr =>
    obtain ⟨gl, gr, hh, _, _⟩ := g
    simp only [ht, realHt, ← ihl gl, ← ihr gr, hh]

theorem good_balanced {t : Tree} (g : Good t) : Balanced t := by
  induction t with
  | nil => trivial
  | node l x h r ihl ihr =>
    obtain ⟨gl, gr, _, b1, b2⟩ := g
    refine ⟨ihl gl, ihr gr, ?_, ?_⟩ <;> rw [← good_ht_real gl, ← good_ht_real gr] <;> assumption

theorem inv_balanced {t : Tree} (g : Inv t) : Balanced t := by
  cases t with
  | nil => trivial
  | node l x h r =>
    obtain ⟨gl, gr, b1, b2⟩ := g
    refine ⟨good_balanced gl, good_balanced gr, ?_, ?_⟩ <;>
      rw [← good_ht_real gl, ← good_ht_real gr] <;> assumption

theorem good_ht_zero {t : Tree} (g : Good t) (h0 : t.ht = 0) : t = .nil := by
  cases t with
  | nil => rfl
  | node l x h r => obtain ⟨_, _, hh, _, _⟩ := g; simp only [ht] at h0; omega

theorem isNil_false_of_ht {t : Tree} (h : 0 < t.ht) : t.isNil = false := by
  cases t <;> simp_all [ht, isNil]

theorem good_leaf (x : Nat) : Good (leaf x) := by simp [leaf, Good, ht]

/-! ## rotations -/

theorem rotL_toList {t t' : Tree} (h : rotL t = some t') : t'.toList = t.toList := by
  unfold rotL at h
  split at h
  · cases h; simp [toList]
  · cases h

theorem rotR_toList {t t' : Tree} (h : rotR t = some t') : t'.toList = t.toList := by
  unfold rotR at h
  split at h
  · cases h; simp [toList]
  · cases h

theorem upd_toList {t t' : Tree} (h : upd t = some t') : t'.toList = t.toList := by
  cases t with
  | nil => simp [upd] at h
  | node l x hh r => simp only [upd, Option.some.injEq] at h; subst h; rfl

theorem updLeft_toList {t t' : Tree} (h : updLeft t = some t') : t'.toList = t.toList := by
  cases t with
  | nil => simp [updLeft] at h
  | node l x hh r =>
    simp only [updLeft, Option.map_eq_some_iff] at h
    obtain ⟨l', hl, rfl⟩ := h
    simp [toList, upd_toList hl]

theorem updRight_toList {t t' : Tree} (h : updRight t = some t') : t'.toList = t.toList := by
  cases t with
  | nil => simp [updRight] at h
  | node l x hh r =>
    simp only [updRight, Option.map_eq_some_iff] at h
    obtain ⟨r', hr, rfl⟩ := h
    simp [toList, upd_toList hr]

/-- the loop body of `rebalance` never changes the in-order sequence (no assumption on the tree) -/
theorem step_toList {t t' : Tree} (h : step t = some t') : t'.toList = t.toList := by
  cases t with
  | nil => simp [step] at h
  | node l x hh r =>
    simp only [step] at h
    by_cases hb : balance (.node l x hh r) = 2
    · rw [if_pos hb] at h
      simp only [Option.bind_eq_some_iff] at h
      obtain ⟨r1, hr1, n, hn, n2, hn2, hu⟩ := h
      have e1 : r1.toList = r.toList := by
        by_cases hc : r.isNil = false ∧ balance r < 0
        · rw [if_pos hc] at hr1
          simp only [Option.bind_eq_some_iff] at hr1
          obtain ⟨a, ha, hb⟩ := hr1
          rw [updRight_toList hb, rotR_toList ha]
        · rw [if_neg hc] at hr1; cases hr1; rfl
      rw [upd_toList hu, updLeft_toList hn2, rotL_toList hn]; simp [toList, e1]
    · rw [if_neg hb] at h
      by_cases hb2 : balance (.node l x hh r) = -2
      · rw [if_pos hb2] at h
        simp only [Option.bind_eq_some_iff] at h
        obtain ⟨l1, hl1, n, hn, n2, hn2, hu⟩ := h
        have e1 : l1.toList = l.toList := by
          by_cases hc : l.isNil = false ∧ 0 < balance l
          · rw [if_pos hc] at hl1
            simp only [Option.bind_eq_some_iff] at hl1
            obtain ⟨a, ha, hb⟩ := hl1
            rw [updLeft_toList hb, rotL_toList ha]
          · rw [if_neg hc] at hl1; cases hl1; rfl
        rw [upd_toList hu, updRight_toList hn2, rotR_toList hn]; simp [toList, e1]
      · rw [if_neg hb2] at h
        by_cases hb3 : balance (.node l x hh r) < -2 ∨ 2 < balance (.node l x hh r)
        · rw [if_pos hb3] at h; cases h
        · rw [if_neg hb3] at h; rw [upd_toList h]

theorem ht_nil : Tree.nil.ht = 0 := rfl
theorem ht_node (l r : Tree) (x h : Nat) : (Tree.node l x h r).ht = h := rfl
theorem balance_node (l r : Tree) (x h : Nat) :
    balance (.node l x h r) = (r.ht : Int) - (l.ht : Int) := rfl

/-! ## the loop body of `rebalance` on a node whose subtrees are good and differ by at most 2 -/

theorem step_balanced (l r : Tree) (x h : Nat) (h1 : l.ht ≤ r.ht + 1) (h2 : r.ht ≤ l.ht + 1) :
    step (.node l x h r) = some (.node l x (max l.ht r.ht + 1) r) := by
  have e1 : ¬ balance (.node l x h r) = 2 := by simp only [balance_node]; omega
  have e2 : ¬ balance (.node l x h r) = -2 := by simp only [balance_node]; omega
  have e3 : ¬ (balance (.node l x h r) < -2 ∨ 2 < balance (.node l x h r)) := by
    simp only [balance_node]; omega
  simp only [step, if_neg e1, if_neg e2, if_neg e3, upd]

/-- a second application of the loop body to a good node is the identity: this is why Go's
`for ancestor … { s.rebalance(ancestor) }` (whose calls overlap) equals one pass up the spine -/
theorem step_noop_on_good (l r : Tree) (x h : Nat) (g : Good (.node l x h r)) :
    step (.node l x h r) = some (.node l x h r) := by
  obtain ⟨_, _, hh, b1, b2⟩ := g
  rw [step_balanced l r x h b1 b2, hh]

theorem step_spec (l r : Tree) (x h : Nat) (gl : Good l) (gr : Good r)
    (h1 : l.ht ≤ r.ht + 2) (h2 : r.ht ≤ l.ht + 2) :
    ∃ t', step (.node l x h r) = some t' ∧ Good t' ∧
      (t'.ht = max l.ht r.ht + 1 ∨
        (t'.ht = max l.ht r.ht ∧ (l.ht = r.ht + 2 ∨ r.ht = l.ht + 2))) := by
  by_cases hR : r.ht = l.ht + 2
  · cases r with
    | nil => simp [ht_nil] at hR
    | node rl y hr rr =>
      obtain ⟨grl, grr, hhr, br1, br2⟩ := gr
      simp only [ht_node] at hR h1 h2 ⊢
      have e1 : balance (.node l x h (.node rl y hr rr)) = 2 := by simp only [balance_node, ht_node]; omega
      by_cases hc : rr.ht < rl.ht
      · cases rl with
        | nil => simp [ht_nil] at hc
        | node rll z hrl rlr =>
          obtain ⟨grll, grlr, hhrl, bl1, bl2⟩ := grl
          simp only [ht_node] at hc hhr br1 br2
          have e2 : balance (.node (.node rll z hrl rlr) y hr rr) < 0 := by
            simp only [balance_node, ht_node]; omega
          refine ⟨.node (.node l x (max l.ht rll.ht + 1) rll) z
            (max (max l.ht rll.ht + 1) (max rlr.ht rr.ht + 1) + 1)
            (.node rlr y (max rlr.ht rr.ht + 1) rr), ?_, ?_, ?_⟩
          · simp [step, e1, e2, isNil, rotR, rotL, updRight, updLeft, upd, ht_node]
          · simp only [Good, ht_node, true_and]
            refine ⟨⟨gl, grll, ?_⟩, ⟨grlr, grr, ?_⟩, ?_⟩ <;> omega
          · simp only [ht_node]; omega
      · have e2 : ¬ (Tree.isNil (.node rl y hr rr) = false ∧ balance (.node rl y hr rr) < 0) := by
          simp only [balance_node, ht_node]; omega
        refine ⟨.node (.node l x (max l.ht rl.ht + 1) rl) y
            (max (max l.ht rl.ht + 1) rr.ht + 1) rr, ?_, ?_, ?_⟩
        · simp [step, e1, e2, rotL, updLeft, upd, ht_node]
        · simp only [Good, ht_node, true_and]
          refine ⟨⟨gl, grl, ?_⟩, grr, ?_⟩ <;> omega
        · simp only [ht_node]; omega
  · by_cases hL : l.ht = r.ht + 2
    · cases l with
      | nil => simp [ht_nil] at hL
      | node ll y hl lr =>
        obtain ⟨gll, glr, hhl, bl1, bl2⟩ := gl
        simp only [ht_node] at hL h1 h2 hR ⊢
        have e0 : ¬ balance (.node (.node ll y hl lr) x h r) = 2 := by simp only [balance_node, ht_node]; omega
        have e1 : balance (.node (.node ll y hl lr) x h r) = -2 := by simp only [balance_node, ht_node]; omega
        by_cases hc : ll.ht < lr.ht
        · cases lr with
          | nil => simp [ht_nil] at hc
          | node lrl z hlr lrr =>
            obtain ⟨glrl, glrr, hhlr, br1, br2⟩ := glr
            simp only [ht_node] at hc hhl bl1 bl2
            have e2 : 0 < balance (.node ll y hl (.node lrl z hlr lrr)) := by
              simp only [balance_node, ht_node]; omega
            refine ⟨.node (.node ll y (max ll.ht lrl.ht + 1) lrl) z
              (max (max ll.ht lrl.ht + 1) (max lrr.ht r.ht + 1) + 1)
              (.node lrr x (max lrr.ht r.ht + 1) r), ?_, ?_, ?_⟩
            · simp [step, e1, e2, isNil, rotR, rotL, updRight, updLeft, upd, ht_node]
            · simp only [Good, ht_node, true_and]
              refine ⟨⟨gll, glrl, ?_⟩, ⟨glrr, gr, ?_⟩, ?_⟩ <;> omega
            · simp only [ht_node]; omega
        · have e2 : ¬ (Tree.isNil (.node ll y hl lr) = false ∧ 0 < balance (.node ll y hl lr)) := by
            simp only [balance_node, ht_node]; omega
          refine ⟨.node ll y (max ll.ht (max lr.ht r.ht + 1) + 1)
              (.node lr x (max lr.ht r.ht + 1) r), ?_, ?_, ?_⟩
          · simp [step, e1, e2, rotR, updRight, upd, ht_node]
          · simp only [Good, ht_node, true_and]
            refine ⟨gll, ⟨glr, gr, ?_⟩, ?_⟩ <;> omega
          · simp only [ht_node]; omega
    · have b1 : l.ht ≤ r.ht + 1 := by omega
      have b2 : r.ht ≤ l.ht + 1 := by omega
      exact ⟨_, step_balanced l r x h b1 b2, ⟨gl, gr, rfl, b1, b2⟩, Or.inl rfl⟩

/-! ## list helpers (kept self-contained) -/

theorem size_eq_length (t : Tree) : t.size = t.toList.length := by
  induction t with
  | nil => rfl
  | node l x h r ihl ihr => simp [size, toList, ihl, ihr]; omega

theorem isNil_eq (t : Tree) (h : t.isNil = true) : t = .nil := by
  cases t <;> simp_all [isNil]

theorem insert_left (L R : List Nat) (x y k : Nat) (hk : k ≤ L.length) :
    (L ++ y :: R).take k ++ x :: (L ++ y :: R).drop k = (L.take k ++ x :: L.drop k) ++ y :: R := by
  induction L generalizing k with
  | nil => have : k = 0 := by simpa using hk
           subst this; simp
  | cons a L ih =>
    cases k with
    | zero => simp
    | succ k => simp at hk; simp [ih k hk]

theorem insert_right (L R : List Nat) (x y k : Nat) (hk : L.length < k) :
    (L ++ y :: R).take k ++ x :: (L ++ y :: R).drop k
      = L ++ y :: (R.take (k - L.length - 1) ++ x :: R.drop (k - L.length - 1)) := by
  induction L generalizing k with
  | nil =>
    cases k with
    | zero => simp at hk
    | succ k => simp
  | cons a L ih =>
    cases k with
    | zero => simp at hk
    | succ k =>
      simp at hk
      have := ih k hk
      simp only [List.cons_append, List.take_succ_cons, List.drop_succ_cons, List.length_cons]
      have e : k + 1 - (L.length + 1) - 1 = k - L.length - 1 := by omega
      rw [this, e]

theorem erase_left (L R : List Nat) (y k : Nat) (hk : k < L.length) :
    (L ++ y :: R).eraseIdx k = L.eraseIdx k ++ y :: R := by
  induction L generalizing k with
  | nil => simp at hk
  | cons a L ih =>
    cases k with
    | zero => simp
    | succ k => simp at hk; simp [ih k hk]

theorem erase_mid (L R : List Nat) (y : Nat) : (L ++ y :: R).eraseIdx L.length = L ++ R := by
  induction L with
  | nil => simp
  | cons a L ih => simp [ih]

theorem erase_right (L R : List Nat) (y k : Nat) (hk : L.length < k) :
    (L ++ y :: R).eraseIdx k = L ++ y :: R.eraseIdx (k - L.length - 1) := by
  induction L generalizing k with
  | nil =>
    cases k with
    | zero => simp at hk
    | succ k => simp
  | cons a L ih =>
    cases k with
    | zero => simp at hk
    | succ k =>
      simp at hk
      have e : k + 1 - (L.length + 1) - 1 = k - L.length - 1 := by omega
      simp only [List.cons_append, List.eraseIdx_cons_succ, List.length_cons, ih k hk, e]

theorem get_app (L R : List Nat) (y i : Nat) :
    (L ++ y :: R)[i]? = if i < L.length then L[i]? else if i = L.length then some y
      else R[i - L.length - 1]? := by
  induction L generalizing i with
  | nil =>
    cases i with
    | zero => simp
    | succ i => simp
  | cons a L ih =>
    cases i with
    | zero => simp
    | succ i =>
      simp only [List.cons_append, List.getElem?_cons_succ, List.length_cons, ih i]
      by_cases h1 : i < L.length
      · simp [h1]
      · by_cases h2 : i = L.length
        · simp [h2]
        · have e : i + 1 - (L.length + 1) - 1 = i - L.length - 1 := by omega
          simp [h1, h2]

/-! ## InsertAfter -/

theorem stepF_toList {t t' : Tree} {g : Bool} (h : stepF t = some (t', g)) :
    t'.toList = t.toList := by
  simp only [stepF, Option.map_eq_some_iff] at h
  obtain ⟨a, ha, hb⟩ := h
  cases hb
  exact step_toList ha

theorem ins_toList (t : Tree) (k x : Nat) (hk : k ≤ t.size) {t' : Tree} {g : Bool}
    (h : ins t k x = some (t', g)) : t'.toList = t.toList.take k ++ x :: t.toList.drop k := by
  induction t generalizing k t' g with
  | nil => simp [ins] at h; obtain ⟨rfl, _⟩ := h; simp [leaf, toList]
  | node l y hh r ihl ihr =>
    simp only [ins] at h
    simp only [size] at hk
    by_cases hkl : k ≤ l.size
    · rw [if_pos hkl] at h
      simp only [toList]
      rw [insert_left _ _ _ _ _ (by rw [← size_eq_length]; exact hkl)]
      by_cases hn : l.isNil = true
      · rw [if_pos hn] at h
        have := isNil_eq l hn; subst this
        simp only [size] at hkl
        have : k = 0 := by omega
        subst this
        simp only [Option.some.injEq, Prod.mk.injEq] at h
        obtain ⟨rfl, _⟩ := h
        simp [toList, leaf]
      · rw [if_neg hn] at h
        simp only [Option.bind_eq_some_iff] at h
        obtain ⟨p, hp, h⟩ := h
        have e := ihl k hkl (t' := p.1) (g := p.2) hp
        by_cases hg : p.2 = true
        · rw [if_pos hg] at h
          rw [stepF_toList h]; simp [toList, e]
        · rw [if_neg hg] at h
          simp only [Option.some.injEq, Prod.mk.injEq] at h
          obtain ⟨rfl, _⟩ := h
          simp [toList, e]
    · rw [if_neg hkl] at h
      simp only [toList]
      rw [insert_right _ _ _ _ _ (by rw [← size_eq_length]; omega), ← size_eq_length]
      by_cases hn : r.isNil = true
      · rw [if_pos hn] at h
        have := isNil_eq r hn; subst this
        simp only [Option.some.injEq, Prod.mk.injEq] at h
        obtain ⟨rfl, _⟩ := h
        simp [toList, leaf]
      · rw [if_neg hn] at h
        simp only [Option.bind_eq_some_iff] at h
        obtain ⟨p, hp, h⟩ := h
        have e := ihr (k - l.size - 1) (by omega) (t' := p.1) (g := p.2) hp
        by_cases hg : p.2 = true
        · rw [if_pos hg] at h
          rw [stepF_toList h]; simp [toList, e]
        · rw [if_neg hg] at h
          simp only [Option.some.injEq, Prod.mk.injEq] at h
          obtain ⟨rfl, _⟩ := h
          simp [toList, e]

theorem good_nonnil_ht {t : Tree} (g : Good t) (h : t.isNil = false) : 1 ≤ t.ht := by
  cases t with
  | nil => simp [isNil] at h
  | node l x hh r => obtain ⟨_, _, e, _, _⟩ := g; simp only [ht_node]; omega

/-- what the flag returned by `ins`/`stepF` means -/
def Grew (t t' : Tree) (g : Bool) : Prop :=
  (g = false ∧ t'.ht = t.ht) ∨ (g = true ∧ t'.ht = t.ht + 1)

theorem ins_spec (t : Tree) (k x : Nat) (i : Inv t) :
    ∃ t' g, ins t k x = some (t', g) ∧ Inv t' ∧ (Good t → Good t' ∧ Grew t t' g) := by
  induction t generalizing k with
  | nil => exact ⟨leaf x, true, rfl, (good_leaf x).toInv, fun _ => ⟨good_leaf x, Or.inr ⟨rfl, rfl⟩⟩⟩
  | node l y h r ihl ihr =>
    obtain ⟨gl, gr, b1, b2⟩ := i
    simp only [ins]
    by_cases hkl : k ≤ l.size
    · rw [if_pos hkl]
      by_cases hn : l.isNil = true
      · rw [if_pos hn]
        have := isNil_eq l hn; subst this
        simp only [ht_nil] at b1 b2
        refine ⟨_, _, rfl, ⟨good_leaf x, gr, ?_, ?_⟩, ?_⟩
        · simp only [leaf, ht_node]; omega
        · simp only [leaf, ht_node]; omega
        · intro g
          obtain ⟨_, _, hh, _, _⟩ := g
          simp only [ht_nil] at hh
          by_cases hr : r.isNil = true
          · have := isNil_eq r hr; subst this
            simp only [ht_nil] at hh
            refine ⟨⟨good_leaf x, trivial, ?_, ?_, ?_⟩, Or.inr ⟨rfl, ?_⟩⟩ <;>
              (try simp [leaf, ht_node, ht_nil, isNil]) <;> omega
          · have hr' : r.isNil = false := by simpa using hr
            have := good_nonnil_ht gr hr'
            refine ⟨⟨good_leaf x, gr, ?_, ?_, ?_⟩, Or.inl ⟨hr', ?_⟩⟩ <;>
              (try simp [leaf, ht_node, hr']) <;> omega
      · rw [if_neg hn]
        obtain ⟨l', g, e, _, hgood⟩ := ihl k gl.toInv
        obtain ⟨gl', hgrew⟩ := hgood gl
        rw [e]
        simp only [Option.bind_some]
        cases g with
        | false =>
          have hl : l'.ht = l.ht := by rcases hgrew with ⟨_, h⟩ | ⟨h, _⟩ <;> simp_all
          simp only [Bool.false_eq_true, if_false]
          refine ⟨_, _, rfl, ⟨gl', gr, by omega, by omega⟩, ?_⟩
          intro g
          obtain ⟨_, _, hh, _, _⟩ := g
          exact ⟨⟨gl', gr, by rw [hl]; exact hh, by omega, by omega⟩, Or.inl ⟨rfl, rfl⟩⟩
        | true =>
          have hl : l'.ht = l.ht + 1 := by rcases hgrew with ⟨h, _⟩ | ⟨_, h⟩ <;> simp_all
          obtain ⟨t2, hs, gt2, hb⟩ := step_spec l' r y h gl' gr (by omega) (by omega)
          simp only [if_true, stepF, hs, Option.map_some]
          refine ⟨_, _, rfl, gt2.toInv, ?_⟩
          intro g
          obtain ⟨_, _, hh, _, _⟩ := g
          refine ⟨gt2, ?_⟩
          simp only [Grew, ht_node, bne_eq_false_iff_eq, bne_iff_ne, ne_eq]
          omega
    · rw [if_neg hkl]
      by_cases hn : r.isNil = true
      · rw [if_pos hn]
        have := isNil_eq r hn; subst this
        simp only [ht_nil] at b1 b2
        refine ⟨_, _, rfl, ⟨gl, good_leaf x, ?_, ?_⟩, ?_⟩
        · simp only [leaf, ht_node]; omega
        · simp only [leaf, ht_node]; omega
        · intro g
          obtain ⟨_, _, hh, _, _⟩ := g
          simp only [ht_nil] at hh
          by_cases hl : l.isNil = true
          · have := isNil_eq l hl; subst this
            simp only [ht_nil] at hh
            refine ⟨⟨trivial, good_leaf x, ?_, ?_, ?_⟩, Or.inr ⟨rfl, ?_⟩⟩ <;>
              (try simp [leaf, ht_node, ht_nil, isNil]) <;> omega
          · have hl' : l.isNil = false := by simpa using hl
            have := good_nonnil_ht gl hl'
            refine ⟨⟨gl, good_leaf x, ?_, ?_, ?_⟩, Or.inl ⟨hl', ?_⟩⟩ <;>
              (try simp [leaf, ht_node, hl']) <;> omega
      · rw [if_neg hn]
        obtain ⟨r', g, e, _, hgood⟩ := ihr (k - l.size - 1) gr.toInv
        obtain ⟨gr', hgrew⟩ := hgood gr
        rw [e]
        simp only [Option.bind_some]
        cases g with
        | false =>
          have hl : r'.ht = r.ht := by rcases hgrew with ⟨_, h⟩ | ⟨h, _⟩ <;> simp_all
          simp only [Bool.false_eq_true, if_false]
          refine ⟨_, _, rfl, ⟨gl, gr', by omega, by omega⟩, ?_⟩
          intro g
          obtain ⟨_, _, hh, _, _⟩ := g
          exact ⟨⟨gl, gr', by rw [hl]; exact hh, by omega, by omega⟩, Or.inl ⟨rfl, rfl⟩⟩
        | true =>
          have hl : r'.ht = r.ht + 1 := by rcases hgrew with ⟨h, _⟩ | ⟨_, h⟩ <;> simp_all
          obtain ⟨t2, hs, gt2, hb⟩ := step_spec l r' y h gl gr' (by omega) (by omega)
          simp only [if_true, stepF, hs, Option.map_some]
          refine ⟨_, _, rfl, gt2.toInv, ?_⟩
          intro g
          obtain ⟨_, _, hh, _, _⟩ := g
          refine ⟨gt2, ?_⟩
          simp only [Grew, ht_node, bne_eq_false_iff_eq, bne_iff_ne, ne_eq]
          omega

/-- `InsertAfter` at the root (top-level wrapper incl. the stale-height leaf-root case) -/
theorem insertAt_spec (t : Tree) (k x : Nat) (hk : k ≤ t.size) (i : Inv t) :
    ∃ t', insertAt t k x = some t' ∧ Inv t' ∧
      t'.toList = t.toList.take k ++ x :: t.toList.drop k := by
  unfold insertAt
  split
  · refine ⟨_, rfl, (good_leaf x).toInv, ?_⟩
    simp [toList, leaf]
  · rename_i y h
    simp only [size] at hk
    by_cases h0 : k = 0
    · subst h0
      refine ⟨.node (leaf x) y h .nil, by simp, ⟨good_leaf x, trivial, ?_, ?_⟩, ?_⟩ <;>
        simp [leaf, ht_node, ht_nil, toList]
    · have : k = 1 := by omega
      subst this
      refine ⟨.node .nil y h (leaf x), by simp, ⟨trivial, good_leaf x, ?_, ?_⟩, ?_⟩ <;>
        simp [leaf, ht_node, ht_nil, toList]
  · obtain ⟨t', g, e, it', _⟩ := ins_spec t k x i
    refine ⟨t', by simp [e], it', ins_toList t k x hk e⟩

/-! ## Remove -/

theorem remMin_spec (t : Tree) (g : Good t) (hne : t.isNil = false) :
    ∃ m hm t', remMin t = some (m, hm, t') ∧ Good t' ∧ t'.ht ≤ t.ht ∧ t.ht ≤ t'.ht + 1 ∧
      t.toList = m :: t'.toList := by
  induction t with
  | nil => simp [isNil] at hne
  | node l y h r ihl _ =>
    obtain ⟨gl, gr, hh, b1, b2⟩ := g
    simp only [remMin]
    by_cases hn : l.isNil = true
    · rw [if_pos hn]
      have := isNil_eq l hn; subst this
      simp only [ht_nil] at hh b1 b2
      refine ⟨y, h, r, rfl, gr, ?_, ?_, by simp [toList]⟩ <;> simp only [ht_node] <;> omega
    · rw [if_neg hn]
      obtain ⟨m, hm, l', e, gl', c1, c2, el⟩ := ihl gl (by simpa using hn)
      obtain ⟨t2, hs, gt2, hb⟩ := step_spec l' r y h gl' gr (by omega) (by omega)
      rw [e]
      simp only [Option.bind_some, hs, Option.map_some]
      refine ⟨m, hm, t2, rfl, gt2, ?_, ?_, ?_⟩
      · simp only [ht_node]; omega
      · simp only [ht_node]; omega
      · rw [step_toList hs]; simp [toList, el]

theorem rem_spec (t : Tree) (k : Nat) (hk : k < t.size) (i : Inv t) :
    ∃ t', rem t k = some t' ∧ Inv t' ∧ t'.toList = t.toList.eraseIdx k ∧
      (Good t → Good t' ∧ t'.ht ≤ t.ht ∧ t.ht ≤ t'.ht + 1) := by
  induction t generalizing k with
  | nil => simp [size] at hk
  | node l y h r ihl ihr =>
    obtain ⟨gl, gr, b1, b2⟩ := i
    simp only [size] at hk
    simp only [rem, toList]
    by_cases h1 : k < l.size
    · rw [if_pos h1]
      obtain ⟨l', e, _, el, hg⟩ := ihl k h1 gl.toInv
      obtain ⟨gl', c1, c2⟩ := hg gl
      obtain ⟨t2, hs, gt2, hb⟩ := step_spec l' r y h gl' gr (by omega) (by omega)
      rw [e]
      simp only [Option.bind_some, hs]
      refine ⟨t2, rfl, gt2.toInv, ?_, ?_⟩
      · rw [step_toList hs, erase_left _ _ _ _ (by rw [← size_eq_length]; exact h1)]
        simp [toList, el]
      · intro g
        obtain ⟨_, _, hh, _, _⟩ := g
        refine ⟨gt2, ?_, ?_⟩ <;> simp only [ht_node] <;> omega
    · rw [if_neg h1]
      by_cases h2 : k = l.size
      · rw [if_pos h2]
        subst h2
        rw [size_eq_length, erase_mid]
        by_cases hn : l.isNil = true
        · rw [if_pos hn]
          have := isNil_eq l hn; subst this
          refine ⟨r, rfl, gr.toInv, by simp [toList], ?_⟩
          intro g
          obtain ⟨_, _, hh, _, _⟩ := g
          simp only [ht_nil] at hh
          refine ⟨gr, ?_, ?_⟩ <;> simp only [ht_node] <;> omega
        · rw [if_neg hn]
          by_cases hn2 : r.isNil = true
          · rw [if_pos hn2]
            have := isNil_eq r hn2; subst this
            refine ⟨l, rfl, gl.toInv, by simp [toList], ?_⟩
            intro g
            obtain ⟨_, _, hh, _, _⟩ := g
            simp only [ht_nil] at hh
            refine ⟨gl, ?_, ?_⟩ <;> simp only [ht_node] <;> omega
          · rw [if_neg hn2]
            obtain ⟨m, hm, r', e, gr', c1, c2, er⟩ := remMin_spec r gr (by simpa using hn2)
            obtain ⟨t2, hs, gt2, hb⟩ := step_spec l r' m hm gl gr' (by omega) (by omega)
            rw [e]
            simp only [Option.bind_some, hs]
            refine ⟨t2, rfl, gt2.toInv, ?_, ?_⟩
            · rw [step_toList hs]; simp [toList, er]
            · intro g
              obtain ⟨_, _, hh, _, _⟩ := g
              refine ⟨gt2, ?_, ?_⟩ <;> simp only [ht_node] <;> omega
      · rw [if_neg h2]
        have h3 : l.size < k := by omega
        obtain ⟨r', e, _, er, hg⟩ := ihr (k - l.size - 1) (by omega) gr.toInv
        obtain ⟨gr', c1, c2⟩ := hg gr
        obtain ⟨t2, hs, gt2, hb⟩ := step_spec l r' y h gl gr' (by omega) (by omega)
        rw [e]
        simp only [Option.bind_some, hs]
        refine ⟨t2, rfl, gt2.toInv, ?_, ?_⟩
        · rw [step_toList hs, erase_right _ _ _ _ (by rw [← size_eq_length]; exact h3),
            ← size_eq_length]
          simp [toList, er]
        · intro g
          obtain ⟨_, _, hh, _, _⟩ := g
          refine ⟨gt2, ?_, ?_⟩ <;> simp only [ht_node] <;> omega

/-! ## First / Last / Prev / Next -/

theorem first_spec (t : Tree) : first t = t.toList.head? := by
  induction t with
  | nil => rfl
  | node l x h r ihl _ =>
    simp only [first, toList, ihl]
    cases hl : l.toList <;> simp

theorem getLast_cons (x : Nat) (R : List Nat) :
    (x :: R).getLast? = match R.getLast? with
      | some v => some v
      | none => some x := by
  induction R generalizing x with
  | nil => rfl
  | cons a R ih =>
    rw [List.getLast?_cons_cons]
    have := ih a
    cases h : (a :: R).getLast? with
    | some v => rfl
    | none => rw [h] at this; cases hR : R.getLast? <;> simp [hR] at this

theorem last_spec (t : Tree) : last t = t.toList.getLast? := by
  induction t with
  | nil => rfl
  | node l x h r _ ihr =>
    simp only [last, toList, ihr]
    rw [List.getLast?_append, getLast_cons]
    cases r.toList.getLast? <;> simp

theorem nextIn_spec (t : Tree) (k : Nat) (hk : k < t.size) : nextIn t k = t.toList[k + 1]? := by
  induction t generalizing k with
  | nil => simp [size] at hk
  | node l y h r ihl ihr =>
    simp only [size] at hk
    simp only [nextIn, toList, get_app, ← size_eq_length]
    by_cases h1 : k < l.size
    · rw [if_pos h1, ihl k h1]
      by_cases h2 : k + 1 < l.size
      · rw [if_pos h2]
        have : k + 1 < l.toList.length := by rw [← size_eq_length]; exact h2
        rw [List.getElem?_eq_getElem this]
      · have h3 : k + 1 = l.size := by omega
        rw [if_neg h2, if_pos h3]
        have : l.toList.length ≤ k + 1 := by rw [← size_eq_length]; omega
        rw [List.getElem?_eq_none this]
    · rw [if_neg h1]
      by_cases h2 : k = l.size
      · rw [if_pos h2, first_spec]
        subst h2
        rw [if_neg (by omega), if_neg (by omega)]
        have : l.size + 1 - l.size - 1 = 0 := by omega
        rw [this, List.head?_eq_getElem?]
      · rw [if_neg h2, if_neg (by omega), if_neg (by omega), ihr _ (by omega)]
        congr 1; omega

theorem prevIn_spec (t : Tree) (k : Nat) (hk : k < t.size) :
    prevIn t k = if k = 0 then none else t.toList[k - 1]? := by
  induction t generalizing k with
  | nil => simp [size] at hk
  | node l y h r ihl ihr =>
    simp only [size] at hk
    simp only [prevIn, toList, get_app, ← size_eq_length]
    by_cases h1 : k < l.size
    · rw [if_pos h1, ihl k h1]
      by_cases h0 : k = 0
      · simp [h0]
      · rw [if_neg h0, if_neg h0, if_pos (by omega)]
    · rw [if_neg h1]
      by_cases h2 : k = l.size
      · rw [if_pos h2, last_spec]
        subst h2
        by_cases h0 : l.size = 0
        · have : l.toList = [] := by
            have := size_eq_length l; rw [h0] at this
            exact List.eq_nil_of_length_eq_zero this.symm
          simp [h0, this]
        · rw [if_neg h0, if_pos (by omega), List.getLast?_eq_getElem?, ← size_eq_length]
      · rw [if_neg h2, ihr _ (by omega)]
        have h0 : ¬ k = 0 := by omega
        have e1 : ¬ (k - 1 < l.size) := by omega
        have e2 : (k - 1 = l.size) ↔ (k - l.size - 1 = 0) := by omega
        simp only [if_neg h0, if_neg e1]
        by_cases h3 : k - l.size - 1 = 0
        · simp only [if_pos h3, if_pos (e2.mpr h3)]
        · simp only [if_neg h3, if_neg (mt e2.mp h3)]
          have : k - 1 - l.size - 1 = k - l.size - 1 - 1 := by omega
          rw [this]
          cases hr : r.toList[k - l.size - 1 - 1]? with
          | some v => rfl
          | none =>
            exfalso
            have := List.getElem?_eq_none_iff.mp hr
            rw [← size_eq_length] at this
            omega

/-! ## arbitrary operation histories -/

theorem size_mod_lt (n k : Nat) : k % (n + 1) ≤ n := by
  have := Nat.mod_lt k (by omega : n + 1 > 0); omega

theorem applyOp_spec (t : Tree) (op : Op) (i : Inv t) :
    ∃ t', applyOp t op = some t' ∧ Inv t' ∧ t'.toList = applySpec t.toList op := by
  cases op with
  | ins k x =>
    obtain ⟨t', e, it', el⟩ := insertAt_spec t (k % (t.size + 1)) x (size_mod_lt _ _) i
    exact ⟨t', e, it', by rw [el]; simp [applySpec, size_eq_length]⟩
  | del k =>
    simp only [applyOp, applySpec, ← size_eq_length]
    by_cases h0 : t.size = 0
    · simp only [h0, if_true]; exact ⟨t, rfl, i, rfl⟩
    · rw [if_neg h0, if_neg h0]
      obtain ⟨t', e, it', el, _⟩ := rem_spec t (k % t.size) (Nat.mod_lt _ (by omega)) i
      exact ⟨t', e, it', el⟩

theorem run_spec (ops : List Op) (t : Tree) (i : Inv t) :
    ∃ t', run t ops = some t' ∧ Inv t' ∧ t'.toList = runSpec t.toList ops := by
  induction ops generalizing t with
  | nil => exact ⟨t, rfl, i, rfl⟩
  | cons op ops ih =>
    obtain ⟨t1, e, i1, el⟩ := applyOp_spec t op i
    obtain ⟨t2, e2, i2, el2⟩ := ih t1 i1
    exact ⟨t2, by simp [run, e, e2], i2, by rw [el2, el]; rfl⟩

end Canvas.C01Avl
