import CanvasProofs.Lemmas.C09Geom
/-! C09 helper lemmas: every quantity that is accumulated over the geometric segments by a commutative,
associative operation and does not depend on the direction of a segment (arc length with an exact
segment-length function, bounding box, …) is the same for a path and its reverse. Core Lean only. -/
namespace C09L
open Canvas Canvas.Path Canvas.C09
variable {α : Type}

/-- accumulate `f` over a list with `op`, starting from `e` -/
def accum {β M : Type} (op : M → M → M) (e : M) (f : β → M) (l : List β) : M :=
  l.foldr (fun b acc => op (f b) acc) e

theorem accum_append {β M : Type} (op : M → M → M) (e : M) (f : β → M)
    (hassoc : ∀ a b c, op (op a b) c = op a (op b c)) (hid : ∀ a, op e a = a) (xs ys : List β) :
    accum op e f (xs ++ ys) = op (accum op e f xs) (accum op e f ys) := by
  induction xs with
  | nil => simp [accum, hid]
  | cons x xs ih =>
    have : accum op e f (x :: xs ++ ys) = op (f x) (accum op e f (xs ++ ys)) := rfl
    rw [this, ih, ← hassoc]; rfl

theorem accum_reverse {β M : Type} (op : M → M → M) (e : M) (f : β → M)
    (hassoc : ∀ a b c, op (op a b) c = op a (op b c)) (hcomm : ∀ a b, op a b = op b a)
    (hid : ∀ a, op e a = a) (l : List β) : accum op e f l.reverse = accum op e f l := by
  induction l with
  | nil => rfl
  | cons x xs ih =>
    rw [List.reverse_cons, accum_append op e f hassoc hid, ih]
    have h1 : accum op e f [x] = op (f x) e := rfl
    have h2 : accum op e f (x :: xs) = op (f x) (accum op e f xs) := rfl
    rw [h1, h2, hcomm (f x) e, hid, hcomm]

theorem accum_map {β γ M : Type} (op : M → M → M) (e : M) (f : γ → M) (g : β → γ) (l : List β) :
    accum op e f (l.map g) = accum op e (f ∘ g) l := by
  induction l with
  | nil => rfl
  | cons x xs ih => simp only [List.map_cons, accum, List.foldr_cons, Function.comp] at ih ⊢; rw [ih]

/-- a direction-independent, commutatively accumulated measure of the geometric segments is invariant
under `Reverse` -/
theorem measure_reverse {M : Type} (eq : Pt α → Pt α → Bool) (op : M → M → M) (e : M) (m : Seg α → M)
    (hassoc : ∀ a b c, op (op a b) c = op a (op b c)) (hcomm : ∀ a b, op a b = op b a)
    (hid : ∀ a, op e a = a) (hrev : ∀ s, m (Seg.rev s) = m s)
    (subs : List (SubPath α)) (h : ∀ s ∈ subs, s.RevOK eq) :
    accum op e m (geom eq ((subs.map (revSub eq)).reverse)) = accum op e m (geom eq subs) := by
  rw [geom_reverse eq subs h, accum_map]
  have : m ∘ Seg.rev = m := funext hrev
  rw [this, accum_reverse op e m hassoc hcomm hid]

end C09L
