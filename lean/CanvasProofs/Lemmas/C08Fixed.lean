import CanvasProofs.Lemmas.C08
import CanvasProofs.Lemmas.C08Equiv

/-! # C08 — full-strength FastBounds theorems for the CORRECTED CubeTo formula

HISTORICAL NOTE: both fixes have been committed in /repo and the switch described below has been made;
`CanvasProofs/C08.lean` imports this file and `fastBounds = fastBoundsFixed` definitionally.

NOT imported by `CanvasProofs/C08.lean` while the defect `fastbounds-cubic-minmax` is present in /repo.
Everything here is about `fastBoundsFixed = run (fastStepG Ops.mx)`, i.e. FastBounds with
`math.Max(cp1, math.Max(cp2, end))` in the upper bounds of the CubeTo case.

## Switching after the `fix:` commit in /repo (path.go, FastBounds, `case CubeToCmd`: the inner
`math.Min(cp2.X, end.X)` / `math.Min(cp2.Y, end.Y)` of the xmax/ymax lines become `math.Max`)

Run `python3 /verif/corpus/C08/switch_after_fix.py fastbounds` (idempotent). It
1. changes ONE token in `CanvasModel/C08.lean`: `def fastStep … := fastStepG mn` → `fastStepG mx`
   (otherwise the bit-exact correspondence reports a mismatch on every cubic whose cp2/end exceeds cp1);
   then `fastBounds` and `fastBoundsFixed` are definitionally equal;
2. replaces the block between `-- BEGIN pre-fix fastbounds` and `-- END pre-fix fastbounds` in
   `CanvasProofs/C08.lean` (the `_statement` definitions, the `_partial` theorems and the two defect
   witnesses, which no longer hold) by `corpus/C08/C08_fastbounds_after_fix.lean.txt`: the same
   theorems at full strength, each a one-line appeal to this file;
3. you set `"status": "fixed"` (+ `"commit"`) in the entry `C08-fastbounds-cubic-minmax` of
   `known_findings.json`.
`python3 /verif/corpus/C08/switch_after_fix.py thetatop` does the analogous one-token change
(`boundsStepG false` → `boundsStepG true`) for the second finding `bounds-arc-thetatop`.
Then `bin/check C08` must be green with no KNOWN-FINDING line. (Tested on a scratch copy.) -/
set_option linter.unusedSectionVars false
set_option linter.unusedVariables false
namespace C08
open Canvas Canvas.C08 GenK
variable {K : Type} [Field K] [LinearOrder K] [IsStrictOrderedRing K] [Env K] [ArcFns K]

theorem fastOk_max (c : Cmd K) (h : c.isArc = false) : FastOk (max : K → K → K) c :=
  ⟨h, fun _ a b => ⟨le_max_left a b, le_max_right a b⟩⟩

/-- FastBounds (corrected) contains every point of every M/L/Q/C/Z path. -/
theorem fastBoundsFixed_contains_curve (cs : List (Cmd K)) (q : Pt K)
    (harc : ∀ c ∈ cs, c.isArc = false) (h : OnPath cs q) : InRect (fastBoundsFixed cs) q :=
  run_contains (fastStepG_good (K := K) max) cs q (fun c hc => fastOk_max c (harc c (List.mem_of_mem_tail hc))) h

/-- the four sides of `bounds` are attained, so any box containing the path contains `bounds`
(copied statement of `C08.bounds_smallest`, which lives in the property file) -/
theorem bounds_below (hε : 0 ≤ (Env.epsilon : K)) (sw : Bool) (c : Cmd K) (cs : List (Cmd K))
    (harc : ∀ c' ∈ c :: cs, c'.isArc = false) (r : Rct K) (hr : ∀ q, OnPath (c :: cs) q → InRect r q) :
    r.x0 ≤ (run (boundsStepG sw) (c :: cs)).x0 ∧ (run (boundsStepG sw) (c :: cs)).x1 ≤ r.x1 ∧
    r.y0 ≤ (run (boundsStepG sw) (c :: cs)).y0 ∧ (run (boundsStepG sw) (c :: cs)).y1 ≤ r.y1 := by
  have h0 : Att (fun q => q = c.firstPt) (St.init c.firstPt : St K) :=
    ⟨⟨_, rfl, rfl⟩, ⟨_, rfl, rfl⟩, ⟨_, rfl, rfl⟩, ⟨_, rfl, rfl⟩⟩
  obtain ⟨⟨q1, p1, e1⟩, ⟨q2, p2, e2⟩, ⟨q3, p3, e3⟩, ⟨q4, p4, e4⟩⟩ :=
    fold_att hε sw cs _ _ (fun c' hc' => harc c' (List.mem_cons_of_mem _ hc')) h0
  refine ⟨?_, ?_, ?_, ?_⟩
  · show r.x0 ≤ (cs.foldl (boundsStepG sw) (St.init c.firstPt)).xmin
    rw [← e1]; exact (hr q1 p1).1
  · show (cs.foldl (boundsStepG sw) (St.init c.firstPt)).xmax ≤ r.x1
    rw [← e2]; exact (hr q2 p2).2.1
  · show r.y0 ≤ (cs.foldl (boundsStepG sw) (St.init c.firstPt)).ymin
    rw [← e3]; exact (hr q3 p3).2.2.1
  · show (cs.foldl (boundsStepG sw) (St.init c.firstPt)).ymax ≤ r.y1
    rw [← e4]; exact (hr q4 p4).2.2.2

/-- FastBounds (corrected) contains Bounds for every M/L/Q/C/Z path, any Epsilon ≥ 0. -/
theorem fastFixed_contains_bounds (hε : 0 ≤ (Env.epsilon : K)) (sw : Bool) (cs : List (Cmd K))
    (harc : ∀ c ∈ cs, c.isArc = false) :
    (fastBoundsFixed cs).x0 ≤ (run (boundsStepG sw) cs).x0 ∧ (run (boundsStepG sw) cs).x1 ≤ (fastBoundsFixed cs).x1 ∧
    (fastBoundsFixed cs).y0 ≤ (run (boundsStepG sw) cs).y0 ∧ (run (boundsStepG sw) cs).y1 ≤ (fastBoundsFixed cs).y1 := by
  cases cs with
  | nil => simp [fastBoundsFixed, run]
  | cons c cs =>
    exact bounds_below hε sw c cs harc _ (fun q hq => fastBoundsFixed_contains_curve (c :: cs) q harc hq)

/-- FastBounds (corrected) commutes with translation and both reflections on every Bézier path. -/
theorem fastBoundsFixed_translate (d : Pt K) (cs : List (Cmd K)) (hne : cs ≠ []) (harc : ∀ c ∈ cs, c.isArc = false) :
    fastBoundsFixed (cs.map (Cmd.mapP (trP d))) = trR d (fastBoundsFixed cs) :=
  run_equiv fastStepFixed (trP d) (trS d) (trR d) (fun c => c.isArc = false)
    (fun s c hc => fastStepG_tr Ops.mx (fun a b c => by simp [max_add_add_right]) d s c hc)
    (fun c hc => firstPt_mapP _ c hc) (fun p => rfl) (fun s => rfl) cs hne harc

theorem fastBoundsFixed_reflect (cs : List (Cmd K)) (hne : cs ≠ []) (harc : ∀ c ∈ cs, c.isArc = false) :
    fastBoundsFixed (cs.map (Cmd.mapP rxP)) = rxR (fastBoundsFixed cs) ∧
    fastBoundsFixed (cs.map (Cmd.mapP ryP)) = ryR (fastBoundsFixed cs) := by
  constructor
  · exact run_equiv fastStepFixed rxP rxS rxR (fun c => c.isArc = false)
      (fun s c hc => fastStepG_rx Ops.mx s c hc (fun _ a b => rfl))
      (fun c hc => firstPt_mapP _ c hc) (fun p => rfl) (fun s => rfl) cs hne harc
  · exact run_equiv fastStepFixed ryP ryS ryR (fun c => c.isArc = false)
      (fun s c hc => fastStepG_ry Ops.mx s c hc (fun _ a b => rfl))
      (fun c hc => firstPt_mapP _ c hc) (fun p => rfl) (fun s => rfl) cs hne harc

@[instance_reducible] def envQF : Env ℚ := ⟨0, 0, 0, id, id, id, fun _ _ => 0, id, fun _ _ => 0, id, id, fun _ _ => 0, fun _ => false⟩
@[instance_reducible] def arcQF : ArcFns ℚ := ⟨fun _ _ => 0⟩
attribute [local instance] envQF arcQF

/-- the corrected formula on the witness path `M0 0 C0 1 10 0 0 2`: (0,0)-(10,2) -/
example : fastBoundsFixed ([.M ⟨0, 0⟩, .C ⟨0, 1⟩ ⟨10, 0⟩ ⟨0, 2⟩] : List (Cmd ℚ)) = (⟨0, 0, 10, 2⟩ : Rct ℚ) := by
  simp [fastBoundsFixed, run, fastStepFixed, fastStepG, St.init, St.rect, Cmd.firstPt]

end C08
