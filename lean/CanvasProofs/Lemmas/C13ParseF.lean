import CanvasProofs.Lemmas.C13ParseE

/-! C13 serialise-then-parse, part F: stream objects (dictionary with /Length, then the data). -/
namespace C13L
open Canvas.C13 Canvas.C13.Rd Canvas.C13.P

/-- what `v.dict["Length"] = len(b)` does to the dictionary, on values -/
def withLen (kvs : List (Bytes × Val)) (n : Nat) : List (Bytes × Val) :=
  kvs.filter (fun e => e.1 != kLength) ++ [(kLength, .int n)]

theorem serKvs_eq_map (kvs : List (Bytes × Val)) :
    serKvs kvs = kvs.map (fun e => (e.1, e.2.continues, ser e.2)) := by
  induction kvs with
  | nil => simp [serKvs]
  | cons kv r ih => obtain ⟨k, v⟩ := kv; simp [serKvs, ih]

theorem normKvs_eq_map (kvs : List (Bytes × Val)) : normKvs kvs = kvs.map (fun e => (e.1, norm e.2)) := by
  induction kvs with
  | nil => simp [normKvs]
  | cons kv r ih => obtain ⟨k, v⟩ := kv; simp [normKvs, ih]

theorem serKvs_withLen (kvs : List (Bytes × Val)) (n : Nat) :
    serKvs (withLen kvs n) = setLength (serKvs kvs) n := by
  unfold withLen setLength
  rw [serKvs_eq_map, serKvs_eq_map, List.map_append, List.filter_map]
  congr 1

theorem ser_stream (kvs : List (Bytes × Val)) (body : Bytes) :
    ser (.stream kvs body) = ser (.dict (withLen kvs body.length)) ++ (asc "stream\n" ++ (body ++ asc "\nendstream\n")) := by
  simp only [ser, streamBytes, serKvs_withLen, List.append_assoc]

/-- the dictionary case of the round trip needs no condition on what follows `>>` -/
theorem rt_dict (kvs : List (Bytes × Val)) (f : Nat) (T : Bytes) (hw : wfKvs kvs = true)
    (hc : canonOK (serKvs kvs) = true) (hf : 1 + sizeKvs kvs ≤ f) :
    parseVal f (ser (.dict kvs) ++ T) = some (.dict (normKvs kvs), T) := by
  cases f with
  | zero => omega
  | succ f =>
    have hk := rt_kvs kvs f T hw (by omega)
    rw [ser_dict kvs T hc, parseVal.eq_def]
    simp only [skipWs_cons_of_not_ws _ (show isWS 0x3C = false by decide)]
    simp only [show (0x3C : UInt8) ≠ 0x2F by decide, show (0x3C : UInt8) ≠ 0x28 by decide,
      show (0x3C : UInt8) ≠ 0x5B by decide, if_false, if_true, hk]

theorem lookupLen_withLen (kvs : List (Bytes × Val)) (n : Nat) :
    lookupLen (normKvs (withLen kvs n)) = some n := by
  unfold lookupLen withLen
  rw [normKvs_eq_map, List.map_append, List.find?_append]
  have hnone : List.find? (fun e => e.1 == kLength)
      ((kvs.filter (fun e => e.1 != kLength)).map (fun e => (e.1, norm e.2))) = none := by
    rw [List.find?_eq_none]
    intro e he
    obtain ⟨e0, he0, rfl⟩ := List.mem_map.mp he
    have := (List.mem_filter.mp he0).2
    simpa using this
  rw [hnone]
  simp only [List.map_cons, List.map_nil, Option.none_or, List.find?_cons, beq_self_eq_true, norm, intBytes]
  have : ¬ ((n : Int) < 0) := by omega
  simp [this, isNatTok_natBytes, natOf_natBytes]

theorem dropPrefix_append (p r : Bytes) : dropPrefix p (p ++ r) = some r := by
  induction p with
  | nil => cases r <;> rfl
  | cons c ps ih => simp [dropPrefix, ih]

theorem readStream_ok (body T : Bytes) :
    readStream body.length (asc "stream\n" ++ (body ++ asc "\nendstream\n") ++ T) = some (body, 0x0A :: T) := by
  have e1 : asc "stream\n" ++ (body ++ asc "\nendstream\n") ++ T
      = asc "stream" ++ (0x0A :: (body ++ (0x0A :: (asc "endstream" ++ (0x0A :: T))))) := by
    simp only [show asc "stream\n" = asc "stream" ++ [0x0A] by decide,
      show asc "\nendstream\n" = 0x0A :: (asc "endstream" ++ [0x0A]) by decide, List.append_assoc,
      List.cons_append, List.nil_append]
  unfold readStream
  rw [e1]
  have hs : skipWs (asc "stream" ++ (0x0A :: (body ++ (0x0A :: (asc "endstream" ++ (0x0A :: T))))))
      = asc "stream" ++ (0x0A :: (body ++ (0x0A :: (asc "endstream" ++ (0x0A :: T))))) := by
    show skipWs (0x73 :: _) = _
    exact skipWs_cons_of_not_ws _ (by decide)
  rw [hs, dropPrefix_append]
  simp only [List.length_append, List.length_cons]
  have hlt : ∀ k : Nat, ¬ (body.length + k < body.length) := by intro k; omega
  simp only [hlt, if_false, List.take_left', List.drop_left', dropPrefix_append, Option.map_some]

/-- A stream object written by `writeVal(pdfStream)` reads back: the dictionary (with the `/Length`
the writer set), exactly the bytes that were written between `stream\n` and `\nendstream`, and the
rest of the input. -/
theorem rt_stream (kvs : List (Bytes × Val)) (body T : Bytes) (f : Nat)
    (hw : wfKvs (withLen kvs body.length) = true) (hc : canonOK (setLength (serKvs kvs) body.length) = true)
    (hf : 1 + sizeKvs (withLen kvs body.length) ≤ f) :
    parseStreamObj f (ser (.stream kvs body) ++ T)
      = some (normKvs (withLen kvs body.length), body, 0x0A :: T) := by
  unfold parseStreamObj
  rw [ser_stream, List.append_assoc]
  rw [rt_dict (withLen kvs body.length) f _ hw (by rw [serKvs_withLen]; exact hc) hf]
  simp only [lookupLen_withLen]
  rw [readStream_ok]
  rfl

end C13L
