import CanvasModel.C16
/-! Lemmas for C16 (a): Size accounting of GlyphsToItems. -/
namespace Canvas.C16

theorem sizes_append (a b : List Item) : sizes (a ++ b) = sizes a + sizes b := by
  induction a with
  | nil => simp [sizes]
  | cons x r ih => simp [sizes, ih]; omega

theorem sizes_reverse (a : List Item) : sizes a.reverse = sizes a := by
  induction a with
  | nil => simp [sizes]
  | cons x r ih => simp [sizes, sizes_append, ih]; omega

theorem toList_sizes (s : St) : sizes s.toList = s.total := by
  simp [St.toList, St.total, sizes_append, sizes_reverse, sizes]; omega

@[simp] theorem total_push (s : St) (it : Item) : (s.push it).total = s.total + it.size := by
  simp [St.push, St.total, sizes]; omega

@[simp] theorem total_inc (s : St) : s.inc.total = s.total + 1 := by
  simp [St.inc, St.total]; omega

theorem total_mk (it : Item) (r : List Item) : (St.mk it r).total = it.size + sizes r := rfl

@[simp] theorem mkBox_size (w : Float) : (mkBox w).size = 0 := rfl
@[simp] theorem mkGlue_size (w y z : Float) : (mkGlue w y z).size = 0 := rfl
@[simp] theorem mkPen_size (w p : Float) (f : Bool) : (mkPen w p f).size = 0 := rfl

@[simp] theorem total_addGlue (s : St) (w y z : Float) : (addGlue s w y z).total = s.total := by
  unfold addGlue; split
  · simp [St.total]
  · simp

theorem stepSpace_total (al : Align) (sw : Float) (gs : Array G) (i : Nat) (g : G) (s : St) :
    (stepSpace al sw gs i g s).total = s.total + 1 := by
  unfold stepSpace; cases al <;> simp

theorem stepNl_total (al : Align) (sw : Float) (gs : Array G) (i : Nat) (g : G) (s : St) :
    (stepNl al sw gs i g s).total = s.total + 1 := by
  unfold stepNl; simp only []; split <;> (try split) <;> simp

theorem stepHyph_total (al : Align) (sw : Float) (g : G) (s : St) :
    (stepHyph al sw g s).total = s.total + 1 := by
  unfold stepHyph; cases al <;> simp

theorem stepCh_total (gs : Array G) (i : Nat) (g : G) (s : St) : (stepCh gs i g s).total = s.total + 1 := by
  unfold stepCh; simp only []
  split <;> split <;> (try split) <;> simp [St.total, St.push, St.inc, sizes, mkPen, mkBox] <;> omega

/-- every glyph adds exactly one to the total Size -/
theorem step_total (al : Align) (sw : Float) (gs : Array G) (i : Nat) (g : G) (s : St) :
    (step al sw gs i g s).total = s.total + 1 := by
  unfold step
  split
  · exact stepSpace_total ..
  · exact stepNl_total ..
  · exact stepNl_total ..
  · exact stepNl_total ..
  · exact stepHyph_total ..
  · exact stepHyph_total ..
  · exact stepCh_total ..

theorem loop_total (al : Align) (sw : Float) (gs : Array G) (l : List G) :
    ∀ (i : Nat) (s : St), (loop al sw gs i l s).total = s.total + l.length := by
  induction l with
  | nil => intro i s; simp [loop]
  | cons g r ih =>
    intro i s
    simp only [loop]
    rw [ih (i + 1) _, step_total al sw gs i g s]
    simp; omega

theorem finish_total (al : Align) (sw : Float) (s : St) : (finish al sw s).total = s.total := by
  unfold finish; split <;> simp

theorem toItems_sizes (al : Align) (indent : Float) (gs : List G) :
    sizes (toItems al indent gs) = gs.length := by
  unfold toItems
  split
  · rename_i h; simp [List.isEmpty_iff] at h; simp [h, sizes]
  · simp only []
    rw [toList_sizes, finish_total]
    have h1 : (List.takeWhile isSp gs).length ≤ gs.length := (List.takeWhile_sublist isSp).length_le
    have h2 : (List.takeWhile isSp (List.drop (List.takeWhile isSp gs).length gs).reverse).length
        ≤ (List.drop (List.takeWhile isSp gs).length gs).length := by
      have := (List.takeWhile_sublist isSp (l := (List.drop (List.takeWhile isSp gs).length gs).reverse)).length_le
      simpa using this
    simp only [List.length_drop] at h2
    split <;> split <;> split <;> simp only [total_push, loop_total] <;>
      simp [total_mk, sizes, List.length_take, List.length_drop] <;> omega

end Canvas.C16
