import CanvasModel.C16
/-! Lemmas for C16 (a): Size accounting of GlyphsToItems. -/
namespace Canvas.C16

theorem sizes_append (a b : List Item) : sizes (a ++ b) = sizes a + sizes b := by
  induction a with
  | nil => simp [sizes]
  | cons x r ih => simp [sizes, ih]; omega

theorem sizes_reverse (a : List Item) : sizes a.reverse = sizes a := by
  induction a with
  | nil => simp [sizes]
  | cons x r ih => simp [sizes, sizes_append, ih]; omega

theorem toList_sizes (s : St) : sizes s.toList = s.total := by
  simp [St.toList, St.total, sizes_append, sizes_reverse, sizes]; omega

@[simp] theorem total_push (s : St) (it : Item) : (s.push it).total = s.total + it.size := by
  simp [St.push, St.total, sizes]; omega

@[simp] theorem total_inc (s : St) : s.inc.total = s.total + 1 := by
  simp [St.inc, St.total]; omega

theorem total_mk (it : Item) (r : List Item) : (St.mk it r).total = it.size + sizes r := rfl

@[simp] theorem mkBox_size (w : Float) : (mkBox w).size = 0 := rfl
@[simp] theorem mkGlue_size (w y z : Float) : (mkGlue w y z).size = 0 := rfl
@[simp] theorem mkPen_size (w p : Float) (f : Bool) : (mkPen w p f).size = 0 := rfl

@[simp] theorem total_addGlue (s : St) (w y z : Float) : (addGlue s w y z).total = s.total := by
  unfold addGlue; split
  · simp [St.total]
  · simp

theorem stepSpace_total (al : Align) (sw : Float) (gs : Array G) (i : Nat) (g : G) (s : St) :
    (stepSpace al sw gs i g s).total = s.total + 1 := by
  unfold stepSpace; cases al <;> simp

theorem stepNl_total (al : Align) (sw : Float) (gs : Array G) (i : Nat) (g : G) (s : St) :
    (stepNl al sw gs i g s).total = s.total + 1 := by
  unfold stepNl; simp only []; split <;> (try split) <;> simp

theorem stepHyph_total (al : Align) (sw : Float) (g : G) (s : St) (h : al ≠ .centered) :
    (stepHyph al sw g s).total = s.total + 1 := by
  unfold stepHyph; cases al <;> simp_all

theorem stepHyph_centered (sw : Float) (g : G) (s : St) : stepHyph .centered sw g s = s := rfl

theorem stepCh_total (gs : Array G) (i : Nat) (g : G) (s : St) : (stepCh gs i g s).total = s.total + 1 := by
  unfold stepCh; simp only []
  split <;> split <;> (try split) <;> simp [St.total, St.push, St.inc, sizes, mkPen, mkBox] <;> omega

/-- every glyph adds exactly one to the total Size, except U+00AD / U+200B under `Centered` -/
theorem step_total (al : Align) (sw : Float) (gs : Array G) (i : Nat) (g : G) (s : St)
    (h : al = .centered → g.k ≠ .shy ∧ g.k ≠ .zwsp) :
    (step al sw gs i g s).total = s.total + 1 := by
  unfold step
  split
  · exact stepSpace_total ..
  · exact stepNl_total ..
  · exact stepNl_total ..
  · exact stepNl_total ..
  · rename_i hk; exact stepHyph_total _ _ _ _ (fun hc => (h hc).1 hk)
  · rename_i hk; exact stepHyph_total _ _ _ _ (fun hc => (h hc).2 hk)
  · exact stepCh_total ..

theorem loop_total (al : Align) (sw : Float) (gs : Array G) (l : List G) :
    ∀ (i : Nat) (s : St), (∀ g ∈ l, al = .centered → g.k ≠ .shy ∧ g.k ≠ .zwsp) →
      (loop al sw gs i l s).total = s.total + l.length := by
  induction l with
  | nil => intro i s _; simp [loop]
  | cons g r ih =>
    intro i s h
    simp only [loop]
    rw [ih (i + 1) _ (fun g' hg' => h g' (List.mem_cons_of_mem _ hg'))]
    rw [step_total al sw gs i g s (h g (List.mem_cons_self ..))]
    simp; omega

theorem finish_total (al : Align) (sw : Float) (s : St) : (finish al sw s).total = s.total := by
  unfold finish; split <;> simp

theorem toItems_sizes (al : Align) (indent : Float) (gs : List G)
    (hc : al = .centered → ∀ g ∈ gs, g.k ≠ .shy ∧ g.k ≠ .zwsp) :
    sizes (toItems al indent gs) = gs.length := by
  unfold toItems
  split
  · rename_i h; simp [List.isEmpty_iff] at h; simp [h, sizes]
  · simp only []
    rw [toList_sizes, finish_total]
    have h1 : (List.takeWhile isSp gs).length ≤ gs.length := (List.takeWhile_sublist isSp).length_le
    have h2 : (List.takeWhile isSp (List.drop (List.takeWhile isSp gs).length gs).reverse).length
        ≤ (List.drop (List.takeWhile isSp gs).length gs).length := by
      have := (List.takeWhile_sublist isSp (l := (List.drop (List.takeWhile isSp gs).length gs).reverse)).length_le
      simpa using this
    have hmid : ∀ g ∈ List.take ((List.drop (List.takeWhile isSp gs).length gs).length -
        (List.takeWhile isSp (List.drop (List.takeWhile isSp gs).length gs).reverse).length)
        (List.drop (List.takeWhile isSp gs).length gs), al = .centered → g.k ≠ .shy ∧ g.k ≠ .zwsp := by
      intro g hg hal
      exact hc hal g (List.mem_of_mem_drop (List.mem_of_mem_take hg))
    simp only [List.length_drop] at h2
    split <;> split <;> split <;> simp only [total_push, loop_total _ _ _ _ _ _ hmid] <;>
      simp [total_mk, sizes, List.length_take, List.length_drop] <;> omega

end Canvas.C16
