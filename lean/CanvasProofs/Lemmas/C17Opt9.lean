import CanvasProofs.Lemmas.C17Opt8
/-! C17, towards `optimal_statement`, part 9: the returned chain is itself a legal breaking whose
`seqCost` is its recorded total of demerits. -/
set_option linter.unusedSectionVars false
set_option linter.unusedVariables false
namespace Canvas.C17

section
variable {α : Type} [Add α] [Sub α] [Mul α] [Div α] [Neg α] [LT α] [LE α] [BEq α]
  [DecidableLT α] [DecidableLE α] [NatCast α]

/-- a sequence that contains every forced break skips none -/
theorem noSkip_of_mem (P : Params α) (items : List (Item α)) : ∀ (seq : List Nat) (prev : Option Nat),
    seq.Pairwise (· < ·) → (∀ y, y ∈ seq → ∀ a, prev = some a → a < y) →
    (∀ f, forcedAt P items f = true → (∀ a, prev = some a → a < f) → f ∈ seq) → NoSkip P items prev seq := by
  intro seq
  induction seq with
  | nil => intro _ _ _ _; exact True.intro
  | cons x rest ih =>
    intro prev hpw haft hall
    have hp := List.pairwise_cons.mp hpw
    constructor
    · intro f hf hfx
      cases hfo : forcedAt P items f with
      | false => rfl
      | true =>
        exfalso
        rcases List.mem_cons.mp (hall f hfo hf) with h | h
        · omega
        · have := hp.1 f h; omega
    · apply ih (some x) hp.2
      · intro y hy a ha; cases ha; exact hp.1 y hy
      · intro f hfo hf
        have hxf := hf x rfl
        rcases List.mem_cons.mp (hall f hfo (fun a ha => Nat.lt_trans (haft x List.mem_cons_self a ha) hxf)) with h | h
        · omega
        · exact h

end

section field
variable {K : Type} [Field K] [LinearOrder K] [IsStrictOrderedRing K]

theorem forced_legal (P : Params K) (items : List (Item K)) (hinf : 0 < P.infinity) (f : Nat)
    (h : forcedAt P items f = true) : legalAt P items f = true := by
  unfold forcedAt at h
  unfold legalAt
  cases hit : items[f]? with
  | none => rw [hit] at h; cases h
  | some it =>
    rw [hit] at h
    simp only at h ⊢
    unfold isForced at h
    simp only [Bool.and_eq_true, decide_eq_true_eq] at h
    unfold legalLocal
    rw [h.1]
    simp only [decide_eq_true_eq]
    linarith [h.2]

/-- state (last break, its class, accumulated demerits) after the breaking `seq` -/
def seqState (P : Params K) (items : List (Item K)) (lineW tol : K) :
    Option Nat → Nat → K → List Nat → Option (Option Nat × Nat × K)
  | prev, fit, acc, [] => some (prev, fit, acc)
  | prev, fit, acc, b :: rest =>
    match codeStep P items lineW tol prev fit b with
    | some (d, c) => seqState P items lineW tol (some b) c (d + acc) rest
    | none => none

theorem seqCost_eq_state (P : Params K) (items : List (Item K)) (lineW tol : K) :
    ∀ (seq : List Nat) (prev : Option Nat) (fit : Nat) (acc : K),
      seqCost P items lineW (some tol) prev fit acc seq = (seqState P items lineW tol prev fit acc seq).map (·.2.2) := by
  intro seq
  induction seq with
  | nil => intro prev fit acc; rfl
  | cons b rest ih =>
    intro prev fit acc
    rw [seqCost_cons]
    simp only [seqState]
    cases codeStep P items lineW tol prev fit b with
    | none => rfl
    | some dc => obtain ⟨d, c⟩ := dc; exact ih _ _ _

theorem seqState_snoc (P : Params K) (items : List (Item K)) (lineW tol : K) (b : Nat) :
    ∀ (seq : List Nat) (prev : Option Nat) (fit : Nat) (acc : K),
      seqState P items lineW tol prev fit acc (seq ++ [b]) =
        match seqState P items lineW tol prev fit acc seq with
        | some (p, f, a) =>
          (match codeStep P items lineW tol p f b with
            | some (d, c) => some (some b, c, d + a)
            | none => none)
        | none => none := by
  intro seq
  induction seq with
  | nil =>
    intro prev fit acc
    simp only [List.nil_append, seqState]
  | cons x rest ih =>
    intro prev fit acc
    simp only [List.cons_append, seqState]
    cases codeStep P items lineW tol prev fit x with
    | none => rfl
    | some dc => obtain ⟨d, c⟩ := dc; exact ih _ _ _

/-- the break a chain head stands for: `none` for the root -/
def headPrev (c : ND K) (rest : List (ND K)) : Option Nat := if rest = [] then none else some c.pos

/-- the demerits recorded at the head of a well-formed chain without fallback breakpoints are the
`seqCost` of the chain's positions -/
theorem chain_state (P : Params K) (items : List (Item K)) (lineW tol : K) (hfl : flaggedAt items 0 = false)
    {ch : List (ND K)} (h : ChainOK P items lineW (some tol) false ch) :
    (∀ d, d ∈ ch → d.fit = fitClass d.ratio) → ∀ c rest, ch = c :: rest →
      seqState P items lineW tol none 1 0 (nonRootPos ch).reverse = some (headPrev c rest, c.fit, c.dem) := by
  induction h with
  | root =>
    intro _ c rest he
    cases he
    simp [nonRootPos, seqState, headPrev, rootD, k0]
  | normal c p rest it h1 h2 h3 h4 h5 h6 h7 h8 h9 h10 ih =>
    intro hfit c' rest' he
    cases he
    have hih := ih (fun d hd => hfit d (List.mem_cons_of_mem _ hd)) p rest rfl
    have hnr : nonRootPos (c :: p :: rest) = c.pos :: nonRootPos (p :: rest) := rfl
    rw [hnr, List.reverse_cons, seqState_snoc, hih]
    simp only
    -- the code's step from the parent's break to `c.pos`
    have hsums : (p.w, p.y, p.z) = afterSums P items (headPrev p rest) ∧
        flaggedAt items p.pos = flaggedAtOpt items (headPrev p rest) := by
      rcases chain_head_sums h10 with ⟨hr, hp⟩ | ⟨hr, hp⟩
      · subst hr; subst hp
        simp only [headPrev, if_true, afterSums, flaggedAtOpt, rootD]
        exact ⟨trivial, hfl⟩
      · simp only [headPrev, if_neg hr, afterSums, flaggedAtOpt]
        exact ⟨hp, trivial⟩
    have hw : p.w = (afterSums P items (headPrev p rest)).1 := congrArg (·.1) hsums.1
    have hy : p.y = (afterSums P items (headPrev p rest)).2.1 := congrArg (·.2.1) hsums.1
    have hz : p.z = (afterSums P items (headPrev p rest)).2.2 := congrArg (·.2.2) hsums.1
    have hstep : codeStep P items lineW tol (headPrev p rest) p.fit c.pos =
        some (lineDemerits P it c.ratio (flaggedAt items p.pos) p.fit, fitClass c.ratio) := by
      unfold codeStep
      rw [if_pos h1, h4]
      simp only
      rw [← hw, ← hy, ← hz, h7]
      simp only [keepFeas, h8, if_true, hsums.2]
    rw [hstep]
    simp only [headPrev]
    rw [if_neg (by simp)]
    rw [hfit c List.mem_cons_self, h9]
  | fallback c p rest h0 => cases h0

end field
end Canvas.C17
