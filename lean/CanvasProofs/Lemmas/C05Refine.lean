import CanvasProofs.Lemmas.C05

/-! Refinement of the per-subpath part of `Dash` (position list, piece selection, closed-subpath
join) to the pattern semantics: lemmas. -/
set_option linter.unusedSectionVars false
namespace C05L
open Canvas.C05
variable {K : Type} [Field K] [LinearOrder K] [IsStrictOrderedRing K]

/-- The positive members of a strictly increasing sequence `g 0 < g 1 < … < g (m-1)` form a suffix:
the filtered list is `g r, g (r+1), …` with `r = m - (its length)`, and everything before is `≤ 0`. -/
theorem filter_pos_strictMono (g : Nat → K) (hg : ∀ a b, a < b → g a < g b) :
    ∀ m : Nat,
      (((List.range m).map g).filter (fun x => decide (0 < x))).length ≤ m ∧
      (∀ j, j < (((List.range m).map g).filter (fun x => decide (0 < x))).length →
        (((List.range m).map g).filter (fun x => decide (0 < x))).getD j 0 =
          g (m - (((List.range m).map g).filter (fun x => decide (0 < x))).length + j)) ∧
      (∀ k, k < m - (((List.range m).map g).filter (fun x => decide (0 < x))).length → g k ≤ 0) := by
  intro m
  induction m with
  | zero => simp
  | succ m ih =>
    obtain ⟨h1, h2, h3⟩ := ih
    rw [List.range_succ, List.map_append, List.filter_append]
    simp only [List.map_cons, List.map_nil]
    generalize hL : ((List.range m).map g).filter (fun x => decide (0 < x)) = L at h1 h2 h3 ⊢
    by_cases hp : 0 < g m
    · have e : List.filter (fun x => decide (0 < x)) [g m] = [g m] := by simp [hp]
      rw [e, List.length_append, List.length_singleton]
      refine ⟨by omega, ?_, ?_⟩
      · intro j hj
        by_cases hjl : j < L.length
        · have := h2 j hjl
          rw [List.getD_eq_getElem?_getD] at this ⊢
          rw [List.getElem?_append_left hjl, this]; congr 1; omega
        · have hj' : j = L.length := by omega
          subst hj'
          rw [List.getD_eq_getElem?_getD, List.getElem?_append_right (le_refl _)]
          simp only [Nat.sub_self, List.getElem?_cons_zero, Option.getD_some]
          congr 1; omega
      · intro k hk; exact h3 k (by omega)
    · have hm0 : g m ≤ 0 := not_lt.mp hp
      have e : List.filter (fun x => decide (0 < x)) [g m] = [] := by simp [hp]
      have hLnil : L = [] := by
        rw [← hL, List.filter_eq_nil_iff]
        intro x hx
        rw [List.mem_map] at hx
        obtain ⟨k, hk, rfl⟩ := hx
        rw [List.mem_range] at hk
        have := hg k m hk
        simp only [decide_eq_true_eq, not_lt]
        linarith
      rw [e, hLnil]
      simp only [List.append_nil, List.length_nil, Nat.sub_zero]
      refine ⟨by omega, fun j hj => absurd hj (by omega), ?_⟩
      intro k hk
      rcases Nat.lt_or_ge k m with hlt | hge
      · have := hg k m hlt; linarith
      · have : k = m := by omega
        subst this; exact hm0

/-- discrete intermediate value: a strictly increasing sequence with `c r ≤ x < c (m+1)` has a step
`w ∈ [r, m]` with `c w ≤ x < c (w+1)` -/
theorem exists_step (c : Nat → K) (x : K) (r : Nat) :
    ∀ m, r ≤ m → c r ≤ x → x < c (m + 1) → ∃ w, r ≤ w ∧ w ≤ m ∧ c w ≤ x ∧ x < c (w + 1) := by
  intro m hrm
  induction m, hrm using Nat.le_induction with
  | base => intro h1 h2; exact ⟨r, le_refl _, le_refl _, h1, h2⟩
  | succ m hm ih =>
    intro h1 h2
    by_cases hx : x < c (m + 1)
    · obtain ⟨w, a, b, e, f⟩ := ih h1 hx
      exact ⟨w, a, by omega, e, f⟩
    · exact ⟨m + 1, by omega, le_refl _, not_lt.mp hx, h2⟩

/-! ### one run of the position loop: the pieces `bounds t length k` are the walk pieces -/

/-- `x` lies in piece `k` of the `t.length+1` pieces cut at `t` -/
def InB (t : List K) (length : K) (k : Nat) (x : K) : Prop :=
  (bounds t length k).1 ≤ x ∧ x < (bounds t length k).2

section run
variable (d : List K) (J0 : Nat) (pos0 length : K) (t : List K) (m : Nat)

/-- what `positions_follow_pattern` says about a run, with `Epsilon = 0` -/
structure Run : Prop where
  hne : d ≠ []
  hpos : ∀ x ∈ d, 0 < x
  hp0 : pos0 ≤ 0
  ht : t = ((List.range m).map (fun k => cpos d J0 pos0 (k + 1))).filter (fun x => decide (0 < x))
  hlt : ∀ k < m, cpos d J0 pos0 (k + 1) < length
  hstop : length ≤ cpos d J0 pos0 (m + 1)

variable {d J0 pos0 length t m}

theorem Run.nt_le (R : Run d J0 pos0 length t m) : t.length ≤ m := by
  have := (filter_pos_strictMono (fun k => cpos d J0 pos0 (k + 1))
    (fun a b hab => cpos_strictMono d R.hne R.hpos J0 pos0 _ _ (by omega)) m).1
  rw [← R.ht] at this; exact this

theorem Run.get (R : Run d J0 pos0 length t m) (j : Nat) (hj : j < t.length) :
    t.getD j 0 = cpos d J0 pos0 (m - t.length + j + 1) := by
  have := (filter_pos_strictMono (fun k => cpos d J0 pos0 (k + 1))
    (fun a b hab => cpos_strictMono d R.hne R.hpos J0 pos0 _ _ (by omega)) m).2.1
  rw [← R.ht] at this; exact this j hj

theorem Run.start_le (R : Run d J0 pos0 length t m) : cpos d J0 pos0 (m - t.length) ≤ 0 := by
  have h3 := (filter_pos_strictMono (fun k => cpos d J0 pos0 (k + 1))
    (fun a b hab => cpos_strictMono d R.hne R.hpos J0 pos0 _ _ (by omega)) m).2.2
  rw [← R.ht] at h3
  rcases Nat.eq_zero_or_pos (m - t.length) with h0 | hp
  · rw [h0, cpos_zero]; exact R.hp0
  · have h : cpos d J0 pos0 (m - t.length - 1 + 1) ≤ 0 := h3 (m - t.length - 1) (by omega)
    rwa [show m - t.length - 1 + 1 = m - t.length by omega] at h

theorem Run.get_pos (R : Run d J0 pos0 length t m) (j : Nat) (hj : j < t.length) : 0 < t.getD j 0 := by
  have hmem : t.getD j 0 ∈ t := by
    rw [List.getD_eq_getElem?_getD, List.getElem?_eq_getElem hj]; exact List.getElem_mem hj
  obtain ⟨y, hy⟩ : ∃ y, y = t.getD j 0 := ⟨_, rfl⟩
  rw [← hy] at hmem ⊢
  rw [R.ht, List.mem_filter] at hmem
  simpa using hmem.2

/-- lower and upper end of piece `k` in terms of the walk -/
theorem Run.lo (R : Run d J0 pos0 length t m) (k : Nat) (hk : 0 < k) (hkn : k ≤ t.length) :
    (bounds t length k).1 = cpos d J0 pos0 (m - t.length + k) := by
  unfold bounds
  simp only [if_neg (by omega : ¬ k = 0)]
  rw [R.get (k - 1) (by omega)]; congr 1; omega

theorem Run.hi (R : Run d J0 pos0 length t m) (k : Nat) (hkn : k < t.length) :
    (bounds t length k).2 = cpos d J0 pos0 (m - t.length + k + 1) := by
  unfold bounds
  simp only [if_pos hkn]
  exact R.get k hkn

theorem Run.lo_zero (_R : Run d J0 pos0 length t m) : (bounds t length 0).1 = 0 := by
  unfold bounds; simp

theorem Run.hi_last (_R : Run d J0 pos0 length t m) : (bounds t length t.length).2 = length := by
  unfold bounds; simp

/-- a point of piece `k` lies in walk piece `(m - nt) + k` -/
theorem Run.inB_walk (R : Run d J0 pos0 length t m) (k : Nat) (hk : k ≤ t.length) (x : K)
    (hx0 : 0 ≤ x) (hxl : x < length) (h : InB t length k x) :
    cpos d J0 pos0 (m - t.length + k) ≤ x ∧ x < cpos d J0 pos0 (m - t.length + k + 1) := by
  have hnt := R.nt_le
  unfold InB at h
  constructor
  · rcases Nat.eq_zero_or_pos k with h0 | hp
    · subst h0; have := R.start_le; simp only [Nat.add_zero]; linarith
    · rw [R.lo k hp hk] at h; exact h.1
  · rcases Nat.lt_or_ge k t.length with hlt | hge
    · rw [R.hi k hlt] at h; exact h.2
    · have : k = t.length := by omega
      subst this
      have := R.hstop
      rw [show m - t.length + t.length + 1 = m + 1 by omega]; linarith

/-- every point of `[0, length)` lies in one of the pieces -/
theorem Run.exists_piece (R : Run d J0 pos0 length t m) (x : K) (hx0 : 0 ≤ x) (hxl : x < length) :
    ∃ k, k ≤ t.length ∧ InB t length k x := by
  have hnt := R.nt_le
  obtain ⟨w, hw1, hw2, hw3, hw4⟩ := exists_step (cpos d J0 pos0) x (m - t.length) m (by omega)
    (by have := R.start_le; linarith) (by have := R.hstop; linarith)
  refine ⟨w - (m - t.length), by omega, ?_⟩
  unfold InB
  constructor
  · rcases Nat.eq_zero_or_pos (w - (m - t.length)) with h0 | hp
    · rw [h0, R.lo_zero]; exact hx0
    · rw [R.lo _ hp (by omega), show m - t.length + (w - (m - t.length)) = w by omega]; exact hw3
  · rcases Nat.lt_or_ge (w - (m - t.length)) t.length with hlt | hge
    · rw [R.hi _ hlt, show m - t.length + (w - (m - t.length)) + 1 = w + 1 by omega]; exact hw4
    · have : w - (m - t.length) = t.length := by omega
      rw [this, R.hi_last]; exact hxl

/-- every piece is non-empty: `lo k < hi k` -/
theorem Run.lo_lt_hi (R : Run d J0 pos0 length t m) (hlen : 0 < length) (k : Nat) (hk : k ≤ t.length) :
    (bounds t length k).1 < (bounds t length k).2 := by
  have hnt := R.nt_le
  rcases Nat.lt_or_ge k t.length with hlt | hge
  · rw [R.hi k hlt]
    rcases Nat.eq_zero_or_pos k with h0 | hp
    · subst h0; rw [R.lo_zero, ← R.get 0 hlt]; exact R.get_pos 0 hlt
    · rw [R.lo k hp hk]; exact cpos_strictMono d R.hne R.hpos J0 pos0 _ _ (by omega)
  · have : k = t.length := by omega
    subst this
    rw [R.hi_last]
    rcases Nat.eq_zero_or_pos t.length with h0 | hp
    · rw [h0, R.lo_zero]; exact hlen
    · rw [R.lo _ hp (le_refl _), show m - t.length + t.length = (m - 1) + 1 by omega]
      exact R.hlt (m - 1) (by omega)

/-- the first cut lies before the last one when there are at least two -/
theorem Run.first_lt_last (R : Run d J0 pos0 length t m) (h2 : 2 ≤ t.length) :
    (bounds t length 0).2 < (bounds t length t.length).1 := by
  rw [R.hi 0 (by omega), R.lo t.length (by omega) (le_refl _)]
  exact cpos_strictMono d R.hne R.hpos J0 pos0 _ _ (by omega)

end run

/-! ### the assembled output covers exactly the kept pieces -/

theorem drawnBy_cons (length : K) (a : K × K) (l : List (K × K)) (x : K) :
    DrawnBy length (a :: l) x ↔ Covers length a x ∨ DrawnBy length l x := by
  unfold DrawnBy; simp

theorem drawnBy_nil (length : K) (x : K) : DrawnBy length ([] : List (K × K)) x ↔ False := by
  unfold DrawnBy; simp

theorem drawnBy_append (length : K) (l l' : List (K × K)) (x : K) :
    DrawnBy length (l ++ l') x ↔ DrawnBy length l x ∨ DrawnBy length l' x := by
  unfold DrawnBy; simp only [List.mem_append]
  constructor
  · rintro ⟨ab, h | h, hc⟩
    · exact Or.inl ⟨ab, h, hc⟩
    · exact Or.inr ⟨ab, h, hc⟩
  · rintro (⟨ab, h, hc⟩ | ⟨ab, h, hc⟩)
    · exact ⟨ab, Or.inl h, hc⟩
    · exact ⟨ab, Or.inr h, hc⟩

theorem covers_bounds (t : List K) (length : K) (k : Nat) (x : K)
    (h : (bounds t length k).1 < (bounds t length k).2) :
    Covers length (bounds t length k) x ↔ InB t length k x := by
  unfold Covers InB
  constructor
  · rintro (⟨_, a, b⟩ | ⟨h', _⟩)
    · exact ⟨a, b⟩
    · exact absurd h' (not_lt.mpr (le_of_lt h))
  · rintro ⟨a, b⟩; exact Or.inl ⟨h, a, b⟩

theorem drawnBy_map (t : List K) (length : K) (x : K)
    (hF : ∀ k ≤ t.length, (bounds t length k).1 < (bounds t length k).2)
    (l : List Nat) (hl : ∀ k ∈ l, k ≤ t.length) :
    DrawnBy length (l.map (bounds t length)) x ↔ ∃ k ∈ l, InB t length k x := by
  induction l with
  | nil => simp [drawnBy_nil]
  | cons a l ih =>
    rw [List.map_cons, drawnBy_cons, covers_bounds t length a x (hF a (hl a (by simp))),
      ih (fun k hk => hl k (by simp [hk]))]
    simp

theorem kept_iff_mem (nt i k : Nat) :
    kept nt i k = true ↔ k ∈ keptMiddle nt i ∨ (endsInDash i = true ∧ k = nt) := by
  unfold kept
  rw [Bool.or_eq_true, List.contains_iff_mem, Bool.and_eq_true, beq_iff_eq]

theorem mem_keptMiddle_lt (nt i k : Nat) (h : k ∈ keptMiddle nt i) : k < nt := by
  unfold keptMiddle at h
  rw [mem_stepTwo nt (nt + 1) (j0 nt i) k (by omega)] at h
  exact h.2.1

theorem j0_zero_even (nt i : Nat) (he : endsInDash i = true) (hj : j0 nt i = 0) : nt % 2 = 0 := by
  unfold j0 at hj
  split at hj
  · omega
  · next h =>
    by_contra hodd
    apply h; left; exact ⟨by omega, he⟩

theorem keptMiddle_of_j0_zero (nt i : Nat) (hnt : 0 < nt) (hj : j0 nt i = 0) :
    keptMiddle nt i = 0 :: stepTwo nt nt 2 := by
  unfold keptMiddle
  rw [hj]
  conv => lhs; unfold stepTwo
  rw [if_pos hnt]

/-- the piece joined over the start point covers the last and the first piece -/
theorem join_covers (t : List K) (length : K) (x : K)
    (hlt : (bounds t length 0).2 < (bounds t length t.length).1) :
    Covers length ((bounds t length t.length).1, (bounds t length 0).2) x ↔
      InB t length t.length x ∨ InB t length 0 x := by
  have hlo0 : (bounds t length 0).1 = 0 := by unfold bounds; simp
  have hhiL : (bounds t length t.length).2 = length := by unfold bounds; simp
  unfold Covers InB
  rw [hlo0, hhiL]
  constructor
  · rintro (⟨h', _⟩ | ⟨_, h⟩)
    · exact absurd h' (not_lt.mpr (le_of_lt hlt))
    · exact h
  · intro h; exact Or.inr ⟨hlt, h⟩

/-- right-hand side of `assemble_covers` split into the two sources of kept pieces -/
theorem kept_exists_iff (t : List K) (length : K) (iEnd : Nat) (x : K) :
    (∃ k, kept t.length iEnd k = true ∧ InB t length k x) ↔
      (∃ k ∈ keptMiddle t.length iEnd, InB t length k x) ∨
        (endsInDash iEnd = true ∧ InB t length t.length x) := by
  constructor
  · rintro ⟨k, hk, hx⟩
    rw [kept_iff_mem] at hk
    rcases hk with hk | ⟨he, rfl⟩
    · exact Or.inl ⟨k, hk, hx⟩
    · exact Or.inr ⟨he, hx⟩
  · rintro (⟨k, hk, hx⟩ | ⟨he, hx⟩)
    · exact ⟨k, (kept_iff_mem _ _ _).mpr (Or.inl hk), hx⟩
    · exact ⟨t.length, (kept_iff_mem _ _ _).mpr (Or.inr ⟨he, rfl⟩), hx⟩

theorem assemble_notEnds (t : List K) (iEnd : Nat) (length : K) (closed : Bool)
    (he : endsInDash iEnd = false) :
    assemble t iEnd length closed = (keptMiddle t.length iEnd).map (bounds t length) := by
  unfold assemble
  simp only [Nat.add_sub_cancel, he, Bool.false_eq_true, if_false]

theorem assemble_open (t : List K) (iEnd : Nat) (length : K) (he : endsInDash iEnd = true) :
    assemble t iEnd length false =
      (keptMiddle t.length iEnd).map (bounds t length) ++ [bounds t length t.length] := by
  unfold assemble
  simp only [Nat.add_sub_cancel, he, if_true, Bool.false_eq_true, if_false]

theorem assemble_closed0 (t : List K) (iEnd : Nat) (length : K) (he : endsInDash iEnd = true)
    (hnt : t.length = 0) : assemble t iEnd length true = [bounds t length t.length] := by
  unfold assemble
  simp only [Nat.add_sub_cancel, he, if_true, hnt]

theorem assemble_closed_join (t : List K) (iEnd : Nat) (length : K) (he : endsInDash iEnd = true)
    (hnt : t.length ≠ 0) (hj : j0 t.length iEnd = 0) :
    assemble t iEnd length true =
      ((bounds t length t.length).1, (bounds t length 0).2) ::
        (stepTwo t.length t.length 2).map (bounds t length) := by
  unfold assemble
  simp only [Nat.add_sub_cancel, he, if_true, hnt, if_false, hj]

theorem assemble_closed_nojoin (t : List K) (iEnd : Nat) (length : K) (he : endsInDash iEnd = true)
    (hnt : t.length ≠ 0) (hj : j0 t.length iEnd ≠ 0) :
    assemble t iEnd length true =
      bounds t length t.length :: (keptMiddle t.length iEnd).map (bounds t length) := by
  unfold assemble
  simp only [Nat.add_sub_cancel, he, if_true, hnt, if_false, hj]

/-- The list that `assemble` returns covers exactly the points of the kept pieces (the piece joined
over the start point of a closed subpath covers piece `nt` and piece `0`). -/
theorem assemble_covers (t : List K) (iEnd : Nat) (length : K) (closed : Bool) (x : K)
    (hF : ∀ k ≤ t.length, (bounds t length k).1 < (bounds t length k).2)
    (hJ : 2 ≤ t.length → (bounds t length 0).2 < (bounds t length t.length).1) :
    DrawnBy length (assemble t iEnd length closed) x ↔
      ∃ k, kept t.length iEnd k = true ∧ InB t length k x := by
  have hmid : DrawnBy length ((keptMiddle t.length iEnd).map (bounds t length)) x ↔
      ∃ k ∈ keptMiddle t.length iEnd, InB t length k x :=
    drawnBy_map t length x hF _ (fun k hk => le_of_lt (mem_keptMiddle_lt _ _ _ hk))
  have hlast : Covers length (bounds t length t.length) x ↔ InB t length t.length x :=
    covers_bounds t length _ x (hF _ (le_refl _))
  rw [kept_exists_iff]
  by_cases he : endsInDash iEnd = true
  · cases closed with
    | false =>
      rw [assemble_open t iEnd length he, drawnBy_append, hmid, drawnBy_cons, hlast, drawnBy_nil]
      simp [he]
    | true =>
      by_cases hnt : t.length = 0
      · rw [assemble_closed0 t iEnd length he hnt, drawnBy_cons, drawnBy_nil, hlast]
        have hk0 : keptMiddle t.length iEnd = [] := by
          rw [hnt]; unfold keptMiddle stepTwo; simp
        rw [hk0]; simp [he]
      · by_cases hj : j0 t.length iEnd = 0
        · have hnt2 : 2 ≤ t.length := by
            have := j0_zero_even t.length iEnd he hj; omega
          have hkm := keptMiddle_of_j0_zero t.length iEnd (by omega) hj
          rw [assemble_closed_join t iEnd length he hnt hj, drawnBy_cons,
            join_covers t length x (hJ hnt2), hkm]
          have hrestD : DrawnBy length ((stepTwo t.length t.length 2).map (bounds t length)) x ↔
              ∃ k ∈ stepTwo t.length t.length 2, InB t length k x := by
            apply drawnBy_map t length x hF
            intro k hk
            have : k ∈ keptMiddle t.length iEnd := by rw [hkm]; simp [hk]
            exact le_of_lt (mem_keptMiddle_lt _ _ _ this)
          rw [hrestD]
          simp only [List.mem_cons, exists_eq_or_imp, he, true_and]
          constructor
          · rintro ((a | b) | c)
            exacts [Or.inr a, Or.inl (Or.inl b), Or.inl (Or.inr c)]
          · rintro ((b | c) | a)
            exacts [Or.inl (Or.inr b), Or.inr c, Or.inl (Or.inl a)]
        · rw [assemble_closed_nojoin t iEnd length he hnt hj, drawnBy_cons, hlast, hmid]
          simp only [he, true_and]; exact or_comm
  · have he' : endsInDash iEnd = false := by simpa using he
    rw [assemble_notEnds t iEnd length closed he', hmid]
    simp [he']

end C05L
