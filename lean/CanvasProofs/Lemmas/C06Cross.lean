import CanvasProofs.Lemmas.C06Path
set_option linter.unusedSimpArgs false
set_option linter.unusedVariables false

/-! # C06 — Crossings (13dd06a): the walk along the path counts, modulo 2, what Windings counts

Forward induction along the vertex chain. The walk's state (overlapping section entered / left before
being entered) and the pending end hit carry weight that has not been turned into a count yet; with
that potential the invariant `2·count + potential ≡ Σ weights (mod 4)` holds after every segment, for
every chain off the query point. For a closed subpath the weights sum to twice the winding number,
so the count has the parity of the winding number: Crossings decides the even-odd rule. -/
namespace Canvas.C06
open Canvas.Wn

/-- `crossWalk` that also returns the pending end hit -/
def crossWalkP : Option Hit → List Hit → CSt → Int → Bool → Int × Bool × CSt × Option Hit
  | pe, [], st, n, b => (n, b, st, pe)
  | pe, z :: rest, st, n, b =>
    if z.t0zero then crossWalkP none rest st n true
    else if z.tb = .mid then crossWalkP none rest st (if z.same then n else n + 1) b
    else if z.tb = .one then crossWalkP (some z) rest st n b
    else match pe with
      | some e => let r := crossPair e z st n; crossWalkP none rest r.2 r.1 b
      | none => crossWalkP none rest st n b

theorem crossWalk_eq (l : List Hit) : ∀ pe st n b,
    crossWalk pe l st n b =
      ((crossWalkP pe l st n b).1, (crossWalkP pe l st n b).2.1, (crossWalkP pe l st n b).2.2.1) := by
  induction l with
  | nil => intro pe st n b; simp [crossWalk, crossWalkP]
  | cons z rest ih =>
    intro pe st n b
    simp only [crossWalk, crossWalkP]
    split
    · exact ih _ _ _ _
    · split
      · exact ih _ _ _ _
      · split
        · exact ih _ _ _ _
        · cases pe with
          | none => exact ih _ _ _ _
          | some e => exact ih _ _ _ _

theorem crossWalkP_append (l1 l2 : List Hit) : ∀ pe st n b,
    crossWalkP pe (l1 ++ l2) st n b =
      crossWalkP (crossWalkP pe l1 st n b).2.2.2 l2 (crossWalkP pe l1 st n b).2.2.1
        (crossWalkP pe l1 st n b).1 (crossWalkP pe l1 st n b).2.1 := by
  induction l1 with
  | nil => intro pe st n b; simp [crossWalkP]
  | cons z rest ih =>
    intro pe st n b
    simp only [List.cons_append, crossWalkP]
    split
    · exact ih _ _ _ _
    · split
      · exact ih _ _ _ _
      · split
        · exact ih _ _ _ _
        · cases pe with
          | none => exact ih _ _ _ _
          | some e => exact ih _ _ _ _

def dI (b : Bool) : Int := if b then -1 else 1

/-- weight that the state still owes -/
def cphi (st : CSt) : Int :=
  (if st.entered then dI st.enteredInto else 0) + (if st.left then dI st.leftInto else 0)

/-- weight of the pending end hit -/
def pw : Option Hit → Int
  | none => 0
  | some e => if e.same then 0 else dI e.into

def CInv (st : CSt) (pe : Option Hit) : Prop :=
  (st.entered = true → ∃ e, pe = some e ∧ e.same = true) ∧
  (∀ e, pe = some e → e.same = true → st.entered = false → st.left = false)

/-- the pending hit is the end hit at a vertex on the ray, and there is none otherwise -/
def PendOK (p a : IPt) (pe : Option Hit) : Prop :=
  (fR p a = true → ∃ e, pe = some e ∧ e.tb = .one ∧ e.t0zero = false) ∧ (fR p a = false → pe = none)

theorem weight_hit (h : Hit) : weight h.z = if h.same then 0 else if h.tb != .mid then dI h.into else 2 * dI h.into := by
  simp only [weight, Hit.z, dir, dI]
  rfl

/-- the forward invariant along a chain -/
theorem chain_cross (p : IPt) (rest : List IPt) : ∀ a pe st n b, offChain p (a :: rest) →
    PendOK p a pe → CInv st pe →
    ∃ n' st' pe', crossWalkP pe (chainHits p (a :: rest)) st n b = (n', b, st', pe') ∧
      PendOK p ((a :: rest).getLast (by simp)) pe' ∧ CInv st' pe' ∧
      (2 * n' + cphi st' + pw pe' - (2 * n + cphi st + pw pe + W ((chainHits p (a :: rest)).map Hit.z))) % 4 = 0 := by
  induction rest with
  | nil =>
    intro a pe st n b _ hp hi
    refine ⟨n, st, pe, by simp [chainHits, crossWalkP], by simpa using hp, hi, ?_⟩
    simp [chainHits, W]
  | cons b' rest ih =>
    intro a pe st n b hoff hp hi
    simp only [offChain] at hoff
    rw [List.getLast_cons (by simp)]
    rw [chainHits_cons, crossWalkP_append, List.map_append, W_append]
    by_cases hab : a = b'
    · subst hab
      rw [edgeHits_self]
      simp only [crossWalkP, List.map_nil, W]
      obtain ⟨n', st', pe', h1, h2, h3, h4⟩ := ih a pe st n b hoff.2 hp hi
      exact ⟨n', st', pe', h1, h2, h3, by omega⟩
    · -- what the segment a→b' does to (count, state, pending)
      have key : ∃ n1 st1 pe1, crossWalkP pe (edgeHits p a b') st n b = (n1, b, st1, pe1) ∧
          PendOK p b' pe1 ∧ CInv st1 pe1 ∧
          (2 * n1 + cphi st1 + pw pe1 - (2 * n + cphi st + pw pe + W ((edgeHits p a b').map Hit.z))) % 4 = 0 := by
        rcases edge_cases p a b' hab hoff.1 with
          ⟨h, fa, fb, _⟩ | ⟨g, h, tb, t0, sm, fa, fb, _⟩ | ⟨s, h, tb, x, t0, sm, fa, fb, _⟩ |
          ⟨e', h, tb, x, t0, sm, fa, fb, _⟩ | ⟨s, e', h, tbs, tbe, xs, xe, t0s, t0e, sms, sme, fa, fb, _⟩
        · -- no hit
          have hpe : pe = none := hp.2 fa
          subst hpe
          refine ⟨n, st, none, by simp [h, crossWalkP], ⟨fun hh => absurd hh (by simp [fb]), fun _ => rfl⟩, hi, ?_⟩
          simp [h, W]
        · -- one hit inside the segment
          have hpe : pe = none := hp.2 fa
          subst hpe
          refine ⟨n + 1, st, none, by simp [h, crossWalkP, t0, tb, sm],
            ⟨fun hh => absurd hh (by simp [fb]), fun _ => rfl⟩, hi, ?_⟩
          simp only [h, List.map_cons, List.map_nil, W, weight_hit, sm, tb, pw, dI]
          cases g.into <;> simp <;> omega
        · -- start hit: forms a vertex with the pending end hit
          obtain ⟨e, hpe, etb, et0⟩ := hp.1 fa
          subst hpe
          have hw : crossWalkP (some e) [s] st n b =
              ((crossPair e s st n).1, b, (crossPair e s st n).2, none) := by
            simp [crossWalkP, t0, tb]
          rw [h, hw]
          refine ⟨_, _, none, rfl, ⟨fun hh => absurd hh (by simp [fb]), fun _ => rfl⟩, ?_, ?_⟩
          · -- invariant: nothing entered any more
            constructor
            · intro hent
              exfalso
              revert hent
              simp only [crossPair, sm]
              cases hes : e.same
              · have : st.entered = false := by
                  cases hen : st.entered with
                  | false => rfl
                  | true =>
                    obtain ⟨e2, he2, hs2⟩ := hi.1 hen
                    simp at he2; subst he2; rw [hes] at hs2; exact absurd hs2 (by simp)
                simp [this]
                split <;> simp [this]
              · simp
                split <;> simp
            · intro e2 he2; simp at he2
          · simp only [List.map_cons, List.map_nil, W, weight_hit, sm, tb, pw, crossPair]
            cases hes : e.same
            · have hent : st.entered = false := by
                cases hen : st.entered with
                | false => rfl
                | true =>
                  obtain ⟨e2, he2, hs2⟩ := hi.1 hen
                  simp at he2; subst he2; rw [hes] at hs2; exact absurd hs2 (by simp)
              simp only [Bool.not_false, Bool.and_false, Bool.false_and, Bool.false_eq_true, if_false,
                Bool.true_and, etb]
              cases h1 : e.into <;> cases h2 : s.into <;> simp [dI, cphi] <;> omega
            · cases hen : st.entered
              · have hl : st.left = false := hi.2 e rfl hes hen
                simp only [Bool.not_true, Bool.false_and, Bool.true_and, Bool.not_false, Bool.false_eq_true,
                  if_false, if_true, hen, etb]
                cases h2 : s.into <;> simp [dI, cphi, hen, hl] <;> omega
              · simp only [Bool.not_true, Bool.false_and, Bool.true_and, Bool.not_false, Bool.false_eq_true,
                  if_false, if_true, hen, etb]
                cases h2 : s.into <;> cases h3 : st.enteredInto <;> simp [dI, cphi, hen, h3] <;> omega
        · -- end hit: becomes pending
          have hpe : pe = none := hp.2 fa
          subst hpe
          have hent : st.entered = false := by
            cases hen : st.entered with
            | false => rfl
            | true => obtain ⟨e2, he2, _⟩ := hi.1 hen; simp at he2
          refine ⟨n, st, some e', by simp [h, crossWalkP, t0, tb],
            ⟨fun _ => ⟨e', rfl, tb, t0⟩, fun hh => absurd hh (by simp [fb])⟩, ?_, ?_⟩
          · constructor
            · intro hen; rw [hent] at hen; exact absurd hen (by simp)
            · intro e2 he2 hs2; simp at he2; subst he2; rw [sm] at hs2; exact absurd hs2 (by simp)
          · simp only [h, List.map_cons, List.map_nil, W, weight_hit, sm, tb, pw]
            simp
        · -- horizontal segment on the ray: its start hit meets the pending one, its end hit is pending
          obtain ⟨e, hpe, etb, et0⟩ := hp.1 fa
          subst hpe
          have hw : crossWalkP (some e) [s, e'] st n b =
              ((crossPair e s st n).1, b, (crossPair e s st n).2, some e') := by
            simp [crossWalkP, t0s, tbs, t0e, tbe]
          rw [h, hw]
          refine ⟨_, _, some e', rfl, ⟨fun _ => ⟨e', rfl, tbe, t0e⟩, fun hh => absurd hh (by simp [fb])⟩, ?_, ?_⟩
          · simp only [crossPair, sms]
            cases hes : e.same
            · simp
              exact ⟨fun _ => ⟨e', rfl, sme⟩, fun e2 he2 _ hen => by simp at hen⟩
            · simp
              constructor
              · intro hen
                exact ⟨e', rfl, sme⟩
              · intro e2 he2 _ hen
                exact hi.2 e rfl hes hen
          · simp only [List.map_cons, List.map_nil, W, weight_hit, sms, sme, pw, crossPair]
            cases hes : e.same
            · have hent : st.entered = false := by
                cases hen : st.entered with
                | false => rfl
                | true =>
                  obtain ⟨e2, he2, hs2⟩ := hi.1 hen
                  simp at he2; subst he2; rw [hes] at hs2; exact absurd hs2 (by simp)
              cases h1 : e.into <;> simp [dI, cphi, hent] <;> omega
            · simp [cphi]
      obtain ⟨n1, st1, pe1, hk, hp1, hi1, he1⟩ := key
      rw [hk]
      obtain ⟨n', st', pe', h1, h2, h3, h4⟩ := ih b' pe1 st1 n1 b hoff.2 hp1 hi1
      exact ⟨n', st', pe', h1, h2, h3, by omega⟩

/-! ### closed subpaths -/

theorem offChain_snoc (p c a : IPt) (l : List IPt) (h : offChain p (l ++ [c, a])) :
    offChain p (l ++ [c]) ∧ ¬ onSeg p c a := by
  induction l with
  | nil => simp only [List.nil_append, offChain] at h ⊢; exact ⟨trivial, h.1⟩
  | cons x l ih =>
    cases l with
    | nil =>
      simp only [List.cons_append, List.nil_append, offChain] at h ⊢
      exact ⟨⟨h.1, trivial⟩, h.2.1⟩
    | cons y l' =>
      simp only [List.cons_append, offChain] at h ih ⊢
      exact ⟨⟨h.1, (ih h.2).1⟩, (ih h.2).2⟩

theorem chainHits_snoc (p c a : IPt) (l : List IPt) :
    chainHits p (l ++ [c, a]) = chainHits p (l ++ [c]) ++ edgeHits p c a := by
  induction l with
  | nil => simp [chainHits]
  | cons x l ih =>
    cases l with
    | nil => simp [chainHits]
    | cons y l' =>
      simp only [List.cons_append, chainHits] at ih ⊢
      rw [ih, List.append_assoc]

/-- the first hit of a chain whose first vertex is not on the ray is not a start hit -/
theorem head_not_start (p : IPt) (rest : List IPt) : ∀ a, offChain p (a :: rest) → fR p a = false →
    ∀ h t, chainHits p (a :: rest) = h :: t → h.tb ≠ .zero := by
  induction rest with
  | nil => intro a _ _ h t hh; simp [chainHits] at hh
  | cons b rest ih =>
    intro a hoff hfa h t hh
    simp only [offChain] at hoff
    rw [chainHits_cons] at hh
    by_cases hab : a = b
    · subst hab; rw [edgeHits_self, List.nil_append] at hh; exact ih a hoff.2 hfa h t hh
    · rcases edge_cases p a b hab hoff.1 with
        ⟨e0, fa, fb, _⟩ | ⟨g, e0, tb, _, _, fa, fb, _⟩ | ⟨s, e0, tb, _, _, _, fa, fb, _⟩ |
        ⟨e', e0, tb, _, _, _, fa, fb, _⟩ | ⟨s, e', e0, _, _, _, _, _, _, _, _, fa, fb, _⟩
      · rw [e0, List.nil_append] at hh; exact ih b hoff.2 fb h t hh
      · rw [e0] at hh; simp at hh; rw [← hh.1, tb]; simp
      · rw [hfa] at fa; exact absurd fa (by simp)
      · rw [e0] at hh; simp at hh; rw [← hh.1, tb]; simp
      · rw [hfa] at fa; exact absurd fa (by simp)

theorem crossRot_id (l : List Hit) (h : ∀ h0 t, l = h0 :: t → h0.tb ≠ .zero) : crossRot l = l := by
  unfold crossRot
  split
  · rename_i h0 h1 tl
    split
    · have := h h0 (h1 :: tl) rfl
      simp [this]
    · rfl
  · rfl

/-- the rotation at the Close command does not fire when the start vertex is not on the ray -/
theorem rotateStart_id (p a : IPt) (r : List IPt) (hoff : offChain p (a :: (r ++ [a])))
    (hfa : fR p a = false) :
    rotateStart p a (chainHits p (a :: (r ++ [a]))) = chainHits p (a :: (r ++ [a])) := by
  by_contra hne
  obtain ⟨hy, hl, hmem, hx⟩ := rotateStart_changes p a _ hne
  have hb := (chain_boundary p (a :: (r ++ [a]))).1 hl hmem
  have hc := chain_clean p (r ++ [a]) a hoff hl hmem
  have hne' : hl.x ≠ (p.x : Rat) := by
    intro heq
    have := hb.2.mpr heq
    rw [hc.1] at this; exact absurd this (by simp)
  have hlt : (p.x : Rat) < (a.x : Rat) := by
    rw [← hx]; exact lt_of_le_of_ne hb.1 (Ne.symm hne')
  have : p.x < a.x := by exact_mod_cast hlt
  have : fR p a = true := by simp [fR, hy, this]
  rw [hfa] at this; exact absurd this (by simp)

/-- from the invariant to the parity of the final count (whatever the final state) -/
theorem cross_finish (n wnv : Int) (st : CSt) (h : (2 * n + cphi st - 2 * wnv) % 4 = 0) :
    ((if st.entered && st.left && st.enteredInto == st.leftInto then n + 1 else n) - wnv) % 2 = 0 := by
  obtain ⟨en, ei, lf, li⟩ := st
  simp only [cphi, dI] at h
  cases en <;> cases ei <;> cases lf <;> cases li <;> simp at h ⊢ <;> omega

theorem W_closed (p a : IPt) (r : List IPt) (hoff : offChain p (a :: (r ++ [a]))) :
    W ((chainHits p (a :: (r ++ [a]))).map Hit.z) = 2 * wn1 p (a :: r) := by
  rw [chain_W p (r ++ [a]) a hoff, getLast_append_self]
  simp only [wn1]
  have : a :: r ++ [a] = a :: (r ++ [a]) := by simp
  rw [this]; omega

theorem pw_weight (e : Hit) (h : e.tb = .one) : pw (some e) = weight e.z := by
  simp [pw, weight_hit, h]

/-- `Crossings` of a closed flat subpath at a point off the path: the boundary flag is left alone and
the count has the parity of the winding number. -/
theorem crossingsSub_parity (p a : IPt) (r : List IPt) (b : Bool)
    (hoff : offChain p (subpathVerts true (a :: r))) :
    (crossingsSub true p (a :: r) b).2 = b ∧
    ((crossingsSub true p (a :: r) b).1 - wn1 p (a :: r)) % 2 = 0 := by
  have hv : ∀ r, subpathVerts true (a :: r) = a :: (r ++ [a]) := by intro r; simp [subpathVerts]
  rw [hv] at hoff
  induction hn : r.length using Nat.strong_induction_on generalizing r with
  | _ n ih =>
    by_cases hstart : fR p a = true
    · have hy : a.y = p.y := by simp [fR] at hstart; exact hstart.1
      rcases List.eq_nil_or_concat r with rfl | ⟨r', c, rfl⟩
      · simp [crossingsSub, subHits, subpathVerts, chainHits, edgeHits_self, rotateStart, crossRot,
          crossWalk, wn1, chainW, edgeW_self]
      · simp only [List.concat_eq_append] at hoff hn ⊢
        by_cases hca : c = a
        · subst hca
          have e1 : c :: (r' ++ [c] ++ [c]) = (c :: r') ++ [c, c] := by simp
          have e2 : c :: (r' ++ [c]) = (c :: r') ++ [c] := by simp
          have hoff' : offChain p (c :: (r' ++ [c])) := by
            rw [e2]; apply offChain_dup_last; rw [← e1]; exact hoff
          have hsmall := ih r'.length (by rw [← hn]; simp) r' hoff' rfl
          have hH : chainHits p (c :: (r' ++ [c] ++ [c])) = chainHits p (c :: (r' ++ [c])) := by
            rw [e1, e2]; exact chainHits_dup_last p c (c :: r')
          have hWn : wn1 p (c :: (r' ++ [c])) = wn1 p (c :: r') := by
            simp only [wn1]
            have e3 : c :: (r' ++ [c]) ++ [c] = (c :: r') ++ [c, c] := by simp
            have e4 : c :: r' ++ [c] = (c :: r') ++ [c] := by simp
            rw [e3, e4]; exact chainW_dup_last p c (c :: r')
          simp only [crossingsSub, subHits, if_true, hv] at hsmall ⊢
          rw [hH, hWn]; exact hsmall
        · -- the chain up to c, then the last segment c → a
          have ev : a :: (r' ++ [c] ++ [a]) = (a :: r') ++ [c, a] := by simp
          have ev1 : a :: (r' ++ [c]) = (a :: r') ++ [c] := by simp
          have hsn := offChain_snoc p c a (a :: r') (by rw [← ev]; exact hoff)
          have hH : chainHits p (a :: (r' ++ [c] ++ [a])) =
              chainHits p (a :: (r' ++ [c])) ++ edgeHits p c a := by
            rw [ev, ev1]; exact chainHits_snoc p c a (a :: r')
          have hex : ∃ l c', a :: (r' ++ [c] ++ [a]) = l ++ [c', a] ∧ c' ≠ a := ⟨a :: r', c, ev, hca⟩
          obtain ⟨body, e, hB, he1, he2, hA, _⟩ := chain_WP_last p a hstart (r' ++ [c] ++ [a]) a hex hoff
          obtain ⟨z0, t, hb, hz0, hx0, _⟩ := hA hstart
          have het0 : e.t0zero = false :=
            (chain_clean p (r' ++ [c] ++ [a]) a hoff e (by rw [hB]; simp)).1
          have hW := W_closed p a (r' ++ [c]) hoff
          -- the hits as Crossings walks them
          have hsub : crossRot (subHits true p (a :: (r' ++ [c]))) = e :: body := by
            simp only [subHits, if_true, hv]
            rw [hB, hb]
            have : z0 :: t ++ [e] = z0 :: (t ++ [e]) := by simp
            rw [this, rotateStart_fire p a z0 e t hz0 he1 hy hx0 he2]
            apply crossRot_id
            intro h0 t' heq
            simp at heq; rw [← heq.1, he1]; simp
          have hwalk : crossWalkP none (e :: body) {} 0 b = crossWalkP (some e) body {} 0 b := by
            simp [crossWalkP, het0, he1]
          have hp0 : PendOK p a (some e) := ⟨fun _ => ⟨e, rfl, he1, het0⟩, fun hh => by rw [hstart] at hh; exact absurd hh (by simp)⟩
          have hi0 : CInv {} (some e) := ⟨fun hh => by simp at hh, fun _ _ _ _ => rfl⟩
          obtain ⟨n1, st1, pe1, hk, hp1, hi1, heq1⟩ :=
            chain_cross p (r' ++ [c]) a (some e) {} 0 b hsn.1 hp0 hi0
          have hlast1 : (a :: (r' ++ [c])).getLast (by simp) = c := by
            rw [List.getLast_cons (by simp)]; simp
          rw [hlast1] at hp1
          simp only [crossingsSub, hsub, crossWalk_eq, hwalk]
          rw [hH] at hB hW
          rcases edge_cases p c a hca hsn.2 with
            ⟨_, _, fb, _⟩ | ⟨_, _, _, _, _, _, fb, _⟩ | ⟨_, _, _, _, _, _, _, fb, _⟩ |
            ⟨e2, h2, tb2, _, _, sm2, fc, _, _⟩ | ⟨s, e2, h2, tbs, tbe, _, _, t0s, _, sms, sme, fc, _, _⟩
          · rw [hstart] at fb; exact absurd fb (by simp)
          · rw [hstart] at fb; exact absurd fb (by simp)
          · rw [hstart] at fb; exact absurd fb (by simp)
          · -- last segment ends in a: its hit is e, the body is the chain up to c
            rw [h2] at hB hW
            obtain ⟨hbody, he⟩ := List.append_inj' hB rfl
            simp only [List.cons.injEq, and_true] at he
            rw [← hbody, hk]
            have hpe1 : pe1 = none := hp1.2 fc
            subst hpe1
            refine ⟨by first | rfl | trivial, ?_⟩
            apply cross_finish
            simp only [List.map_append, W_append, List.map_cons, List.map_nil, W] at hW
            rw [he, ← pw_weight e he1] at hW
            have hpn : pw (none : Option Hit) = 0 := rfl
            have hc0 : cphi {} = 0 := rfl
            rw [hpn, hc0] at heq1
            dsimp only
            omega
          · -- horizontal last segment: its start hit s still belongs to the body
            rw [h2] at hB hW
            have hB' : (chainHits p (a :: (r' ++ [c])) ++ [s]) ++ [e2] = body ++ [e] := by
              rw [← hB]; simp
            obtain ⟨hbody, he⟩ := List.append_inj' hB' rfl
            simp only [List.cons.injEq, and_true] at he
            rw [← hbody, crossWalkP_append, hk]
            obtain ⟨ec, hpe1, ectb, ect0⟩ := hp1.1 fc
            subst hpe1
            have hs : crossWalkP (some ec) [s] st1 n1 b =
                ((crossPair ec s st1 n1).1, b, (crossPair ec s st1 n1).2, none) := by
              simp [crossWalkP, t0s, tbs]
            simp only [hs]
            refine ⟨by first | rfl | trivial, ?_⟩
            apply cross_finish
            simp only [List.map_append, W_append, List.map_cons, List.map_nil, W, weight_hit, sms, sme,
              if_true] at hW
            have hes : e.same = true := by rw [← he]; exact sme
            simp only [pw, hes, if_true] at heq1
            simp only [crossPair, sms]
            cases hecs : ec.same
            · have hent : st1.entered = false := by
                cases hen : st1.entered with
                | false => rfl
                | true =>
                  obtain ⟨e3, he3, hs3⟩ := hi1.1 hen
                  simp at he3; subst he3; rw [hecs] at hs3; exact absurd hs3 (by simp)
              simp only [pw, hecs] at heq1
              cases h1 : ec.into <;> simp [dI, cphi, hent, h1] at heq1 ⊢ <;> omega
            · simp only [pw, hecs] at heq1
              simp [cphi] at heq1 ⊢
              omega
    · -- the start vertex is not on the ray: no rotation, the walk starts without a pending hit
      have hstart' : fR p a = false := by simpa using hstart
      have hsub : crossRot (subHits true p (a :: r)) = chainHits p (a :: (r ++ [a])) := by
        simp only [subHits, if_true, hv]
        rw [rotateStart_id p a r hoff hstart']
        exact crossRot_id _ (fun h0 t heq => head_not_start p (r ++ [a]) a hoff hstart' h0 t heq)
      have hp0 : PendOK p a none := ⟨fun hh => by rw [hstart'] at hh; exact absurd hh (by simp), fun _ => rfl⟩
      have hi0 : CInv {} none := ⟨fun hh => by simp at hh, fun e he => by simp at he⟩
      obtain ⟨n1, st1, pe1, hk, hp1, hi1, heq1⟩ := chain_cross p (r ++ [a]) a none {} 0 b hoff hp0 hi0
      rw [getLast_append_self] at hp1
      have hpe1 : pe1 = none := hp1.2 hstart'
      subst hpe1
      simp only [crossingsSub, hsub, crossWalk_eq, hk]
      refine ⟨by first | rfl | trivial, ?_⟩
      apply cross_finish
      rw [W_closed p a r hoff] at heq1
      have hpn : pw (none : Option Hit) = 0 := rfl
      have hc0 : cphi {} = 0 := rfl
      rw [hpn, hc0] at heq1
      omega

theorem crossingsPathGo_parity (p : IPt) (subs : List Sub) (h : ∀ s ∈ subs, GoodSub p s) (n : Int) (b : Bool) :
    (crossingsPathGo p subs n b).2 = b ∧
    ((crossingsPathGo p subs n b).1 - (n + wn p (subs.map (·.2)))) % 2 = 0 := by
  induction subs generalizing n b with
  | nil => simp [crossingsPathGo, wn]
  | cons s rest ih =>
    obtain ⟨hc, a, r, hs, hoff⟩ := h s (by simp)
    have hpar := crossingsSub_parity p a r b hoff
    simp only [crossingsPathGo, List.map_cons, wn_cons]
    rw [hc, hs, hpar.1]
    have := ih (fun s hs => h s (by simp [hs])) (n + (crossingsSub true p (a :: r) b).1) b
    refine ⟨this.1, ?_⟩
    have h2 := this.2
    have h1 := hpar.2
    omega

/-- only crossings strictly inside segments: every hit is one crossing -/
theorem crossWalk_generic (l : List Hit) (st : CSt) (n : Int) (b : Bool)
    (hg : ∀ h ∈ l, h.t0zero = false ∧ h.tb = .mid ∧ h.same = false) :
    ∀ pe, crossWalk pe l st n b = (n + l.length, b, st) := by
  induction l generalizing n with
  | nil => intro pe; simp [crossWalk]
  | cons z rest ih =>
    intro pe
    have hz := hg z (by simp)
    simp only [crossWalk, hz.1, hz.2.1, hz.2.2, Bool.false_eq_true, if_false, if_true]
    rw [ih _ (fun h hh => hg h (by simp [hh]))]
    simp only [List.length_cons]
    congr 1; push_cast; omega

end Canvas.C06
