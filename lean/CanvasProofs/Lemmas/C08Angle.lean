import CanvasProofs.Lemmas.C08

/-! # C08 — the angle-range membership logic of `angleNorm` / `angleBetween` (model = generic
definitions in CanvasModel/C08.lean, bit-exact against the library on `AN`/`AB` lines)

`math.Mod` is a parameter; all that is assumed of it is `FmodSpec`: `|x mod y| < y` and
`x − (x mod y)` is an integer multiple of `y`. -/
set_option linter.unusedSectionVars false
set_option linter.unusedVariables false
namespace C08
open Canvas Canvas.C08 GenK
variable {K : Type} [Field K] [LinearOrder K] [IsStrictOrderedRing K] [Env K] [ArcFns K]

def FmodSpec (K : Type) [Field K] [LinearOrder K] [IsStrictOrderedRing K] [ArcFns K] : Prop :=
  ∀ x y : K, 0 < y → |ArcFns.fmod x y| < y ∧ ∃ k : ℤ, x = ArcFns.fmod x y + k * y

@[simp] theorem ops_fmod (a b : K) : Ops.fmod a b = ArcFns.fmod a b := rfl
@[simp] theorem ops_pi : (Ops.pi : K) = Env.pi := rfl
@[simp] theorem ops_eps : (Ops.eps : K) = Env.epsilon := rfl
@[simp] theorem ops_le (a b : K) : Ops.le a b = decide (a ≤ b) := rfl

/-- representatives in `[0,T)` are unique -/
theorem rep_unique (T x n : K) (k : ℤ) (hT : 0 < T) (hx : x = n + k * T) (hn0 : 0 ≤ n) (hn1 : n < T)
    (hx0 : 0 ≤ x) (hx1 : x < T) : n = x := by
  rcases lt_trichotomy k 0 with h | h | h
  · have : (k : K) ≤ -1 := by exact_mod_cast (show k ≤ -1 by omega)
    nlinarith
  · subst h; simp at hx; exact hx.symm
  · have : (1 : K) ≤ k := by exact_mod_cast (show 1 ≤ k by omega)
    nlinarith

/-- `angleNorm θ` is the representative of `θ` in `[0, 2π)` -/
theorem angleNorm_spec (hf : FmodSpec K) (hpi : 0 < (Env.pi : K)) (θ : K) :
    0 ≤ angleNorm θ ∧ angleNorm θ < 2 * Env.pi ∧ ∃ k : ℤ, θ = angleNorm θ + k * (2 * Env.pi) := by
  have hT : 0 < 2 * (Env.pi : K) := by linarith
  obtain ⟨hab, k, hk⟩ := hf θ (2 * Env.pi) hT
  rw [abs_lt] at hab
  simp only [angleNorm, ops_fmod, ops_pi]
  split
  · rename_i hneg
    refine ⟨by linarith, by linarith, k - 1, ?_⟩
    push_cast; linarith
  · rename_i hneg
    exact ⟨not_lt.1 hneg, hab.2, k, hk⟩

theorem angleNorm_of_rep (hf : FmodSpec K) (hpi : 0 < (Env.pi : K)) (θ n : K) (k : ℤ)
    (h : θ = n + k * (2 * Env.pi)) (hn0 : 0 ≤ n) (hn1 : n < 2 * Env.pi) : angleNorm θ = n := by
  obtain ⟨a0, a1, k', hk'⟩ := angleNorm_spec hf hpi θ
  have hT : 0 < 2 * (Env.pi : K) := by linarith
  refine rep_unique (2 * Env.pi) n (angleNorm θ) (k' - k) hT ?_ a0 a1 hn0 hn1
  push_cast; linarith

/-- The membership test, for `lower ≤ upper` spanning less than a full turn (slack included):
`angleBetween θ lower upper` holds iff some whole-turn translate of `θ` lies in
`[lower − ε, upper + ε]`. -/
theorem angleBetween_iff_le (hf : FmodSpec K) (hpi : 0 < (Env.pi : K)) (θ a b : K) (hab : a ≤ b)
    (hε : 0 ≤ (Env.epsilon : K)) (hw : b - a + 2 * Env.epsilon < 2 * Env.pi) :
    angleBetween θ a b = true ↔ ∃ k : ℤ, a - Env.epsilon ≤ θ + k * (2 * Env.pi) ∧ θ + k * (2 * Env.pi) ≤ b + Env.epsilon := by
  have up : angleNorm (b - a + 2 * Env.epsilon) = b - a + 2 * Env.epsilon :=
    angleNorm_of_rep hf hpi _ _ 0 (by simp) (by linarith) hw
  obtain ⟨n0, n1, k1, hk1⟩ := angleNorm_spec hf hpi (θ - a + Env.epsilon)
  simp only [angleBetween, ops_eps, ops_le, if_neg (not_lt.2 hab), decide_eq_true_eq, up]
  constructor
  · intro h
    refine ⟨-k1, ?_, ?_⟩ <;> push_cast <;> linarith
  · rintro ⟨k, h1, h2⟩
    have : angleNorm (θ - a + Env.epsilon) = θ + k * (2 * Env.pi) - a + Env.epsilon :=
      angleNorm_of_rep hf hpi _ _ (-k) (by push_cast; ring) (by linarith) (by linarith)
    rw [this]; linarith

/-- the two ends may be given in either order -/
theorem angleBetween_symm (θ a b : K) : angleBetween θ a b = angleBetween θ b a := by
  rcases lt_trichotomy a b with h | h | h
  · simp only [angleBetween, if_neg (not_lt.2 h.le), if_pos h]
  · subst h; rfl
  · simp only [angleBetween, if_pos h, if_neg (not_lt.2 h.le)]

theorem angleBetween_iff (hf : FmodSpec K) (hpi : 0 < (Env.pi : K)) (θ a b : K)
    (hε : 0 ≤ (Env.epsilon : K)) (hw : max a b - min a b + 2 * Env.epsilon < 2 * Env.pi) :
    angleBetween θ a b = true ↔
      ∃ k : ℤ, min a b - Env.epsilon ≤ θ + k * (2 * Env.pi) ∧ θ + k * (2 * Env.pi) ≤ max a b + Env.epsilon := by
  rcases le_total a b with h | h
  · rw [min_eq_left h, max_eq_right h] at hw ⊢
    exact angleBetween_iff_le hf hpi θ a b h hε hw
  · rw [min_eq_right h, max_eq_left h] at hw ⊢
    rw [angleBetween_symm]
    exact angleBetween_iff_le hf hpi θ b a h hε hw

/-- whole turns do not matter -/
theorem angleBetween_turn (hf : FmodSpec K) (hpi : 0 < (Env.pi : K)) (θ a b : K) (j : ℤ)
    (hε : 0 ≤ (Env.epsilon : K)) (hw : max a b - min a b + 2 * Env.epsilon < 2 * Env.pi) :
    angleBetween (θ + j * (2 * Env.pi)) a b = angleBetween θ a b := by
  rw [Bool.eq_iff_iff, angleBetween_iff hf hpi _ a b hε hw, angleBetween_iff hf hpi θ a b hε hw]
  constructor
  · rintro ⟨k, h1, h2⟩; exact ⟨k + j, by push_cast; linarith, by push_cast; linarith⟩
  · rintro ⟨k, h1, h2⟩; exact ⟨k - j, by push_cast; linarith, by push_cast; linarith⟩

end C08
