import CanvasProofs.Lemmas.C16Reorder
/-! Lemmas for C16 (c): contiguous layouts and tilings of an interval by spans. -/
namespace Canvas.C16

/-- spans laid out left to right without gap or overlap starting at `x` -/
def Contig : Int → List (Span Int) → Prop
  | _, [] => True
  | x, s :: r => s.x = x ∧ Contig (x + s.w) r

def sumw : List (Span Int) → Int
  | [] => 0
  | s :: r => s.w + sumw r

/-- some rearrangement of the spans is contiguous from `x0`: they tile `[x0, x0 + Σ w)` -/
def Tiles (x0 : Int) (l : List (Span Int)) : Prop := ∃ p, p.Perm l ∧ Contig x0 p

theorem sumw_append (a b : List (Span Int)) : sumw (a ++ b) = sumw a + sumw b := by
  induction a with
  | nil => simp [sumw]
  | cons s r ih => simp [sumw, ih]; omega

theorem sumw_perm {a b : List (Span Int)} (h : a.Perm b) : sumw a = sumw b := by
  induction h with
  | nil => rfl
  | cons x _ ih => simp [sumw, ih]
  | swap x y l => simp [sumw]; omega
  | trans _ _ ih1 ih2 => omega

theorem contig_append (a b : List (Span Int)) : ∀ x, Contig x (a ++ b) ↔ (Contig x a ∧ Contig (x + sumw a) b) := by
  induction a with
  | nil => intro x; simp [Contig, sumw]
  | cons s r ih =>
    intro x
    simp only [List.cons_append, Contig, sumw, ih]
    rw [show x + s.w + sumw r = x + (s.w + sumw r) by omega]
    exact and_assoc.symm

theorem tiles_append {x0 : Int} {a b : List (Span Int)} (ha : Tiles x0 a) (hb : Tiles (x0 + sumw a) b) :
    Tiles x0 (a ++ b) := by
  obtain ⟨pa, hpa, hca⟩ := ha
  obtain ⟨pb, hpb, hcb⟩ := hb
  refine ⟨pa ++ pb, hpa.append hpb, ?_⟩
  rw [contig_append]
  exact ⟨hca, by rw [sumw_perm hpa]; exact hcb⟩

theorem tiles_cons {x0 : Int} {s : Span Int} {t : List (Span Int)} (hs : s.x = x0) (ht : Tiles (x0 + s.w) t) :
    Tiles x0 (s :: t) := by
  have : Tiles x0 ([s] ++ t) := tiles_append ⟨[s], List.Perm.refl _, by simp [Contig, hs]⟩ (by simpa [sumw] using ht)
  simpa using this

end Canvas.C16
