import CanvasProofs.Lemmas.C16Reorder
/-! Lemmas for C16 (c): for embedding levels 0/1 reorderSpans re-tiles the same interval. -/
namespace Canvas.C16

/-- spans laid out left to right without gap or overlap starting at `x` -/
def Contig : Int → List (Span Int) → Prop
  | _, [] => True
  | x, s :: r => s.x = x ∧ Contig (x + s.w) r

def sumw : List (Span Int) → Int
  | [] => 0
  | s :: r => s.w + sumw r

/-- some rearrangement of the spans is contiguous from `x0`: they tile `[x0, x0 + Σ w)` -/
def Tiles (x0 : Int) (l : List (Span Int)) : Prop := ∃ p, p.Perm l ∧ Contig x0 p

theorem sumw_append (a b : List (Span Int)) : sumw (a ++ b) = sumw a + sumw b := by
  induction a with
  | nil => simp [sumw]
  | cons s r ih => simp [sumw, ih]; omega

theorem sumw_perm {a b : List (Span Int)} (h : a.Perm b) : sumw a = sumw b := by
  induction h with
  | nil => rfl
  | cons x _ ih => simp [sumw, ih]
  | swap x y l => simp [sumw]; omega
  | trans _ _ ih1 ih2 => omega

theorem contig_append (a b : List (Span Int)) : ∀ x, Contig x (a ++ b) ↔ (Contig x a ∧ Contig (x + sumw a) b) := by
  induction a with
  | nil => intro x; simp [Contig, sumw]
  | cons s r ih =>
    intro x
    simp only [List.cons_append, Contig, sumw, ih]
    rw [show x + s.w + sumw r = x + (s.w + sumw r) by omega]
    exact and_assoc.symm

theorem tiles_append {x0 : Int} {a b : List (Span Int)} (ha : Tiles x0 a) (hb : Tiles (x0 + sumw a) b) :
    Tiles x0 (a ++ b) := by
  obtain ⟨pa, hpa, hca⟩ := ha
  obtain ⟨pb, hpb, hcb⟩ := hb
  refine ⟨pa ++ pb, hpa.append hpb, ?_⟩
  rw [contig_append]
  exact ⟨hca, by rw [sumw_perm hpa]; exact hcb⟩

theorem tiles_cons {x0 : Int} {s : Span Int} {t : List (Span Int)} (hs : s.x = x0) (ht : Tiles (x0 + s.w) t) :
    Tiles x0 (s :: t) := by
  have : Tiles x0 ([s] ++ t) := tiles_append ⟨[s], List.Perm.refl _, by simp [Contig, hs]⟩ (by simpa [sumw] using ht)
  simpa using this

theorem relayRev_contig (l : List (Span Int)) : ∀ x, Contig x (relayRev x l) := by
  induction l with
  | nil => intro x; simp [relayRev, Contig]
  | cons s r ih => intro x; simp [relayRev, Contig, ih]

theorem relayRev_sumw (l : List (Span Int)) : ∀ x, sumw (relayRev x l) = sumw l := by
  induction l with
  | nil => intro x; rfl
  | cons s r ih => intro x; simp [relayRev, sumw, ih]

theorem relayRev_level (l : List (Span Int)) : ∀ x, ∀ s ∈ relayRev x l, ∃ t ∈ l, s.level = t.level := by
  induction l with
  | nil => intro x s h; simp [relayRev] at h
  | cons a r ih =>
    intro x s h
    simp only [relayRev, List.mem_cons] at h
    rcases h with rfl | h
    · exact ⟨a, List.mem_cons_self .., rfl⟩
    · obtain ⟨t, ht, hl⟩ := ih _ s h
      exact ⟨t, List.mem_cons_of_mem _ ht, hl⟩

theorem relayRev_length (l : List (Span Int)) : ∀ x, (relayRev x l).length = l.length := by
  induction l with
  | nil => intro x; rfl
  | cons s r ih => intro x; simp [relayRev, ih]

theorem relayout_tiles (run : List (Span Int)) (x0 : Int) : Tiles x0 (relayout run x0) :=
  ⟨relayRev x0 run.reverse, by unfold relayout; exact (List.reverse_perm _).symm, relayRev_contig _ _⟩

theorem relayout_sumw (run : List (Span Int)) (x0 : Int) : sumw (relayout run x0) = sumw run := by
  unfold relayout
  rw [sumw_perm (List.reverse_perm _), relayRev_sumw, sumw_perm (List.reverse_perm _)]

theorem relayout_level1 (run : List (Span Int)) (x0 : Int) (h : ∀ s ∈ run, s.level = 1) :
    ∀ s ∈ relayout run x0, s.level = 1 := by
  intro s hs
  unfold relayout at hs
  obtain ⟨t, ht, hl⟩ := relayRev_level _ _ s (List.mem_reverse.mp hs)
  rw [hl]; exact h t (List.mem_reverse.mp ht)

theorem relayout_length (run : List (Span Int)) (x0 : Int) : (relayout run x0).length = run.length := by
  unfold relayout; simp [relayRev_length]

/-- inside an already laid out run (prev = 1) level-1 spans are passed through -/
theorem go_pass (a : List (Span Int)) (ha : ∀ s ∈ a, s.level = 1) : ∀ (fuel : Nat) (tail : List (Span Int)),
    a.length ≤ fuel → reorderGo fuel 1 (a ++ tail) = a ++ reorderGo (fuel - a.length) 1 tail := by
  induction a with
  | nil => intro fuel tail _; simp
  | cons s r ih =>
    intro fuel tail hf
    cases fuel with
    | zero => simp at hf
    | succ fuel =>
      have hs : s.level = 1 := ha s (List.mem_cons_self ..)
      simp only [List.cons_append, reorderGo, hs, Nat.lt_irrefl, if_false, List.length_cons]
      rw [ih (fun t ht => ha t (List.mem_cons_of_mem _ ht)) fuel tail (by simpa using hf)]
      simp

/-- a tail that is empty or starts at level 0 is processed the same way after a level-1 run -/
theorem go_prev (fuel : Nat) (tail : List (Span Int)) (h : ∀ t ∈ tail.head?, t.level = 0) :
    reorderGo fuel 1 tail = reorderGo fuel 0 tail := by
  cases fuel with
  | zero => simp [reorderGo]
  | succ fuel =>
    cases tail with
    | nil => simp [reorderGo]
    | cons t ts =>
      have ht : t.level = 0 := h t (by simp)
      simp [reorderGo, ht]

theorem head_drop_takeWhile {β : Type} (p : β → Bool) (l : List β) :
    ∀ t ∈ (l.drop (l.takeWhile p).length).head?, p t = false := by
  induction l with
  | nil => simp
  | cons a r ih =>
    simp only [List.takeWhile]
    split
    · simpa using ih
    · rename_i h; simp; simpa using h

theorem contig_sum {x : Int} {a b : List (Span Int)} (h : Contig x (a ++ b)) : Contig (x + sumw a) b :=
  ((contig_append a b x).mp h).2

theorem go_tiles : ∀ (fuel : Nat) (l : List (Span Int)) (x0 : Int), l.length ≤ fuel → (∀ s ∈ l, s.level ≤ 1) →
    Contig x0 l → Tiles x0 (reorderGo fuel 0 l) := by
  intro fuel
  induction fuel using Nat.strongRecOn with
  | _ fuel ih =>
    intro l x0 hlen hl hc
    cases fuel with
    | zero =>
      have : l = [] := List.eq_nil_of_length_eq_zero (by omega)
      subst this
      exact ⟨[], List.Perm.refl _, trivial⟩
    | succ fuel =>
      cases l with
      | nil => exact ⟨[], by simp [reorderGo], trivial⟩
      | cons s rest =>
        have hs1 := hl s (List.mem_cons_self ..)
        have hrest : ∀ t ∈ rest, t.level ≤ 1 := fun t ht => hl t (List.mem_cons_of_mem _ ht)
        simp only [Contig] at hc
        by_cases hs : s.level = 0
        · -- level 0: stays
          have : reorderGo (fuel + 1) 0 (s :: rest) = s :: reorderGo fuel 0 rest := by
            simp [reorderGo, hs]
          rw [this]
          exact tiles_cons hc.1 (ih fuel (by omega) rest _ (by simpa using hlen) hrest hc.2)
        · have hs' : s.level = 1 := by omega
          -- the maximal run of level-1 spans
          have hsplit := takeWhile_append_drop (fun t : Span Int => decide (s.level ≤ t.level)) rest
          generalize hin : List.takeWhile (fun t : Span Int => decide (s.level ≤ t.level)) rest = inRun at hsplit
          generalize htl : List.drop inRun.length rest = tail at hsplit
          have hin1 : ∀ t ∈ inRun, t.level = 1 := by
            intro t ht
            have h1 := mem_takeWhile_level _ _ t (hin ▸ ht)
            have h2 := hrest t (by rw [← hsplit]; exact List.mem_append_left _ ht)
            omega
          have hrun1 : ∀ t ∈ s :: inRun, t.level = 1 := by
            intro t ht
            simp only [List.mem_cons] at ht
            rcases ht with rfl | ht
            · exact hs'
            · exact hin1 t ht
          have htail0 : ∀ t ∈ tail.head?, t.level = 0 := by
            intro t ht
            have := head_drop_takeWhile (fun t : Span Int => decide (s.level ≤ t.level)) rest t (by rw [hin, htl]; exact ht)
            simp at this; omega
          have hcr : Contig x0 ((s :: inRun) ++ tail) := by
            simp only [List.cons_append, hsplit, Contig]; exact hc
          have hct := contig_sum hcr
          have hlen2 : inRun.length + tail.length = rest.length := by rw [← hsplit]; simp
          -- the relaid run
          obtain ⟨run', hrun', hr1, hr2, hr3, hr4⟩ : ∃ run', (if 1 < (s :: inRun).length then relayout (s :: inRun) (if s.level % 2 = 1 then s.x else ((s :: inRun).getLast?.getD s).x) else s :: inRun) = run'
              ∧ Tiles x0 run' ∧ sumw run' = sumw (s :: inRun) ∧ (∀ t ∈ run', t.level = 1) ∧ run'.length = (s :: inRun).length := by
            refine ⟨_, rfl, ?_, ?_, ?_, ?_⟩
            · split
              · simp only [hs', Nat.one_mod, if_true, hc.1]; exact relayout_tiles _ _
              · exact ⟨_, List.Perm.refl _, ((contig_append _ _ _).mp hcr).1⟩
            · split
              · exact relayout_sumw _ _
              · rfl
            · split
              · exact relayout_level1 _ _ hrun1
              · exact hrun1
            · split
              · exact relayout_length _ _
              · rfl
          cases run' with
          | nil => simp at hr4
          | cons h' t' =>
            have hgo : reorderGo (fuel + 1) 0 (s :: rest) = h' :: reorderGo fuel 1 (t' ++ tail) := by
              have hin' := hin
              simp only [hs'] at hin'
              simp only [reorderGo, hs', Nat.zero_lt_one, if_true]
              rw [hin', htl]
              simp only [hs', Nat.one_mod, if_true] at hrun'
              rw [hrun']
              simp
            have ht'len : t'.length = inRun.length := by simpa using hr4
            rw [hgo, go_pass t' (fun t ht => hr3 t (List.mem_cons_of_mem _ ht)) fuel tail (by simp at hlen; omega),
              go_prev _ _ htail0]
            have : Tiles x0 ((h' :: t') ++ reorderGo (fuel - t'.length) 0 tail) := by
              apply tiles_append hr1
              rw [hr2]
              exact ih (fuel - t'.length) (by omega) tail _ (by simp at hlen; omega)
                (fun t ht => hrest t (by rw [← hsplit]; exact List.mem_append_right _ ht)) hct
            simpa using this

theorem reorder_tiles (x0 : Int) (l : List (Span Int)) (hc : Contig x0 l) (hl : ∀ s ∈ l, s.level ≤ 1) :
    Tiles x0 (reorder l) :=
  go_tiles l.length l x0 (Nat.le_refl _) hl hc

theorem tiles_witness_false : ¬ Tiles 0 (reorder [(⟨2, 0, 3⟩ : Span Int), ⟨2, 3, 4⟩, ⟨1, 7, 5⟩]) := by
  intro ⟨p, hp, hc⟩
  have hx : ∀ s ∈ reorder [(⟨2, 0, 3⟩ : Span Int), ⟨2, 3, 4⟩, ⟨1, 7, 5⟩], s.x ≠ 0 := by decide
  cases p with
  | nil =>
    have h3 : (reorder [(⟨2, 0, 3⟩ : Span Int), ⟨2, 3, 4⟩, ⟨1, 7, 5⟩]).length = 3 := by decide
    have := hp.length_eq
    simp [h3] at this
  | cons s r =>
    exact hx s (hp.subset (List.mem_cons_self ..)) hc.1

end Canvas.C16
