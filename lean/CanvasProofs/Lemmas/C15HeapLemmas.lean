import CanvasModel.C15Heap
namespace C15.Heap
open Canvas.C15.Heap
variable {α : Type} (zero : α) (cd : α → List α → α → List α × Bool)

/-! ## 1. library operations never write -/

def _root_.Canvas.C15.Heap.Op.isCallerWrite : Op α → Bool
  | .callerWrite .. => true
  | _ => false

theorem write_length (h : Heap α) (arr i : Nat) (v : α) : (write h arr i v).length = h.length := by
  simp [write]

theorem lib_never_writes (op : Op α) (s : State α) (h : op.isCallerWrite = false) :
    s.heap <+: (step zero cd op s).heap := by
  cases op with
  | callerWrite arr i v => simp [Op.isCallerWrite] at h
  | callerAlloc a => simp [step]
  | setDashes off sl => simp only [step]; split <;> simp
  | push => simp [step]
  | pop => simp only [step]; split <;> simp
  | resetStyle => simp [step]
  | drawPath len => simp [step]

theorem heap_length_mono (op : Op α) (s : State α) :
    s.heap.length ≤ (step zero cd op s).heap.length := by
  cases op with
  | callerWrite arr i v => simp only [step]; split <;> simp [write_length]
  | callerAlloc a => simp [step]
  | setDashes off sl => simp only [step]; split <;> simp
  | push => simp [step]
  | pop => simp only [step]; split <;> simp
  | resetStyle => simp [step]
  | drawPath len => simp [step]

/-- the length of every existing array is kept by every step (arrays are never resized) -/
theorem step_getD_length (op : Op α) (s : State α) (a : Nat) (ha : a < s.heap.length) :
    (((step zero cd op s).heap).getD a []).length = (s.heap.getD a []).length := by
  cases op with
  | callerWrite arr i v =>
    simp only [step]; split
    · simp only [write]
      by_cases hE : arr = a
      · subst hE; simp [List.getD_eq_getElem?_getD, ha]
      · simp [List.getD_eq_getElem?_getD, List.getElem?_set_ne hE]
    · rfl
  | callerAlloc a' => simp [step, List.getD_eq_getElem?_getD, List.getElem?_append_left ha]
  | setDashes off sl => simp only [step]; split <;> rfl
  | push => rfl
  | pop => simp only [step]; split <;> rfl
  | resetStyle => rfl
  | drawPath len => simp [step, List.getD_eq_getElem?_getD, List.getElem?_append_left ha]

/-- an existing array that the caller does not own keeps its content under every step -/
theorem step_getD_notOwned (op : Op α) (s : State α) (a : Nat) (ha : a < s.heap.length)
    (hno : a ∉ s.owned) : ((step zero cd op s).heap).getD a [] = s.heap.getD a [] := by
  cases op with
  | callerWrite arr i v =>
    simp only [step]; split
    · rename_i hc
      simp only [write]
      have hE : arr ≠ a := by
        intro hE; subst hE
        simp only [Bool.and_eq_true, List.contains_iff_mem] at hc
        exact hno hc.1
      simp [List.getD_eq_getElem?_getD, List.getElem?_set_ne hE]
    · rfl
  | callerAlloc a' => simp [step, List.getD_eq_getElem?_getD, List.getElem?_append_left ha]
  | setDashes off sl => simp only [step]; split <;> rfl
  | push => rfl
  | pop => simp only [step]; split <;> rfl
  | resetStyle => rfl
  | drawPath len => simp [step, List.getD_eq_getElem?_getD, List.getElem?_append_left ha]


/-! ## 2. invariant; recorded layers are immutable -/

/-- a slice header points into an allocated array and lies inside it -/
def SliceOK (h : Heap α) (sl : Slice) : Prop := sl.arr < h.length ∧ inRange h sl = true

/-- strengthened invariant: owned ids are allocated; recorded layers point into allocated,
non-owned arrays; every reachable slice header (`cur`, `stack`, `layers`) is allocated and in range;
array 0 (backing array of `DefaultStyle.Dashes`) exists -/
structure Inv (s : State α) : Prop where
  heap_pos : 0 < s.heap.length
  owned_lt : ∀ a ∈ s.owned, a < s.heap.length
  layers_ok : ∀ l ∈ s.layers, l.dashes.arr < s.heap.length ∧ l.dashes.arr ∉ s.owned ∧
    inRange s.heap l.dashes = true
  cur_ok : SliceOK s.heap s.cur.dashes
  stack_ok : ∀ t ∈ s.stack, SliceOK s.heap t.dashes

theorem Inv_init : Inv (init zero) := by
  constructor <;> simp [init, SliceOK, inRange]

theorem SliceOK_step (op : Op α) (s : State α) (sl : Slice) (h : SliceOK s.heap sl) :
    SliceOK (step zero cd op s).heap sl := by
  refine ⟨Nat.lt_of_lt_of_le h.1 (heap_length_mono zero cd op s), ?_⟩
  have := h.2
  simp only [inRange, decide_eq_true_eq] at this ⊢
  rw [step_getD_length zero cd op s _ h.1]; exact this

theorem Inv_step (op : Op α) (s : State α) (hi : Inv s) : Inv (step zero cd op s) := by
  have hS := fun sl => SliceOK_step zero cd op s sl
  have hL := heap_length_mono zero cd op s
  cases op with
  | callerAlloc a =>
    refine ⟨Nat.lt_of_lt_of_le hi.heap_pos hL, ?_, ?_, hS _ hi.cur_ok, fun t ht => hS _ (hi.stack_ok t ht)⟩
    · intro a' ha'
      simp only [step, List.mem_append, List.mem_singleton, List.length_append, List.length_singleton] at ha' ⊢
      rcases ha' with ha' | ha'
      · have := hi.owned_lt a' ha'; omega
      · omega
    · intro l hl
      obtain ⟨h1, h2, h3⟩ := hi.layers_ok l hl
      have := hS l.dashes ⟨h1, h3⟩
      refine ⟨this.1, ?_, this.2⟩
      simp only [step, List.mem_append, List.mem_singleton]
      rintro (h | h)
      · exact h2 h
      · omega
  | callerWrite arr i v =>
    have hcur : (step zero cd (.callerWrite arr i v) s).cur = s.cur := by
      simp only [step]; split <;> rfl
    have hst : (step zero cd (.callerWrite arr i v) s).stack = s.stack := by
      simp only [step]; split <;> rfl
    refine ⟨Nat.lt_of_lt_of_le hi.heap_pos hL, ?_, ?_, by rw [hcur]; exact hS _ hi.cur_ok,
      fun t ht => hS _ (hi.stack_ok t (by rw [hst] at ht; exact ht))⟩
    · intro a ha
      have hown : (step zero cd (.callerWrite arr i v) s).owned = s.owned := by
        simp only [step]; split <;> rfl
      rw [hown] at ha
      exact Nat.lt_of_lt_of_le (hi.owned_lt a ha) hL
    · intro l hl
      have hown : (step zero cd (.callerWrite arr i v) s).owned = s.owned := by
        simp only [step]; split <;> rfl
      have hlay : (step zero cd (.callerWrite arr i v) s).layers = s.layers := by
        simp only [step]; split <;> rfl
      rw [hlay] at hl
      obtain ⟨h1, h2, h3⟩ := hi.layers_ok l hl
      have := hS l.dashes ⟨h1, h3⟩
      exact ⟨this.1, by rw [hown]; exact h2, this.2⟩
  | setDashes off sl =>
    simp only [step]; split
    · rename_i hc
      simp only [Bool.and_eq_true, List.contains_iff_mem] at hc
      exact ⟨hi.heap_pos, hi.owned_lt, hi.layers_ok, ⟨hi.owned_lt _ hc.1, hc.2⟩, hi.stack_ok⟩
    · exact hi
  | push =>
    refine ⟨hi.heap_pos, hi.owned_lt, hi.layers_ok, hi.cur_ok, ?_⟩
    intro t ht
    simp only [step, List.mem_cons] at ht
    rcases ht with rfl | ht
    · exact hi.cur_ok
    · exact hi.stack_ok t ht
  | pop =>
    simp only [step]; split
    · exact hi
    · rename_i t rest hst
      have hso := hi.stack_ok
      rw [hst] at hso
      exact ⟨hi.heap_pos, hi.owned_lt, hi.layers_ok, hso t (by simp), fun t' ht' => hso t' (by simp [ht'])⟩
  | resetStyle =>
    exact ⟨hi.heap_pos, hi.owned_lt, hi.layers_ok, ⟨hi.heap_pos, by simp [inRange, step]⟩, hi.stack_ok⟩
  | drawPath len =>
    refine ⟨Nat.lt_of_lt_of_le hi.heap_pos hL, ?_, ?_, hS _ hi.cur_ok, fun t ht => hS _ (hi.stack_ok t ht)⟩
    · intro a ha
      exact Nat.lt_of_lt_of_le (hi.owned_lt a ha) hL
    · intro l hl
      simp only [step, List.mem_append, List.mem_singleton] at hl
      rcases hl with hl | rfl
      · obtain ⟨h1, h2, h3⟩ := hi.layers_ok l hl
        have := hS l.dashes ⟨h1, h3⟩
        exact ⟨this.1, h2, this.2⟩
      · refine ⟨by simp [step], ?_, by simp [step, inRange]⟩
        intro h
        have := hi.owned_lt _ h
        simp at this

theorem Inv_run (ops : List (Op α)) (s : State α) (hi : Inv s) : Inv (run zero cd ops s) := by
  induction ops generalizing s with
  | nil => exact hi
  | cons op ops ih => exact ih _ (Inv_step zero cd op s hi)

theorem layers_prefix_step (op : Op α) (s : State α) : s.layers <+: (step zero cd op s).layers := by
  cases op with
  | callerWrite arr i v => simp only [step]; split <;> simp
  | callerAlloc a => simp [step]
  | setDashes off sl => simp only [step]; split <;> simp
  | push => simp [step]
  | pop => simp only [step]; split <;> simp
  | resetStyle => simp [step]
  | drawPath len => simp [step]

theorem layers_prefix (ops : List (Op α)) (s : State α) : s.layers <+: (run zero cd ops s).layers := by
  induction ops generalizing s with
  | nil => exact List.prefix_refl _
  | cons op ops ih => exact List.IsPrefix.trans (layers_prefix_step zero cd op s) (ih _)

/-- a recorded layer reads the same dashes after any later history, caller writes included -/
theorem recorded_immune (ops : List (Op α)) (s : State α) (hs : Inv s) (l : HLayer α)
    (hl : l ∈ s.layers) : deref (run zero cd ops s).heap l.dashes = deref s.heap l.dashes := by
  induction ops generalizing s with
  | nil => rfl
  | cons op ops ih =>
    obtain ⟨h1, h2, _⟩ := hs.layers_ok l hl
    have hl' : l ∈ (step zero cd op s).layers := (layers_prefix_step zero cd op s).subset hl
    simp only [run]
    rw [ih _ (Inv_step zero cd op s hs) hl']
    simp only [deref, step_getD_notOwned zero cd op s _ h1 h2]


/-! ## 3. value semantics when the caller does not write -/

/-- the pure value-level machine: dashes are Lists (what the main model `CanvasModel/C15.lean` uses) -/
structure VState (α : Type) where
  cur : α × List α
  stack : List (α × List α)
  layers : List (α × List α × Bool)

/-- abstraction: dereference every reachable slice header -/
def absState (s : State α) : VState α :=
  ⟨(s.cur.dashOff, deref s.heap s.cur.dashes),
   s.stack.map (fun t => (t.dashOff, deref s.heap t.dashes)),
   s.layers.map (fun l => (l.dashOff, deref s.heap l.dashes, l.stroke))⟩

/-- value-level operations -/
inductive VOp (α : Type)
  | setDashes (off : α) (d : List α)
  | push | pop
  | resetStyle
  | drawPath (len : α)
  | nop

/-- the value-level reading of a heap-level operation in a given state: `setDashes` passes the
*value* of the slice at the time of the call; caller allocations, (ignored) caller writes and
rejected `setDashes` are invisible -/
def toV : Op α → State α → VOp α
  | .callerAlloc _, _ => .nop
  | .callerWrite .., _ => .nop
  | .setDashes off sl, s =>
    if s.owned.contains sl.arr && inRange s.heap sl then .setDashes off (deref s.heap sl) else .nop
  | .push, _ => .push
  | .pop, _ => .pop
  | .resetStyle, _ => .resetStyle
  | .drawPath len, _ => .drawPath len

def vstep : VOp α → VState α → VState α
  | .setDashes off d, v => { v with cur := (off, d) }
  | .push, v => { v with stack := v.cur :: v.stack }
  | .pop, v =>
    match v.stack with
    | [] => v
    | t :: rest => { v with cur := t, stack := rest }
  | .resetStyle, v => { v with cur := (zero, []) }
  | .drawPath len, v =>
    { v with layers := v.layers ++ [(v.cur.1, (cd v.cur.1 v.cur.2 len).1, (cd v.cur.1 v.cur.2 len).2)] }
  | .nop, v => v

def vrun : List (VOp α) → VState α → VState α
  | [], v => v
  | op :: ops, v => vrun ops (vstep zero cd op v)

/-- value-level trace of a heap-level history started in `s` -/
def toVs : List (Op α) → State α → List (VOp α)
  | [], _ => []
  | op :: ops, s => toV op s :: toVs ops (step zero cd op s)

/-- appending an array does not change what an allocated slice reads -/
theorem deref_append (h : Heap α) (a : List α) (sl : Slice) (hsl : sl.arr < h.length) :
    deref (h ++ [a]) sl = deref h sl := by
  simp [deref, List.getD_eq_getElem?_getD, List.getElem?_append_left hsl]

theorem deref_of_prefix (h h' : Heap α) (hp : h <+: h') (sl : Slice) (hsl : sl.arr < h.length) :
    deref h' sl = deref h sl := by
  obtain ⟨t, rfl⟩ := hp
  simp [deref, List.getD_eq_getElem?_getD, List.getElem?_append_left hsl]

theorem deref_fresh (h : Heap α) (a : List α) : deref (h ++ [a]) ⟨h.length, 0, a.length⟩ = a := by
  simp [deref, List.getD_eq_getElem?_getD]

/-- the abstraction only depends on what the reachable slices read -/
theorem absState_congr (s s' : State α) (hi : Inv s) (hc : s'.cur = s.cur) (hst : s'.stack = s.stack)
    (hl : s'.layers = s.layers)
    (hd : ∀ sl : Slice, sl.arr < s.heap.length → deref s'.heap sl = deref s.heap sl) :
    absState s' = absState s := by
  simp only [absState, hc, hst, hl, hd _ hi.cur_ok.1]
  congr 1
  · apply List.map_congr_left
    intro t ht; rw [hd _ (hi.stack_ok t ht).1]
  · apply List.map_congr_left
    intro l hl; rw [hd _ (hi.layers_ok l hl).1]

theorem value_semantics_step (op : Op α) (s : State α) (hw : op.isCallerWrite = false) (hi : Inv s) :
    absState (step zero cd op s) = vstep zero cd (toV op s) (absState s) := by
  cases op with
  | callerWrite arr i v => simp [Op.isCallerWrite] at hw
  | callerAlloc a =>
    exact absState_congr _ _ hi rfl rfl rfl (fun sl hsl => deref_append _ _ _ hsl)
  | setDashes off sl =>
    simp only [step, toV]; split
    · simp [vstep, absState]
    · simp [vstep]
  | push => simp [step, toV, vstep, absState]
  | pop =>
    simp only [step, toV, vstep]
    cases hst : s.stack with
    | nil => simp [absState, hst]
    | cons t rest => simp [absState, hst]
  | resetStyle => simp [step, toV, vstep, absState, deref]
  | drawPath len =>
    have h0 := absState_congr s { s with heap := s.heap ++ [(cd s.cur.dashOff (deref s.heap s.cur.dashes) len).1] }
      hi rfl rfl rfl (fun sl hsl => deref_append _ _ _ hsl)
    simp only [absState, VState.mk.injEq] at h0
    simp only [step, toV, vstep, absState, List.map_append, List.map_cons, List.map_nil, deref_fresh,
      h0.1, h0.2.1, h0.2.2]

theorem value_semantics_run (ops : List (Op α)) (s : State α)
    (hw : ∀ op ∈ ops, op.isCallerWrite = false) (hi : Inv s) :
    absState (run zero cd ops s) = vrun zero cd (toVs zero cd ops s) (absState s) := by
  induction ops generalizing s with
  | nil => rfl
  | cons op ops ih =>
    simp only [run, toVs, vrun]
    rw [ih _ (fun o ho => hw o (List.mem_cons_of_mem _ ho)) (Inv_step zero cd op s hi),
      value_semantics_step zero cd op s (hw op (List.mem_cons_self ..)) hi]

/-- in particular an observer cannot tell the heap run from the value run -/
theorem observe_eq_abs (s : State α) :
    observe s = ((absState s).cur.2, (absState s).layers.map (fun l => (l.2.1, l.2.2))) := by
  simp [observe, absState, Function.comp_def]

/-! ## 4. Push/Pop restore exactly -/

/-- stack-balanced histories: `bal d ops` = starting `d` levels deep, `ops` never pops below its
own starting level and ends at that level -/
def bal : Nat → List (Op α) → Bool
  | d, [] => d == 0
  | d, .push :: ops => bal (d + 1) ops
  | 0, .pop :: _ => false
  | d + 1, .pop :: ops => bal d ops
  | d, _ :: ops => bal d ops

theorem run_append (ops ops' : List (Op α)) (s : State α) :
    run zero cd (ops ++ ops') s = run zero cd ops' (run zero cd ops s) := by
  induction ops generalizing s with
  | nil => rfl
  | cons op ops ih => simp only [List.cons_append, run, ih]

/-- header level, caller writes allowed: a balanced history leaves the part of the stack below its
starting level untouched -/
theorem bal_stack (ops : List (Op α)) (d : Nat) (s : State α) (pre base : List (HStyle α))
    (hb : bal d ops = true) (hs : s.stack = pre ++ base) (hd : pre.length = d) :
    (run zero cd ops s).stack = base := by
  induction ops generalizing d s pre with
  | nil =>
    simp only [bal, beq_iff_eq] at hb
    subst hb
    simp only [List.length_eq_zero_iff] at hd
    simp [run, hs, hd]
  | cons op ops ih =>
    cases op with
    | push =>
      simp only [bal] at hb
      exact ih (d + 1) _ (s.cur :: pre) hb (by simp [step, hs]) (by simp [hd])
    | pop =>
      cases d with
      | zero => simp [bal] at hb
      | succ d =>
        simp only [bal] at hb
        cases pre with
        | nil => simp at hd
        | cons t pre =>
          refine ih d _ pre hb ?_ (by simpa using hd)
          simp [step, hs]
    | callerAlloc a =>
      have hb' : bal d ops = true := by cases d <;> simpa [bal] using hb
      exact ih d _ pre hb' (by simp [step, hs]) hd
    | callerWrite arr i v =>
      have hb' : bal d ops = true := by cases d <;> simpa [bal] using hb
      refine ih d _ pre hb' ?_ hd
      simp only [step]; split <;> exact hs
    | setDashes off sl =>
      have hb' : bal d ops = true := by cases d <;> simpa [bal] using hb
      refine ih d _ pre hb' ?_ hd
      simp only [step]; split <;> exact hs
    | resetStyle =>
      have hb' : bal d ops = true := by cases d <;> simpa [bal] using hb
      exact ih d _ pre hb' (by simp [step, hs]) hd
    | drawPath len =>
      have hb' : bal d ops = true := by cases d <;> simpa [bal] using hb
      exact ih d _ pre hb' (by simp [step, hs]) hd

/-- header level, ARBITRARY balanced history (caller writes included): Push … Pop restores the
current style's slice header and the stack exactly -/
theorem push_pop_header (s : State α) (ops : List (Op α)) (hb : bal 0 ops = true) :
    (run zero cd (.push :: ops ++ [.pop]) s).cur = s.cur ∧
    (run zero cd (.push :: ops ++ [.pop]) s).stack = s.stack := by
  have h := bal_stack zero cd ops 0 (step zero cd .push s) [] (s.cur :: s.stack) hb
    (by simp [step]) rfl
  have hr : run zero cd (.push :: ops ++ [.pop]) s
      = step zero cd .pop (run zero cd ops (step zero cd .push s)) := by
    show run zero cd (ops ++ [.pop]) (step zero cd .push s) = _
    rw [run_append]; rfl
  rw [hr]
  generalize run zero cd ops (step zero cd .push s) = s' at h
  simp [step, h]

theorem heap_prefix_run (ops : List (Op α)) (s : State α)
    (hw : ∀ op ∈ ops, op.isCallerWrite = false) : s.heap <+: (run zero cd ops s).heap := by
  induction ops generalizing s with
  | nil => exact List.prefix_refl _
  | cons op ops ih =>
    exact List.IsPrefix.trans (lib_never_writes zero cd op s (hw op (List.mem_cons_self ..)))
      (ih _ (fun o ho => hw o (List.mem_cons_of_mem _ ho)))

/-- value level: without caller writes, Push … Pop around any balanced history restores the
current dash offset and dash *values* -/
theorem push_pop_value (s : State α) (ops : List (Op α))
    (hw : ∀ op ∈ ops, op.isCallerWrite = false) (hb : bal 0 ops = true) (hi : Inv s) :
    (absState (run zero cd (.push :: ops ++ [.pop]) s)).cur = (absState s).cur ∧
    (absState (run zero cd (.push :: ops ++ [.pop]) s)).stack = (absState s).stack := by
  obtain ⟨hc, hst⟩ := push_pop_header zero cd s ops hb
  have hw' : ∀ op ∈ Op.push :: ops ++ [Op.pop], op.isCallerWrite = false := by
    intro op hop
    simp only [List.cons_append, List.mem_cons, List.mem_append, List.mem_nil_iff, or_false] at hop
    rcases hop with rfl | hop | rfl
    · rfl
    · exact hw op hop
    · rfl
  have hp := heap_prefix_run zero cd _ s hw'
  simp only [absState, hc, hst, deref_of_prefix _ _ hp _ hi.cur_ok.1, true_and]
  apply List.map_congr_left
  intro t ht
  rw [deref_of_prefix _ _ hp _ (hi.stack_ok t ht).1]

/-! ## 5. aliasing is real (Go semantics of `SetDashes(off, d...)`: the variadic slice is stored as
it is) — but only for the *current* style, never for a recorded layer -/

section Aliasing
private def cdId : Nat → List Nat → Nat → List Nat × Bool := fun _ d _ => (d, true)

/-- the caller's later `d[0] = 9` is visible through the context's current dashes -/
example :
    (observe (run 0 cdId [.callerAlloc [1, 2, 3], .setDashes 0 ⟨1, 0, 3⟩, .callerWrite 1 0 9]
      (init 0))).1 = [9, 2, 3] := by decide

/-- …while the layer drawn before the write still reads `[1,2,3]` -/
example :
    observe (run 0 cdId [.callerAlloc [1, 2, 3], .setDashes 0 ⟨1, 0, 3⟩, .drawPath 10,
      .callerWrite 1 0 9] (init 0)) = ([9, 2, 3], [([1, 2, 3], true)]) := by decide

/-- a pushed state aliases too: the write is seen again after Pop -/
example :
    (observe (run 0 cdId [.callerAlloc [1, 2, 3], .setDashes 0 ⟨1, 0, 3⟩, .push, .resetStyle,
      .callerWrite 1 0 9, .pop] (init 0))).1 = [9, 2, 3] := by decide
end Aliasing

end C15.Heap
