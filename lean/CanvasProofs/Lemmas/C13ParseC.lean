import CanvasProofs.Lemmas.C13ParseB

/-! C13 serialise-then-parse, part C: tokens, arrays, dictionaries, the round-trip theorem. -/
namespace C13L
open Canvas.C13 Canvas.C13.Rd Canvas.C13.P

/-- a number-like token followed by a tail parses to its own text -/
theorem parse_numTok (f : Nat) (p T : Bytes) (hs : isNumTok p = true) (hT : Tail T) :
    parseVal (f + 1) (p ++ T) = some (.num p, T) := by
  have hp := isNumTok_numTok p hs
  obtain ⟨c, r, e, hc, hall⟩ := numTok_cons p hp
  have pr := numChar_props c hc
  have pr2 := numChar_props2 c hc
  have hspan : spanReg (p ++ T) = (p, T) := spanReg_append p T (all_numChar_isReg p hall) hT.nr
  have hkw := numTok_not_kw p hp
  rw [parseVal.eq_def]
  simp only []
  have hsk : skipWs (p ++ T) = c :: (r ++ T) := by rw [e]; exact skipWs_cons_of_not_ws _ pr.2.1
  rw [hsk]
  have hspan' : spanReg (c :: (r ++ T)) = (p, T) := by rw [← hspan, e]; rfl
  simp only [pr2.1, pr2.2.1, pr2.2.2.1, pr2.2.2.2, if_false, pr.1, if_true, hspan', hT.noRef, hkw.1, hkw.2, hs]
  split <;> rfl

theorem parse_kw (f : Nat) (k T : Bytes) (b : Bool) (hk : k = if b then kTrue else kFalse) (hT : Tail T) :
    parseVal (f + 1) (k ++ T) = some (.bool b, T) := by
  have hspan : spanReg (k ++ T) = (k, T) := spanReg_append k T (by subst hk; cases b <;> decide) hT.nr
  rw [parseVal.eq_def]
  simp only []
  cases b
  · simp only [Bool.false_eq_true, if_false] at hk
    subst hk
    have hsk : skipWs (kFalse ++ T) = 0x66 :: (asc "alse" ++ T) := rfl
    have hspan' : spanReg (0x66 :: (asc "alse" ++ T)) = (kFalse, T) := hspan
    rw [hsk]
    simp only [show (0x66 : UInt8) ≠ 0x2F by decide, show (0x66 : UInt8) ≠ 0x28 by decide, show (0x66 : UInt8) ≠ 0x5B by decide,
      show (0x66 : UInt8) ≠ 0x3C by decide, if_false, show isReg 0x66 = true by decide, if_true, hspan',
      show isNatTok kFalse = false by decide, Bool.false_eq_true, show kFalse ≠ kTrue by decide]
  · simp only [if_true] at hk
    subst hk
    have hsk : skipWs (kTrue ++ T) = 0x74 :: (asc "rue" ++ T) := rfl
    have hspan' : spanReg (0x74 :: (asc "rue" ++ T)) = (kTrue, T) := hspan
    rw [hsk]
    simp only [show (0x74 : UInt8) ≠ 0x2F by decide, show (0x74 : UInt8) ≠ 0x28 by decide, show (0x74 : UInt8) ≠ 0x5B by decide,
      show (0x74 : UInt8) ≠ 0x3C by decide, if_false, show isReg 0x74 = true by decide, if_true, hspan',
      show isNatTok kTrue = false by decide, Bool.false_eq_true]

theorem parse_ref (f : Nat) (n : Nat) (T : Bytes) (hT : Tail T) :
    parseVal (f + 1) (natBytes n ++ asc " 0 R" ++ T) = some (.ref n, T) := by
  obtain ⟨c, r, e, hc, hall⟩ := numTok_cons _ (natBytes_numTok n)
  have pr := numChar_props c hc
  have pr2 := numChar_props2 c hc
  have hnr : NR (asc " 0 R" ++ T) := by
    intro c' T' e'; rw [sp0R] at e'; cases e'; decide
  have hspan : spanReg (natBytes n ++ (asc " 0 R" ++ T)) = (natBytes n, asc " 0 R" ++ T) :=
    spanReg_append _ _ (all_numChar_isReg _ hall) hnr
  have href : P.refAhead (asc " 0 R" ++ T) = some T := by
    rw [sp0R]
    unfold P.refAhead
    have s1 : skipWs (0x20 :: 0x30 :: 0x20 :: 0x52 :: T) = 0x30 :: 0x20 :: 0x52 :: T := rfl
    have s2 : spanReg (0x30 :: 0x20 :: 0x52 :: T) = ([0x30], 0x20 :: 0x52 :: T) := rfl
    have s3 : skipWs (0x20 :: 0x52 :: T) = 0x52 :: T := rfl
    simp only [s1, s2, s3]
    have : isNatTok [0x30] = true := by decide
    simp only [this, List.length_cons, Bool.true_and]
    have l1 : decide (T.length + 1 + 1 + 1 < T.length + 1 + 1 + 1 + 1) = true := by simp
    have l2 : decide (T.length + 1 < T.length + 1 + 1) = true := by simp
    simp only [l1, l2, Bool.and_self, if_true, show ((0x52 : UInt8) == 0x52) = true by decide]
    cases T with
    | nil => rfl
    | cons d T' =>
      have := hT.nr d T' rfl
      simp [this]
  rw [parseVal.eq_def]
  simp only [List.append_assoc]
  have hsk : skipWs (natBytes n ++ (asc " 0 R" ++ T)) = c :: (r ++ (asc " 0 R" ++ T)) := by
    rw [e]; exact skipWs_cons_of_not_ws _ pr.2.1
  rw [hsk]
  have hspan' : spanReg (c :: (r ++ (asc " 0 R" ++ T))) = (natBytes n, asc " 0 R" ++ T) := by rw [← hspan, e]; rfl
  simp only [pr2.1, pr2.2.1, pr2.2.2.1, pr2.2.2.2, if_false, pr.1, if_true, hspan', isNatTok_natBytes, href, natOf_natBytes]

/-! ### arrays and dictionaries: shape of the serialisation -/

/-- the elements after the first, each preceded by a space, then `]` and the tail -/
def arrRest : List Val → Bytes → Bytes
  | [], T => 0x5D :: T
  | v :: vs, T => 0x20 :: (ser v ++ arrRest vs T)

def arrBody : List Val → Bytes → Bytes
  | [], T => 0x5D :: T
  | v :: vs, T => ser v ++ arrRest vs T

theorem joinSp_serList (v : Val) (vs : List Val) (T : Bytes) :
    joinSp (serList (v :: vs)) ++ 0x5D :: T = ser v ++ arrRest vs T := by
  induction vs generalizing v with
  | nil => simp [serList, joinSp, arrRest]
  | cons w ws ih =>
    have := ih w
    simp only [serList] at this ⊢
    simp only [joinSp, List.append_assoc, List.cons_append, arrRest]
    rw [this]

theorem ser_arr (xs : List Val) (T : Bytes) : ser (.arr xs) ++ T = 0x5B :: arrBody xs T := by
  cases xs with
  | nil => simp [ser, serList, joinSp, arrBody]
  | cons v vs =>
    simp only [ser, List.cons_append, List.append_assoc, List.singleton_append, arrBody]
    rw [joinSp_serList]
    simp only [List.nil_append]

theorem tail_arrRest (vs : List Val) (T : Bytes) (h : wfList vs = true) (hT : Tail T) : Tail (arrRest vs T) := by
  induction vs with
  | nil => exact Tail.delim 0x5D T (by decide)
  | cons v vs ih =>
    simp only [wfList, Bool.and_eq_true] at h
    exact Tail.sep v _ h.1 (ih h.2)

/-- entries one after the other, then `>>` and the tail -/
def kvBody : List (Bytes × Val) → Bytes → Bytes
  | [], T => 0x3E :: 0x3E :: T
  | (k, v) :: r, T => 0x2F :: (k ++ ((if v.continues then [0x20] else []) ++ (ser v ++ kvBody r T)))

theorem flatten_entries (kvs : List (Bytes × Val)) (T : Bytes) :
    ((serKvs kvs).map entryBytes).flatten ++ (asc ">>" ++ T) = kvBody kvs T := by
  induction kvs with
  | nil => simp only [serKvs, List.map_nil, List.flatten_nil, List.nil_append, kvBody]; rfl
  | cons kv r ih =>
    obtain ⟨k, v⟩ := kv
    simp only [serKvs, List.map_cons, List.flatten_cons, entryBytes, kvBody, List.append_assoc, List.cons_append, ih]

theorem ser_dict (kvs : List (Bytes × Val)) (T : Bytes) (h : canonOK (serKvs kvs) = true) :
    ser (.dict kvs) ++ T = 0x3C :: 0x3C :: kvBody kvs T := by
  unfold canonOK at h
  have h' := eq_of_beq h
  simp only [ser]
  rw [h', List.append_assoc, List.append_assoc, flatten_entries]
  rfl

theorem tail_kvBody (kvs : List (Bytes × Val)) (T : Bytes) : Tail (kvBody kvs T) := by
  cases kvs with
  | nil => exact Tail.delim 0x3E _ (by decide)
  | cons kv r => obtain ⟨k, v⟩ := kv; exact Tail.delim 0x2F _ (by decide)

theorem parseList_ws (f : Nat) (X : Bytes) : parseList f (0x20 :: X) = parseList f X := by
  cases f with
  | zero => rw [parseList.eq_def, parseList.eq_def]
  | succ f =>
    rw [parseList.eq_def, parseList.eq_def]
    simp only [skipWs_cons_ws X (show isWS 0x20 = true by decide)]

theorem parseVal_ws (f : Nat) (X : Bytes) : parseVal f (0x20 :: X) = parseVal f X := by
  cases f with
  | zero => rw [parseVal.eq_def, parseVal.eq_def]
  | succ f =>
    rw [parseVal.eq_def, parseVal.eq_def]
    simp only [skipWs_cons_ws X (show isWS 0x20 = true by decide)]

end C13L
