import CanvasProofs.Lemmas.C17Opt2
import Mathlib.Tactic.FieldSimp
/-! C17, towards `optimal`, part 3: deactivation is safe for well-formed paragraphs — the least length
of a line only grows with the break position, so a node that is too long for the current break is
too long for every later one. -/
set_option linter.unusedSectionVars false
set_option linter.unusedVariables false
namespace Canvas.C17

section field
variable {K : Type} [Field K] [LinearOrder K] [IsStrictOrderedRing K]

/-- item-wise well-formedness: non-negative widths, glue with `0 ≤ shrink ≤ width` and `0 ≤ stretch` -/
def ItemsOK (items : List (Item K)) : Prop :=
  ∀ it, it ∈ items → 0 ≤ it.width ∧ (it.ty = Ty.glue → 0 ≤ it.shrink ∧ it.shrink ≤ it.width ∧ 0 ≤ it.stretch)

theorem k0 : (k 0 : K) = 0 := by simp [k]
theorem k1 : (k 1 : K) = 1 := by simp [k]

theorem pre_step (items : List (Item K)) (h : ItemsOK items) (b : Nat) :
    (pre items b).1 ≤ (pre items (b + 1)).1 ∧ (pre items b).2.1 ≤ (pre items (b + 1)).2.1 ∧
    (pre items b).2.2 ≤ (pre items (b + 1)).2.2 ∧
    (pre items b).1 - (pre items b).2.2 ≤ (pre items (b + 1)).1 - (pre items (b + 1)).2.2 := by
  cases hb : items[b]? with
  | none =>
    have : pre items (b + 1) = pre items b := by
      unfold pre
      have hl : items.length ≤ b := List.getElem?_eq_none_iff.mp hb
      rw [List.take_of_length_le hl, List.take_of_length_le (by omega)]
    rw [this]; exact ⟨le_refl _, le_refl _, le_refl _, le_refl _⟩
  | some it =>
    rw [pre_succ items b it hb]
    obtain ⟨hw, hg⟩ := h it (List.mem_of_getElem? hb)
    cases hty : it.ty with
    | box => simp only [addItem, hty]; refine ⟨by linarith, le_refl _, le_refl _, by linarith⟩
    | glue =>
      obtain ⟨h1, h2, h3⟩ := hg hty
      simp only [addItem, hty]; refine ⟨by linarith, by linarith, by linarith, by linarith⟩
    | penalty => simp only [addItem, hty]; exact ⟨le_refl _, le_refl _, le_refl _, le_refl _⟩

theorem pre_mono (items : List (Item K)) (h : ItemsOK items) (b : Nat) : ∀ d : Nat,
    (pre items b).1 ≤ (pre items (b + d)).1 ∧ (pre items b).2.1 ≤ (pre items (b + d)).2.1 ∧
    (pre items b).2.2 ≤ (pre items (b + d)).2.2 ∧
    (pre items b).1 - (pre items b).2.2 ≤ (pre items (b + d)).1 - (pre items (b + d)).2.2 := by
  intro d
  induction d with
  | zero => exact ⟨le_refl _, le_refl _, le_refl _, le_refl _⟩
  | succ d ih =>
    obtain ⟨a1, a2, a3, a4⟩ := ih
    obtain ⟨b1, b2, b3, b4⟩ := pre_step items h (b + d)
    exact ⟨le_trans a1 b1, le_trans a2 b2, le_trans a3 b3, le_trans a4 b4⟩

/-- `computeAdjustmentRatio` without the exact-fit guard of bb6487a (the mathematical ratio) -/
def adjRatio0 (P : Params K) (lineW : K) (it : Item K) (W Y Z aw ay az : K) : Option K :=
  ratioCore P lineW (lineLen it W aw) (Y - ay) (Z - az) id

/-- the guard is the identity: with `eps = 0` it only rewrites a value by itself -/
theorem adjRatio_eps0 (P : Params K) (lineW : K) (it : Item K) (W Y Z aw ay az : K) (h : P.eps = 0) :
    adjRatio P lineW it W Y Z aw ay az = adjRatio0 P lineW it W Y Z aw ay az := by
  unfold adjRatio adjRatio0
  have h1 : snapL P lineW (lineLen it W aw) = lineLen it W aw := by
    unfold snapL
    rw [h, zero_mul]
    split
    · rename_i hc
      unfold absS at hc
      simp only [k0] at hc
      split at hc <;> linarith
    · rfl
  have h2 : snapR P = id := by
    funext r
    unfold snapR
    rw [h]
    split
    · rename_i hc
      unfold absS at hc
      simp only [k0, k1] at hc
      simp only [id, k1]
      split at hc <;> linarith
    · rfl
  rw [h1, h2]

/-- the node would be deactivated: ratio −∞ or below −1 -/
def TooLong (o : Option K) : Prop := o = none ∨ ∃ r, o = some r ∧ r < -(k 1 : K)

/-- too long at this break means: the least length of the line exceeds the line width -/
theorem tooLong_imp (P : Params K) (lineW : K) (it : Item K) (W Y Z aw ay az : K)
    (hpen : it.ty = Ty.penalty → it.width = 0) (hY : ay ≤ Y) (hZ : az ≤ Z) (hinf : 0 < P.infinity)
    (hW : 0 < lineW) (h : TooLong (adjRatio0 P lineW it W Y Z aw ay az)) :
    lineW < (W - aw) - (Z - az) := by
  have hL : (if it.ty = Ty.penalty then W - aw + it.width else W - aw) = W - aw := by
    split
    · rename_i hp; rw [hpen hp]; ring
    · rfl
  unfold adjRatio0 ratioCore lineLen at h
  simp only [hL, k0, k1, beq_iff_eq, id] at h
  unfold TooLong at h
  simp only [k1] at h
  by_cases h1 : W - aw < lineW
  · exfalso
    rw [if_pos h1] at h
    by_cases hy0 : Y - ay ≤ 0
    · rw [if_pos hy0] at h
      rcases h with h | ⟨r, h, hr⟩
      · cases h
      · have e := Option.some.inj h
        have hpos : 0 < (lineW - (W - aw)) / lineW := div_pos (by linarith) hW
        have : 0 < P.infinity * (1 + (lineW - (W - aw)) / lineW) := mul_pos hinf (by linarith)
        rw [e] at this; linarith
    · rw [if_neg hy0] at h
      have hyp : 0 < Y - ay := not_le.mp hy0
      have hpos : 0 < (lineW - (W - aw)) / (Y - ay) := div_pos (by linarith) hyp
      rcases h with h | ⟨r, h, hr⟩
      · cases h
      · have e := Option.some.inj h
        split at e <;> (rw [← e] at hr; linarith)
  · rw [if_neg h1] at h
    by_cases h2 : lineW < W - aw
    · rw [if_pos h2] at h
      by_cases hz0 : Z - az = 0
      · rw [hz0]; linarith
      · rw [if_neg hz0] at h
        have hzp : 0 < Z - az := lt_of_le_of_ne (by linarith) (Ne.symm hz0)
        rcases h with h | ⟨r, h, hr⟩
        · cases h
        · have e := Option.some.inj h
          have hneg : (lineW - (W - aw)) / (Z - az) < 0 := div_neg_of_neg_of_pos (by linarith) hzp
          rw [if_pos (by linarith)] at e
          rw [← e] at hr
          rw [div_lt_iff₀ hzp] at hr
          linarith
    · exfalso
      rw [if_neg h2] at h
      rcases h with h | ⟨r, h, hr⟩
      · cases h
      · have e := Option.some.inj h
        rw [if_pos hinf] at e
        rw [← e] at hr; linarith

/-- conversely, a line whose least length (without the width of a penalty broken at) exceeds the
line width is too long -/
theorem tooLong_of (P : Params K) (lineW : K) (it : Item K) (W Y Z aw ay az : K)
    (hw : 0 ≤ it.width) (hZ : az ≤ Z) (hinf : 0 < P.infinity)
    (h : lineW < (W - aw) - (Z - az)) : TooLong (adjRatio0 P lineW it W Y Z aw ay az) := by
  have hL : W - aw ≤ (if it.ty = Ty.penalty then W - aw + it.width else W - aw) := by
    split
    · linarith
    · exact le_refl _
  unfold adjRatio0 ratioCore lineLen TooLong
  simp only [k0, k1, beq_iff_eq, id]
  generalize (if it.ty = Ty.penalty then W - aw + it.width else W - aw) = L at hL
  have h2 : lineW < L := by linarith
  rw [if_neg (by linarith), if_pos h2]
  by_cases hz0 : Z - az = 0
  · rw [if_pos hz0]; exact Or.inl rfl
  · rw [if_neg hz0]
    have hzp : 0 < Z - az := lt_of_le_of_ne (by linarith) (Ne.symm hz0)
    have hlt : (lineW - L) / (Z - az) < -1 := by
      rw [div_lt_iff₀ hzp]; linarith
    right
    exact ⟨_, by rw [if_pos (by linarith)], hlt⟩

/-- a node that `mainLoop` deactivates at a break that is not forced has a line whose least length
(without the width of the penalty) exceeds the line width -/
theorem deact_imp (cx : Ctx K) (a : Node K) (hnf : isForced cx.P cx.it = false)
    (hY : a.d.y ≤ cx.Y) (hZ : a.d.z ≤ cx.Z) (hinf : 0 < cx.P.infinity) (hW : 0 < cx.lineW) (heps : 0 ≤ cx.P.eps)
    (hs : adjRatio cx.P cx.lineW cx.it cx.W cx.Y cx.Z a.d.w a.d.y a.d.z =
      adjRatio0 cx.P cx.lineW cx.it cx.W cx.Y cx.Z a.d.w a.d.y a.d.z)
    (h : deactivates cx a (adjRatio cx.P cx.lineW cx.it cx.W cx.Y cx.Z a.d.w a.d.y a.d.z) = true) :
    cx.lineW < (cx.W - a.d.w) - (cx.Z - a.d.z) := by
  rw [hs] at h
  unfold deactivates at h
  rw [hnf, Bool.or_false] at h
  by_cases hp : (cx.it.ty = Ty.penalty && !(cx.it.width == k 0)) = true
  · rw [if_pos hp] at h
    have h' : cx.lineW * (1 + cx.P.eps) < cx.W - a.d.w - (cx.Z - a.d.z) := by simpa [k1] using h
    have : cx.lineW ≤ cx.lineW * (1 + cx.P.eps) := by
      have := mul_le_mul_of_nonneg_left (show (1 : K) ≤ 1 + cx.P.eps by linarith) (le_of_lt hW)
      linarith
    linarith
  · rw [if_neg hp] at h
    have hpen : cx.it.ty = Ty.penalty → cx.it.width = 0 := by
      intro ht
      simp only [ht, decide_true, Bool.true_and, Bool.not_eq_true', Bool.not_eq_false, bne_iff_ne, ne_eq,
        Bool.not_eq_true, beq_eq_false_iff_ne, not_not, k0, beq_iff_eq] at hp
      simpa using hp
    apply tooLong_imp cx.P cx.lineW cx.it cx.W cx.Y cx.Z a.d.w a.d.y a.d.z hpen hY hZ hinf hW
    unfold TooLong
    cases hr : adjRatio0 cx.P cx.lineW cx.it cx.W cx.Y cx.Z a.d.w a.d.y a.d.z with
    | none => exact Or.inl rfl
    | some r =>
      rw [hr] at h
      exact Or.inr ⟨r, rfl, by simpa using h⟩

end field
end Canvas.C17
