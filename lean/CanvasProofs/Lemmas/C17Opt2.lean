import CanvasProofs.Lemmas.C17Opt1
/-! C17, towards `optimal`, part 2: `mainLoop` keeps every node that is not deactivated, and creates a
dominating breakpoint for every feasible candidate (over all line groups). -/
set_option linter.unusedSectionVars false
set_option linter.unusedVariables false
namespace Canvas.C17

section
variable {α : Type} [Add α] [Sub α] [Mul α] [Div α] [Neg α] [LT α] [LE α] [BEq α]
  [DecidableLT α] [DecidableLE α] [NatCast α]

theorem stepNode_act_mono (cx : Ctx α) (a : Node α) (g : Grp α) (o : MOut α) (n : Node α) (h : n ∈ o.act) :
    n ∈ (stepNode cx a g o).2.act := by
  rcases stepNode_lists cx a g o with ⟨e1, _, _⟩ | ⟨e1, _⟩
  · rw [e1]; exact List.mem_append_left _ h
  · rw [e1]; exact h

theorem mainGo_act_mono (cx : Ctx α) (width : α) (s : α × α × α) (n : Node α) :
    ∀ (l : List (Node α)) (g : Grp α) (o : MOut α), n ∈ o.act → n ∈ (mainGo cx width s l g o).act := by
  intro l
  induction l with
  | nil => intro g o h; simp only [mainGo]; exact (flush_spec cx width s g o).2.2.2 n h
  | cons a rest ih =>
    intro g o h
    simp only [mainGo]
    have h1 := stepNode_act_mono cx a g o n h
    cases rest with
    | nil => exact (flush_spec cx width s _ _).2.2.2 n h1
    | cons nx rest' =>
      simp only
      split
      · exact ih _ _ ((flush_spec cx width s _ _).2.2.2 n h1)
      · exact ih _ _ h1

theorem stepNode_keeps (cx : Ctx α) (a : Node α) (g : Grp α) (o : MOut α)
    (h : deactivates cx a (adjRatio cx.P cx.lineW cx.it cx.W cx.Y cx.Z a.d.w a.d.y a.d.z) = false) :
    a ∈ (stepNode cx a g o).2.act := by
  unfold stepNode
  cases hr : adjRatio cx.P cx.lineW cx.it cx.W cx.Y cx.Z a.d.w a.d.y a.d.z with
  | none =>
    rw [hr] at h
    simp only [moveNode, h]
    simp
  | some r =>
    rw [hr] at h
    simp only
    rw [(updTol_lists cx r _).1]
    simp only [moveNode, h]
    simp

/-- a node that is not deactivated stays in the active list -/
theorem mainGo_keeps (cx : Ctx α) (width : α) (s : α × α × α) (a : Node α)
    (h : deactivates cx a (adjRatio cx.P cx.lineW cx.it cx.W cx.Y cx.Z a.d.w a.d.y a.d.z) = false) :
    ∀ (l : List (Node α)) (g : Grp α) (o : MOut α), a ∈ l → a ∈ (mainGo cx width s l g o).act := by
  intro l
  induction l with
  | nil => intro g o h; cases h
  | cons x rest ih =>
    intro g o hm
    simp only [mainGo]
    rcases List.mem_cons.mp hm with rfl | hm
    · have h1 := stepNode_keeps cx a g o h
      cases rest with
      | nil => exact (flush_spec cx width s _ _).2.2.2 a h1
      | cons nx rest' =>
        simp only
        split
        · exact mainGo_act_mono cx width s a _ _ _ ((flush_spec cx width s _ _).2.2.2 a h1)
        · exact mainGo_act_mono cx width s a _ _ _ h1
    · cases rest with
      | nil => cases hm
      | cons nx rest' =>
        simp only
        split
        · exact ih _ _ hm
        · exact ih _ _ hm

end

section field
variable {K : Type} [Field K] [LinearOrder K] [IsStrictOrderedRing K]

theorem stepNode_slotInv (cx : Ctx K) (x : Node K) (g : Grp K) (o : MOut K) (proc : List (Node K))
    (hI : SlotInv cx g proc) : SlotInv cx (stepNode cx x g o).1 (x :: proc) := by
  unfold stepNode
  cases hr : adjRatio cx.P cx.lineW cx.it cx.W cx.Y cx.Z x.d.w x.d.y x.d.z with
  | none =>
    simp only
    refine ⟨hI.len, hI.cls, ?_, hI.dminLe, hI.dminAt⟩
    intro a ha r hr' hf
    rcases List.mem_cons.mp ha with rfl | ha
    · rw [hr] at hr'; cases hr'
    · exact hI.best a ha r hr' hf
  | some r => exact updGrp_inv cx g proc x r hr hI

/-- pruning is safe: every feasible candidate is dominated by a breakpoint that `mainLoop` creates -/
theorem mainGo_dom (cx : Ctx K) (width : K) (s : K × K × K) (hDF : 0 ≤ cx.P.demFitness) :
    ∀ (l : List (Node K)) (g : Grp K) (o : MOut K) (proc : List (Node K)), SlotInv cx g proc →
      ∀ a, (a ∈ proc ∨ a ∈ l) → ∀ r, adjRatio cx.P cx.lineW cx.it cx.W cx.Y cx.Z a.d.w a.d.y a.d.z = some r →
        feasibleR cx r = true → ∃ n', n' ∈ (mainGo cx width s l g o).act ∧ DomNode cx width s n' a r := by
  intro l
  induction l with
  | nil =>
    intro g o proc hI a ha r hr hf
    simp only [mainGo]
    rcases ha with ha | ha
    · exact flush_dom cx width s g o proc hDF hI a ha r hr hf
    · cases ha
  | cons x rest ih =>
    intro g o proc hI a ha r hr hf
    simp only [mainGo]
    have hI1 := stepNode_slotInv cx x g o proc hI
    have ha1 : a ∈ x :: proc ∨ a ∈ rest := by
      rcases ha with ha | ha
      · exact Or.inl (List.mem_cons_of_mem _ ha)
      · rcases List.mem_cons.mp ha with rfl | ha
        · exact Or.inl List.mem_cons_self
        · exact Or.inr ha
    cases rest with
    | nil =>
      rcases ha1 with h | h
      · exact flush_dom cx width s _ _ (x :: proc) hDF hI1 a h r hr hf
      · cases h
    | cons nx rest' =>
      simp only
      split
      · -- the group ends here
        rcases ha1 with h | h
        · obtain ⟨n', hn', hd⟩ := flush_dom cx width s (stepNode cx x g o).1 (stepNode cx x g o).2 (x :: proc) hDF hI1 a h r hr hf
          exact ⟨n', mainGo_act_mono cx width s n' _ _ _ hn', hd⟩
        · exact ih emptyGrp _ [] (slotInv_empty cx) a (Or.inr h) r hr hf
      · exact ih _ _ (x :: proc) hI1 a ha1 r hr hf

end field
end Canvas.C17
