import CanvasProofs.Lemmas.C06Boundary
import CanvasProofs.Lemmas.C06Ccw
set_option linter.unusedSimpArgs false
set_option linter.unusedVariables false

/-! # C06 — whole-path queries, Filling's inner loop, Crossings, and the Lean verdict -/
namespace Canvas.C06
open Canvas.Wn

theorem getLast_append_self (a : IPt) (r : List IPt) :
    (a :: (r ++ [a])).getLast (by simp) = a := by
  rw [List.getLast_cons (by simp)]; simp

/-- the rotation fires on a list that starts with a start-hit and ends with an end-hit of the start vertex -/
theorem rotateStart_fire (p v0 : IPt) (z0 e : Hit) (t : List Hit) (h0 : z0.tb = .zero) (h1 : e.tb = .one)
    (hy : v0.y = p.y) (hx0 : z0.x = (v0.x : Rat)) (hx1 : e.x = (v0.x : Rat)) :
    rotateStart p v0 (z0 :: (t ++ [e])) = e :: z0 :: t := by
  have hg : (z0 :: (t ++ [e])).getLast? = some e := by
    have : z0 :: (t ++ [e]) = (z0 :: t) ++ [e] := by simp
    rw [this, List.getLast?_concat]
  have hd : (z0 :: (t ++ [e])).dropLast = z0 :: t := by
    have : z0 :: (t ++ [e]) = (z0 :: t) ++ [e] := by simp
    rw [this, List.dropLast_concat]
  cases t with
  | nil =>
    simp only [List.nil_append] at hg hd ⊢
    simp only [rotateStart, hg, h0, h1, hy, hx0, hx1, and_self, if_true, hd]
  | cons t1 t' =>
    simp only [List.cons_append] at hg hd ⊢
    simp only [rotateStart, hg, h0, h1, hy, hx0, hx1, and_self, if_true, hd]

/-- when the rotation changes the list, the start vertex lies on the ray's line and the moved hit is at it -/
theorem rotateStart_changes (p v0 : IPt) (hs : List Hit) (h : rotateStart p v0 hs ≠ hs) :
    v0.y = p.y ∧ ∃ hl ∈ hs, hl.x = (v0.x : Rat) := by
  unfold rotateStart at h
  split at h
  · split at h
    · rename_i hl hget
      split at h
      · rename_i hc
        obtain ⟨ys, hys⟩ := List.getLast?_eq_some_iff.mp hget
        exact ⟨hc.2.2.1, hl, by rw [hys]; simp, hc.2.2.2.2⟩
      · exact absurd rfl h
    · exact absurd rfl h
  · exact absurd rfl h

theorem W_rotateStart (p v0 : IPt) (hs : List Hit) :
    W ((rotateStart p v0 hs).map Hit.z) = W (hs.map Hit.z) ∧
    nsame ((rotateStart p v0 hs).map Hit.z) = nsame (hs.map Hit.z) := by
  rcases rotateStart_cases p v0 hs with h | ⟨ys, hl, h1, h2⟩
  · rw [h]; exact ⟨rfl, rfl⟩
  · rw [h2, h1]
    simp only [List.map_cons, List.map_append, List.map_nil, W_append, nsame_append, W, nsame]
    constructor <;> omega

theorem chainHits_dup_last (p a : IPt) (l : List IPt) :
    chainHits p (l ++ [a, a]) = chainHits p (l ++ [a]) := by
  induction l with
  | nil => simp [chainHits, edgeHits_self]
  | cons x l ih =>
    cases l with
    | nil => simp [chainHits, edgeHits_self]
    | cons y l' =>
      simp only [List.cons_append, chainHits] at ih ⊢
      rw [ih]

theorem chainW_dup_last (p a : IPt) (l : List IPt) :
    chainW p (l ++ [a, a]) = chainW p (l ++ [a]) := by
  induction l with
  | nil => simp [chainW, edgeW_self]
  | cons x l ih =>
    cases l with
    | nil => simp [chainW, edgeW_self]
    | cons y l' =>
      simp only [List.cons_append, chainW] at ih ⊢
      rw [ih]

theorem offChain_dup_last (p a : IPt) (l : List IPt) (h : offChain p (l ++ [a, a])) :
    offChain p (l ++ [a]) := by
  induction l with
  | nil => simp [offChain]
  | cons x l ih =>
    cases l with
    | nil => simp only [List.cons_append, List.nil_append, offChain] at h ⊢; exact ⟨h.1, trivial⟩
    | cons y l' =>
      simp only [List.cons_append, offChain] at h ih ⊢
      exact ⟨h.1, ih h.2⟩

/-- the finishing step: a walk-paired sorted list of the (possibly rotated) hits evaluates to the
winding number -/
theorem windingsSub_of_WP (p a : IPt) (r : List IPt)
    (hoff : offChain p (a :: (r ++ [a])))
    (hwp : WP (isort (rotateStart p a (chainHits p (a :: (r ++ [a]))))) = true) :
    windingsSub true p (a :: r) = .ok (wn1 p (a :: r)) false := by
  have hv : subpathVerts true (a :: r) = a :: (r ++ [a]) := by simp [subpathVerts]
  have hclean : Clean ((isort (rotateStart p a (chainHits p (a :: (r ++ [a]))))).map Hit.z) := by
    intro z hz
    obtain ⟨h, hh, rfl⟩ := List.mem_map.mp hz
    have := chain_clean p (r ++ [a]) a hoff h ((mem_rotateStart p a _ h).mp ((mem_isort h _).mp hh))
    refine ⟨this.1, fun hs => ?_⟩
    have := this.2 hs
    simp [Hit.z, this]
  obtain ⟨m, hm, hval⟩ := go_weight _ 0 false (false, false) (WPz_of_WP _ hwp) hclean
  have hpar : ((false, false).1 !=
      decide (nsame ((isort (rotateStart p a (chainHits p (a :: (r ++ [a]))))).map Hit.z) % 2 = 1)) = false := by
    rw [nsame_isort, (W_rotateStart p a _).2]
    have := chain_nsame p (r ++ [a]) a hoff
    simp; omega
  have h2 := hval hpar
  rw [W_isort, (W_rotateStart p a _).1, chain_W p (r ++ [a]) a hoff, getLast_append_self] at h2
  simp only [phi] at h2
  have hm' : m = wn1 p (a :: r) := by
    simp only [wn1]
    have : a :: r ++ [a] = a :: (r ++ [a]) := by simp
    rw [this]; simp at h2; omega
  simp only [windingsSub, rayHits, subHits, if_true, windings, hv]
  rw [hm, hm']

/-- Closed flat subpath, query point on no segment: the model of `windings(RayIntersections)` returns
the winding number and reports no boundary — vertices and horizontal edges on the ray, the START
vertex on the ray (847036a) and self-intersections included. -/
theorem windingsSub_refines (p a : IPt) (r : List IPt)
    (hoff : offChain p (subpathVerts true (a :: r))) :
    windingsSub true p (a :: r) = .ok (wn1 p (a :: r)) false := by
  have hv : ∀ r, subpathVerts true (a :: r) = a :: (r ++ [a]) := by intro r; simp [subpathVerts]
  rw [hv] at hoff
  induction hn : r.length using Nat.strong_induction_on generalizing r with
  | _ n ih =>
    by_cases hstart : fR p a = true
    · -- the start vertex lies on the ray
      have hy : a.y = p.y := by simp [fR] at hstart; exact hstart.1
      rcases List.eq_nil_or_concat r with rfl | ⟨r', c, rfl⟩
      · apply windingsSub_of_WP p a [] hoff
        simp [chainHits, edgeHits_self, rotateStart, isort, WP]
      · simp only [List.concat_eq_append] at hoff hn ⊢
        by_cases hca : c = a
        · -- the last vertex repeats the first: same hits, same winding number as without it
          subst hca
          have e1 : c :: (r' ++ [c] ++ [c]) = (c :: r') ++ [c, c] := by simp
          have e2 : c :: (r' ++ [c]) = (c :: r') ++ [c] := by simp
          have hoff' : offChain p (c :: (r' ++ [c])) := by
            rw [e2]; apply offChain_dup_last; rw [← e1]; exact hoff
          have hsmall := ih r'.length (by rw [← hn]; simp) r' hoff' rfl
          have hH : chainHits p (c :: (r' ++ [c] ++ [c])) = chainHits p (c :: (r' ++ [c])) := by
            rw [e1, e2]; exact chainHits_dup_last p c (c :: r')
          have hWn : wn1 p (c :: (r' ++ [c])) = wn1 p (c :: r') := by
            simp only [wn1]
            have e3 : c :: (r' ++ [c]) ++ [c] = (c :: r') ++ [c, c] := by simp
            have e4 : c :: r' ++ [c] = (c :: r') ++ [c] := by simp
            rw [e3, e4]; exact chainW_dup_last p c (c :: r')
          simp only [windingsSub, rayHits, subHits, if_true, hv] at hsmall ⊢
          rw [hH, hWn]; exact hsmall
        · have hex : ∃ l c', a :: (r' ++ [c] ++ [a]) = l ++ [c', a] ∧ c' ≠ a :=
            ⟨a :: r', c, by simp, hca⟩
          obtain ⟨body, e, hH, he1, he2, hA, _⟩ := chain_WP_last p a hstart (r' ++ [c] ++ [a]) a hex hoff
          obtain ⟨z0, t, hb, hz0, hx0, hwt⟩ := hA hstart
          apply windingsSub_of_WP p a (r' ++ [c]) hoff
          rw [hH, hb]
          have : z0 :: t ++ [e] = z0 :: (t ++ [e]) := by simp
          rw [this, rotateStart_fire p a z0 e t hz0 he1 hy hx0 he2]
          simp only [isort]
          exact WP_ins_pair e z0 (by simp [he1]) (by simp [hz0]) (by rw [hx0, he2]) (rat_irrefl _) _ hwt
    · -- the start vertex is not on the ray: the rotation does not fire
      have hstart' : fR p a = false := by simpa using hstart
      apply windingsSub_of_WP p a r hoff
      have hid : rotateStart p a (chainHits p (a :: (r ++ [a]))) = chainHits p (a :: (r ++ [a])) := by
        by_contra hne
        obtain ⟨hy, hl, hmem, hx⟩ := rotateStart_changes p a _ hne
        have hb := (chain_boundary p (a :: (r ++ [a]))).1 hl hmem
        have hc := chain_clean p (r ++ [a]) a hoff hl hmem
        have hne' : hl.x ≠ (p.x : Rat) := by
          intro heq
          have := hb.2.mpr heq
          rw [hc.1] at this; exact absurd this (by simp)
        have hlt : (p.x : Rat) < (a.x : Rat) := by
          rw [← hx]; exact lt_of_le_of_ne hb.1 (Ne.symm hne')
        have : p.x < a.x := by exact_mod_cast hlt
        have : fR p a = true := by simp [fR, hy, this]
        rw [hstart'] at this; exact absurd this (by simp)
      rw [hid]
      have hlast : fR p ((a :: (r ++ [a])).getLast (by simp)) = false := by
        rw [getLast_append_self]; exact hstart'
      exact (chain_WP p (r ++ [a]) a hoff hlast).2 hstart'

/-- a closed subpath with the query point on none of its segments -/
def GoodSub (p : IPt) (s : Sub) : Prop :=
  s.1 = true ∧ ∃ a r, s.2 = a :: r ∧ offChain p (subpathVerts true (a :: r))

theorem windingsSub_good (p : IPt) (s : Sub) (h : GoodSub p s) :
    windingsSub s.1 p s.2 = .ok (wn1 p s.2) false := by
  obtain ⟨hc, a, r, hs, hoff⟩ := h
  rw [hc, hs]; exact windingsSub_refines p a r hoff

theorem wn_cons (p : IPt) (c : List IPt) (cs : List (List IPt)) :
    wn p (c :: cs) = wn1 p c + wn p cs := by
  simp only [wn, List.map_cons, List.foldl_cons]
  rw [foldl_add_acc]; omega

theorem windingsPathGo_refines (p : IPt) (subs : List Sub) (h : ∀ s ∈ subs, GoodSub p s) (n : Int) :
    windingsPathGo p subs n false = .ok (n + wn p (subs.map (·.2))) false := by
  induction subs generalizing n with
  | nil => simp [windingsPathGo, wn]
  | cons s rest ih =>
    simp only [windingsPathGo, windingsSub_good p s (h s (by simp))]
    simp only [Bool.false_eq_true, if_false, List.map_cons, wn_cons]
    rw [ih (fun s hs => h s (by simp [hs]))]
    congr 1; omega

/-- Filling's inner loop adds up the winding numbers of the other subpaths around `pos` -/
theorem othersGo_refines (pos : IPt) (i : Nat) (subs : List Sub) (j : Nat) (n : Int)
    (h : ∀ k (hk : k < subs.length), j + k ≠ i → GoodSub pos subs[k]) :
    othersGo pos i subs j n = n + wnOthers pos i (subs.map (·.2)) j := by
  induction subs generalizing j n with
  | nil => simp [othersGo, wnOthers]
  | cons s rest ih =>
    have hrest : ∀ k (hk : k < rest.length), (j + 1) + k ≠ i → GoodSub pos rest[k] := by
      intro k hk hne
      have := h (k + 1) (by simp; omega) (by omega)
      simpa using this
    simp only [othersGo, List.map_cons, wnOthers]
    by_cases hij : i = j
    · subst hij
      simp only [beq_self_eq_true, if_true]
      rw [ih (i + 1) n hrest]; simp
    · have hb : (i == j) = false := by simpa using hij
      have hg : GoodSub pos s := by
        have := h 0 (by simp) (by omega)
        simpa using this
      have hs1 : s.1 = true := hg.1
      have hgood := windingsSub_good pos s hg
      rw [hs1] at hgood
      simp only [hb, Bool.false_eq_true, if_false, hs1, if_true, hgood]
      rw [ih (j + 1) _ hrest]
      omega

/-! ### the Lean verdict on reported winding numbers -/

/-- Soundness: an `ok` verdict means every judged point (farther than δ from the path) was reported
with exactly the specification's winding number. -/
theorem judgeWind_sound (P : List (List IPt)) (d2 : Int) (pts : List IPt) (reps : List Int)
    (idx c s c' s' : Nat) (h : judgeWind P d2 pts reps idx c s = .ok c' s') :
    ∀ pr ∈ pts.zip reps, farFromAll pr.1 d2 P = true → wn pr.1 P = pr.2 := by
  fun_induction judgeWind P d2 pts reps idx c s with
  | case1 p pts r reps idx c s hfar hne => simp at h
  | case2 p pts r reps idx c s hfar hne ih =>
    intro pr hpr hf
    simp only [List.zip_cons_cons, List.mem_cons] at hpr
    rcases hpr with hpr | hpr
    · subst hpr; simpa using hne
    · exact ih h pr hpr hf
  | case3 p pts r reps idx c s hfar ih =>
    intro pr hpr hf
    simp only [List.zip_cons_cons, List.mem_cons] at hpr
    rcases hpr with hpr | hpr
    · subst hpr; simp [hf] at hfar
    · exact ih h pr hpr hf
  | case4 pts reps idx c s hx =>
    intro pr hpr
    cases pts with
    | nil => simp at hpr
    | cons p pts =>
      cases reps with
      | nil => simp at hpr
      | cons r reps => exact (hx p pts r reps rfl rfl).elim

/-- Completeness: a `fail` verdict exhibits a judged point whose reported value differs -/
theorem judgeWind_fail (P : List (List IPt)) (d2 : Int) (pts : List IPt) (reps : List Int)
    (idx c s i : Nat) (w r : Int) (h : judgeWind P d2 pts reps idx c s = .fail i w r) :
    ∃ pr ∈ pts.zip reps, farFromAll pr.1 d2 P = true ∧ wn pr.1 P = w ∧ pr.2 = r ∧ w ≠ r := by
  fun_induction judgeWind P d2 pts reps idx c s with
  | case1 p pts r' reps idx c s hfar hne =>
    simp only [Verdict.fail.injEq] at h
    refine ⟨(p, r'), by simp, hfar, h.2.1, h.2.2, ?_⟩
    rw [← h.2.1, ← h.2.2]; simpa using hne
  | case2 p pts r' reps idx c s hfar hne ih =>
    obtain ⟨pr, hm, hh⟩ := ih h
    exact ⟨pr, by simp [hm], hh⟩
  | case3 p pts r' reps idx c s hfar ih =>
    obtain ⟨pr, hm, hh⟩ := ih h
    exact ⟨pr, by simp [hm], hh⟩
  | case4 pts reps idx c s hx => simp at h

theorem farFromSeg_mono (p a b : IPt) (d d' : Int) (hd : d ≤ d') (h : farFromSeg p a b d' = true) :
    farFromSeg p a b d = true := by
  have hl : 0 ≤ (b.x - a.x) * (b.x - a.x) + (b.y - a.y) * (b.y - a.y) := by
    nlinarith [mul_self_nonneg (b.x - a.x), mul_self_nonneg (b.y - a.y)]
  have hm := Int.mul_le_mul_of_nonneg_right hd hl
  simp only [farFromSeg] at h ⊢
  split at h
  · rename_i hc
    rw [if_pos hc]
    simp only [decide_eq_true_eq, gt_iff_lt] at h ⊢
    omega
  · rename_i hc
    rw [if_neg hc]
    split at h
    · rename_i hc2
      rw [if_pos hc2]
      simp only [decide_eq_true_eq, gt_iff_lt] at h ⊢
      omega
    · rename_i hc2
      rw [if_neg hc2]
      simp only [decide_eq_true_eq, gt_iff_lt] at h ⊢
      exact lt_of_le_of_lt hm h

theorem farFromChain_mono (p : IPt) (d d' : Int) (hd : d ≤ d') (l : List IPt)
    (h : farFromChain p d' l = true) : farFromChain p d l = true := by
  fun_induction farFromChain p d' l with
  | case1 a b rest ih =>
    simp only [Bool.and_eq_true] at h
    simp only [farFromChain, Bool.and_eq_true]
    exact ⟨farFromSeg_mono p a b d d' hd h.1, ih h.2⟩
  | case2 l hx =>
    unfold farFromChain
    split
    · rename_i a b rest; exact absurd rfl (hx a b rest)
    · rfl

/-- Monotonicity in the tolerance: a point judged with the wider band δ' is judged with every
narrower band δ ≤ δ' (so widening the band only removes judged points). -/
theorem farFromAll_mono (p : IPt) (d d' : Int) (hd : d ≤ d') (P : List (List IPt))
    (h : farFromAll p d' P = true) : farFromAll p d P = true := by
  simp only [farFromAll, List.all_eq_true] at h ⊢
  intro poly hp
  have := h poly hp
  simp only [farFromPoly] at this ⊢
  split at this
  · rfl
  · exact farFromSeg_mono _ _ _ d d' hd this
  · exact farFromChain_mono p d d' hd _ this

end Canvas.C06
