import CanvasProofs.Lemmas.C09Invol
import CanvasProofs.Lemmas.Wn
/-! C09 helper lemmas: the winding number of the reversed flat path (exact integer coordinates),
through the laws of the L3 specification `Canvas.Wn`. -/
namespace C09L
open Canvas Canvas.Path Canvas.C09 Canvas.Wn

def toIPt (p : Pt Int) : IPt := ⟨p.x, p.y⟩

/-- vertex list of a straight subpath (the closing vertex is not repeated; `wn1` closes contours) -/
def contour (s : SubPath Int) : List IPt := (s.start :: s.segs.map Cmd.endp).map toIPt

/-- exact comparison of points -/
def eqExact (a b : Pt Int) : Bool := decide (a = b)

/-- every drawing command is a LineTo -/
def SubPath.flatLines (s : SubPath Int) : Bool := s.segs.all isLine

theorem isLine_isDraw {α : Type} (c : Cmd α) (h : isLine c = true) : c.isDraw = true := by
  cases c <;> simp_all [isLine, Cmd.isDraw]

theorem all_line_draw {α : Type} (l : List (Cmd α)) (h : l.all isLine = true) : l.all Cmd.isDraw = true := by
  rw [List.all_eq_true] at h ⊢
  exact fun c hc => isLine_isDraw c (h c hc)

/-- end points of the reversed chain: the vertex list backwards -/
theorem revChain_endps {α : Type} (a : Pt α) (cs : List (Cmd α)) :
    chainEnd a cs :: (revChain a cs).map Cmd.endp = (a :: cs.map Cmd.endp).reverse := by
  induction cs generalizing a with
  | nil => rfl
  | cons c cs ih =>
    rw [chainEnd_cons, revChain_cons, List.map_append, ← List.cons_append, ih]
    simp

theorem lastIsLine_of_all {α : Type} (l : List (Cmd α)) (hne : l ≠ []) (h : l.all isLine = true) :
    lastIsLine l = true := by
  induction l with
  | nil => exact absurd rfl hne
  | cons c cs ih =>
    simp only [List.all_cons, Bool.and_eq_true] at h
    cases cs with
    | nil => exact h.1
    | cons d ds => exact ih (by simp) h.2

theorem wn1_singleton (q p : IPt) : wn1 q [p] = 0 := by
  have := wn1_reverse q [p]
  simp only [List.reverse_singleton] at this
  omega

/-- reversing one straight subpath negates its winding number -/
theorem wn1_revSub (q : IPt) (s : SubPath Int) (hl : SubPath.flatLines s = true) (h : s.RevOK eqExact) :
    wn1 q (contour (revSub eqExact s)) = - wn1 q (contour s) := by
  obtain ⟨start, segs, closed⟩ := s
  simp only [SubPath.flatLines] at hl
  obtain ⟨_, hc⟩ := h
  cases closed with
  | false =>
    have : contour (revSub eqExact ⟨start, segs, false⟩) = (contour ⟨start, segs, false⟩).reverse := by
      simp only [contour, revSub, Bool.false_eq_true, if_false]
      rw [revChain_endps, List.map_reverse]
    rw [this, wn1_reverse]
  | true =>
    obtain ⟨hrefl, hfirst, hlast, _⟩ := hc rfl
    simp only at hrefl hfirst hlast
    cases segs with
    | nil =>
      rw [revSub_closed_pos eqExact start [] hrefl]
      simp [contour, revClosedBody, wn1_singleton]
    | cons c1 rest =>
      simp only [List.all_cons, Bool.and_eq_true] at hl
      have hne : eqExact start (chainEnd start (c1 :: rest)) = false :=
        hlast (lastIsLine_of_all _ (by simp) (by simp [hl.1, hl.2]))
      rw [revSub_closed_neg eqExact _ _ hne, revClosedBody_line _ _ _ hl.1]
      have e1 : contour ⟨start, Cmd.line (chainEnd start (c1 :: rest)) :: revChain c1.endp rest, true⟩
          = toIPt start :: ((c1.endp :: rest.map Cmd.endp).reverse).map toIPt := by
        simp only [contour, List.map_cons, Cmd.endp, chainEnd_cons]
        rw [← List.map_cons, revChain_endps]
      have e2 : contour ⟨start, c1 :: rest, true⟩ = toIPt start :: (c1.endp :: rest.map Cmd.endp).map toIPt := by
        simp [contour]
      rw [e1, e2, List.map_reverse, ← wn1_rotate, ← wn1_reverse]
      simp

theorem wn_list_reverse (q : IPt) (l : List (List IPt)) : wn q l.reverse = wn q l := by
  induction l with
  | nil => rfl
  | cons x xs ih =>
    rw [List.reverse_cons, wn_append, ih]
    have := wn_append q [x] xs
    simp only [List.singleton_append] at this
    omega

theorem wn_map_neg (q : IPt) (f g : SubPath Int → List IPt) (l : List (SubPath Int))
    (h : ∀ s ∈ l, wn1 q (f s) = - wn1 q (g s)) : wn q (l.map f) = - wn q (l.map g) := by
  induction l with
  | nil => rfl
  | cons x xs ih =>
    have a1 := wn_append q [f x] (xs.map f)
    have a2 := wn_append q [g x] (xs.map g)
    simp only [List.singleton_append] at a1 a2
    have hx := h x (by simp)
    have hw : ∀ c : List IPt, wn q [c] = wn1 q c := fun c => by simp [wn]
    rw [List.map_cons, List.map_cons, a1, a2, ih (fun s hs => h s (by simp [hs])), hw, hw, hx]
    omega

/-- `Reverse` negates the winding number of a flat structured path around every point -/
theorem wn_reverse_flat (q : IPt) (subs : List (SubPath Int))
    (hl : ∀ s ∈ subs, SubPath.flatLines s = true) (h : ∀ s ∈ subs, s.RevOK eqExact) :
    wn q (((subs.map (revSub eqExact)).reverse).map contour) = - wn q (subs.map contour) := by
  rw [List.map_reverse, wn_list_reverse, List.map_map]
  exact wn_map_neg q (contour ∘ revSub eqExact) contour subs
    (fun s hs => wn1_revSub q s (hl s hs) (h s hs))

end C09L
