import CanvasProofs.Lemmas.C09Chain
/-! C09 helper lemmas: the backward loop of `Reverse` on a structured path. Core Lean only. -/
namespace C09L
open Canvas Canvas.Path Canvas.C09
variable {α : Type}

/-- reversed chain read off a newest-first list, exactly as the loop produces it -/
def revChainR (a : Pt α) : List (Cmd α) → List (Cmd α)
  | [] => []
  | c :: r => retarget c (headEnd a r) :: revChainR a r

theorem headEnd_append_move (z a : Pt α) (r older : List (Cmd α)) :
    headEnd z (r ++ .move a :: older) = headEnd a r := by
  cases r <;> rfl

theorem headEnd_reverse (a : Pt α) (l : List (Cmd α)) : headEnd a l.reverse = chainEnd a l := by
  induction l using rev_ind with
  | nil => rfl
  | snoc xs y _ => simp [headEnd]

theorem revChainR_reverse (a : Pt α) (l : List (Cmd α)) : revChainR a l.reverse = revChain a l := by
  induction l using rev_ind with
  | nil => rfl
  | snoc xs y ih =>
    rw [List.reverse_append, List.reverse_singleton, List.singleton_append, revChainR, ih,
      headEnd_reverse, revChain_snoc]

variable (eq : Pt α → Pt α → Bool) (z : Pt α)

/-- one step of the loop on a drawing command while no Close is pending -/
theorem revLoop_draw_open (first : Pt α) (c : Cmd α) (rest : RPath α) (hc : c.isDraw = true) :
    revLoop eq z false first (c :: rest) = retarget c (headEnd z rest) :: revLoop eq z false first rest := by
  cases c <;> simp_all [revLoop, retarget, Cmd.isDraw]

/-- one step on a drawing command while a Close is pending and the record before is not a MoveTo -/
theorem revLoop_draw_closed (first : Pt α) (c : Cmd α) (rest : RPath α) (hc : c.isDraw = true)
    (hr : prevIsMoveOrNone rest = false) :
    revLoop eq z true first (c :: rest) = retarget c (headEnd z rest) :: revLoop eq z true first rest := by
  cases c <;> simp_all [revLoop, retarget, Cmd.isDraw]

/-- the oldest drawing command of a closed subpath -/
theorem revLoop_draw_closed_last (first a : Pt α) (c : Cmd α) (older : RPath α) (hc : c.isDraw = true) :
    revLoop eq z true first (c :: .move a :: older) =
      if isLine c then .close first :: revLoop eq z false first (.move a :: older)
      else retarget c a :: revLoop eq z true first (.move a :: older) := by
  cases c <;> simp_all [revLoop, retarget, Cmd.isDraw, isLine, prevIsMoveOrNone, Cmd.isMove, headEnd, Cmd.endp]

/-- an open run of drawing commands -/
theorem revLoop_open (first a : Pt α) (rs older : List (Cmd α)) (h : rs.all Cmd.isDraw = true) :
    revLoop eq z false first (rs ++ .move a :: older) =
      revChainR a rs ++ revLoop eq z false first (.move a :: older) := by
  induction rs with
  | nil => rfl
  | cons c r ih =>
    simp only [List.all_cons, Bool.and_eq_true] at h
    rw [List.cons_append, revLoop_draw_open eq z first c _ h.1, ih h.2, headEnd_append_move]
    rfl

/-- what the loop emits for the drawing commands of a closed subpath (newest first) -/
def closedOut (a first : Pt α) : List (Cmd α) → List (Cmd α)
  | [] => []
  | [c] => if isLine c then [.close first] else [retarget c a]
  | c :: d :: r => retarget c d.endp :: closedOut a first (d :: r)

/-- is the Close still pending when the loop reaches the MoveTo -/
def stillClosed : List (Cmd α) → Bool
  | [] => true
  | [c] => !isLine c
  | _ :: d :: r => stillClosed (d :: r)

theorem revLoop_closed (first a : Pt α) (rs older : List (Cmd α)) (h : rs.all Cmd.isDraw = true) :
    revLoop eq z true first (rs ++ .move a :: older) =
      closedOut a first rs ++ revLoop eq z (stillClosed rs) first (.move a :: older) := by
  induction rs with
  | nil => rfl
  | cons c r ih =>
    simp only [List.all_cons, Bool.and_eq_true] at h
    cases r with
    | nil =>
      rw [List.cons_append, List.nil_append, revLoop_draw_closed_last eq z first a c older h.1]
      by_cases hl : isLine c = true
      · simp [closedOut, stillClosed, hl]
      · simp [closedOut, stillClosed, hl]
    | cons d r' =>
      have hd : d.isDraw = true := by
        have := h.2; simp only [List.all_cons, Bool.and_eq_true] at this; exact this.1
      have hp : prevIsMoveOrNone (d :: r' ++ .move a :: older) = false := by
        simp [prevIsMoveOrNone, isDraw_not_move d hd]
      rw [List.cons_append, revLoop_draw_closed eq z first c _ h.1 hp, ih h.2]
      simp [closedOut, stillClosed, headEnd]

theorem closedOut_cons (a first : Pt α) (c : Cmd α) (l : List (Cmd α)) (h : l ≠ []) :
    closedOut a first (c :: l) = retarget c (headEnd a l) :: closedOut a first l := by
  cases l with
  | nil => exact absurd rfl h
  | cons d r => rfl

theorem stillClosed_cons (c : Cmd α) (l : List (Cmd α)) (h : l ≠ []) :
    stillClosed (c :: l) = stillClosed l := by
  cases l with
  | nil => exact absurd rfl h
  | cons d r => rfl

/-- `closedOut` in terms of the forward chain: a first LineTo becomes the Close -/
theorem closedOut_reverse (a first : Pt α) (c1 : Cmd α) (rest : List (Cmd α)) :
    closedOut a first (c1 :: rest).reverse =
      if isLine c1 then revChain c1.endp rest ++ [.close first] else revChain a (c1 :: rest) := by
  induction rest using rev_ind with
  | nil => by_cases h : isLine c1 = true <;> simp [closedOut, h]
  | snoc xs y ih =>
    have e : (c1 :: (xs ++ [y])).reverse = y :: (c1 :: xs).reverse := by simp
    rw [e, closedOut_cons _ _ _ _ (by simp), ih, headEnd_reverse]
    by_cases h : isLine c1 = true
    · simp [h, revChain_snoc]
    · have : c1 :: (xs ++ [y]) = (c1 :: xs) ++ [y] := rfl
      simp only [h, if_false, Bool.false_eq_true]
      rw [this, revChain_snoc]

theorem stillClosed_reverse (c1 : Cmd α) (rest : List (Cmd α)) :
    stillClosed (c1 :: rest).reverse = !isLine c1 := by
  induction rest using rev_ind with
  | nil => rfl
  | snoc xs y ih =>
    have e : (c1 :: (xs ++ [y])).reverse = y :: (c1 :: xs).reverse := by simp
    rw [e, stillClosed_cons _ _ (by simp), ih]

/-- the loop at a MoveTo: the rest is `Reverse` of the older part -/
theorem revLoop_move (cl : Bool) (first a : Pt α) (older : RPath α) :
    revLoop eq z cl first (.move a :: older) =
      (if cl then [.close first] else []) ++ reverseF eq z older := by
  cases older with
  | nil => simp [revLoop, reverseF]
  | cons c r => simp [revLoop, reverseF, headEnd]

end C09L
