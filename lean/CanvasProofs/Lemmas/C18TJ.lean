import CanvasModel.C18
import Mathlib.Tactic.Linarith
/-! Helper lemmas for C18 (d): truncating division bounds for the TJ / W rounding arithmetic. -/
namespace C18L
open Canvas.C18

/-- truncating division: quotient and remainder, remainder has the sign of the dividend -/
theorem tdiv_bounds_nonneg (a b : Int) (ha : 0 ≤ a) (hb : 0 < b) :
    b * a.tdiv b ≤ a ∧ a < b * a.tdiv b + b := by
  have h1 := Int.mul_tdiv_add_tmod a b
  have h2 := Int.tmod_nonneg b ha
  have h3 := Int.tmod_lt_of_pos a hb
  constructor <;> linarith

theorem tdiv_bounds_neg (a b : Int) (ha : a < 0) (hb : 0 < b) :
    b * a.tdiv b - b < a ∧ a ≤ b * a.tdiv b := by
  have h1 := Int.mul_tdiv_add_tmod a b
  have h2 : 0 ≤ (-a).tmod b := Int.tmod_nonneg b (by linarith)
  have h3 := Int.tmod_lt_of_pos (-a) hb
  rw [Int.neg_tmod] at h2 h3
  constructor <;> linarith

end C18L
