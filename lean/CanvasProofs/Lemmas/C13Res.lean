import CanvasProofs.Lemmas.C13Pages

/-! C13: page-local resource names — every name the resource operators emit into a page's content
stream is defined in THAT page's resource dictionaries, for any history over any number of pages. -/
namespace C13L
open Canvas.C13

/-- every recorded use of a resource name on the page is defined by the page's own resources -/
def PageOK (p : Page) : Prop := ∀ u ∈ p.uses, u.2 ∈ p.names u.1

theorem ok_of {p p' : Page} (h : PageOK p) (hn : ∀ cat x, x ∈ p.names cat → x ∈ p'.names cat)
    (hu : ∀ u ∈ p'.uses, u ∈ p.uses ∨ u.2 ∈ p'.names u.1) : PageOK p' := by
  intro u hu'
  rcases hu u hu' with h1 | h1
  · exact hn _ _ (h u h1)
  · exact h1

/-- the resource maps of `p'` extend those of `p` -/
structure Grows (p p' : Page) : Prop where
  fonts : ∀ x ∈ p.fonts.map (·.1), x ∈ p'.fonts.map (·.1)
  gstates : ∀ x ∈ p.gstates.map (·.2.1), x ∈ p'.gstates.map (·.2.1)
  xobjs : ∀ x ∈ p.xobjs.map (·.1), x ∈ p'.xobjs.map (·.1)
  patterns : ∀ x ∈ p.patterns.map (·.2.1), x ∈ p'.patterns.map (·.2.1)

theorem names_mono {p p' : Page} (g : Grows p p') (cat : Nat) (x : Bytes) (hx : x ∈ p.names cat) : x ∈ p'.names cat := by
  match cat with
  | 0 => exact g.fonts x hx
  | 1 => exact g.gstates x hx
  | 2 => exact g.xobjs x hx
  | 3 => exact g.patterns x hx
  | n + 4 => simp [Page.names] at hx

theorem ok_grow {p p' : Page} (h : PageOK p) (g : Grows p p')
    (hu : ∀ u ∈ p'.uses, u ∈ p.uses ∨ u.2 ∈ p'.names u.1) : PageOK p' :=
  ok_of h (names_mono g) hu

theorem grows_refl_of (p p' : Page) (h1 : p'.fonts = p.fonts) (h2 : p'.gstates = p.gstates) (h3 : p'.xobjs = p.xobjs)
    (h4 : p'.patterns = p.patterns) : Grows p p' :=
  ⟨by rw [h1]; exact fun _ h => h, by rw [h2]; exact fun _ h => h, by rw [h3]; exact fun _ h => h, by rw [h4]; exact fun _ h => h⟩

theorem ok_write {p : Page} (b : Bytes) (h : PageOK p) : PageOK (p.write b) :=
  ok_grow h (grows_refl_of _ _ rfl rfl rfl rfl) (fun u hu => Or.inl hu)

theorem ok_setAlpha {p : Page} (k pr : Bytes) (h : PageOK p) : PageOK (p.setAlpha k pr) := by
  unfold Page.setAlpha
  split
  · exact h
  · split
    · next a n c heq =>
      have hmem : (a, n, c) ∈ p.gstates := List.mem_of_find?_eq_some heq
      refine ok_grow h (grows_refl_of _ _ rfl rfl rfl rfl) (fun u hu => ?_)
      simp only [Page.write, List.mem_append, List.mem_singleton] at hu
      rcases hu with hu | rfl
      · exact Or.inl hu
      · right
        show n ∈ p.gstates.map (·.2.1)
        exact List.mem_map.mpr ⟨(a, n, c), hmem, rfl⟩
    · refine ok_grow h ⟨fun _ h => h, fun x hx => ?_, fun _ h => h, fun _ h => h⟩ (fun u hu => ?_)
      · simp only [Page.write, List.map_append, List.mem_append]; exact Or.inl hx
      · simp only [Page.write, List.mem_append, List.mem_singleton] at hu
        rcases hu with hu | rfl
        · exact Or.inl hu
        · right
          show _ ∈ (p.gstates ++ [(k, 0x41 :: natBytes p.gstates.length, pr)]).map (fun (e : Bytes × Bytes × Bytes) => e.2.1)
          simp

theorem ok_setGradient_core (env : Env) {q : Page} (k : Bytes) (h1 : PageOK q) :
    PageOK { q with
      patterns := if (q.patterns.find? (fun e => e.1 == k)).isSome then q.patterns
                  else q.patterns ++ [(k, (match q.patterns.find? (fun e => e.1 == k) with
                                           | some (_, n, _) => n
                                           | none => 0x50 :: natBytes q.patterns.length), env.patternVals k)],
      uses := q.uses ++ [(3, (match q.patterns.find? (fun e => e.1 == k) with
                              | some (_, n, _) => n
                              | none => 0x50 :: natBytes q.patterns.length))] } := by
  cases hf : q.patterns.find? (fun e => e.1 == k) with
  | some e =>
    obtain ⟨a, n, v⟩ := e
    have hmem : (a, n, v) ∈ q.patterns := List.mem_of_find?_eq_some hf
    refine ok_grow h1 (grows_refl_of _ _ rfl rfl rfl rfl) (fun u hu => ?_)
    simp only [List.mem_append, List.mem_singleton] at hu
    rcases hu with hu | rfl
    · exact Or.inl hu
    · right
      show n ∈ q.patterns.map (·.2.1)
      exact List.mem_map.mpr ⟨(a, n, v), hmem, rfl⟩
  | none =>
    refine ok_grow h1 ⟨fun _ h => h, fun _ h => h, fun _ h => h, fun x hx => ?_⟩ (fun u hu => ?_)
    · show x ∈ (q.patterns ++ [(k, 0x50 :: natBytes q.patterns.length, env.patternVals k)]).map (fun (e : Bytes × Bytes × Val) => e.2.1)
      simp only [List.map_append, List.mem_append]; exact Or.inl hx
    · simp only [List.mem_append, List.mem_singleton] at hu
      rcases hu with hu | rfl
      · exact Or.inl hu
      · right
        show _ ∈ (q.patterns ++ [(k, 0x50 :: natBytes q.patterns.length, env.patternVals k)]).map (fun (e : Bytes × Bytes × Val) => e.2.1)
        simp

theorem ok_setGradient (env : Env) {p : Page} (st : Bool) (k a1 : Bytes) (h : PageOK p) :
    PageOK (p.setGradient env st k a1) := by
  have h1 := ok_setAlpha env.alpha1 a1 h
  unfold Page.setGradient
  simp only []
  generalize p.setAlpha env.alpha1 a1 = q at h1 ⊢
  have core := ok_setGradient_core env k h1
  cases st
  · simp only [Bool.false_eq_true, if_false]
    split
    · exact h1
    · apply ok_write
      exact ok_grow core (grows_refl_of _ _ rfl rfl rfl rfl) (fun u hu => Or.inl hu)
  · simp only [if_true]
    split
    · exact h1
    · apply ok_write
      exact ok_grow core (grows_refl_of _ _ rfl rfl rfl rfl) (fun u hu => Or.inl hu)

/-- the page `DrawImage` leaves behind -/
theorem ok_drawImage (env : Env) (s : St) {p : Page} (id : Nat) (clip cm a1 : Bytes) (h : PageOK p) :
    ∀ q, (drawImage env s p id clip cm a1).page = some q → PageOK q := by
  intro q hq
  unfold drawImage at hq
  simp only [Option.some.injEq] at hq
  subst hq
  apply ok_write
  have h0 := ok_write clip (ok_setAlpha env.alpha1 a1 h)
  refine ok_grow h0 ⟨fun _ h => h, fun _ h => h, fun x hx => ?_, fun _ h => h⟩ (fun u hu => ?_)
  · simp only [List.map_append, List.mem_append]; exact Or.inl hx
  · simp only [List.mem_append, List.mem_singleton] at hu
    rcases hu with hu | rfl
    · exact Or.inl hu
    · right
      show _ ∈ (((p.setAlpha env.alpha1 a1).write clip).xobjs ++ [_]).map (fun (e : Bytes × Nat) => e.1)
      simp

/-! ### invariant over histories -/

structure ResInv (s : St) : Prop where
  cur : ∀ p, s.page = some p → PageOK p
  done : ∀ p ∈ s.done, PageOK p

theorem getFont_page_done (s : St) (id : Nat) (vert : Bool) :
    (getFont s id vert).1.page = s.page ∧ (getFont s id vert).1.done = s.done := by
  unfold getFont
  cases vert <;> simp only [if_true, Bool.false_eq_true, if_false] <;> split <;> exact ⟨rfl, rfl⟩

theorem embedImage_done (env : Env) (s : St) (id : Nat) : (embedImage env s id).1.done = s.done := by
  unfold embedImage; split <;> rfl

theorem resinv_flush (env : Env) {s : St} (h : ResInv s) :
    (flushPage env s).page = none ∧ ∀ p ∈ (flushPage env s).done, PageOK p := by
  unfold flushPage
  cases hp : s.page with
  | none => exact ⟨by simp [hp], by simpa [hp] using h.done⟩
  | some p =>
    refine ⟨rfl, ?_⟩
    intro q hq
    simp only [List.mem_append, List.mem_singleton] at hq
    rcases hq with hq | rfl
    · exact h.done q hq
    · exact h.cur q hp

theorem resinv_step (env : Env) {s s' : St} (op : Op) (h : ResInv s) (hs : step env s op = some s') : ResInv s' := by
  cases op with
  | setCompress b => simp [step] at hs; subst hs; exact ⟨h.cur, h.done⟩
  | setMeta k rs => simp [step] at hs; subst hs; exact ⟨h.cur, h.done⟩
  | writeObj v => simp [step] at hs; subst hs; exact ⟨h.cur, h.done⟩
  | getFont id vert =>
    simp [step] at hs; subst hs
    have := getFont_page_done s id vert
    exact ⟨fun p hp => h.cur p (this.1 ▸ hp), fun p hp => h.done p (this.2 ▸ hp)⟩
  | newPage w hh cm =>
    simp [step] at hs; subst hs
    have := resinv_flush env h
    refine ⟨?_, this.2⟩
    intro p hp
    simp only [Option.some.injEq] at hp
    subst hp
    intro u hu; simp at hu
  | pageWrite bs =>
    simp [step] at hs; obtain ⟨p, hp, rfl⟩ := hs
    exact ⟨fun q hq => by simp only [Option.some.injEq] at hq; subst hq; exact ok_write bs (h.cur p hp), h.done⟩
  | setAlpha k pr =>
    simp [step] at hs; obtain ⟨p, hp, rfl⟩ := hs
    exact ⟨fun q hq => by simp only [Option.some.injEq] at hq; subst hq; exact ok_setAlpha k pr (h.cur p hp), h.done⟩
  | setGradient st k a1 =>
    simp [step] at hs; obtain ⟨p, hp, rfl⟩ := hs
    exact ⟨fun q hq => by simp only [Option.some.injEq] at hq; subst hq; exact ok_setGradient env st k a1 (h.cur p hp), h.done⟩
  | addURI u a b c d =>
    simp [step] at hs; obtain ⟨p, hp, rfl⟩ := hs
    refine ⟨fun q hq => ?_, h.done⟩
    simp only [Option.some.injEq] at hq; subst hq
    exact ok_grow (h.cur p hp) (grows_refl_of _ _ rfl rfl rfl rfl) (fun u hu => Or.inl hu)
  | startText =>
    simp only [step] at hs
    split at hs
    · simp at hs
    · next p hp =>
      split at hs
      · simp at hs
      · simp at hs; subst hs
        refine ⟨fun q hq => ?_, h.done⟩
        simp only [Option.some.injEq] at hq; subst hq
        exact ok_grow (h.cur p hp) (grows_refl_of _ _ rfl rfl rfl rfl) (fun u hu => Or.inl hu)
  | endText =>
    simp only [step] at hs
    split at hs
    · simp at hs
    · next p hp =>
      split at hs
      · simp at hs; subst hs
        refine ⟨fun q hq => ?_, h.done⟩
        simp only [Option.some.injEq] at hq; subst hq
        exact ok_grow (h.cur p hp) (grows_refl_of _ _ rfl rfl rfl rfl) (fun u hu => Or.inl hu)
      · simp at hs
  | setRenderMode m =>
    simp only [step] at hs
    split at hs
    · simp at hs
    · next p hp =>
      split at hs
      · simp at hs
      · split at hs
        · simp at hs; subst hs; exact ⟨h.cur, h.done⟩
        · simp at hs; subst hs
          refine ⟨fun q hq => ?_, h.done⟩
          simp only [Option.some.injEq] at hq; subst hq
          exact ok_grow (h.cur p hp) (grows_refl_of _ _ rfl rfl rfl rfl) (fun u hu => Or.inl hu)
  | setFont id k pr vert =>
    simp only [step] at hs
    split at hs
    · simp at hs
    · next p hp =>
      split at hs
      · simp at hs
      · split at hs
        · simp at hs; subst hs; exact ⟨h.cur, h.done⟩
        · simp at hs; subst hs
          have hd := (getFont_page_done s id vert).2
          refine ⟨fun q hq => ?_, fun q hq => h.done q (hd ▸ hq)⟩
          simp only [Option.some.injEq] at hq; subst hq
          apply ok_write
          have hp0 := h.cur p hp
          cases hf : p.fonts.find? (fun e => e.2 == (getFont s id vert).2) with
          | some e =>
            obtain ⟨n, r⟩ := e
            have hmem : (n, r) ∈ p.fonts := List.mem_of_find?_eq_some hf
            simp only [hf, Option.isSome_some, if_true]
            refine ok_grow hp0 (grows_refl_of _ _ rfl rfl rfl rfl) (fun u hu => ?_)
            simp only [List.mem_append, List.mem_singleton] at hu
            rcases hu with hu | rfl
            · exact Or.inl hu
            · right
              show n ∈ p.fonts.map (·.1)
              exact List.mem_map.mpr ⟨(n, r), hmem, rfl⟩
          | none =>
            simp only [hf, Option.isSome_none, Bool.false_eq_true, if_false]
            refine ok_grow hp0 ⟨fun x hx => ?_, fun _ h => h, fun _ h => h, fun _ h => h⟩ (fun u hu => ?_)
            · simp only [List.map_append, List.mem_append]; exact Or.inl hx
            · simp only [List.mem_append, List.mem_singleton] at hu
              rcases hu with hu | rfl
              · exact Or.inl hu
              · right
                show _ ∈ (p.fonts ++ [_]).map (fun (e : Bytes × Nat) => e.1)
                simp
  | drawImage id clip cm a1 =>
    simp only [step] at hs
    split at hs
    · simp at hs
    · next p hp =>
      simp at hs; subst hs
      refine ⟨ok_drawImage env s id clip cm a1 (h.cur p hp), ?_⟩
      intro q hq
      have : (drawImage env s p id clip cm a1).done = s.done := by
        unfold drawImage; exact embedImage_done env s id
      exact h.done q (this ▸ hq)

theorem resinv_run (env : Env) : ∀ (ops : List Op) {s s' : St}, ResInv s → run env s ops = some s' → ResInv s'
  | [], s, s', h, hs => by simp [run] at hs; subst hs; exact h
  | op :: ops, s, s', h, hs => by
    simp only [run] at hs
    split at hs
    · simp at hs
    · next s1 h1 => exact resinv_run env ops (resinv_step env op h h1) hs

theorem resinv_init : ResInv ({} : St) := ⟨fun p hp => by simp at hp, fun p hp => by simp at hp⟩

theorem close_done (env : Env) (s : St) : (close env s).st.done = (flushPage env s).done := by
  simp [close, closeBody]

theorem flush_done_length (env : Env) (s : St) (h : s.done.length = s.pages.length) :
    (flushPage env s).done.length = (flushPage env s).pages.length := by
  unfold flushPage
  cases s.page with
  | none => simpa using h
  | some p => simp [h]

theorem getFont_pages (s : St) (id : Nat) (vert : Bool) : (getFont s id vert).1.pages = s.pages := by
  unfold getFont
  cases vert <;> simp only [if_true, Bool.false_eq_true, if_false] <;> split <;> rfl

theorem donelen_step (env : Env) {s s' : St} (op : Op) (h : s.done.length = s.pages.length)
    (hs : step env s op = some s') : s'.done.length = s'.pages.length := by
  cases op with
  | setCompress b => simp [step] at hs; subst hs; exact h
  | setMeta k rs => simp [step] at hs; subst hs; exact h
  | writeObj v => simp [step] at hs; subst hs; exact h
  | getFont id vert =>
    simp [step] at hs; subst hs
    rw [(getFont_page_done s id vert).2, getFont_pages]; exact h
  | newPage w hh cm => simp [step] at hs; subst hs; exact flush_done_length env s h
  | pageWrite bs => simp [step] at hs; obtain ⟨p, _, rfl⟩ := hs; exact h
  | setAlpha k pr => simp [step] at hs; obtain ⟨p, _, rfl⟩ := hs; exact h
  | setGradient st k a1 => simp [step] at hs; obtain ⟨p, _, rfl⟩ := hs; exact h
  | addURI u a b c d => simp [step] at hs; obtain ⟨p, _, rfl⟩ := hs; exact h
  | startText =>
    simp only [step] at hs
    split at hs
    · simp at hs
    · split at hs
      · simp at hs
      · simp at hs; subst hs; exact h
  | endText =>
    simp only [step] at hs
    split at hs
    · simp at hs
    · split at hs
      · simp at hs; subst hs; exact h
      · simp at hs
  | setRenderMode m =>
    simp only [step] at hs
    split at hs
    · simp at hs
    · split at hs
      · simp at hs
      · split at hs <;> simp at hs <;> subst hs <;> exact h
  | setFont id k pr vert =>
    simp only [step] at hs
    split at hs
    · simp at hs
    · split at hs
      · simp at hs
      · split at hs
        · simp at hs; subst hs; exact h
        · simp at hs; subst hs
          show (getFont s id vert).1.done.length = (getFont s id vert).1.pages.length
          rw [(getFont_page_done s id vert).2, getFont_pages]; exact h
  | drawImage id clip cm a1 =>
    simp only [step] at hs
    split at hs
    · simp at hs
    · next p hp =>
      simp at hs; subst hs
      have e1 : (drawImage env s p id clip cm a1).done = s.done := by
        unfold drawImage; exact embedImage_done env s id
      have e2 : (drawImage env s p id clip cm a1).pages = s.pages := (drawImage_pages env s p id clip cm a1).1
      rw [e1, e2]; exact h

theorem donelen_run (env : Env) : ∀ (ops : List Op) {s s' : St}, s.done.length = s.pages.length →
    run env s ops = some s' → s'.done.length = s'.pages.length
  | [], s, s', h, hs => by simp [run] at hs; subst hs; exact h
  | op :: ops, s, s', h, hs => by
    simp only [run] at hs
    split at hs
    · simp at hs
    · next s1 h1 => exact donelen_run env ops (donelen_step env op h h1) hs

end C13L
