import CanvasModel.C13

/-! Helper lemmas for C13: the object-table invariant of the pdfWriter model. -/
namespace C13L
open Canvas.C13

/-- byte `off` of `out` begins "n 0 obj\n" -/
def HdrAt (out : Bytes) (off n : Nat) : Prop := objHeader n <+: out.drop off

theorem sObj_ne_nil : sObj ≠ [] := by decide

theorem objHeader_ne_nil (n : Nat) : objHeader n ≠ [] := by
  unfold objHeader
  intro h
  have := List.append_eq_nil_iff.mp h
  exact sObj_ne_nil this.2

theorem hdrAt_append {out : Bytes} {off n : Nat} (b : Bytes) (h : HdrAt out off n) : HdrAt (out ++ b) off n := by
  unfold HdrAt at *
  by_cases hle : off ≤ out.length
  · rw [List.drop_append_of_le_length hle]
    exact h.trans (List.prefix_append _ _)
  · have : out.drop off = [] := List.drop_eq_nil_of_le (by omega)
    rw [this] at h
    exact absurd (List.prefix_nil.mp h) (objHeader_ne_nil n)

/-- The object-table invariant. `P` = set of object numbers that are reserved but not yet written. -/
structure Inv (P : Nat → Prop) (c : Core) : Prop where
  pos_eq : c.pos = c.out.length
  three : 3 ≤ c.offs.length
  filled : ∀ i (h : i < c.offs.length), HdrAt c.out c.offs[i] (i + 1) ∨ P (i + 1)

theorem Inv.weaken {P Q : Nat → Prop} {c : Core} (h : Inv P c) (hpq : ∀ x, P x → Q x) : Inv Q c :=
  ⟨h.pos_eq, h.three, fun i hi => (h.filled i hi).imp id (hpq _)⟩

theorem inv_emit {P : Nat → Prop} {c : Core} (b : Bytes) (h : Inv P c) : Inv P (c.emit b) := by
  refine ⟨?_, h.three, ?_⟩
  · simp [Core.emit, h.pos_eq]
  · intro i hi
    exact (h.filled i hi).imp (hdrAt_append b) id

@[simp] theorem emit_offs (c : Core) (b : Bytes) : (c.emit b).offs = c.offs := rfl
@[simp] theorem emit_out (c : Core) (b : Bytes) : (c.emit b).out = c.out ++ b := rfl
@[simp] theorem emit_pos (c : Core) (b : Bytes) : (c.emit b).pos = c.pos + b.length := rfl

theorem writeObject_offs (c : Core) (v : Val) : (c.writeObject v).offs = c.offs ++ [c.pos] := rfl

theorem writeObject_out (c : Core) (v : Val) :
    (c.writeObject v).out = c.out ++ objHeader (c.offs.length + 1) ++ ser v ++ sEndobj := by
  simp [Core.writeObject]

theorem lateWrite_offs (c : Core) (r : Nat) (v : Val) : (c.lateWrite r v).offs = c.offs.set (r - 1) c.pos := rfl

theorem lateWrite_out (c : Core) (r : Nat) (v : Val) :
    (c.lateWrite r v).out = c.out ++ objHeader r ++ ser v ++ sEndobj := by
  simp [Core.lateWrite]

theorem hdrAt_here (out : Bytes) (n : Nat) (rest : Bytes) : HdrAt (out ++ objHeader n ++ rest) out.length n := by
  unfold HdrAt
  rw [List.append_assoc, List.drop_left]
  exact List.prefix_append _ _

theorem inv_writeObject {P : Nat → Prop} {c : Core} (v : Val) (h : Inv P c) : Inv P (c.writeObject v) := by
  have hout : (c.writeObject v).out = (c.out ++ objHeader (c.offs.length + 1)) ++ (ser v ++ sEndobj) := by
    rw [writeObject_out]; simp
  refine ⟨?_, ?_, ?_⟩
  · simp [Core.writeObject, h.pos_eq]; omega
  · rw [writeObject_offs]; simp; have := h.three; omega
  · intro i hi
    rw [writeObject_offs] at hi
    simp only [writeObject_offs]
    by_cases hlt : i < c.offs.length
    · rw [List.getElem_append_left hlt]
      refine (h.filled i hlt).imp (fun hh => ?_) id
      rw [hout, List.append_assoc]
      exact hdrAt_append _ hh
    · have hieq : i = c.offs.length := by simp at hi; omega
      subst hieq
      left
      rw [List.getElem_append_right (Nat.le_refl _)]
      simp only [Nat.sub_self, List.getElem_cons_zero]
      rw [hout, h.pos_eq]
      exact hdrAt_here _ _ _

theorem inv_reserve {P : Nat → Prop} {c : Core} (h : Inv P c) :
    Inv (fun x => P x ∨ x = c.offs.length + 1) c.reserve := by
  refine ⟨h.pos_eq, ?_, ?_⟩
  · simp [Core.reserve]; have := h.three; omega
  · intro i hi
    simp only [Core.reserve] at hi ⊢
    by_cases hlt : i < c.offs.length
    · rw [List.getElem_append_left hlt]
      exact (h.filled i hlt).imp id Or.inl
    · have hieq : i = c.offs.length := by simp at hi; omega
      subst hieq
      right; right; rfl

theorem inv_lateWrite {P : Nat → Prop} {c : Core} (r : Nat) (v : Val) (h : Inv P c)
    (hr1 : 1 ≤ r) : Inv (fun x => P x ∧ x ≠ r) (c.lateWrite r v) := by
  have hout : (c.lateWrite r v).out = (c.out ++ objHeader r) ++ (ser v ++ sEndobj) := by
    rw [lateWrite_out]; simp
  refine ⟨?_, ?_, ?_⟩
  · simp [Core.lateWrite, h.pos_eq]; omega
  · rw [lateWrite_offs]; simp; exact h.three
  · intro i hi
    simp only [lateWrite_offs] at hi ⊢
    have hi' : i < c.offs.length := by simpa using hi
    rw [List.getElem_set]
    by_cases hieq : r - 1 = i
    · simp only [hieq, if_true]
      left
      have : i + 1 = r := by omega
      rw [this, hout, h.pos_eq]
      exact hdrAt_here _ _ _
    · simp only [hieq, if_false]
      rcases h.filled i hi' with hh | hp
      · left; rw [hout, List.append_assoc]; exact hdrAt_append _ hh
      · right; exact ⟨hp, by omega⟩

theorem lateWrite_len (c : Core) (r : Nat) (v : Val) : (c.lateWrite r v).offs.length = c.offs.length := by
  simp [lateWrite_offs]

theorem writeObject_len (c : Core) (v : Val) : (c.writeObject v).offs.length = c.offs.length + 1 := by
  simp [writeObject_offs]

theorem inv_init : Inv (fun x => x = 1 ∨ x = 2 ∨ x = 3) Core.init := by
  refine ⟨?_, ?_, ?_⟩
  · simp [Core.init, Core.emit]
  · simp [Core.init]
  · intro i hi
    right
    simp [Core.init] at hi
    omega


/-! ### State-level invariant -/

def Pend (H V : List (Nat × Nat)) (x : Nat) : Prop :=
  x = 1 ∨ x = 2 ∨ x = 3 ∨ x ∈ H.map (·.2) ∨ x ∈ V.map (·.2)

def RefsOk (c : Core) (L : List (Nat × Nat)) : Prop := ∀ r ∈ L.map (·.2), 1 ≤ r ∧ r ≤ c.offs.length

structure SInv' (c : Core) (H V : List (Nat × Nat)) : Prop where
  inv : Inv (Pend H V) c
  refsH : RefsOk c H
  refsV : RefsOk c V

def SInv (s : St) : Prop := SInv' s.core s.fontsH s.fontsV

theorem RefsOk.mono {c c' : Core} {L : List (Nat × Nat)} (h : RefsOk c L) (hle : c.offs.length ≤ c'.offs.length) :
    RefsOk c' L := fun r hr => ⟨(h r hr).1, Nat.le_trans (h r hr).2 hle⟩

theorem sinv_writeObject {c : Core} {H V} (v : Val) (h : SInv' c H V) : SInv' (c.writeObject v) H V :=
  ⟨inv_writeObject v h.inv, h.refsH.mono (by rw [writeObject_len]; omega), h.refsV.mono (by rw [writeObject_len]; omega)⟩

theorem inv_foldl_writeObject {P : Nat → Prop} : ∀ (vs : List Val) {c : Core}, Inv P c →
    Inv P (vs.foldl Core.writeObject c)
  | [], _, h => h
  | v :: vs, _, h => by simpa using inv_foldl_writeObject vs (inv_writeObject v h)

theorem sinv_foldl_writeObject {H V} : ∀ (vs : List Val) {c : Core}, SInv' c H V →
    SInv' (vs.foldl Core.writeObject c) H V
  | [], _, h => h
  | v :: vs, _, h => by simpa using sinv_foldl_writeObject vs (sinv_writeObject v h)

theorem sinv_embedImage (env : Env) {s : St} (id : Nat) (h : SInv s) : SInv (embedImage env s id).1 := by
  unfold embedImage
  split
  · exact h
  · exact sinv_foldl_writeObject _ h

theorem sinv_init : SInv' Core.init [] [] := by
  refine ⟨inv_init.weaken ?_, ?_, ?_⟩
  · intro x hx; unfold Pend; omega
  · intro r hr; simp at hr
  · intro r hr; simp at hr

theorem sinv_writePage (env : Env) (compress : Bool) {c : Core} {H V} (p : Page) (h : SInv' c H V) :
    SInv' (writePage env compress c p).1 H V := by
  unfold writePage
  exact sinv_writeObject _ (sinv_writeObject _ h)

theorem sinv_flushPage (env : Env) {s : St} (h : SInv s) : SInv (flushPage env s) := by
  unfold flushPage
  cases hp : s.page with
  | none => simpa [hp] using h
  | some p => simp only []; exact sinv_writePage env s.compress p h

theorem flushPage_fonts (env : Env) (s : St) :
    (flushPage env s).fontsH = s.fontsH ∧ (flushPage env s).fontsV = s.fontsV := by
  unfold flushPage; cases s.page <;> simp

theorem sinv_getFont {s : St} (id : Nat) (vert : Bool) (h : SInv s) : SInv (getFont s id vert).1 := by
  have hres := inv_reserve h.inv
  have hlen : s.core.reserve.offs.length = s.core.offs.length + 1 := by simp [Core.reserve]
  unfold getFont
  cases vert with
  | true =>
    simp only [if_true]
    split
    · exact h
    · refine ⟨hres.weaken ?_, h.refsH.mono (c' := s.core.reserve) (by omega), ?_⟩
      · intro x hx
        unfold Pend at *
        simp only [List.map_append, List.mem_append, List.map_cons, List.map_nil, List.mem_singleton]
        rcases hx with hx | hx
        · rcases hx with a | a | a | a | a <;> simp [a]
        · simp [hx, hlen]
      · intro r hr
        simp only [List.map_append, List.mem_append, List.map_cons, List.map_nil, List.mem_singleton] at hr
        show 1 ≤ r ∧ r ≤ s.core.reserve.offs.length
        rcases hr with hr | hr
        · have := h.refsV r hr; omega
        · omega
  | false =>
    simp only [Bool.false_eq_true, if_false]
    split
    · exact h
    · refine ⟨hres.weaken ?_, ?_, h.refsV.mono (c' := s.core.reserve) (by omega)⟩
      · intro x hx
        unfold Pend at *
        simp only [List.map_append, List.mem_append, List.map_cons, List.map_nil, List.mem_singleton]
        rcases hx with hx | hx
        · rcases hx with a | a | a | a | a <;> simp [a]
        · simp [hx, hlen]
      · intro r hr
        simp only [List.map_append, List.mem_append, List.map_cons, List.map_nil, List.mem_singleton] at hr
        show 1 ≤ r ∧ r ≤ s.core.reserve.offs.length
        rcases hr with hr | hr
        · have := h.refsH r hr; omega
        · omega

theorem sinv_drawImage (env : Env) {s : St} (p : Page) (id : Nat) (clip cm a1 : Bytes) (h : SInv s) :
    SInv (drawImage env s p id clip cm a1) := by
  unfold drawImage
  exact sinv_embedImage env id h

theorem sinv_step (env : Env) {s s' : St} (op : Op) (h : SInv s) (hs : step env s op = some s') : SInv s' := by
  cases op with
  | setCompress b => simp [step] at hs; subst hs; exact h
  | setMeta k rs => simp [step] at hs; subst hs; exact h
  | writeObj v => simp [step] at hs; subst hs; exact sinv_writeObject v h
  | getFont id vert => simp [step] at hs; subst hs; exact sinv_getFont id vert h
  | newPage w hh cm => simp [step] at hs; subst hs; exact sinv_flushPage env h
  | pageWrite bs =>
    simp [step] at hs; obtain ⟨p, _, rfl⟩ := hs; exact h
  | setAlpha k pr =>
    simp [step] at hs; obtain ⟨p, _, rfl⟩ := hs; exact h
  | addURI u a b c d =>
    simp [step] at hs; obtain ⟨p, _, rfl⟩ := hs; exact h
  | setGradient st k a1 =>
    simp [step] at hs; obtain ⟨p, _, rfl⟩ := hs; exact h
  | startText =>
    simp only [step] at hs
    split at hs
    · simp at hs
    · split at hs
      · simp at hs
      · simp at hs; subst hs; exact h
  | endText =>
    simp only [step] at hs
    split at hs
    · simp at hs
    · split at hs
      · simp at hs; subst hs; exact h
      · simp at hs
  | setRenderMode m =>
    simp only [step] at hs
    split at hs
    · simp at hs
    · split at hs
      · simp at hs
      · split at hs
        · simp at hs; subst hs; exact h
        · simp at hs; subst hs; exact h
  | setFont id k pr vert =>
    simp only [step] at hs
    split at hs
    · simp at hs
    · split at hs
      · simp at hs
      · split at hs
        · simp at hs; subst hs; exact h
        · simp at hs; subst hs; exact sinv_getFont id vert h
  | drawImage id clip cm a1 =>
    simp only [step] at hs
    split at hs
    · simp at hs
    · simp at hs; subst hs; exact sinv_drawImage env _ id clip cm a1 h

theorem sinv_run (env : Env) : ∀ (ops : List Op) {s s' : St}, SInv s → run env s ops = some s' → SInv s'
  | [], s, s', h, hs => by simp [run] at hs; subst hs; exact h
  | op :: ops, s, s', h, hs => by
    simp only [run] at hs
    split at hs
    · simp at hs
    · next s1 h1 => exact sinv_run env ops (sinv_step env op h h1) hs

end C13L
