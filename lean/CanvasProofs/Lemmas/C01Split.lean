import CanvasModel.C01Split
namespace Canvas.C01Split

theorem changed_iff (sIn : Bool) (zs : List Wn.IPt) (s0 s1 : Wn.IPt) :
    changed sIn zs s0 s1 = true ↔ 0 < splits sIn zs.reverse s0 s1 := by
  unfold changed
  simp [Nat.pos_iff_ne_zero]

/-- The flag is raised exactly when the queue received new events: whenever either segment was
split, not only when both were. -/
theorem addRet_iff_pushed (aIn bIn : Bool) (zs : List Wn.IPt) (a0 a1 b0 b1 : Wn.IPt) :
    addRet aIn bIn zs a0 a1 b0 b1 = true ↔ 0 < pushed aIn bIn zs a0 a1 b0 b1 := by
  unfold addRet pushed
  generalize keepZ aIn bIn a0 b0 zs = ks
  cases ks with
  | nil => simp [splits]
  | cons z ks =>
    simp only [List.isEmpty_cons, Bool.false_eq_true, if_false, Bool.or_eq_true, changed_iff]
    omega

/-- one-sided splits are reported: a T-junction (the end point of one segment in the interior of
the other) splits one segment only -/
theorem addRet_of_one_sided (aIn bIn : Bool) (zs : List Wn.IPt) (a0 a1 b0 b1 : Wn.IPt)
    (h : 0 < splits aIn (keepZ aIn bIn a0 b0 zs).reverse a0 a1 ∨ 0 < splits bIn (keepZ aIn bIn a0 b0 zs).reverse b0 b1) :
    addRet aIn bIn zs a0 a1 b0 b1 = true := by
  rw [addRet_iff_pushed]; unfold pushed; omega

theorem pushed_even (aIn bIn : Bool) (zs : List Wn.IPt) (a0 a1 b0 b1 : Wn.IPt) :
    pushed aIn bIn zs a0 a1 b0 b1 % 2 = 0 := by
  unfold pushed; omega

/-- a segment in the status is never split directly below its left end point (4e53250: the old
"impossible: first segment became vertical and needs reversal" situation) -/
theorem no_split_below_left_end (zs : List Wn.IPt) (s0 s1 : Wn.IPt)
    (h : ∀ z ∈ zs, z.x = s0.x ∧ z.y < s0.y) : splits true zs s0 s1 = 0 := by
  induction zs generalizing s1 with
  | nil => rfl
  | cons z zs ih =>
    have hz := h z (List.mem_cons_self)
    have ih' := ih s1 (fun w hw => h w (List.mem_cons_of_mem _ hw))
    unfold splits
    split
    · exact ih'
    · simp [hz.1, hz.2, ih']

/-- non-vacuity: b ends in the interior of a (T-junction): only a is split, the flag is raised -/
example : addRet false false [⟨2, 0⟩] ⟨0, 0⟩ ⟨4, 0⟩ ⟨2, 0⟩ ⟨3, 5⟩ = true ∧
    pushed false false [⟨2, 0⟩] ⟨0, 0⟩ ⟨4, 0⟩ ⟨2, 0⟩ ⟨3, 5⟩ = 2 := by
  decide

/-- non-vacuity: b is in the status and the intersection lies directly below its left end -/
example : splits true [⟨2, -1⟩] ⟨2, 0⟩ ⟨5, 3⟩ = 0 ∧ splits false [⟨2, -1⟩] ⟨2, 0⟩ ⟨5, 3⟩ = 1 := by
  decide

end Canvas.C01Split
