import CanvasModel.C01Split
namespace Canvas.C01Split

theorem changed_iff (zs : List Wn.IPt) (s0 s1 : Wn.IPt) :
    changed zs s0 s1 = true ↔ 0 < splits zs.reverse s0 s1 := by
  unfold changed
  simp [Nat.pos_iff_ne_zero]

/-- The flag is raised exactly when the queue received new events: whenever either segment was
split, not only when both were. -/
theorem addRet_iff_pushed (zs : List Wn.IPt) (a0 a1 b0 b1 : Wn.IPt) :
    addRet zs a0 a1 b0 b1 = true ↔ 0 < pushed zs a0 a1 b0 b1 := by
  unfold addRet pushed
  cases zs with
  | nil => simp [splits]
  | cons z zs =>
    simp only [List.isEmpty_cons, Bool.false_eq_true, if_false, Bool.or_eq_true, changed_iff]
    omega

/-- one-sided splits are reported: a T-junction (the end point of one segment in the interior of
the other) splits one segment only -/
theorem addRet_of_one_sided (zs : List Wn.IPt) (a0 a1 b0 b1 : Wn.IPt)
    (h : 0 < splits zs.reverse a0 a1 ∨ 0 < splits zs.reverse b0 b1) : addRet zs a0 a1 b0 b1 = true := by
  rw [addRet_iff_pushed]; unfold pushed; omega

theorem pushed_even (zs : List Wn.IPt) (a0 a1 b0 b1 : Wn.IPt) : pushed zs a0 a1 b0 b1 % 2 = 0 := by
  unfold pushed; omega

/-- non-vacuity: b ends in the interior of a (T-junction): only a is split, the flag is raised -/
example : addRet [⟨2, 0⟩] ⟨0, 0⟩ ⟨4, 0⟩ ⟨2, 0⟩ ⟨3, 5⟩ = true ∧ pushed [⟨2, 0⟩] ⟨0, 0⟩ ⟨4, 0⟩ ⟨2, 0⟩ ⟨3, 5⟩ = 2 := by
  decide

end Canvas.C01Split
