import CanvasProofs.Lemmas.C07Decompose

/-! # C07 helper lemmas: the two notations of `Matrix.ToSVG(h)` under the SVG semantics of a transform
list, against the target `T(0,h)·G·m·G` (`G` the y-flip). -/
set_option linter.unusedSectionVars false
set_option linter.unusedVariables false
namespace C07
open Canvas Canvas.C07 GenK

variable {K : Type} [Field K] [LinearOrder K] [IsStrictOrderedRing K] [Env K]

theorem mul_ident_right (m : Mat K) : Matrix.Mul m (identity : Mat K) = m := by
  cases m; simp [Matrix.Mul, identity]

theorem mul_ident_left (m : Mat K) : Matrix.Mul (identity : Mat K) m = m := by
  cases m; simp [Matrix.Mul, identity]

/-- the matrix an optional operation contributes -/
def optMat (c : Bool) (op : SvgOp K) : Mat K := if c then op.mat else identity

theorem svgInterp_append (xs ys : List (SvgOp K)) :
    svgInterp (xs ++ ys) = ys.foldl (fun acc o => Matrix.Mul acc o.mat) (svgInterp xs) := by
  simp only [svgInterp, List.foldl_append, ops_mmul]

theorem svgInterp_opt (xs : List (SvgOp K)) (c : Bool) (op : SvgOp K) :
    svgInterp (xs ++ (if c then [op] else [])) = Matrix.Mul (svgInterp xs) (optMat c op) := by
  rw [svgInterp_append]
  cases c <;> simp [optMat, mul_ident_right]

/-- the interpretation of the decomposed notation as a product of four (optional) matrices -/
theorem svgInterp_parts (c1 c2 c3 c4 : Bool) (o1 o2 o3 o4 : SvgOp K) :
    svgInterp ((if c1 then [o1] else []) ++ (if c2 then [o2] else []) ++ (if c3 then [o3] else []) ++ (if c4 then [o4] else [])) =
      Matrix.Mul (Matrix.Mul (Matrix.Mul (optMat c1 o1) (optMat c2 o2)) (optMat c3 o3)) (optMat c4 o4) := by
  rw [svgInterp_opt, svgInterp_opt, svgInterp_opt]
  have : svgInterp (if c1 then [o1] else []) = optMat c1 o1 := by
    have := svgInterp_opt ([] : List (SvgOp K)) c1 o1
    simpa [svgInterp, mul_ident_left] using this
  rw [this]

/-- all four operations written: `translate(tx, h-ty) rotate(-phi) scale(sx,sy) rotate(-theta)` is the target
of the recomposed matrix -/
theorem svg_full (L : Laws K) (tx ty phi sx sy theta h : K) :
    Matrix.Mul (Matrix.Mul (Matrix.Mul (SvgOp.translate tx (h - ty)).mat (SvgOp.rotate (-phi)).mat) (SvgOp.scale sx sy).mat)
      (SvgOp.rotate (-theta)).mat = svgTarget (recompose (tx, ty, phi, sx, sy, theta)) h := by
  rw [recompose_entries]
  have e1 : -phi * Env.pi / 180 = -(phi * Env.pi / 180) := by ring
  have e2 : -theta * Env.pi / 180 = -(theta * Env.pi / 180) := by ring
  simp only [SvgOp.mat, rotMat, ops_sin, ops_cos, ops_pi, e1, e2, L.cos_neg, L.sin_neg, Matrix.Mul, svgTarget]
  congr 1 <;> ring

theorem decompose_pos (m : Mat K) : (Matrix.Decompose m).1 = m.c ∧ (Matrix.Decompose m).2.1 = m.f := by
  unfold Matrix.Decompose
  simp

theorem optMat_of (c : Bool) (op : SvgOp K) (h : c = false → op.mat = identity) : optMat c op = op.mat := by
  cases c
  · simp [optMat, h rfl]
  · simp [optMat]

/-- **`ToSVG`, decomposed notation** (exact comparisons): the operations written denote `T(0,h)·G·m·G`,
unless the translation of `m` is zero while `h` is not (then `translate(0,h)` is missing: known defect
C07-tosvg-height-dropped, witness `toSVGParts_drops_height`). -/
theorem toSVGParts_target' (L : Laws K) (h0 : (Env.epsilon : K) = 0) (m : Mat K) (h : K)
    (hcls : ¬ (m.c = 0 ∧ m.f = 0) ∨ h = 0) :
    svgInterp (toSVGParts m h) = svgTarget m h := by
  have hrec := decompose_recompose' L h0 m
  obtain ⟨hp1, hp2⟩ := decompose_pos m
  unfold toSVGParts
  simp only [ops_decompose, ops_equal]
  rcases hd : Matrix.Decompose m with ⟨tx, ty, phi, sx, sy, theta⟩
  rw [hd] at hrec hp1 hp2
  simp only at hp1 hp2 ⊢
  subst hp1 hp2
  rw [svgInterp_parts]
  rw [optMat_of _ _ ?t, optMat_of _ _ ?r1, optMat_of _ _ ?s, optMat_of _ _ ?r2, svg_full L, hrec]
  case t =>
    intro hc
    simp only [Bool.or_eq_false_iff, Bool.not_eq_false', equal_iff_eq h0] at hc
    rcases hcls with hcls | hcls
    · exact absurd hc hcls
    · simp [SvgOp.mat, identity, hc.1, hc.2, hcls]
  case r1 =>
    intro hc
    simp only [Bool.not_eq_false', equal_iff_eq h0] at hc
    simp [SvgOp.mat, rotMat, identity, hc, L.sin_zero, L.cos_zero]
  case s =>
    intro hc
    simp only [Bool.or_eq_false_iff, Bool.not_eq_false', equal_iff_eq h0] at hc
    simp [SvgOp.mat, identity, hc.1, hc.2]
  case r2 =>
    intro hc
    simp only [Bool.not_eq_false', equal_iff_eq h0] at hc
    simp [SvgOp.mat, rotMat, identity, hc, L.sin_zero, L.cos_zero]

/-- witness of the defect: with zero translation no operation of the decomposed notation moves the origin,
whereas the target (and the `matrix(...)` notation) moves it to `(0, h)` -/
theorem toSVGParts_drops_height' (h0 : (Env.epsilon : K) = 0) (m : Mat K) (h : K) (hc : m.c = 0) (hf : m.f = 0) :
    (svgInterp (toSVGParts m h)).f = 0 ∧ (svgInterp (toSVGParts m h)).c = 0 ∧ (svgTarget m h).f = h := by
  unfold toSVGParts
  simp only [ops_decompose, ops_equal]
  have e1 : Equal m.c 0 = true := (equal_iff_eq h0 _ _).mpr hc
  have e2 : Equal m.f 0 = true := (equal_iff_eq h0 _ _).mpr hf
  simp only [e1, e2, Bool.not_true, Bool.or_self]
  rw [svgInterp_parts]
  refine ⟨?_, ?_, by simp [svgTarget, hf]⟩
  · simp only [optMat, SvgOp.mat, rotMat, identity, Matrix.Mul, Bool.false_eq_true, if_false]
    split_ifs <;> simp
  · simp only [optMat, SvgOp.mat, rotMat, identity, Matrix.Mul, Bool.false_eq_true, if_false]
    split_ifs <;> simp

theorem svg_matrix_target' (m : Mat K) (h : K) : svgInterp [toSVGMatrix m h] = svgTarget m h := by
  cases m
  simp [svgInterp, toSVGMatrix, SvgOp.mat, svgTarget, identity, Matrix.Mul]

end C07
