import CanvasModel.C01Heap
/-!
Correctness of the `SweepEvents` binary heap model (`CanvasModel/C01Heap.lean`) for an abstract
strict weak order `less`: heap invariant, minimality of `Pop`/`Top`, multiset preservation, and a
history theorem. Core Lean only.
-/
namespace Canvas.C01Heap
variable {α : Type}

structure StrictWeak (less : α → α → Bool) : Prop where
  irrefl : ∀ a, less a a = false
  trans : ∀ a b c, less a b = true → less b c = true → less a c = true
  ntrans : ∀ a b c, less a b = false → less b c = false → less a c = false

theorem StrictWeak.asymm {less : α → α → Bool} (sw : StrictWeak less) {a b : α} (h : less a b = true) :
    less b a = false := by
  cases hb : less b a with
  | false => rfl
  | true => have := sw.trans a b a h hb; rw [sw.irrefl] at this; contradiction

/-- `a[p] ≤ a[k]` (i.e. `¬ a[k] < a[p]`) whenever both indices are in range -/
def Le (less : α → α → Bool) (a : Array α) (p k : Nat) : Prop :=
  ∀ (hp : p < a.size) (hk : k < a.size), less a[k] a[p] = false

/-- the transposition of `i` and `j` -/
def tr (i j x : Nat) : Nat := if x = i then j else if x = j then i else x

theorem Le_swap (less : α → α → Bool) (a : Array α) (i j : Nat) (hi : i < a.size) (hj : j < a.size) (p k : Nat) :
    Le less (a.swap i j hi hj) p k ↔ Le less a (tr i j p) (tr i j k) := by
  unfold Le tr
  simp only [Array.size_swap, Array.getElem_swap]
  constructor
  · intro h hp hk
    have := h (by grind) (by grind)
    grind
  · intro h hp hk
    have := h (by grind) (by grind)
    grind

theorem child_spec {less : α → α → Bool} (sw : StrictWeak less) (a : Array α) (i n : Nat) (hn : n ≤ a.size)
    (h1 : 2 * i + 1 < n) :
    (child less a i n hn h1 = 2 * i + 1 ∨ child less a i n hn h1 = 2 * i + 2) ∧
    ∀ k, 0 < k → k < n → (k - 1) / 2 = i → Le less a (child less a i n hn h1) k := by
  unfold child
  constructor
  · grind
  · intro k hk0 hkn hki
    have hk : k = 2 * i + 1 ∨ k = 2 * i + 2 := by omega
    unfold Le
    split
    · split
      · rename_i h2 hl
        intro hp hk'
        rcases hk with rfl | rfl
        · exact sw.asymm hl
        · exact sw.irrefl _
      · rename_i h2 hl
        intro hp hk'
        rcases hk with rfl | rfl
        · exact sw.irrefl _
        · simpa using hl
    · intro hp hk'
      have : k = 2 * i + 1 := by omega
      subst this
      exact sw.irrefl _

/-! ### sizes -/

theorem size_up (less : α → α → Bool) (a : Array α) (j : Nat) (hj : j < a.size) :
    (up less a j hj).size = a.size := by
  fun_induction up less a j hj with
  | case1 a j hj i h => rfl
  | case2 a j hj i h ih => simpa using ih

theorem size_downLoop (less : α → α → Bool) (a : Array α) (i n : Nat) (hn : n ≤ a.size) :
    (downLoop less a i n hn).1.size = a.size := by
  fun_induction downLoop less a i n hn with
  | case1 => rfl
  | case2 => rfl
  | case3 a i hn h1 h1' j hj hji hl ih => simpa using ih

/-! ### the `down` loop -/

/-- heap condition on the index range `[0, n)` restricted to edges whose parent is `≥ lo` -/
def HeapFrom (less : α → α → Bool) (a : Array α) (n lo : Nat) : Prop :=
  ∀ k, 0 < k → k < n → lo ≤ (k - 1) / 2 → Le less a ((k - 1) / 2) k

/-- `HeapFrom` with a hole at `i`: nothing is assumed about the edges touching `i`, but the
children of `i` are `≥` the parent of `i` -/
structure DownOK (less : α → α → Bool) (a : Array α) (n lo i : Nat) : Prop where
  A : ∀ k, 0 < k → k < n → lo ≤ (k - 1) / 2 → k ≠ i → (k - 1) / 2 ≠ i → Le less a ((k - 1) / 2) k
  B : ∀ k, 0 < k → k < n → (k - 1) / 2 = i → 0 < i → lo ≤ (i - 1) / 2 → Le less a ((i - 1) / 2) k

/-- the edge above `i` is fine (or absent / out of scope) -/
def TopOK (less : α → α → Bool) (a : Array α) (lo i : Nat) : Prop :=
  i = 0 ∨ (i - 1) / 2 < lo ∨ Le less a ((i - 1) / 2) i

theorem downOK_swap {less : α → α → Bool} (sw : StrictWeak less) (a : Array α) (i j n lo : Nat) (hn : n ≤ a.size)
    (hjn : j < n) (hc : j = 2 * i + 1 ∨ j = 2 * i + 2)
    (hmin : ∀ k, 0 < k → k < n → (k - 1) / 2 = i → Le less a j k)
    (hl : less (a[j]'(by omega)) (a[i]'(by omega)) = true)
    (hd : DownOK less a n lo i) :
    DownOK less (a.swap i j (by omega) (by omega)) n lo j ∧
    TopOK less (a.swap i j (by omega) (by omega)) lo j := by
  have hpj : (j - 1) / 2 = i := by omega
  refine ⟨⟨?_, ?_⟩, ?_⟩
  · intro k hk0 hkn hlo hkj hpkj
    rw [Le_swap]
    by_cases hki : k = i
    · -- the old child, now at `i`, against the parent of `i`
      subst hki
      have := hd.B j (by omega) hjn hpj hk0 hlo
      have e1 : tr k j ((k - 1) / 2) = (k - 1) / 2 := by unfold tr; grind
      have e2 : tr k j k = j := by unfold tr; grind
      rw [e1, e2]; exact this
    · by_cases hpki : (k - 1) / 2 = i
      · -- the sibling against the old child
        have := hmin k hk0 hkn hpki
        have e1 : tr i j ((k - 1) / 2) = j := by unfold tr; grind
        have e2 : tr i j k = k := by unfold tr; grind
        rw [e1, e2]; exact this
      · have := hd.A k hk0 hkn hlo hki hpki
        have e1 : tr i j ((k - 1) / 2) = (k - 1) / 2 := by unfold tr; grind
        have e2 : tr i j k = k := by unfold tr; grind
        rw [e1, e2]; exact this
  · intro k hk0 hkn hpk hj0 hlo
    rw [Le_swap]
    have e1 : tr i j ((j - 1) / 2) = j := by unfold tr; grind
    have e2 : tr i j k = k := by unfold tr; grind
    rw [e1, e2]
    have := hd.A k hk0 hkn (by omega) (by omega) (by omega)
    rw [hpk] at this; exact this
  · right; right
    rw [Le_swap]
    have e1 : tr i j ((j - 1) / 2) = j := by unfold tr; grind
    have e2 : tr i j j = i := by unfold tr; grind
    rw [e1, e2]
    intro _ _
    exact sw.asymm hl

theorem downLoop_heapFrom {less : α → α → Bool} (sw : StrictWeak less) (a : Array α) (i n lo : Nat) (hn : n ≤ a.size)
    (hd : DownOK less a n lo i) (ht : TopOK less a lo i) :
    HeapFrom less (downLoop less a i n hn).1 n lo := by
  fun_induction downLoop less a i n hn with
  | case1 a i hn h1 =>
    intro k hk0 hkn hlo
    by_cases hki : k = i
    · subst hki
      rcases ht with h | h | h
      · omega
      · omega
      · exact h
    · by_cases hpki : (k - 1) / 2 = i
      · omega
      · exact hd.A k hk0 hkn hlo hki hpki
  | case2 a i hn h1 h1' j hj hji hl =>
    obtain ⟨hc, hmin⟩ := child_spec sw a i n hn h1'
    intro k hk0 hkn hlo
    by_cases hki : k = i
    · subst hki
      rcases ht with h | h | h
      · omega
      · omega
      · exact h
    · by_cases hpki : (k - 1) / 2 = i
      · have := hmin k hk0 hkn hpki
        rw [hpki]
        intro hp hk
        exact sw.ntrans _ _ _ (this (by omega) hk) hl
      · exact hd.A k hk0 hkn hlo hki hpki
  | case3 a i hn h1 h1' j hj hji hl ih =>
    have hl' : less (a[j]'(by omega)) (a[i]'(by omega)) = true := by simpa using hl
    obtain ⟨hc, hmin⟩ := child_spec sw a i n hn h1'
    obtain ⟨h1, h2⟩ := downOK_swap sw a i j n lo hn hj hc hmin hl' hd
    exact ih h1 h2

theorem downLoop_ge (less : α → α → Bool) (a : Array α) (i n : Nat) (hn : n ≤ a.size) :
    i ≤ (downLoop less a i n hn).2 := by
  fun_induction downLoop less a i n hn with
  | case1 => exact Nat.le_refl _
  | case2 => exact Nat.le_refl _
  | case3 a i hn h1 h1' j hj hji hl ih => omega

theorem downLoop_perm (less : α → α → Bool) (a : Array α) (i n : Nat) (hn : n ≤ a.size) :
    (downLoop less a i n hn).1.Perm a := by
  fun_induction downLoop less a i n hn with
  | case1 => exact Array.Perm.refl _
  | case2 => exact Array.Perm.refl _
  | case3 a i hn h1 h1' j hj hji hl ih => exact ih.trans (Array.swap_perm _ _)

/-- `down(i, n)` touches only indices in `[i, n)` -/
theorem downLoop_getElem?_out (less : α → α → Bool) (a : Array α) (i n : Nat) (hn : n ≤ a.size)
    (k : Nat) (hout : k < i ∨ n ≤ k) :
    (downLoop less a i n hn).1[k]? = a[k]? := by
  fun_induction downLoop less a i n hn with
  | case1 => rfl
  | case2 => rfl
  | case3 a i hn h1 h1' j hj hji hl ih =>
    rw [ih (by omega), Array.getElem?_swap]
    rw [if_neg (by omega), if_neg (by omega)]

/-- if `down` returns `false` nothing was moved and no child of `i` is smaller than `a[i]` -/
theorem downLoop_stay {less : α → α → Bool} (sw : StrictWeak less) (a : Array α) (i n : Nat) (hn : n ≤ a.size)
    (h : (downLoop less a i n hn).2 = i) :
    (downLoop less a i n hn).1 = a ∧ ∀ k, 0 < k → k < n → (k - 1) / 2 = i → Le less a i k := by
  fun_induction downLoop less a i n hn with
  | case1 a i hn h1 =>
    refine ⟨rfl, ?_⟩
    intro k hk0 hkn hpk; omega
  | case2 a i hn h1 h1' j hj hji hl =>
    obtain ⟨hc, hmin⟩ := child_spec sw a i n hn h1'
    refine ⟨rfl, ?_⟩
    intro k hk0 hkn hpk hp hk
    exact sw.ntrans _ _ _ (hmin k hk0 hkn hpk (by omega) hk) hl
  | case3 a i hn h1 h1' j hj hji hl ih =>
    have := downLoop_ge less (a.swap i j (by omega) (by omega)) j n (by simp only [Array.size_swap]; exact hn)
    omega

/-- if `down` returns `true` the hole has been repaired, whatever the relation of `a[i]` to its parent -/
theorem downLoop_moved {less : α → α → Bool} (sw : StrictWeak less) (a : Array α) (i n lo : Nat) (hn : n ≤ a.size)
    (hd : DownOK less a n lo i) (h : i < (downLoop less a i n hn).2) :
    HeapFrom less (downLoop less a i n hn).1 n lo := by
  fun_induction downLoop less a i n hn with
  | case1 a i hn h1 => omega
  | case2 a i hn h1 h1' j hj hji hl => omega
  | case3 a i hn h1 h1' j hj hji hl ih =>
    have hl' : less (a[j]'(by omega)) (a[i]'(by omega)) = true := by simpa using hl
    obtain ⟨hc, hmin⟩ := child_spec sw a i n hn h1'
    obtain ⟨h1, h2⟩ := downOK_swap sw a i j n lo hn hj hc hmin hl' hd
    exact downLoop_heapFrom sw _ _ n lo _ h1 h2

/-! ### the `up` loop -/

/-- heap with a hole at `j` seen from below: the edge above `j` is not assumed, the children of `j`
are `≥` the parent of `j` -/
structure UpOK (less : α → α → Bool) (a : Array α) (n j : Nat) : Prop where
  A : ∀ k, 0 < k → k < n → k ≠ j → Le less a ((k - 1) / 2) k
  B : ∀ k, 0 < k → k < n → (k - 1) / 2 = j → 0 < j → Le less a ((j - 1) / 2) k

theorem up_perm (less : α → α → Bool) (a : Array α) (j : Nat) (hj : j < a.size) :
    (up less a j hj).Perm a := by
  fun_induction up less a j hj with
  | case1 => exact Array.Perm.refl _
  | case2 a j hj i h ih => exact ih.trans (Array.swap_perm _ _)

theorem up_heapFrom {less : α → α → Bool} (sw : StrictWeak less) (a : Array α) (j n : Nat) (hj : j < a.size)
    (hjn : j < n) (hu : UpOK less a n j) :
    HeapFrom less (up less a j hj) n 0 := by
  fun_induction up less a j hj with
  | case1 a j hj i h =>
    intro k hk0 hkn _
    by_cases hkj : k = j
    · subst hkj
      rcases h with h | h
      · omega
      · intro _ _; exact h
    · exact hu.A k hk0 hkn hkj
  | case2 a j hj i h ih =>
    have hij : i ≠ j := fun e => h (Or.inl e)
    have hl : less a[j] (a[i]'(by omega)) = true := by
      cases hb : less a[j] (a[i]'(by omega)) with
      | true => rfl
      | false => exact absurd (Or.inr hb) h
    have hj0 : 0 < j := by omega
    have hilt : i < j := by omega
    apply ih (by omega)
    constructor
    · intro k hk0 hkn hki
      rw [Le_swap]
      by_cases hkj : k = j
      · subst hkj
        have e1 : tr i k ((k - 1) / 2) = k := by unfold tr; grind
        have e2 : tr i k k = i := by unfold tr; grind
        rw [e1, e2]
        intro _ _; exact sw.asymm hl
      · by_cases hpkj : (k - 1) / 2 = j
        · have e1 : tr i j ((k - 1) / 2) = i := by unfold tr; grind
          have e2 : tr i j k = k := by unfold tr; grind
          rw [e1, e2]
          exact hu.B k hk0 hkn hpkj hj0
        · by_cases hpki : (k - 1) / 2 = i
          · have e1 : tr i j ((k - 1) / 2) = j := by unfold tr; grind
            have e2 : tr i j k = k := by unfold tr; grind
            rw [e1, e2]
            intro hp hk
            have h1 := hu.A k hk0 hkn hkj
            rw [hpki] at h1
            have h1 := h1 (by omega) hk
            cases hb : less a[k] a[j] with
            | false => rfl
            | true => rw [sw.trans _ _ _ hb hl] at h1; contradiction
          · have e1 : tr i j ((k - 1) / 2) = (k - 1) / 2 := by unfold tr; grind
            have e2 : tr i j k = k := by unfold tr; grind
            rw [e1, e2]
            exact hu.A k hk0 hkn hkj
    · intro k hk0 hkn hpk hi0
      rw [Le_swap]
      have e1 : tr i j ((i - 1) / 2) = (i - 1) / 2 := by unfold tr; grind
      rw [e1]
      have hpi := hu.A i hi0 (by omega) hij
      by_cases hkj : k = j
      · have e2 : tr i j k = i := by unfold tr; grind
        rw [e2]; exact hpi
      · have e2 : tr i j k = k := by unfold tr; grind
        rw [e2]
        intro hp hk
        have h1 := hu.A k hk0 hkn hkj
        rw [hpk] at h1
        exact sw.ntrans _ _ _ (h1 (by omega) hk) (hpi hp (by omega))

/-! ### the heap invariant and the user-facing theorems -/

/-- the binary min-heap invariant: no element is smaller than its parent -/
def IsHeap (less : α → α → Bool) (a : Array α) : Prop :=
  ∀ k (hk : k < a.size), 0 < k → less a[k] (a[(k - 1) / 2]'(by omega)) = false

theorem isHeap_iff (less : α → α → Bool) (a : Array α) (n : Nat) (hn : a.size ≤ n) :
    IsHeap less a ↔ HeapFrom less a n 0 := by
  constructor
  · intro h k hk0 _ _ _ hk; exact h k hk hk0
  · intro h k hk hk0; exact h k hk0 (by omega) (Nat.zero_le _) (by omega) hk

/-- the root of a heap is a minimum -/
theorem root_min {less : α → α → Bool} (sw : StrictWeak less) (a : Array α) (h : IsHeap less a)
    (k : Nat) (hk : k < a.size) : less a[k] (a[0]'(by omega)) = false := by
  induction k using Nat.strongRecOn with
  | _ k ih =>
    by_cases hk0 : k = 0
    · subst hk0; exact sw.irrefl _
    · have h1 := h k hk (by omega)
      have h2 := ih ((k - 1) / 2) (by omega) (by omega)
      exact sw.ntrans _ _ _ h1 h2

theorem perm_pop_back (c : Array α) (m : α) (h : c.back? = some m) : c.toList.Perm (m :: c.pop.toList) := by
  have hne : c.toList ≠ [] := by
    intro e
    have : c = #[] := by cases c; simp_all
    subst this
    simp at h
  have h1 := List.dropLast_concat_getLast hne
  have h2 : c.toList.getLast hne = m := by
    have : c.toList.getLast? = some m := by
      rw [List.getLast?_eq_getElem?, Array.getElem?_toList]
      simpa [Array.back?] using h
    rw [List.getLast?_eq_some_getLast hne] at this
    exact Option.some.inj this
  rw [Array.toList_pop]
  rw [h2] at h1
  exact (List.Perm.of_eq h1.symm).trans (List.perm_append_singleton _ _)

/-- `Push` keeps the heap invariant -/
theorem heap_push {less : α → α → Bool} (sw : StrictWeak less) (a : Array α) (x : α) (h : IsHeap less a) :
    IsHeap less (push less a x) := by
  unfold push
  rw [isHeap_iff less _ (a.size + 1) (by simp [size_up])]
  apply up_heapFrom sw _ _ _ _ (by omega)
  constructor
  · intro k hk0 hkn hkj hp hk
    have hk' : k < a.size := by omega
    have hp' : (k - 1) / 2 < a.size := by omega
    rw [Array.getElem_push_lt hk', Array.getElem_push_lt hp']
    exact h k hk' hk0
  · intro k hk0 hkn hpk; omega

/-- `Push` adds exactly the pushed element -/
theorem heap_perm_push (less : α → α → Bool) (a : Array α) (x : α) :
    (push less a x).toList.Perm (x :: a.toList) := by
  unfold push
  have := (Array.perm_iff_toList_perm.mp (up_perm less (a.push x) a.size (by simp)))
  rw [Array.toList_push] at this
  exact this.trans (List.perm_append_singleton _ _)

/-- what `Pop` computes, in terms of the `down` loop -/
theorem pop_spec {less : α → α → Bool} {a : Array α} {m : α} {b : Array α} (h : pop less a = some (m, b)) :
    ∃ (h0 : 0 < a.size) (c : Array α),
      c = (downLoop less (a.swap 0 (a.size - 1) h0 (by omega)) 0 (a.size - 1) (by simp)).1 ∧
      c.back? = some m ∧ b = c.pop := by
  unfold pop at h
  split at h
  · rename_i h0
    refine ⟨h0, _, rfl, ?_⟩
    simp only at h
    split at h
    · rename_i x hx
      simp only [Option.some.injEq, Prod.mk.injEq] at h
      rw [← h.1, ← h.2]; exact ⟨hx, rfl⟩
    · contradiction
  · contradiction

/-- `Pop` returns the root -/
theorem pop_root {less : α → α → Bool} {a : Array α} {m : α} {b : Array α} (h : pop less a = some (m, b)) :
    a[0]? = some m := by
  obtain ⟨h0, c, hc, hback, _⟩ := pop_spec h
  rw [Array.back?_eq_getElem?] at hback
  have hsz : c.size = a.size := by rw [hc, size_downLoop]; simp
  rw [hsz, hc, downLoop_getElem?_out _ _ _ _ _ _ (Or.inr (Nat.le_refl _)), Array.getElem?_swap] at hback
  simp only [if_true] at hback
  rw [Array.getElem?_eq_getElem h0]; exact hback

/-- `Pop` fails exactly on the empty heap (the Go index-out-of-range panic) -/
theorem pop_isSome (less : α → α → Bool) (a : Array α) : (pop less a).isSome ↔ 0 < a.size := by
  unfold pop
  split
  · rename_i h0
    simp only [h0, iff_true]
    have hsz : (downLoop less (a.swap 0 (a.size - 1) h0 (by omega)) 0 (a.size - 1) (by simp)).1.size = a.size := by
      rw [size_downLoop]; simp
    split
    · rfl
    · rename_i hnone
      rw [Array.back?_eq_getElem?, hsz] at hnone
      rw [Array.getElem?_eq_getElem (by omega)] at hnone
      contradiction
  · rename_i h0; simp [h0]

/-- `Pop` keeps the heap invariant -/
theorem heap_pop {less : α → α → Bool} (sw : StrictWeak less) (a : Array α) (m : α) (b : Array α)
    (h : IsHeap less a) (hp : pop less a = some (m, b)) : IsHeap less b := by
  obtain ⟨h0, c, hc, _, hb⟩ := pop_spec hp
  have hsz : c.size = a.size := by rw [hc, size_downLoop]; simp
  have hheap : HeapFrom less c (a.size - 1) 0 := by
    rw [hc]
    apply downLoop_heapFrom sw
    · constructor
      · intro k hk0 hkn _ _ hpk
        rw [Le_swap]
        have e1 : tr 0 (a.size - 1) ((k - 1) / 2) = (k - 1) / 2 := by unfold tr; grind
        have e2 : tr 0 (a.size - 1) k = k := by unfold tr; grind
        rw [e1, e2]
        intro _ hk; exact h k hk hk0
      · intro k _ _ _ h00; omega
    · exact Or.inl rfl
  subst hb
  intro k hk hk0
  rw [Array.size_pop] at hk
  rw [Array.getElem_pop, Array.getElem_pop]
  exact hheap k hk0 (by omega) (Nat.zero_le _) (by omega) (by omega)

/-- `Pop` removes exactly the returned element -/
theorem heap_perm_pop (less : α → α → Bool) (a : Array α) (m : α) (b : Array α)
    (hp : pop less a = some (m, b)) : a.toList.Perm (m :: b.toList) := by
  obtain ⟨h0, c, hc, hback, hb⟩ := pop_spec hp
  have h1 : c.Perm a := by
    rw [hc]; exact (downLoop_perm _ _ _ _ _).trans (Array.swap_perm _ _)
  subst hb
  exact (Array.perm_iff_toList_perm.mp h1).symm.trans (perm_pop_back c m hback)

/-- `Pop` on a heap returns a minimum of the heap -/
theorem heap_pop_min {less : α → α → Bool} (sw : StrictWeak less) (a : Array α) (m : α) (b : Array α)
    (h : IsHeap less a) (hp : pop less a = some (m, b)) : m ∈ a ∧ ∀ x ∈ a, less x m = false := by
  have hr := pop_root hp
  obtain ⟨h0, _⟩ := pop_spec hp
  rw [Array.getElem?_eq_getElem h0] at hr
  have hm : a[0] = m := Option.some.inj hr
  subst hm
  refine ⟨Array.getElem_mem h0, ?_⟩
  intro x hx
  obtain ⟨k, hk, rfl⟩ := Array.mem_iff_getElem.mp hx
  exact root_min sw a h k hk

/-- `Top` on a heap returns a minimum of the heap -/
theorem heap_top_min {less : α → α → Bool} (sw : StrictWeak less) (a : Array α) (m : α)
    (h : IsHeap less a) (ht : top a = some m) : m ∈ a ∧ ∀ x ∈ a, less x m = false := by
  unfold top at ht
  have h0 : 0 < a.size := by
    cases hs : a.size with
    | zero => rw [Array.getElem?_eq_none (by omega)] at ht; contradiction
    | succ n => omega
  rw [Array.getElem?_eq_getElem h0] at ht
  have hm : a[0] = m := Option.some.inj ht
  subst hm
  refine ⟨Array.getElem_mem h0, ?_⟩
  intro x hx
  obtain ⟨k, hk, rfl⟩ := Array.mem_iff_getElem.mp hx
  exact root_min sw a h k hk

/-! ### Init -/

theorem size_initLoop (less : α → α → Bool) (a : Array α) (k : Nat) : (initLoop less a k).size = a.size := by
  induction k generalizing a with
  | zero => rfl
  | succ k ih => unfold initLoop; rw [ih, size_downLoop]

theorem initLoop_perm (less : α → α → Bool) (a : Array α) (k : Nat) : (initLoop less a k).Perm a := by
  induction k generalizing a with
  | zero => exact Array.Perm.refl _
  | succ k ih => unfold initLoop; exact (ih _).trans (downLoop_perm _ _ _ _ _)

theorem initLoop_heapFrom {less : α → α → Bool} (sw : StrictWeak less) (a : Array α) (k n : Nat) (hn : a.size = n)
    (h : HeapFrom less a n k) : HeapFrom less (initLoop less a k) n 0 := by
  induction k generalizing a n with
  | zero => exact h
  | succ k ih =>
    unfold initLoop
    subst hn
    apply ih _ _ (size_downLoop _ _ _ _ _)
    apply downLoop_heapFrom sw
    · constructor
      · intro j hj0 hjn hlo hjk hpjk
        exact h j hj0 hjn (by omega)
      · intro j _ _ _ hk0 hlo; omega
    · by_cases hk0 : k = 0
      · exact Or.inl hk0
      · exact Or.inr (Or.inl (by omega))

/-- `Init` turns an ARBITRARY array into a heap -/
theorem heap_init {less : α → α → Bool} (sw : StrictWeak less) (a : Array α) : IsHeap less (init less a) := by
  unfold init
  rw [isHeap_iff less _ a.size (by rw [size_initLoop]; exact Nat.le_refl _)]
  apply initLoop_heapFrom sw a _ _ rfl
  intro k hk0 hkn hlo; omega

/-- `Init` permutes the array -/
theorem heap_perm_init (less : α → α → Bool) (a : Array α) : (init less a).toList.Perm a.toList :=
  Array.perm_iff_toList_perm.mp (initLoop_perm less a _)

/-! ### Fix -/

theorem Le_set (less : α → α → Bool) (a : Array α) (i : Nat) (x : α) (hi : i < a.size) (p k : Nat)
    (hp : p ≠ i) (hk : k ≠ i) : Le less (a.set i x hi) p k ↔ Le less a p k := by
  unfold Le
  simp only [Array.size_set, Array.getElem_set]
  constructor
  · intro h h1 h2
    have := h h1 h2
    rwa [if_neg (by omega), if_neg (by omega)] at this
  · intro h h1 h2
    rw [if_neg (by omega), if_neg (by omega)]
    exact h h1 h2

/-- a heap in which element `i` has been overwritten has a hole at `i` -/
theorem downOK_set {less : α → α → Bool} (sw : StrictWeak less) (a : Array α) (i : Nat) (x : α) (hi : i < a.size)
    (h : IsHeap less a) (n : Nat) : DownOK less (a.set i x hi) n 0 i := by
  constructor
  · intro k hk0 _ _ hki hpki
    rw [Le_set _ _ _ _ _ _ _ hpki hki]
    intro _ hk; exact h k hk hk0
  · intro k hk0 _ hpk hi0 _
    rw [Le_set _ _ _ _ _ _ _ (by omega) (by omega)]
    intro hp hk
    have h1 := h k hk hk0
    have h2 := h i hi hi0
    have h1' : less a[k] a[i] = false := by simpa only [hpk] using h1
    exact sw.ntrans _ _ _ h1' h2

theorem fix_spec {less : α → α → Bool} (sw : StrictWeak less) (a : Array α) (i : Nat) (hi : i < a.size) (b : Array α)
    (hd : DownOK less a a.size 0 i) (hf : fix less a i = some b) : IsHeap less b ∧ b.Perm a := by
  unfold fix down at hf
  simp only at hf
  split at hf
  · rename_i hmoved
    have hmoved : i < (downLoop less a i a.size (Nat.le_refl _)).2 := by simpa using hmoved
    have hb : b = (downLoop less a i a.size (Nat.le_refl _)).1 := (Option.some.inj hf).symm
    subst hb
    refine ⟨?_, downLoop_perm _ _ _ _ _⟩
    rw [isHeap_iff less _ a.size (by rw [size_downLoop]; exact Nat.le_refl _)]
    exact downLoop_moved sw a i a.size 0 _ hd hmoved
  · rename_i hstay
    have hstay : (downLoop less a i a.size (Nat.le_refl _)).2 = i := by
      have := downLoop_ge less a i a.size (Nat.le_refl _)
      have h2 : ¬ i < (downLoop less a i a.size (Nat.le_refl _)).2 := by simpa using hstay
      omega
    obtain ⟨heq, hbot⟩ := downLoop_stay sw a i a.size _ hstay
    rw [heq] at hf
    unfold up? at hf
    rw [dif_pos hi] at hf
    have hb : b = up less a i hi := (Option.some.inj hf).symm
    subst hb
    refine ⟨?_, up_perm _ _ _ _⟩
    rw [isHeap_iff less _ a.size (by rw [size_up]; exact Nat.le_refl _)]
    apply up_heapFrom sw a i a.size hi hi
    constructor
    · intro k hk0 hkn hki
      by_cases hpki : (k - 1) / 2 = i
      · rw [hpki]; exact hbot k hk0 hkn hpki
      · exact hd.A k hk0 hkn (Nat.zero_le _) hki hpki
    · intro k hk0 hkn hpk hi0
      exact hd.B k hk0 hkn hpk hi0 (Nat.zero_le _)

/-- `q[i] = x; Fix(i)` on a heap gives a heap -/
theorem heap_fix {less : α → α → Bool} (sw : StrictWeak less) (a : Array α) (i : Nat) (x : α) (b : Array α)
    (h : IsHeap less a) (hf : setFix less a i x = some b) : IsHeap less b := by
  unfold setFix at hf
  split at hf
  · rename_i hi
    have hd := downOK_set sw a i x hi h (a.set i x hi).size
    exact (fix_spec sw (a.set i x hi) i (by simpa using hi) b hd hf).1
  · contradiction

theorem fix_perm (less : α → α → Bool) (a : Array α) (i : Nat) (b : Array α) (hf : fix less a i = some b) :
    b.Perm a := by
  unfold fix down at hf
  simp only at hf
  split at hf
  · rw [← Option.some.inj hf]; exact downLoop_perm _ _ _ _ _
  · unfold up? at hf
    split at hf
    · rw [← Option.some.inj hf]; exact (up_perm _ _ _ _).trans (downLoop_perm _ _ _ _ _)
    · split at hf
      · rw [← Option.some.inj hf]; exact downLoop_perm _ _ _ _ _
      · contradiction

/-- `q[i] = x; Fix(i)` permutes the array in which `q[i]` has been overwritten (no heap or order
hypothesis needed) -/
theorem heap_perm_fix (less : α → α → Bool) (a : Array α) (i : Nat) (x : α) (b : Array α)
    (hf : setFix less a i x = some b) : b.toList.Perm (a.toList.set i x) := by
  unfold setFix at hf
  split at hf
  · rename_i hi
    have := Array.perm_iff_toList_perm.mp (fix_perm less _ i b hf)
    rwa [Array.toList_set] at this
  · contradiction

/-- `setFix` fails exactly when the index is out of range -/
theorem setFix_isSome (less : α → α → Bool) (a : Array α) (i : Nat) (x : α) :
    (setFix less a i x).isSome ↔ i < a.size := by
  unfold setFix
  split
  · rename_i hi
    simp only [hi, iff_true]
    unfold fix up?
    simp only
    split
    · rfl
    · rw [dif_pos (by rw [show (down less (a.set i x hi) i (a.set i x hi).size (Nat.le_refl _)).1.size = a.size from by
        unfold down; simp only; rw [size_downLoop]; simp]; exact hi)]
      rfl
  · rename_i hi; simp [hi]

/-! ### histories -/

/-- a recorded `Pop` was performed on a heap and returned a minimum of it -/
def PopRec.Good (less : α → α → Bool) (r : PopRec α) : Prop :=
  IsHeap less r.before ∧ r.popped ∈ r.before ∧ ∀ x ∈ r.before, less x r.popped = false

theorem run_heap {less : α → α → Bool} (sw : StrictWeak less) (a : Array α) (ops : List (Op α))
    (c : Array α) (recs : List (PopRec α)) (h : IsHeap less a) (hr : run less a ops = some (c, recs)) :
    IsHeap less c ∧ ∀ r ∈ recs, r.Good less := by
  induction ops generalizing a c recs with
  | nil =>
    simp only [run, Option.some.injEq, Prod.mk.injEq] at hr
    rw [← hr.1, ← hr.2]
    exact ⟨h, fun r hr => by cases hr⟩
  | cons op ops ih =>
    cases op with
    | push x =>
      simp only [run] at hr
      exact ih _ _ _ (heap_push sw a x h) hr
    | pop =>
      simp only [run] at hr
      split at hr
      · contradiction
      · rename_i m b hp
        split at hr
        · contradiction
        · rename_i c' recs' hr'
          simp only [Option.some.injEq, Prod.mk.injEq] at hr
          obtain ⟨h1, h2⟩ := ih _ _ _ (heap_pop sw a m b h hp) hr'
          rw [← hr.1, ← hr.2]
          refine ⟨h1, ?_⟩
          intro r hrm
          rcases List.mem_cons.mp hrm with rfl | hrm
          · exact ⟨h, heap_pop_min sw a m b h hp⟩
          · exact h2 r hrm
    | fix i x =>
      simp only [run] at hr
      split at hr
      · contradiction
      · rename_i b hf
        exact ih _ _ _ (heap_fix sw a i x b h hf) hr

/-- History theorem: `Init` on an ARBITRARY array followed by ANY history of `Push` / `Pop` /
`q[i] = x; Fix(i)` that does not panic (`run = some _`; `run = none` iff some `Pop` hit the empty
heap or some `Fix` index was out of range, see `pop_isSome` / `setFix_isSome`) ends in a heap, and
every `Pop` on the way was performed on a heap and returned a minimal element of it. -/
theorem heap_history {less : α → α → Bool} (sw : StrictWeak less) (a0 : Array α) (ops : List (Op α))
    (c : Array α) (recs : List (PopRec α)) (hr : run less (init less a0) ops = some (c, recs)) :
    IsHeap less c ∧
    ∀ r ∈ recs, IsHeap less r.before ∧ r.popped ∈ r.before ∧ ∀ x ∈ r.before, less x r.popped = false :=
  run_heap sw _ ops c recs (heap_init sw a0) hr

/-- `<` on `Int` (the order used by the line protocol) is a strict weak order: the theorems are not vacuous -/
theorem strictWeak_ltInt : StrictWeak ltInt := by
  constructor
  · intro a; simp [ltInt]
  · intro a b c; simp only [ltInt, decide_eq_true_eq]; omega
  · intro a b c; simp only [ltInt, decide_eq_false_iff_not]; omega

example : IsHeap ltInt (init ltInt #[5, 3, 8, 1]) := heap_init strictWeak_ltInt _

theorem size_push (less : α → α → Bool) (a : Array α) (x : α) : (push less a x).size = a.size + 1 := by
  unfold push; rw [size_up]; simp

/-- the hypothesis `run … = some _` of `heap_history` is satisfiable: a push followed by a pop never panics -/
example (a0 : Array Int) (x : Int) : ∃ c r, run ltInt (init ltInt a0) [.push x, .pop] = some (c, [r]) := by
  have h := (pop_isSome ltInt (push ltInt (init ltInt a0) x)).mpr (by rw [size_push]; omega)
  obtain ⟨⟨m, b⟩, hp⟩ := Option.isSome_iff_exists.mp h
  exact ⟨b, ⟨push ltInt (init ltInt a0) x, m⟩, by simp [run, hp]⟩

end Canvas.C01Heap
