import CanvasModel.C19
import CanvasGen.CoreK
import Mathlib.Tactic.Ring
import Mathlib.Tactic.Linarith
/-! The C19 model instantiated with the generated (`GenK`) definitions of /repo/util.go over an arbitrary
linearly ordered field.  the dash decision of `Context.DrawPath` (`cd`: checkDash in stroke-width units + dashCanonical) stays arbitrary.  The three geometric questions of
the path builder are taken in their exact-arithmetic reading (Epsilon → 0 inside them): "the new
segment is parallel to the previous one and points the same way", and ArcTo's canonical form for
rot = 0 without radius correction; tan = sin / cos; Path.Transform's arc case for axis-parallel matrices. `Equal` itself is the generated definition with its Epsilon. -/
set_option linter.unusedSectionVars false
namespace C19
open Canvas Canvas.C19 GenK
variable {K : Type} [Field K] [LinearOrder K] [IsStrictOrderedRing K] [Env K]

def arithK : Arith K :=
  { zero := 0, one := 1, nat := fun n => (n : K), c25_4 := 254 / 10, c0_25 := 1 / 4, mmPerPx := 254 / 10 / 96, pi := Env.pi,
    neg := fun x => -x, add := fun a b => a + b, sub := fun a b => a - b, mul := fun a b => a * b,
    div := fun a b => a / b,
    lt := fun a b => decide (a < b), le := fun a b => decide (a ≤ b), beq := fun a b => decide (a = b),
    equal := GenK.Equal, min := fun a b => min a b, sqrt := Env.sqrt, isInf := fun _ => false }

def psub (p q : Pt K) : Pt K := ⟨p.x - q.x, p.y - q.y⟩

/-- same direction: parallel (PerpDot = 0) and positive Dot -/
def sameDir (a b : Pt K) : Bool := decide (Point.PerpDot a b = 0 ∧ 0 < Point.Dot a b)

def lineExtendsK (prev start e : Pt K) : Bool := sameDir (psub start prev) (psub e start)
def closeExtendsK (prev start e : Pt K) : Bool := sameDir (psub e start) (psub start prev)

def arcFixK (_start : Pt K) (rx ry : K) (_e : Pt K) : K × K × K :=
  let rx := |rx|
  let ry := |ry|
  if GenK.Equal rx ry then (rx, ry, 0) else if rx < ry then (ry, rx, 90 * Env.pi / 180) else (rx, ry, 0)

/-- the arc case of Path.Transform in its exact reading for an axis-parallel matrix and an unrotated arc
(the only use the importer makes of it): the radii are scaled, the larger one comes first (rotated by
90° if that is the y radius), a reflection flips the sweep -/
def transformArcK (m : Mat K) (rx ry _phi : K) (sweep : Bool) : K × K × K × Bool :=
  let a := |m.a| * rx
  let b := |m.e| * ry
  let sw := if m.a * m.e < 0 then !sweep else sweep
  if a < b then (b, a, Env.pi / 2, sw) else (a, b, 0, sw)

def opsK (cd : K → K → List K → K → List K × Bool) : Ops K :=
  { arithK with
    ident := ⟨1, 0, 0, 0, 1, 0⟩,
    mmul := Matrix.Mul, translate := Matrix.Translate, scale := Matrix.Scale,
    reflectYAbout := Matrix.ReflectYAbout,
    sincos := fun x => (Env.sin x, Env.cos x),
    tan := fun x => Env.sin x / Env.cos x, dot := Matrix.Dot, transformArc := transformArcK,
    lineExtends := lineExtendsK, closeExtends := closeExtendsK, arcFix := arcFixK,
    checkDash := cd }

theorem equal_comm (a b : K) : GenK.Equal a b = GenK.Equal b a := by
  unfold GenK.Equal
  rcases lt_trichotomy a b with h | h | h
  · have : ¬ b < a := not_lt.mpr (le_of_lt h)
    simp [h, this]
  · subst h; simp
  · have : ¬ a < b := not_lt.mpr (le_of_lt h)
    simp [h, this]

theorem equal_self (a : K) (heps : (0 : K) ≤ Env.epsilon) : GenK.Equal a a = true := by
  unfold GenK.Equal; simp [heps]

theorem ne_of_not_equal (a b : K) (heps : (0 : K) ≤ Env.epsilon) (h : GenK.Equal a b = false) : a ≠ b := by
  intro e; subst e; rw [equal_self a heps] at h; exact Bool.noConfusion h

end C19
