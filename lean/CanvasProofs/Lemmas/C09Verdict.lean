import CanvasProofs.Lemmas.C09Parse
import CanvasProofs.Lemmas.C09Geom
/-! C09 helper lemmas: soundness of the executable Reverse specification `reverseVerdict`, completeness
of `toSubs`, and: the model's own output always passes the verdict. Core Lean only. -/
namespace C09L
open Canvas Canvas.Path Canvas.C09
variable {α : Type}

theorem revOKb_sound [DecidableEq α] (eq : Pt α → Pt α → Bool) (s : SubPath α)
    (h : SubPath.revOKb eq s = true) : s.RevOK eq := by
  obtain ⟨start, segs, closed⟩ := s
  simp only [SubPath.revOKb, Bool.and_eq_true, Bool.or_eq_true, Bool.not_eq_true', decide_eq_true_eq] at h
  refine ⟨h.1, ?_⟩
  intro hc
  simp only at hc
  rcases h.2 with h2 | h2
  · simp [hc] at h2
  · obtain ⟨⟨⟨hrefl, hfirst⟩, hlast⟩, hzero⟩ := h2
    refine ⟨hrefl, ?_, ?_, ?_⟩
    · intro c rest hs hl
      simp only at hs
      subst hs
      simp only [hl, Bool.true_and, Bool.not_eq_true'] at hfirst
      exact hfirst
    · intro hl
      simp only at hl
      simp only [hl, Bool.true_and] at hlast
      exact hlast
    · intro he
      simp only at he
      rcases hzero with hz | hz
      · rw [he] at hz; exact absurd hz (by simp)
      · exact hz

/-- `ok` means what the property demands of the observed pair (input, output) -/
theorem reverseVerdict_sound [DecidableEq α] (eq : Pt α → Pt α → Bool) (p r : List (Cmd α))
    (h : reverseVerdict eq p r = .ok) :
    ∃ sp sr, toSubs p = some sp ∧ toSubs r = some sr ∧ (∀ s ∈ sp, s.RevOK eq) ∧
      sr.length = sp.length ∧ sr.map (·.closed) = (sp.map (·.closed)).reverse ∧
      geom eq sr = ((geom eq sp).reverse).map Seg.rev := by
  unfold reverseVerdict at h
  split at h
  · exact absurd h (by simp)
  · rename_i sp hsp
    split at h
    · exact absurd h (by simp)
    · rename_i hok
      split at h
      · exact absurd h (by simp)
      · rename_i sr hsr
        split at h
        · exact absurd h (by simp)
        · rename_i hlen
          split at h
          · exact absurd h (by simp)
          · rename_i hcl
            split at h
            · exact absurd h (by simp)
            · rename_i hg
              refine ⟨sp, sr, hsp, hsr, ?_, by simpa using hlen, by simpa using hcl, by simpa using hg⟩
              intro s hs
              have : sp.all (SubPath.revOKb eq) = true := by simpa using hok
              rw [List.all_eq_true] at this
              exact revOKb_sound eq s (this s hs)

theorem takeBody_append [DecidableEq α] (segs rest : List (Cmd α)) (hd : segs.all Cmd.isDraw = true)
    (hr : ∀ c r, rest = c :: r → c.isDraw = false) :
    takeBody (segs ++ rest) = (segs, rest) := by
  induction segs with
  | nil =>
    cases rest with
    | nil => rfl
    | cons c r => simp [takeBody, hr c r rfl]
  | cons c cs ih =>
    simp only [List.all_cons, Bool.and_eq_true] at hd
    simp [takeBody, hd.1, ih hd.2]

theorem flatF_length_pos (s : SubPath α) (more : List (SubPath α)) :
    (flatF more).length < (flatF (s :: more)).length := by
  simp [flatF, SubPath.flat]; omega

/-- `toSubs` reads the array of every structured path back -/
theorem toSubsN_complete [DecidableEq α] (subs : List (SubPath α)) (hd : ∀ s ∈ subs, s.drawOnly = true) :
    ∀ n, (flatF subs).length ≤ n → toSubsN n (flatF subs) = some subs := by
  induction subs with
  | nil => intro n _; cases n <;> rfl
  | cons s more ih =>
    intro n hn
    have hs := hd s (by simp)
    have hm : ∀ t ∈ more, t.drawOnly = true := fun t ht => hd t (by simp [ht])
    obtain ⟨start, segs, closed⟩ := s
    simp only [SubPath.drawOnly] at hs
    have hlt := flatF_length_pos ⟨start, segs, closed⟩ more
    cases n with
    | zero => omega
    | succ n =>
      have hmore : ∀ c r, flatF more = c :: r → c.isDraw = false := by
        intro c r h
        cases more with
        | nil => simp [flatF] at h
        | cons m ms =>
          simp only [flatF, List.flatMap_cons, SubPath.flat, List.cons_append, List.cons.injEq] at h
          rw [← h.1]; rfl
      cases closed with
      | true =>
        have e : flatF (⟨start, segs, true⟩ :: more) = Cmd.move start :: (segs ++ (Cmd.close start :: flatF more)) := by
          simp [flatF, SubPath.flat]
        have htb := takeBody_append segs (Cmd.close start :: flatF more) hs
          (by intro c r h; simp only [List.cons.injEq] at h; rw [← h.1]; rfl)
        rw [e]
        simp only [toSubsN, htb, if_true]
        rw [ih hm n (by omega)]
        rfl
      | false =>
        have e : flatF (⟨start, segs, false⟩ :: more) = Cmd.move start :: (segs ++ flatF more) := by
          simp [flatF, SubPath.flat]
        have htb := takeBody_append segs (flatF more) hs hmore
        rw [e]
        simp only [toSubsN, htb]
        have hnc : ∀ q rest', flatF more = Cmd.close q :: rest' → False := by
          intro q rest' h
          rcases flatF_head more with h0 | ⟨p, r, h0⟩
          · rw [h0] at h; exact absurd h (by simp)
          · rw [h0] at h; exact absurd h (by simp)
        split
        · rename_i q rest' hq
          exact absurd hq (fun h => hnc q rest' h)
        · rw [ih hm n (by omega)]
          rfl

theorem toSubs_complete [DecidableEq α] (subs : List (SubPath α)) (hd : ∀ s ∈ subs, s.drawOnly = true) :
    toSubs (flatF subs) = some subs :=
  toSubsN_complete subs hd _ (Nat.le_refl _)

/-- the model of `Reverse` always passes the specification verdict (so, by the bit-exact correspondence
of the model, a `FAIL` on the real code is a divergence of the real code) -/
theorem reverseVerdict_model_ok [DecidableEq α] (eq : Pt α → Pt α → Bool) (z : Pt α) (subs : List (SubPath α))
    (hok : subs.all (SubPath.revOKb eq) = true) :
    reverseVerdict eq (flatF subs) (reverseF eq z (flatR subs)) = .ok := by
  have hR : ∀ s ∈ subs, s.RevOK eq := by
    rw [List.all_eq_true] at hok
    exact fun s hs => revOKb_sound eq s (hok s hs)
  have hd : ∀ s ∈ subs, s.drawOnly = true := fun s hs => (hR s hs).1
  have hd' : ∀ t ∈ (subs.map (revSub eq)).reverse, t.drawOnly = true := by
    intro t ht
    simp only [List.mem_reverse, List.mem_map] at ht
    obtain ⟨s, hs, rfl⟩ := ht
    exact revSub_drawOnly eq s (hd s hs)
  unfold reverseVerdict
  rw [toSubs_complete subs hd, reverseF_flat eq z subs hd, toSubs_complete _ hd']
  have hcl : ((subs.map (revSub eq)).reverse).map (·.closed) = (subs.map (·.closed)).reverse := by
    rw [List.map_reverse, List.map_map]
    congr 1
    exact List.map_congr_left (fun s _ => revSub_closed_eq eq s)
  simp [hok, hcl, geom_reverse eq subs hR]

end C09L
