import CanvasProofs.Lemmas.C06Edge
set_option linter.unusedSimpArgs false
set_option linter.unusedVariables false

/-! # C06 — from segments to closed subpaths

Induction along the vertex chain: (1) the sorted hit list is walk-paired (`WP`) — the end hit of one
segment and the start hit of the next are adjacent in path order and have the same position, so the
stable sort keeps them together; (2) the weights add up to twice the specification's crossing sum
plus a telescoping boundary term; (3) overlapping hits come in twos; (4) no hit is at the ray start.
Together with `go_weight`: `windings(RayIntersections)` = winding number. -/
namespace Canvas.C06
open Canvas.Wn

/-- the query point lies on no segment of the chain -/
def offChain (p : IPt) : List IPt → Prop
  | a :: b :: rest => ¬ onSeg p a b ∧ offChain p (b :: rest)
  | _ => True

theorem isort_append (l1 l2 : List Hit) : isort (l1 ++ l2) = l1.foldr ins (isort l2) := by
  induction l1 with
  | nil => rfl
  | cons h r ih => simp only [List.cons_append, isort, ih, List.foldr_cons]

theorem edgeHits_self (p a : IPt) : edgeHits p a a = [] := by simp [edgeHits]

theorem edgeW_self (p a : IPt) : edgeW p a a = 0 := by
  simp only [edgeW]
  have c : ¬ (a.y ≤ p.y ∧ p.y < a.y) := by omega
  simp [c]

theorem chainHits_cons (p a b : IPt) (rest : List IPt) :
    chainHits p (a :: b :: rest) = edgeHits p a b ++ chainHits p (b :: rest) := rfl

theorem rat_irrefl (x : Rat) : ¬ x < x := lt_irrefl x

/-- one step of the pairing invariant: prepend the hits of segment a→b to a hit list `tail` that
behaves like the hits of a chain starting at b -/
theorem WP_step (p a b : IPt) (hoff : ¬ onSeg p a b) (tail : List Hit)
    (ihA : fR p b = true → ∃ z0 t, tail = z0 :: t ∧ z0.tb = .zero ∧ z0.x = (b.x : Rat) ∧
        WP (isort t) = true)
    (ihB : fR p b = false → WP (isort tail) = true) :
    (fR p a = true → ∃ z0 t, edgeHits p a b ++ tail = z0 :: t ∧ z0.tb = .zero ∧ z0.x = (a.x : Rat) ∧
        WP (isort t) = true) ∧
    (fR p a = false → WP (isort (edgeHits p a b ++ tail)) = true) := by
  by_cases hab : a = b
  · subst hab
    rw [edgeHits_self, List.nil_append]
    exact ⟨ihA, ihB⟩
  · rcases edge_cases p a b hab hoff with
      ⟨h, fa, fb, _⟩ | ⟨g, h, tb, _, _, fa, fb, _⟩ | ⟨s, h, tb, x, _, _, fa, fb, _⟩ |
      ⟨e, h, tb, x, _, _, fa, fb, _⟩ | ⟨s, e, h, tbs, tbe, xs, xe, _, _, _, _, fa, fb, _⟩
    · rw [h, List.nil_append]
      exact ⟨fun hh => absurd hh (by simp [fa]), fun _ => ihB fb⟩
    · rw [h]
      refine ⟨fun hh => absurd hh (by simp [fa]), fun _ => ?_⟩
      simp only [List.cons_append, List.nil_append, isort]
      exact WP_ins_mid g tb _ (ihB fb)
    · rw [h]
      exact ⟨fun _ => ⟨s, tail, rfl, tb, x, ihB fb⟩, fun hh => absurd hh (by simp [fa])⟩
    · rw [h]
      refine ⟨fun hh => absurd hh (by simp [fa]), fun _ => ?_⟩
      obtain ⟨z0, t, hc, hz0, hx0, hwt⟩ := ihA fb
      rw [hc]
      simp only [List.cons_append, List.nil_append, isort]
      exact WP_ins_pair e z0 (by simp [tb]) (by simp [hz0]) (by rw [hx0, x]) (rat_irrefl _) _ hwt
    · rw [h]
      refine ⟨fun _ => ?_, fun hh => absurd hh (by simp [fa])⟩
      obtain ⟨z0, t, hc, hz0, hx0, hwt⟩ := ihA fb
      refine ⟨s, e :: tail, rfl, tbs, xs, ?_⟩
      rw [hc]
      simp only [isort]
      exact WP_ins_pair e z0 (by simp [tbe]) (by simp [hz0]) (by rw [hx0, xe]) (rat_irrefl _) _ hwt

/-- (1) the pairing invariant along a chain whose last vertex is not on the ray -/
theorem chain_WP (p : IPt) (rest : List IPt) : ∀ a, offChain p (a :: rest) →
    fR p ((a :: rest).getLast (by simp)) = false →
    (fR p a = true → ∃ z0 t, chainHits p (a :: rest) = z0 :: t ∧ z0.tb = .zero ∧ z0.x = (a.x : Rat) ∧
        WP (isort t) = true) ∧
    (fR p a = false → WP (isort (chainHits p (a :: rest))) = true) := by
  induction rest with
  | nil =>
    intro a _ hl
    simp only [List.getLast_singleton] at hl
    constructor
    · intro h; rw [hl] at h; exact absurd h (by simp)
    · intro _; simp [chainHits, isort, WP]
  | cons b rest ih =>
    intro a hoff hl
    have hl' : fR p ((b :: rest).getLast (by simp)) = false := by
      rw [List.getLast_cons (by simp)] at hl; exact hl
    simp only [offChain] at hoff
    obtain ⟨ihA, ihB⟩ := ih b hoff.2 hl'
    rw [chainHits_cons]
    exact WP_step p a b hoff.1 _ ihA ihB

/-- (1') the same along a chain `… c L` whose last vertex L IS on the ray (c ≠ L): the hit at the end
of the last segment is left over at the end of the list, everything before it is paired -/
theorem chain_WP_last (p : IPt) (L : IPt) (hL : fR p L = true) (rest : List IPt) : ∀ a,
    (∃ l c, a :: rest = l ++ [c, L] ∧ c ≠ L) → offChain p (a :: rest) →
    ∃ body e, chainHits p (a :: rest) = body ++ [e] ∧ e.tb = .one ∧ e.x = (L.x : Rat) ∧
      (fR p a = true → ∃ z0 t, body = z0 :: t ∧ z0.tb = .zero ∧ z0.x = (a.x : Rat) ∧
        WP (isort t) = true) ∧
      (fR p a = false → WP (isort body) = true) := by
  induction rest with
  | nil =>
    intro a ⟨l, c, hl, _⟩ _
    have := congrArg List.length hl
    simp at this
  | cons b rest ih =>
    intro a ⟨l, c, hl, hcL⟩ hoff
    simp only [offChain] at hoff
    cases l with
    | nil =>
      -- the chain is [c, L]
      simp only [List.nil_append, List.cons.injEq] at hl
      obtain ⟨rfl, rfl, rfl⟩ := hl
      simp only [chainHits, List.append_nil]
      rcases edge_cases p a b hcL hoff.1 with
        ⟨h, fa, fb, _⟩ | ⟨g, h, tb, _, _, fa, fb, _⟩ | ⟨s, h, tb, x, _, _, fa, fb, _⟩ |
        ⟨e, h, tb, x, _, _, fa, fb, _⟩ | ⟨s, e, h, tbs, tbe, xs, xe, _, _, _, _, fa, fb, _⟩
      · rw [hL] at fb; exact absurd fb (by simp)
      · rw [hL] at fb; exact absurd fb (by simp)
      · rw [hL] at fb; exact absurd fb (by simp)
      · exact ⟨[], e, by simp [h], tb, x, fun hh => absurd hh (by simp [fa]), fun _ => by simp [isort, WP]⟩
      · exact ⟨[s], e, by simp [h], tbe, xe, fun _ => ⟨s, [], rfl, tbs, xs, by simp [isort, WP]⟩,
          fun hh => absurd hh (by simp [fa])⟩
    | cons a' l' =>
      simp only [List.cons_append, List.cons.injEq] at hl
      obtain ⟨rfl, hl'⟩ := hl
      obtain ⟨body', e, hc, he1, he2, ihA, ihB⟩ := ih b ⟨l', c, hl', hcL⟩ hoff.2
      refine ⟨edgeHits p a b ++ body', e, by rw [chainHits_cons, hc, List.append_assoc], he1, he2, ?_⟩
      exact WP_step p a b hoff.1 body' ihA ihB

/-- (2) the weights along a chain: twice the crossing sum of the specification plus the
telescoping term of the two ends -/
theorem chain_W (p : IPt) (rest : List IPt) : ∀ a, offChain p (a :: rest) →
    W ((chainHits p (a :: rest)).map Hit.z) =
      2 * chainW p (a :: rest) + fI p ((a :: rest).getLast (by simp)) - fI p a := by
  induction rest with
  | nil => intro a _; simp [chainHits, W, chainW]
  | cons b rest ih =>
    intro a hoff
    simp only [offChain] at hoff
    have ihb := ih b hoff.2
    rw [List.getLast_cons (by simp)]
    rw [chainHits_cons, List.map_append, W_append, ihb]
    simp only [chainW]
    by_cases hab : a = b
    · subst hab
      rw [edgeHits_self, edgeW_self]; simp [W]
    · rcases edge_cases p a b hab hoff.1 with
        ⟨h, fa, fb, w⟩ | ⟨g, h, tb, _, sm, fa, fb, w⟩ | ⟨s, h, tb, x, _, sm, fa, fb, w⟩ |
        ⟨e, h, tb, x, _, sm, fa, fb, w⟩ | ⟨s, e, h, tbs, tbe, xs, xe, _, _, sms, sme, fa, fb, w⟩
      · simp only [h, List.map_nil, W, fI, fa, fb, w]; omega
      · have : weight g.z = 2 * dir g.z := by simp [weight, Hit.z, sm, tb]
        simp only [h, List.map_cons, List.map_nil, W, this, fI, fa, fb, w]; simp; omega
      · have : weight s.z = dir s.z := by simp [weight, Hit.z, sm, tb]
        simp only [h, List.map_cons, List.map_nil, W, this, fI, fa, fb, w]; simp; omega
      · have : weight e.z = dir e.z := by simp [weight, Hit.z, sm, tb]
        simp only [h, List.map_cons, List.map_nil, W, this, fI, fa, fb, w]; simp; omega
      · have h1 : weight s.z = 0 := by simp [weight, Hit.z, sms]
        have h2 : weight e.z = 0 := by simp [weight, Hit.z, sme]
        simp only [h, List.map_cons, List.map_nil, W, h1, h2, fI, fa, fb, w]; omega

/-- (3) overlapping hits come in twos -/
theorem chain_nsame (p : IPt) (rest : List IPt) : ∀ a, offChain p (a :: rest) →
    nsame ((chainHits p (a :: rest)).map Hit.z) % 2 = 0 := by
  induction rest with
  | nil => intro a _; simp [chainHits, nsame]
  | cons b rest ih =>
    intro a hoff
    simp only [offChain] at hoff
    have ihb := ih b hoff.2
    rw [chainHits_cons, List.map_append, nsame_append]
    by_cases hab : a = b
    · subst hab; rw [edgeHits_self]; simpa [nsame] using ihb
    · rcases edge_cases p a b hab hoff.1 with
        ⟨h, _⟩ | ⟨g, h, _, _, sm, _⟩ | ⟨s, h, _, _, _, sm, _⟩ |
        ⟨e, h, _, _, _, sm, _⟩ | ⟨s, e, h, _, _, _, _, _, _, sms, sme, _⟩
      · simp only [h, List.map_nil, nsame]; omega
      · simp only [h, List.map_cons, List.map_nil, nsame, Hit.z, sm]; simp; omega
      · simp only [h, List.map_cons, List.map_nil, nsame, Hit.z, sm]; simp; omega
      · simp only [h, List.map_cons, List.map_nil, nsame, Hit.z, sm]; simp; omega
      · simp only [h, List.map_cons, List.map_nil, nsame, Hit.z, sms, sme]; simp; omega

/-- (4) off the boundary no hit is at the ray start, and overlapping hits are end-point hits -/
theorem chain_clean (p : IPt) (rest : List IPt) : ∀ a, offChain p (a :: rest) →
    ∀ h ∈ chainHits p (a :: rest), h.t0zero = false ∧ (h.same = true → h.tb ≠ .mid) := by
  induction rest with
  | nil => intro a _ h hh; simp [chainHits] at hh
  | cons b rest ih =>
    intro a hoff h hh
    simp only [offChain] at hoff
    rw [chainHits_cons, List.mem_append] at hh
    rcases hh with hh | hh
    · by_cases hab : a = b
      · subst hab; rw [edgeHits_self] at hh; simp at hh
      · rcases edge_cases p a b hab hoff.1 with
          ⟨e0, _⟩ | ⟨g, e0, _, t0, sm, _⟩ | ⟨s, e0, _, _, t0, sm, _⟩ |
          ⟨e, e0, _, _, t0, sm, _⟩ | ⟨s, e, e0, tbs, tbe, _, _, t0s, t0e, _, _, _⟩
        · rw [e0] at hh; simp at hh
        · rw [e0] at hh; simp at hh; subst hh; simp [t0, sm]
        · rw [e0] at hh; simp at hh; subst hh; simp [t0, sm]
        · rw [e0] at hh; simp at hh; subst hh; simp [t0, sm]
        · rw [e0] at hh; simp at hh
          rcases hh with hh | hh
          · subst hh; simp [t0s, tbs]
          · subst hh; simp [t0e, tbe]
    · exact ih b hoff.2 h hh

end Canvas.C06
