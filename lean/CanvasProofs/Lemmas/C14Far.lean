import CanvasModel.C14
import Mathlib.Tactic.Ring
import Mathlib.Tactic.Linarith
import Mathlib.Tactic.LinearCombination
import Mathlib.Tactic.Positivity
set_option linter.unusedSimpArgs false
set_option linter.unusedVariables false

/-! The bounding-box prefilter in front of the exact distance test is sound: a point separated from
both end points of a segment by more than d along a coordinate axis is farther than d from it. -/
namespace Canvas.C14
open Canvas.Wn

/-- the exact test in terms of the difference vectors ap = p − a, ab = b − a -/
def farCore (apx apy abx aby d2 : Int) : Bool :=
  let l2 := abx * abx + aby * aby
  let t := apx * abx + apy * aby
  if l2 == 0 || t ≤ 0 then decide (apx * apx + apy * apy > d2)
  else if t ≥ l2 then decide ((apx - abx) * (apx - abx) + (apy - aby) * (apy - aby) > d2)
  else decide ((abx * apy - aby * apx) * (abx * apy - aby * apx) > d2 * l2)

theorem farFromSeg_eq_core (p a b : IPt) (d2 : Int) :
    farFromSeg p a b d2 = farCore (p.x - a.x) (p.y - a.y) (b.x - a.x) (b.y - a.y) d2 := by
  unfold farFromSeg farCore
  have e1 : p.x - b.x = p.x - a.x - (b.x - a.x) := by ring
  have e2 : p.y - b.y = p.y - a.y - (b.y - a.y) := by ring
  simp only [e1, e2]

theorem sq_gt_of_lt_neg {s d : Int} (hd : 0 ≤ d) (h : s < -d) : d * d < s * s := by
  have h1 : 0 < -s - d := by omega
  have h2 : 0 < -s + d := by omega
  have := Int.mul_pos h1 h2
  have e : (-s - d) * (-s + d) = s * s - d * d := by ring
  omega

/-- unit axis direction u; s = u·ap < −d and u·(ap − ab) < −d ⇒ far -/
theorem farCore_of_sep (ux uy apx apy abx aby d : Int) (hu : ux * ux + uy * uy = 1) (hd : 0 ≤ d)
    (h1 : ux * apx + uy * apy < -d) (h2 : ux * (apx - abx) + uy * (apy - aby) < -d) :
    farCore apx apy abx aby (d * d) = true := by
  unfold farCore
  simp only []
  have cs : ∀ vx vy : Int, vx * vx + vy * vy = (ux * vx + uy * vy) * (ux * vx + uy * vy) + (ux * vy - uy * vx) * (ux * vy - uy * vx) := by
    intro vx vy
    linear_combination (-(vx * vx + vy * vy)) * hu
  by_cases hA : (abx * abx + aby * aby == 0 || decide (apx * abx + apy * aby ≤ 0)) = true
  · simp only [hA, if_true, decide_eq_true_eq]
    have := sq_gt_of_lt_neg hd h1
    have := cs apx apy
    have := mul_self_nonneg (ux * apy - uy * apx)
    omega
  · simp only [hA, Bool.false_eq_true, if_false]
    simp only [Bool.or_eq_true, beq_iff_eq, decide_eq_true_eq, not_or, not_le] at hA
    obtain ⟨hl0, ht0⟩ := hA
    by_cases hB : apx * abx + apy * aby ≥ abx * abx + aby * aby
    · simp only [hB, if_true, decide_eq_true_eq]
      have := sq_gt_of_lt_neg hd h2
      have := cs (apx - abx) (apy - aby)
      have := mul_self_nonneg (ux * (apy - aby) - uy * (apx - abx))
      omega
    · simp only [hB, if_false, decide_eq_true_eq]
      have hB' : apx * abx + apy * aby < abx * abx + aby * aby := by omega
      -- abbreviations
      generalize hl : abx * abx + aby * aby = l2 at *
      generalize ht : apx * abx + apy * aby = t at *
      have hl2 : 0 < l2 := by
        have : 0 ≤ abx * abx := mul_self_nonneg abx
        have : 0 ≤ aby * aby := mul_self_nonneg aby
        omega
      -- U = l2·u·(foot − p)
      have hs1 : 0 < -(ux * apx + uy * apy) - d := by omega
      have hs2 : 0 < -(ux * (apx - abx) + uy * (apy - aby)) - d := by omega
      have hU : l2 * d < (l2 - t) * (-(ux * apx + uy * apy)) + t * (-(ux * (apx - abx) + uy * (apy - aby))) := by
        have a1 : 0 < (l2 - t) * (-(ux * apx + uy * apy) - d) := Int.mul_pos (by omega) hs1
        have a2 : 0 < t * (-(ux * (apx - abx) + uy * (apy - aby)) - d) := Int.mul_pos ht0 hs2
        have e : (l2 - t) * (-(ux * apx + uy * apy) - d) + t * (-(ux * (apx - abx) + uy * (apy - aby)) - d)
            = (l2 - t) * (-(ux * apx + uy * apy)) + t * (-(ux * (apx - abx) + uy * (apy - aby))) - l2 * d := by ring
        omega
      -- V = l2·(−ap) + t·ab ;  |V|² = l2·c²
      have hV := cs (l2 * (-apx) + t * abx) (l2 * (-apy) + t * aby)
      have hid : (l2 * (-apx) + t * abx) * (l2 * (-apx) + t * abx) + (l2 * (-apy) + t * aby) * (l2 * (-apy) + t * aby)
          = l2 * ((abx * apy - aby * apx) * (abx * apy - aby * apx)) := by
        subst hl; subst ht; ring
      have hUeq : ux * (l2 * (-apx) + t * abx) + uy * (l2 * (-apy) + t * aby)
          = (l2 - t) * (-(ux * apx + uy * apy)) + t * (-(ux * (apx - abx) + uy * (apy - aby))) := by ring
      have hW := mul_self_nonneg (ux * (l2 * (-apy) + t * aby) - uy * (l2 * (-apx) + t * abx))
      have hUU : (l2 * d) * (l2 * d) < (ux * (l2 * (-apx) + t * abx) + uy * (l2 * (-apy) + t * aby)) * (ux * (l2 * (-apx) + t * abx) + uy * (l2 * (-apy) + t * aby)) := by
        rw [hUeq]
        have h0 : 0 ≤ l2 * d := Int.mul_nonneg (by omega) hd
        exact Int.mul_self_lt_mul_self h0 hU
      have hfin : l2 * (d * d * l2) < l2 * ((abx * apy - aby * apx) * (abx * apy - aby * apx)) := by
        have e : l2 * (d * d * l2) = (l2 * d) * (l2 * d) := by ring
        rw [e, ← hid, hV]
        omega
      exact Int.lt_of_mul_lt_mul_left hfin (by omega)

/-- the prefilter agrees with the exact test -/
theorem farSegFast_eq (p a b : IPt) (d : Int) (hd : 0 ≤ d) :
    farSegFast p a b d (d * d) = farFromSeg p a b (d * d) := by
  unfold farSegFast
  by_cases h : (decide (p.x + d < min a.x b.x) || decide (max a.x b.x + d < p.x) || decide (p.y + d < min a.y b.y) || decide (max a.y b.y + d < p.y)) = true
  · rw [if_pos h]
    rw [farFromSeg_eq_core]
    simp only [Bool.or_eq_true, decide_eq_true_eq] at h
    symm
    rcases h with ((h | h) | h) | h
    · exact farCore_of_sep 1 0 _ _ _ _ d (by decide) hd (by omega) (by omega)
    · exact farCore_of_sep (-1) 0 _ _ _ _ d (by decide) hd (by omega) (by omega)
    · exact farCore_of_sep 0 1 _ _ _ _ d (by decide) hd (by omega) (by omega)
    · exact farCore_of_sep 0 (-1) _ _ _ _ d (by decide) hd (by omega) (by omega)
  · rw [if_neg h]

theorem farChainFast_eq (p : IPt) (d : Int) (hd : 0 ≤ d) (l : List IPt) :
    farChainFast p d (d * d) l = farFromChain p (d * d) l := by
  induction l with
  | nil => rfl
  | cons a t ih =>
    cases t with
    | nil => rfl
    | cons b t' =>
      simp only [farChainFast, farFromChain, farSegFast_eq p a b d hd, ih]

theorem farPolyFast_eq (p : IPt) (d : Int) (hd : 0 ≤ d) (poly : List IPt) :
    farPolyFast p d (d * d) poly = farFromPoly p (d * d) poly := by
  unfold farPolyFast farFromPoly
  cases poly with
  | nil => rfl
  | cons a t =>
    cases t with
    | nil => simp only [farSegFast_eq p a a d hd]
    | cons b t' => simp only [farChainFast_eq p d hd]

end Canvas.C14

namespace Canvas.C14
open Canvas.Wn

/-- p lies outside the box [x0,x1]×[y0,y1] grown by d -/
def outsideBox (p : IPt) (d x0 x1 y0 y1 : Int) : Prop :=
  p.x + d < x0 ∨ x1 + d < p.x ∨ p.y + d < y0 ∨ y1 + d < p.y

theorem farSegFast_of_outside (p a b : IPt) (d d2 x0 x1 y0 y1 : Int) (ho : outsideBox p d x0 x1 y0 y1)
    (ha : x0 ≤ a.x ∧ a.x ≤ x1 ∧ y0 ≤ a.y ∧ a.y ≤ y1) (hb : x0 ≤ b.x ∧ b.x ≤ x1 ∧ y0 ≤ b.y ∧ b.y ≤ y1) :
    farSegFast p a b d d2 = true := by
  unfold farSegFast
  have : (decide (p.x + d < min a.x b.x) || decide (max a.x b.x + d < p.x) || decide (p.y + d < min a.y b.y) || decide (max a.y b.y + d < p.y)) = true := by
    simp only [Bool.or_eq_true, decide_eq_true_eq]
    unfold outsideBox at ho
    omega
  rw [if_pos this]

theorem farChainFast_of_outside (p : IPt) (d d2 x0 x1 y0 y1 : Int) (ho : outsideBox p d x0 x1 y0 y1) (l : List IPt)
    (hl : ∀ v ∈ l, x0 ≤ v.x ∧ v.x ≤ x1 ∧ y0 ≤ v.y ∧ v.y ≤ y1) : farChainFast p d d2 l = true := by
  induction l with
  | nil => rfl
  | cons a t ih =>
    cases t with
    | nil => rfl
    | cons b t' =>
      simp only [farChainFast, Bool.and_eq_true]
      exact ⟨farSegFast_of_outside p a b d d2 x0 x1 y0 y1 ho (hl a (by simp)) (hl b (by simp)),
        ih (fun v hv => hl v (by simp [hv]))⟩

theorem farPolyFast_of_outside (p : IPt) (d d2 x0 x1 y0 y1 : Int) (ho : outsideBox p d x0 x1 y0 y1) (poly : List IPt)
    (hl : ∀ v ∈ poly, x0 ≤ v.x ∧ v.x ≤ x1 ∧ y0 ≤ v.y ∧ v.y ≤ y1) : farPolyFast p d d2 poly = true := by
  unfold farPolyFast
  cases poly with
  | nil => rfl
  | cons a t =>
    cases t with
    | nil => exact farSegFast_of_outside p a a d d2 x0 x1 y0 y1 ho (hl a (by simp)) (hl a (by simp))
    | cons b t' =>
      apply farChainFast_of_outside p d d2 x0 x1 y0 y1 ho
      intro v hv
      simp only [List.mem_append, List.mem_singleton] at hv
      rcases hv with hv | hv
      · exact hl v hv
      · subst hv; exact hl _ (by simp)

end Canvas.C14
