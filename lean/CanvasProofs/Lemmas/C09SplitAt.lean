import CanvasModel.C09.SplitAt
/-! C09 helper lemmas about the structural SplitAt model: selection of cuts, bookkeeping of `T`, the
remaining positions and the number of pushed pieces. Core Lean only. -/
namespace C09L
open Canvas Canvas.Path Canvas.C09
variable {α : Type}

theorem selectCuts_spec (O : SplitOps α) (T dT : α) (rem : List α) :
    (selectCuts O T dT rem).1 ++ (selectCuts O T dT rem).2 = rem ∧
      ∀ t ∈ (selectCuts O T dT rem).1, O.lt T t = true ∧ O.le t (O.add T dT) = true := by
  induction rem with
  | nil => exact ⟨rfl, by simp [selectCuts]⟩
  | cons t ts ih =>
    by_cases h : (O.lt T t && O.le t (O.add T dT)) = true
    · simp only [selectCuts, h, if_true, List.cons_append, ih.1, List.mem_cons, true_and]
      intro u hu
      rcases hu with rfl | hu
      · simpa using h
      · exact ih.2 u hu
    · simp [selectCuts, h]

theorem cutsGen_length {Q : Type} (lt : α → α → Bool) (sub div : α → α → α) (one : α) (sl sr : Q → α → Q)
    (r : Q) (t0 : α) (ts : List α) : (cutsGen lt sub div one sl sr r t0 ts).1.length = ts.length := by
  induction ts generalizing r t0 with
  | nil => rfl
  | cons t ts ih => simp [cutsGen, ih]

theorem monoClamp_length (lt : α → α → Bool) (t0 : α) (ts : List α) : (monoClamp lt t0 ts).length = ts.length := by
  induction ts generalizing t0 with
  | nil => rfl
  | cons t ts ih => simp [monoClamp, ih]

theorem polished_length (O : SplitOps α) (o : SegOracle α) (T : α) (sel : List α) (h : sel.length = o.inv.length) :
    (polished O o T sel).length = o.inv.length := by
  simp [polished, List.length_zipWith, h]

theorem foldl_push_length {β : Type} (f : SState α → β → RPath α) (g : SState α → β → RPath α)
    (l : List β) (s : SState α) :
    (l.foldl (fun (st : SState α) (b : β) =>
        let st := { st with q := f st b }
        let st := st.push
        { st with q := g st b }) s).qs.length = s.qs.length + l.length := by
  induction l generalizing s with
  | nil => rfl
  | cons b l ih =>
    simp only [List.foldl_cons, List.length_cons]
    rw [ih]
    simp [SState.push]; omega

variable (G : Geo α) (O : SplitOps α)

/-- Quadratic segment with positions left: every selected cut pushes exactly one piece, `T` advances
by the oracle's segment length, the selected positions are consumed. -/
theorem quadCase_bookkeeping (start cp e : Pt α) (o : SegOracle α) (s s' : SState α)
    (hrem : s.rem ≠ []) (h : quadCase G O start cp e o s = some s') :
    s'.qs.length = s.qs.length + (selectCuts O s.T o.dT s.rem).1.length ∧
    s'.T = O.add s.T o.dT ∧ s'.rem = (selectCuts O s.T o.dT s.rem).2 := by
  have hne : s.rem.isEmpty = false := by cases hs : s.rem <;> simp_all
  simp only [quadCase, hne, Bool.false_eq_true, if_false] at h
  split at h
  · exact absurd h (by simp)
  · rename_i hlen
    have hlen' : (selectCuts O s.T o.dT s.rem).1.length = o.inv.length := by simpa using hlen
    simp only [Option.some.injEq] at h
    subst h
    refine ⟨?_, rfl, rfl⟩
    simp only
    have := foldl_push_length (α := α) (fun st (pc : Pt α × Pt α × Pt α) => quadTo G pc.2.1 pc.2.2 st.q)
      (fun st pc => moveTo pc.2.2 st.q)
      (cutsGen O.lt O.sub O.div O.one O.quadL O.quadR (start, cp, e) O.zero
        (monoClamp O.lt O.zero (polished O o s.T (selectCuts O s.T o.dT s.rem).1))).1 s
    rw [cutsGen_length, monoClamp_length, polished_length O o s.T _ hlen'] at this
    split <;> simp_all

/-- the same for cubic segments -/
theorem cubeCase_bookkeeping (start c1 c2 e : Pt α) (o : SegOracle α) (s s' : SState α)
    (hrem : s.rem ≠ []) (h : cubeCase G O start c1 c2 e o s = some s') :
    s'.qs.length = s.qs.length + (selectCuts O s.T o.dT s.rem).1.length ∧
    s'.T = O.add s.T o.dT ∧ s'.rem = (selectCuts O s.T o.dT s.rem).2 := by
  have hne : s.rem.isEmpty = false := by cases hs : s.rem <;> simp_all
  simp only [cubeCase, hne, Bool.false_eq_true, if_false] at h
  split at h
  · exact absurd h (by simp)
  · rename_i hlen
    have hlen' : (selectCuts O s.T o.dT s.rem).1.length = o.inv.length := by simpa using hlen
    simp only [Option.some.injEq] at h
    subst h
    refine ⟨?_, rfl, rfl⟩
    simp only
    have := foldl_push_length (α := α)
      (fun st (pc : Pt α × Pt α × Pt α × Pt α) => cubeTo G pc.2.1 pc.2.2.1 pc.2.2.2 st.q)
      (fun st pc => moveTo pc.2.2.2 st.q)
      (cutsGen O.lt O.sub O.div O.one O.cubeL O.cubeR (start, c1, c2, e) O.zero
        (monoClamp O.lt O.zero (polished O o s.T (selectCuts O s.T o.dT s.rem).1))).1 s
    rw [cutsGen_length, monoClamp_length, polished_length O o s.T _ hlen'] at this
    split <;> simp_all

/-- once all positions are consumed a segment is copied through the builder and nothing is pushed -/
theorem quadCase_done (start cp e : Pt α) (o : SegOracle α) (s : SState α) (h : s.rem = []) :
    quadCase G O start cp e o s = some { s with q := quadTo G cp e s.q } := by
  simp [quadCase, h]

theorem lineCase_done (start e : Pt α) (dT : α) (s : SState α) (h : s.rem = []) :
    lineCase G O start e dT s = { s with q := lineTo G e s.q } := by
  simp [lineCase, h]

/-- no positions: `SplitAt()` returns the path itself -/
theorem splitAt_nil (cs : List (Cmd α)) (os : List (SegOracle α)) : splitAt G O cs [] os = some [cs] := by
  simp [splitAt]

/-- per subpath: every MoveTo record of every subpath starts (or restarts) the current piece there -/
theorem walkSub_move (p start : Pt α) (cs : List (Cmd α)) (os : List (SegOracle α)) (s : SState α) :
    walkSub G O (.move p :: cs) start os s = walkSub G O cs p os { s with q := moveTo p s.q } := rfl

end C09L
