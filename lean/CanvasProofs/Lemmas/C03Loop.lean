import CanvasModel.C03
import CanvasProofs.Lemmas.C03Split
import Mathlib.Tactic.Ring
import Mathlib.Tactic.Linarith
/-! C03 helper lemmas: invariant of the flattening loops (induction on the iteration). -/
set_option linter.unusedSectionVars false
namespace C03L
open Canvas Canvas.C03 GenK
variable {K : Type} [Field K] [LinearOrder K] [IsStrictOrderedRing K] [Env K]

/-- `quadR` in the shape the loop model expects -/
def quadSplitR (a b c : Pt K) (t : K) : Pt K × Pt K × Pt K := quadR a b c t

/-- Loop invariant: the current control polygon `c` is the restriction of the original curve `p` to
`[a,1]`. Every vertex emitted from here on is a point of the original curve at a parameter in `(a,1)`,
the parameters increase, and the last vertex is the end point. -/
theorem quad_loop_inv (step : Pt K → Pt K → Pt K → Option K)
    (hstep : ∀ q0 q1 q2 t, step q0 q1 q2 = some t → 0 < t ∧ t < 1)
    (p0 p1 p2 : Pt K) :
    ∀ (fuel : Nat) (c0 c1 c2 : Pt K) (a : K) (vs : List (Pt K)),
      0 ≤ a → a < 1 → c2 = p2 →
      (∀ s, quadraticBezierPos c0 c1 c2 s = quadraticBezierPos p0 p1 p2 (a + (1 - a) * s)) →
      flattenQuadLoop step quadSplitR fuel c0 c1 c2 = some vs →
      ∃ Ts : List K, vs = Ts.map (quadraticBezierPos p0 p1 p2) ++ [p2]
        ∧ Ts.Pairwise (· < ·) ∧ ∀ T ∈ Ts, a < T ∧ T < 1 := by
  intro fuel
  induction fuel with
  | zero => intro c0 c1 c2 a vs _ _ _ _ h; simp [flattenQuadLoop] at h
  | succ n ih =>
    intro c0 c1 c2 a vs ha0 ha1 hc2 hpos h
    unfold flattenQuadLoop at h
    cases hs : step c0 c1 c2 with
    | none =>
      rw [hs] at h
      simp only [Option.some.injEq] at h
      exact ⟨[], by simp [← h, hc2], List.Pairwise.nil, by simp⟩
    | some t =>
      rw [hs] at h
      obtain ⟨ht0, ht1⟩ := hstep _ _ _ _ hs
      simp only [Option.map_eq_some_iff] at h
      obtain ⟨vs', hrec, hvs⟩ := h
      have ha' : a < a + (1 - a) * t := by nlinarith
      have ha'1 : a + (1 - a) * t < 1 := by nlinarith
      have hposR : ∀ s, quadraticBezierPos (quadSplitR c0 c1 c2 t).1 (quadSplitR c0 c1 c2 t).2.1 (quadSplitR c0 c1 c2 t).2.2 s
          = quadraticBezierPos p0 p1 p2 ((a + (1 - a) * t) + (1 - (a + (1 - a) * t)) * s) := by
        intro s
        have := quad_right c0 c1 c2 t s
        simp only [quadSplitR]
        rw [this, hpos]
        congr 1; ring
      obtain ⟨Ts, hTs, hpw, hrange⟩ := ih _ _ _ (a + (1 - a) * t) vs' (le_of_lt (lt_of_le_of_lt ha0 ha')) ha'1
        (by simp [quadSplitR, quadR_end, hc2]) hposR hrec
      have hfirst : (quadSplitR c0 c1 c2 t).1 = quadraticBezierPos p0 p1 p2 (a + (1 - a) * t) := by
        have h0 := hposR 0
        rw [quad_pos_zero] at h0
        rw [h0]; congr 1; ring
      refine ⟨(a + (1 - a) * t) :: Ts, ?_, ?_, ?_⟩
      · rw [← hvs, hTs, hfirst]; simp
      · exact List.Pairwise.cons (fun T hT => (hrange T hT).1) hpw
      · intro T hT
        rcases List.mem_cons.mp hT with rfl | hT
        · exact ⟨ha', ha'1⟩
        · exact ⟨lt_trans ha' (hrange T hT).1, (hrange T hT).2⟩

end C03L

namespace C03L
open Canvas Canvas.C03 GenK
variable {K : Type} [Field K] [LinearOrder K] [IsStrictOrderedRing K] [Env K]

def cubPos (c : Cub K) (s : K) : Pt K := cubicBezierPos c.p0 c.p1 c.p2 c.p3 s

/-- right part of the generated `cubicBezierSplit`, on the record the loop model uses -/
def cubSplitR (c : Cub K) (t : K) : Cub K :=
  ⟨(cubR c.p0 c.p1 c.p2 c.p3 t).1, (cubR c.p0 c.p1 c.p2 c.p3 t).2.1,
   (cubR c.p0 c.p1 c.p2 c.p3 t).2.2.1, (cubR c.p0 c.p1 c.p2 c.p3 t).2.2.2⟩

theorem cubSplitR_pos (c : Cub K) (t s : K) : cubPos (cubSplitR c t) s = cubPos c (t + (1 - t) * s) :=
  cub_right c.p0 c.p1 c.p2 c.p3 t s

theorem cubSplitR_end (c : Cub K) (t : K) : (cubSplitR c t).p3 = c.p3 := rfl

theorem cub_loop_inv (step : Cub K → CStep K) (keep : Cub K → Bool)
    (hstep : ∀ q t, step q = .cut t → 0 < t ∧ t < 1) (p : Cub K) :
    ∀ (fuel : Nat) (c : Cub K) (a : K) (vs : List (Pt K)),
      0 ≤ a → a < 1 → c.p3 = p.p3 →
      (∀ s, cubPos c s = cubPos p (a + (1 - a) * s)) →
      flattenCubicLoop step keep cubSplitR fuel c = some vs →
      ∃ (Ts : List K) (e : List (Pt K)), vs = Ts.map (cubPos p) ++ e ∧ (e = [] ∨ e = [p.p3])
        ∧ Ts.Pairwise (· < ·) ∧ ∀ T ∈ Ts, a < T ∧ T < 1 := by
  intro fuel
  induction fuel with
  | zero => intro c a vs _ _ _ _ h; simp [flattenCubicLoop] at h
  | succ n ih =>
    intro c a vs ha0 ha1 hc3 hpos h
    unfold flattenCubicLoop at h
    cases hs : step c with
    | straight =>
      rw [hs] at h
      simp only [Option.some.injEq] at h
      exact ⟨[], [p.p3], by simp [← h, hc3], Or.inr rfl, List.Pairwise.nil, by simp⟩
    | stop =>
      rw [hs] at h
      simp only [Option.some.injEq] at h
      by_cases hk : keep c = true
      · exact ⟨[], [p.p3], by simp [← h, hk, hc3], Or.inr rfl, List.Pairwise.nil, by simp⟩
      · exact ⟨[], [], by simp [← h, hk], Or.inl rfl, List.Pairwise.nil, by simp⟩
    | cut t =>
      rw [hs] at h
      obtain ⟨ht0, ht1⟩ := hstep _ _ hs
      simp only [Option.map_eq_some_iff] at h
      obtain ⟨vs', hrec, hvs⟩ := h
      have ha' : a < a + (1 - a) * t := by nlinarith
      have ha'1 : a + (1 - a) * t < 1 := by nlinarith
      have hposR : ∀ s, cubPos (cubSplitR c t) s
          = cubPos p ((a + (1 - a) * t) + (1 - (a + (1 - a) * t)) * s) := by
        intro s
        rw [cubSplitR_pos, hpos]
        congr 1; ring
      obtain ⟨Ts, e, hTs, he, hpw, hrange⟩ := ih _ (a + (1 - a) * t) vs'
        (le_of_lt (lt_of_le_of_lt ha0 ha')) ha'1 (by rw [cubSplitR_end, hc3]) hposR hrec
      have hfirst : (cubSplitR c t).p0 = cubPos p (a + (1 - a) * t) := by
        have h0 := hposR 0
        rw [cubPos, cub_pos_zero] at h0
        rw [h0]; congr 1; ring
      by_cases hk : keep (cubSplitR c t) = true
      · refine ⟨(a + (1 - a) * t) :: Ts, e, ?_, he, ?_, ?_⟩
        · rw [← hvs, hTs, hfirst]; simp [hk]
        · exact List.Pairwise.cons (fun T hT => (hrange T hT).1) hpw
        · intro T hT
          rcases List.mem_cons.mp hT with rfl | hT
          · exact ⟨ha', ha'1⟩
          · exact ⟨lt_trans ha' (hrange T hT).1, (hrange T hT).2⟩
      · refine ⟨Ts, e, ?_, he, hpw, ?_⟩
        · rw [← hvs, hTs]; simp [hk]
        · intro T hT
          exact ⟨lt_trans ha' (hrange T hT).1, (hrange T hT).2⟩

end C03L
