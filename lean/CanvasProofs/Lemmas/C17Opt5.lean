import CanvasProofs.Lemmas.C17Opt4
import CanvasProofs.Lemmas.C17Term
/-! C17, towards `optimal`, part 5: the induction over the item loop. -/
set_option linter.unusedSectionVars false
set_option linter.unusedVariables false
namespace Canvas.C17

section field
variable {K : Type} [Field K] [LinearOrder K] [IsStrictOrderedRing K]

theorem mainLoop_act (P : Params K) (items : List (Item K)) (lineW : K) (tol : Option K) (b : Nat)
    (it : Item K) (rest : List (Item K)) (lb : LB K) :
    (mainLoop P items lineW tol b it rest lb).act =
      (mainGo (mlCx P items lineW tol b it lb) (mlWidth it lb) (mlS P it rest lb) lb.act emptyGrp
        ⟨[], lb.inact, lb.nextTol⟩).act := rfl

/-- the ratio the inner loop computes for a node that stands for `prev` -/
theorem ratio_of_atPrev (P : Params K) (items : List (Item K)) (lineW : K) (tol : Option K) (b : Nat)
    (it : Item K) (lb : LB K) (n : Node K) (prev : Option Nat) (hs : (lb.W, lb.Y, lb.Z) = pre items b)
    (hn : AtPrev P items n prev) :
    adjRatio (mlCx P items lineW tol b it lb).P (mlCx P items lineW tol b it lb).lineW
      (mlCx P items lineW tol b it lb).it (mlCx P items lineW tol b it lb).W (mlCx P items lineW tol b it lb).Y
      (mlCx P items lineW tol b it lb).Z n.d.w n.d.y n.d.z =
    adjRatio P lineW it (pre items b).1 (pre items b).2.1 (pre items b).2.2
      (afterSums P items prev).1 (afterSums P items prev).2.1 (afterSums P items prev).2.2 := by
  have hW : lb.W = (pre items b).1 := congrArg (·.1) hs
  have hY : lb.Y = (pre items b).2.1 := congrArg (·.2.1) hs
  have hZ : lb.Z = (pre items b).2.2 := congrArg (·.2.2) hs
  have hw : n.d.w = (afterSums P items prev).1 := congrArg (·.1) hn.1
  have hy : n.d.y = (afterSums P items prev).2.1 := congrArg (·.2.1) hn.1
  have hz : n.d.z = (afterSums P items prev).2.2 := congrArg (·.2.2) hn.1
  simp only [mlCx, hW, hY, hZ, hw, hy, hz]

/-- a node whose least line length to the current break does not exceed the line width survives `mainLoop` -/
theorem keep_step (P : Params K) (items : List (Item K)) (lineW : K) (tol : Option K) (b : Nat)
    (it : Item K) (rest : List (Item K)) (lb : LB K) (n : Node K) (prev : Option Nat)
    (hinf : 0 < P.infinity) (hlw : 0 < lineW) (heps : 0 ≤ P.eps)
    (hs : (lb.W, lb.Y, lb.Z) = pre items b) (hn : n ∈ lb.act) (hat : AtPrev P items n prev)
    (hnf : isForced P it = false)
    (hY : (afterSums P items prev).2.1 ≤ (pre items b).2.1) (hZ : (afterSums P items prev).2.2 ≤ (pre items b).2.2)
    (hsn : adjRatio P lineW it (pre items b).1 (pre items b).2.1 (pre items b).2.2
        (afterSums P items prev).1 (afterSums P items prev).2.1 (afterSums P items prev).2.2 =
      adjRatio0 P lineW it (pre items b).1 (pre items b).2.1 (pre items b).2.2
        (afterSums P items prev).1 (afterSums P items prev).2.1 (afterSums P items prev).2.2)
    (hnt : ¬ lineW < ((pre items b).1 - (afterSums P items prev).1) -
      ((pre items b).2.2 - (afterSums P items prev).2.2)) :
    n ∈ (mainLoop P items lineW tol b it rest lb).act := by
  rw [mainLoop_act]
  apply mainGo_keeps _ _ _ n _ lb.act _ _ hn
  have hW : lb.W = (pre items b).1 := congrArg (·.1) hs
  have hY' : lb.Y = (pre items b).2.1 := congrArg (·.2.1) hs
  have hZ' : lb.Z = (pre items b).2.2 := congrArg (·.2.2) hs
  have hw : n.d.w = (afterSums P items prev).1 := congrArg (·.1) hat.1
  have hy : n.d.y = (afterSums P items prev).2.1 := congrArg (·.2.1) hat.1
  have hz : n.d.z = (afterSums P items prev).2.2 := congrArg (·.2.2) hat.1
  cases hd : deactivates (mlCx P items lineW tol b it lb) n
      (adjRatio (mlCx P items lineW tol b it lb).P (mlCx P items lineW tol b it lb).lineW
        (mlCx P items lineW tol b it lb).it (mlCx P items lineW tol b it lb).W (mlCx P items lineW tol b it lb).Y
        (mlCx P items lineW tol b it lb).Z n.d.w n.d.y n.d.z) with
  | false => rfl
  | true =>
    exfalso
    have := deact_imp (mlCx P items lineW tol b it lb) n hnf (by simp only [mlCx]; rw [hy, hY']; exact hY)
      (by simp only [mlCx]; rw [hz, hZ']; exact hZ) hinf hlw heps
      (by simp only [mlCx]; rw [hW, hY', hZ', hw, hy, hz]; exact hsn) hd
    simp only [mlCx] at this
    rw [hW, hZ', hw, hz] at this
    exact hnt this

/-- a feasible line from a dominating node yields a dominating node at the new break -/
theorem dom_step (P : Params K) (items : List (Item K)) (lineW : K) (tol : Option K) (b : Nat)
    (it : Item K) (rest : List (Item K)) (lb : LB K) (n : Node K) (prev : Option Nat) (fit : Nat) (acc r : K)
    (hDF : 0 ≤ P.demFitness) (hdrop : items.drop b = it :: rest)
    (hs : (lb.W, lb.Y, lb.Z) = pre items b) (hn : n ∈ lb.act) (hat : AtPrev P items n prev)
    (hdom : Dom P n fit acc)
    (hr : adjRatio P lineW it (pre items b).1 (pre items b).2.1 (pre items b).2.2
      (afterSums P items prev).1 (afterSums P items prev).2.1 (afterSums P items prev).2.2 = some r)
    (hf : feasAt tol r = true) :
    ∃ n', n' ∈ (mainLoop P items lineW tol b it rest lb).act ∧ AtPrev P items n' (some b) ∧
      Dom P n' (fitClass r) (lineDemerits P it r (flaggedAtOpt items prev) fit + acc) := by
  rw [mainLoop_act]
  have hr' := ratio_of_atPrev P items lineW tol b it lb n prev hs hat
  rw [hr] at hr'
  obtain ⟨n', hn', c, cand, hmk, hd⟩ := mainGo_dom (mlCx P items lineW tol b it lb) (mlWidth it lb) (mlS P it rest lb)
    hDF lb.act emptyGrp ⟨[], lb.inact, lb.nextTol⟩ [] (slotInv_empty _) n (Or.inr hn) r hr' hf
  refine ⟨n', hn', ?_, ?_⟩
  · subst hmk
    constructor
    · show mlS P it rest lb = afterSums P items (some b)
      simp only [afterSums]
      rw [sumsAfter_eq P items b it rest hdrop, ← hs]; rfl
    · rfl
  · -- the candidate of `n` costs no more than the sequence's line
    have hcd : candDem (mlCx P items lineW tol b it lb) n r ≤
        lineDemerits P it r (flaggedAtOpt items prev) fit + acc := by
      unfold candDem
      simp only [mlCx]
      rw [hat.2]
      rcases hdom with ⟨hfit, hle⟩ | hle
      · rw [hfit]; linarith
      · have := lineDemerits_fit_le P it r (flaggedAtOpt items prev) n.d.fit fit hDF
        linarith
    subst hmk
    rcases hd with ⟨hc, hle⟩ | hle
    · left; exact ⟨hc, le_trans hle hcd⟩
    · right
      show cand.dem + P.demFitness ≤ _
      exact le_trans hle hcd

theorem dom_le (P : Params K) (n : Node K) (fit : Nat) (acc : K) (hDF : 0 ≤ P.demFitness) (h : Dom P n fit acc) :
    n.d.dem ≤ acc := by
  rcases h with ⟨_, h⟩ | h
  · exact h
  · linarith

theorem drastic_id (P : Params K) (tol : Option K) (b : Nat) (it : Item K) (rest : List (Item K)) (lb1 : LB K)
    (n : Node K) (h : n ∈ lb1.act) : drastic P tol b it rest lb1 = some lb1 := by
  unfold drastic
  cases hl : lb1.act with
  | nil => rw [hl] at h; cases h
  | cons x xs => rfl

/-- DP completeness of one pass: if the breaking `seq` (continued from `prev`) is legal, skips no forced
break and all its lines are feasible, and the active list holds a node that dominates its state, the
pass runs to completion without restart or overflow and ends with a node that costs no more. -/
theorem passLoop_opt (P : Params K) (items : List (Item K)) (lineW : K) (hwf : WF P items lineW) (tol : Option K) :
    ∀ (rest : List (Item K)) (b : Nat) (lb : LB K) (prev : Option Nat) (fit : Nat) (acc : K) (seq : List Nat) (d : K),
      items.drop b = rest → b ≤ items.length → Inv P items lineW tol b lb →
      (∀ x, x ∈ seq → b ≤ x) → seq.Pairwise (· < ·) → NoSkip P items prev seq →
      (∀ a, prev = some a → a < b ∧ legalAt P items a = true) →
      (seq = [] → b = items.length) → (∀ x, seq.getLast? = some x → x + 1 = items.length) →
      seqCost P items lineW tol prev fit acc seq = some d →
      (∃ n, n ∈ lb.act ∧ AtPrev P items n prev ∧ Dom P n fit acc) →
      ∃ lbf, passLoop P items lineW tol b (prevOf items b) rest lb = PassRes.done lbf ∧ lbf.ovf = lb.ovf ∧
        ∃ n, n ∈ lbf.act ∧ n.d.dem ≤ d := by
  intro rest
  induction rest with
  | nil =>
    intro b lb prev fit acc seq d hdrop hb hI hge hpw hns hprev hend hlast hcost ⟨n, hn, hat, hdom⟩
    have hbn : b = items.length := by
      have := List.drop_eq_nil_iff.mp hdrop; omega
    cases seq with
    | nil =>
      simp only [seqCost, Option.some.injEq] at hcost
      subst hcost
      exact ⟨lb, by simp [passLoop], rfl, n, hn, dom_le P n fit acc hwf.df hdom⟩
    | cons x seq' =>
      exfalso
      have hx := hge x List.mem_cons_self
      have : items[x]? = none := List.getElem?_eq_none_iff.mpr (by omega)
      simp only [seqCost, this] at hcost
      cases hcost
  | cons it rest ih =>
    intro b lb prev fit acc seq d hdrop hb hI hge hpw hns hprev hend hlast hcost ⟨n, hn, hat, hdom⟩
    have hit : items[b]? = some it := drop_getElem? hdrop
    have hblt : b < items.length := drop_lt_length hdrop
    simp only [passLoop]
    obtain ⟨hIc, _⟩ := clear_inv P items lineW tol b lb hI
    have hcl : (clearStale P (prevOf items b) lb).act = lb.act ∧ (clearStale P (prevOf items b) lb).ovf = lb.ovf := by
      unfold clearStale
      split
      · split <;> exact ⟨rfl, rfl⟩
      · exact ⟨rfl, rfl⟩
    have hn0 : n ∈ (clearStale P (prevOf items b) lb).act := by rw [hcl.1]; exact hn
    obtain ⟨lb0, hlb0⟩ : ∃ x, clearStale P (prevOf items b) lb = x := ⟨_, rfl⟩
    rw [hlb0] at hIc hcl hn0 ⊢
    cases h1 : itemStep P items lineW tol b (prevOf items b) it rest lb0 with
    | none =>
      exfalso
      obtain ⟨hg, hr⟩ := itemStep_none P items lineW tol b _ it rest lb0 h1
      have := hwf.np b it hit hg
      have h2 := drop_succ_of_drop hdrop
      rw [hr] at h2
      have := List.drop_eq_nil_iff.mp h2
      omega
    | some lb1 =>
      simp only
      obtain ⟨lbm, hm, hs1, ha1, hi1, ht1, ho1⟩ := itemStep_cases P items lineW tol b it rest lb0 lb1 hdrop h1
      -- the state of the sequence after this item, and a dominating node in lb1.act
      have key : ∃ prev' fit' acc' seq', (∀ x, x ∈ seq' → b + 1 ≤ x) ∧ seq'.Pairwise (· < ·) ∧
          NoSkip P items prev' seq' ∧ (∀ a, prev' = some a → a < b + 1 ∧ legalAt P items a = true) ∧
          (seq' = [] → b + 1 = items.length) ∧ (∀ x, seq'.getLast? = some x → x + 1 = items.length) ∧
          seqCost P items lineW tol prev' fit' acc' seq' = some d ∧
          ∃ n', n' ∈ lb1.act ∧ AtPrev P items n' prev' ∧ Dom P n' fit' acc' := by
        cases seq with
        | nil => exact absurd (hend rfl) (by omega)
        | cons x seq' =>
          have hbx := hge x List.mem_cons_self
          rcases Nat.eq_or_lt_of_le hbx with hxb | hxb
          · -- the sequence breaks here
            subst hxb
            simp only [seqCost, hit] at hcost
            split at hcost
            · rename_i hleg
              split at hcost
              · cases hcost
              · rename_i r hr
                split at hcost
                · rename_i hf
                  have hlbm : lbm = mainLoop P items lineW tol b it rest lb0 := by
                    rcases hm with ⟨h0, _⟩ | ⟨_, h⟩
                    · rw [hleg] at h0; cases h0
                    · exact h
                  obtain ⟨n', hn', hat', hdom'⟩ := dom_step P items lineW tol b it rest lb0 n prev fit acc r hwf.df
                    hdrop hIc.sums hn0 hat hdom hr hf
                  have hp := List.pairwise_cons.mp hpw
                  refine ⟨some b, fitClass r, _, seq', ?_, hp.2, hns.2, ?_, ?_, ?_, hcost, n', ?_, hat', hdom'⟩
                  · intro y hy; exact hp.1 y hy
                  · intro a ha; cases ha; exact ⟨Nat.lt_succ_self _, hleg⟩
                  · intro he
                    subst he
                    exact hlast b rfl
                  · intro y hy
                    apply hlast y
                    cases seq' with
                    | nil => cases hy
                    | cons z zs => simpa [List.getLast?_cons_cons] using hy
                  · rw [ha1, hlbm]; exact hn'
                · cases hcost
            · cases hcost
          · -- no break of the sequence here: the dominating node must survive
            have hnext : ∀ y, y ∈ x :: seq' → b + 1 ≤ y := by
              intro y hy
              rcases List.mem_cons.mp hy with rfl | hy
              · exact hxb
              · have := (List.pairwise_cons.mp hpw).1 y hy; omega
            have hsurv : n ∈ lb1.act := by
              rw [ha1]
              rcases hm with ⟨_, h⟩ | ⟨hleg, h⟩
              · rw [h]; exact hn0
              · rw [h]
                -- not forced: no forced break is skipped
                have hnf : isForced P it = false := by
                  have := hns.1 b (fun a ha => (hprev a ha).1) hxb
                  rwa [forcedAt_eq hit] at this
                -- the line to x is feasible, hence the line to b is not too long
                have hcx := hcost
                simp only [seqCost] at hcx
                cases hix : items[x]? with
                | none => rw [hix] at hcx; cases hcx
                | some itx =>
                  rw [hix] at hcx
                  simp only at hcx
                  split at hcx
                  · rename_i hlegx
                    split at hcx
                    · cases hcx
                    · rename_i r hr
                      split at hcx
                      · rename_i hf
                        have hpb : ∀ a, prev = some a → a < b ∧ legalAt P items a = true := hprev
                        have hpx : ∀ a, prev = some a → a < x ∧ legalAt P items a = true :=
                          fun a ha => ⟨Nat.lt_trans (hprev a ha).1 hxb, (hprev a ha).2⟩
                        obtain ⟨hyb, hzb⟩ := afterSums_le P items lineW hwf prev b hpb hleg
                        obtain ⟨hyx, hzx⟩ := afterSums_le P items lineW hwf prev x hpx hlegx
                        apply keep_step P items lineW tol b it rest lb0 n prev hwf.inf hwf.lw hwf.epsNonneg hIc.sums hn0 hat hnf hyb hzb
                          (hwf.snap prev b it hit (fun a ha => legalAt_lt (hprev a ha).2))
                        intro h1
                        obtain ⟨_, _, _, hmono⟩ := pre_mono items hwf.itemsOK b (x - b)
                        have e : b + (x - b) = x := by omega
                        rw [e] at hmono
                        have h2 : lineW < ((pre items x).1 - (afterSums P items prev).1) -
                            ((pre items x).2.2 - (afterSums P items prev).2.2) := by linarith
                        have h3 := tooLong_of P lineW itx _ (pre items x).2.1 _ _ (afterSums P items prev).2.1 _
                          (hwf.itemsOK itx (List.mem_of_getElem? hix)).1 hzx hwf.inf h2
                        rw [hwf.snap prev x itx hix (fun a ha => legalAt_lt (hprev a ha).2)] at hr
                        rw [hr] at h3
                        rcases h3 with h3 | ⟨r', h3, hr'⟩
                        · cases h3
                        · cases h3
                          unfold feasAt at hf
                          simp only [Bool.and_eq_true, decide_eq_true_eq] at hf
                          exact absurd hr' (not_lt.mpr hf.1)
                      · cases hcx
                  · cases hcx
            exact ⟨prev, fit, acc, x :: seq', hnext, hpw, hns,
              fun a ha => ⟨Nat.lt_succ_of_lt (hprev a ha).1, (hprev a ha).2⟩,
              (fun he => by cases he), hlast, hcost, n, hsurv, hat, hdom⟩
      obtain ⟨prev', fit', acc', seq', k1, k2, k3, k4, k5, k6, k7, n', hn', hat', hdom'⟩ := key
      have h2 : drastic P tol b it rest lb1 = some lb1 := drastic_id P tol b it rest lb1 n' hn'
      rw [h2]
      simp only
      have h1' : itemStep P items lineW tol b (prevOf items b) it rest (clearStale P (prevOf items b) lb) = some lb1 := by
        rw [hlb0]; exact h1
      have hI2 := step_inv (fun a => beq_self_eq_true a) P items lineW tol b it rest lb lb1 lb1 hdrop hI h1' h2
      obtain ⟨_, g2, _, _, g5⟩ := addGlue_spec it lb1
      have hprevb : prevOf items (b + 1) = some it := hit
      rw [← hprevb]
      obtain ⟨lbf, hp, hov, hres⟩ := ih (b + 1) (addGlue it lb1) prev' fit' acc' seq' d (drop_succ_of_drop hdrop) hblt hI2
        k1 k2 k3 k4 k5 k6 k7 ⟨n', by rw [g2]; exact hn', hat', hdom'⟩
      refine ⟨lbf, hp, ?_, hres⟩
      rw [hov, g5, ho1, ← hcl.2]
      rcases hm with ⟨_, h⟩ | ⟨_, h⟩
      · rw [h]
      · rw [h]; rfl

end field
end Canvas.C17
