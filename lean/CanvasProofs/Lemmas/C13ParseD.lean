import CanvasProofs.Lemmas.C13ParseC

/-! C13 serialise-then-parse, part D: the round trip for value trees (mutual induction). -/
namespace C13L
open Canvas.C13 Canvas.C13.Rd Canvas.C13.P

/-- a value that does not "continue the name" starts with a delimiter -/
theorem ser_head_delim (v : Val) (hw : wf v = true) (hc : v.continues = false) (X : Bytes) : NR (ser v ++ X) := by
  intro c T' e
  cases v with
  | str s => simp only [ser, writeString, List.cons_append] at e; cases e; decide
  | name s => simp only [ser, List.cons_append] at e; cases e; decide
  | arr xs => simp only [ser, List.cons_append] at e; cases e; decide
  | dict kvs =>
    obtain ⟨r, e'⟩ := dictBytes_head (serKvs kvs)
    simp only [ser, e', List.cons_append] at e; cases e; decide
  | stream kvs body => simp [wf] at hw
  | bool b => simp [Val.continues] at hc
  | int i => simp [Val.continues] at hc
  | num p => simp [Val.continues] at hc
  | ref n => simp [Val.continues] at hc

mutual
  theorem rt_val : ∀ (v : Val) (f : Nat) (T : Bytes), wf v = true → Tail T → size v ≤ f →
      parseVal f (ser v ++ T) = some (norm v, T)
    | .bool b, f, T, _, hT, hf => by
      cases f with
      | zero => simp [size] at hf
      | succ f =>
        simp only [norm]
        have : ser (.bool b) = if b then kTrue else kFalse := by simp only [ser]; rfl
        rw [this]
        exact parse_kw f _ T b rfl hT
    | .int i, f, T, _, hT, hf => by
      cases f with
      | zero => simp [size] at hf
      | succ f => simp only [ser, norm]; exact parse_numTok f _ T (isNumTok_intBytes i) hT
    | .num p, f, T, hw, hT, hf => by
      cases f with
      | zero => simp [size] at hf
      | succ f => simp only [ser, norm]; exact parse_numTok f p T (by simpa only [wf] using hw) hT
    | .str s, f, T, _, _, hf => by
      cases f with
      | zero => simp [size] at hf
      | succ f =>
        simp only [ser, norm, writeString, List.cons_append, List.append_assoc, List.singleton_append]
        rw [parseVal.eq_def]
        simp only [skipWs_cons_of_not_ws _ (show isWS 0x28 = false by decide)]
        simp only [show (0x28 : UInt8) ≠ 0x2F by decide, if_false, if_true, List.nil_append, readLit_escStr s T]
    | .ref n, f, T, _, hT, hf => by
      cases f with
      | zero => simp [size] at hf
      | succ f => simp only [ser, norm]; exact parse_ref f n T hT
    | .name s, f, T, hw, hT, hf => by
      cases f with
      | zero => simp [size] at hf
      | succ f =>
        simp only [wf] at hw
        simp only [ser, norm, List.cons_append]
        rw [parseVal.eq_def]
        simp only [skipWs_cons_of_not_ws _ (show isWS 0x2F = false by decide), if_true, spanReg_append s T (nameOK_reg hw) hT.nr, nameOK_unesc hw]
    | .arr xs, f, T, hw, hT, hf => by
      cases f with
      | zero => simp [size] at hf
      | succ f =>
        simp only [wf] at hw
        simp only [size] at hf
        have hl := rt_list xs f T hw hT (by omega)
        have hbody : parseList f (arrBody xs T) = some (normList xs, T) := by
          cases xs with
          | nil => exact hl
          | cons v vs => rw [← hl]; simp only [arrBody, arrRest]; exact (parseList_ws f _).symm
        rw [ser_arr, parseVal.eq_def]
        simp only [skipWs_cons_of_not_ws _ (show isWS 0x5B = false by decide)]
        simp only [show (0x5B : UInt8) ≠ 0x2F by decide, show (0x5B : UInt8) ≠ 0x28 by decide, if_false, if_true, hbody, norm]
    | .dict kvs, f, T, hw, _, hf => by
      cases f with
      | zero => simp [size] at hf
      | succ f =>
        simp only [wf, Bool.and_eq_true] at hw
        simp only [size] at hf
        have hk := rt_kvs kvs f T hw.1 (by omega)
        rw [ser_dict kvs T hw.2, parseVal.eq_def]
        simp only [skipWs_cons_of_not_ws _ (show isWS 0x3C = false by decide)]
        simp only [show (0x3C : UInt8) ≠ 0x2F by decide, show (0x3C : UInt8) ≠ 0x28 by decide,
          show (0x3C : UInt8) ≠ 0x5B by decide, if_false, if_true, hk, norm]
    | .stream kvs body, _, _, hw, _, _ => by simp [wf] at hw
  theorem rt_list : ∀ (vs : List Val) (f : Nat) (T : Bytes), wfList vs = true → Tail T → sizeList vs ≤ f →
      parseList f (arrRest vs T) = some (normList vs, T)
    | [], f, T, _, _, hf => by
      cases f with
      | zero => simp [sizeList] at hf
      | succ f =>
        simp only [arrRest, normList]
        rw [parseList.eq_def]
        simp only [skipWs_cons_of_not_ws _ (show isWS 0x5D = false by decide), if_true]
    | v :: vs, f, T, hw, hT, hf => by
      cases f with
      | zero => simp [sizeList] at hf
      | succ f =>
        simp only [wfList, Bool.and_eq_true] at hw
        simp only [sizeList] at hf
        have hR := tail_arrRest vs T hw.2 hT
        have h1 := rt_val v f (arrRest vs T) hw.1 hR (by omega)
        have h2 := rt_list vs f T hw.2 hT (by omega)
        obtain ⟨c, r, e, hc⟩ := ser_head v hw.1
        simp only [arrRest, normList]
        rw [parseList_ws, parseList.eq_def]
        simp only [skipWs_ser v hw.1]
        rw [e] at h1 ⊢
        simp only [List.cons_append] at h1 ⊢
        simp only [hc.2.1, if_false, h1, h2]
  theorem rt_kvs : ∀ (kvs : List (Bytes × Val)) (f : Nat) (T : Bytes), wfKvs kvs = true → sizeKvs kvs ≤ f →
      parseKvs f (kvBody kvs T) = some (normKvs kvs, T)
    | [], f, T, _, hf => by
      cases f with
      | zero => simp [sizeKvs] at hf
      | succ f =>
        simp only [kvBody, normKvs]
        rw [parseKvs.eq_def]
        simp only [skipWs_cons_of_not_ws _ (show isWS 0x3E = false by decide), if_true]
    | (k, v) :: r, f, T, hw, hf => by
      cases f with
      | zero => simp [sizeKvs] at hf
      | succ f =>
        simp only [wfKvs, Bool.and_eq_true] at hw
        simp only [sizeKvs] at hf
        have hK := tail_kvBody r T
        have h1 := rt_val v f (kvBody r T) hw.1.2 hK (by omega)
        have h2 := rt_kvs r f T hw.2 (by omega)
        have hnr : NR ((if v.continues then [0x20] else []) ++ (ser v ++ kvBody r T)) := by
          cases hc : v.continues
          · simp only [Bool.false_eq_true, if_false, List.nil_append]
            exact ser_head_delim v hw.1.2 hc _
          · simp only [if_true]
            intro c T' e; cases e; decide
        have hv : parseVal f ((if v.continues then [0x20] else []) ++ (ser v ++ kvBody r T)) = some (norm v, kvBody r T) := by
          cases hc : v.continues
          · simpa using h1
          · simp only [if_true, List.cons_append, List.nil_append]
            rw [parseVal_ws]; exact h1
        simp only [kvBody, normKvs]
        rw [parseKvs.eq_def]
        simp only [skipWs_cons_of_not_ws _ (show isWS 0x2F = false by decide)]
        simp only [show (0x2F : UInt8) ≠ 0x3E by decide, if_false, if_true, spanReg_append k _ (nameOK_reg hw.1.1) hnr, nameOK_unesc hw.1.1, hv, h2]
end

end C13L
