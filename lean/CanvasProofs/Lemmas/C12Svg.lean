import CanvasProofs.Lemmas.C12
/-! C12, SVG: the presentation attributes `SVG.RenderPath` writes, read with the SVG initial values. -/
namespace Canvas.C12
section
variable {ν : Type} {N : Num ν}

theorem fillItems_apply (d : Draw ν) :
    (svgFillItems d).foldl svgApply (vg0 N) =
      { vg0 N with fill := (if d.hasFill then d.fill else .none), eo := (d.hasFill && d.evenOdd) } := by
  unfold svgFillItems
  by_cases hf : d.hasFill = true <;> by_cases hb : d.fill = .col black <;> by_cases he : d.evenOdd = true <;>
    simp_all [svgApply, vg0]

def widthItems (N : Num ν) (x : ν) : List (SItem ν) := if !N.beq x N.one then [SItem.width x] else []
def capItems (c : Nat) : List (SItem ν) := if c == 1 then [SItem.cap 1] else if c == 2 then [SItem.cap 2] else []
def dashItems (N : Num ν) (a : List ν) (o : ν) : List (SItem ν) :=
  if !a.isEmpty then [SItem.dasharray a] ++ (if !N.beq o N.zero then [SItem.dashoffset o] else []) else []

theorem svgStrokeItems_eq (d : Draw ν) :
    svgStrokeItems N d = [SItem.stroke d.stroke] ++ widthItems N (d.w' N d.join.svgOk) ++ capItems d.cap ++
      svgJoinItems N d.join ++ dashItems N (d.dashes' N d.join.svgOk) (d.off' N d.join.svgOk) := by
  simp [svgStrokeItems, widthItems, capItems, dashItems]

theorem widthItems_apply (x : ν) (g : VG ν) (hg : g.lw = N.one) :
    (widthItems N x).foldl svgApply g = { g with lw := if N.beq x N.one then N.one else x } := by
  obtain ⟨fl, eo, st, lw, cp, jn, ml, da, off, bad⟩ := g
  simp only at hg; subst hg
  unfold widthItems
  by_cases h : N.beq x N.one = true <;> simp [h, svgApply]

theorem capItems_apply (c : Nat) (hc : c ≤ 2) (g : VG ν) (hg : g.cap = 0) :
    (capItems (ν := ν) c).foldl svgApply g = { g with cap := c } := by
  obtain ⟨fl, eo, st, lw, cp, jn, ml, da, off, bad⟩ := g
  simp only at hg; subst hg
  unfold capItems
  have : c = 0 ∨ c = 1 ∨ c = 2 := by omega
  rcases this with rfl | rfl | rfl <;> simp [svgApply]

def svgJoinOf : Join ν → SvgJoin
  | .bevel => .bevel | .round => .round | .arcs _ _ => .arcs | .miter _ _ => .miter

theorem joinItems_apply (j : Join ν) (hj : j.svgOk = true) (g : VG ν) (hg : g.join = .miter) (hm : g.ml = none) :
    (svgJoinItems N j).foldl svgApply g =
      { g with join := svgJoinOf j, ml := svgLimit N j } := by
  obtain ⟨fl, eo, st, lw, cp, jn, ml, da, off, bad⟩ := g
  simp only at hg hm; subst hg; subst hm
  cases j with
  | bevel => simp [svgJoinItems, svgApply, svgLimit, svgJoinOf]
  | round => simp [svgJoinItems, svgApply, svgLimit, svgJoinOf]
  | arcs gp l =>
    cases l with
    | none => simp [Join.svgOk] at hj
    | some l => by_cases h : N.near4 l = true <;> simp [svgJoinItems, svgApply, svgLimit, svgJoinOf, h]
  | miter gp l =>
    cases l with
    | none => simp [Join.svgOk] at hj
    | some l => by_cases h : N.near4 l = true <;> simp [svgJoinItems, svgApply, svgLimit, svgJoinOf, h]

theorem dashItems_apply (a : List ν) (o : ν) (g : VG ν) (hd : g.dash = []) (ho : g.off = N.zero) :
    (dashItems N a o).foldl svgApply g =
      { g with dash := a, off := if a.isEmpty || N.beq o N.zero then N.zero else o } := by
  obtain ⟨fl, eo, st, lw, cp, jn, ml, da, off, bad⟩ := g
  simp only at hd ho; subst hd; subst ho
  unfold dashItems
  cases a with
  | nil => simp
  | cons x xs => by_cases h : N.beq o N.zero = true <;> simp [h, svgApply]

end
end Canvas.C12

namespace Canvas.C12
section
variable {ν : Type} {N : Num ν}

theorem strokeItems_apply (d : Draw ν) (hj : d.join.svgOk = true) (hc : d.cap ≤ 2) (g : VG ν)
    (h1 : g.lw = N.one) (h2 : g.cap = 0) (h3 : g.join = .miter) (h4 : g.ml = none) (h5 : g.dash = []) (h6 : g.off = N.zero) :
    (svgStrokeItems N d).foldl svgApply g =
      { g with stroke := d.stroke, lw := (if N.beq (d.w' N true) N.one then N.one else d.w' N true), cap := d.cap,
               join := svgJoinOf d.join, ml := svgLimit N d.join, dash := d.dashes' N true,
               off := (if (d.dashes' N true).isEmpty || N.beq (d.off' N true) N.zero then N.zero else d.off' N true) } := by
  obtain ⟨fl, eo, st, lw, cp, jn, ml, da, off, bad⟩ := g
  simp only at h1 h2 h3 h4 h5 h6
  subst h1; subst h2; subst h3; subst h4; subst h5; subst h6
  rw [svgStrokeItems_eq, hj]
  simp only [List.foldl_append, List.foldl_cons, List.foldl_nil, svgApply]
  rw [widthItems_apply _ _ rfl]
  rw [capItems_apply _ hc _ rfl]
  rw [joinItems_apply _ hj _ rfl rfl]
  rw [dashItems_apply _ _ _ rfl rfl]

theorem svgJoinNat_of (j : Join ν) : svgJoinNat (svgJoinOf j) = svgJoinCode j := by
  cases j <;> rfl

theorem svgLimit_keep (j : Join ν) :
    (if svgJoinOf j = SvgJoin.miter ∨ svgJoinOf j = SvgJoin.arcs then svgLimit N j else none) = svgLimit N j := by
  cases j <;> simp [svgJoinOf, svgLimit]

@[simp] theorem Paint.none_has : Paint.none.has = false := rfl

theorem svgElem_fillOnly (d : Draw ν) (r : PathRef) (st : Bool) :
    svgElem N { p := r, inStyle := st, items := svgFillItems d } =
      if d.hasFill then [Painted.fill [r] d.evenOdd (shadeOf d.fill) d.fill.alpha] else [] := by
  simp only [svgElem, fillItems_apply]
  by_cases hf : d.hasFill = true
  · have : d.fill.has = true := hf
    simp [hf, this, vg0]
  · simp [hf, vg0]

theorem svgElem_outline (p : Paint) (hp : p.has = true) (r : PathRef) :
    svgElem N { p := r, inStyle := false, items := (if p != .col black then [SItem.fill p] else []) } =
      [Painted.fill [r] false (shadeOf p) p.alpha] := by
  by_cases hb : p = .col black
  · subst hb; simp [svgElem, vg0, Paint.has]
  · simp [svgElem, vg0, svgApply, hb, hp]

/-- SVG: one `RenderPath` call read with the SVG initial values paints the reference, for every style and view -/
theorem svgDraw_refines (d : Draw ν) (hc : d.cap ≤ 2) : svgRun N (svgDraw N d) = svgRef N d := by
  unfold svgRun svgDraw svgRef
  by_cases hs : d.hasStroke N d.join.svgOk = true
  · have hsn : d.stroke.has = true := by simp [Draw.hasStroke] at hs; exact hs.1
    by_cases hn : d.native d.join.svgOk = true
    · have hj : d.join.svgOk = true := by simp [Draw.native] at hn; exact hn.1
      have hs' : d.hasStroke N true = true := hj ▸ hs
      have hn' : d.native true = true := hj ▸ hn
      simp only [hj, hs', hn', Bool.not_true, Bool.false_eq_true, if_false, if_true, Bool.and_false,
        List.append_nil, List.flatMap_cons, List.flatMap_nil, svgElem, List.foldl_append, fillItems_apply]
      rw [strokeItems_apply d hj hc _ rfl rfl rfl rfl rfl rfl]
      by_cases hf : d.hasFill = true
      · have : d.fill.has = true := hf
        simp [hf, this, hsn, vg0, svgJoinNat_of, svgLimit_keep]
      · simp [hf, hsn, vg0, svgJoinNat_of, svgLimit_keep]
    · simp only [hs, hn, Bool.not_true, Bool.not_false, Bool.false_eq_true, if_false, if_true, Bool.and_true,
        List.append_nil, List.cons_append, List.nil_append, List.flatMap_cons, List.flatMap_nil]
      rw [svgElem_fillOnly, svgElem_outline d.stroke hsn]
  · simp only [hs, Bool.not_false, Bool.false_eq_true, if_false, if_true, Bool.false_and, List.append_nil,
      List.flatMap_cons, List.flatMap_nil]
    rw [svgElem_fillOnly]

end
end Canvas.C12

namespace Canvas.C12
section
variable {ν : Type} {N : Num ν}

/-! ### gradient references resolve -/

theorem svgRegister_sub (p : Paint) (on : Bool) (st : List Nat × List Nat) : ∀ i ∈ st.1, i ∈ (svgRegister p on st).1 := by
  intro i hi
  cases p with
  | grad k =>
    simp only [svgRegister]
    split
    · simp [hi]
    · exact hi
  | none => exact hi
  | col c => exact hi

theorem svgRegister_mem (i : Nat) (st : List Nat × List Nat) : i ∈ (svgRegister (.grad i) true st).1 := by
  simp only [svgRegister]
  by_cases h : i ∈ st.1
  · simp [h]
  · simp [h]

theorem fillItems_grads (d : Draw ν) (i : Nat) (h : i ∈ (svgFillItems d).filterMap itemGrad) :
    d.hasFill = true ∧ d.fill = .grad i := by
  unfold svgFillItems at h
  by_cases hf : d.hasFill = true
  · by_cases hb : d.fill = .col black <;> by_cases he : d.evenOdd = true <;> simp_all [itemGrad] <;>
      (cases hfl : d.fill <;> simp_all [itemGrad])
  · simp_all [itemGrad]

theorem joinItems_grads (j : Join ν) : (svgJoinItems N j).filterMap itemGrad = [] := by
  cases j with
  | bevel => simp [svgJoinItems, itemGrad]
  | round => simp [svgJoinItems, itemGrad]
  | miter g l => cases l <;> simp [svgJoinItems, itemGrad] <;> split <;> simp [itemGrad]
  | arcs g l => cases l <;> simp [svgJoinItems, itemGrad] <;> split <;> simp [itemGrad]

theorem strokeItems_grads (d : Draw ν) (i : Nat) (h : i ∈ (svgStrokeItems N d).filterMap itemGrad) : d.stroke = .grad i := by
  rw [svgStrokeItems_eq] at h
  simp only [List.filterMap_append, List.mem_append, joinItems_grads] at h
  rcases h with (((h | h) | h) | h) | h
  · cases hs : d.stroke <;> simp_all [itemGrad]
  · unfold widthItems at h; split at h <;> simp [itemGrad] at h
  · unfold capItems at h; split at h <;> (try split at h) <;> simp [itemGrad] at h
  · simp at h
  · unfold dashItems at h; split at h <;> (try split at h) <;> simp [itemGrad] at h

/-- every `url(#p…)` a call writes refers to a gradient that is in the table after the call's `<defs>` step, i.e.
to a `<defs>` element written by this or an earlier call — provided a stroke that is drawn (scaled width > 0)
also has an unscaled width > 0 (true for every scale factor ≥ 0; otherwise `writePaint` itself would emit the
`<defs>` in the middle of the path element) -/
theorem svg_refs_defined (d : Draw ν) (pats : List Nat)
    (hsc : d.hasStroke N d.join.svgOk = true → N.lt N.zero d.width = true) :
    ∀ e ∈ svgDraw N d, ∀ i ∈ elemGrads e, i ∈ (svgDefs N d pats).1 := by
  intro e he i hi
  have hfill : d.hasFill = true → d.fill = .grad i → i ∈ (svgDefs N d pats).1 := by
    intro hf hg
    unfold svgDefs
    apply svgRegister_sub
    rw [hg, hf]
    exact svgRegister_mem i _
  have hstroke : d.hasStroke N d.join.svgOk = true → d.stroke = .grad i → i ∈ (svgDefs N d pats).1 := by
    intro hs hg
    unfold svgDefs
    have h1 : d.stroke.has = true := by simp [Draw.hasStroke] at hs; exact hs.1
    rw [hg] at h1 ⊢
    rw [h1, hsc hs]
    exact svgRegister_mem i _
  unfold svgDraw at he
  simp only [List.mem_append] at he
  rcases he with he | he
  · split at he
    · rename_i hs
      simp only [List.mem_singleton] at he
      subst he
      have := fillItems_grads d i (by simpa [elemGrads] using hi)
      exact hfill this.1 this.2
    · rename_i hs
      have hs' : d.hasStroke N d.join.svgOk = true := by simpa using hs
      simp only [List.mem_singleton] at he
      subst he
      simp only [elemGrads, List.filterMap_append, List.mem_append] at hi
      rcases hi with hi | hi
      · have := fillItems_grads d i hi
        exact hfill this.1 this.2
      · split at hi
        · exact hstroke hs' (strokeItems_grads d i hi)
        · simp at hi
  · split at he
    · rename_i hs
      have hs' : d.hasStroke N d.join.svgOk = true := by simp at hs; exact hs.1
      simp only [List.mem_singleton] at he
      subst he
      simp only [elemGrads] at hi
      split at hi
      · cases hst : d.stroke <;> simp_all [itemGrad]
      · simp at hi
    · simp at he

end
end Canvas.C12
