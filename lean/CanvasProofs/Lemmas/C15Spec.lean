import CanvasModel.C15
import CanvasProofs.Lemmas.C15Core
import CanvasProofs.Lemmas.C15Replay
/-!
# C15 — refinement of the Canvas model to an abstract specification without a map

* `Grouped cv` : the association list `layers` (model of the Go map z-index → slice of layers) *is*
  the recording-order log grouped by z-index (an equality; implies `WF`).
* `stableSortZ` : a stable insertion sort by z as specification; a list that is sorted by z and has
  the same per-z sublists is equal to it (`sorted_stable_unique`).
* `ACtx`/`specStep` : the abstract machine — a canvas is only its log; replay is the stably sorted
  log.  `refinement_step/_run`, `replay_refines`: the model refines it for arbitrary histories.
* nested canvases: `nested_replay_log`, `nested_replay`.
Generic in the scalar type and in `Ops`.
-/
namespace C15
open Canvas Canvas.C15
variable {α : Type}

/-! ## Part 1 — the map is the grouped log -/

def group (log : List (Int × Call α)) : List (Int × List (Call α)) :=
  log.foldl (fun l zc => assocAppend zc.1 zc.2 l) []

theorem group_append_one (log : List (Int × Call α)) (zc : Int × Call α) :
    group (log ++ [zc]) = assocAppend zc.1 zc.2 (group log) := by
  simp [group, List.foldl_append]

def Grouped (cv : Canvas α) : Prop := cv.layers = group cv.log

theorem Grouped_congr {cv cv' : Canvas α} (h1 : cv'.layers = cv.layers) (h2 : cv'.log = cv.log) :
    Grouped cv → Grouped cv' := by
  intro h; unfold Grouped at *; rw [h1, h2]; exact h

theorem Grouped_new (W H : α) : Grouped (newCanvas W H) := rfl

theorem Grouped_render (cv : Canvas α) (c : Call α) : Grouped cv → Grouped (cv.render c) := by
  intro h
  show assocAppend cv.z c cv.layers = group (cv.log ++ [(cv.z, c)])
  rw [group_append_one, ← h]

theorem assocAppend_map (f : Call α → Call α) (z : Int) (c : Call α) (l : List (Int × List (Call α))) :
    (assocAppend z c l).map (fun kl => (kl.1, kl.2.map f)) =
      assocAppend z (f c) (l.map (fun kl => (kl.1, kl.2.map f))) := by
  induction l with
  | nil => simp [assocAppend]
  | cons kl rest ih =>
    obtain ⟨k, ks⟩ := kl
    simp only [assocAppend, List.map_cons]
    split
    · simp
    · simp [ih]

theorem foldl_group_map (f : Call α → Call α) (log : List (Int × Call α)) (acc : List (Int × List (Call α))) :
    (log.map (fun zc => (zc.1, f zc.2))).foldl (fun l zc => assocAppend zc.1 zc.2 l)
        (acc.map (fun kl => (kl.1, kl.2.map f))) =
      (log.foldl (fun l zc => assocAppend zc.1 zc.2 l) acc).map (fun kl => (kl.1, kl.2.map f)) := by
  induction log generalizing acc with
  | nil => rfl
  | cons zc rest ih =>
    simp only [List.map_cons, List.foldl_cons]
    rw [← assocAppend_map, ih]

theorem group_map (f : Call α → Call α) (log : List (Int × Call α)) :
    group (log.map (fun zc => (zc.1, f zc.2))) = (group log).map (fun kl => (kl.1, kl.2.map f)) := by
  have := foldl_group_map f log []
  simpa [group] using this

theorem Grouped_transform (o : Ops α) (m : Mat α) (cv : Canvas α) : Grouped cv → Grouped (cv.transform o m) := by
  intro h
  show cv.layers.map (fun kl => (kl.1, kl.2.map (Call.pre o m))) = group (cv.log.map (fun zc => (zc.1, Call.pre o m zc.2)))
  rw [group_map, ← h]

theorem Grouped_clip (o : Ops α) (r : Rct α) (cv : Canvas α) : Grouped cv → Grouped (cv.clip o r) := fun h =>
  Grouped_congr (cv := cv.transform o (o.translate o.ident (o.neg r.x0) (o.neg r.y0))) rfl rfl (Grouped_transform o _ cv h)

theorem Grouped_fit (o : Ops α) (margin : α) (cv : Canvas α) : Grouped cv → Grouped (cv.fit o margin) :=
  Grouped_clip o _ cv

theorem Grouped_reset (cv : Canvas α) : Grouped cv → Grouped cv.reset := fun _ => rfl

theorem Grouped_foldl_render (calls : List (Call α)) (cv : Canvas α) :
    Grouped cv → Grouped (calls.foldl Canvas.render cv) := by
  induction calls generalizing cv with
  | nil => exact id
  | cons k ks ih => intro h; exact ih _ (Grouped_render cv k h)

theorem Grouped_renderInto (o : Ops α) (src : Canvas α) (view : Mat α) (dst : Canvas α) :
    Grouped dst → Grouped (src.renderInto o view dst) := Grouped_foldl_render _ dst

theorem Grouped_emitAll (c : Ctx α) (ks : List (Call α)) : Grouped c.cv → Grouped (emitAll c ks).cv := by
  induction ks generalizing c with
  | nil => exact id
  | cons k ks ih => intro h; exact ih _ (Grouped_render c.cv k h)

theorem Grouped_step (o : Ops α) (op : Op α) (c : Ctx α) : Grouped c.cv → Grouped (step o op c).cv := by
  intro h
  by_cases hd : op.isDraw = true
  · rw [step_draw o op c hd]; exact Grouped_emitAll c _ h
  · have hd' : op.isDraw = false := by simpa using hd
    by_cases hc : op.isCanvasOp = true
    · cases op <;> simp [Op.isCanvasOp] at hc
      · exact Grouped_transform o _ c.cv h
      · exact Grouped_clip o _ c.cv h
      · exact Grouped_fit o _ c.cv h
      · exact Grouped_reset c.cv h
      · exact Grouped_renderInto o c.cv _ _ (Grouped_new _ _)
    · have hc' : op.isCanvasOp = false := by simpa using hc
      have := step_cv_of_setter o op c hd' hc'
      exact Grouped_congr this.1 this.2.1 h

theorem Grouped_run (o : Ops α) (h : List (Op α)) (c : Ctx α) : Grouped c.cv → Grouped (run o h c).cv := by
  induction h generalizing c with
  | nil => exact id
  | cons op ops ih => intro hg; exact ih _ (Grouped_step o op c hg)

/-- appending log entries one by one keeps `WF` -/
theorem WF_foldl_append (ks : List (Int × Call α)) (cv : Canvas α) (hw : WF cv) :
    WF { cv with layers := ks.foldl (fun l zc => assocAppend zc.1 zc.2 l) cv.layers, log := cv.log ++ ks } := by
  induction ks generalizing cv with
  | nil => simpa using hw
  | cons zc rest ih =>
    have h1 : WF (({ cv with z := zc.1 } : Canvas α).render zc.2) := WF_render _ _ (WF_setZ cv zc.1 hw)
    have := ih _ h1
    refine WF_congr ?_ ?_ this
    · rfl
    · simp [Canvas.render]

theorem Grouped_WF (cv : Canvas α) : Grouped cv → WF cv := by
  intro h
  have := WF_foldl_append cv.log (newCanvas cv.W cv.H) (WF_new _ _)
  refine WF_congr ?_ ?_ this
  · exact h
  · simp [newCanvas]

/-! ## Part 2 — stable sort by z as specification -/

/-- insert before the first element whose key is not smaller -/
def insertZ {β : Type} (x : Int × β) : List (Int × β) → List (Int × β)
  | [] => [x]
  | y :: ys => if x.1 ≤ y.1 then x :: y :: ys else y :: insertZ x ys

/-- stable insertion sort by the `Int` key: `stableSortZ (x :: xs) = insertZ x (stableSortZ xs)` puts
`x` in front of all elements of `xs` with an equal key, so equal keys keep their input order -/
def stableSortZ {β : Type} (l : List (Int × β)) : List (Int × β) := l.foldr insertZ []

theorem insertZ_perm {β : Type} (x : Int × β) (l : List (Int × β)) : (insertZ x l).Perm (x :: l) := by
  induction l with
  | nil => exact List.Perm.refl _
  | cons y ys ih =>
    simp only [insertZ]
    split
    · exact List.Perm.refl _
    · exact (List.Perm.cons y ih).trans (List.Perm.swap x y ys)

theorem stableSortZ_perm {β : Type} (l : List (Int × β)) : (stableSortZ l).Perm l := by
  induction l with
  | nil => exact List.Perm.refl _
  | cons x xs ih => exact (insertZ_perm x _).trans (List.Perm.cons x ih)

theorem insertZ_sorted {β : Type} (x : Int × β) (l : List (Int × β)) (h : l.Pairwise (fun a b => a.1 ≤ b.1)) :
    (insertZ x l).Pairwise (fun a b => a.1 ≤ b.1) := by
  induction l with
  | nil => simp [insertZ]
  | cons y ys ih =>
    simp only [insertZ]
    have hy := List.pairwise_cons.mp h
    split
    · rename_i hk
      refine List.pairwise_cons.mpr ⟨?_, h⟩
      intro z hz
      rcases List.mem_cons.mp hz with rfl | hz
      · exact hk
      · exact Int.le_trans hk (hy.1 z hz)
    · rename_i hk
      refine List.pairwise_cons.mpr ⟨?_, ih hy.2⟩
      intro z hz
      rcases List.mem_cons.mp ((insertZ_perm x ys).mem_iff.mp hz) with rfl | hz
      · omega
      · exact hy.1 z hz

theorem stableSortZ_sorted {β : Type} (l : List (Int × β)) : (stableSortZ l).Pairwise (fun a b => a.1 ≤ b.1) := by
  induction l with
  | nil => simp [stableSortZ]
  | cons x xs ih => exact insertZ_sorted x _ ih

theorem filter_insertZ {β : Type} (x : Int × β) (l : List (Int × β)) (k : Int) :
    (insertZ x l).filter (fun a => decide (a.1 = k)) =
      if x.1 = k then x :: l.filter (fun a => decide (a.1 = k)) else l.filter (fun a => decide (a.1 = k)) := by
  induction l with
  | nil => by_cases hx : x.1 = k <;> simp [insertZ, hx]
  | cons y ys ih =>
    simp only [insertZ]
    split
    · by_cases hx : x.1 = k <;> simp [List.filter_cons, hx]
    · rename_i hk
      rw [List.filter_cons, ih]
      by_cases hx : x.1 = k
      · have hy : ¬ y.1 = k := by omega
        simp [hx, hy, List.filter_cons]
      · simp [hx, List.filter_cons]

theorem stableSortZ_stable {β : Type} (l : List (Int × β)) (k : Int) :
    (stableSortZ l).filter (fun a => decide (a.1 = k)) = l.filter (fun a => decide (a.1 = k)) := by
  induction l with
  | nil => rfl
  | cons x xs ih =>
    show (insertZ x (stableSortZ xs)).filter _ = _
    rw [filter_insertZ, ih]
    by_cases hx : x.1 = k <;> simp [hx, List.filter_cons]

/-- a list sorted by key is determined by its per-key sublists -/
theorem sorted_stable_unique {β : Type} (l1 l2 : List (Int × β))
    (h1 : l1.Pairwise (fun a b => a.1 ≤ b.1)) (h2 : l2.Pairwise (fun a b => a.1 ≤ b.1))
    (hf : ∀ k : Int, l1.filter (fun a => decide (a.1 = k)) = l2.filter (fun a => decide (a.1 = k))) : l1 = l2 := by
  induction l1 generalizing l2 with
  | nil =>
    cases l2 with
    | nil => rfl
    | cons y ys => have := hf y.1; simp [List.filter_cons] at this
  | cons x xs ih =>
    cases l2 with
    | nil => have := hf x.1; simp [List.filter_cons] at this
    | cons y ys =>
      have hx := List.pairwise_cons.mp h1
      have hy := List.pairwise_cons.mp h2
      have hxy : x.1 = y.1 := by
        rcases Int.lt_trichotomy x.1 y.1 with hlt | heq | hgt
        · -- x is in l1's filter at x.1 but nothing of l2 has that key
          have := hf x.1
          have hne : ¬ y.1 = x.1 := by omega
          have hys : ys.filter (fun a => decide (a.1 = x.1)) = [] := by
            apply List.filter_eq_nil_iff.mpr
            intro a ha
            have := hy.1 a ha
            simp; omega
          simp [List.filter_cons, hne, hys] at this
        · exact heq
        · have := hf y.1
          have hne : ¬ x.1 = y.1 := by omega
          have hxs : xs.filter (fun a => decide (a.1 = y.1)) = [] := by
            apply List.filter_eq_nil_iff.mpr
            intro a ha
            have := hx.1 a ha
            simp; omega
          simp [List.filter_cons, hne, hxs] at this
      have hk := hf x.1
      simp only [List.filter_cons, hxy, decide_true, if_true] at hk
      have hk' : y.1 = y.1 := rfl
      simp only [List.cons.injEq] at hk
      obtain ⟨hxy2, _⟩ := hk
      subst hxy2
      congr 1
      apply ih ys hx.2 hy.2
      intro k
      have := hf k
      by_cases hkx : x.1 = k
      · simp only [List.filter_cons, hkx, decide_true, if_true, List.cons.injEq, true_and] at this
        exact this
      · simp only [List.filter_cons, hkx, decide_false] at this
        simpa using this

theorem insertZ_map {β γ : Type} (g : β → γ) (x : Int × β) (l : List (Int × β)) :
    insertZ (x.1, g x.2) (l.map (fun a => (a.1, g a.2))) = (insertZ x l).map (fun a => (a.1, g a.2)) := by
  induction l with
  | nil => rfl
  | cons y ys ih =>
    simp only [List.map_cons, insertZ]
    split
    · rfl
    · simp [ih]

theorem stableSortZ_map {β γ : Type} (g : β → γ) (l : List (Int × β)) :
    stableSortZ (l.map (fun a => (a.1, g a.2))) = (stableSortZ l).map (fun a => (a.1, g a.2)) := by
  induction l with
  | nil => rfl
  | cons x xs ih =>
    show insertZ (x.1, g x.2) (stableSortZ (xs.map _)) = (insertZ x (stableSortZ xs)).map _
    rw [ih, insertZ_map]

/-- the replay of a well-formed canvas IS the stable sort of its log -/
theorem replayZ_eq_stableSort (o : Ops α) (view : Mat α) (cv : Canvas α) (hw : WF cv) :
    replayZ o view cv = stableSortZ (cv.log.map (fun zc => (zc.1, Call.pre o view zc.2))) := by
  apply sorted_stable_unique _ _ (replay_sorted o view cv hw) (stableSortZ_sorted _)
  intro k
  rw [replay_stable o view cv hw k, stableSortZ_stable, List.filter_map]
  rfl

theorem renderViewTo_eq_spec (o : Ops α) (view : Mat α) (cv : Canvas α) (hw : WF cv) :
    cv.renderViewTo o view = (stableSortZ cv.log).map (fun zc => Call.pre o view zc.2) := by
  rw [← replayZ_snd, replayZ_eq_stableSort o view cv hw, stableSortZ_map (Call.pre o view), List.map_map]
  rfl

/-! ## Part 3 — the abstract machine and the refinement -/

structure ACanvas (α : Type) where
  log : List (Int × Call α)
  z : Int
  W : α
  H : α

structure ACtx (α : Type) where
  st : CState α
  stack : List (CState α)
  cv : ACanvas α
  emitted : List (Call α)

def absCanvas (cv : Canvas α) : ACanvas α := ⟨cv.log, cv.z, cv.W, cv.H⟩
def absCtx (c : Ctx α) : ACtx α := ⟨c.st, c.stack, absCanvas c.cv, c.emitted⟩

/-- the canonical concretisation -/
def conc (a : ACtx α) : Ctx α :=
  ⟨a.st, a.stack, ⟨group a.cv.log, a.cv.z, a.cv.W, a.cv.H, a.cv.log⟩, a.emitted⟩

/-- replay of an abstract canvas: the recorded calls in ascending z, then drawing order, each
pre-multiplied by the view -/
def ACanvas.replay (o : Ops α) (view : Mat α) (a : ACanvas α) : List (Call α) :=
  (stableSortZ a.log).map (fun zc => Call.pre o view zc.2)

def ACanvas.mapCalls (f : Call α → Call α) (a : ACanvas α) : ACanvas α :=
  { a with log := a.log.map (fun zc => (zc.1, f zc.2)) }

def ACanvas.clip (o : Ops α) (r : Rct α) (a : ACanvas α) : ACanvas α :=
  { a.mapCalls (Call.pre o (o.translate o.ident (o.neg r.x0) (o.neg r.y0))) with
    W := o.sub r.x1 r.x0, H := o.sub r.y1 r.y0 }

/-- the specification of one history operation -/
def specStep (o : Ops α) (op : Op α) (a : ACtx α) : ACtx α :=
  if op.isDraw then
    let ks := drawCalls o op (conc a)
    { a with emitted := a.emitted ++ ks,
             cv := { a.cv with log := a.cv.log ++ ks.map (fun k => (a.cv.z, k)) } }
  else
    match op with
    | .setZIndex z => { a with cv := { a.cv with z := z } }
    | .cvTransform m => { a with cv := a.cv.mapCalls (Call.pre o m) }
    | .cvClip r => { a with cv := a.cv.clip o r }
    | .cvFit margin =>
      let r := fitRect o (group a.cv.log)
      { a with cv := a.cv.clip o ⟨o.sub r.x0 margin, o.sub r.y0 margin, o.add r.x1 margin, o.add r.y1 margin⟩ }
    | .cvReset => { a with cv := { a.cv with log := [] } }
    | .cvNest view =>
      { a with cv := { a.cv with log := (a.cv.replay o view).map (fun k => ((0 : Int), k)), z := 0 } }
    | op => { a with st := (step o op (conc a)).st, stack := (step o op (conc a)).stack }

def specRun (o : Ops α) : List (Op α) → ACtx α → ACtx α
  | [], a => a
  | op :: ops, a => specRun o ops (specStep o op a)

theorem conc_abs (c : Ctx α) (hg : Grouped c.cv) : conc (absCtx c) = c := by
  obtain ⟨st, stack, ⟨layers, z, W, H, log⟩, emitted⟩ := c
  simp only [conc, absCtx, absCanvas]
  have : group log = layers := hg.symm
  rw [this]

theorem foldl_render_log (ks : List (Call α)) (dst : Canvas α) :
    (ks.foldl Canvas.render dst).log = dst.log ++ ks.map (fun k => (dst.z, k)) ∧
    (ks.foldl Canvas.render dst).z = dst.z ∧ (ks.foldl Canvas.render dst).W = dst.W ∧
    (ks.foldl Canvas.render dst).H = dst.H := by
  induction ks generalizing dst with
  | nil => simp
  | cons k ks ih =>
    have := ih (dst.render k)
    simp only [List.foldl_cons]
    refine ⟨?_, this.2.1, this.2.2.1, this.2.2.2⟩
    rw [this.1]; simp [Canvas.render]

/-- nested canvases: the fresh canvas records the stably sorted replay under its z-index 0 -/
theorem nested_replay_log (o : Ops α) (src : Canvas α) (view : Mat α) (W H : α) (hw : WF src) :
    (src.renderInto o view (newCanvas W H)).log =
      (stableSortZ src.log).map (fun zc => ((0 : Int), Call.pre o view zc.2)) := by
  unfold Canvas.renderInto
  rw [(foldl_render_log _ _).1, renderViewTo_eq_spec o view src hw]
  simp [newCanvas, List.map_map, Function.comp_def]

theorem refinement_nest (o : Ops α) (c : Ctx α) (hg : Grouped c.cv) (view : Mat α) :
    absCtx (step o (.cvNest view) c) =
      { absCtx c with cv := { (absCtx c).cv with
          log := ((absCtx c).cv.replay o view).map (fun k => ((0 : Int), k)), z := 0 } } := by
  have hw := Grouped_WF c.cv hg
  have h1 := nested_replay_log o c.cv view c.cv.W c.cv.H hw
  have h2 := foldl_render_log (c.cv.renderViewTo o view) (newCanvas c.cv.W c.cv.H)
  simp only [step, absCtx, absCanvas, ACanvas.replay]
  simp only [Canvas.renderInto] at h1 ⊢
  rw [h1, h2.2.1, h2.2.2.1, h2.2.2.2]
  simp [newCanvas, List.map_map, Function.comp_def]

theorem refinement_step (o : Ops α) (op : Op α) (c : Ctx α) (hg : Grouped c.cv) :
    absCtx (step o op c) = specStep o op (absCtx c) := by
  by_cases hd : op.isDraw = true
  · simp only [specStep, hd, if_true, conc_abs c hg]
    rw [step_draw o op c hd]
    simp only [absCtx, absCanvas, emitAll_st, emitAll_stack, emitAll_emitted, emitAll_log, emitAll_z, emitAll_W, emitAll_H]
  · have hd' : op.isDraw = false := by simpa using hd
    have hc := conc_abs c hg
    cases op <;> simp [Op.isDraw] at hd' <;> simp only [specStep, Op.isDraw, Bool.false_eq_true, if_false, hc] <;>
      first
      | rfl
      | (simp only [step]; split <;> rfl)
      | (simp only [step, absCtx, absCanvas, Canvas.fit, Canvas.clip, Canvas.transform, ACanvas.clip, ACanvas.mapCalls]
         rw [← hg])
      | exact refinement_nest o c hg _

theorem refinement_run (o : Ops α) (h : List (Op α)) (c : Ctx α) (hg : Grouped c.cv) :
    absCtx (run o h c) = specRun o h (absCtx c) := by
  induction h generalizing c with
  | nil => rfl
  | cons op ops ih =>
    show absCtx (run o ops (step o op c)) = specRun o ops (specStep o op (absCtx c))
    rw [ih _ (Grouped_step o op c hg), refinement_step o op c hg]

/-- for every history: what `RenderViewTo` emits is the replay of the abstract machine's canvas -/
theorem replay_refines (o : Ops α) (h : List (Op α)) (W H : α) (view : Mat α) :
    (run o h (newContext o (newCanvas W H))).cv.renderViewTo o view
      = ACanvas.replay o view (specRun o h (absCtx (newContext o (newCanvas W H)))).cv := by
  have hg : Grouped (run o h (newContext o (newCanvas W H))).cv := Grouped_run o h _ (Grouped_new W H)
  rw [← refinement_run o h _ (Grouped_new W H)]
  exact renderViewTo_eq_spec o view _ (Grouped_WF _ hg)

/-! ## Part 4 — nested canvases flatten -/

theorem stableSortZ_const {β : Type} (l : List (Int × β)) (k : Int) (h : ∀ a ∈ l, a.1 = k) : stableSortZ l = l := by
  induction l with
  | nil => rfl
  | cons x xs ih =>
    show insertZ x (stableSortZ xs) = x :: xs
    rw [ih (fun a ha => h a (List.mem_cons_of_mem _ ha))]
    cases xs with
    | nil => rfl
    | cons y ys =>
      have hx := h x (List.mem_cons_self ..)
      have hy := h y (List.mem_cons_of_mem _ (List.mem_cons_self ..))
      simp [insertZ, hx, hy]

/-- rendering a canvas into a fresh one and replaying that through `view2` is replaying the original
through `view2 · view` (for an associative matrix product) -/
theorem nested_replay (o : Ops α) (hassoc : ∀ a b c : Mat α, o.mmul (o.mmul a b) c = o.mmul a (o.mmul b c))
    (src : Canvas α) (view view2 : Mat α) (W H : α) (hw : WF src) :
    (src.renderInto o view (newCanvas W H)).renderViewTo o view2 = src.renderViewTo o (o.mmul view2 view) := by
  have hw2 : WF (src.renderInto o view (newCanvas W H)) := WF_renderInto o src view _ (WF_new W H)
  rw [renderViewTo_eq_spec o view2 _ hw2, nested_replay_log o src view W H hw, renderViewTo_eq_spec o _ src hw]
  rw [stableSortZ_const _ 0 (by intro a ha; simp at ha; obtain ⟨_, _, _, rfl⟩ := ha; rfl)]
  simp only [List.map_map]
  apply List.map_congr_left
  intro a _
  simp [Function.comp, Call.pre, hassoc]

end C15
