import CanvasProofs.Lemmas.C06Chain
set_option linter.unusedSimpArgs false
set_option linter.unusedVariables false

/-! # C06 — the boundary flag: `windings(RayIntersections)` reports a boundary exactly when the
query point lies on a segment of the subpath (for every flat subpath, open or closed, no general
position needed): every hit lies at or right of the query point, a hit is at the query point iff
T[0] = 0, the stable sort brings a smallest hit to the front, and `windings` sets the flag from there. -/
namespace Canvas.C06
open Canvas.Wn

/-- the rotation at the Close command either leaves the list alone or moves its last element to the front -/
theorem rotateStart_cases (p v0 : IPt) (hs : List Hit) :
    rotateStart p v0 hs = hs ∨ ∃ ys hl, hs = ys ++ [hl] ∧ rotateStart p v0 hs = hl :: ys := by
  unfold rotateStart
  split
  · rename_i h0 h1 tl
    split
    · rename_i hl hget
      split
      · right
        obtain ⟨ys, hys⟩ := List.getLast?_eq_some_iff.mp hget
        exact ⟨ys, hl, hys, by rw [hys, List.dropLast_concat]⟩
      · left; rfl
    · left; rfl
  · left; rfl

theorem mem_rotateStart (p v0 : IPt) (hs : List Hit) (g : Hit) :
    g ∈ rotateStart p v0 hs ↔ g ∈ hs := by
  rcases rotateStart_cases p v0 hs with h | ⟨ys, hl, h1, h2⟩
  · rw [h]
  · rw [h2, h1]; simp [or_comm]

theorem mem_subHits (closed : Bool) (p : IPt) (poly : List IPt) (g : Hit) :
    g ∈ subHits closed p poly ↔ g ∈ chainHits p (subpathVerts closed poly) := by
  cases poly with
  | nil => simp [subHits, subpathVerts, chainHits]
  | cons a r =>
    cases closed with
    | false => simp [subHits, subpathVerts]
    | true => simp only [subHits, if_true]; exact mem_rotateStart p a _ g

/-- p lies on a non-degenerate segment of the chain -/
def onChain (p : IPt) : List IPt → Prop
  | a :: b :: rest => (a ≠ b ∧ onSeg p a b) ∨ onChain p (b :: rest)
  | _ => False

theorem hitX_sub (p a b : IPt) (hne : a.y ≠ b.y) :
    (hitX p a b - (p.x : Rat)) * ((b.y - a.y : Int) : Rat) = ((isLeft a b p : Int) : Rat) := by
  have hd : ((b.y - a.y : Int) : Rat) ≠ 0 := by
    intro h0
    have : (b.y - a.y : Int) = 0 := by exact_mod_cast h0
    omega
  simp only [hitX, isLeft]
  push_cast at hd ⊢
  field_simp
  ring

/-- the hit of a non-horizontal segment lies at or right of the query point iff `side ≥ 0`, and at
the query point iff `side = 0` -/
theorem hitX_side (p a b : IPt) (hne : a.y ≠ b.y) :
    (0 ≤ side p a b → (p.x : Rat) ≤ hitX p a b) ∧ (side p a b = 0 ↔ hitX p a b = (p.x : Rat)) := by
  have h := hitX_sub p a b hne
  simp only [side]
  by_cases hup : a.y < b.y
  · have hdpos : (0 : Rat) < ((b.y - a.y : Int) : Rat) := by exact_mod_cast (by omega : (0:Int) < b.y - a.y)
    simp only [hup, if_true]
    constructor
    · intro hs
      have : (0 : Rat) ≤ ((isLeft a b p : Int) : Rat) := by exact_mod_cast hs
      rw [← h] at this
      have := nonneg_of_mul_nonneg_left this hdpos
      linarith
    · constructor
      · intro hs
        have : ((isLeft a b p : Int) : Rat) = 0 := by exact_mod_cast hs
        rw [← h] at this
        rcases mul_eq_zero.mp this with h1 | h1
        · linarith
        · exact absurd h1 (ne_of_gt hdpos)
      · intro hx
        rw [hx, sub_self, zero_mul] at h
        exact_mod_cast h.symm
  · have hdneg : ((b.y - a.y : Int) : Rat) < 0 := by exact_mod_cast (by omega : b.y - a.y < (0:Int))
    simp only [hup, if_false]
    constructor
    · intro hs
      have : ((isLeft a b p : Int) : Rat) ≤ 0 := by exact_mod_cast (by omega : isLeft a b p ≤ 0)
      rw [← h] at this
      have := nonneg_of_mul_nonpos_left this hdneg
      linarith
    · constructor
      · intro hs
        have : ((isLeft a b p : Int) : Rat) = 0 := by exact_mod_cast (by omega : isLeft a b p = 0)
        rw [← h] at this
        rcases mul_eq_zero.mp this with h1 | h1
        · linarith
        · exact absurd h1 (ne_of_lt hdneg)
      · intro hx
        rw [hx, sub_self, zero_mul] at h
        have : isLeft a b p = 0 := by exact_mod_cast h.symm
        omega

/-- a point on the line of a non-horizontal segment within its y-range is within its x-range -/
private theorem collinear_x_le (ax ay bx b_y px py : Int)
    (h0 : isLeft ⟨ax, ay⟩ ⟨bx, b_y⟩ ⟨px, py⟩ = 0) (hy : min ay b_y ≤ py ∧ py ≤ max ay b_y)
    (hne : ay ≠ b_y) : px ≤ max ax bx := by
  simp only [isLeft] at h0
  by_contra hc
  have h1 : ax < px := by omega
  have h2 : bx < px := by omega
  by_cases hup : ay < b_y
  · have t0 : 0 ≤ py - ay := by omega
    have t1 : 0 ≤ b_y - py := by omega
    nlinarith [mul_nonneg t0 (by omega : (0:Int) ≤ px - bx - 1 + 1), mul_nonneg t1 (by omega : (0:Int) ≤ px - ax),
      mul_pos (by omega : (0:Int) < b_y - ay) (by omega : (0:Int) < px - ax),
      mul_pos (by omega : (0:Int) < b_y - ay) (by omega : (0:Int) < px - bx)]
  · have t0 : 0 ≤ ay - py := by omega
    have t1 : 0 ≤ py - b_y := by omega
    nlinarith [mul_nonneg t0 (by omega : (0:Int) ≤ px - bx), mul_nonneg t1 (by omega : (0:Int) ≤ px - ax),
      mul_pos (by omega : (0:Int) < ay - b_y) (by omega : (0:Int) < px - ax),
      mul_pos (by omega : (0:Int) < ay - b_y) (by omega : (0:Int) < px - bx)]

/-- one segment, any query point: hits lie at or right of the point; T[0] = 0 iff at the point; and
there is such a hit iff the point lies on the segment -/
theorem edge_boundary (p a b : IPt) (hne : a ≠ b) :
    (∀ h ∈ edgeHits p a b, (p.x : Rat) ≤ h.x ∧ (h.t0zero = true ↔ h.x = (p.x : Rat))) ∧
    ((∃ h ∈ edgeHits p a b, h.t0zero = true) ↔ onSeg p a b) := by
  obtain ⟨ax, ay⟩ := a
  obtain ⟨bx, b_y⟩ := b
  obtain ⟨px, py⟩ := p
  have hne' : ¬ (ax = bx ∧ ay = b_y) := by
    intro h; apply hne; simp [h.1, h.2]
  by_cases hpre : (min ay b_y ≤ py ∧ py ≤ max ay b_y ∧ px ≤ max ax bx)
  · by_cases hh : ay = b_y
    · subst hh
      have hpy : py = ay := by omega
      subst hpy
      have hx : ax ≠ bx := by omega
      have hE : edgeHits ⟨px, py⟩ ⟨ax, py⟩ ⟨bx, py⟩ = horizHits ⟨px, py⟩ ⟨ax, py⟩ ⟨bx, py⟩ := by
        simp [edgeHits, hne, hpre]
      rw [hE]
      simp only [onSeg, isLeft, horizHits]
      by_cases c1 : px ≤ ax ∧ px ≤ bx
      · simp only [c1, and_self, if_true]
        constructor
        · intro h hh
          simp only [List.mem_cons, List.mem_nil_iff, or_false] at hh
          rcases hh with rfl | rfl
          · refine ⟨by dsimp only; exact_mod_cast c1.1, ?_⟩
            simp only [beq_iff_eq]
            constructor
            · intro e; rw [e]
            · intro e; exact_mod_cast e
          · refine ⟨by dsimp only; exact_mod_cast c1.2, ?_⟩
            simp only [beq_iff_eq]
            constructor
            · intro e; rw [e]
            · intro e; exact_mod_cast e
        · constructor
          · rintro ⟨h, hh, ht⟩
            simp only [List.mem_cons, List.mem_nil_iff, or_false] at hh
            rcases hh with rfl | rfl
            · simp only [beq_iff_eq] at ht
              refine ⟨by ring, by omega, by omega, fun _ => by omega⟩
            · simp only [beq_iff_eq] at ht
              refine ⟨by ring, by omega, by omega, fun _ => by omega⟩
          · rintro ⟨_, _, _, hb⟩
            have hb := hb trivial
            by_cases e : ax = px
            · exact ⟨{ x := (ax : Rat), t0zero := ax == px, into := false, tb := .zero, same := true },
                by simp, by simp [e]⟩
            · have : bx = px := by omega
              exact ⟨{ x := (bx : Rat), t0zero := bx == px, into := false, tb := .one, same := true },
                by simp, by simp [this]⟩
      · simp only [c1, if_false]
        have hon : (bx - ax) * (py - py) - (px - ax) * (py - py) = 0 ∧ min py py ≤ py ∧ py ≤ max py py ∧
            (True → min ax bx ≤ px ∧ px ≤ max ax bx) :=
          ⟨by ring, by omega, by omega, fun _ => by omega⟩
        constructor
        · intro h hh
          by_cases c2 : px < bx
          · simp only [c2, if_true, List.mem_cons, List.mem_nil_iff, or_false] at hh
            rcases hh with rfl | rfl
            · simp
            · refine ⟨by dsimp only; exact_mod_cast (le_of_lt c2), ?_⟩
              simp only [Bool.false_eq_true, false_iff]
              intro e
              have : bx = px := by exact_mod_cast e
              omega
          · by_cases c3 : px < ax
            · simp only [c2, c3, if_false, if_true, List.mem_cons, List.mem_nil_iff, or_false] at hh
              rcases hh with rfl | rfl
              · simp
              · refine ⟨by dsimp only; exact_mod_cast (le_of_lt c3), ?_⟩
                simp only [Bool.false_eq_true, false_iff]
                intro e
                have : ax = px := by exact_mod_cast e
                omega
            · simp only [c2, c3, if_false, List.mem_cons, List.mem_nil_iff, or_false] at hh
              subst hh; simp
        · constructor
          · intro _; exact hon
          · intro _
            by_cases c2 : px < bx
            · exact ⟨_, by simp only [c2, if_true]; exact List.mem_cons_self .., rfl⟩
            · by_cases c3 : px < ax
              · exact ⟨_, by simp only [c2, c3, if_false, if_true]; exact List.mem_cons_self .., rfl⟩
              · exact ⟨_, by simp only [c2, c3, if_false]; exact List.mem_cons_self .., rfl⟩
    · -- non-horizontal
      have hE : edgeHits ⟨px, py⟩ ⟨ax, ay⟩ ⟨bx, b_y⟩ = lineHits ⟨px, py⟩ ⟨ax, ay⟩ ⟨bx, b_y⟩ := by
        simp [edgeHits, hne, hpre, hh]
      rw [hE]
      have hs := hitX_side ⟨px, py⟩ ⟨ax, ay⟩ ⟨bx, b_y⟩ hh
      simp only [lineHits]
      by_cases hneg : side ⟨px, py⟩ ⟨ax, ay⟩ ⟨bx, b_y⟩ < 0
      · simp only [hneg, if_true, List.not_mem_nil, false_and, exists_false, false_iff]
        refine ⟨fun _ h => absurd h (by simp), ?_⟩
        rintro ⟨h0, _⟩
        simp only [side] at hneg
        split at hneg <;> omega
      · simp only [hneg, if_false]
        constructor
        · intro h hmem
          simp only [List.mem_cons, List.mem_nil_iff, or_false] at hmem
          subst hmem
          refine ⟨hs.1 (by omega), ?_⟩
          simp only [beq_iff_eq]
          exact hs.2
        · constructor
          · rintro ⟨h, hmem, ht⟩
            simp only [List.mem_cons, List.mem_nil_iff, or_false] at hmem
            subst hmem
            simp only [beq_iff_eq] at ht
            refine ⟨?_, hpre.1, hpre.2.1, fun e => absurd e hh⟩
            simp only [side] at ht
            split at ht <;> omega
          · rintro ⟨h0, _⟩
            refine ⟨_, List.mem_cons_self .., ?_⟩
            simp only [beq_iff_eq, side]
            split <;> omega
  · -- pre-check fails: no hit, and the point is not on the segment
    have hL : edgeHits ⟨px, py⟩ ⟨ax, ay⟩ ⟨bx, b_y⟩ = [] := by
      unfold edgeHits
      rw [if_neg hne, if_pos hpre]
    rw [hL]
    refine ⟨fun _ h => absurd h (by simp), ?_⟩
    simp only [List.not_mem_nil, false_and, exists_false, false_iff]
    rintro ⟨h0, hy1, hy2, hx⟩
    dsimp only at hy1 hy2 hx
    by_cases hh : ay = b_y
    · have := hx hh; omega
    · have := collinear_x_le ax ay bx b_y px py h0 ⟨hy1, hy2⟩ hh
      omega

/-- chain level -/
theorem chain_boundary (p : IPt) (l : List IPt) :
    (∀ h ∈ chainHits p l, (p.x : Rat) ≤ h.x ∧ (h.t0zero = true ↔ h.x = (p.x : Rat))) ∧
    ((∃ h ∈ chainHits p l, h.t0zero = true) ↔ onChain p l) := by
  induction l with
  | nil => simp [chainHits, onChain]
  | cons a rest ih =>
    cases rest with
    | nil => simp [chainHits, onChain]
    | cons b rest =>
      rw [chainHits_cons]
      simp only [onChain]
      by_cases hab : a = b
      · subst hab
        rw [edgeHits_self, List.nil_append]
        refine ⟨ih.1, ?_⟩
        rw [ih.2]; simp
      · obtain ⟨e1, e2⟩ := edge_boundary p a b hab
        refine ⟨?_, ?_⟩
        · intro h hh
          rcases List.mem_append.mp hh with hh | hh
          · exact e1 h hh
          · exact ih.1 h hh
        · constructor
          · rintro ⟨h, hh, ht⟩
            rcases List.mem_append.mp hh with hh | hh
            · left; exact ⟨hab, e2.mp ⟨h, hh, ht⟩⟩
            · right; exact ih.2.mp ⟨h, hh, ht⟩
          · rintro (⟨_, hon⟩ | hon)
            · obtain ⟨h, hh, ht⟩ := e2.mpr hon
              exact ⟨h, List.mem_append_left _ hh, ht⟩
            · obtain ⟨h, hh, ht⟩ := ih.2.mpr hon
              exact ⟨h, List.mem_append_right _ hh, ht⟩

/-- the front of the sorted list is a smallest element -/
theorem ins_head_min (h : Hit) (s : List Hit) (hs : ∀ g ∈ s, ∀ g0, s.head? = some g0 → ¬ g.x < g0.x) :
    ∀ g ∈ ins h s, ∀ g0, (ins h s).head? = some g0 → ¬ g.x < g0.x := by
  cases s with
  | nil =>
    intro g hg g0 h0
    simp only [ins, List.mem_cons, List.mem_nil_iff, or_false] at hg
    simp only [ins, List.head?_cons, Option.some.injEq] at h0
    subst hg; subst h0; exact lt_irrefl _
  | cons a r =>
    intro g hg g0 h0
    have ha : ∀ g ∈ a :: r, ¬ g.x < a.x := fun g hg => hs g hg a rfl
    simp only [ins] at hg h0
    split at h0
    · rename_i hlt
      simp only [hlt, if_true] at hg
      simp only [List.head?_cons, Option.some.injEq] at h0
      subst h0
      rcases List.mem_cons.mp hg with rfl | hg
      · exact lt_irrefl _
      · rcases (mem_ins h g r).mp hg with rfl | hg
        · exact not_lt.mpr (le_of_lt hlt)
        · exact ha g (List.mem_cons_of_mem _ hg)
    · rename_i hnlt
      simp only [hnlt, if_false] at hg
      simp only [List.head?_cons, Option.some.injEq] at h0
      subst h0
      rcases List.mem_cons.mp hg with rfl | hg
      · exact lt_irrefl _
      · have := ha g hg
        intro hlt
        exact this (lt_of_lt_of_le hlt (not_lt.mp hnlt))

theorem isort_head_min (l : List Hit) :
    ∀ g ∈ isort l, ∀ g0, (isort l).head? = some g0 → ¬ g.x < g0.x := by
  induction l with
  | nil => intro g hg; simp [isort] at hg
  | cons h r ih => simp only [isort]; exact ins_head_min h _ ih

/-- `windings` leaves the flag alone when no hit is at the ray start -/
theorem go_no_t0 (zs : List Z) (n : Int) (b : Bool) (st : Bool × Bool)
    (h : ∀ z ∈ zs, z.t0zero = false) : ∀ m b', go zs n b st = .ok m b' → b' = b := by
  fun_induction go zs n b st with
  | case1 n b st => intro m b' hm; simp at hm; exact hm.2.symm
  | case2 z rest n b st ht ih => exact absurd ht (by simp [h z (by simp)])
  | case3 z rest n b st ht he ih => exact ih (fun z hz => h z (by simp [hz]))
  | case4 z n b st ht he => intro m b' hm; simp at hm; exact hm.2.symm
  | case5 z n b st ht he z2 rest' hss ih => exact ih (fun z hz => h z (by simp [hz]))
  | case6 z n b st ht he z2 rest' hss hne into hov ih => exact ih (fun z hz => h z (by simp [hz]))
  | case7 z n b st ht he z2 rest' hss hne into hov ih => exact ih (fun z hz => h z (by simp [hz]))
  | case8 z n b st ht he z2 rest' hss hne ih => exact ih (fun z hz => h z (by simp [hz]))

theorem go_t0_head (z : Z) (rest : List Z) (hz : z.t0zero = true) (m : Int) (b' : Bool)
    (hr : windings (z :: rest) = .ok m b') : b' = true := by
  simp only [windings] at hr
  rw [go.eq_def] at hr
  simp only [hz, if_true] at hr
  have : ∀ (zs : List Z) (n : Int) (b : Bool) (st : Bool × Bool), b = true → ∀ (m : Int) (b' : Bool),
      go zs n b st = .ok m b' → b' = true := by
    intro zs n b st
    fun_induction go zs n b st <;> simp_all
  exact this rest 0 true (false, false) rfl m b' hr

/-- The boundary flag of one subpath: reported iff the point lies on one of its segments. -/
theorem boundary_flag_iff (closed : Bool) (p : IPt) (poly : List IPt) (m : Int) (b : Bool)
    (h : windingsSub closed p poly = .ok m b) :
    b = true ↔ onChain p (subpathVerts closed poly) := by
  have hc := chain_boundary p (subpathVerts closed poly)
  simp only [windingsSub, rayHits] at h
  constructor
  · intro hb
    by_contra hno
    have hn : ∀ z ∈ (isort (subHits closed p poly)).map Hit.z, z.t0zero = false := by
      intro z hz
      obtain ⟨g, hg, rfl⟩ := List.mem_map.mp hz
      have hg' := (mem_subHits closed p poly g).mp ((mem_isort g _).mp hg)
      cases ht : g.t0zero with
      | false => simp [Hit.z, ht]
      | true => exact absurd (hc.2.mp ⟨g, hg', ht⟩) hno
    have := go_no_t0 _ 0 false (false, false) hn m b h
    rw [hb] at this; exact absurd this (by simp)
  · intro hon
    obtain ⟨g, hg, ht⟩ := hc.2.mpr hon
    have hgs : g ∈ isort (subHits closed p poly) :=
      (mem_isort g _).mpr ((mem_subHits closed p poly g).mpr hg)
    cases hl : isort (subHits closed p poly) with
    | nil => rw [hl] at hgs; simp at hgs
    | cons g0 rest =>
      have hmin := isort_head_min (subHits closed p poly) g hgs g0 (by rw [hl]; rfl)
      have hg0mem : g0 ∈ chainHits p (subpathVerts closed poly) :=
        (mem_subHits closed p poly g0).mp ((mem_isort g0 _).mp (by rw [hl]; simp))
      have hgx : g.x = (p.x : Rat) := (hc.1 g hg).2.mp ht
      have hg0 := hc.1 g0 hg0mem
      have : g0.x = (p.x : Rat) := by
        rw [hgx] at hmin
        exact le_antisymm (not_lt.mp hmin) hg0.1
      have ht0 : g0.t0zero = true := hg0.2.mpr this
      rw [hl] at h
      exact go_t0_head g0.z (rest.map Hit.z) (by simp [Hit.z, ht0]) m b (by simpa [windings] using h)

end Canvas.C06
