import CanvasProofs.Lemmas.C17Chain
/-! C17 helper lemmas, part 6: the relaxation loop terminates (the tolerance strictly increases
through a finite set of ratios). Needs only that `<` is irreflexive and transitive. -/
set_option linter.unusedSectionVars false
set_option linter.unusedVariables false
namespace Canvas.C17

section
variable {α : Type} [Add α] [Sub α] [Mul α] [Div α] [Neg α] [LT α] [LE α] [BEq α]
  [DecidableLT α] [DecidableLE α] [NatCast α]

/-- a restart hands over a strictly larger tolerance taken from the ratios the loop can meet -/
theorem passLoop_restart (hrefl : ∀ a : α, (a == a) = true) (P : Params α) (items : List (Item α)) (lineW : α)
    (tol : Option α) : ∀ (rest : List (Item α)) (b : Nat) (lb : LB α) (nt : Option α) (ovf : Bool),
      items.drop b = rest → Inv P items lineW tol b lb →
      passLoop P items lineW tol b (prevOf items b) rest lb = PassRes.restart nt ovf →
      tolEq tol nt = false ∧ (nt = none ∨ ∃ r, nt = some r ∧ ltTol tol r = true ∧ InS P items lineW r) := by
  intro rest
  induction rest with
  | nil => intro b lb nt ovf _ _ h; simp [passLoop] at h
  | cons it rest ih =>
    intro b lb nt ovf hdrop hI h
    simp only [passLoop] at h
    obtain ⟨hIc, hSc⟩ := clear_inv P items lineW tol b lb hI
    cases h1 : itemStep P items lineW tol b (prevOf items b) it rest (clearStale P (prevOf items b) lb) with
    | none => rw [h1] at h; cases h
    | some lb1 =>
      rw [h1] at h; simp only at h
      cases h2 : drastic P tol b it rest lb1 with
      | none =>
        rw [h2] at h; simp only at h
        injection h with hnt _
        obtain ⟨lbm, hm, _, _, _, ht1, _⟩ := itemStep_cases P items lineW tol b it rest _ lb1 hdrop h1
        have M := mid_of_inv P items lineW tol b it rest _ lbm hdrop hIc hSc hm
        constructor
        · unfold drastic at h2
          cases hact : lb1.act with
          | cons x xs => rw [hact] at h2; cases h2
          | nil =>
            rw [hact] at h2; simp only at h2
            split at h2
            · rename_i hne
              rw [← hnt]
              cases hte : tolEq tol lb1.nextTol with
              | false => rfl
              | true => rw [hte] at hne; cases hne
            · split at h2 <;> cases h2
        · rw [← hnt, ht1]; exact M.ntol
      | some lb2 =>
        rw [h2] at h; simp only at h
        have hI2 := step_inv hrefl P items lineW tol b it rest lb lb1 lb2 hdrop hI h1 h2
        have hprev : prevOf items (b + 1) = some it := drop_getElem? hdrop
        rw [← hprev] at h
        exact ih (b + 1) (addGlue it lb2) nt ovf (drop_succ_of_drop hdrop) hI2 h

/-! ### the finite set of ratios -/

def Tlist (P : Params α) (items : List (Item α)) : List (α × α × α) :=
  (k 0, k 0, k 0) :: (List.range items.length).flatMap (fun a => [sumsAfter P items a, pre items (a + 1)])

def Slist (P : Params α) (items : List (Item α)) (lineW : α) : List α :=
  (List.range items.length).flatMap (fun b =>
    match items[b]? with
    | some it => (Tlist P items).filterMap (fun t =>
        adjRatio P lineW it (pre items b).1 (pre items b).2.1 (pre items b).2.2 t.1 t.2.1 t.2.2)
    | none => [])

theorem length_flatMap_le {β γ : Type} (f : β → List γ) (c : Nat) (hf : ∀ x, (f x).length ≤ c) :
    ∀ l : List β, (l.flatMap f).length ≤ l.length * c := by
  intro l
  induction l with
  | nil => simp
  | cons a rest ih =>
    simp only [List.flatMap_cons, List.length_append, List.length_cons]
    have := hf a
    rw [Nat.succ_mul]; omega

theorem Tlist_length (P : Params α) (items : List (Item α)) : (Tlist P items).length ≤ 2 * items.length + 1 := by
  unfold Tlist
  have := length_flatMap_le (fun a => [sumsAfter P items a, pre items (a + 1)]) 2 (fun _ => Nat.le_refl _)
    (List.range items.length)
  simp only [List.length_cons, List.length_range] at this ⊢
  omega

theorem Slist_length (P : Params α) (items : List (Item α)) (lineW : α) :
    (Slist P items lineW).length ≤ items.length * (2 * items.length + 1) := by
  unfold Slist
  have := length_flatMap_le (fun b =>
    match items[b]? with
    | some it => (Tlist P items).filterMap (fun t =>
        adjRatio P lineW it (pre items b).1 (pre items b).2.1 (pre items b).2.2 t.1 t.2.1 t.2.2)
    | none => []) (2 * items.length + 1) (by
      intro b
      split
      · exact Nat.le_trans (List.length_filterMap_le _ _) (Tlist_length P items)
      · simp) (List.range items.length)
  simpa using this

theorem isT_mem (P : Params α) (items : List (Item α)) (t : α × α × α) (h : IsT P items t) : t ∈ Tlist P items := by
  unfold Tlist
  rcases h with rfl | ⟨a, ha, h | h⟩
  · exact List.mem_cons_self
  · refine List.mem_cons_of_mem _ (List.mem_flatMap.mpr ⟨a, List.mem_range.mpr ha, ?_⟩)
    rw [h]; simp
  · refine List.mem_cons_of_mem _ (List.mem_flatMap.mpr ⟨a, List.mem_range.mpr ha, ?_⟩)
    rw [h]; simp

theorem inS_mem (P : Params α) (items : List (Item α)) (lineW : α) (r : α) (h : InS P items lineW r) :
    r ∈ Slist P items lineW := by
  obtain ⟨b, it, t, hit, ht, hr⟩ := h
  unfold Slist
  refine List.mem_flatMap.mpr ⟨b, List.mem_range.mpr (List.getElem?_eq_some_iff.mp hit).1, ?_⟩
  rw [hit]
  exact List.mem_filterMap.mpr ⟨t, isT_mem P items t ht, hr⟩

/-! ### the measure -/

theorem countP_lt_of {β : Type} (p q : β → Bool) (hpq : ∀ x, p x = true → q x = true) (r : β) :
    ∀ l : List β, r ∈ l → q r = true → p r = false → l.countP p < l.countP q := by
  intro l
  induction l with
  | nil => intro h; cases h
  | cons a rest ih =>
    intro hr hq hp
    have hle : rest.countP p ≤ rest.countP q := List.countP_mono_left (fun x _ => hpq x)
    rw [List.countP_cons, List.countP_cons]
    rcases List.mem_cons.mp hr with rfl | hr
    · rw [hq, hp]; simp; omega
    · have := ih hr hq hp
      cases hpa : p a with
      | false => cases hqa : q a <;> simp <;> omega
      | true => rw [hpq a hpa]; simp; omega

/-- number of restarts still possible from tolerance `tol` -/
def mu (S : List α) : Option α → Nat
  | none => 0
  | some t => 1 + S.countP (fun s => decide (t < s))

theorem mu_decreases (hirr : ∀ a : α, ¬ a < a) (htr : ∀ a b c : α, a < b → b < c → a < c)
    (P : Params α) (items : List (Item α)) (lineW : α) (tol nt : Option α)
    (h1 : tolEq tol nt = false)
    (h2 : nt = none ∨ ∃ r, nt = some r ∧ ltTol tol r = true ∧ InS P items lineW r) :
    mu (Slist P items lineW) nt < mu (Slist P items lineW) tol := by
  rcases h2 with rfl | ⟨r, rfl, hlt, hin⟩
  · cases tol with
    | none => simp [tolEq] at h1
    | some t => simp only [mu]; omega
  · cases tol with
    | none => simp [ltTol] at hlt
    | some t =>
      simp only [ltTol, decide_eq_true_eq] at hlt
      simp only [mu]
      have := countP_lt_of (fun s => decide (r < s)) (fun s => decide (t < s))
        (fun x hx => by
          simp only [decide_eq_true_eq] at hx ⊢
          exact htr t r x hlt hx) r (Slist P items lineW) (inS_mem P items lineW r hin)
        (by simpa using hlt) (by simpa using hirr r)
      omega

/-- enough fuel never runs out -/
theorem linebreakFuel_ne_fuelOut (hrefl : ∀ a : α, (a == a) = true) (hirr : ∀ a : α, ¬ a < a)
    (htr : ∀ a b c : α, a < b → b < c → a < c) (P : Params α) (items : List (Item α)) (lineW : α) (loose : Int) :
    ∀ (fuel : Nat) (tol : Option α) (ovf : Bool), mu (Slist P items lineW) tol < fuel →
      linebreakFuel P items lineW loose fuel tol ovf ≠ Outcome.fuelOut := by
  intro fuel
  induction fuel with
  | zero => intro tol ovf h; omega
  | succ f ih =>
    intro tol ovf hmu
    simp only [linebreakFuel]
    cases hp : passLoop P items lineW tol 0 none items (initLB ovf) with
    | panic => simp
    | done lb =>
      simp only
      unfold finish
      split
      · simp
      · simp
    | restart nt ovf' =>
      simp only
      obtain ⟨h1, h2⟩ := passLoop_restart hrefl P items lineW tol items 0 (initLB ovf) nt ovf' rfl
        (inv_init P items lineW tol ovf) hp
      have := mu_decreases hirr htr P items lineW tol nt h1 h2
      exact ih nt ovf' (by omega)

theorem mu_le (S : List α) (tol : Option α) : mu S tol ≤ 1 + S.length := by
  cases tol with
  | none => simp [mu]
  | some t => simp only [mu]; have := List.countP_le_length (p := fun s => decide (t < s)) (l := S); omega

/-! ### no out-of-range read when every glue item has a successor -/

theorem itemStep_none (P : Params α) (items : List (Item α)) (lineW : α) (tol : Option α) (b : Nat)
    (prev : Option (Item α)) (it : Item α) (rest : List (Item α)) (lb : LB α)
    (h : itemStep P items lineW tol b prev it rest lb = none) : it.ty = Ty.glue ∧ rest = [] := by
  unfold itemStep at h
  cases hty : it.ty with
  | box => rw [hty] at h; simp at h
  | penalty => rw [hty] at h; simp only at h; split at h <;> cases h
  | glue =>
    rw [hty] at h; simp only at h
    refine ⟨rfl, ?_⟩
    split at h
    · cases rest with
      | nil => rfl
      | cons nx tl => simp only at h; split at h <;> cases h
    · cases h

theorem passLoop_ne_panic (P : Params α) (items : List (Item α)) (lineW : α) (tol : Option α)
    (hnp : ∀ b it, items[b]? = some it → it.ty = Ty.glue → b + 1 < items.length) :
    ∀ (rest : List (Item α)) (b : Nat) (prev : Option (Item α)) (lb : LB α), items.drop b = rest →
      passLoop P items lineW tol b prev rest lb ≠ PassRes.panic := by
  intro rest
  induction rest with
  | nil => intro b prev lb _; simp [passLoop]
  | cons it rest ih =>
    intro b prev lb hdrop
    simp only [passLoop]
    cases h1 : itemStep P items lineW tol b prev it rest (clearStale P prev lb) with
    | none =>
      exfalso
      obtain ⟨hg, hr⟩ := itemStep_none P items lineW tol b prev it rest _ h1
      have hlt := hnp b it (drop_getElem? hdrop) hg
      have h2 := drop_succ_of_drop hdrop
      rw [hr] at h2
      have := List.drop_eq_nil_iff.mp h2
      omega
    | some lb1 =>
      simp only
      cases h2 : drastic P tol b it rest lb1 with
      | none => simp
      | some lb2 => simp only; exact ih (b + 1) (some it) _ (drop_succ_of_drop hdrop)

theorem linebreakFuel_ne_panic (P : Params α) (items : List (Item α)) (lineW : α) (loose : Int)
    (hnp : ∀ b it, items[b]? = some it → it.ty = Ty.glue → b + 1 < items.length) :
    ∀ (fuel : Nat) (tol : Option α) (ovf : Bool),
      linebreakFuel P items lineW loose fuel tol ovf ≠ Outcome.panic := by
  intro fuel
  induction fuel with
  | zero => intro tol ovf; simp [linebreakFuel]
  | succ f ih =>
    intro tol ovf
    simp only [linebreakFuel]
    cases hp : passLoop P items lineW tol 0 none items (initLB ovf) with
    | panic => exact absurd hp (passLoop_ne_panic P items lineW tol hnp items 0 none _ rfl)
    | done lb =>
      simp only
      unfold finish
      split
      · simp
      · simp
    | restart nt ovf' => simp only; exact ih nt ovf'

end
end Canvas.C17
