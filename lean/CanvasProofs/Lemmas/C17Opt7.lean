import CanvasProofs.Lemmas.C17Opt6
/-! C17, towards `optimal_statement`, part 7: the exhaustive specification `bestFrom` is the minimum of
`seqCost` over all legal breakings that skip no forced break (well-formed paragraphs). -/
set_option linter.unusedSectionVars false
set_option linter.unusedVariables false
namespace Canvas.C17

section field
variable {K : Type} [Field K] [LinearOrder K] [IsStrictOrderedRing K]

/-- what `bestFrom` does with the line `prev → b` once its cost and class are known -/
def contOf (P : Params K) (items : List (Item K)) (lineW tol : K) (b : Nat) (bs : List Nat) :
    Option (K × Nat) → Option K
  | none => none
  | some (d, c) =>
    match bs with
    | [] => some d
    | _ :: _ =>
      match bestFrom P items lineW tol (some b) c bs with
      | some rest => some (d + rest)
      | none => none

theorem bestFrom_cons (P : Params K) (items : List (Item K)) (lineW tol : K) (a : Option Nat) (fit b : Nat)
    (bs : List Nat) :
    bestFrom P items lineW tol a fit (b :: bs) =
      optMin (if forcedAt P items b = true then none else bestFrom P items lineW tol a fit bs)
        (contOf P items lineW tol b bs (specStep P items lineW tol a fit b)) := by
  simp only [bestFrom, specStep, keepFeas]
  congr 1
  by_cases hleg : legalAt P items b = true
  · simp only [hleg, if_true]
    cases hit : items[b]? with
    | none => simp [contOf]
    | some it =>
      cases hr : lineRatio P items lineW a b with
      | none => simp [contOf]
      | some r =>
        simp only
        have hfe : feasAt (some tol) r = (decide (-(k 1 : K) ≤ r) && decide (r ≤ tol)) := rfl
        rw [hfe]
        cases hf : (decide (-(k 1 : K) ≤ r) && decide (r ≤ tol)) with
        | false => simp [contOf]
        | true =>
          simp only [if_true, contOf]
          cases bs <;> rfl
  · simp [hleg, contOf]

theorem seqCost_cons (P : Params K) (items : List (Item K)) (lineW tol : K) (prev : Option Nat) (fit : Nat) (acc : K)
    (b : Nat) (rest : List Nat) :
    seqCost P items lineW (some tol) prev fit acc (b :: rest) =
      match codeStep P items lineW tol prev fit b with
      | some (d, c) => seqCost P items lineW (some tol) (some b) c (d + acc) rest
      | none => none := by
  simp only [seqCost, codeStep, keepFeas]
  cases hit : items[b]? with
  | none => simp
  | some it =>
    simp only
    by_cases hleg : legalAt P items b = true
    · simp only [hleg, if_true]
      cases hr : adjRatio P lineW it (pre items b).1 (pre items b).2.1 (pre items b).2.2
          (afterSums P items prev).1 (afterSums P items prev).2.1 (afterSums P items prev).2.2 with
      | none => rfl
      | some r =>
        simp only
        cases hf : feasAt (some tol) r <;> simp
    · simp [hleg]

theorem optMin_some_left (x : K) (o : Option K) : ∃ d, optMin (some x) o = some d ∧ d ≤ x := by
  cases o with
  | none => exact ⟨x, rfl, le_refl _⟩
  | some y =>
    simp only [optMin]
    split
    · rename_i h; exact ⟨y, rfl, le_of_lt h⟩
    · exact ⟨x, rfl, le_refl _⟩

theorem optMin_some_right (o : Option K) (y : K) : ∃ d, optMin o (some y) = some d ∧ d ≤ y := by
  cases o with
  | none => exact ⟨y, rfl, le_refl _⟩
  | some x =>
    simp only [optMin]
    split
    · exact ⟨y, rfl, le_refl _⟩
    · rename_i h; exact ⟨x, rfl, not_lt.mp h⟩

theorem optMin_cases (x y : Option K) (d : K) (h : optMin x y = some d) : x = some d ∨ y = some d := by
  cases x with
  | none => right; simpa [optMin] using h
  | some a =>
    cases y with
    | none => left; simpa [optMin] using h
    | some b =>
      simp only [optMin] at h
      split at h
      · right; exact h
      · left; exact h

/-- `bestFrom` is attained by a breaking -/
theorem bestFrom_attained (P : Params K) (items : List (Item K)) (lineW tol : K) (hwf : WF P items lineW)
    (htol : tol < P.infinity) : ∀ (k lo : Nat) (a : Option Nat) (fit : Nat) (d : K),
      (∀ x, a = some x → x < lo ∧ legalAt P items x = true) →
      (∀ f, (∀ x, a = some x → x < f) → f < lo → forcedAt P items f = false) →
      bestFrom P items lineW tol a fit (List.range' lo k) = some d →
      ∃ seq, (∀ x, x ∈ seq → lo ≤ x ∧ x < lo + k) ∧ seq.Pairwise (· < ·) ∧ NoSkip P items a seq ∧
        seq.getLast? = some (lo + k - 1) ∧ 0 < k ∧
        ∀ acc, seqCost P items lineW (some tol) a fit acc seq = some (acc + d) := by
  intro k
  induction k with
  | zero => intro lo a fit d _ _ h; simp [bestFrom] at h
  | succ k ih =>
    intro lo a fit d ha hU h
    rw [List.range'_succ, bestFrom_cons] at h
    rcases optMin_cases _ _ d h with h1 | h1
    · -- skip lo
      by_cases hfo : forcedAt P items lo = true
      · rw [if_pos hfo] at h1; cases h1
      · rw [if_neg hfo] at h1
        have hfo' : forcedAt P items lo = false := by simpa using hfo
        obtain ⟨seq, s1, s2, s3, s4, s5, s6⟩ := ih (lo + 1) a fit d
          (fun x hx => ⟨Nat.lt_succ_of_lt (ha x hx).1, (ha x hx).2⟩)
          (fun f hf1 hf2 => by
            rcases Nat.lt_succ_iff_lt_or_eq.mp hf2 with h | h
            · exact hU f hf1 h
            · rw [h]; exact hfo') h1
        refine ⟨seq, fun x hx => ⟨by have := (s1 x hx).1; omega, by have := (s1 x hx).2; omega⟩, s2, s3, ?_,
          Nat.succ_pos _, s6⟩
        rw [s4]; congr 1; omega
    · -- break at lo
      rw [step_equiv P items lineW tol hwf htol a fit lo ha] at h1
      cases hst : codeStep P items lineW tol a fit lo with
      | none => rw [hst] at h1; simp [contOf] at h1
      | some dc =>
        obtain ⟨d1, c⟩ := dc
        rw [hst] at h1
        have hleg : legalAt P items lo = true := by
          unfold codeStep at hst
          by_cases hl : legalAt P items lo = true
          · exact hl
          · rw [if_neg hl] at hst; cases hst
        cases k with
        | zero =>
          simp only [List.range'_zero, contOf, Option.some.injEq] at h1
          subst h1
          refine ⟨[lo], by intro x hx; simp at hx; omega, by simp, ⟨hU, True.intro⟩, by simp, Nat.succ_pos _, ?_⟩
          intro acc
          rw [seqCost_cons, hst]
          simp only [seqCost]
          congr 1; ring
        | succ k' =>
          rw [List.range'_succ] at h1
          simp only [contOf] at h1
          rw [← List.range'_succ] at h1
          cases hb : bestFrom P items lineW tol (some lo) c (List.range' (lo + 1) (k' + 1)) with
          | none => rw [hb] at h1; cases h1
          | some rest =>
            rw [hb] at h1
            simp only [Option.some.injEq] at h1
            obtain ⟨seq, s1, s2, s3, s4, s5, s6⟩ := ih (lo + 1) (some lo) c rest
              (fun x hx => by cases hx; exact ⟨Nat.lt_succ_self _, hleg⟩)
              (fun f hf1 hf2 => by have := hf1 lo rfl; omega) hb
            refine ⟨lo :: seq, ?_, ?_, ⟨hU, s3⟩, ?_, Nat.succ_pos _, ?_⟩
            · intro x hx
              rcases List.mem_cons.mp hx with rfl | hx
              · omega
              · have := s1 x hx; omega
            · exact List.pairwise_cons.mpr ⟨fun y hy => by have := (s1 y hy).1; omega, s2⟩
            · cases seq with
              | nil => simp at s4
              | cons y ys =>
                rw [List.getLast?_cons_cons, s4]; congr 1; omega
            · intro acc
              rw [seqCost_cons, hst]
              simp only
              rw [s6 (d1 + acc), ← h1]
              congr 1; ring

/-- `bestFrom` is a lower bound for the cost of every legal breaking that skips no forced break -/
theorem bestFrom_le (P : Params K) (items : List (Item K)) (lineW tol : K) (hwf : WF P items lineW)
    (htol : tol < P.infinity) : ∀ (k lo : Nat) (a : Option Nat) (fit : Nat) (seq : List Nat) (acc c : K),
      (∀ x, a = some x → x < lo ∧ legalAt P items x = true) →
      (∀ x, x ∈ seq → lo ≤ x ∧ x < lo + k) → seq.Pairwise (· < ·) → NoSkip P items a seq →
      seq.getLast? = some (lo + k - 1) →
      seqCost P items lineW (some tol) a fit acc seq = some c →
      ∃ d, bestFrom P items lineW tol a fit (List.range' lo k) = some d ∧ acc + d ≤ c := by
  intro k
  induction k with
  | zero =>
    intro lo a fit seq acc c _ hr _ _ hl _
    exfalso
    cases seq with
    | nil => simp at hl
    | cons x rest => have := hr x List.mem_cons_self; omega
  | succ k ih =>
    intro lo a fit seq acc c ha hr hpw hns hl hc
    cases seq with
    | nil => simp at hl
    | cons x rest =>
      rw [List.range'_succ, bestFrom_cons]
      have hx := hr x List.mem_cons_self
      have hp := List.pairwise_cons.mp hpw
      rcases Nat.eq_or_lt_of_le hx.1 with hxl | hxl
      · -- the breaking breaks at lo
        subst hxl
        rw [seqCost_cons] at hc
        rw [step_equiv P items lineW tol hwf htol a fit lo ha]
        cases hst : codeStep P items lineW tol a fit lo with
        | none => rw [hst] at hc; cases hc
        | some dc =>
          obtain ⟨d1, c1⟩ := dc
          rw [hst] at hc
          simp only at hc
          have hleg : legalAt P items lo = true := by
            unfold codeStep at hst
            by_cases hl' : legalAt P items lo = true
            · exact hl'
            · rw [if_neg hl'] at hst; cases hst
          cases rest with
          | nil =>
            simp only [List.getLast?_singleton, Option.some.injEq] at hl
            have hk : k = 0 := by omega
            subst hk
            simp only [seqCost, Option.some.injEq] at hc
            simp only [List.range'_zero, contOf]
            obtain ⟨d, hd, hle⟩ := optMin_some_right
              (if forcedAt P items lo = true then none else bestFrom P items lineW tol a fit []) d1
            exact ⟨d, hd, by rw [← hc]; linarith⟩
          | cons y ys =>
            have hy := hr y (List.mem_cons_of_mem _ List.mem_cons_self)
            have hly : lo < y := hp.1 y List.mem_cons_self
            have hk : ∃ k', k = k' + 1 := ⟨k - 1, by omega⟩
            obtain ⟨k', rfl⟩ := hk
            obtain ⟨d', hd', hle'⟩ := ih (lo + 1) (some lo) c1 (y :: ys) (d1 + acc) c
              (fun z hz => by cases hz; exact ⟨Nat.lt_succ_self _, hleg⟩)
              (fun z hz => by
                have h1 := hp.1 z hz
                have h2 := (hr z (List.mem_cons_of_mem _ hz)).2
                omega)
              hp.2 hns.2
              (by rw [List.getLast?_cons_cons] at hl; rw [hl]; congr 1; omega) hc
            have hcont : contOf P items lineW tol lo (List.range' (lo + 1) (k' + 1)) (some (d1, c1)) = some (d1 + d') := by
              rw [List.range'_succ]
              simp only [contOf]
              rw [← List.range'_succ, hd']
            rw [hcont]
            obtain ⟨d, hd, hle⟩ := optMin_some_right
              (if forcedAt P items lo = true then none
                else bestFrom P items lineW tol a fit (List.range' (lo + 1) (k' + 1))) (d1 + d')
            exact ⟨d, hd, by linarith⟩
      · -- lo is skipped: it is not forced
        have hfo : forcedAt P items lo = false := hns.1 lo (fun z hz => (ha z hz).1) hxl
        rw [hfo]
        simp only [Bool.false_eq_true, if_false]
        obtain ⟨d0, hd0, hle0⟩ := ih (lo + 1) a fit (x :: rest) acc c
          (fun z hz => ⟨Nat.lt_succ_of_lt (ha z hz).1, (ha z hz).2⟩)
          (fun z hz => by
            have h2 := (hr z hz).2
            rcases List.mem_cons.mp hz with rfl | hz
            · omega
            · have := hp.1 z hz; omega)
          hpw hns (by rw [hl]; congr 1; omega) hc
        rw [hd0]
        obtain ⟨d, hd, hle⟩ := optMin_some_left d0
          (contOf P items lineW tol lo (List.range' (lo + 1) k) (specStep P items lineW tol a fit lo))
        exact ⟨d, hd, by linarith⟩

end field
end Canvas.C17
