import CanvasModel.C03
import CanvasProofs.Lemmas.C03Split
import CanvasProofs.Lemmas.C03Loop
import CanvasProofs.Lemmas.C03Chord
import Mathlib.Tactic.Ring
import Mathlib.Tactic.Linarith
import Mathlib.Tactic.FieldSimp
/-! C03 helper lemmas: the whole `flattenQuadraticBezier` loop — every edge of the emitted polyline is
within 2·tol of the part of the ORIGINAL curve it replaces (loop invariant + piece bound). -/
set_option linter.unusedSectionVars false
namespace C03L
open Canvas Canvas.C03 GenK
variable {K : Type} [Field K] [LinearOrder K] [IsStrictOrderedRing K] [Env K]

/-- what the repaired step rule guarantees about a step `t` taken on the control polygon q:
`t ≤ 2·sqrt(tol·|denom/s2nom|)` (squared, with `denom = d`, `d² = |q1−q0|²`) and the 90° cap. -/
def StepOK (tol : K) (q0 q1 q2 : Pt K) (t : K) : Prop :=
  ∃ d : K, d * d = dd q0 q1 ∧ t * t * |s2nom q0 q1 q2| ≤ 4 * tol * d ∧ t * (dd q0 q1 - turnDot q0 q1 q2) ≤ dd q0 q1

/-- the curve between parameters a ≤ b stays within 2·tol of the chord line B(a)B(b) (squared form) -/
def pieceOK (tol : K) (p0 p1 p2 : Pt K) (a b : K) : Prop :=
  ∀ x : K, a ≤ x → x ≤ b →
    (Point.PerpDot (Point.Sub (quadraticBezierPos p0 p1 p2 x) (quadraticBezierPos p0 p1 p2 a))
        (Point.Sub (quadraticBezierPos p0 p1 p2 b) (quadraticBezierPos p0 p1 p2 a))) ^ 2
      ≤ (2 * tol) ^ 2 * Point.Dot (Point.Sub (quadraticBezierPos p0 p1 p2 b) (quadraticBezierPos p0 p1 p2 a))
          (Point.Sub (quadraticBezierPos p0 p1 p2 b) (quadraticBezierPos p0 p1 p2 a))

/-- all edges of the polyline with break parameters a < T₁ < … < 1 -/
def chainOK (tol : K) (p0 p1 p2 : Pt K) : K → List K → Prop
  | a, [] => pieceOK tol p0 p1 p2 a 1
  | a, T :: Ts => pieceOK tol p0 p1 p2 a T ∧ chainOK tol p0 p1 p2 T Ts

/-- a step on the current polygon (= the original curve restricted to [a,1]) gives an edge of the
original curve on [a, a + (1−a)·t] -/
theorem piece_of_current (tol : K) (p0 p1 p2 c0 c1 c2 : Pt K) (a t : K)
    (ha1 : a < 1) (ht0 : 0 < t)
    (hpos : ∀ s, quadraticBezierPos c0 c1 c2 s = quadraticBezierPos p0 p1 p2 (a + (1 - a) * s))
    (hok : StepOK tol c0 c1 c2 t) :
    pieceOK tol p0 p1 p2 a (a + (1 - a) * t) := by
  obtain ⟨d, hd2, hstep, hcap⟩ := hok
  intro x hx0 hx1
  have h1a : 0 < 1 - a := by linarith
  have hden : 0 < (1 - a) * t := mul_pos h1a ht0
  set u := (x - a) / ((1 - a) * t) with hu
  have hu0 : 0 ≤ u := div_nonneg (by linarith) (le_of_lt hden)
  have hu1 : u ≤ 1 := by rw [hu, div_le_one hden]; linarith
  have hx : x = a + (1 - a) * (u * t) := by
    rw [hu]; field_simp; ring
  have e0 : quadraticBezierPos p0 p1 p2 a = c0 := by
    have := hpos 0; rw [quad_pos_zero] at this; rw [this]; congr 1; ring
  have ex : quadraticBezierPos p0 p1 p2 x = quadraticBezierPos c0 c1 c2 (u * t) := by
    rw [hpos, ← hx]
  rw [e0, ex, ← hpos t]
  exact piece_two_tol c0 c1 c2 tol d t u hd2 (le_of_lt ht0) hu0 hu1 hstep hcap

/-- Whole-loop invariant: vertices on the curve at increasing parameters AND every edge within 2·tol
of the part of the original curve between its end points. -/
theorem quad_loop_within (tol : K) (step : Pt K → Pt K → Pt K → Option K)
    (hstep : ∀ q0 q1 q2 t, step q0 q1 q2 = some t → 0 < t ∧ t < 1 ∧ StepOK tol q0 q1 q2 t)
    (hstop : ∀ q0 q1 q2, step q0 q1 q2 = none → StepOK tol q0 q1 q2 1)
    (p0 p1 p2 : Pt K) :
    ∀ (fuel : Nat) (c0 c1 c2 : Pt K) (a : K) (vs : List (Pt K)),
      0 ≤ a → a < 1 → c2 = p2 →
      (∀ s, quadraticBezierPos c0 c1 c2 s = quadraticBezierPos p0 p1 p2 (a + (1 - a) * s)) →
      flattenQuadLoop step quadSplitR fuel c0 c1 c2 = some vs →
      ∃ Ts : List K, vs = Ts.map (quadraticBezierPos p0 p1 p2) ++ [p2]
        ∧ Ts.Pairwise (· < ·) ∧ (∀ T ∈ Ts, a < T ∧ T < 1) ∧ chainOK tol p0 p1 p2 a Ts
        ∧ vs.length ≤ fuel := by
  intro fuel
  induction fuel with
  | zero => intro c0 c1 c2 a vs _ _ _ _ h; simp [flattenQuadLoop] at h
  | succ n ih =>
    intro c0 c1 c2 a vs ha0 ha1 hc2 hpos h
    unfold flattenQuadLoop at h
    cases hs : step c0 c1 c2 with
    | none =>
      rw [hs] at h
      simp only [Option.some.injEq] at h
      refine ⟨[], by simp [← h, hc2], List.Pairwise.nil, by simp, ?_, by simp [← h]⟩
      have := piece_of_current tol p0 p1 p2 c0 c1 c2 a 1 ha1 zero_lt_one hpos (hstop _ _ _ hs)
      have e : a + (1 - a) * 1 = 1 := by ring
      rw [e] at this
      exact this
    | some t =>
      rw [hs] at h
      obtain ⟨ht0, ht1, hok⟩ := hstep _ _ _ _ hs
      simp only [Option.map_eq_some_iff] at h
      obtain ⟨vs', hrec, hvs⟩ := h
      have ha' : a < a + (1 - a) * t := by nlinarith
      have ha'1 : a + (1 - a) * t < 1 := by nlinarith
      have hposR : ∀ s, quadraticBezierPos (quadSplitR c0 c1 c2 t).1 (quadSplitR c0 c1 c2 t).2.1 (quadSplitR c0 c1 c2 t).2.2 s
          = quadraticBezierPos p0 p1 p2 ((a + (1 - a) * t) + (1 - (a + (1 - a) * t)) * s) := by
        intro s
        have := quad_right c0 c1 c2 t s
        simp only [quadSplitR]
        rw [this, hpos]
        congr 1; ring
      obtain ⟨Ts, hTs, hpw, hrange, hchain, hlen⟩ := ih _ _ _ (a + (1 - a) * t) vs'
        (le_of_lt (lt_of_le_of_lt ha0 ha')) ha'1 (by simp [quadSplitR, quadR_end, hc2]) hposR hrec
      have hfirst : (quadSplitR c0 c1 c2 t).1 = quadraticBezierPos p0 p1 p2 (a + (1 - a) * t) := by
        have h0 := hposR 0
        rw [quad_pos_zero] at h0
        rw [h0]; congr 1; ring
      refine ⟨(a + (1 - a) * t) :: Ts, ?_, ?_, ?_, ?_, ?_⟩
      · rw [← hvs, hTs, hfirst]; simp
      · exact List.Pairwise.cons (fun T hT => (hrange T hT).1) hpw
      · intro T hT
        rcases List.mem_cons.mp hT with rfl | hT
        · exact ⟨ha', ha'1⟩
        · exact ⟨lt_trans ha' (hrange T hT).1, (hrange T hT).2⟩
      · exact ⟨piece_of_current tol p0 p1 p2 c0 c1 c2 a t ha1 ht0 hpos hok, hchain⟩
      · rw [← hvs]; simp only [List.length_cons]; omega

end C03L
