import CanvasProofs.Lemmas.C17Sums
import Mathlib.Tactic.Linarith
/-! C17, towards `optimal`, part 1: the fitness-class pruning of `mainLoop` is safe.
For every active node `a` with a feasible line to the current break, `mainLoop` creates a
breakpoint that *dominates* the candidate of `a`: same class and no more demerits, or at least
`DemeritsFitness` fewer demerits (so that any continuation from it is at least as cheap). -/
set_option linter.unusedSectionVars false
set_option linter.unusedVariables false
namespace Canvas.C17

section
variable {K : Type} [Field K] [LinearOrder K] [IsStrictOrderedRing K]

theorem fitClass_lt (r : K) : fitClass r < 4 := by
  unfold fitClass; split
  · omega
  · split
    · omega
    · split <;> omega

/-- total demerits of the candidate of node `a` at ratio `r` -/
def candDem (cx : Ctx K) (a : Node K) (r : K) : K :=
  lineDemerits cx.P cx.it r (flaggedAt cx.items a.d.pos) a.d.fit + a.d.dem

/-- invariant of the class slots of one line group after the nodes `proc` have been processed -/
structure SlotInv (cx : Ctx K) (g : Grp K) (proc : List (Node K)) : Prop where
  len : g.slots.length = 4
  cls : ∀ (i : Nat) (cand : Cand K), g.slots[i]? = some (some cand) → fitClass cand.ratio = i
  best : ∀ a, a ∈ proc → ∀ r, adjRatio cx.P cx.lineW cx.it cx.W cx.Y cx.Z a.d.w a.d.y a.d.z = some r →
    feasibleR cx r = true → ∃ cand, g.slots[fitClass r]? = some (some cand) ∧ cand.dem ≤ candDem cx a r
  dminLe : ∀ (i : Nat) (cand : Cand K), g.slots[i]? = some (some cand) → ∃ dm, g.dmin = some dm ∧ dm ≤ cand.dem
  dminAt : ∀ dm, g.dmin = some dm → ∃ (i : Nat) (cand : Cand K), g.slots[i]? = some (some cand) ∧ cand.dem = dm

theorem slotInv_empty (cx : Ctx K) : SlotInv cx emptyGrp [] := by
  refine ⟨rfl, ?_, ?_, ?_, ?_⟩
  · intro i cand h
    simp only [emptyGrp] at h
    match i with
    | 0 => simp at h
    | 1 => simp at h
    | 2 => simp at h
    | 3 => simp at h
    | n + 4 => simp at h
  · intro a ha; cases ha
  · intro i cand h
    simp only [emptyGrp] at h
    match i with
    | 0 => simp at h
    | 1 => simp at h
    | 2 => simp at h
    | 3 => simp at h
    | n + 4 => simp at h
  · intro dm h; simp [emptyGrp] at h

theorem slotDem_eq (g : Grp K) (c : Nat) :
    (slotDem g c = none ∧ ∀ cand, g.slots[c]? ≠ some (some cand)) ∨
    (∃ cand, g.slots[c]? = some (some cand) ∧ slotDem g c = some cand.dem) := by
  unfold slotDem
  cases h : g.slots[c]? with
  | none => left; exact ⟨rfl, fun cand hc => by cases hc⟩
  | some o =>
    cases o with
    | none => left; exact ⟨rfl, fun cand hc => by cases hc⟩
    | some cand => right; exact ⟨cand, rfl, rfl⟩

theorem ltOpt_false {x : K} {d : Option K} (h : ltOpt x d = false) : ∃ y, d = some y ∧ y ≤ x := by
  cases d with
  | none => simp [ltOpt] at h
  | some y => exact ⟨y, rfl, by simpa [ltOpt] using h⟩

theorem ltOpt_true_some {x y : K} (h : ltOpt x (some y) = true) : x < y := by simpa [ltOpt] using h

theorem updGrp_eq (cx : Ctx K) (a : Node K) (r : K) (g : Grp K) :
    updGrp cx a r g =
      if feasibleR cx r = true then
        (if ltOpt (candDem cx a r) (slotDem g (fitClass r)) = true then
          ⟨g.slots.set (fitClass r) (some ⟨candDem cx a r, a, r⟩),
            if ltOpt (candDem cx a r) g.dmin = true then some (candDem cx a r) else g.dmin⟩
        else g)
      else g := rfl

/-- processing one more node keeps the slot invariant -/
theorem updGrp_inv (cx : Ctx K) (g : Grp K) (proc : List (Node K)) (a : Node K) (r : K)
    (hr : adjRatio cx.P cx.lineW cx.it cx.W cx.Y cx.Z a.d.w a.d.y a.d.z = some r)
    (hI : SlotInv cx g proc) : SlotInv cx (updGrp cx a r g) (a :: proc) := by
  rw [updGrp_eq]
  by_cases hfe : feasibleR cx r = true
  · rw [if_pos hfe]
    have hc4 : fitClass r < g.slots.length := by rw [hI.len]; exact fitClass_lt r
    cases hlt : ltOpt (candDem cx a r) (slotDem g (fitClass r)) with
    | false =>
      rw [if_neg (by simp)]
      obtain ⟨y, hy, hyle⟩ := ltOpt_false hlt
      refine ⟨hI.len, hI.cls, ?_, hI.dminLe, hI.dminAt⟩
      intro a' ha' r' hr' hf'
      rcases List.mem_cons.mp ha' with rfl | ha'
      · have : r' = r := by rw [hr] at hr'; exact (Option.some.inj hr').symm
        subst this
        rcases slotDem_eq g (fitClass r') with ⟨hn, _⟩ | ⟨cand, hc, hd⟩
        · rw [hn] at hy; cases hy
        · rw [hd] at hy; cases hy
          exact ⟨cand, hc, hyle⟩
      · exact hI.best a' ha' r' hr' hf'
    | true =>
      rw [if_pos rfl]
      -- the new candidate
      have hset_self : (g.slots.set (fitClass r) (some ⟨candDem cx a r, a, r⟩))[fitClass r]? =
          some (some ⟨candDem cx a r, a, r⟩) := List.getElem?_set_self hc4
      -- what the old slot of this class held
      have hold : ∀ cand, g.slots[fitClass r]? = some (some cand) → candDem cx a r < cand.dem := by
        intro cand hc
        rcases slotDem_eq g (fitClass r) with ⟨_, hn⟩ | ⟨cand', hc', hd⟩
        · exact absurd hc (hn cand)
        · rw [hc] at hc'; cases hc'
          rw [hd] at hlt; exact ltOpt_true_some hlt
      refine ⟨?_, ?_, ?_, ?_, ?_⟩
      · simp only [List.length_set]; exact hI.len
      · intro i cand h
        by_cases hi : fitClass r = i
        · subst hi
          change (g.slots.set (fitClass r) (some ⟨candDem cx a r, a, r⟩))[fitClass r]? = _ at h
          rw [hset_self] at h
          cases h; rfl
        · simp only at h
          rw [List.getElem?_set_ne hi] at h
          exact hI.cls i cand h
      · intro a' ha' r' hr' hf'
        by_cases hi : fitClass r = fitClass r'
        · refine ⟨⟨candDem cx a r, a, r⟩, ?_, ?_⟩
          · rw [← hi]; exact hset_self
          · rcases List.mem_cons.mp ha' with rfl | ha'
            · have : r' = r := by rw [hr] at hr'; exact (Option.some.inj hr').symm
              subst this; exact le_refl _
            · obtain ⟨cand, hc, hle⟩ := hI.best a' ha' r' hr' hf'
              rw [← hi] at hc
              exact le_trans (le_of_lt (hold cand hc)) hle
        · rcases List.mem_cons.mp ha' with rfl | ha'
          · have : r' = r := by rw [hr] at hr'; exact (Option.some.inj hr').symm
            exact absurd (by rw [this]) hi
          · obtain ⟨cand, hc, hle⟩ := hI.best a' ha' r' hr' hf'
            refine ⟨cand, ?_, hle⟩
            simp only
            rw [List.getElem?_set_ne hi]; exact hc
      · intro i cand h
        simp only at h ⊢
        by_cases hi : fitClass r = i
        · subst hi
          rw [hset_self] at h
          cases h
          cases hd : ltOpt (candDem cx a r) g.dmin with
          | true => exact ⟨_, by simp, le_refl _⟩
          | false =>
            obtain ⟨y, hy, hyle⟩ := ltOpt_false hd
            exact ⟨y, by simpa using hy, hyle⟩
        · rw [List.getElem?_set_ne hi] at h
          obtain ⟨dm0, hdm0, hle0⟩ := hI.dminLe i cand h
          cases hd : ltOpt (candDem cx a r) g.dmin with
          | true =>
            have hd2 := hd
            rw [hdm0] at hd2
            exact ⟨_, by simp, le_trans (le_of_lt (ltOpt_true_some hd2)) hle0⟩
          | false => exact ⟨dm0, by simpa using hdm0, hle0⟩
      · intro dm hdm
        simp only at hdm ⊢
        cases hd : ltOpt (candDem cx a r) g.dmin with
        | true =>
          rw [hd] at hdm
          simp only [if_true, Option.some.injEq] at hdm
          exact ⟨fitClass r, _, hset_self, hdm⟩
        | false =>
          rw [hd] at hdm
          simp only [Bool.false_eq_true, if_false] at hdm
          obtain ⟨i, cand, hc, hcd⟩ := hI.dminAt dm hdm
          obtain ⟨y, hy, hyle⟩ := ltOpt_false hd
          by_cases hi : fitClass r = i
          · subst hi
            have := hold cand hc
            rw [hdm] at hy; cases hy
            rw [hcd] at this
            exact absurd this (not_lt.mpr hyle)
          · exact ⟨i, cand, by rw [List.getElem?_set_ne hi]; exact hc, hcd⟩
  · rw [if_neg hfe]
    refine ⟨hI.len, hI.cls, ?_, hI.dminLe, hI.dminAt⟩
    intro a' ha' r' hr' hf'
    rcases List.mem_cons.mp ha' with rfl | ha'
    · have : r' = r := by rw [hr] at hr'; exact (Option.some.inj hr').symm
      subst this; exact absurd hf' hfe
    · exact hI.best a' ha' r' hr' hf'

theorem mem_emit (cx : Ctx K) (width : K) (s : K × K × K) (dm : K) (cand : Cand K) :
    ∀ (slots : List (Option (Cand K))) (c0 i : Nat), slots[i]? = some (some cand) →
      cand.dem ≤ dm + cx.P.demFitness → mkNode cx width s (c0 + i) cand ∈ emit cx width s dm c0 slots := by
  intro slots
  induction slots with
  | nil => intro c0 i h; simp at h
  | cons x rest ih =>
    intro c0 i h hle
    cases i with
    | zero =>
      simp only [List.getElem?_cons_zero, Option.some.injEq] at h
      subst h
      simp only [emit, if_pos hle, Nat.add_zero]
      exact List.mem_cons_self
    | succ j =>
      simp only [List.getElem?_cons_succ] at h
      have := ih (c0 + 1) j h hle
      have e : c0 + 1 + j = c0 + (j + 1) := by omega
      rw [e] at this
      cases x with
      | none => simp only [emit]; exact this
      | some c' =>
        simp only [emit]
        split
        · exact List.mem_cons_of_mem _ this
        · exact this

/-- `n'` is a new breakpoint that dominates the candidate of `a` at ratio `r` -/
def DomNode (cx : Ctx K) (width : K) (s : K × K × K) (n' : Node K) (a : Node K) (r : K) : Prop :=
  ∃ c cand, n' = mkNode cx width s c cand ∧
    ((c = fitClass r ∧ cand.dem ≤ candDem cx a r) ∨ cand.dem + cx.P.demFitness ≤ candDem cx a r)

theorem flush_dom (cx : Ctx K) (width : K) (s : K × K × K) (g : Grp K) (o : MOut K) (proc : List (Node K))
    (hDF : 0 ≤ cx.P.demFitness) (hI : SlotInv cx g proc) (a : Node K) (ha : a ∈ proc) (r : K)
    (hr : adjRatio cx.P cx.lineW cx.it cx.W cx.Y cx.Z a.d.w a.d.y a.d.z = some r)
    (hf : feasibleR cx r = true) :
    ∃ n', n' ∈ (flush cx width s g o).act ∧ DomNode cx width s n' a r := by
  obtain ⟨cand, hc, hle⟩ := hI.best a ha r hr hf
  obtain ⟨dm, hdm, hdmle⟩ := hI.dminLe _ cand hc
  unfold flush
  rw [hdm]
  simp only
  by_cases hk : cand.dem ≤ dm + cx.P.demFitness
  · refine ⟨mkNode cx width s (0 + fitClass r) cand, List.mem_append_right _ (mem_emit cx width s dm cand _ 0 _ hc hk), ?_⟩
    exact ⟨0 + fitClass r, cand, rfl, Or.inl ⟨by omega, hle⟩⟩
  · obtain ⟨i0, cand0, hc0, hd0⟩ := hI.dminAt dm hdm
    have hk0 : cand0.dem ≤ dm + cx.P.demFitness := by rw [hd0]; linarith
    refine ⟨mkNode cx width s (0 + i0) cand0, List.mem_append_right _ (mem_emit cx width s dm cand0 _ 0 _ hc0 hk0), ?_⟩
    refine ⟨0 + i0, cand0, rfl, Or.inr ?_⟩
    rw [hd0]
    have := not_le.mp hk
    linarith

end
end Canvas.C17
