import CanvasProofs.Lemmas.C03StepK
import Mathlib.Analysis.SpecialFunctions.Sqrt
/-! C03: the assumptions `SqrtOK` about the environment's sqrt/hypot are satisfiable (real numbers). -/
namespace C03L
open Canvas

@[instance_reducible] noncomputable def envReal : Env ℝ where
  epsilon := 0
  tolerance := 0
  pi := 0
  sqrt := Real.sqrt
  sin := id
  cos := id
  atan2 := fun _ _ => 0
  acos := id
  hypot := fun x y => Real.sqrt (x * x + y * y)
  round := id
  cbrt := id
  pow := fun _ _ => 0
  isNaN := fun _ => false

theorem sqrtOK_real : @SqrtOK ℝ _ _ _ envReal :=
  @SqrtOK.mk ℝ _ _ _ envReal (fun x => Real.sqrt_nonneg x) (fun _ hx => Real.mul_self_sqrt hx)
    (fun _ _ => Real.sqrt_nonneg _)
    (fun x y => Real.mul_self_sqrt (add_nonneg (mul_self_nonneg x) (mul_self_nonneg y)))

end C03L
