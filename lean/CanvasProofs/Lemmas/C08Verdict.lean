import CanvasProofs.Lemmas.C08
import CanvasProofs.Lemmas.C08Sym

/-! # C08 — soundness of the executable verdict `Canvas.C08.verdict` / `rectNear`
(the specification that judges the real code's output on `V`/`VE` lines) -/
set_option linter.unusedSectionVars false
set_option linter.unusedVariables false
namespace C08
open Canvas Canvas.C08 GenK
variable {K : Type} [Field K] [LinearOrder K] [IsStrictOrderedRing K] [Env K] [ArcFns K]

@[simp] theorem ops_le' (a b : K) : Ops.le a b = decide (a ≤ b) := rfl
@[simp] theorem ops_abs (a : K) : Ops.abs a = |a| := rfl

/-- what `verdict = ok` says, per axis -/
def AxisOk (tolC tolT slo shi blo bhi flo fhi : K) : Prop :=
  (blo ≤ slo + tolC ∧ shi - tolC ≤ bhi) ∧ (|blo - slo| ≤ tolT ∧ |bhi - shi| ≤ tolT) ∧
  (flo ≤ min blo slo + tolC ∧ max bhi shi - tolC ≤ fhi)

theorem verdict_ok_iff (tolC tolT : K) (s b f : Rct K) :
    verdict tolC tolT s b f = Verdict.ok ↔
      AxisOk tolC tolT s.x0 s.x1 b.x0 b.x1 f.x0 f.x1 ∧ AxisOk tolC tolT s.y0 s.y1 b.y0 b.y1 f.y0 f.y1 := by
  simp only [verdict, axisContains, axisTight, axisFast, AxisOk, ops_le', ops_abs, ops_mn, ops_mx,
    Bool.and_eq_true, decide_eq_true_eq, Bool.not_eq_true']
  constructor
  · intro h
    split at h; · cases h
    split at h; · cases h
    split at h; · cases h
    split at h; · cases h
    split at h; · cases h
    split at h; · cases h
    rename_i h1 h2 h3 h4 h5 h6
    simp only [Bool.not_eq_false, Bool.and_eq_true, decide_eq_true_eq, Bool.eq_false_iff, ne_eq, not_not] at h1 h2 h3 h4 h5 h6
    exact ⟨⟨h1, h2, h5⟩, ⟨h3, h4, h6⟩⟩
  · rintro ⟨⟨a1, a2, a3⟩, ⟨b1, b2, b3⟩⟩
    simp [a1.1, a1.2, a2.1, a2.2, a3.1, a3.2, b1.1, b1.2, b2.1, b2.2, b3.1, b3.2]

/-- SOUNDNESS: if the verdict is `ok` then every point inside the sampled box is within `tolC` of
Bounds' rectangle, every side of Bounds is within `tolT` of the sampled extreme, and Bounds'
rectangle (and the samples) are within `tolC` inside FastBounds' rectangle. -/
theorem verdict_sound (tolC tolT : K) (s b f : Rct K) (h : verdict tolC tolT s b f = Verdict.ok) :
    (∀ q, InRect s q → b.x0 - tolC ≤ q.x ∧ q.x ≤ b.x1 + tolC ∧ b.y0 - tolC ≤ q.y ∧ q.y ≤ b.y1 + tolC) ∧
    (|b.x0 - s.x0| ≤ tolT ∧ |b.x1 - s.x1| ≤ tolT ∧ |b.y0 - s.y0| ≤ tolT ∧ |b.y1 - s.y1| ≤ tolT) ∧
    (f.x0 - tolC ≤ b.x0 ∧ b.x1 ≤ f.x1 + tolC ∧ f.y0 - tolC ≤ b.y0 ∧ b.y1 ≤ f.y1 + tolC) := by
  obtain ⟨⟨a1, a2, a3⟩, ⟨b1, b2, b3⟩⟩ := (verdict_ok_iff tolC tolT s b f).1 h
  refine ⟨fun q hq => ⟨by linarith [hq.1, a1.1], by linarith [hq.2.1, a1.2], by linarith [hq.2.2.1, b1.1], by linarith [hq.2.2.2, b1.2]⟩,
    ⟨a2.1, a2.2, b2.1, b2.2⟩, ?_⟩
  exact ⟨by linarith [a3.1, min_le_left b.x0 s.x0], by linarith [a3.2, le_max_left b.x1 s.x1],
    by linarith [b3.1, min_le_left b.y0 s.y0], by linarith [b3.2, le_max_left b.y1 s.y1]⟩

/-- larger tolerances never turn `ok` into a failure -/
theorem verdict_mono (tolC tolT tolC' tolT' : K) (hC : tolC ≤ tolC') (hT : tolT ≤ tolT') (s b f : Rct K)
    (h : verdict tolC tolT s b f = Verdict.ok) : verdict tolC' tolT' s b f = Verdict.ok := by
  rw [verdict_ok_iff] at h ⊢
  obtain ⟨⟨a1, a2, a3⟩, ⟨b1, b2, b3⟩⟩ := h
  exact ⟨⟨⟨by linarith [a1.1], by linarith [a1.2]⟩, ⟨a2.1.trans hT, a2.2.trans hT⟩, ⟨by linarith [a3.1], by linarith [a3.2]⟩⟩,
    ⟨⟨by linarith [b1.1], by linarith [b1.2]⟩, ⟨b2.1.trans hT, b2.2.trans hT⟩, ⟨by linarith [b3.1], by linarith [b3.2]⟩⟩⟩

/-- the verdict does not depend on where the picture is: translating all three rectangles -/
theorem verdict_translate (tolC tolT : K) (d : Pt K) (s b f : Rct K) :
    verdict tolC tolT (trR d s) (trR d b) (trR d f) = Verdict.ok ↔ verdict tolC tolT s b f = Verdict.ok := by
  simp only [verdict_ok_iff, AxisOk, trR, min_add_add_right, max_add_add_right]
  have e : ∀ a c t : K, a + t - (c + t) = a - c := fun a c t => by ring
  simp only [e]
  constructor <;> rintro ⟨⟨⟨p1, p2⟩, p3, ⟨p4, p5⟩⟩, ⟨⟨q1, q2⟩, q3, ⟨q4, q5⟩⟩⟩ <;>
    exact ⟨⟨⟨by linarith, by linarith⟩, p3, ⟨by linarith, by linarith⟩⟩, ⟨⟨by linarith, by linarith⟩, q3, ⟨by linarith, by linarith⟩⟩⟩

/-- at zero tolerance the specification accepts exactly: Bounds = the sampled (true) box, inside FastBounds -/
theorem verdict_exact (s b f : Rct K) (hx : s.x0 ≤ s.x1) (hy : s.y0 ≤ s.y1) :
    verdict 0 0 s b f = Verdict.ok ↔ (b = s ∧ f.x0 ≤ b.x0 ∧ b.x1 ≤ f.x1 ∧ f.y0 ≤ b.y0 ∧ b.y1 ≤ f.y1) := by
  rw [verdict_ok_iff]
  simp only [AxisOk, add_zero, sub_zero, abs_nonpos_iff, sub_eq_zero]
  constructor
  · rintro ⟨⟨_, ⟨e1, e2⟩, ⟨p1, p2⟩⟩, ⟨_, ⟨e3, e4⟩, ⟨p3, p4⟩⟩⟩
    refine ⟨by cases b; cases s; simp_all, ?_, ?_, ?_, ?_⟩
    · rw [e1] at p1 ⊢; simpa using p1
    · rw [e2] at p2 ⊢; simpa using p2
    · rw [e3] at p3 ⊢; simpa using p3
    · rw [e4] at p4 ⊢; simpa using p4
  · rintro ⟨rfl, p1, p2, p3, p4⟩
    simp [p1, p2, p3, p4]

theorem rectNear_iff (tol : K) (a b : Rct K) :
    rectNear tol a b = true ↔ |a.x0 - b.x0| ≤ tol ∧ |a.y0 - b.y0| ≤ tol ∧ |a.x1 - b.x1| ≤ tol ∧ |a.y1 - b.y1| ≤ tol := by
  simp [rectNear, and_assoc]

end C08
