import CanvasProofs.Lemmas.C13ParseA

/-! C13 serialise-then-parse, part B: well-formed values, tails, the `n g R` look-ahead, tokens. -/
namespace C13L
open Canvas.C13 Canvas.C13.Rd Canvas.C13.P

/-- the dictionary's serialisation lists its entries in the given order (i.e. the entries already
are in the writer's canonical order: Type, Subtype, then the other keys sorted) -/
def canonOK (es : List Entry) : Bool :=
  dictBytes es == asc "<<" ++ (es.map entryBytes).flatten ++ asc ">>"

/-- a name the writer may emit unescaped: regular characters only and no `#` -/
def nameOK (s : Bytes) : Bool := s.all isReg && s.all (fun c => c != 0x23)

theorem nameOK_reg {s : Bytes} (h : nameOK s = true) : s.all isReg = true := by
  unfold nameOK at h; simp only [Bool.and_eq_true] at h; exact h.1

theorem nameOK_unesc {s : Bytes} (h : nameOK s = true) : unescName s = s := by
  unfold nameOK at h; simp only [Bool.and_eq_true, List.all_eq_true, bne_iff_ne, ne_eq] at h
  exact unescName_id s h.2

mutual
  def wf : Val → Bool
    | .num p => isNumTok p
    | .name s => nameOK s
    | .arr xs => wfList xs
    | .dict kvs => wfKvs kvs && canonOK (serKvs kvs)
    | .stream _ _ => false
    | _ => true
  def wfList : List Val → Bool
    | [] => true
    | v :: vs => wf v && wfList vs
  def wfKvs : List (Bytes × Val) → Bool
    | [] => true
    | (k, v) :: r => nameOK k && wf v && wfKvs r
end

set_option maxRecDepth 100000 in
theorem numChar_props2 : ∀ c : UInt8, numChar c = true → c ≠ 0x2F ∧ c ≠ 0x28 ∧ c ≠ 0x5B ∧ c ≠ 0x3C := by
  apply byte_cases; decide

/-- acceptable first byte of a serialised value -/
def HeadOK (c : UInt8) : Prop := isWS c = false ∧ c ≠ 0x5D ∧ c ≠ 0x52 ∧ c ≠ 0x3E

theorem headOK_numChar (c : UInt8) (h : numChar c = true) : HeadOK c := by
  have := numChar_props c h
  refine ⟨this.2.1, this.2.2.1, this.2.2.2.1, ?_⟩
  intro e; subst e; revert h; decide

theorem numTok_cons (p : Bytes) (h : numTok p = true) : ∃ c r, p = c :: r ∧ numChar c = true ∧ p.all numChar = true := by
  unfold numTok at h
  simp only [Bool.and_eq_true] at h
  cases p with
  | nil => simp at h
  | cons c r => exact ⟨c, r, rfl, by have := h.2; simp only [List.all_cons, Bool.and_eq_true] at this; exact this.1, h.2⟩

theorem dictBytes_head (es : List Entry) : ∃ r, dictBytes es = 0x3C :: 0x3C :: r := by
  unfold dictBytes
  exact ⟨_, by simp only [show asc "<<" = [0x3C, 0x3C] by decide, List.cons_append, List.nil_append, List.append_assoc]; rfl⟩

theorem ser_head (v : Val) (h : wf v = true) : ∃ c r, ser v = c :: r ∧ HeadOK c := by
  cases v with
  | bool b =>
    cases b
    · exact ⟨0x66, [0x61, 0x6C, 0x73, 0x65], by simp only [ser]; decide, by decide, by decide, by decide, by decide⟩
    · exact ⟨0x74, [0x72, 0x75, 0x65], by simp only [ser]; decide, by decide, by decide, by decide, by decide⟩
  | int i =>
    obtain ⟨c, r, e, hc, _⟩ := numTok_cons _ (intBytes_numTok i)
    exact ⟨c, r, by simp only [ser]; exact e, headOK_numChar c hc⟩
  | num p =>
    simp only [wf] at h
    obtain ⟨c, r, e, hc, _⟩ := numTok_cons p (isNumTok_numTok p h)
    exact ⟨c, r, by simp only [ser]; exact e, headOK_numChar c hc⟩
  | str s => exact ⟨0x28, _, by simp only [ser, writeString]; rfl, by decide, by decide, by decide, by decide⟩
  | ref n =>
    obtain ⟨c, r, e, hc, _⟩ := numTok_cons _ (natBytes_numTok n)
    exact ⟨c, r ++ asc " 0 R", by simp only [ser]; rw [e]; rfl, headOK_numChar c hc⟩
  | name s => exact ⟨0x2F, s, by simp only [ser], by decide, by decide, by decide, by decide⟩
  | arr xs => exact ⟨0x5B, _, by simp only [ser]; rfl, by decide, by decide, by decide, by decide⟩
  | dict kvs =>
    obtain ⟨r, e⟩ := dictBytes_head (serKvs kvs)
    exact ⟨0x3C, _, by simp only [ser]; exact e, by decide, by decide, by decide, by decide⟩
  | stream kvs body => simp [wf] at h

/-- what may follow a serialised value: nothing, a delimiter, or a space and another value -/
inductive Tail : Bytes → Prop
  | nil : Tail []
  | delim (c : UInt8) (T : Bytes) : isDelim c = true → Tail (c :: T)
  | sep (v : Val) (T : Bytes) : wf v = true → Tail T → Tail (0x20 :: (ser v ++ T))

theorem Tail.nr {T : Bytes} (h : Tail T) : NR T := by
  intro c T' e
  cases h with
  | nil => cases e
  | delim c0 T0 hd => cases e; exact (isDelim_props c hd).1
  | sep v T0 hv ht => cases e; decide

theorem skipWs_ser (v : Val) (h : wf v = true) (T : Bytes) : skipWs (ser v ++ T) = ser v ++ T := by
  obtain ⟨c, r, e, hc⟩ := ser_head v h
  rw [e]; exact skipWs_cons_of_not_ws _ hc.1

theorem Tail.noR {T : Bytes} (h : Tail T) : ∀ c r4, skipWs T = c :: r4 → c ≠ 0x52 := by
  intro c r4 e
  cases h with
  | nil => simp [skipWs] at e
  | delim c0 T0 hd =>
    rw [skipWs_cons_of_not_ws _ (isDelim_props c0 hd).2.1] at e
    cases e; exact (isDelim_props c hd).2.2
  | sep v T0 hv ht =>
    rw [skipWs_cons_ws _ (by decide), skipWs_ser v hv] at e
    obtain ⟨c', r, e', hc⟩ := ser_head v hv
    rw [e'] at e; cases e; exact hc.2.2.1

theorem sp0R (T : Bytes) : asc " 0 R" ++ T = 0x20 :: 0x30 :: 0x20 :: 0x52 :: T := rfl

/-- generic form of "no reference ahead" -/
theorem refAhead_none (r t2 r2 : Bytes) (h1 : spanReg (skipWs r) = (t2, r2))
    (h2 : isNatTok t2 = false ∨ ∀ c r4, skipWs r2 = c :: r4 → c ≠ 0x52) : refAhead r = none := by
  unfold refAhead
  simp only [h1]
  rcases h2 with h | h
  · simp [h]
  · split
    · split
      · next c r4 e =>
        have hc := h c r4 e
        have : (c == 0x52) = false := by simpa using hc
        simp [this]
      · rfl
    · rfl

theorem spanReg_delim (c : UInt8) (r : Bytes) (h : isReg c = false) : spanReg (c :: r) = ([], c :: r) := by
  simp [spanReg, h]

theorem Tail.noRef {T : Bytes} (h : Tail T) : P.refAhead T = none := by
  cases h with
  | nil => exact refAhead_none [] [] [] rfl (Or.inl (by decide))
  | delim c T0 hd =>
    have p := isDelim_props c hd
    exact refAhead_none _ [] (c :: T0) (by rw [skipWs_cons_of_not_ws _ p.2.1, spanReg_delim c T0 p.1]) (Or.inl (by decide))
  | sep v T0 hv ht =>
    have hsk : skipWs (0x20 :: (ser v ++ T0)) = ser v ++ T0 := by
      rw [skipWs_cons_ws _ (by decide), skipWs_ser v hv]
    -- numbers (and integers): the token is the whole printed text
    have numCase : ∀ p : Bytes, numTok p = true → ser v = p → refAhead (0x20 :: (ser v ++ T0)) = none := by
      intro p hp e
      obtain ⟨_, _, _, _, hall⟩ := numTok_cons p hp
      refine refAhead_none _ p T0 ?_ (Or.inr ht.noR)
      rw [hsk, e, spanReg_append p T0 (all_numChar_isReg p hall) ht.nr]
    -- values that start with a delimiter
    have delimCase : ∀ (c : UInt8) (r : Bytes), isReg c = false → ser v = c :: r → refAhead (0x20 :: (ser v ++ T0)) = none := by
      intro c r hc e
      refine refAhead_none _ [] (c :: (r ++ T0)) ?_ (Or.inl (by decide))
      rw [hsk, e, List.cons_append, spanReg_delim c _ hc]
    cases v with
    | bool b =>
      cases b
      · refine refAhead_none _ kFalse T0 ?_ (Or.inl (by decide))
        rw [hsk]; simp only [ser]
        exact spanReg_append kFalse T0 (by decide) ht.nr
      · refine refAhead_none _ kTrue T0 ?_ (Or.inl (by decide))
        rw [hsk]; simp only [ser]
        exact spanReg_append kTrue T0 (by decide) ht.nr
    | int i => exact numCase _ (intBytes_numTok i) (by simp only [ser])
    | num p => exact numCase p (isNumTok_numTok p (by simpa only [wf] using hv)) (by simp only [ser])
    | str s => exact delimCase 0x28 _ (by decide) (by simp only [ser, writeString]; rfl)
    | name s => exact delimCase 0x2F s (by decide) (by simp only [ser])
    | arr xs => exact delimCase 0x5B _ (by decide) (by simp only [ser]; rfl)
    | dict kvs =>
      obtain ⟨r, e⟩ := dictBytes_head (serKvs kvs)
      exact delimCase 0x3C _ (by decide) (by simp only [ser]; exact e)
    | stream kvs body => simp [wf] at hv
    | ref n =>
      have hd := natBytes_all_digit n
      have hreg : (natBytes n).all isReg = true := by
        obtain ⟨_, _, _, _, hall⟩ := numTok_cons _ (natBytes_numTok n)
        exact all_numChar_isReg _ hall
      refine refAhead_none _ (natBytes n) (asc " 0 R" ++ T0) ?_ (Or.inr ?_)
      · rw [hsk]; simp only [ser, List.append_assoc]
        refine spanReg_append _ _ hreg ?_
        intro c T' e
        rw [sp0R] at e
        cases e; decide
      · intro c r4 e
        rw [sp0R, skipWs_cons_ws _ (by decide), skipWs_cons_of_not_ws _ (by decide)] at e
        cases e; decide

end C13L
