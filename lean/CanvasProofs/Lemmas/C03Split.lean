import CanvasGen.CoreK
import CanvasGen.BezierK
import Mathlib.Tactic.Ring
/-! C03 helper lemmas: de Casteljau splits reparametrise exactly (any field). -/
set_option linter.unusedSectionVars false
namespace C03L
open Canvas GenK
variable {K : Type} [Field K] [LinearOrder K] [IsStrictOrderedRing K] [Env K]

/-- left / right control polygons returned by `quadraticBezierSplit` -/
def quadL (p0 p1 p2 : Pt K) (t : K) : Pt K × Pt K × Pt K :=
  let r := quadraticBezierSplit p0 p1 p2 t
  (r.1, r.2.1, r.2.2.1)
def quadR (p0 p1 p2 : Pt K) (t : K) : Pt K × Pt K × Pt K :=
  let r := quadraticBezierSplit p0 p1 p2 t
  (r.2.2.2.1, r.2.2.2.2.1, r.2.2.2.2.2)

theorem quad_left (p0 p1 p2 : Pt K) (t s : K) :
    quadraticBezierPos (quadL p0 p1 p2 t).1 (quadL p0 p1 p2 t).2.1 (quadL p0 p1 p2 t).2.2 s
      = quadraticBezierPos p0 p1 p2 (t * s) := by
  simp only [quadL, quadraticBezierSplit, quadraticBezierPos, Point.Interpolate, Point.Mul, Point.Add]
  congr 1 <;> ring

theorem quad_right (p0 p1 p2 : Pt K) (t s : K) :
    quadraticBezierPos (quadR p0 p1 p2 t).1 (quadR p0 p1 p2 t).2.1 (quadR p0 p1 p2 t).2.2 s
      = quadraticBezierPos p0 p1 p2 (t + (1 - t) * s) := by
  simp only [quadR, quadraticBezierSplit, quadraticBezierPos, Point.Interpolate, Point.Mul, Point.Add]
  congr 1 <;> ring

theorem quadR_end (p0 p1 p2 : Pt K) (t : K) : (quadR p0 p1 p2 t).2.2 = p2 := rfl

theorem quad_pos_zero (p0 p1 p2 : Pt K) : quadraticBezierPos p0 p1 p2 0 = p0 := by
  cases p0; cases p1; cases p2
  simp [quadraticBezierPos, Point.Mul, Point.Add]

theorem quad_pos_one (p0 p1 p2 : Pt K) : quadraticBezierPos p0 p1 p2 1 = p2 := by
  cases p0; cases p1; cases p2
  simp only [quadraticBezierPos, Point.Mul, Point.Add]
  congr 1 <;> ring

def cubL (p0 p1 p2 p3 : Pt K) (t : K) : Pt K × Pt K × Pt K × Pt K :=
  let r := cubicBezierSplit p0 p1 p2 p3 t
  (r.1, r.2.1, r.2.2.1, r.2.2.2.1)
def cubR (p0 p1 p2 p3 : Pt K) (t : K) : Pt K × Pt K × Pt K × Pt K :=
  let r := cubicBezierSplit p0 p1 p2 p3 t
  (r.2.2.2.2.1, r.2.2.2.2.2.1, r.2.2.2.2.2.2.1, r.2.2.2.2.2.2.2)

theorem cub_left (p0 p1 p2 p3 : Pt K) (t s : K) :
    cubicBezierPos (cubL p0 p1 p2 p3 t).1 (cubL p0 p1 p2 p3 t).2.1 (cubL p0 p1 p2 p3 t).2.2.1 (cubL p0 p1 p2 p3 t).2.2.2 s
      = cubicBezierPos p0 p1 p2 p3 (t * s) := by
  simp only [cubL, cubicBezierSplit, cubicBezierPos, Point.Interpolate, Point.Mul, Point.Add]
  congr 1 <;> ring

theorem cub_right (p0 p1 p2 p3 : Pt K) (t s : K) :
    cubicBezierPos (cubR p0 p1 p2 p3 t).1 (cubR p0 p1 p2 p3 t).2.1 (cubR p0 p1 p2 p3 t).2.2.1 (cubR p0 p1 p2 p3 t).2.2.2 s
      = cubicBezierPos p0 p1 p2 p3 (t + (1 - t) * s) := by
  simp only [cubR, cubicBezierSplit, cubicBezierPos, Point.Interpolate, Point.Mul, Point.Add]
  congr 1 <;> ring

theorem cub_pos_zero (p0 p1 p2 p3 : Pt K) : cubicBezierPos p0 p1 p2 p3 0 = p0 := by
  cases p0; cases p1; cases p2; cases p3
  simp [cubicBezierPos, Point.Mul, Point.Add]

theorem cub_pos_one (p0 p1 p2 p3 : Pt K) : cubicBezierPos p0 p1 p2 p3 1 = p3 := by
  cases p0; cases p1; cases p2; cases p3
  simp only [cubicBezierPos, Point.Mul, Point.Add]
  congr 1 <;> ring

end C03L
