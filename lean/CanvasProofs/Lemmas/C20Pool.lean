import CanvasModel.C20.Pool
import CanvasProofs.Lemmas.C20
/-! # C20 lemmas: soundness of the pool-protocol verdicts -/
namespace Canvas.C20

theorem all_contains_mem {fields a : List String} (h : fields.all a.contains = true) :
    ∀ f, f ∈ fields → f ∈ a := by
  intro f hf
  have := List.all_eq_true.mp h f hf
  simpa using this

/-- `initOk` implies the hypotheses of the object machine: every operation reads only assigned
fields, and in the end every field is assigned -/
theorem initOk_sound {α : Type} (fields : List String) (sem : InitStep → String → (String → α) → α) :
    ∀ (steps : List InitStep) (a : List String), initOk fields steps a = true →
      readsAssigned fields (toOps fields sem steps) a ∧
      ∀ f, f ∈ fields → f ∈ assignedAfter fields (toOps fields sem steps) a := by
  intro steps
  induction steps with
  | nil =>
    intro a h
    simp only [initOk] at h
    exact ⟨trivial, fun f hf => by simpa [toOps, assignedAfter] using all_contains_mem h f hf⟩
  | cons s rest ih =>
    intro a h
    simp only [initOk, Bool.and_eq_true, Bool.or_eq_true, Bool.not_eq_true'] at h
    obtain ⟨⟨hr, hw⟩, hk⟩ := h
    have hdeps : ∀ d, d ∈ (if s.whole then fields ++ s.reads else s.reads) → d ∈ a := by
      intro d hd
      by_cases hwh : s.whole = true
      · simp only [hwh, if_true, List.mem_append] at hd
        rcases hw with hw | hw
        · rw [hwh] at hw; cases hw
        · rcases hd with hd | hd
          · exact all_contains_mem hw d hd
          · exact all_contains_mem hr d hd
      · simp only [hwh, Bool.false_eq_true, if_false] at hd
        exact all_contains_mem hr d hd
    cases hkind : s.kind with
    | set f =>
      rw [hkind] at hk
      obtain ⟨h1, h2⟩ := ih (f :: a) hk
      simp only [toOps, hkind, readsAssigned, assignedAfter]
      exact ⟨⟨hdeps, by simpa using h1⟩, by simpa using h2⟩
    | setAll =>
      rw [hkind] at hk
      obtain ⟨h1, h2⟩ := ih (fields ++ a) hk
      simp only [toOps, hkind, readsAssigned, assignedAfter]
      exact ⟨⟨hdeps, by simpa using h1⟩, by simpa using h2⟩
    | use =>
      rw [hkind] at hk
      simp only [toOps, hkind, readsAssigned, assignedAfter]
      exact ⟨trivial, fun f hf => all_contains_mem hk f hf⟩

theorem toOps_respects {α : Type} (fields : List String) (sem : InitStep → String → (String → α) → α)
    (hs : SemRespects fields sem) : ∀ steps op, op ∈ toOps fields sem steps → op.Respects := by
  intro steps
  induction steps with
  | nil => intro op h; simp [toOps] at h
  | cons s rest ih =>
    intro op h
    cases hkind : s.kind with
    | set f =>
      simp only [toOps, hkind, List.mem_cons] at h
      rcases h with rfl | h
      · intro g st st' hd; exact hs s g st st' hd
      · exact ih op h
    | setAll =>
      simp only [toOps, hkind, List.mem_cons] at h
      rcases h with rfl | h
      · intro g st st' hd; exact hs s g st st' hd
      · exact ih op h
    | use => simp [toOps, hkind] at h

/-- **protocol soundness (Get)**: a statement sequence accepted by `initOk` leaves the object in a
state that does not depend on what the pool held, whatever the right-hand sides mean -/
theorem initOk_stateless {α : Type} (fields : List String) (steps : List InitStep)
    (h : initOk fields steps [] = true)
    (sem : InitStep → String → (String → α) → α) (hs : SemRespects fields sem) :
    ∀ (stale stale' : String → α) f, f ∈ fields →
      runInit (toOps fields sem steps) stale f = runInit (toOps fields sem steps) stale' f := by
  obtain ⟨h1, h2⟩ := initOk_sound fields sem steps [] h
  intro stale stale' f hf
  exact runInit_agree fields _ [] stale stale' (toOps_respects fields sem hs steps) h1
    (fun g hg => by cases hg) f (h2 f hf)

/-! ## Put -/

theorem gen_only_release : ∀ (ks : List StmtKind) (tr : List PEv),
    ks.all (· != .other) = true → Gen ks tr → ∀ e, e ∈ tr → e.isRelease = true := by
  intro ks tr hks hg
  induction hg with
  | nil => intro e h; cases h
  | other _ _ _ => simp at hks
  | release hseg _ ih =>
    simp only [List.all_cons, Bool.and_eq_true] at hks
    intro e he
    rcases List.mem_append.mp he with h | h
    · exact hseg e h
    · exact ih hks.2 e h
  | ret => intro e h; cases h

/-- **protocol soundness (Put)**: in every event sequence of a body accepted by `tailOk`, after the
first `put` there are only puts and guards of release statements — no object, released or not, is
used or fetched any more -/
theorem tailOk_sound : ∀ (ks : List StmtKind) (tr : List PEv), tailOk ks = true → Gen ks tr →
    ∀ (a b : List PEv) (id : Nat), tr = a ++ PEv.put id :: b → ∀ e, e ∈ b → e.isRelease = true := by
  intro ks tr hk hg
  induction hg with
  | nil => intro a b id h; simp at h
  | ret => intro a b id h; simp at h
  | release hseg hrest ih' =>
    rename_i ks' seg tr'
    simp only [tailOk] at hk
    have hall : ∀ e, e ∈ seg ++ tr' → e.isRelease = true := by
      intro e he
      rcases List.mem_append.mp he with h | h
      · exact hseg e h
      · exact gen_only_release ks' tr' hk hrest e h
    intro a b id h e he
    apply hall
    rw [h]
    exact List.mem_append_right _ (List.mem_cons_of_mem _ he)
  | other hseg hrest ih =>
    rename_i ks' seg tr'
    simp only [tailOk] at hk
    intro a b id h e he
    -- the put is not in `seg`, so the split point lies in `tr'`
    rcases List.append_eq_append_iff.mp h with ⟨c, hc1, hc2⟩ | ⟨c, hc1, hc2⟩
    · -- a = seg ++ c, tr' = c ++ put :: b
      exact ih hk c b id hc2 e he
    · -- seg = a ++ c, put :: b = c ++ tr'
      cases c with
      | nil =>
        simp only [List.nil_append] at hc2
        exact ih hk [] b id (by simpa using hc2.symm) e he
      | cons x c' =>
        simp only [List.cons_append, List.cons.injEq] at hc2
        obtain ⟨hx, _⟩ := hc2
        have := (hseg (PEv.put id) (by rw [hc1]; exact List.mem_append_right _ (by rw [← hx]; exact List.mem_cons_self ..))).1
        simp [PEv.isPut] at this

end Canvas.C20
