import CanvasProofs.Lemmas.C17Opt10
/-! C17 — the tolerance relaxation and the overflow fallback: the tolerance is relaxed only as far as
needed and overflow is reported only if it cannot be avoided (well-formed paragraphs, ordered field). -/
set_option linter.unusedSectionVars false
set_option linter.unusedVariables false
namespace Canvas.C17

section field
variable {K : Type} [Field K] [LinearOrder K] [IsStrictOrderedRing K]

theorem minOpt_le_right (m : Option K) (r : K) : minOpt m r ≤ r := by
  unfold minOpt
  cases m with
  | none => exact le_refl _
  | some m => simp only; split
              · exact le_refl _
              · rename_i h; exact not_lt.mp h

theorem minOpt_le_left (m r : K) : minOpt (some m) r ≤ m := by
  unfold minOpt
  simp only; split
  · rename_i h; exact le_of_lt h
  · exact le_refl _

/-- once `nextTolerance` is finite it can only decrease during `mainLoop` -/
theorem stepNode_tol_le (cx : Ctx K) (a : Node K) (g : Grp K) (o : MOut K) (x : K) (h : o.nextTol = some x) :
    ∃ x', (stepNode cx a g o).2.nextTol = some x' ∧ x' ≤ x := by
  unfold stepNode
  cases hr : adjRatio cx.P cx.lineW cx.it cx.W cx.Y cx.Z a.d.w a.d.y a.d.z with
  | none => exact ⟨x, by simp only [moveNode_nextTol]; exact h, le_refl _⟩
  | some r =>
    simp only
    unfold updTol
    split
    · exact ⟨x, by rw [moveNode_nextTol]; exact h, le_refl _⟩
    · split
      · refine ⟨minOpt (some x) r, by simp only [moveNode_nextTol, h], minOpt_le_left x r⟩
      · exact ⟨x, by rw [moveNode_nextTol]; exact h, le_refl _⟩

theorem mainGo_tol_le (cx : Ctx K) (width : K) (s : K × K × K) : ∀ (l : List (Node K)) (g : Grp K) (o : MOut K) (x : K),
    o.nextTol = some x → ∃ x', (mainGo cx width s l g o).nextTol = some x' ∧ x' ≤ x := by
  intro l
  induction l with
  | nil => intro g o x h; simp only [mainGo]; exact ⟨x, by rw [(flush_spec cx width s g o).2.1]; exact h, le_refl _⟩
  | cons a rest ih =>
    intro g o x h
    simp only [mainGo]
    obtain ⟨x1, h1, hle1⟩ := stepNode_tol_le cx a g o x h
    cases rest with
    | nil => exact ⟨x1, by rw [(flush_spec cx width s _ _).2.1]; exact h1, hle1⟩
    | cons nx rest' =>
      simp only
      split
      · obtain ⟨x2, h2, hle2⟩ := ih emptyGrp (flush cx width s (stepNode cx a g o).1 (stepNode cx a g o).2) x1
          (by rw [(flush_spec cx width s _ _).2.1]; exact h1)
        exact ⟨x2, h2, le_trans hle2 hle1⟩
      · obtain ⟨x2, h2, hle2⟩ := ih _ _ x1 h1
        exact ⟨x2, h2, le_trans hle2 hle1⟩

/-- a node whose ratio lies above the tolerance makes `nextTolerance` at most that ratio -/
theorem mainGo_tol_hit (cx : Ctx K) (width : K) (s : K × K × K) (a : Node K) (r : K)
    (hr : adjRatio cx.P cx.lineW cx.it cx.W cx.Y cx.Z a.d.w a.d.y a.d.z = some r)
    (hnf : feasibleR cx r = false) (hlt : ltTol cx.tol r = true) :
    ∀ (l : List (Node K)) (g : Grp K) (o : MOut K), a ∈ l →
      ∃ x', (mainGo cx width s l g o).nextTol = some x' ∧ x' ≤ r := by
  intro l
  induction l with
  | nil => intro g o h; cases h
  | cons y rest ih =>
    intro g o hm
    simp only [mainGo]
    rcases List.mem_cons.mp hm with rfl | hm
    · have h1 : ∃ x1, (stepNode cx a g o).2.nextTol = some x1 ∧ x1 ≤ r := by
        unfold stepNode
        rw [hr]
        simp only
        unfold updTol
        rw [if_neg (by simp [hnf]), if_pos hlt]
        exact ⟨_, rfl, minOpt_le_right _ r⟩
      obtain ⟨x1, h1, hle1⟩ := h1
      cases rest with
      | nil => exact ⟨x1, by rw [(flush_spec cx width s _ _).2.1]; exact h1, hle1⟩
      | cons nx rest' =>
        simp only
        split
        · obtain ⟨x2, h2, hle2⟩ := mainGo_tol_le cx width s (nx :: rest') emptyGrp
            (flush cx width s (stepNode cx a g o).1 (stepNode cx a g o).2) x1
            (by rw [(flush_spec cx width s _ _).2.1]; exact h1)
          exact ⟨x2, h2, le_trans hle2 hle1⟩
        · obtain ⟨x2, h2, hle2⟩ := mainGo_tol_le cx width s (nx :: rest') _ _ x1 h1
          exact ⟨x2, h2, le_trans hle2 hle1⟩
    · cases rest with
      | nil => cases hm
      | cons nx rest' =>
        simp only
        split
        · exact ih _ _ hm
        · exact ih _ _ hm

/-- `nextTolerance` is finite and at most `t` -/
def Bnd (t : K) (nt : Option K) : Prop := ∃ x, nt = some x ∧ x ≤ t

theorem clearStale_fields (P : Params K) (prev : Option (Item K)) (lb : LB K) :
    (clearStale P prev lb).act = lb.act ∧ (clearStale P prev lb).ovf = lb.ovf ∧
    (clearStale P prev lb).nextTol = lb.nextTol := by
  unfold clearStale
  split
  · split <;> exact ⟨rfl, rfl, rfl⟩
  · exact ⟨rfl, rfl, rfl⟩

theorem mainLoop_tol_le (P : Params K) (items : List (Item K)) (lineW : K) (tol : Option K) (b : Nat)
    (it : Item K) (rest : List (Item K)) (lb : LB K) (t : K) (h : Bnd t lb.nextTol) :
    Bnd t (mainLoop P items lineW tol b it rest lb).nextTol := by
  obtain ⟨x, hx, hle⟩ := h
  obtain ⟨x', hx', hle'⟩ := mainGo_tol_le (mlCx P items lineW tol b it lb) (mlWidth it lb) (mlS P it rest lb) lb.act
    emptyGrp ⟨[], lb.inact, lb.nextTol⟩ x hx
  exact ⟨x', hx', le_trans hle' hle⟩

/-- a pass at a finite tolerance never falls back: it completes or restarts, with the overflow flag
unchanged; a finite bound on `nextTolerance` is inherited by the tolerance it restarts with -/
theorem passLoop_finite (P : Params K) (items : List (Item K)) (lineW : K) (hwf : WF P items lineW) (ti t : K) :
    ∀ (rest : List (Item K)) (b : Nat) (lb : LB K), items.drop b = rest → Inv P items lineW (some ti) b lb →
      (∃ lbf, passLoop P items lineW (some ti) b (prevOf items b) rest lb = PassRes.done lbf ∧ lbf.ovf = lb.ovf) ∨
      (∃ nt, passLoop P items lineW (some ti) b (prevOf items b) rest lb = PassRes.restart nt lb.ovf ∧
        (Bnd t lb.nextTol → Bnd t nt)) := by
  intro rest
  induction rest with
  | nil => intro b lb _ _; exact Or.inl ⟨lb, by simp [passLoop], rfl⟩
  | cons it rest ih =>
    intro b lb hdrop hI
    have hit : items[b]? = some it := drop_getElem? hdrop
    simp only [passLoop]
    obtain ⟨hIc, hSc⟩ := clear_inv P items lineW (some ti) b lb hI
    obtain ⟨c1, c2, c3⟩ := clearStale_fields P (prevOf items b) lb
    cases h1 : itemStep P items lineW (some ti) b (prevOf items b) it rest (clearStale P (prevOf items b) lb) with
    | none =>
      exfalso
      obtain ⟨hg, hr⟩ := itemStep_none P items lineW _ b _ it rest _ h1
      have := hwf.np b it hit hg
      have h2 := drop_succ_of_drop hdrop
      rw [hr] at h2
      have := List.drop_eq_nil_iff.mp h2
      omega
    | some lb1 =>
      simp only
      obtain ⟨lbm, hm, _, ha1, hi1, ht1, ho1⟩ := itemStep_cases P items lineW (some ti) b it rest _ lb1 hdrop h1
      have M := mid_of_inv P items lineW (some ti) b it rest _ lbm hdrop hIc hSc hm
      have hov1 : lb1.ovf = lb.ovf := by rw [ho1, M.ovf, c2]
      have hbnd1 : Bnd t lb.nextTol → Bnd t lb1.nextTol := by
        intro hb
        rw [ht1]
        rcases hm with ⟨_, h⟩ | ⟨_, h⟩
        · rw [h, c3]; exact hb
        · rw [h]; exact mainLoop_tol_le P items lineW _ b it rest _ t (by rw [c3]; exact hb)
      cases h2 : drastic P (some ti) b it rest lb1 with
      | none =>
        simp only
        rw [hov1]
        exact Or.inr ⟨lb1.nextTol, rfl, hbnd1⟩
      | some lb2 =>
        simp only
        have hI2 := step_inv (fun a => beq_self_eq_true a) P items lineW (some ti) b it rest lb lb1 lb2 hdrop hI h1 h2
        -- no fallback at a finite tolerance
        have he : lb2 = lb1 := by
          rcases drastic_cases P (some ti) b it rest lb1 lb2 h2 with ⟨_, he⟩ | ⟨hnil, _⟩
          · exact he
          · exfalso
            unfold drastic at h2
            rw [hnil] at h2
            simp only at h2
            have hte : tolEq (some ti) lb1.nextTol = true := by
              cases hq : tolEq (some ti) lb1.nextTol with
              | true => rfl
              | false => rw [hq] at h2; simp at h2
            rcases M.ntol with hn | ⟨r, hn, hlt, _⟩
            · rw [ht1, hn] at hte; simp [tolEq] at hte
            · rw [ht1, hn] at hte
              simp only [tolEq, beq_iff_eq] at hte
              simp only [ltTol, decide_eq_true_eq] at hlt
              rw [hte] at hlt; exact lt_irrefl _ hlt
        obtain ⟨_, _, _, g4, g5⟩ := addGlue_spec it lb2
        have hprevb : prevOf items (b + 1) = some it := hit
        rw [← hprevb]
        rcases ih (b + 1) (addGlue it lb2) (drop_succ_of_drop hdrop) hI2 with ⟨lbf, hp, hov⟩ | ⟨nt, hp, hb⟩
        · exact Or.inl ⟨lbf, hp, by rw [hov, g5, he, hov1]⟩
        · refine Or.inr ⟨nt, by rw [hp, g5, he, hov1], ?_⟩
          intro hb0
          apply hb
          rw [g4, he]
          exact hbnd1 hb0

/-- continuation of a pass at a finite tolerance once `nextTolerance` is bounded by `t` -/
theorem after_hit (P : Params K) (items : List (Item K)) (lineW : K) (hwf : WF P items lineW) (ti t : K)
    (b : Nat) (it : Item K) (rest : List (Item K)) (lb lb1 : LB K) (hdrop : items.drop b = it :: rest)
    (hI : Inv P items lineW (some ti) b lb)
    (h1 : itemStep P items lineW (some ti) b (prevOf items b) it rest (clearStale P (prevOf items b) lb) = some lb1)
    (hov1 : lb1.ovf = lb.ovf) (hbnd : Bnd t lb1.nextTol) :
    (∃ lbf, (match drastic P (some ti) b it rest lb1 with
        | none => PassRes.restart lb1.nextTol lb1.ovf
        | some lb2 => passLoop P items lineW (some ti) (b + 1) (some it) rest (addGlue it lb2)) = PassRes.done lbf ∧
        lbf.ovf = lb.ovf) ∨
    (∃ x, (match drastic P (some ti) b it rest lb1 with
        | none => PassRes.restart lb1.nextTol lb1.ovf
        | some lb2 => passLoop P items lineW (some ti) (b + 1) (some it) rest (addGlue it lb2)) =
          PassRes.restart (some x) lb.ovf ∧ x ≤ t) := by
  have hit : items[b]? = some it := drop_getElem? hdrop
  cases h2 : drastic P (some ti) b it rest lb1 with
  | none =>
    simp only
    obtain ⟨x, hx, hle⟩ := hbnd
    exact Or.inr ⟨x, by rw [hx, hov1], hle⟩
  | some lb2 =>
    simp only
    have hI2 := step_inv (fun a => beq_self_eq_true a) P items lineW (some ti) b it rest lb lb1 lb2 hdrop hI h1 h2
    obtain ⟨_, _, _, g4, g5⟩ := addGlue_spec it lb2
    -- nextTol and ovf of lb2: either lb2 = lb1, or a fallback (impossible at a finite tolerance, but the
    -- bound and the flag are all we need: a fallback keeps nextTol)
    have hnt2 : lb2.nextTol = lb1.nextTol := by
      rcases drastic_cases P (some ti) b it rest lb1 lb2 h2 with ⟨_, he⟩ | ⟨_, _, _, _, _, _, hn, _⟩
      · rw [he]
      · exact hn
    have hprevb : prevOf items (b + 1) = some it := hit
    rw [← hprevb]
    rcases passLoop_finite P items lineW hwf ti t rest (b + 1) (addGlue it lb2) (drop_succ_of_drop hdrop) hI2 with
      ⟨lbf, hp, hov⟩ | ⟨nt, hp, hb⟩
    · refine Or.inl ⟨lbf, hp, ?_⟩
      rw [hov, g5]
      -- the flag: no fallback at a finite tolerance
      rcases drastic_cases P (some ti) b it rest lb1 lb2 h2 with ⟨_, he⟩ | ⟨hnil, _⟩
      · rw [he, hov1]
      · exfalso
        obtain ⟨x, hx, _⟩ := hbnd
        unfold drastic at h2
        rw [hnil] at h2
        simp only at h2
        have hte : tolEq (some ti) lb1.nextTol = true := by
          cases hq : tolEq (some ti) lb1.nextTol with
          | true => rfl
          | false => rw [hq] at h2; simp at h2
        -- lb1.nextTol = some x with ti < x by the invariant of the next state
        rcases hI2.ntol with hn | ⟨r, hn, hlt, _⟩
        · rw [g4, hnt2, hx] at hn; cases hn
        · rw [g4, hnt2] at hn
          rw [hn] at hte
          simp only [tolEq, beq_iff_eq] at hte
          simp only [ltTol, decide_eq_true_eq] at hlt
          rw [hte] at hlt; exact lt_irrefl _ hlt
    · have hb' := hb (by rw [g4, hnt2]; exact hbnd)
      obtain ⟨x, hx, hle⟩ := hb'
      refine Or.inr ⟨x, ?_, hle⟩
      rw [hp, hx, g5]
      rcases drastic_cases P (some ti) b it rest lb1 lb2 h2 with ⟨_, he⟩ | ⟨hnil, _⟩
      · rw [he, hov1]
      · exfalso
        obtain ⟨x0, hx0, _⟩ := hbnd
        unfold drastic at h2
        rw [hnil] at h2
        simp only at h2
        have hte : tolEq (some ti) lb1.nextTol = true := by
          cases hq : tolEq (some ti) lb1.nextTol with
          | true => rfl
          | false => rw [hq] at h2; simp at h2
        rcases hI2.ntol with hn | ⟨r, hn, hlt, _⟩
        · rw [g4, hnt2, hx0] at hn; cases hn
        · rw [g4, hnt2] at hn
          rw [hn] at hte
          simp only [tolEq, beq_iff_eq] at hte
          simp only [ltTol, decide_eq_true_eq] at hlt
          rw [hte] at hlt; exact lt_irrefl _ hlt

/-- a pass at tolerance `ti ≤ t` on a paragraph that has a legal breaking feasible at `t`: it completes, or
restarts with a tolerance that is still at most `t` — never with +∞, never with an overflow -/
theorem passLoop_relax (P : Params K) (items : List (Item K)) (lineW : K) (hwf : WF P items lineW) (ti t : K) :
    ∀ (rest : List (Item K)) (b : Nat) (lb : LB K) (prev : Option Nat) (fit : Nat) (acc : K) (seq : List Nat) (d : K),
      items.drop b = rest → b ≤ items.length → Inv P items lineW (some ti) b lb →
      (∀ x, x ∈ seq → b ≤ x) → seq.Pairwise (· < ·) → NoSkip P items prev seq →
      (∀ a, prev = some a → a < b ∧ legalAt P items a = true) →
      (seq = [] → b = items.length) → (∀ x, seq.getLast? = some x → x + 1 = items.length) →
      seqCost P items lineW (some t) prev fit acc seq = some d →
      (∃ n, n ∈ lb.act ∧ AtPrev P items n prev ∧ Dom P n fit acc) →
      (∃ lbf, passLoop P items lineW (some ti) b (prevOf items b) rest lb = PassRes.done lbf ∧ lbf.ovf = lb.ovf) ∨
      (∃ x, passLoop P items lineW (some ti) b (prevOf items b) rest lb = PassRes.restart (some x) lb.ovf ∧ x ≤ t) := by
  intro rest
  induction rest with
  | nil =>
    intro b lb prev fit acc seq d hdrop hb hI hge hpw hns hprev hend hlast hcost ⟨n, hn, hat, hdom⟩
    have hbn : b = items.length := by
      have := List.drop_eq_nil_iff.mp hdrop; omega
    cases seq with
    | nil => exact Or.inl ⟨lb, by simp [passLoop], rfl⟩
    | cons x seq' =>
      exfalso
      have hx := hge x List.mem_cons_self
      have : items[x]? = none := List.getElem?_eq_none_iff.mpr (by omega)
      simp only [seqCost, this] at hcost
      cases hcost
  | cons it rest ih =>
    intro b lb prev fit acc seq d hdrop hb hI hge hpw hns hprev hend hlast hcost ⟨n, hn, hat, hdom⟩
    have hit : items[b]? = some it := drop_getElem? hdrop
    have hblt : b < items.length := drop_lt_length hdrop
    simp only [passLoop]
    obtain ⟨hIc, _⟩ := clear_inv P items lineW (some ti) b lb hI
    have hcl : (clearStale P (prevOf items b) lb).act = lb.act ∧ (clearStale P (prevOf items b) lb).ovf = lb.ovf := by
      unfold clearStale
      split
      · split <;> exact ⟨rfl, rfl⟩
      · exact ⟨rfl, rfl⟩
    have hn0 : n ∈ (clearStale P (prevOf items b) lb).act := by rw [hcl.1]; exact hn
    obtain ⟨lb0, hlb0⟩ : ∃ x, clearStale P (prevOf items b) lb = x := ⟨_, rfl⟩
    rw [hlb0] at hIc hcl hn0 ⊢
    cases h1 : itemStep P items lineW (some ti) b (prevOf items b) it rest lb0 with
    | none =>
      exfalso
      obtain ⟨hg, hr⟩ := itemStep_none P items lineW (some ti) b _ it rest lb0 h1
      have := hwf.np b it hit hg
      have h2 := drop_succ_of_drop hdrop
      rw [hr] at h2
      have := List.drop_eq_nil_iff.mp h2
      omega
    | some lb1 =>
      simp only
      obtain ⟨lbm, hm, hs1, ha1, hi1, ht1, ho1⟩ := itemStep_cases P items lineW (some ti) b it rest lb0 lb1 hdrop h1
      -- the state of the sequence after this item, and a dominating node in lb1.act
      have key : Bnd t lb1.nextTol ∨ ∃ prev' fit' acc' seq', (∀ x, x ∈ seq' → b + 1 ≤ x) ∧ seq'.Pairwise (· < ·) ∧
          NoSkip P items prev' seq' ∧ (∀ a, prev' = some a → a < b + 1 ∧ legalAt P items a = true) ∧
          (seq' = [] → b + 1 = items.length) ∧ (∀ x, seq'.getLast? = some x → x + 1 = items.length) ∧
          seqCost P items lineW (some t) prev' fit' acc' seq' = some d ∧
          ∃ n', n' ∈ lb1.act ∧ AtPrev P items n' prev' ∧ Dom P n' fit' acc' := by
        cases seq with
        | nil => exact absurd (hend rfl) (by omega)
        | cons x seq' =>
          have hbx := hge x List.mem_cons_self
          rcases Nat.eq_or_lt_of_le hbx with hxb | hxb
          · -- the sequence breaks here
            subst hxb
            simp only [seqCost, hit] at hcost
            split at hcost
            · rename_i hleg
              split at hcost
              · cases hcost
              · rename_i r hr
                split at hcost
                · rename_i hf
                  have hlbm : lbm = mainLoop P items lineW (some ti) b it rest lb0 := by
                    rcases hm with ⟨h0, _⟩ | ⟨_, h⟩
                    · rw [hleg] at h0; cases h0
                    · exact h
                  by_cases hfi : feasAt (some ti) r = true
                  swap
                  · -- the line is feasible at t but not at ti: its ratio bounds the next tolerance
                    left
                    have hfr := (feasAt_some t r).mp hf
                    have hlt : ti < r := by
                      by_contra hc
                      exact hfi ((feasAt_some ti r).mpr ⟨hfr.1, not_lt.mp hc⟩)
                    have hr' := ratio_of_atPrev P items lineW (some ti) b it lb0 n prev hIc.sums hat
                    rw [hr] at hr'
                    obtain ⟨x', hx', hle'⟩ := mainGo_tol_hit (mlCx P items lineW (some ti) b it lb0) (mlWidth it lb0)
                      (mlS P it rest lb0) n r hr' (by
                        cases hq : feasibleR (mlCx P items lineW (some ti) b it lb0) r with
                        | false => rfl
                        | true => exact absurd hq hfi)
                      (by simp [ltTol, mlCx, hlt]) lb0.act emptyGrp ⟨[], lb0.inact, lb0.nextTol⟩ hn0
                    refine ⟨x', ?_, le_trans hle' hfr.2⟩
                    rw [ht1, hlbm]; exact hx'
                  right
                  obtain ⟨n', hn', hat', hdom'⟩ := dom_step P items lineW (some ti) b it rest lb0 n prev fit acc r hwf.df
                    hdrop hIc.sums hn0 hat hdom hr hfi
                  have hp := List.pairwise_cons.mp hpw
                  refine ⟨some b, fitClass r, _, seq', ?_, hp.2, hns.2, ?_, ?_, ?_, hcost, n', ?_, hat', hdom'⟩
                  · intro y hy; exact hp.1 y hy
                  · intro a ha; cases ha; exact ⟨Nat.lt_succ_self _, hleg⟩
                  · intro he
                    subst he
                    exact hlast b rfl
                  · intro y hy
                    apply hlast y
                    cases seq' with
                    | nil => cases hy
                    | cons z zs => simpa [List.getLast?_cons_cons] using hy
                  · rw [ha1, hlbm]; exact hn'
                · cases hcost
            · cases hcost
          · -- no break of the sequence here: the dominating node must survive
            right
            have hnext : ∀ y, y ∈ x :: seq' → b + 1 ≤ y := by
              intro y hy
              rcases List.mem_cons.mp hy with rfl | hy
              · exact hxb
              · have := (List.pairwise_cons.mp hpw).1 y hy; omega
            have hsurv : n ∈ lb1.act := by
              rw [ha1]
              rcases hm with ⟨_, h⟩ | ⟨hleg, h⟩
              · rw [h]; exact hn0
              · rw [h]
                -- not forced: no forced break is skipped
                have hnf : isForced P it = false := by
                  have := hns.1 b (fun a ha => (hprev a ha).1) hxb
                  rwa [forcedAt_eq hit] at this
                -- the line to x is feasible, hence the line to b is not too long
                have hcx := hcost
                simp only [seqCost] at hcx
                cases hix : items[x]? with
                | none => rw [hix] at hcx; cases hcx
                | some itx =>
                  rw [hix] at hcx
                  simp only at hcx
                  split at hcx
                  · rename_i hlegx
                    split at hcx
                    · cases hcx
                    · rename_i r hr
                      split at hcx
                      · rename_i hf
                        have hpb : ∀ a, prev = some a → a < b ∧ legalAt P items a = true := hprev
                        have hpx : ∀ a, prev = some a → a < x ∧ legalAt P items a = true :=
                          fun a ha => ⟨Nat.lt_trans (hprev a ha).1 hxb, (hprev a ha).2⟩
                        obtain ⟨hyb, hzb⟩ := afterSums_le P items lineW hwf prev b hpb hleg
                        obtain ⟨hyx, hzx⟩ := afterSums_le P items lineW hwf prev x hpx hlegx
                        apply keep_step P items lineW (some ti) b it rest lb0 n prev hwf.inf hwf.lw hwf.epsNonneg hIc.sums hn0 hat hnf hyb hzb
                          (hwf.snap prev b it hit (fun a ha => legalAt_lt (hprev a ha).2))
                        intro h1
                        obtain ⟨_, _, _, hmono⟩ := pre_mono items hwf.itemsOK b (x - b)
                        have e : b + (x - b) = x := by omega
                        rw [e] at hmono
                        have h2 : lineW < ((pre items x).1 - (afterSums P items prev).1) -
                            ((pre items x).2.2 - (afterSums P items prev).2.2) := by linarith
                        have h3 := tooLong_of P lineW itx _ (pre items x).2.1 _ _ (afterSums P items prev).2.1 _
                          (hwf.itemsOK itx (List.mem_of_getElem? hix)).1 hzx hwf.inf h2
                        rw [hwf.snap prev x itx hix (fun a ha => legalAt_lt (hprev a ha).2)] at hr
                        rw [hr] at h3
                        rcases h3 with h3 | ⟨r', h3, hr'⟩
                        · cases h3
                        · cases h3
                          unfold feasAt at hf
                          simp only [Bool.and_eq_true, decide_eq_true_eq] at hf
                          exact absurd hr' (not_lt.mpr hf.1)
                      · cases hcx
                  · cases hcx
            exact ⟨prev, fit, acc, x :: seq', hnext, hpw, hns,
              fun a ha => ⟨Nat.lt_succ_of_lt (hprev a ha).1, (hprev a ha).2⟩,
              (fun he => by cases he), hlast, hcost, n, hsurv, hat, hdom⟩
      have h1' : itemStep P items lineW (some ti) b (prevOf items b) it rest (clearStale P (prevOf items b) lb) = some lb1 := by
        rw [hlb0]; exact h1
      have hov1 : lb1.ovf = lb.ovf := by
        rw [ho1, ← hcl.2]
        rcases hm with ⟨_, h⟩ | ⟨_, h⟩
        · rw [h]
        · rw [h]; rfl
      rcases key with hbnd | ⟨prev', fit', acc', seq', k1, k2, k3, k4, k5, k6, k7, n', hn', hat', hdom'⟩
      · exact after_hit P items lineW hwf ti t b it rest lb lb1 hdrop hI h1' hov1 hbnd
      have h2 : drastic P (some ti) b it rest lb1 = some lb1 := drastic_id P (some ti) b it rest lb1 n' hn'
      rw [h2]
      simp only
      have hI2 := step_inv (fun a => beq_self_eq_true a) P items lineW (some ti) b it rest lb lb1 lb1 hdrop hI h1' h2
      obtain ⟨_, g2, _, _, g5⟩ := addGlue_spec it lb1
      have hprevb : prevOf items (b + 1) = some it := hit
      rw [← hprevb]
      rcases ih (b + 1) (addGlue it lb1) prev' fit' acc' seq' d (drop_succ_of_drop hdrop) hblt hI2
        k1 k2 k3 k4 k5 k6 k7 ⟨n', by rw [g2]; exact hn', hat', hdom'⟩ with ⟨lbf, hp, hov⟩ | ⟨x, hp, hx⟩
      · exact Or.inl ⟨lbf, hp, by rw [hov, g5, hov1]⟩
      · exact Or.inr ⟨x, by rw [hp, g5, hov1], hx⟩

theorem finish_fit (P : Params K) (n : Nat) (loose : Int) (lb : LB K) (breaks : List (ND K)) (fit : Bool)
    (h : finish P n loose lb = Outcome.ok breaks fit) : fit = !lb.ovf := by
  unfold finish at h
  split at h
  · injection h with _ h2; exact h2.symm
  · injection h with _ h2; exact h2.symm

theorem root_dom (P : Params K) (items : List (Item K)) (hfl : flaggedAt items 0 = false) (ovf : Bool) :
    ∃ n, n ∈ (initLB ovf : LB K).act ∧ AtPrev P items n none ∧ Dom P n 1 0 :=
  ⟨root, by simp [initLB], ⟨rfl, hfl⟩, Or.inl ⟨rfl, by show (k 0 : K) ≤ 0; rw [k0]⟩⟩

/-- the relaxation loop on a paragraph that has a legal breaking feasible at tolerance `t`: started at any
`ti ≤ t` it ends with a completed pass at a tolerance `tf ≤ t`, without overflow -/
theorem relax_run (P : Params K) (items : List (Item K)) (lineW : K) (hwf : WF P items lineW) (loose : Int)
    (m : Nat) (hlen : items.length = m + 1) (seq : List Nat) (t d : K) (hpw : seq.Pairwise (· < ·))
    (hns : NoSkip P items none seq) (hlast : seq.getLast? = some m)
    (hcost : seqCost P items lineW (some t) none 1 0 seq = some d) (breaks : List (ND K)) (fit : Bool) :
    ∀ (fuel : Nat) (ti : K), ti ≤ t →
      linebreakFuel P items lineW loose fuel (some ti) false = Outcome.ok breaks fit →
      ∃ tf lbf, tf ≤ t ∧ passLoop P items lineW (some tf) 0 none items (initLB false) = PassRes.done lbf ∧
        lbf.ovf = false ∧ finish P items.length loose lbf = Outcome.ok breaks fit := by
  intro fuel
  induction fuel with
  | zero => intro ti _ h; simp [linebreakFuel] at h
  | succ f ih =>
    intro ti hti h
    simp only [linebreakFuel] at h
    rcases passLoop_relax P items lineW hwf ti t items 0 (initLB false) none 1 0 seq d rfl (Nat.zero_le _)
      (inv_init P items lineW _ false) (fun x _ => Nat.zero_le _) hpw hns (fun a ha => by cases ha)
      (fun he => by rw [he] at hlast; cases hlast) (fun x hx => by rw [hlast] at hx; cases hx; omega) hcost
      (root_dom P items hwf.fl false) with ⟨lbf, hp, hov⟩ | ⟨x, hp, hx⟩
    · have hp' : passLoop P items lineW (some ti) 0 none items (initLB false) = PassRes.done lbf := hp
      rw [hp'] at h
      exact ⟨ti, lbf, hti, hp', hov, h⟩
    · have hp' : passLoop P items lineW (some ti) 0 none items (initLB false) = PassRes.restart (some x) false := hp
      rw [hp'] at h
      exact ih x hx h

/-- a paragraph that has a legal breaking whose lines can all be shrunk to fit never ends in overflow -/
theorem no_overflow_run (P : Params K) (items : List (Item K)) (lineW : K) (hwf : WF P items lineW) (loose : Int)
    (m : Nat) (hlen : items.length = m + 1) (seq : List Nat) (d : K) (hpw : seq.Pairwise (· < ·))
    (hns : NoSkip P items none seq) (hlast : seq.getLast? = some m)
    (hcost : seqCost P items lineW none none 1 0 seq = some d) (breaks : List (ND K)) (fit : Bool) :
    ∀ (fuel : Nat) (tol : Option K),
      linebreakFuel P items lineW loose fuel tol false = Outcome.ok breaks fit → fit = true := by
  intro fuel
  induction fuel with
  | zero => intro tol h; simp [linebreakFuel] at h
  | succ f ih =>
    intro tol h
    simp only [linebreakFuel] at h
    cases tol with
    | none =>
      obtain ⟨lbf, hp, hov, _⟩ := passLoop_opt P items lineW hwf none items 0 (initLB false) none 1 0 seq d rfl
        (Nat.zero_le _) (inv_init P items lineW _ false) (fun x _ => Nat.zero_le _) hpw hns (fun a ha => by cases ha)
        (fun he => by rw [he] at hlast; cases hlast) (fun x hx => by rw [hlast] at hx; cases hx; omega) hcost
        (root_dom P items hwf.fl false)
      have hp' : passLoop P items lineW none 0 none items (initLB false) = PassRes.done lbf := hp
      rw [hp'] at h
      rw [finish_fit P _ loose lbf breaks fit h, hov]; rfl
    | some ti =>
      rcases passLoop_finite P items lineW hwf ti ti items 0 (initLB false) rfl (inv_init P items lineW _ false) with
        ⟨lbf, hp, hov⟩ | ⟨nt, hp, _⟩
      · have hp' : passLoop P items lineW (some ti) 0 none items (initLB false) = PassRes.done lbf := hp
        rw [hp'] at h
        rw [finish_fit P _ loose lbf breaks fit h, hov]; rfl
      · have hp' : passLoop P items lineW (some ti) 0 none items (initLB false) = PassRes.restart nt false := hp
        rw [hp'] at h
        exact ih nt h

end field
end Canvas.C17
