import CanvasModel.C06Proto
import CanvasProofs.Lemmas.Wn
set_option linter.unusedSimpArgs false
set_option linter.unusedVariables false

/-! # C06 — CCW: the search loop finds the bottom-right-most vertex; at such a vertex the angle
comparison is the sign of a cross product; for triangles that is the sign of the area -/
namespace Canvas.C06
open Canvas.Wn

/-- value version of the search loop -/
def extremeV : List IPt → IPt → IPt
  | [], bv => bv
  | v :: rest, bv => if better bv v then extremeV rest v else extremeV rest bv

theorem better_iff (b v : IPt) : better b v = true ↔ (b.x < v.x ∨ (b.x = v.x ∧ v.y < b.y)) := by
  simp [better]

theorem better_false_iff (b v : IPt) :
    better b v = false ↔ ¬ (b.x < v.x ∨ (b.x = v.x ∧ v.y < b.y)) := by
  rw [← better_iff]; simp

theorem better_irrefl (v : IPt) : better v v = false := by
  rw [better_false_iff]; omega

/-- `better` is a strict weak order: replacing the best keeps it at least as good as everything seen -/
theorem better_neg_trans (u v w : IPt) (h1 : better u v = false) (h2 : better u w = true) :
    better w v = false := by
  rw [better_false_iff] at h1 ⊢
  rw [better_iff] at h2
  omega

theorem extremeV_spec (rest : List IPt) : ∀ bv,
    (better bv (extremeV rest bv) = true ∨ extremeV rest bv = bv) ∧
    (∀ v ∈ rest, better (extremeV rest bv) v = false) ∧
    (extremeV rest bv = bv ∨ extremeV rest bv ∈ rest) := by
  induction rest with
  | nil => intro bv; simp [extremeV]
  | cons v rest ih =>
    intro bv
    simp only [extremeV]
    by_cases hb : better bv v = true
    · simp only [hb, if_true]
      obtain ⟨h1, h2, h3⟩ := ih v
      refine ⟨?_, ?_, ?_⟩
      · left
        rcases h1 with h1 | h1
        · -- bv < v < result
          rw [better_iff] at h1 hb ⊢
          omega
        · rw [h1]; exact hb
      · intro u hu
        rcases List.mem_cons.mp hu with hu | hu
        · subst hu
          rcases h1 with h1 | h1
          · rw [better_iff] at h1
            rw [better_false_iff]
            omega
          · rw [h1]; exact better_irrefl _
        · exact h2 u hu
      · right
        rcases h3 with h3 | h3
        · rw [h3]; simp
        · exact List.mem_cons_of_mem _ h3
    · have hb' : better bv v = false := by simpa using hb
      simp only [hb', Bool.false_eq_true, if_false]
      obtain ⟨h1, h2, h3⟩ := ih bv
      refine ⟨h1, ?_, ?_⟩
      · intro u hu
        rcases List.mem_cons.mp hu with hu | hu
        · subst hu
          rcases h1 with h1 | h1
          · exact better_neg_trans bv _ _ hb' h1
          · rw [h1]; exact hb'
        · exact h2 u hu
      · rcases h3 with h3 | h3
        · left; exact h3
        · right; exact List.mem_cons_of_mem _ h3

/-- the index loop returns the index of the value loop's result -/
theorem extremeGo_getD (pre rest : List IPt) (k : Nat) (bv : IPt) (d : IPt)
    (hk : (pre ++ rest).getD k d = bv) (hklt : k < pre.length) :
    (pre ++ rest).getD (extremeGo rest pre.length k bv) d = extremeV rest bv ∧
      extremeGo rest pre.length k bv < (pre ++ rest).length := by
  induction rest generalizing pre k bv with
  | nil =>
    simp only [extremeGo, extremeV, List.append_nil] at hk ⊢
    exact ⟨hk, hklt⟩
  | cons v rest ih =>
    simp only [extremeGo, extremeV]
    have e : pre ++ v :: rest = (pre ++ [v]) ++ rest := by simp
    have hl : (pre ++ [v]).length = pre.length + 1 := by simp
    split
    · have := ih (pre ++ [v]) pre.length v (by rw [← e]; simp) (by simp)
      rw [hl, ← e] at this
      exact this
    · have := ih (pre ++ [v]) k bv (by rw [← e]; exact hk) (by rw [hl]; omega)
      rw [hl, ← e] at this
      exact this

/-- The search loop of `CCW` ends on a vertex of the subpath that no other vertex beats: none lies
further right, and none equally far right lies lower. -/
theorem extreme_is_bottom_right_most (v0 : IPt) (rest : List IPt) (d : IPt) :
    extreme (v0 :: rest) < (v0 :: rest).length ∧
    ∀ v ∈ v0 :: rest, better ((v0 :: rest).getD (extreme (v0 :: rest)) d) v = false := by
  have h := extremeGo_getD [v0] rest 0 v0 d (by simp) (by simp)
  simp only [List.length_singleton, List.singleton_append] at h
  have hs := extremeV_spec rest v0
  simp only [extreme]
  refine ⟨h.2, ?_⟩
  rw [h.1]
  intro v hv
  rcases List.mem_cons.mp hv with hv | hv
  · subst hv
    rcases hs.1 with h1 | h1
    · rw [better_iff] at h1
      rw [better_false_iff]
      omega
    · rw [h1]; exact better_irrefl _
  · exact hs.2.1 v hv

/-- a direction from the bottom-right-most vertex to another vertex: into the left half plane, or
straight up -/
def leftward (d : IPt) : Prop := d.x < 0 ∨ (d.x = 0 ∧ 0 < d.y)

theorem leftward_of_not_better (v u : IPt) (h : better v u = false) (hne : u ≠ v) :
    leftward (vsub u v) := by
  obtain ⟨vx, vy⟩ := v
  obtain ⟨ux, uy⟩ := u
  have hne' : ¬ (ux = vx ∧ uy = vy) := by intro h; apply hne; simp [h.1, h.2]
  rw [better_false_iff] at h
  simp only [leftward, vsub] at h ⊢
  omega

/-- For two leftward directions the comparison of their angles in [0,2π) is the sign of the cross
product (what `angleNext - anglePrev < 0` computes at the bottom-right-most vertex). -/
theorem angLt_leftward (d2 d1 : IPt) (h2 : leftward d2) (h1 : leftward d1) :
    angLt d2 d1 = decide (0 < cross d2 d1) := by
  obtain ⟨x2, y2⟩ := d2
  obtain ⟨x1, y1⟩ := d1
  simp only [leftward] at h1 h2
  have n2 : ¬ (x2 = 0 ∧ y2 = 0) := by omega
  have n1 : ¬ (x1 = 0 ∧ y1 = 0) := by omega
  have u2 : upper ⟨x2, y2⟩ = decide (0 < y2) := by
    simp only [upper]
    by_cases hy : 0 < y2
    · simp [hy]
    · have : ¬ (y2 = 0 ∧ 0 ≤ x2) := by omega
      simp [hy]; omega
  have u1 : upper ⟨x1, y1⟩ = decide (0 < y1) := by
    simp only [upper]
    by_cases hy : 0 < y1
    · simp [hy]
    · have : ¬ (y1 = 0 ∧ 0 ≤ x1) := by omega
      simp [hy]; omega
  simp only [angLt, IPt.mk.injEq, n2, n1, if_false, u2, u1, cross]
  by_cases hy2 : 0 < y2 <;> by_cases hy1 : 0 < y1
  · simp [hy2, hy1]
  · -- d2 above, d1 below: d2 comes first and the cross product is positive
    have hx1 : x1 < 0 := by omega
    have a : 0 ≤ x2 * y1 := mul_nonneg_of_nonpos_of_nonpos (by omega) (by omega)
    have b : y2 * x1 < 0 := mul_neg_of_pos_of_neg hy2 hx1
    simp [hy2, hy1]; omega
  · have hx2 : x2 < 0 := by omega
    have a : x2 * y1 < 0 := mul_neg_of_neg_of_pos hx2 hy1
    have b : 0 ≤ y2 * x1 := mul_nonneg_of_nonpos_of_nonpos (by omega) (by omega)
    simp [hy2, hy1]; omega
  · simp [hy2, hy1]

theorem cross_vsub_area (a b c : IPt) :
    cross (vsub b a) (vsub c a) = area2 [a, b, c] := by
  simp only [cross, vsub, area2, area2Chain, List.cons_append, List.nil_append]
  ring

theorem sameDir_false_of_cross (d2 d1 : IPt) (h2 : leftward d2) (h1 : leftward d1)
    (hc : cross d2 d1 ≠ 0) : sameDir d2 d1 = false := by
  obtain ⟨x2, y2⟩ := d2
  obtain ⟨x1, y1⟩ := d1
  simp only [leftward] at h1 h2
  have n2 : ¬ (x2 = 0 ∧ y2 = 0) := by omega
  have n1 : ¬ (x1 = 0 ∧ y1 = 0) := by omega
  simp only [sameDir, IPt.mk.injEq, n2, n1, if_false]
  simp [hc]

/-- CCW of a closed triangle is the sign of its area (all three vertices, any start vertex). -/
theorem ccw_triangle_area (a b c : IPt) (hA : area2 [a, b, c] ≠ 0) :
    ccwFlat true [a, b, c] = some (decide (0 < area2 [a, b, c])) := by
  have hex := extreme_is_bottom_right_most a [b, c] ⟨0, 0⟩
  have hab : a ≠ b := by
    intro h; subst h; apply hA; simp only [area2, area2Chain, List.cons_append, List.nil_append]; ring
  have hbc : b ≠ c := by
    intro h; subst h; apply hA; simp only [area2, area2Chain, List.cons_append, List.nil_append]; ring
  have hca : c ≠ a := by
    intro h; subst h; apply hA; simp only [area2, area2Chain, List.cons_append, List.nil_append]; ring
  obtain ⟨hlt, hbest⟩ := hex
  simp only [List.length_cons, List.length_nil] at hlt
  have hk : extreme [a, b, c] = 0 ∨ extreme [a, b, c] = 1 ∨ extreme [a, b, c] = 2 := by omega
  have e1 : cross (vsub c b) (vsub a b) = area2 [a, b, c] := by
    simp only [cross, vsub, area2, area2Chain, List.cons_append, List.nil_append]; ring
  have e2 : cross (vsub a c) (vsub b c) = area2 [a, b, c] := by
    simp only [cross, vsub, area2, area2Chain, List.cons_append, List.nil_append]; ring
  have e0 : cross (vsub b a) (vsub c a) = area2 [a, b, c] := cross_vsub_area a b c
  simp only [ccwFlat, List.length_cons, List.length_nil, if_true]
  have hlen : ¬ (0 + 1 + 1 + 1 - 1 + 1 ≤ 1) := by omega
  simp only [hlen, if_false]
  rcases hk with hk | hk | hk
  · rw [hk] at hbest
    simp only [List.getD_cons_zero] at hbest
    have l1 := leftward_of_not_better a b (hbest b (by simp)) (Ne.symm hab)
    have l2 := leftward_of_not_better a c (hbest c (by simp)) hca
    have hc : corner true [a, b, c] = ⟨0, vsub c a, vsub b a⟩ := by
      simp [corner, hk, hca]
    rw [hc]
    simp only
    rw [sameDir_false_of_cross _ _ l1 l2 (by rw [e0]; exact hA)]
    simp only [Bool.false_eq_true, if_false]
    rw [angLt_leftward _ _ l1 l2, e0]
  · rw [hk] at hbest
    simp only [List.getD_cons_succ, List.getD_cons_zero] at hbest
    have l1 := leftward_of_not_better b c (hbest c (by simp)) (Ne.symm hbc)
    have l2 := leftward_of_not_better b a (hbest a (by simp)) hab
    have hc : corner true [a, b, c] = ⟨1, vsub a b, vsub c b⟩ := by
      simp [corner, hk, hca]
    rw [hc]
    simp only
    rw [sameDir_false_of_cross _ _ l1 l2 (by rw [e1]; exact hA)]
    simp only [Bool.false_eq_true, if_false]
    rw [angLt_leftward _ _ l1 l2, e1]
  · rw [hk] at hbest
    simp only [List.getD_cons_succ, List.getD_cons_zero] at hbest
    have l1 := leftward_of_not_better c a (hbest a (by simp)) (Ne.symm hca)
    have l2 := leftward_of_not_better c b (hbest b (by simp)) hbc
    have hc : corner true [a, b, c] = ⟨2, vsub b c, vsub a c⟩ := by
      simp [corner, hk, hca]
    rw [hc]
    simp only
    rw [sameDir_false_of_cross _ _ l1 l2 (by rw [e2]; exact hA)]
    simp only [Bool.false_eq_true, if_false]
    rw [angLt_leftward _ _ l1 l2, e2]

end Canvas.C06
