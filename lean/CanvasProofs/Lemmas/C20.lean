import CanvasModel.C20
/-! # C20 lemmas: token hand-over in well-formed traces, lockset ⇒ happens-before -/
namespace Canvas.C20

theorem holderAt_succ_none (tr : Trace) (tok : Tok) (k : Nat) (h : tr[k]? = none) :
    holderAt tr tok (k+1) = holderAt tr tok k := by
  simp [holderAt, h]

theorem holderAt_succ_some (tr : Trace) (tok : Tok) (k : Nat) (t : Tid) (e : Ev) (h : tr[k]? = some (t, e)) :
    holderAt tr tok (k+1) =
      if e.acq = some tok then some t else if e.rel = some tok then none else holderAt tr tok k := by
  simp [holderAt, h]

theorem heldBy_succ_none (tr : Trace) (t : Tid) (tok : Tok) (k : Nat) (h : tr[k]? = none) :
    heldBy tr t tok (k+1) = heldBy tr t tok k := by
  simp [heldBy, h]

theorem heldBy_succ_some (tr : Trace) (t : Tid) (tok : Tok) (k : Nat) (t' : Tid) (e : Ev) (h : tr[k]? = some (t', e)) :
    heldBy tr t tok (k+1) =
      if t' = t then (if e.acq = some tok then true else if e.rel = some tok then false else heldBy tr t tok k)
      else heldBy tr t tok k := by
  simp [heldBy, h]

/-- the thread-local lockset is sound: what a thread has acquired (and not released) in its own
program order, it holds globally — in every well-formed interleaving -/
theorem heldBy_holder {tr : Trace} (wf : WF tr) (t : Tid) (tok : Tok) :
    ∀ k, heldBy tr t tok k = true → holderAt tr tok k = some t := by
  intro k
  induction k with
  | zero => intro h; simp [heldBy] at h
  | succ k ih =>
    intro h
    cases hk : tr[k]? with
    | none =>
      rw [heldBy_succ_none _ _ _ _ hk] at h
      rw [holderAt_succ_none _ _ _ hk]; exact ih h
    | some p =>
      obtain ⟨t', e⟩ := p
      rw [heldBy_succ_some _ _ _ _ _ _ hk] at h
      rw [holderAt_succ_some _ _ _ _ _ hk]
      have w := wf k t' e tok hk
      by_cases htt : t' = t
      · subst htt
        simp only [if_true] at h
        by_cases ha : e.acq = some tok
        · simp [ha]
        · by_cases hr : e.rel = some tok
          · simp [ha, hr] at h
          · simp only [ha, hr, if_false] at h ⊢; exact ih h
      · simp only [htt, if_false] at h
        have hh := ih h
        by_cases ha : e.acq = some tok
        · have := w.1 ha; rw [hh] at this; cases this
        · by_cases hr : e.rel = some tok
          · have := w.2 hr; rw [hh] at this; cases this; exact absurd rfl htt
          · simp only [ha, hr, if_false]; exact hh

/-- a token held by `t` at `i` and no longer held by `t` at `j ≥ i` was released by `t` in between -/
theorem released {tr : Trace} (wf : WF tr) (tok : Tok) (t : Tid) (i : Nat) :
    ∀ j, i ≤ j → holderAt tr tok i = some t → holderAt tr tok j ≠ some t →
      ∃ c e, i ≤ c ∧ c < j ∧ tr[c]? = some (t, e) ∧ e.rel = some tok := by
  intro j
  induction j with
  | zero =>
    intro hij hi hj
    have : i = 0 := by omega
    subst this; exact absurd hi hj
  | succ j ih =>
    intro hij hi hj
    by_cases heq : i = j+1
    · subst heq; exact absurd hi hj
    · have hij' : i ≤ j := by omega
      by_cases hjt : holderAt tr tok j = some t
      · cases hk : tr[j]? with
        | none => rw [holderAt_succ_none _ _ _ hk] at hj; exact absurd hjt hj
        | some p =>
          obtain ⟨t', e⟩ := p
          rw [holderAt_succ_some _ _ _ _ _ hk] at hj
          have w := wf j t' e tok hk
          by_cases ha : e.acq = some tok
          · have := w.1 ha; rw [hjt] at this; cases this
          · by_cases hr : e.rel = some tok
            · have := w.2 hr; rw [hjt] at this; cases this
              exact ⟨j, e, hij', by omega, hk, hr⟩
            · simp only [ha, hr, if_false] at hj; exact absurd hjt hj
      · obtain ⟨c, e, h1, h2, h3, h4⟩ := ih hij' hi hjt
        exact ⟨c, e, h1, by omega, h3, h4⟩

/-- hand-over: if `t` holds the token at `i` and another thread `u` holds it at `j ≥ i`, then in
between `t` released it and later `u` acquired it -/
theorem handover {tr : Trace} (wf : WF tr) (tok : Tok) (t u : Tid) (htu : t ≠ u) (i : Nat) :
    ∀ j, i ≤ j → holderAt tr tok i = some t → holderAt tr tok j = some u →
      ∃ c b e e', i ≤ c ∧ c < b ∧ b < j ∧ tr[c]? = some (t, e) ∧ e.rel = some tok ∧
        tr[b]? = some (u, e') ∧ e'.acq = some tok := by
  intro j
  induction j with
  | zero =>
    intro hij hi hj
    simp [holderAt] at hj
  | succ j ih =>
    intro hij hi hj
    by_cases heq : i = j+1
    · subst heq; rw [hi] at hj; cases hj; exact absurd rfl htu
    · have hij' : i ≤ j := by omega
      cases hk : tr[j]? with
      | none =>
        rw [holderAt_succ_none _ _ _ hk] at hj
        obtain ⟨c, b, e, e', h1, h2, h3, h4⟩ := ih hij' hi hj
        exact ⟨c, b, e, e', h1, h2, by omega, h4⟩
      | some p =>
        obtain ⟨t', e'⟩ := p
        rw [holderAt_succ_some _ _ _ _ _ hk] at hj
        have w := wf j t' e' tok hk
        by_cases ha : e'.acq = some tok
        · simp only [ha, if_true] at hj
          cases hj
          have hfree := w.1 ha
          have hne : holderAt tr tok j ≠ some t := by rw [hfree]; intro h; cases h
          obtain ⟨c, e, h1, h2, h3, h4⟩ := released wf tok t i j hij' hi hne
          exact ⟨c, j, e, e', h1, h2, by omega, h3, h4, hk, ha⟩
        · by_cases hr : e'.rel = some tok
          · simp [ha, hr] at hj
          · simp only [ha, hr, if_false] at hj
            obtain ⟨c, b, e, e'', h1, h2, h3, h4⟩ := ih hij' hi hj
            exact ⟨c, b, e, e'', h1, h2, by omega, h4⟩

/-- two accesses under a common token by different threads are ordered by happens-before -/
theorem hb_of_common_token {tr : Trace} (wf : WF tr) (tok : Tok) {i j : Nat} {t u : Tid} {ei ej : Ev}
    (hij : i < j) (htu : t ≠ u) (hi : tr[i]? = some (t, ei)) (hj : tr[j]? = some (u, ej))
    (hri : ei.rel = none)
    (hti : heldBy tr t tok i = true) (htj : heldBy tr u tok j = true) : HB tr i j := by
  have h1 := heldBy_holder wf t tok i hti
  have h2 := heldBy_holder wf u tok j htj
  obtain ⟨c, b, e, e', hc, hcb, hbj, hce, hrel, hbe, hacq⟩ := handover wf tok t u htu i j (by omega) h1 h2
  have hic : i < c := by
    rcases Nat.lt_or_ge i c with h | h
    · exact h
    · have : c = i := by omega
      subst this; rw [hi] at hce; cases hce; rw [hri] at hrel; cases hrel
  exact HB.trans (HB.po hic hi hce) (HB.trans (HB.sync hcb hce hbe hrel hacq) (HB.po hbj hbe hj))

/-- the lockset theorem at one location -/
theorem no_race_at (body : String → List String) (prot : Prot) {tr : Trace} (wf : WF tr) (x : String)
    (ob : ObeysAt body prot tr x) : ∀ i j, ¬ Race body tr i j x := by
  intro i j ⟨hij, htid, hai, haj, hw, hnat, hnhb⟩
  cases prot with
  | atomicOnly =>
    -- every access is atomic, and two atomic accesses are no data race by definition
    have atom : ∀ k, (writesAt body tr k x ∨ readsAt tr k x ∨ atomicAt tr k x) → atomicAt tr k x := by
      intro k hk
      rcases hk with (⟨t, h⟩ | ⟨t, o, _, _, hb⟩) | ⟨t, h⟩ | h
      · exact absurd rfl (ob.wrAtomic _ _ h)
      · have := ob.inBody o hb; cases this
      · exact absurd rfl (ob.rdAtomic _ _ h)
      · exact h
    exact hnat ⟨atom i hai, atom j haj⟩
  | readOnly =>
    -- no write and no atomic operation is possible
    exfalso
    have noat : ∀ k, ¬ atomicAt tr k x := by
      intro k ⟨t, h⟩; have := ob.atOnly _ _ h; cases this
    have nowr : ∀ k, ¬ writesAt body tr k x := by
      intro k hk
      rcases hk with ⟨t, h⟩ | ⟨t, o, _, _, hb⟩
      · exact ob.wrRO _ _ h rfl
      · have := ob.inBody o hb; cases this
    rcases hw with h | h | h | h
    · exact nowr _ h
    · exact nowr _ h
    · exact noat _ h
    · exact noat _ h
  | guarded tok =>
    apply hnhb
    -- every access is a plain read/write event holding tok
    have plain : ∀ k, (writesAt body tr k x ∨ readsAt tr k x ∨ atomicAt tr k x) →
        ∃ t e, tr[k]? = some (t, e) ∧ e.rel = none ∧ heldBy tr t tok k = true := by
      intro k hk
      rcases hk with (⟨t, h⟩ | ⟨t, o, _, _, hb⟩) | ⟨t, h⟩ | ⟨t, h⟩
      · exact ⟨t, _, h, rfl, ob.wrLock _ _ _ h rfl⟩
      · have := ob.inBody o hb; cases this
      · exact ⟨t, _, h, rfl, ob.rdLock _ _ _ h rfl⟩
      · have := ob.atOnly _ _ h; cases this
    obtain ⟨t, ei, hi, hri, hti⟩ := plain i hai
    obtain ⟨u, ej, hj, _, htj⟩ := plain j haj
    have htu : t ≠ u := by
      intro h; subst h; apply htid; simp [tidAt, hi, hj]
    exact hb_of_common_token wf tok hij htu hi hj hri hti htj
  | byOnce o =>
    apply hnhb
    have noat : ∀ k, ¬ atomicAt tr k x := by
      intro k ⟨t, h⟩; have := ob.atOnly _ _ h; cases this
    -- writes happen only in the first onceDo o; reads follow an own onceDo o
    have wr : ∀ k, writesAt body tr k x → ∃ t, tr[k]? = some (t, Ev.onceDo o) ∧ firstOnce tr k o := by
      intro k hk
      rcases hk with ⟨t, h⟩ | ⟨t, o', h, hf, hb⟩
      · exact absurd rfl (ob.wrOnce _ _ o h)
      · have := ob.inBody o' hb; cases this; exact ⟨t, h, hf⟩
    have acc : ∀ k, (writesAt body tr k x ∨ readsAt tr k x ∨ atomicAt tr k x) →
        ∃ t e k', tr[k]? = some (t, e) ∧ k' ≤ k ∧ tr[k']? = some (t, Ev.onceDo o) := by
      intro k hk
      rcases hk with hk | ⟨t, h⟩ | h
      · obtain ⟨t, h, _⟩ := wr k hk; exact ⟨t, _, k, h, Nat.le_refl _, h⟩
      · obtain ⟨k', hlt, hk'⟩ := ob.rdOnce _ _ o h rfl
        exact ⟨t, _, k', h, by omega, hk'⟩
      · exact absurd h (noat k)
    -- the write must be at i: a first onceDo at j cannot follow another onceDo o
    have hwi : writesAt body tr i x := by
      rcases hw with hw | hw | hw | hw
      · exact hw
      · exfalso
        obtain ⟨u, _, hf⟩ := wr j hw
        obtain ⟨t, e, k', _, hk'i, hk'⟩ := acc i hai
        exact hf k' t (by omega) hk'
      · exact absurd hw (noat i)
      · exact absurd hw (noat j)
    obtain ⟨t, hi, hfi⟩ := wr i hwi
    obtain ⟨u, ej, k', hj, hk'j, hk'⟩ := acc j haj
    have htu : t ≠ u := by
      intro h; subst h; apply htid; simp [tidAt, hi, hj]
    have hik' : i < k' := by
      rcases Nat.lt_trichotomy i k' with h | h | h
      · exact h
      · subst h; rw [hi] at hk'; cases hk'; exact absurd rfl htu
      · exact absurd hk' (hfi k' u h)
    have h1 : HB tr i k' := HB.once hik' hi hfi hk'
    rcases Nat.lt_or_ge k' j with h | h
    · exact HB.trans h1 (HB.po h hk' hj)
    · have : k' = j := by omega
      subst this; exact h1

/-! ## Pooled objects -/

/-- the value an initialising statement gives depends only on the fields it reads -/
def InitOp.Respects {α : Type} (op : InitOp α) : Prop :=
  ∀ g s s', (∀ d, d ∈ op.deps → s d = s' d) → op.val g s = op.val g s'

theorem runInit_agree {α : Type} (fields : List String) :
    ∀ (ops : List (InitOp α)) (a : List String) (s s' : String → α),
      (∀ op, op ∈ ops → op.Respects) → readsAssigned fields ops a →
      (∀ g, g ∈ a → s g = s' g) →
      ∀ g, g ∈ assignedAfter fields ops a → runInit ops s g = runInit ops s' g := by
  intro ops
  induction ops with
  | nil => intro a s s' _ _ hag g hga; exact hag g hga
  | cons op ops ih =>
    intro a s s' hres hra hag g hga
    simp only [runInit]
    simp only [assignedAfter] at hga
    obtain ⟨hdeps, hra'⟩ := hra
    refine ih _ (op.run s) (op.run s') (fun o ho => hres o (List.mem_cons_of_mem _ ho)) hra' ?_ g hga
    intro g' hga'
    have hval : op.val g' s = op.val g' s' :=
      hres op (List.mem_cons_self ..) g' s s' (fun d hd => hag d (hdeps d hd))
    simp only [InitOp.run]
    by_cases hall : op.all = true
    · simp [hall, hval]
    · simp only [hall] at hga' ⊢
      by_cases hf : g' = op.f
      · simp [hf] at hval ⊢; exact hval
      · have : g' ∈ a := by
          simp only [Bool.false_eq_true, if_false, List.mem_cons] at hga'
          rcases hga' with h | h
          · exact absurd h hf
          · exact h
        simp [hf, hag g' this]

end Canvas.C20
