import CanvasModel.C17.Verdict
/-! C17 — soundness of the executable structural verdict `structClass`. -/
set_option linter.unusedSectionVars false
namespace Canvas.C17

section
variable {α : Type} [Add α] [Sub α] [Mul α] [Div α] [Neg α] [LT α] [LE α] [BEq α]
  [DecidableLT α] [DecidableLE α] [NatCast α]

theorem increasing_pairwise : ∀ l : List Nat, increasing l = true → l.Pairwise (· < ·) := by
  intro l
  induction l with
  | nil => intro _; exact List.Pairwise.nil
  | cons x rest ih =>
    intro h
    cases rest with
    | nil => exact List.pairwise_singleton _ _
    | cons y r =>
      simp only [increasing, Bool.and_eq_true, decide_eq_true_eq] at h
      have hp := ih h.2
      refine List.Pairwise.cons ?_ hp
      intro z hz
      rcases List.mem_cons.mp hz with rfl | hz
      · exact h.1
      · exact Nat.lt_trans h.1 ((List.pairwise_cons.mp hp).1 z hz)

/-- verdict `ok` implies the structural predicate of the property -/
theorem structClass_sound (P : Params α) (items : List (Item α)) (pos : List Nat)
    (h : structClass P items pos = none) :
    pos ≠ [] ∧ pos.Pairwise (· < ·) ∧ (∀ p, p ∈ pos → legalAt P items p = true) ∧
      pos.getLast? = some (items.length - 1) ∧
      (∀ f, forcedAt P items f = true → legalAt P items f = true → f ∈ pos) := by
  unfold structClass at h
  split at h
  · cases h
  · rename_i h1
    split at h
    · cases h
    · rename_i h2
      split at h
      · cases h
      · rename_i h3
        split at h
        · cases h
        · rename_i h4
          split at h
          · cases h
          · rename_i h5
            refine ⟨?_, ?_, ?_, ?_, ?_⟩
            · intro e; rw [e] at h1; exact h1 rfl
            · apply increasing_pairwise
              cases hi : increasing pos with
              | true => rfl
              | false => rw [hi] at h2; exact absurd rfl h2
            · intro p hp
              have : pos.all (fun p => legalAt P items p) = true := by
                cases ha : pos.all (fun p => legalAt P items p) with
                | true => rfl
                | false => rw [ha] at h3; exact absurd rfl h3
              exact List.all_eq_true.mp this p hp
            · cases hg : (pos.getLast? != some (items.length - 1)) with
              | false => simpa using hg
              | true => rw [hg] at h4; exact absurd rfl h4
            · intro f hf hl
              have hall : (List.range items.length).all
                  (fun f => !(forcedAt P items f && legalAt P items f) || pos.contains f) = true := by
                cases ha : (List.range items.length).all
                    (fun f => !(forcedAt P items f && legalAt P items f) || pos.contains f) with
                | true => rfl
                | false => rw [ha] at h5; exact absurd rfl h5
              have hlt : f < items.length := by
                unfold legalAt at hl
                cases hb : items[f]? with
                | none => rw [hb] at hl; cases hl
                | some it => exact (List.getElem?_eq_some_iff.mp hb).1
              have := List.all_eq_true.mp hall f (List.mem_range.mpr hlt)
              rw [hf, hl] at this
              simpa using this

end
end Canvas.C17
