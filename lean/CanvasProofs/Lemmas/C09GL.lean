import CanvasGen.GaussLegendreC09
/-!
C09 helper definitions: accuracy predicates for the Gauss–Legendre tables extracted from util.go
(`GenC09.gl3/5/7`, regenerated on every check) and 16-digit reference tables.  Everything is exact
rational arithmetic evaluated by the kernel (`decide +kernel` over the complete finite table).
-/
namespace C09L

abbrev Tbl := List (Rat × Rat)

def absR (x : Rat) : Rat := if x < 0 then -x else x

/-- Σ wᵢ -/
def glSum (t : Tbl) : Rat := t.foldl (fun acc p => acc + p.2) 0

/-- Σ wᵢ xᵢᵏ -/
def glMoment (t : Tbl) (k : Nat) : Rat := t.foldl (fun acc p => acc + p.2 * p.1 ^ k) 0

/-- ∫₋₁¹ xᵏ dx -/
def exactMoment (k : Nat) : Rat := if k % 2 = 0 then (2 : Rat) / ((k + 1 : Nat) : Rat) else 0

/-- the table read backwards with negated nodes is the table -/
def glSymmetric (t : Tbl) : Bool := (t.map fun p => (-p.1, p.2)).reverse == t

/-- all moments up to degree 2n−1 within `tol` of the integrals -/
def momentsWithin (n : Nat) (t : Tbl) (tol : Rat) : Bool :=
  (List.range (2 * n)).all fun k => decide (absR (glMoment t k - exactMoment k) < tol)

/-- the accuracy statement of the property for an n-point table -/
def glAccurate (n : Nat) (t : Tbl) : Bool :=
  t.length == n && decide (absR (glSum t - 2) < 2 / 1000000) && glSymmetric t && momentsWithin n t (1 / 100000)

/-- entry-wise distance to a reference table: nodes within `dx`, weights within `dw` -/
def closeTo (t ref : Tbl) (dx dw : Rat) : Bool :=
  t.length == ref.length &&
    (t.zip ref).all fun pr => decide (absR (pr.1.1 - pr.2.1) < dx) && decide (absR (pr.1.2 - pr.2.2) < dw)


/-- reference Gauss–Legendre rules, 16 significant digits (Abramowitz & Stegun table 25.4) -/
def ref3 : Tbl :=
  [(-(7745966692414834 : Rat) / 10000000000000000, (5 : Rat) / 9), (0, (8 : Rat) / 9),
   ((7745966692414834 : Rat) / 10000000000000000, (5 : Rat) / 9)]

def ref5 : Tbl :=
  [(-(9061798459386640 : Rat) / 10000000000000000, (2369268850561891 : Rat) / 10000000000000000),
   (-(5384693101056831 : Rat) / 10000000000000000, (4786286704993665 : Rat) / 10000000000000000),
   (0, (128 : Rat) / 225),
   ((5384693101056831 : Rat) / 10000000000000000, (4786286704993665 : Rat) / 10000000000000000),
   ((9061798459386640 : Rat) / 10000000000000000, (2369268850561891 : Rat) / 10000000000000000)]

def ref7 : Tbl :=
  [(-(9491079123427585 : Rat) / 10000000000000000, (1294849661688697 : Rat) / 10000000000000000),
   (-(7415311855993945 : Rat) / 10000000000000000, (2797053914892766 : Rat) / 10000000000000000),
   (-(4058451513773972 : Rat) / 10000000000000000, (3818300505051189 : Rat) / 10000000000000000),
   (0, (512 : Rat) / 1225),
   ((4058451513773972 : Rat) / 10000000000000000, (3818300505051189 : Rat) / 10000000000000000),
   ((7415311855993945 : Rat) / 10000000000000000, (2797053914892766 : Rat) / 10000000000000000),
   ((9491079123427585 : Rat) / 10000000000000000, (1294849661688697 : Rat) / 10000000000000000)]

/-- the reference rules integrate all polynomials of degree ≤ 2n−1 to 14 digits: they are the
Gauss–Legendre rules (the 2n moment equations determine the n-point rule) -/
theorem ref_exact :
    (momentsWithin 3 ref3 (1 / 100000000000000) && glSymmetric ref3 &&
     momentsWithin 5 ref5 (1 / 100000000000000) && glSymmetric ref5 &&
     momentsWithin 7 ref7 (1 / 100000000000000) && glSymmetric ref7) = true := by
  decide +kernel

end C09L
