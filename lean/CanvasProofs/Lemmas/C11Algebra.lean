import CanvasGen.CoreK
import CanvasGen.BezierK
import Mathlib.Tactic.Ring
import Mathlib.Tactic.FieldSimp
import Mathlib.Tactic.Linarith
/-! Helper algebra for C11 over an arbitrary ordered field: degree elevation by the 2/3 rule (on the
definitions generated from /repo/path_util.go) and the rx/ry swap of ToSVG. -/
set_option linter.unusedSectionVars false
namespace C11L
open Canvas GenK
variable {K : Type} [Field K] [LinearOrder K] [IsStrictOrderedRing K] [Env K]

theorem three_ne_zero' : (3 : K) ≠ 0 := by
  have : (0 : K) < 3 := by linarith [zero_lt_one (α := K)]
  exact ne_of_gt this

/-- the cubic with the control points `quadraticToCubicBezier` returns is the quadratic, at every t -/
theorem quad_elevation_pt (p0 p1 p2 : Pt K) (t : K) :
    cubicBezierPos p0 (quadraticToCubicBezier p0 p1 p2).1 (quadraticToCubicBezier p0 p1 p2).2 p2 t
      = quadraticBezierPos p0 p1 p2 t := by
  have h3 := three_ne_zero' (K := K)
  simp only [cubicBezierPos, quadraticBezierPos, quadraticToCubicBezier, Point.Interpolate, Point.Mul, Point.Add]
  congr 1 <;> field_simp <;> ring

/-- point of the ellipse with radii `rx, ry` whose major axis has direction `(c, s)`, at the
parameter with cosine/sine `(u, v)`, relative to the centre -/
def ellipsePoint (rx ry c s u v : K) : K × K := (c * (rx * u) - s * (ry * v), s * (rx * u) + c * (ry * v))

/-- swapping the radii and turning the axis back by 90° (direction `(s, -c)`) gives the same point
at the parameter turned forward by 90° -/
theorem ellipse_swap_pt (rx ry c s u v : K) :
    ellipsePoint ry rx s (-c) (-v) u = ellipsePoint rx ry c s u v := by
  simp only [ellipsePoint]
  refine Prod.ext ?_ ?_ <;> simp only [] <;> ring

/-- the parameter turned by 90° is again a point of the unit circle -/
theorem quarter_turn_unit (u v : K) (h : u * u + v * v = 1) : (-v) * (-v) + u * u = 1 := by
  rw [← h]; ring

end C11L
