import CanvasModel.C11
/-! Helper lemmas for C11: the token-level printers are inverted by the specification interpreters. -/
namespace C11L
open Canvas.C11

/-- subpath start after a command -/
def newStart {α : Type} (st : α × α) : Cmd α → α × α
  | .move x y => (x, y)
  | _ => st

section svg
variable {α : Type} (add refl : α → α → α)

theorem svgRun_append (s : SvgSt α) (a b : List (Tok α)) :
    svgRun add refl s (a ++ b) = (svgRun add refl s a).bind fun s' => svgRun add refl s' b := by
  induction a generalizing s with
  | nil => simp [svgRun]
  | cons t ts ih =>
    simp only [List.cons_append, svgRun]
    cases svgTok add refl s t with
    | none => simp
    | some s1 => simpa using ih s1

variable (eq : α → α → Bool) (ge90 : α → Bool) (sub90 : α → α)

/-! `svgExec` on the eight command forms the printers emit (all absolute) -/
theorem exec_M (s : SvgSt α) (x y : α) : svgExec add refl s 'M' [.num x, .num y] =
    some { s with cur := (x, y), start := (x, y), ctl := none, qctl := none, cmd := some 'L', args := [], out := .move x y :: s.out } := rfl
theorem exec_L (s : SvgSt α) (x y : α) : svgExec add refl s 'L' [.num x, .num y] =
    some { s with cur := (x, y), ctl := none, qctl := none, cmd := some 'L', args := [], out := .line s.cur.1 s.cur.2 x y :: s.out } := rfl
theorem exec_H (s : SvgSt α) (x : α) : svgExec add refl s 'H' [.num x] =
    some { s with cur := (x, s.cur.2), ctl := none, qctl := none, cmd := some 'H', args := [], out := .line s.cur.1 s.cur.2 x s.cur.2 :: s.out } := rfl
theorem exec_V (s : SvgSt α) (y : α) : svgExec add refl s 'V' [.num y] =
    some { s with cur := (s.cur.1, y), ctl := none, qctl := none, cmd := some 'V', args := [], out := .line s.cur.1 s.cur.2 s.cur.1 y :: s.out } := rfl
theorem exec_Q (s : SvgSt α) (a b x y : α) : svgExec add refl s 'Q' [.num a, .num b, .num x, .num y] =
    some { s with cur := (x, y), ctl := none, qctl := some (a, b), cmd := some 'Q', args := [], out := .quad s.cur.1 s.cur.2 a b x y :: s.out } := rfl
theorem exec_C (s : SvgSt α) (a b c d x y : α) : svgExec add refl s 'C' [.num a, .num b, .num c, .num d, .num x, .num y] =
    some { s with cur := (x, y), ctl := some (c, d), qctl := none, cmd := some 'C', args := [], out := .cube s.cur.1 s.cur.2 a b c d x y :: s.out } := rfl
theorem exec_A (s : SvgSt α) (rx ry rot : α) (l sw : Bool) (x y : α) :
    svgExec add refl s 'A' [.num rx, .num ry, .num rot, .flag l, .flag sw, .num x, .num y] =
    some { s with cur := (x, y), ctl := none, qctl := none, cmd := some 'A', args := [], out := .arc s.cur.1 s.cur.2 rx ry rot l sw x y :: s.out } := rfl
theorem exec_z (s : SvgSt α) : svgExec add refl s 'z' [] =
    some { s with cur := s.start, ctl := none, qctl := none, cmd := some 'z', args := [], out := .close s.cur.1 s.cur.2 s.start.1 s.start.2 :: s.out } := rfl

/-- what one printed command does to the interpreter -/
theorem svg_cmd (heq : ∀ a b, eq a b = true → a = b) (s : SvgSt α) (c : Cmd α) (hargs : s.args = [])
    (hfirst : s.out ≠ [] ∨ ∃ x y, c = .move x y)
    (hclose : ∀ x y, c = .close x y → (x, y) = s.start)
    (hz : wasClose s = true → ∃ x y, c = .move x y) :
    ∃ s', svgRun add refl s (svgCmd eq ge90 sub90 s.cur c) = some s' ∧ s'.args = [] ∧ s'.cur = c.endPt ∧
      s'.start = newStart s.start c ∧
      s'.out = (match svgCanon eq ge90 sub90 s.cur c with | none => s.out | some c' => c'.seg s.cur :: s.out) ∧
      s'.out ≠ [] ∧ (wasClose s' = true → ∃ x y, c = .close x y) := by
  have aM : svgArity 'M' = some 2 := by decide
  have aL : svgArity 'L' = some 2 := by decide
  have aH : svgArity 'H' = some 1 := by decide
  have aV : svgArity 'V' = some 1 := by decide
  have aQ : svgArity 'Q' = some 4 := by decide
  have aC : svgArity 'C' = some 6 := by decide
  have aA : svgArity 'A' = some 7 := by decide
  have az : svgArity 'z' = some 0 := by decide
  have uM : 'M'.toUpper = 'M' := by decide
  have wL : ∀ t : SvgSt α, t.cmd = some 'L' → wasClose t = false := by intro t h; simp [wasClose, h]
  have wH : ∀ t : SvgSt α, t.cmd = some 'H' → wasClose t = false := by intro t h; simp [wasClose, h]
  have wV : ∀ t : SvgSt α, t.cmd = some 'V' → wasClose t = false := by intro t h; simp [wasClose, h]
  have wQ : ∀ t : SvgSt α, t.cmd = some 'Q' → wasClose t = false := by intro t h; simp [wasClose, h]
  have wC : ∀ t : SvgSt α, t.cmd = some 'C' → wasClose t = false := by intro t h; simp [wasClose, h]
  have wA : ∀ t : SvgSt α, t.cmd = some 'A' → wasClose t = false := by intro t h; simp [wasClose, h]
  cases c with
  | move x y =>
    simp [svgCmd, svgRun, svgTok, exec_M, hargs, aM, uM, Option.bind, Cmd.endPt, svgCanon, Cmd.seg, newStart, wasClose]
  | line x y =>
    have ho : s.out ≠ [] := by
      rcases hfirst with h | ⟨_, _, h⟩
      · exact h
      · cases h
    have hw : wasClose s = false := by
      cases hws : wasClose s with
      | false => rfl
      | true => obtain ⟨_, _, h⟩ := hz hws; cases h
    have hw' : ¬(s.cmd = some 'z' ∨ s.cmd = some 'Z') := by simpa [wasClose] using hw
    by_cases h1 : eq x s.cur.1 = true
    · have hx := heq _ _ h1
      subst hx
      by_cases h2 : eq y s.cur.2 = true
      · -- zero-length line: nothing printed
        have hy := heq _ _ h2
        subst hy
        exact ⟨s, by simp [svgCmd, h1, h2, svgRun], hargs, by simp [Cmd.endPt], rfl, by simp [svgCanon, h1, h2], ho,
          by simp [hw]⟩
      · -- V
        simp [svgCmd, h1, h2, svgRun, svgTok, exec_V, hargs, ho, hw', aV, Option.bind, Cmd.endPt, svgCanon, Cmd.seg, newStart, wasClose]
    · by_cases h2 : eq y s.cur.2 = true
      · -- H
        have hy := heq _ _ h2
        subst hy
        simp [svgCmd, h1, h2, svgRun, svgTok, exec_H, hargs, ho, hw', aH, Option.bind, Cmd.endPt, svgCanon, Cmd.seg, newStart, wasClose]
      · simp [svgCmd, h1, h2, svgRun, svgTok, exec_L, hargs, ho, hw', aL, Option.bind, Cmd.endPt, svgCanon, Cmd.seg, newStart, wasClose]
  | quad a b x y =>
    have ho : s.out ≠ [] := by
      rcases hfirst with h | ⟨_, _, h⟩
      · exact h
      · cases h
    have hw : wasClose s = false := by
      cases hws : wasClose s with
      | false => rfl
      | true => obtain ⟨_, _, h⟩ := hz hws; cases h
    have hw' : ¬(s.cmd = some 'z' ∨ s.cmd = some 'Z') := by simpa [wasClose] using hw
    simp [svgCmd, svgRun, svgTok, exec_Q, hargs, ho, hw', aQ, Option.bind, Cmd.endPt, svgCanon, Cmd.seg, newStart, wasClose]
  | cube a b c d x y =>
    have ho : s.out ≠ [] := by
      rcases hfirst with h | ⟨_, _, h⟩
      · exact h
      · cases h
    have hw : wasClose s = false := by
      cases hws : wasClose s with
      | false => rfl
      | true => obtain ⟨_, _, h⟩ := hz hws; cases h
    have hw' : ¬(s.cmd = some 'z' ∨ s.cmd = some 'Z') := by simpa [wasClose] using hw
    simp [svgCmd, svgRun, svgTok, exec_C, hargs, ho, hw', aC, Option.bind, Cmd.endPt, svgCanon, Cmd.seg, newStart, wasClose]
  | arc rx ry rot l sw x y =>
    have ho : s.out ≠ [] := by
      rcases hfirst with h | ⟨_, _, h⟩
      · exact h
      · cases h
    have hw : wasClose s = false := by
      cases hws : wasClose s with
      | false => rfl
      | true => obtain ⟨_, _, h⟩ := hz hws; cases h
    have hw' : ¬(s.cmd = some 'z' ∨ s.cmd = some 'Z') := by simpa [wasClose] using hw
    by_cases hg : ge90 rot = true
    · simp [svgCmd, hg, svgRun, svgTok, exec_A, hargs, ho, hw', aA, Option.bind, Cmd.endPt, svgCanon, Cmd.seg, newStart, wasClose]
    · simp [svgCmd, hg, svgRun, svgTok, exec_A, hargs, ho, hw', aA, Option.bind, Cmd.endPt, svgCanon, Cmd.seg, newStart, wasClose]
  | close x y =>
    have hst := hclose x y rfl
    simp [svgCmd, svgRun, svgTok, exec_z, hargs, az, Option.bind, Cmd.endPt, svgCanon, Cmd.seg, newStart, ← hst]

theorem svg_run_all [DecidableEq α] (heq : ∀ a b, eq a b = true → a = b) (cs : List (Cmd α)) :
    ∀ s : SvgSt α, s.args = [] → (s.out ≠ [] ∨ ∃ x y cs', cs = .move x y :: cs') →
      closesOK s.start cs = true → moveAfterClose cs = true →
      (wasClose s = true → cs = [] ∨ ∃ x y cs', cs = .move x y :: cs') →
      ∃ s', svgRun add refl s (toSVG eq ge90 sub90 s.cur cs) = some s' ∧ s'.args = [] ∧
        s'.out = (svgExpected eq ge90 sub90 s.cur cs).reverse ++ s.out := by
  induction cs with
  | nil => intro s h _ _ _ _; exact ⟨s, by simp [toSVG, svgRun], h, by simp [svgExpected]⟩
  | cons c cs ih =>
    intro s hargs hfirst hwf hmac hzs
    have hfirst' : s.out ≠ [] ∨ ∃ x y, c = .move x y := by
      rcases hfirst with h | ⟨x, y, cs', h⟩
      · exact Or.inl h
      · exact Or.inr ⟨x, y, by simp at h; exact h.1⟩
    have hclose : ∀ x y, c = .close x y → (x, y) = s.start := by
      intro x y hc
      subst hc
      simp [closesOK] at hwf
      exact hwf.1
    have hz : wasClose s = true → ∃ x y, c = .move x y := by
      intro hw
      rcases hzs hw with h | ⟨x, y, cs', h⟩
      · cases h
      · exact ⟨x, y, by simp at h; exact h.1⟩
    obtain ⟨s1, hrun, ha1, hc1, hs1, ho1, hne1, hz1⟩ := svg_cmd add refl eq ge90 sub90 heq s c hargs hfirst' hclose hz
    have hwf1 : closesOK s1.start cs = true := by
      rw [hs1]
      cases c <;> simp_all [closesOK, newStart]
    have hmac1 : moveAfterClose cs = true := by
      cases c with
      | close x y =>
        cases cs with
        | nil => rfl
        | cons d ds => cases d <;> simp_all [moveAfterClose]
      | _ => simpa [moveAfterClose] using hmac
    have hzs1 : wasClose s1 = true → cs = [] ∨ ∃ x y cs', cs = .move x y :: cs' := by
      intro hw
      obtain ⟨x, y, hc⟩ := hz1 hw
      subst hc
      cases cs with
      | nil => exact Or.inl rfl
      | cons d ds =>
        cases d with
        | move a b => exact Or.inr ⟨a, b, ds, rfl⟩
        | _ => simp [moveAfterClose] at hmac
    obtain ⟨s2, hrun2, ha2, ho2⟩ := ih s1 ha1 (Or.inl hne1) hwf1 hmac1 hzs1
    refine ⟨s2, ?_, ha2, ?_⟩
    · simp only [toSVG]
      rw [svgRun_append, hrun]
      simp only [Option.bind]
      rw [← hc1]
      exact hrun2
    · rw [ho2, ho1, hc1]
      simp only [svgExpected]
      cases svgCanon eq ge90 sub90 s.cur c <;> simp
theorem svgExpected_plain (sub90 : α → α) (cs : List (Cmd α)) : ∀ cur : α × α,
    svgExpected (fun _ _ => false) (fun _ => false) sub90 cur cs = segsFrom cur cs := by
  induction cs with
  | nil => intro cur; rfl
  | cons c cs ih =>
    intro cur
    cases c <;> simp [svgExpected, svgCanon, segsFrom, ih]
/-- ToSVG's expected decoding keeps every MoveTo and every Close of the data array -/
theorem svgExpected_structure (cs : List (Cmd α)) : ∀ cur : α × α,
    segStarts (svgExpected eq ge90 sub90 cur cs) = cmdStarts cs ∧
    segCloses (svgExpected eq ge90 sub90 cur cs) = cmdCloses cs := by
  induction cs with
  | nil => intro cur; simp [svgExpected, segStarts, cmdStarts, segCloses, cmdCloses]
  | cons c cs ih =>
    intro cur
    have h := ih c.endPt
    cases c with
    | line x y =>
      by_cases hc : (eq x cur.1 && eq y cur.2) = true
      · simp_all [svgExpected, svgCanon, segStarts, cmdStarts, segCloses, cmdCloses, Cmd.seg, Cmd.endPt]
      · simp [svgExpected, svgCanon, hc, segStarts, cmdStarts, segCloses, cmdCloses, Cmd.seg, Cmd.endPt] at h ⊢
        exact h
    | arc rx ry rot l sw x y =>
      by_cases hg : ge90 rot = true
      · simp [svgExpected, svgCanon, hg, segStarts, cmdStarts, segCloses, cmdCloses, Cmd.seg, Cmd.endPt] at h ⊢
        exact h
      · simp [svgExpected, svgCanon, hg, segStarts, cmdStarts, segCloses, cmdCloses, Cmd.seg, Cmd.endPt] at h ⊢
        exact h
    | move x y => simp_all [svgExpected, svgCanon, segStarts, cmdStarts, segCloses, cmdCloses, Cmd.seg, Cmd.endPt]
    | quad a b x y => simp_all [svgExpected, svgCanon, segStarts, cmdStarts, segCloses, cmdCloses, Cmd.seg, Cmd.endPt]
    | cube a b c d x y => simp_all [svgExpected, svgCanon, segStarts, cmdStarts, segCloses, cmdCloses, Cmd.seg, Cmd.endPt]
    | close x y => simp_all [svgExpected, svgCanon, segStarts, cmdStarts, segCloses, cmdCloses, Cmd.seg, Cmd.endPt]
end svg

/-! ## PDF / PostScript operators -/

section ops
variable {α : Type}

theorem opRun_append (op : OpSt α → String → Option (OpSt α)) (s : OpSt α) (a b : List (OTok α)) :
    opRun op s (a ++ b) = (opRun op s a).bind fun s' => opRun op s' b := by
  induction a generalizing s with
  | nil => simp [opRun]
  | cons t ts ih =>
    cases t with
    | num v => simpa [opRun] using ih _
    | op name =>
      simp only [List.cons_append, opRun]
      cases op s name with
      | none => simp
      | some s1 => simpa using ih s1

variable (ip : α → α → α) (center : α × α → α → α → α → Bool → Bool → α → α → Center α)

theorem pdf_cmd (add : α → α → α) (s : OpSt α) (c : Cmd α) (hst : s.stack = [])
    (harc : ∀ rx ry rot l sw x y, c ≠ .arc rx ry rot l sw x y)
    (hclose : ∀ x y, c = .close x y → (x, y) = s.start) :
    ∃ s', opRun (pdfOp add) s (pdfCmd ip s.cur c) = some s' ∧ s'.stack = [] ∧ s'.cur = c.endPt ∧
      s'.start = newStart s.start c ∧
      s'.out = c.segElev ip center s.cur :: s.out := by
  cases c with
  | move x y => simp [pdfCmd, opRun, pdfOp, hst, Option.bind, newStart, Cmd.endPt, Cmd.segElev, Cmd.seg]
  | line x y => simp [pdfCmd, opRun, pdfOp, hst, Option.bind, newStart, Cmd.endPt, Cmd.segElev, Cmd.seg]
  | quad a b x y => simp [pdfCmd, opRun, pdfOp, hst, Option.bind, newStart, Cmd.endPt, Cmd.segElev]
  | cube a b c d x y => simp [pdfCmd, opRun, pdfOp, hst, Option.bind, newStart, Cmd.endPt, Cmd.segElev, Cmd.seg]
  | arc rx ry rot l sw x y => exact absurd rfl (harc rx ry rot l sw x y)
  | close x y =>
    have h := hclose x y rfl
    simp [pdfCmd, opRun, pdfOp, hst, Option.bind, newStart, Cmd.endPt, Cmd.segElev, Cmd.seg, ← h]

theorem pdf_run_all [DecidableEq α] (add : α → α → α) (cs : List (Cmd α)) :
    ∀ s : OpSt α, s.stack = [] → noArcs cs = true → closesOK s.start cs = true →
      ∃ s', opRun (pdfOp add) s (toPDF ip s.cur cs) = some s' ∧ s'.stack = [] ∧
        s'.out = (segsElev ip center s.cur cs).reverse ++ s.out := by
  induction cs with
  | nil => intro s h _ _; exact ⟨s, by simp [toPDF, opRun], h, by simp [segsElev]⟩
  | cons c cs ih =>
    intro s hst hna hwf
    have harc : ∀ rx ry rot l sw x y, c ≠ .arc rx ry rot l sw x y := by
      intro rx ry rot l sw x y hc; subst hc; simp [noArcs] at hna
    have hclose : ∀ x y, c = .close x y → (x, y) = s.start := by
      intro x y hc; subst hc; simp [closesOK] at hwf; exact hwf.1
    obtain ⟨s1, hrun, ha1, hc1, hs1, ho1⟩ := pdf_cmd ip center add s c hst harc hclose
    have hna1 : noArcs cs = true := by cases c <;> simp_all [noArcs]
    have hwf1 : closesOK s1.start cs = true := by
      rw [hs1]; cases c <;> simp_all [closesOK, newStart]
    obtain ⟨s2, hrun2, ha2, ho2⟩ := ih s1 ha1 hna1 hwf1
    refine ⟨s2, ?_, ha2, ?_⟩
    · simp only [toPDF]
      rw [opRun_append, hrun]
      simp only [Option.bind]
      rw [← hc1]; exact hrun2
    · rw [ho2, ho1, hc1]; simp [segsElev]

variable (arcEnd : α → α → α → α → α → α → α × α)

theorem ps_cmd (s : OpSt α) (c : Cmd α) (hst : s.stack = [])
    (hend : ∀ rx ry phi l sw x y, c = .arc rx ry phi l sw x y →
      arcEnd (center s.cur rx ry phi l sw x y).cx (center s.cur rx ry phi l sw x y).cy rx ry
        (center s.cur rx ry phi l sw x y).a1 (center s.cur rx ry phi l sw x y).rot = (x, y))
    (hclose : ∀ x y, c = .close x y → (x, y) = s.start) :
    ∃ s', opRun (psOp arcEnd) s (psCmd ip center s.cur c) = some s' ∧ s'.stack = [] ∧ s'.cur = c.endPt ∧
      s'.start = newStart s.start c ∧
      s'.out = c.segElev ip center s.cur :: s.out := by
  cases c with
  | move x y => simp [psCmd, opRun, psOp, hst, Option.bind, newStart, Cmd.endPt, Cmd.segElev, Cmd.seg]
  | line x y => simp [psCmd, opRun, psOp, hst, Option.bind, newStart, Cmd.endPt, Cmd.segElev, Cmd.seg]
  | quad a b x y => simp [psCmd, opRun, psOp, hst, Option.bind, newStart, Cmd.endPt, Cmd.segElev]
  | cube a b c d x y => simp [psCmd, opRun, psOp, hst, Option.bind, newStart, Cmd.endPt, Cmd.segElev, Cmd.seg]
  | arc rx ry phi l sw x y =>
    have he := hend rx ry phi l sw x y rfl
    cases sw with
    | true => simp [psCmd, opRun, psOp, hst, Option.bind, newStart, Cmd.endPt, Cmd.segElev, he]
    | false => simp [psCmd, opRun, psOp, hst, Option.bind, newStart, Cmd.endPt, Cmd.segElev, he]
  | close x y =>
    have h := hclose x y rfl
    simp [psCmd, opRun, psOp, hst, Option.bind, newStart, Cmd.endPt, Cmd.segElev, Cmd.seg, ← h]

theorem ps_run_all [DecidableEq α]
    (hend : ∀ cur rx ry phi l sw x y,
      arcEnd (center cur rx ry phi l sw x y).cx (center cur rx ry phi l sw x y).cy rx ry
        (center cur rx ry phi l sw x y).a1 (center cur rx ry phi l sw x y).rot = (x, y))
    (cs : List (Cmd α)) :
    ∀ s : OpSt α, s.stack = [] → closesOK s.start cs = true →
      ∃ s', opRun (psOp arcEnd) s (toPS ip center s.cur cs) = some s' ∧ s'.stack = [] ∧
        s'.out = (segsElev ip center s.cur cs).reverse ++ s.out := by
  induction cs with
  | nil => intro s h _; exact ⟨s, by simp [toPS, opRun], h, by simp [segsElev]⟩
  | cons c cs ih =>
    intro s hst hwf
    have hclose : ∀ x y, c = .close x y → (x, y) = s.start := by
      intro x y hc; subst hc; simp [closesOK] at hwf; exact hwf.1
    obtain ⟨s1, hrun, ha1, hc1, hs1, ho1⟩ := ps_cmd ip center arcEnd s c hst
      (fun rx ry phi l sw x y _ => hend s.cur rx ry phi l sw x y) hclose
    have hwf1 : closesOK s1.start cs = true := by
      rw [hs1]; cases c <;> simp_all [closesOK, newStart]
    obtain ⟨s2, hrun2, ha2, ho2⟩ := ih s1 ha1 hwf1
    refine ⟨s2, ?_, ha2, ?_⟩
    · simp only [toPS]
      rw [opRun_append, hrun]
      simp only [Option.bind]
      rw [← hc1]; exact hrun2
    · rw [ho2, ho1, hc1]; simp [segsElev]
end ops

end C11L
