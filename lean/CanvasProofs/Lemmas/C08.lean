import CanvasModel.C08
import CanvasGen.CoreK
import CanvasGen.BezierK
import Mathlib.Tactic.Ring
import Mathlib.Tactic.Linarith
import Mathlib.Tactic.FieldSimp
import Mathlib.Tactic.Positivity
import Mathlib.Tactic.LinearCombination

/-! # C08 helper lemmas (ordered field `K`)

`Ops K` instantiates the hand-written model of `FastBounds`/`Bounds` (CanvasModel/C08.lean) with
`min`/`max` and with the definitions *generated* from /repo (`GenK.Equal`, `GenK.IntervalExclusive`,
`GenK.quadraticBezierPos`, `GenK.cubicBezierPos`). -/
set_option linter.unusedSectionVars false
set_option linter.unusedVariables false
namespace C08
open Canvas Canvas.C08 GenK

/-- the arc helpers the Bézier theorems never look inside -/
class ArcFns (K : Type) where
  /-- `math.Mod`; the theorems that use it state what they assume of it -/
  fmod : K → K → K

variable {K : Type} [Field K] [LinearOrder K] [IsStrictOrderedRing K] [Env K] [ArcFns K]

instance opsK : Ops K where
  mn := min
  mx := max
  equal := GenK.Equal
  ivx := GenK.IntervalExclusive
  quadPos := GenK.quadraticBezierPos
  cubePos := GenK.cubicBezierPos
  sqrt := Env.sqrt
  sincos := fun x => (Env.sin x, Env.cos x)
  atan2 := Env.atan2
  pi := Env.pi
  fmod := ArcFns.fmod
  acos := Env.acos
  abs := fun x => |x|
  eps := Env.epsilon
  le := fun a b => decide (a ≤ b)

@[simp] theorem ops_mn (a b : K) : Ops.mn a b = min a b := rfl
@[simp] theorem ops_mx (a b : K) : Ops.mx a b = max a b := rfl
@[simp] theorem ops_equal (a b : K) : Ops.equal a b = GenK.Equal a b := rfl
@[simp] theorem ops_ivx (a b c : K) : Ops.ivx a b c = GenK.IntervalExclusive a b c := rfl
@[simp] theorem ops_quadPos (p0 p1 p2 : Pt K) (t : K) : Ops.quadPos p0 p1 p2 t = quadraticBezierPos p0 p1 p2 t := rfl
@[simp] theorem ops_cubePos (p0 p1 p2 p3 : Pt K) (t : K) : Ops.cubePos p0 p1 p2 p3 t = cubicBezierPos p0 p1 p2 p3 t := rfl
@[simp] theorem ops_sqrt (a : K) : Ops.sqrt a = Env.sqrt a := rfl

/-! ## the curve a command draws -/

/-- scalar Bernstein forms, in the shape the generated `…BezierPos` definitions have -/
def qb (a0 a1 a2 t : K) : K := (1 - 2 * t + t * t) * a0 + (2 * t - 2 * t * t) * a1 + t * t * a2
def cb (a0 a1 a2 a3 t : K) : K :=
  (1 - 3 * t + 3 * t * t - t * t * t) * a0 + (3 * t - 6 * t * t + 3 * t * t * t) * a1 + (3 * t * t - 3 * t * t * t) * a2 + t * t * t * a3

theorem quadPos_x (p0 p1 p2 : Pt K) (t : K) : (quadraticBezierPos p0 p1 p2 t).x = qb p0.x p1.x p2.x t := by
  simp only [quadraticBezierPos, Point.Mul, Point.Add, qb]
theorem quadPos_y (p0 p1 p2 : Pt K) (t : K) : (quadraticBezierPos p0 p1 p2 t).y = qb p0.y p1.y p2.y t := by
  simp only [quadraticBezierPos, Point.Mul, Point.Add, qb]
theorem cubePos_x (p0 p1 p2 p3 : Pt K) (t : K) : (cubicBezierPos p0 p1 p2 p3 t).x = cb p0.x p1.x p2.x p3.x t := by
  simp only [cubicBezierPos, Point.Mul, Point.Add, cb]
theorem cubePos_y (p0 p1 p2 p3 : Pt K) (t : K) : (cubicBezierPos p0 p1 p2 p3 t).y = cb p0.y p1.y p2.y p3.y t := by
  simp only [cubicBezierPos, Point.Mul, Point.Add, cb]

/-- `q` lies on the segment drawn by command `c` from `start`. MoveTo contributes its point (both Go
functions include every MoveTo point). Arcs are outside the Bézier theorems: `OnSeg` is `False` for
them and every path theorem carries a `NoArc` hypothesis. -/
def OnSeg (start : Pt K) : Cmd K → Pt K → Prop
  | .M p, q => q = p
  | .L p, q => ∃ t, 0 ≤ t ∧ t ≤ 1 ∧ q = Point.Interpolate start p t
  | .Z p, q => ∃ t, 0 ≤ t ∧ t ≤ 1 ∧ q = Point.Interpolate start p t
  | .Q cp p, q => ∃ t, 0 ≤ t ∧ t ≤ 1 ∧ q = quadraticBezierPos start cp p t
  | .C cp1 cp2 p, q => ∃ t, 0 ≤ t ∧ t ≤ 1 ∧ q = cubicBezierPos start cp1 cp2 p t
  | .A _ _ _ _ _ _, _ => False

def OnPathFrom (start : Pt K) : List (Cmd K) → Pt K → Prop
  | [], _ => False
  | c :: cs, q => OnSeg start c q ∨ OnPathFrom c.endPt cs q

/-- the point set of a path: its initial point and every segment -/
def OnPath : List (Cmd K) → Pt K → Prop
  | [], _ => False
  | c :: cs, q => q = c.firstPt ∨ OnPathFrom c.firstPt cs q

def _root_.Canvas.C08.Cmd.isArc : Cmd K → Bool
  | .A _ _ _ _ _ _ => true
  | _ => false
def _root_.Canvas.C08.Cmd.isCube : Cmd K → Bool
  | .C _ _ _ => true
  | _ => false

def InRect (r : Rct K) (q : Pt K) : Prop := r.x0 ≤ q.x ∧ q.x ≤ r.x1 ∧ r.y0 ≤ q.y ∧ q.y ≤ r.y1
def StIn (s : St K) (q : Pt K) : Prop := s.xmin ≤ q.x ∧ q.x ≤ s.xmax ∧ s.ymin ≤ q.y ∧ q.y ≤ s.ymax

/-! ## convex hull property (Bernstein weights are non-negative and sum to one) -/

theorem hull3_lo (a0 a1 a2 m t : K) (h0 : m ≤ a0) (h1 : m ≤ a1) (h2 : m ≤ a2) (ht0 : 0 ≤ t) (ht1 : t ≤ 1) :
    m ≤ qb a0 a1 a2 t := by
  have e1 := mul_nonneg (mul_nonneg (sub_nonneg.2 ht1) (sub_nonneg.2 ht1)) (sub_nonneg.2 h0)
  have e2 := mul_nonneg (mul_nonneg ht0 (sub_nonneg.2 ht1)) (sub_nonneg.2 h1)
  have e3 := mul_nonneg (mul_nonneg ht0 ht0) (sub_nonneg.2 h2)
  unfold qb; nlinarith [e1, e2, e3]

theorem hull3_hi (a0 a1 a2 m t : K) (h0 : a0 ≤ m) (h1 : a1 ≤ m) (h2 : a2 ≤ m) (ht0 : 0 ≤ t) (ht1 : t ≤ 1) :
    qb a0 a1 a2 t ≤ m := by
  have e1 := mul_nonneg (mul_nonneg (sub_nonneg.2 ht1) (sub_nonneg.2 ht1)) (sub_nonneg.2 h0)
  have e2 := mul_nonneg (mul_nonneg ht0 (sub_nonneg.2 ht1)) (sub_nonneg.2 h1)
  have e3 := mul_nonneg (mul_nonneg ht0 ht0) (sub_nonneg.2 h2)
  unfold qb; nlinarith [e1, e2, e3]

theorem hull4_lo (a0 a1 a2 a3 m t : K) (h0 : m ≤ a0) (h1 : m ≤ a1) (h2 : m ≤ a2) (h3 : m ≤ a3) (ht0 : 0 ≤ t) (ht1 : t ≤ 1) :
    m ≤ cb a0 a1 a2 a3 t := by
  have u := sub_nonneg.2 ht1
  have e1 := mul_nonneg (mul_nonneg (mul_nonneg u u) u) (sub_nonneg.2 h0)
  have e2 := mul_nonneg (mul_nonneg (mul_nonneg ht0 u) u) (sub_nonneg.2 h1)
  have e3 := mul_nonneg (mul_nonneg (mul_nonneg ht0 ht0) u) (sub_nonneg.2 h2)
  have e4 := mul_nonneg (mul_nonneg (mul_nonneg ht0 ht0) ht0) (sub_nonneg.2 h3)
  unfold cb; nlinarith [e1, e2, e3, e4]

theorem hull4_hi (a0 a1 a2 a3 m t : K) (h0 : a0 ≤ m) (h1 : a1 ≤ m) (h2 : a2 ≤ m) (h3 : a3 ≤ m) (ht0 : 0 ≤ t) (ht1 : t ≤ 1) :
    cb a0 a1 a2 a3 t ≤ m := by
  have u := sub_nonneg.2 ht1
  have e1 := mul_nonneg (mul_nonneg (mul_nonneg u u) u) (sub_nonneg.2 h0)
  have e2 := mul_nonneg (mul_nonneg (mul_nonneg ht0 u) u) (sub_nonneg.2 h1)
  have e3 := mul_nonneg (mul_nonneg (mul_nonneg ht0 ht0) u) (sub_nonneg.2 h2)
  have e4 := mul_nonneg (mul_nonneg (mul_nonneg ht0 ht0) ht0) (sub_nonneg.2 h3)
  unfold cb; nlinarith [e1, e2, e3, e4]

theorem lerp_lo (a b m t : K) (h0 : m ≤ a) (h1 : m ≤ b) (ht0 : 0 ≤ t) (ht1 : t ≤ 1) : m ≤ (1 - t) * a + t * b := by
  nlinarith [mul_nonneg (sub_nonneg.2 ht1) (sub_nonneg.2 h0), mul_nonneg ht0 (sub_nonneg.2 h1)]
theorem lerp_hi (a b m t : K) (h0 : a ≤ m) (h1 : b ≤ m) (ht0 : 0 ≤ t) (ht1 : t ≤ 1) : (1 - t) * a + t * b ≤ m := by
  nlinarith [mul_nonneg (sub_nonneg.2 ht1) (sub_nonneg.2 h0), mul_nonneg ht0 (sub_nonneg.2 h1)]

/-! ## generic fold argument: a step function that only grows the box and swallows its own segment -/

structure GoodStep (ok : Cmd K → Prop) (step : St K → Cmd K → St K) : Prop where
  start_eq : ∀ s c, (step s c).start = c.endPt
  mono : ∀ s c q, StIn s q → StIn (step s c) q
  seg : ∀ s c q, ok c → StIn s s.start → OnSeg s.start c q → StIn (step s c) q
  endIn : ∀ s c, ok c → StIn s s.start → StIn (step s c) c.endPt

theorem fold_mono {ok : Cmd K → Prop} {step : St K → Cmd K → St K} (g : GoodStep ok step)
    (cs : List (Cmd K)) (s : St K) (q : Pt K) (h : StIn s q) : StIn (cs.foldl step s) q := by
  induction cs generalizing s with
  | nil => exact h
  | cons c cs ih => exact ih _ (g.mono s c q h)

theorem fold_contains {ok : Cmd K → Prop} {step : St K → Cmd K → St K} (g : GoodStep ok step)
    (cs : List (Cmd K)) (s : St K) (q : Pt K) (hok : ∀ c ∈ cs, ok c) (hs : StIn s s.start)
    (h : OnPathFrom s.start cs q) : StIn (cs.foldl step s) q := by
  induction cs generalizing s with
  | nil => exact h.elim
  | cons c cs ih =>
    have okc := hok c (List.mem_cons_self ..)
    rcases h with h | h
    · exact fold_mono g cs _ q (g.seg s c q okc hs h)
    · refine ih (step s c) (fun c' hc' => hok c' (List.mem_cons_of_mem _ hc')) ?_ ?_
      · rw [g.start_eq]; exact g.endIn s c okc hs
      · rw [g.start_eq]; exact h

theorem stIn_init (p : Pt K) : StIn (St.init p) p := by
  simp [StIn, St.init]

theorem run_contains {ok : Cmd K → Prop} {step : St K → Cmd K → St K} (g : GoodStep ok step)
    (cs : List (Cmd K)) (q : Pt K) (hok : ∀ c ∈ cs.tail, ok c) (h : OnPath cs q) : InRect (run step cs) q := by
  cases cs with
  | nil => exact h.elim
  | cons c cs =>
    have hi : StIn (St.init c.firstPt : St K) (St.init c.firstPt : St K).start := stIn_init _
    rcases h with h | h
    · subst h; exact fold_mono g cs _ _ hi
    · exact fold_contains g cs _ q hok hi h

/-! ## FastBounds: control-polygon hull -/

/-- what a command must satisfy for `fastStepG inner` to contain its segment: no arc, and for a
cubic the `inner` operation must dominate both arguments (true for `max`, false for `min`). -/
def FastOk (inner : K → K → K) (c : Cmd K) : Prop :=
  c.isArc = false ∧ (c.isCube = true → ∀ a b : K, a ≤ inner a b ∧ b ≤ inner a b)

theorem fastStepG_good (inner : K → K → K) : GoodStep (FastOk inner) (fastStepG inner) where
  start_eq := by intro s c; cases c <;> rfl
  mono := by
    intro s c q ⟨h1, h2, h3, h4⟩
    cases c <;> simp only [fastStepG, StIn, ops_mn, ops_mx] <;>
      exact ⟨(min_le_left _ _).trans h1, h2.trans (le_max_left _ _), (min_le_left _ _).trans h3, h4.trans (le_max_left _ _)⟩
  seg := by
    intro s c q ok ⟨s1, s2, s3, s4⟩ h
    cases c with
    | M p => cases h; simp [fastStepG, StIn]
    | L p =>
      obtain ⟨t, t0, t1, rfl⟩ := h
      simp only [fastStepG, StIn, ops_mn, ops_mx, Point.Interpolate]
      exact ⟨lerp_lo _ _ _ t ((min_le_left _ _).trans s1) (min_le_right _ _) t0 t1,
        lerp_hi _ _ _ t (s2.trans (le_max_left _ _)) (le_max_right _ _) t0 t1,
        lerp_lo _ _ _ t ((min_le_left _ _).trans s3) (min_le_right _ _) t0 t1,
        lerp_hi _ _ _ t (s4.trans (le_max_left _ _)) (le_max_right _ _) t0 t1⟩
    | Z p =>
      obtain ⟨t, t0, t1, rfl⟩ := h
      simp only [fastStepG, StIn, ops_mn, ops_mx, Point.Interpolate]
      exact ⟨lerp_lo _ _ _ t ((min_le_left _ _).trans s1) (min_le_right _ _) t0 t1,
        lerp_hi _ _ _ t (s2.trans (le_max_left _ _)) (le_max_right _ _) t0 t1,
        lerp_lo _ _ _ t ((min_le_left _ _).trans s3) (min_le_right _ _) t0 t1,
        lerp_hi _ _ _ t (s4.trans (le_max_left _ _)) (le_max_right _ _) t0 t1⟩
    | Q cp p =>
      obtain ⟨t, t0, t1, rfl⟩ := h
      simp only [fastStepG, StIn, ops_mn, ops_mx, quadPos_x, quadPos_y]
      exact ⟨hull3_lo _ _ _ _ t ((min_le_left _ _).trans s1) ((min_le_right _ _).trans (min_le_left _ _)) ((min_le_right _ _).trans (min_le_right _ _)) t0 t1,
        hull3_hi _ _ _ _ t (s2.trans (le_max_left _ _)) ((le_max_left _ _).trans (le_max_right _ _)) ((le_max_right _ _).trans (le_max_right _ _)) t0 t1,
        hull3_lo _ _ _ _ t ((min_le_left _ _).trans s3) ((min_le_right _ _).trans (min_le_left _ _)) ((min_le_right _ _).trans (min_le_right _ _)) t0 t1,
        hull3_hi _ _ _ _ t (s4.trans (le_max_left _ _)) ((le_max_left _ _).trans (le_max_right _ _)) ((le_max_right _ _).trans (le_max_right _ _)) t0 t1⟩
    | C cp1 cp2 p =>
      obtain ⟨t, t0, t1, rfl⟩ := h
      have hin := ok.2 rfl
      simp only [fastStepG, StIn, ops_mn, ops_mx, cubePos_x, cubePos_y]
      refine ⟨hull4_lo _ _ _ _ _ t ((min_le_left _ _).trans s1) ((min_le_right _ _).trans (min_le_left _ _))
          ((min_le_right _ _).trans ((min_le_right _ _).trans (min_le_left _ _))) ((min_le_right _ _).trans ((min_le_right _ _).trans (min_le_right _ _))) t0 t1,
        hull4_hi _ _ _ _ _ t (s2.trans (le_max_left _ _)) ((le_max_left _ _).trans (le_max_right _ _))
          (((hin _ _).1.trans (le_max_right _ _)).trans (le_max_right _ _)) (((hin _ _).2.trans (le_max_right _ _)).trans (le_max_right _ _)) t0 t1,
        hull4_lo _ _ _ _ _ t ((min_le_left _ _).trans s3) ((min_le_right _ _).trans (min_le_left _ _))
          ((min_le_right _ _).trans ((min_le_right _ _).trans (min_le_left _ _))) ((min_le_right _ _).trans ((min_le_right _ _).trans (min_le_right _ _))) t0 t1,
        hull4_hi _ _ _ _ _ t (s4.trans (le_max_left _ _)) ((le_max_left _ _).trans (le_max_right _ _))
          (((hin _ _).1.trans (le_max_right _ _)).trans (le_max_right _ _)) (((hin _ _).2.trans (le_max_right _ _)).trans (le_max_right _ _)) t0 t1⟩
    | A rx ry phi l sw p => exact h.elim
  endIn := by
    intro s c ok hs
    cases c with
    | M p => simp [fastStepG, StIn, Cmd.endPt]
    | L p => simp [fastStepG, StIn, Cmd.endPt]
    | Z p => simp [fastStepG, StIn, Cmd.endPt]
    | Q cp p => simp [fastStepG, StIn, Cmd.endPt]
    | C cp1 cp2 p =>
      have hin := ok.2 rfl
      simp only [fastStepG, StIn, Cmd.endPt, ops_mn, ops_mx]
      exact ⟨(min_le_right _ _).trans ((min_le_right _ _).trans (min_le_right _ _)),
        ((hin _ _).2.trans (le_max_right _ _)).trans (le_max_right _ _),
        (min_le_right _ _).trans ((min_le_right _ _).trans (min_le_right _ _)),
        ((hin _ _).2.trans (le_max_right _ _)).trans (le_max_right _ _)⟩
    | A rx ry phi l sw p => exact absurd ok.1 (by simp [Cmd.isArc])

/-! ## the Epsilon guards -/

theorem equal_zero_iff (hε : (Env.epsilon : K) = 0) (d : K) : GenK.Equal d 0 = true ↔ d = 0 := by
  unfold GenK.Equal
  rw [hε]
  split
  · rename_i h; simp only [decide_eq_true_eq]
    constructor
    · intro h2; linarith
    · intro h2; rw [h2]; simp
  · rename_i h; simp only [decide_eq_true_eq]
    constructor
    · intro h2; exact le_antisymm (by linarith) (not_lt.1 h)
    · intro h2; rw [h2]; simp

theorem equal_neg (d : K) : GenK.Equal (-d) 0 = GenK.Equal d 0 := by
  unfold GenK.Equal
  rcases lt_trichotomy d 0 with h | h | h
  · have h' : ¬ (-d < 0) := by simp; exact h.le
    simp [h, h']
  · subst h; simp
  · have h' : (-d < 0) := by simpa using h
    have h'' : ¬ (d < 0) := not_lt.2 h.le
    simp [h', h'']

theorem ivx01 (t : K) : GenK.IntervalExclusive t 0 1 = true ↔ (Env.epsilon : K) < t ∧ t < 1 - Env.epsilon := by
  simp [GenK.IntervalExclusive, not_lt.2 (zero_le_one (α := K))]

theorem ivx01_pos (hε : 0 ≤ (Env.epsilon : K)) (t : K) (h : GenK.IntervalExclusive t 0 1 = true) : 0 < t ∧ t < 1 := by
  rw [ivx01] at h; exact ⟨lt_of_le_of_lt hε h.1, by linarith [h.2]⟩

/-! ## `cand`, `quadAxis`, `cubeAxis`: they only grow the interval, and every value they produce is
the old bound, the end point, or a curve value at a parameter in (0,1) -/

theorem cand_mono (val : K → K) (t : Option K) (lh : K × K) :
    (cand val t lh).1 ≤ lh.1 ∧ lh.2 ≤ (cand val t lh).2 := by
  cases t with
  | none => simp [cand]
  | some t =>
    simp only [cand]; split
    · exact ⟨min_le_left _ _, le_max_left _ _⟩
    · exact ⟨le_refl _, le_refl _⟩

theorem cand_sel (hε : 0 ≤ (Env.epsilon : K)) (val : K → K) (t : Option K) (lh : K × K) (P : K → Prop)
    (hv : ∀ t, 0 < t → t < 1 → P (val t)) :
    (P lh.1 → P (cand val t lh).1) ∧ (P lh.2 → P (cand val t lh).2) := by
  cases t with
  | none => simp [cand]
  | some t =>
    simp only [cand]; split
    · rename_i h
      have ht := ivx01_pos hε t h
      constructor
      · intro h1; rcases min_choice lh.1 (val t) with e | e <;> simp only [ops_mn, e]
        · exact h1
        · exact hv t ht.1 ht.2
      · intro h1; rcases max_choice lh.2 (val t) with e | e <;> simp only [ops_mx, e]
        · exact h1
        · exact hv t ht.1 ht.2
    · exact ⟨id, id⟩

theorem quadAxis_mono (a0 a1 a2 : K) (val : K → K) (lo hi : K) :
    (quadAxis a0 a1 a2 val lo hi).1 ≤ min lo a2 ∧ max hi a2 ≤ (quadAxis a0 a1 a2 val lo hi).2 := by
  simp only [quadAxis]; split
  · exact cand_mono val _ _
  · exact ⟨le_refl _, le_refl _⟩

theorem cubeAxis_mono (a0 a1 a2 a3 : K) (val : K → K) (lo hi : K) :
    (cubeAxis a0 a1 a2 a3 val lo hi).1 ≤ min lo a3 ∧ max hi a3 ≤ (cubeAxis a0 a1 a2 a3 val lo hi).2 := by
  simp only [cubeAxis]
  have h1 := cand_mono val (solveQuadratic (-a0 + 3 * a1 - 3 * a2 + a3) (2 * a0 - 4 * a1 + 2 * a2) (-a0 + a1)).1 (Ops.mn lo a3, Ops.mx hi a3)
  have h2 := cand_mono val (solveQuadratic (-a0 + 3 * a1 - 3 * a2 + a3) (2 * a0 - 4 * a1 + 2 * a2) (-a0 + a1)).2
    (cand val (solveQuadratic (-a0 + 3 * a1 - 3 * a2 + a3) (2 * a0 - 4 * a1 + 2 * a2) (-a0 + a1)).1 (Ops.mn lo a3, Ops.mx hi a3))
  exact ⟨h2.1.trans h1.1, h1.2.trans h2.2⟩

theorem quadAxis_sel (hε : 0 ≤ (Env.epsilon : K)) (a0 a1 a2 : K) (val : K → K) (lo hi : K) (P : K → Prop)
    (h2 : P a2) (hv : ∀ t, 0 < t → t < 1 → P (val t)) :
    (P lo → P (quadAxis a0 a1 a2 val lo hi).1) ∧ (P hi → P (quadAxis a0 a1 a2 val lo hi).2) := by
  have hlo : P lo → P (min lo a2) := fun h => by rcases min_choice lo a2 with e | e <;> rw [e] <;> assumption
  have hhi : P hi → P (max hi a2) := fun h => by rcases max_choice hi a2 with e | e <;> rw [e] <;> assumption
  simp only [quadAxis]; split
  · have := cand_sel hε val (some ((a0 - a1) / (a0 - 2 * a1 + a2))) (Ops.mn lo a2, Ops.mx hi a2) P hv
    exact ⟨fun h => this.1 (hlo h), fun h => this.2 (hhi h)⟩
  · exact ⟨hlo, hhi⟩

theorem cubeAxis_sel (hε : 0 ≤ (Env.epsilon : K)) (a0 a1 a2 a3 : K) (val : K → K) (lo hi : K) (P : K → Prop)
    (h3 : P a3) (hv : ∀ t, 0 < t → t < 1 → P (val t)) :
    (P lo → P (cubeAxis a0 a1 a2 a3 val lo hi).1) ∧ (P hi → P (cubeAxis a0 a1 a2 a3 val lo hi).2) := by
  have hlo : P lo → P (min lo a3) := fun h => by rcases min_choice lo a3 with e | e <;> rw [e] <;> assumption
  have hhi : P hi → P (max hi a3) := fun h => by rcases max_choice hi a3 with e | e <;> rw [e] <;> assumption
  simp only [cubeAxis]
  have c1 := cand_sel hε val (solveQuadratic (-a0 + 3 * a1 - 3 * a2 + a3) (2 * a0 - 4 * a1 + 2 * a2) (-a0 + a1)).1 (Ops.mn lo a3, Ops.mx hi a3) P hv
  have c2 := cand_sel hε val (solveQuadratic (-a0 + 3 * a1 - 3 * a2 + a3) (2 * a0 - 4 * a1 + 2 * a2) (-a0 + a1)).2
    (cand val (solveQuadratic (-a0 + 3 * a1 - 3 * a2 + a3) (2 * a0 - 4 * a1 + 2 * a2) (-a0 + a1)).1 (Ops.mn lo a3, Ops.mx hi a3)) P hv
  exact ⟨fun h => c2.1 (c1.1 (hlo h)), fun h => c2.2 (c1.2 (hhi h))⟩

theorem qb_one (a0 a1 a2 : K) : qb a0 a1 a2 1 = a2 := by unfold qb; ring
theorem cb_one (a0 a1 a2 a3 : K) : cb a0 a1 a2 a3 1 = a3 := by unfold cb; ring
theorem quadPos_one (p0 p1 p2 : Pt K) : quadraticBezierPos p0 p1 p2 1 = p2 := by
  cases p2; simp only [quadraticBezierPos, Point.Mul, Point.Add]; congr 1 <;> ring
theorem cubePos_one (p0 p1 p2 p3 : Pt K) : cubicBezierPos p0 p1 p2 p3 1 = p3 := by
  cases p3; simp only [cubicBezierPos, Point.Mul, Point.Add]; congr 1 <;> ring
theorem interp_one (p q : Pt K) : Point.Interpolate p q 1 = q := by
  cases q; simp [Point.Interpolate]

/-- the end point of a (non-arc) command is on its segment -/
theorem onSeg_end (start : Pt K) (c : Cmd K) (h : c.isArc = false) : OnSeg start c c.endPt := by
  cases c with
  | M p => rfl
  | L p => exact ⟨1, zero_le_one, le_refl _, (interp_one _ _).symm⟩
  | Z p => exact ⟨1, zero_le_one, le_refl _, (interp_one _ _).symm⟩
  | Q cp p => exact ⟨1, zero_le_one, le_refl _, (quadPos_one _ _ _).symm⟩
  | C cp1 cp2 p => exact ⟨1, zero_le_one, le_refl _, (cubePos_one _ _ _ _).symm⟩
  | A rx ry phi l sw p => simp [Cmd.isArc] at h

/-! ## every side of Bounds is attained by a point of the path -/

/-- each of the four bounds of the state is a coordinate of some point satisfying `P` -/
def Att (P : Pt K → Prop) (s : St K) : Prop :=
  (∃ q, P q ∧ q.x = s.xmin) ∧ (∃ q, P q ∧ q.x = s.xmax) ∧ (∃ q, P q ∧ q.y = s.ymin) ∧ (∃ q, P q ∧ q.y = s.ymax)

theorem boundsStep_start (sw : Bool) (s : St K) (c : Cmd K) : (boundsStepG sw s c).start = c.endPt := by
  cases c <;> rfl

theorem boundsStep_att (hε : 0 ≤ (Env.epsilon : K)) (sw : Bool) (P : Pt K → Prop) (s : St K) (c : Cmd K) (hc : c.isArc = false)
    (h : Att P s) : Att (fun q => P q ∨ OnSeg s.start c q) (boundsStepG sw s c) := by
  obtain ⟨⟨q1, p1, e1⟩, ⟨q2, p2, e2⟩, ⟨q3, p3, e3⟩, ⟨q4, p4, e4⟩⟩ := h
  have hend := onSeg_end s.start c hc
  -- the simple commands: min/max with the end point
  have simple : ∀ p : Pt K, OnSeg s.start c p →
      Att (fun q => P q ∨ OnSeg s.start c q) ⟨p, min s.xmin p.x, max s.xmax p.x, min s.ymin p.y, max s.ymax p.y⟩ := by
    intro p hp
    refine ⟨?_, ?_, ?_, ?_⟩
    · rcases min_choice s.xmin p.x with e | e <;> simp only [e]
      exacts [⟨q1, Or.inl p1, e1⟩, ⟨p, Or.inr hp, rfl⟩]
    · rcases max_choice s.xmax p.x with e | e <;> simp only [e]
      exacts [⟨q2, Or.inl p2, e2⟩, ⟨p, Or.inr hp, rfl⟩]
    · rcases min_choice s.ymin p.y with e | e <;> simp only [e]
      exacts [⟨q3, Or.inl p3, e3⟩, ⟨p, Or.inr hp, rfl⟩]
    · rcases max_choice s.ymax p.y with e | e <;> simp only [e]
      exacts [⟨q4, Or.inl p4, e4⟩, ⟨p, Or.inr hp, rfl⟩]
  cases c with
  | M p => exact simple p hend
  | L p => exact simple p hend
  | Z p => exact simple p hend
  | Q cp p =>
    have X := quadAxis_sel hε s.start.x cp.x p.x (fun t => (Ops.quadPos s.start cp p t).x) s.xmin s.xmax
      (fun v => ∃ q, (P q ∨ OnSeg s.start (.Q cp p) q) ∧ q.x = v) ⟨p, Or.inr hend, rfl⟩
      (fun t t0 t1 => ⟨_, Or.inr ⟨t, t0.le, t1.le, rfl⟩, rfl⟩)
    have Y := quadAxis_sel hε s.start.y cp.y p.y (fun t => (Ops.quadPos s.start cp p t).y) s.ymin s.ymax
      (fun v => ∃ q, (P q ∨ OnSeg s.start (.Q cp p) q) ∧ q.y = v) ⟨p, Or.inr hend, rfl⟩
      (fun t t0 t1 => ⟨_, Or.inr ⟨t, t0.le, t1.le, rfl⟩, rfl⟩)
    exact ⟨X.1 ⟨q1, Or.inl p1, e1⟩, X.2 ⟨q2, Or.inl p2, e2⟩, Y.1 ⟨q3, Or.inl p3, e3⟩, Y.2 ⟨q4, Or.inl p4, e4⟩⟩
  | C cp1 cp2 p =>
    have X := cubeAxis_sel hε s.start.x cp1.x cp2.x p.x (fun t => (Ops.cubePos s.start cp1 cp2 p t).x) s.xmin s.xmax
      (fun v => ∃ q, (P q ∨ OnSeg s.start (.C cp1 cp2 p) q) ∧ q.x = v) ⟨p, Or.inr hend, rfl⟩
      (fun t t0 t1 => ⟨_, Or.inr ⟨t, t0.le, t1.le, rfl⟩, rfl⟩)
    have Y := cubeAxis_sel hε s.start.y cp1.y cp2.y p.y (fun t => (Ops.cubePos s.start cp1 cp2 p t).y) s.ymin s.ymax
      (fun v => ∃ q, (P q ∨ OnSeg s.start (.C cp1 cp2 p) q) ∧ q.y = v) ⟨p, Or.inr hend, rfl⟩
      (fun t t0 t1 => ⟨_, Or.inr ⟨t, t0.le, t1.le, rfl⟩, rfl⟩)
    exact ⟨X.1 ⟨q1, Or.inl p1, e1⟩, X.2 ⟨q2, Or.inl p2, e2⟩, Y.1 ⟨q3, Or.inl p3, e3⟩, Y.2 ⟨q4, Or.inl p4, e4⟩⟩
  | A rx ry phi l sw' p => simp [Cmd.isArc] at hc

theorem att_weaken {P Q : Pt K → Prop} (s : St K) (h : ∀ q, P q → Q q) (a : Att P s) : Att Q s := by
  obtain ⟨⟨q1, p1, e1⟩, ⟨q2, p2, e2⟩, ⟨q3, p3, e3⟩, ⟨q4, p4, e4⟩⟩ := a
  exact ⟨⟨q1, h _ p1, e1⟩, ⟨q2, h _ p2, e2⟩, ⟨q3, h _ p3, e3⟩, ⟨q4, h _ p4, e4⟩⟩

theorem fold_att (hε : 0 ≤ (Env.epsilon : K)) (sw : Bool) (cs : List (Cmd K)) (P : Pt K → Prop) (s : St K)
    (hc : ∀ c ∈ cs, c.isArc = false) (h : Att P s) :
    Att (fun q => P q ∨ OnPathFrom s.start cs q) (cs.foldl (boundsStepG sw) s) := by
  induction cs generalizing s P with
  | nil => exact att_weaken s (fun q hq => Or.inl hq) h
  | cons c cs ih =>
    have h1 := boundsStep_att hε sw P s c (hc c (List.mem_cons_self ..)) h
    have h2 := ih _ (boundsStepG sw s c) (fun c' hc' => hc c' (List.mem_cons_of_mem _ hc')) h1
    rw [boundsStep_start] at h2
    refine att_weaken _ ?_ h2
    rintro q ((hq | hq) | hq)
    · exact Or.inl hq
    · exact Or.inr (Or.inl hq)
    · exact Or.inr (Or.inr hq)

/-! ## Bounds contains a quadratic exactly (Epsilon = 0) -/

/-- parametrised form: `a1 = a0 - ts*d`, `a2 = a0 + d - 2*ts*d` (so `d` is the second difference and
`ts` the stationary parameter); then `B(t) = a0 - 2 t ts d + t² d`. -/
theorem qb_param (a0 d ts t : K) : qb a0 (a0 - ts * d) (a0 + d - 2 * ts * d) t = a0 - 2 * t * ts * d + t * t * d := by
  unfold qb; ring

/-- `B(t) - B(t*) = d (t - t*)²` -/
theorem qb_vertex (a0 d ts t : K) :
    qb a0 (a0 - ts * d) (a0 + d - 2 * ts * d) t - qb a0 (a0 - ts * d) (a0 + d - 2 * ts * d) ts = d * ((t - ts) * (t - ts)) := by
  unfold qb; ring

theorem quadAxis_contains (hε : (Env.epsilon : K) = 0) (a0 a1 a2 : K) (val : K → K) (lo hi t : K)
    (hval : ∀ u, val u = qb a0 a1 a2 u) (hlo : lo ≤ a0) (hhi : a0 ≤ hi) (t0 : 0 ≤ t) (t1 : t ≤ 1) :
    (quadAxis a0 a1 a2 val lo hi).1 ≤ qb a0 a1 a2 t ∧ qb a0 a1 a2 t ≤ (quadAxis a0 a1 a2 val lo hi).2 := by
  simp only [quadAxis, ops_equal, ops_mn, ops_mx]
  by_cases hd : a0 - 2 * a1 + a2 = 0
  · -- no second difference: the segment is traversed linearly
    rw [(equal_zero_iff hε _).2 hd]
    simp only [Bool.not_true, Bool.false_eq_true, if_false]
    have e : qb a0 a1 a2 t = (1 - t) * a0 + t * a2 := by
      have : a1 = (a0 + a2) / 2 := by field_simp; linarith
      unfold qb; rw [this]; ring
    rw [e]
    exact ⟨lerp_lo _ _ _ t ((min_le_left _ _).trans hlo) (min_le_right _ _) t0 t1,
      lerp_hi _ _ _ t (hhi.trans (le_max_left _ _)) (le_max_right _ _) t0 t1⟩
  · have hne : GenK.Equal (a0 - 2 * a1 + a2) 0 = false := by
      rw [Bool.eq_false_iff]; intro h; exact hd ((equal_zero_iff hε _).1 h)
    rw [hne]
    simp only [Bool.not_false, if_true]
    -- reparametrise by d and ts
    generalize hdd : a0 - 2 * a1 + a2 = d at hd ⊢
    generalize hts : (a0 - a1) / d = ts
    have h1 : a1 = a0 - ts * d := by rw [← hts]; field_simp; ring
    have h2 : a2 = a0 + d - 2 * ts * d := by linarith
    subst h1; subst h2
    have vt := qb_vertex a0 d ts t
    have pt := qb_param a0 d ts t
    have p1 := qb_param a0 d ts 1
    have pts := qb_param a0 d ts ts
    rw [qb_one] at p1
    simp only [cand, ops_ivx, ops_mn, ops_mx]
    have sq := mul_self_nonneg (t - ts)
    by_cases hin : GenK.IntervalExclusive ts 0 1 = true
    · rw [if_pos hin]
      rw [ivx01, hε] at hin
      simp only [hval]
      rcases lt_or_gt_of_ne hd with dn | dp
      · -- concave: maximum at ts, minimum at an end point
        constructor
        · refine (min_le_left _ _).trans ?_
          rcases le_total 0 (a0 + d - 2 * ts * d - a0) with h | h
          · exact ((min_le_left _ _).trans hlo).trans (by nlinarith [mul_nonneg t0 (sub_nonneg.2 t1)])
          · exact (min_le_right _ _).trans (by nlinarith [mul_nonneg t0 (sub_nonneg.2 t1)])
        · exact le_trans (by nlinarith) (le_max_right _ _)
      · constructor
        · exact (min_le_right _ _).trans (by nlinarith)
        · refine le_trans ?_ (le_max_left _ _)
          rcases le_total 0 (a0 + d - 2 * ts * d - a0) with h | h
          · exact le_trans (by nlinarith [mul_nonneg t0 (sub_nonneg.2 t1)]) (le_max_right _ _)
          · exact le_trans (by nlinarith [mul_nonneg t0 (sub_nonneg.2 t1)]) (hhi.trans (le_max_left _ _))
    · rw [if_neg hin]
      rw [ivx01, hε] at hin
      simp only [sub_zero, not_and_or, not_lt] at hin
      -- stationary point outside (0,1): monotone on [0,1]
      have u1 := sub_nonneg.2 t1
      rcases hin with hin | hin <;> rcases lt_or_gt_of_ne hd with dn | dp
      · -- ts ≤ 0, d < 0 : decreasing
        exact ⟨(min_le_right _ _).trans (by nlinarith [mul_nonneg u1 (add_nonneg t0 (by linarith : (0:K) ≤ 1 - 2 * ts))]),
          le_trans (by nlinarith [mul_nonneg t0 (sub_nonneg.2 (by linarith : 2 * ts ≤ t))]) (hhi.trans (le_max_left _ _))⟩
      · exact ⟨((min_le_left _ _).trans hlo).trans (by nlinarith [mul_nonneg t0 (sub_nonneg.2 (by linarith : 2 * ts ≤ t))]),
          le_trans (by nlinarith [mul_nonneg u1 (add_nonneg t0 (by linarith : (0:K) ≤ 1 - 2 * ts))]) (le_max_right _ _)⟩
      · -- 1 ≤ ts, d < 0 : increasing
        exact ⟨((min_le_left _ _).trans hlo).trans (by nlinarith [mul_nonneg t0 (by linarith : (0:K) ≤ 2 * ts - t)]),
          le_trans (by nlinarith [mul_nonneg u1 (by linarith : (0:K) ≤ 2 * ts - 1 - t)]) (le_max_right _ _)⟩
      · exact ⟨(min_le_right _ _).trans (by nlinarith [mul_nonneg u1 (by linarith : (0:K) ≤ 2 * ts - 1 - t)]),
          le_trans (by nlinarith [mul_nonneg t0 (by linarith : (0:K) ≤ 2 * ts - t)]) (hhi.trans (le_max_left _ _))⟩

/-! ## Bounds as a `GoodStep` on M/L/Q/Z commands (Epsilon = 0) -/

def BoundsOk (c : Cmd K) : Prop := c.isArc = false ∧ c.isCube = false

theorem ite_min_le (b : Bool) (a c : K) : (if b = true then min a c else a) ≤ a := by
  split
  · exact min_le_left _ _
  · exact le_refl _
theorem le_ite_max (b : Bool) (a c : K) : a ≤ (if b = true then max a c else a) := by
  split
  · exact le_max_left _ _
  · exact le_refl _

theorem boundsStep_mono (sw : Bool) (s : St K) (c : Cmd K) (q : Pt K) (h : StIn s q) : StIn (boundsStepG sw s c) q := by
  obtain ⟨h1, h2, h3, h4⟩ := h
  cases c with
  | M p => exact (fastStepG_good (K := K) min).mono s (.M p) q ⟨h1, h2, h3, h4⟩
  | L p => exact (fastStepG_good (K := K) min).mono s (.L p) q ⟨h1, h2, h3, h4⟩
  | Z p => exact (fastStepG_good (K := K) min).mono s (.Z p) q ⟨h1, h2, h3, h4⟩
  | Q cp p =>
    have X := quadAxis_mono s.start.x cp.x p.x (fun t => (Ops.quadPos s.start cp p t).x) s.xmin s.xmax
    have Y := quadAxis_mono s.start.y cp.y p.y (fun t => (Ops.quadPos s.start cp p t).y) s.ymin s.ymax
    exact ⟨(X.1.trans (min_le_left _ _)).trans h1, h2.trans ((le_max_left _ _).trans X.2),
      (Y.1.trans (min_le_left _ _)).trans h3, h4.trans ((le_max_left _ _).trans Y.2)⟩
  | C cp1 cp2 p =>
    have X := cubeAxis_mono s.start.x cp1.x cp2.x p.x (fun t => (Ops.cubePos s.start cp1 cp2 p t).x) s.xmin s.xmax
    have Y := cubeAxis_mono s.start.y cp1.y cp2.y p.y (fun t => (Ops.cubePos s.start cp1 cp2 p t).y) s.ymin s.ymax
    exact ⟨(X.1.trans (min_le_left _ _)).trans h1, h2.trans ((le_max_left _ _).trans X.2),
      (Y.1.trans (min_le_left _ _)).trans h3, h4.trans ((le_max_left _ _).trans Y.2)⟩
  | A rx ry phi l sw' p =>
    simp only [boundsStepG, StIn, ops_mn, ops_mx]
    exact ⟨((min_le_left _ _).trans (ite_min_le _ _ _)).trans h1, h2.trans ((le_ite_max _ _ _).trans (le_max_left _ _)),
      ((min_le_left _ _).trans (ite_min_le _ _ _)).trans h3, h4.trans ((le_ite_max _ _ _).trans (le_max_left _ _))⟩

theorem boundsStep_good (hε : (Env.epsilon : K) = 0) (sw : Bool) : GoodStep (BoundsOk (K := K)) (boundsStepG sw) where
  start_eq := boundsStep_start sw
  mono := boundsStep_mono sw
  seg := by
    intro s c q ok hs h
    cases c with
    | M p => exact (fastStepG_good (K := K) min).seg s (.M p) q ⟨rfl, by simp [Cmd.isCube]⟩ hs h
    | L p => exact (fastStepG_good (K := K) min).seg s (.L p) q ⟨rfl, by simp [Cmd.isCube]⟩ hs h
    | Z p => exact (fastStepG_good (K := K) min).seg s (.Z p) q ⟨rfl, by simp [Cmd.isCube]⟩ hs h
    | Q cp p =>
      obtain ⟨t, t0, t1, rfl⟩ := h
      obtain ⟨s1, s2, s3, s4⟩ := hs
      have X := quadAxis_contains hε s.start.x cp.x p.x (fun t => (Ops.quadPos s.start cp p t).x) s.xmin s.xmax t
        (fun u => quadPos_x _ _ _ u) s1 s2 t0 t1
      have Y := quadAxis_contains hε s.start.y cp.y p.y (fun t => (Ops.quadPos s.start cp p t).y) s.ymin s.ymax t
        (fun u => quadPos_y _ _ _ u) s3 s4 t0 t1
      simp only [StIn, quadPos_x, quadPos_y]
      exact ⟨X.1, X.2, Y.1, Y.2⟩
    | C cp1 cp2 p => simp [BoundsOk, Cmd.isCube] at ok
    | A rx ry phi l sw' p => exact h.elim
  endIn := by
    intro s c ok hs
    cases c with
    | M p => exact (fastStepG_good (K := K) min).endIn s (.M p) ⟨rfl, by simp [Cmd.isCube]⟩ hs
    | L p => exact (fastStepG_good (K := K) min).endIn s (.L p) ⟨rfl, by simp [Cmd.isCube]⟩ hs
    | Z p => exact (fastStepG_good (K := K) min).endIn s (.Z p) ⟨rfl, by simp [Cmd.isCube]⟩ hs
    | Q cp p =>
      have X := quadAxis_mono s.start.x cp.x p.x (fun t => (Ops.quadPos s.start cp p t).x) s.xmin s.xmax
      have Y := quadAxis_mono s.start.y cp.y p.y (fun t => (Ops.quadPos s.start cp p t).y) s.ymin s.ymax
      exact ⟨X.1.trans (min_le_right _ _), (le_max_right _ _).trans X.2, Y.1.trans (min_le_right _ _), (le_max_right _ _).trans Y.2⟩
    | C cp1 cp2 p => simp [BoundsOk, Cmd.isCube] at ok
    | A rx ry phi l sw' p => simp [BoundsOk, Cmd.isArc] at ok

/-! ## `solveQuadratic` returns roots -/

theorem solveQuadratic_sound (hε : (Env.epsilon : K) = 0)
    (hs : ∀ x : K, 0 ≤ x → Env.sqrt x * Env.sqrt x = x) (a b c t : K)
    (h : (solveQuadratic a b c).1 = some t ∨ (solveQuadratic a b c).2 = some t) :
    a * t * t + b * t + c = 0 := by
  have eq0 := equal_zero_iff hε
  unfold solveQuadratic at h
  simp only [ops_equal, ops_sqrt] at h
  by_cases ha : a = 0
  · rw [if_pos ((eq0 a).2 ha)] at h
    by_cases hb : b = 0
    · rw [if_pos ((eq0 b).2 hb)] at h
      by_cases hc : c = 0
      · rw [if_pos ((eq0 c).2 hc)] at h
        simp at h; subst h; simp [hc]
      · rw [if_neg (fun e => hc ((eq0 c).1 e))] at h; simp at h
    · rw [if_neg (fun e => hb ((eq0 b).1 e))] at h
      simp at h; subst h; rw [ha]; field_simp; ring
  · rw [if_neg (fun e => ha ((eq0 a).1 e))] at h
    by_cases hc : c = 0
    · rw [if_pos ((eq0 c).2 hc)] at h
      by_cases hb : b = 0
      · rw [if_pos ((eq0 b).2 hb)] at h
        simp at h; subst h; simp [hc]
      · rw [if_neg (fun e => hb ((eq0 b).1 e))] at h
        simp at h
        rcases h with h | h <;> subst h
        · simp [hc]
        · rw [hc]; field_simp; ring
    · rw [if_neg (fun e => hc ((eq0 c).1 e))] at h
      by_cases hd : b * b - 4 * a * c < 0
      · rw [if_pos hd] at h; simp at h
      · rw [if_neg hd] at h
        by_cases hz : b * b - 4 * a * c = 0
        · rw [if_pos ((eq0 _).2 hz)] at h
          simp at h; subst h
          field_simp
          linear_combination (-1 : K) * hz
        · rw [if_neg (fun e => hz ((eq0 _).1 e))] at h
          have hq := hs _ (not_lt.1 hd)
          -- q = ± sqrt disc, q² = disc
          generalize hqq : (if b < 0 then -Env.sqrt (b * b - 4 * a * c) else Env.sqrt (b * b - 4 * a * c)) = q at h
          have hq2 : q * q = b * b - 4 * a * c := by
            rw [← hqq]; split <;> simp [hq]
          generalize hx1 : -(b + q) / (2 * a) = x1 at h
          have r1 : a * x1 * x1 + b * x1 + c = 0 := by
            rw [← hx1]; field_simp; linear_combination hq2
          have x1ne : x1 ≠ 0 := by
            intro e; rw [e] at r1; simp at r1; exact hc r1
          have r2 : a * (c / (a * x1)) * (c / (a * x1)) + b * (c / (a * x1)) + c = 0 := by
            field_simp
            linear_combination c * r1
          split at h <;> simp at h <;> rcases h with h | h <;> subst h <;> assumption

end C08
