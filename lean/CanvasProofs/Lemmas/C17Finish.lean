import CanvasProofs.Lemmas.C17Step
/-! C17 helper lemmas, part 4: the whole pass, the final selection and the parent walk. -/
set_option linter.unusedSectionVars false
set_option linter.unusedVariables false
namespace Canvas.C17

section
variable {α : Type} [Add α] [Sub α] [Mul α] [Div α] [Neg α] [LT α] [LE α] [BEq α]
  [DecidableLT α] [DecidableLE α] [NatCast α]

theorem inv_init (P : Params α) (items : List (Item α)) (lineW : α) (tol : Option α) (ovf : Bool) :
    Inv P items lineW tol 0 (initLB ovf) := by
  refine ⟨rfl, ?_, ?_, by simp [initLB], ?_, ?_, ?_, Or.inl rfl⟩
  · intro n hn
    simp only [initLB, List.mem_singleton] at hn
    subst hn
    exact ⟨ChainOK.root, Or.inr rfl⟩
  · intro n hn; simp [initLB] at hn
  · intro f hf; omega
  · intro n _ f hf; omega
  · intro n _ f hf; omega

/-- a pass that runs to completion establishes the invariant at the end of the paragraph -/
theorem passLoop_inv (hrefl : ∀ a : α, (a == a) = true) (P : Params α) (items : List (Item α)) (lineW : α)
    (tol : Option α) : ∀ (rest : List (Item α)) (b : Nat) (lb lbf : LB α), items.drop b = rest → b ≤ items.length →
      Inv P items lineW tol b lb → passLoop P items lineW tol b (prevOf items b) rest lb = PassRes.done lbf →
      Inv P items lineW tol items.length lbf := by
  intro rest
  induction rest with
  | nil =>
    intro b lb lbf hdrop hb hI h
    simp only [passLoop] at h
    cases h
    have : items.length ≤ b := List.drop_eq_nil_iff.mp hdrop
    have : b = items.length := by omega
    rw [← this]; exact hI
  | cons it rest ih =>
    intro b lb lbf hdrop hb hI h
    simp only [passLoop] at h
    cases h1 : itemStep P items lineW tol b (prevOf items b) it rest (clearStale P (prevOf items b) lb) with
    | none => rw [h1] at h; cases h
    | some lb1 =>
      rw [h1] at h; simp only at h
      cases h2 : drastic P tol b it rest lb1 with
      | none => rw [h2] at h; cases h
      | some lb2 =>
        rw [h2] at h; simp only at h
        have hI2 := step_inv hrefl P items lineW tol b it rest lb lb1 lb2 hdrop hI h1 h2
        have hprev : prevOf items (b + 1) = some it := by
          show items[b]? = some it
          exact drop_getElem? hdrop
        rw [← hprev] at h
        exact ih (b + 1) (addGlue it lb2) lbf (drop_succ_of_drop hdrop) (drop_lt_length hdrop) hI2 h

/-! ### final selection -/

theorem chooseBest_mem : ∀ (l : List (Node α)) (x : Node α), ∃ y, chooseBest l (some x) = some y ∧ (y = x ∨ y ∈ l) := by
  intro l
  induction l with
  | nil => intro x; exact ⟨x, rfl, Or.inl rfl⟩
  | cons a rest ih =>
    intro x
    simp only [chooseBest]
    split
    · obtain ⟨y, hy, hm⟩ := ih a
      exact ⟨y, hy, Or.inr (hm.elim (fun h => h ▸ List.mem_cons_self) (List.mem_cons_of_mem _))⟩
    · obtain ⟨y, hy, hm⟩ := ih x
      exact ⟨y, hy, hm.elim Or.inl (fun h => Or.inr (List.mem_cons_of_mem _ h))⟩

theorem chooseBest_none_mem (l : List (Node α)) (hl : l ≠ []) : ∃ y, chooseBest l none = some y ∧ y ∈ l := by
  cases l with
  | nil => exact absurd rfl hl
  | cons a rest =>
    simp only [chooseBest]
    obtain ⟨y, hy, hm⟩ := chooseBest_mem rest a
    exact ⟨y, hy, hm.elim (fun h => h ▸ List.mem_cons_self) (List.mem_cons_of_mem _)⟩

theorem chooseLoose_mem (loose : Int) (kl : Nat) : ∀ (l : List (Node α)) (s : Int) (x : Node α),
    chooseLoose loose kl l s x = x ∨ chooseLoose loose kl l s x ∈ l := by
  intro l
  induction l with
  | nil => intro s x; exact Or.inl rfl
  | cons a rest ih =>
    intro s x
    simp only [chooseLoose]
    split
    · rcases ih _ a with h | h
      · rw [h]; exact Or.inr List.mem_cons_self
      · exact Or.inr (List.mem_cons_of_mem _ h)
    · split
      · rcases ih s a with h | h
        · rw [h]; exact Or.inr List.mem_cons_self
        · exact Or.inr (List.mem_cons_of_mem _ h)
      · rcases ih s x with h | h
        · exact Or.inl h
        · exact Or.inr (List.mem_cons_of_mem _ h)

/-- the returned breakpoints of a chain (nearest first): the parent walk without the root -/
def fixNonRoot (P : Params α) : List (ND α) → List (ND α)
  | [] => []
  | [_] => []
  | c :: p :: rest => { clampRatio P c with width := c.width - p.w } :: fixNonRoot P (p :: rest)

theorem fixChain_eq (P : Params α) : ∀ (c : ND α) (rest : List (ND α)),
    ∃ r, fixChain P (c :: rest) = fixNonRoot P (c :: rest) ++ [r] := by
  intro c rest
  induction rest generalizing c with
  | nil => exact ⟨clampRatio P c, rfl⟩
  | cons p rest ih =>
    obtain ⟨r, hr⟩ := ih p
    exact ⟨r, by simp only [fixChain, fixNonRoot, hr, List.cons_append]⟩

theorem fixNonRoot_pos (P : Params α) : ∀ ch : List (ND α), (fixNonRoot P ch).map (·.pos) = nonRootPos ch := by
  intro ch
  induction ch with
  | nil => rfl
  | cons c rest ih =>
    cases rest with
    | nil => rfl
    | cons p rest' =>
      simp only [fixNonRoot, nonRootPos, List.map_cons]
      rw [ih]
      congr 1
      unfold clampRatio; split <;> rfl

/-- what `finish` returns when the last item is a forced legal break -/
theorem finish_spec (P : Params α) (items : List (Item α)) (lineW : α) (tol : Option α) (loose : Int)
    (lb : LB α) (m : Nat) (hlen : items.length = m + 1) (hfo : forcedAt P items m = true)
    (hle : legalAt P items m = true) (hI : Inv P items lineW tol items.length lb)
    (breaks : List (ND α)) (fit : Bool) (h : finish P items.length loose lb = Outcome.ok breaks fit) :
    ∃ nb, nb ∈ lb.act ∧ breaks = (fixNonRoot P (nb.d :: nb.anc)).reverse ∧ fit = !lb.ovf ∧
      nb.d.pos = m ∧ nb.anc ≠ [] ∧ (loose = 0 → chooseBest lb.act none = some nb) := by
  unfold finish at h
  obtain ⟨b0, hb0, hb0m⟩ := chooseBest_none_mem lb.act hI.ne
  rw [hb0] at h
  simp only at h
  -- the node finally chosen
  have hsel : ∃ nb, nb ∈ lb.act ∧ (if loose ≠ 0 then chooseLoose loose b0.d.line lb.act 0 b0 else b0) = nb ∧
      (loose = 0 → b0 = nb) := by
    split
    · rename_i hl
      rcases chooseLoose_mem loose b0.d.line lb.act 0 b0 with h | h
      · exact ⟨b0, hb0m, h, fun _ => rfl⟩
      · exact ⟨_, h, rfl, fun h0 => absurd h0 hl⟩
    · exact ⟨b0, hb0m, rfl, fun _ => rfl⟩
  obtain ⟨nb, hnb, hsel, hsel0⟩ := hsel
  rw [hsel] at h
  obtain ⟨hpos, hanc⟩ := hI.last m (by omega) hfo hle nb hnb
  obtain ⟨r, hr⟩ := fixChain_eq P nb.d nb.anc
  have hlenc : 1 < ((fixChain P (nb.d :: nb.anc)).reverse).length := by
    rw [hr]
    cases ha : nb.anc with
    | nil => exact absurd ha hanc
    | cons p rest => simp [fixNonRoot]
  rw [if_pos hlenc] at h
  injection h with h1 h2
  refine ⟨nb, hnb, ?_, h2.symm, hpos, hanc, fun h0 => by rw [← hsel0 h0]; exact hb0⟩
  rw [← h1, hr]
  simp

/-- a successful run ends with a completed pass followed by `finish` -/
theorem linebreakFuel_done (P : Params α) (items : List (Item α)) (lineW : α) (loose : Int)
    (breaks : List (ND α)) (fit : Bool) : ∀ (fuel : Nat) (tol : Option α) (ovf : Bool),
    linebreakFuel P items lineW loose fuel tol ovf = Outcome.ok breaks fit →
    ∃ tol' ovf' lb, passLoop P items lineW tol' 0 none items (initLB ovf') = PassRes.done lb ∧
      finish P items.length loose lb = Outcome.ok breaks fit := by
  intro fuel
  induction fuel with
  | zero => intro tol ovf h; simp [linebreakFuel] at h
  | succ f ih =>
    intro tol ovf h
    simp only [linebreakFuel] at h
    cases hp : passLoop P items lineW tol 0 none items (initLB ovf) with
    | panic => rw [hp] at h; cases h
    | restart nt ovf' => rw [hp] at h; exact ih nt ovf' h
    | done lb => rw [hp] at h; exact ⟨tol, ovf, lb, hp, h⟩

end
end Canvas.C17
