import CanvasProofs.Lemmas.C17Opt7
import Mathlib.Tactic.NormNum
/-! C17, towards `optimal_statement`, part 8: every breakpoint records the fitness class of its own
ratio (`Fitness = fitClass Ratio`), so the demerits recorded along a chain are a `seqCost`. -/
set_option linter.unusedSectionVars false
set_option linter.unusedVariables false
namespace Canvas.C17

section
variable {α : Type} [Add α] [Sub α] [Mul α] [Div α] [Neg α] [LT α] [LE α] [BEq α]
  [DecidableLT α] [DecidableLE α] [NatCast α]

/-- slot `i` only ever holds a candidate of fitness class `i` -/
def SlotCls (g : Grp α) : Prop :=
  ∀ (i : Nat) (cand : Cand α), g.slots[i]? = some (some cand) → fitClass cand.ratio = i

theorem slotCls_empty : SlotCls (emptyGrp : Grp α) := by
  intro i cand h
  simp only [emptyGrp] at h
  match i with
  | 0 => simp at h
  | 1 => simp at h
  | 2 => simp at h
  | 3 => simp at h
  | n + 4 => simp at h

theorem updGrp_cls (cx : Ctx α) (a : Node α) (r : α) (g : Grp α) (h : SlotCls g) : SlotCls (updGrp cx a r g) := by
  unfold updGrp
  split
  · simp only
    split
    · intro i cand hc
      simp only at hc
      rw [List.getElem?_set] at hc
      split at hc
      · rename_i hi
        split at hc
        · cases hc; exact hi
        · cases hc
      · exact h i cand hc
    · exact h
  · exact h

theorem stepNode_cls (cx : Ctx α) (a : Node α) (g : Grp α) (o : MOut α) (h : SlotCls g) :
    SlotCls (stepNode cx a g o).1 := by
  unfold stepNode
  cases adjRatio cx.P cx.lineW cx.it cx.W cx.Y cx.Z a.d.w a.d.y a.d.z with
  | none => exact h
  | some r => exact updGrp_cls cx a r g h

theorem emit_fit (cx : Ctx α) (width : α) (s : α × α × α) (dm : α) (n : Node α) :
    ∀ (slots : List (Option (Cand α))) (c : Nat),
      (∀ (i : Nat) (cand : Cand α), slots[i]? = some (some cand) → fitClass cand.ratio = c + i) →
      n ∈ emit cx width s dm c slots → n.d.fit = fitClass n.d.ratio := by
  intro slots
  induction slots with
  | nil => intro c _ h; simp [emit] at h
  | cons x rest ih =>
    intro c hcls h
    have hrest : ∀ (i : Nat) (cand : Cand α), rest[i]? = some (some cand) → fitClass cand.ratio = c + 1 + i := by
      intro i cand hc
      have := hcls (i + 1) cand (by simpa using hc)
      omega
    cases x with
    | none => simp only [emit] at h; exact ih (c + 1) hrest h
    | some cand0 =>
      simp only [emit] at h
      split at h
      · rcases List.mem_cons.mp h with h | h
        · subst h
          have := hcls 0 cand0 (by simp)
          simp only [Nat.add_zero] at this
          exact this.symm
        · exact ih (c + 1) hrest h
      · exact ih (c + 1) hrest h

theorem flush_fit (cx : Ctx α) (width : α) (s : α × α × α) (g : Grp α) (o : MOut α) (h : SlotCls g) (n : Node α)
    (hn : n ∈ (flush cx width s g o).act) : n ∈ o.act ∨ n.d.fit = fitClass n.d.ratio := by
  unfold flush at hn
  cases hd : g.dmin with
  | none => rw [hd] at hn; exact Or.inl hn
  | some dm =>
    rw [hd] at hn
    rcases List.mem_append.mp hn with hn | hn
    · exact Or.inl hn
    · exact Or.inr (emit_fit cx width s dm n g.slots 0 (fun i cand hc => by rw [h i cand hc]; omega) hn)

/-- every node in the new active list is an old one or records the class of its own ratio -/
theorem mainGo_fit (cx : Ctx α) (width : α) (s : α × α × α) (n : Node α) :
    ∀ (l : List (Node α)) (g : Grp α) (o : MOut α), SlotCls g → n ∈ (mainGo cx width s l g o).act →
      n ∈ o.act ∨ n ∈ l ∨ n.d.fit = fitClass n.d.ratio := by
  intro l
  induction l with
  | nil =>
    intro g o hg hn
    simp only [mainGo] at hn
    rcases flush_fit cx width s g o hg n hn with h | h
    · exact Or.inl h
    · exact Or.inr (Or.inr h)
  | cons a rest ih =>
    intro g o hg hn
    simp only [mainGo] at hn
    have hg1 := stepNode_cls cx a g o hg
    have hstep : ∀ x, x ∈ (stepNode cx a g o).2.act → x ∈ o.act ∨ x = a := by
      intro x hx
      rcases stepNode_lists cx a g o with ⟨e1, _, _⟩ | ⟨e1, _⟩
      · rw [e1] at hx
        rcases List.mem_append.mp hx with h | h
        · exact Or.inl h
        · exact Or.inr (List.mem_singleton.mp h)
      · rw [e1] at hx; exact Or.inl hx
    have fromStep : ∀ x, x ∈ (stepNode cx a g o).2.act → x ∈ o.act ∨ x ∈ a :: rest ∨ x.d.fit = fitClass x.d.ratio := by
      intro x hx
      rcases hstep x hx with h | h
      · exact Or.inl h
      · exact Or.inr (Or.inl (h ▸ List.mem_cons_self))
    cases rest with
    | nil =>
      simp only at hn
      rcases flush_fit cx width s _ _ hg1 n hn with h | h
      · exact fromStep n h
      · exact Or.inr (Or.inr h)
    | cons nx rest' =>
      simp only at hn
      split at hn
      · rcases ih emptyGrp _ slotCls_empty hn with h | h | h
        · rcases flush_fit cx width s _ _ hg1 n h with h | h
          · exact fromStep n h
          · exact Or.inr (Or.inr h)
        · exact Or.inr (Or.inl (List.mem_cons_of_mem _ h))
        · exact Or.inr (Or.inr h)
      · rcases ih _ _ hg1 hn with h | h | h
        · exact fromStep n h
        · exact Or.inr (Or.inl (List.mem_cons_of_mem _ h))
        · exact Or.inr (Or.inr h)

end

section
variable {α : Type} [Add α] [Sub α] [Mul α] [Div α] [Neg α] [LT α] [LE α] [BEq α]
  [DecidableLT α] [DecidableLE α] [NatCast α]

theorem itemStep_lists (P : Params α) (items : List (Item α)) (lineW : α) (tol : Option α) (b : Nat)
    (prev : Option (Item α)) (it : Item α) (rest : List (Item α)) (lb lb1 : LB α)
    (h : itemStep P items lineW tol b prev it rest lb = some lb1) :
    (lb1.act = lb.act ∧ lb1.inact = lb.inact) ∨
    (lb1.act = (mainLoop P items lineW tol b it rest lb).act ∧ lb1.inact = (mainLoop P items lineW tol b it rest lb).inact) := by
  unfold itemStep at h
  cases hty : it.ty with
  | box => rw [hty] at h; simp only at h; cases h; exact Or.inl ⟨rfl, rfl⟩
  | penalty =>
    rw [hty] at h; simp only at h
    split at h <;> cases h
    · exact Or.inr ⟨rfl, rfl⟩
    · exact Or.inl ⟨rfl, rfl⟩
  | glue =>
    rw [hty] at h; simp only at h
    split at h
    · cases rest with
      | nil => cases h
      | cons nx tl =>
        simp only at h
        split at h <;> cases h
        · exact Or.inr ⟨rfl, rfl⟩
        · exact Or.inl ⟨rfl, rfl⟩
    · cases h; exact Or.inl ⟨rfl, rfl⟩

end

section field
variable {K : Type} [Field K] [LinearOrder K] [IsStrictOrderedRing K]

theorem fitClass_zero : fitClass (k 0 : K) = 1 := by
  have h1 : ¬ (k 0 : K) < -(half : K) := by
    unfold half k
    norm_num
  have h2 : (k 0 : K) ≤ (half : K) := by
    unfold half k
    norm_num
  unfold fitClass
  rw [if_neg h1, if_pos h2]

/-- every breakpoint of the chain records the class of its own ratio -/
def FitAll (n : Node K) : Prop := ∀ d, d ∈ n.d :: n.anc → d.fit = fitClass d.ratio

def FitInv (lb : LB K) : Prop := (∀ n, n ∈ lb.act → FitAll n) ∧ (∀ n, n ∈ lb.inact → FitAll n)

theorem mainLoop_fit (P : Params K) (items : List (Item K)) (lineW : K) (tol : Option K) (b : Nat)
    (it : Item K) (rest : List (Item K)) (lb : LB K) (h : FitInv lb) :
    FitInv (mainLoop P items lineW tol b it rest lb) := by
  obtain ⟨_, hact, hinact, _, _, _⟩ := mainLoop_spec P items lineW tol b it rest lb
  constructor
  · intro n hn
    have hf := mainGo_fit (mlCx P items lineW tol b it lb) (mlWidth it lb) (mlS P it rest lb) n lb.act emptyGrp
      ⟨[], lb.inact, lb.nextTol⟩ slotCls_empty (by rw [← mainLoop_act]; exact hn)
    rcases hact n hn with ⟨h1, _⟩ | ⟨a, ha, cand, c, hc, hmk⟩
    · exact h.1 n h1
    · rcases hf with hf | hf | hf
      · cases hf
      · exact h.1 n hf
      · intro d hd
        rcases List.mem_cons.mp hd with rfl | hd
        · exact hf
        · have hanc : n.anc = a.d :: a.anc := by
            obtain ⟨r, _, _, hcd⟩ := hc
            rw [hmk, hcd]; rfl
          rw [hanc] at hd
          exact h.1 a ha d hd
  · intro n hn
    rcases hinact n hn with h1 | h1
    · exact h.2 n h1
    · exact h.1 n h1

theorem passLoop_fit (P : Params K) (items : List (Item K)) (lineW : K) (tol : Option K) :
    ∀ (rest : List (Item K)) (b : Nat) (prev : Option (Item K)) (lb lbf : LB K), FitInv lb →
      passLoop P items lineW tol b prev rest lb = PassRes.done lbf → FitInv lbf := by
  intro rest
  induction rest with
  | nil => intro b prev lb lbf h hp; simp only [passLoop] at hp; cases hp; exact h
  | cons it rest ih =>
    intro b prev lb lbf h hp
    simp only [passLoop] at hp
    have h0 : FitInv (clearStale P prev lb) := by
      unfold clearStale
      split
      · split
        · exact ⟨h.1, fun n hn => by cases hn⟩
        · exact h
      · exact h
    cases h1 : itemStep P items lineW tol b prev it rest (clearStale P prev lb) with
    | none => rw [h1] at hp; cases hp
    | some lb1 =>
      rw [h1] at hp; simp only at hp
      have hf1 : FitInv lb1 := by
        rcases itemStep_lists P items lineW tol b prev it rest _ lb1 h1 with ⟨e1, e2⟩ | ⟨e1, e2⟩
        · exact ⟨fun n hn => h0.1 n (e1 ▸ hn), fun n hn => h0.2 n (e2 ▸ hn)⟩
        · have := mainLoop_fit P items lineW tol b it rest _ h0
          exact ⟨fun n hn => this.1 n (e1 ▸ hn), fun n hn => this.2 n (e2 ▸ hn)⟩
      cases h2 : drastic P tol b it rest lb1 with
      | none => rw [h2] at hp; cases hp
      | some lb2 =>
        rw [h2] at hp; simp only at hp
        have hf2 : FitInv lb2 := by
          rcases drastic_cases P tol b it rest lb1 lb2 h2 with ⟨_, he⟩ | ⟨_, _, _, _, _, hin, _, hfb⟩
          · rw [he]; exact hf1
          · refine ⟨?_, fun n hn => hf1.2 n (hin ▸ hn)⟩
            intro n hn
            rcases hfb with ⟨_, he⟩ | ⟨mw, _, he⟩
            · rw [he] at hn; cases hn
            · rw [he] at hn
              obtain ⟨p, hp', rfl⟩ := fallbackNodes_mem b _ _ lb1.W mw n lb1.inact hn
              intro d hd
              rcases List.mem_cons.mp hd with rfl | hd
              · show 1 = fitClass (k 0 : K)
                exact fitClass_zero.symm
              · exact hf1.2 p hp' d hd
        have hf3 : FitInv (addGlue it lb2) := by
          obtain ⟨_, g2, g3, _, _⟩ := addGlue_spec it lb2
          exact ⟨fun n hn => hf2.1 n (g2 ▸ hn), fun n hn => hf2.2 n (g3 ▸ hn)⟩
        exact ih (b + 1) (some it) _ lbf hf3 hp

theorem fitInv_init (ovf : Bool) : FitInv (initLB ovf : LB K) := by
  constructor
  · intro n hn
    simp only [initLB, List.mem_singleton] at hn
    subst hn
    intro d hd
    simp only [root, List.mem_singleton] at hd
    subst hd
    exact fitClass_zero.symm
  · intro n hn; simp [initLB] at hn

end field
end Canvas.C17
