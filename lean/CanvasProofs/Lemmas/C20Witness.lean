import CanvasProofs.Lemmas.C20Table
/-! # C20 lemmas: the two-goroutine unsynchronised read/write trace is well-formed and racy -/
namespace Canvas.C20

theorem Site.holdsAt_of_none (s : Site) (h : s.sync = .none) (tr : Trace) (t : Tid) (k : Nat) :
    s.HoldsAt tr t k := by
  refine ⟨?_, ?_, ?_, ?_⟩ <;> intros <;> simp_all

/-- without release and once events, happens-before only relates events of one thread -/
theorem hb_same_thread {tr : Trace}
    (hno : ∀ p, p ∈ tr → p.2.rel = none ∧ ∀ o, p.2 ≠ Ev.onceDo o) :
    ∀ i j, HB tr i j → tidAt tr i = tidAt tr j := by
  intro i j h
  induction h with
  | po _ hi hj => simp [tidAt, hi, hj]
  | sync _ hi _ hr _ =>
    have := (hno _ (List.mem_of_getElem? hi)).1
    simp only at this; rw [this] at hr; cases hr
  | once _ hi _ _ =>
    exact absurd rfl ((hno _ (List.mem_of_getElem? hi)).2 _)
  | trans _ _ ih1 ih2 => exact ih1.trans ih2

theorem wf_of_no_tokens {tr : Trace} (hno : ∀ p, p ∈ tr → p.2.acq = none ∧ p.2.rel = none) : WF tr := by
  intro k t e tok hk
  have := hno _ (List.mem_of_getElem? hk)
  simp only at this
  constructor
  · intro h; rw [this.1] at h; cases h
  · intro h; rw [this.2] at h; cases h

/-- two atomic operations on one location are no data race, whatever the order -/
theorem atomic_pair_no_race (body : String → List String) (tr : Trace) (i j : Nat) (x : String)
    (hi : atomicAt tr i x) (hj : atomicAt tr j x) : ¬ Race body tr i j x :=
  fun h => h.2.2.2.2.2.1 ⟨hi, hj⟩

/-- goroutine 0 reads `x`, goroutine 1 writes it, nothing else: a well-formed trace with a race -/
theorem unsync_race (x : String) :
    WF [((0 : Tid), Ev.read x), (1, Ev.write x)] ∧
    Race (fun _ => []) [((0 : Tid), Ev.read x), (1, Ev.write x)] 0 1 x := by
  refine ⟨wf_of_no_tokens ?_, ?_⟩
  · intro p hp
    simp only [List.mem_cons, List.not_mem_nil, or_false] at hp
    rcases hp with rfl | rfl <;> exact ⟨rfl, rfl⟩
  · refine ⟨by decide, by simp [tidAt], Or.inr (Or.inl ⟨0, rfl⟩), Or.inl (Or.inl ⟨1, rfl⟩),
      Or.inr (Or.inl (Or.inl ⟨1, rfl⟩)), ?_, ?_⟩
    · intro ⟨⟨t, h⟩, _⟩; simp at h
    intro h
    have := hb_same_thread (tr := [((0 : Tid), Ev.read x), (1, Ev.write x)]) ?_ 0 1 h
    · simp [tidAt] at this
    · intro p hp
      simp only [List.mem_cons, List.not_mem_nil, or_false] at hp
      rcases hp with rfl | rfl <;> exact ⟨rfl, fun o h => nomatch h⟩

/-- a thread that performs no release and no once call passes nothing on: happens-before never
leaves it -/
theorem hb_stays {tr : Trace} (t : Tid)
    (hno : ∀ p, p ∈ tr → p.1 = t → p.2.rel = none ∧ ∀ o, p.2 ≠ Ev.onceDo o) :
    ∀ i j, HB tr i j → tidAt tr i = some t → tidAt tr j = some t := by
  intro i j h
  induction h with
  | po _ hi hj => intro h; simp [tidAt, hi] at h; simp [tidAt, hj, h]
  | sync _ hi _ hr _ =>
    intro h; simp [tidAt, hi] at h
    have := (hno _ (List.mem_of_getElem? hi) h).1
    simp only at this; rw [this] at hr; cases hr
  | once _ hi _ _ =>
    intro h; simp [tidAt, hi] at h
    exact absurd rfl ((hno _ (List.mem_of_getElem? hi) h).2 _)
  | trans _ _ ih1 ih2 => intro h; exact ih2 (ih1 h)

/-- the trace of a use-after-Put: goroutine 0 returns the object to the pool and reads its field
afterwards, goroutine 1 has taken it from the pool and initialises it -/
def useAfterPut : Trace :=
  [(0, Ev.poolGet "p" 1), (0, Ev.poolPut "p" 1), (1, Ev.poolGet "p" 1), (1, Ev.write "f"), (0, Ev.read "f")]

theorem useAfterPut_wf : WF useAfterPut := by
  intro k t e tok hk
  match k with
  | 0 => simp [useAfterPut] at hk; obtain ⟨rfl, rfl⟩ := hk
         constructor <;> intro h <;> simp [Ev.acq, Ev.rel] at h; subst h; rfl
  | 1 => simp [useAfterPut] at hk; obtain ⟨rfl, rfl⟩ := hk
         constructor <;> intro h <;> simp [Ev.acq, Ev.rel] at h; subst h; simp [holderAt, useAfterPut, Ev.acq]
  | 2 => simp [useAfterPut] at hk; obtain ⟨rfl, rfl⟩ := hk
         constructor <;> intro h <;> simp [Ev.acq, Ev.rel] at h; subst h; simp [holderAt, useAfterPut, Ev.acq, Ev.rel]
  | 3 => simp [useAfterPut] at hk; obtain ⟨rfl, rfl⟩ := hk
         constructor <;> intro h <;> simp [Ev.acq, Ev.rel] at h
  | 4 => simp [useAfterPut] at hk; obtain ⟨rfl, rfl⟩ := hk
         constructor <;> intro h <;> simp [Ev.acq, Ev.rel] at h
  | k+5 => simp [useAfterPut] at hk

theorem useAfterPut_race : Race (fun _ => []) useAfterPut 3 4 "f" := by
  refine ⟨by decide, by simp [tidAt, useAfterPut], Or.inl (Or.inl ⟨1, rfl⟩), Or.inr (Or.inl ⟨0, rfl⟩),
    Or.inl (Or.inl ⟨1, rfl⟩), ?_, ?_⟩
  · intro ⟨⟨t, h⟩, _⟩; simp [useAfterPut] at h
  intro h
  have := hb_stays (tr := useAfterPut) 1 ?_ 3 4 h (by simp [tidAt, useAfterPut])
  · simp [tidAt, useAfterPut] at this
  · intro p hp ht
    simp only [useAfterPut, List.mem_cons, List.not_mem_nil, or_false] at hp
    rcases hp with rfl | rfl | rfl | rfl | rfl <;> first | (exact ⟨rfl, fun o h => nomatch h⟩) | (simp at ht)

end Canvas.C20
