import CanvasProofs.Lemmas.C08

/-! # C08 — equivariance of the min/max fold under translation and reflection -/
set_option linter.unusedSectionVars false
set_option linter.unusedVariables false
namespace C08
open Canvas Canvas.C08 GenK
variable {K : Type} [Field K] [LinearOrder K] [IsStrictOrderedRing K] [Env K] [ArcFns K]

/-- apply a map to every point of a command (arcs: end point only; arcs are excluded below) -/
def _root_.Canvas.C08.Cmd.mapP (f : Pt K → Pt K) : Cmd K → Cmd K
  | .M p => .M (f p)
  | .L p => .L (f p)
  | .Z p => .Z (f p)
  | .Q cp p => .Q (f cp) (f p)
  | .C cp1 cp2 p => .C (f cp1) (f cp2) (f p)
  | .A rx ry phi l sw p => .A rx ry phi l sw (f p)

theorem mapP_isArc (f : Pt K → Pt K) (c : Cmd K) : (c.mapP f).isArc = c.isArc := by cases c <;> rfl
theorem mapP_isCube (f : Pt K → Pt K) (c : Cmd K) : (c.mapP f).isCube = c.isCube := by cases c <;> rfl

/-- generic transport of an equivariant step through the fold -/
theorem run_equiv (step : St K → Cmd K → St K) (fP : Pt K → Pt K) (fS : St K → St K) (fR : Rct K → Rct K)
    (ok : Cmd K → Prop)
    (hstep : ∀ s c, ok c → step (fS s) (c.mapP fP) = fS (step s c))
    (hfirst : ∀ c, ok c → (c.mapP fP).firstPt = fP c.firstPt)
    (hinit : ∀ p, St.init (fP p) = fS (St.init p)) (hrect : ∀ s, (fS s).rect = fR s.rect)
    (cs : List (Cmd K)) (hne : cs ≠ []) (hok : ∀ c ∈ cs, ok c) :
    run step (cs.map (Cmd.mapP fP)) = fR (run step cs) := by
  cases cs with
  | nil => exact absurd rfl hne
  | cons c cs =>
    simp only [run, List.map_cons]
    rw [hfirst c (hok c (List.mem_cons_self ..)), hinit]
    have : ∀ (cs : List (Cmd K)) (s : St K), (∀ c ∈ cs, ok c) →
        (cs.map (Cmd.mapP fP)).foldl step (fS s) = fS (cs.foldl step s) := by
      intro cs
      induction cs with
      | nil => intro s _; rfl
      | cons c cs ih =>
        intro s h
        simp only [List.map_cons, List.foldl_cons]
        rw [hstep s c (h c (List.mem_cons_self ..))]
        exact ih _ (fun c' hc' => h c' (List.mem_cons_of_mem _ hc'))
    rw [this cs _ (fun c' hc' => hok c' (List.mem_cons_of_mem _ hc')), hrect]

/-! ## translation -/

def trP (d p : Pt K) : Pt K := ⟨p.x + d.x, p.y + d.y⟩
def trS (d : Pt K) (s : St K) : St K :=
  { start := trP d s.start, xmin := s.xmin + d.x, xmax := s.xmax + d.x, ymin := s.ymin + d.y, ymax := s.ymax + d.y }
def trR (d : Pt K) (r : Rct K) : Rct K := { x0 := r.x0 + d.x, y0 := r.y0 + d.y, x1 := r.x1 + d.x, y1 := r.y1 + d.y }

theorem qb_tr (a0 a1 a2 t d : K) : qb (a0 + d) (a1 + d) (a2 + d) t = qb a0 a1 a2 t + d := by unfold qb; ring
theorem cb_tr (a0 a1 a2 a3 t d : K) : cb (a0 + d) (a1 + d) (a2 + d) (a3 + d) t = cb a0 a1 a2 a3 t + d := by unfold cb; ring

theorem cand_tr (val val' : K → K) (d : K) (hv : ∀ t, val' t = val t + d) (t : Option K) (lh : K × K) :
    cand val' t (lh.1 + d, lh.2 + d) = ((cand val t lh).1 + d, (cand val t lh).2 + d) := by
  cases t with
  | none => rfl
  | some t =>
    simp only [cand]; split
    · simp [hv, min_add_add_right, max_add_add_right]
    · rfl

theorem quadAxis_tr (a0 a1 a2 d : K) (val val' : K → K) (hv : ∀ t, val' t = val t + d) (lo hi : K) :
    quadAxis (a0 + d) (a1 + d) (a2 + d) val' (lo + d) (hi + d)
      = ((quadAxis a0 a1 a2 val lo hi).1 + d, (quadAxis a0 a1 a2 val lo hi).2 + d) := by
  have e1 : a0 + d - 2 * (a1 + d) + (a2 + d) = a0 - 2 * a1 + a2 := by ring
  have e2 : a0 + d - (a1 + d) = a0 - a1 := by ring
  simp only [quadAxis, e1, e2, ops_mn, ops_mx, min_add_add_right, max_add_add_right]
  split
  · exact cand_tr val val' d hv _ (min lo a2, max hi a2)
  · rfl

theorem cubeAxis_tr (a0 a1 a2 a3 d : K) (val val' : K → K) (hv : ∀ t, val' t = val t + d) (lo hi : K) :
    cubeAxis (a0 + d) (a1 + d) (a2 + d) (a3 + d) val' (lo + d) (hi + d)
      = ((cubeAxis a0 a1 a2 a3 val lo hi).1 + d, (cubeAxis a0 a1 a2 a3 val lo hi).2 + d) := by
  have e1 : -(a0 + d) + 3 * (a1 + d) - 3 * (a2 + d) + (a3 + d) = -a0 + 3 * a1 - 3 * a2 + a3 := by ring
  have e2 : 2 * (a0 + d) - 4 * (a1 + d) + 2 * (a2 + d) = 2 * a0 - 4 * a1 + 2 * a2 := by ring
  have e3 : -(a0 + d) + (a1 + d) = -a0 + a1 := by ring
  simp only [cubeAxis, e1, e2, e3, ops_mn, ops_mx, min_add_add_right, max_add_add_right]
  rw [cand_tr val val' d hv _ (min lo a3, max hi a3)]
  exact cand_tr val val' d hv _ _

theorem fastStepG_tr (inner : K → K → K) (hin : ∀ a b c : K, inner (a + c) (b + c) = inner a b + c)
    (d : Pt K) (s : St K) (c : Cmd K) (hc : c.isArc = false) :
    fastStepG inner (trS d s) (c.mapP (trP d)) = trS d (fastStepG inner s c) := by
  cases c with
  | A rx ry phi l sw p => simp [Cmd.isArc] at hc
  | _ => simp [fastStepG, trS, trP, Cmd.mapP, min_add_add_right, max_add_add_right, hin]

theorem boundsStepG_tr (sw : Bool) (d : Pt K) (s : St K) (c : Cmd K) (hc : c.isArc = false) :
    boundsStepG sw (trS d s) (c.mapP (trP d)) = trS d (boundsStepG sw s c) := by
  cases c with
  | M p => simp [boundsStepG, trS, trP, Cmd.mapP, min_add_add_right, max_add_add_right]
  | L p => simp [boundsStepG, trS, trP, Cmd.mapP, min_add_add_right, max_add_add_right]
  | Z p => simp [boundsStepG, trS, trP, Cmd.mapP, min_add_add_right, max_add_add_right]
  | Q cp p =>
    have X := quadAxis_tr s.start.x cp.x p.x d.x (fun t => (Ops.quadPos s.start cp p t).x)
      (fun t => (Ops.quadPos (trP d s.start) (trP d cp) (trP d p) t).x)
      (fun t => by simp only [ops_quadPos, quadPos_x, trP, qb_tr]) s.xmin s.xmax
    have Y := quadAxis_tr s.start.y cp.y p.y d.y (fun t => (Ops.quadPos s.start cp p t).y)
      (fun t => (Ops.quadPos (trP d s.start) (trP d cp) (trP d p) t).y)
      (fun t => by simp only [ops_quadPos, quadPos_y, trP, qb_tr]) s.ymin s.ymax
    simp only [boundsStepG, trS, Cmd.mapP]
    simp only [trP] at X Y ⊢
    rw [X, Y]
  | C cp1 cp2 p =>
    have X := cubeAxis_tr s.start.x cp1.x cp2.x p.x d.x (fun t => (Ops.cubePos s.start cp1 cp2 p t).x)
      (fun t => (Ops.cubePos (trP d s.start) (trP d cp1) (trP d cp2) (trP d p) t).x)
      (fun t => by simp only [ops_cubePos, cubePos_x, trP, cb_tr]) s.xmin s.xmax
    have Y := cubeAxis_tr s.start.y cp1.y cp2.y p.y d.y (fun t => (Ops.cubePos s.start cp1 cp2 p t).y)
      (fun t => (Ops.cubePos (trP d s.start) (trP d cp1) (trP d cp2) (trP d p) t).y)
      (fun t => by simp only [ops_cubePos, cubePos_y, trP, cb_tr]) s.ymin s.ymax
    simp only [boundsStepG, trS, Cmd.mapP]
    simp only [trP] at X Y ⊢
    rw [X, Y]
  | A rx ry phi l sw' p => simp [Cmd.isArc] at hc

theorem firstPt_mapP (f : Pt K → Pt K) (c : Cmd K) (hc : c.isArc = false) : (c.mapP f).firstPt = f c.firstPt := by
  cases c with
  | A rx ry phi l sw p => simp [Cmd.isArc] at hc
  | _ => rfl

/-! ## reflections -/

theorem mnn (a b : K) : min (-a) (-b) = -max a b := by
  rcases le_total a b with h | h
  · rw [max_eq_right h, min_eq_right (neg_le_neg h)]
  · rw [max_eq_left h, min_eq_left (neg_le_neg h)]
theorem mxn (a b : K) : max (-a) (-b) = -min a b := by
  rcases le_total a b with h | h
  · rw [min_eq_left h, max_eq_left (neg_le_neg h)]
  · rw [min_eq_right h, max_eq_right (neg_le_neg h)]

theorem qb_neg (a0 a1 a2 t : K) : qb (-a0) (-a1) (-a2) t = -qb a0 a1 a2 t := by unfold qb; ring
theorem cb_neg (a0 a1 a2 a3 t : K) : cb (-a0) (-a1) (-a2) (-a3) t = -cb a0 a1 a2 a3 t := by unfold cb; ring

theorem cand_neg (val val' : K → K) (hv : ∀ t, val' t = -val t) (t : Option K) (lh : K × K) :
    cand val' t (-lh.2, -lh.1) = (-(cand val t lh).2, -(cand val t lh).1) := by
  cases t with
  | none => rfl
  | some t =>
    simp only [cand]; split
    · simp [hv, mnn, mxn]
    · rfl

/-! ## reflection x ↦ −x -/

def rxP (p : Pt K) : Pt K := { x := -p.x, y := p.y }
def rxS (s : St K) : St K :=
  { start := rxP s.start, xmin := -s.xmax, xmax := -s.xmin, ymin := s.ymin, ymax := s.ymax }
def rxR (r : Rct K) : Rct K := { x0 := -r.x1, y0 := r.y0, x1 := -r.x0, y1 := r.y1 }

theorem quadAxis_negX (a0 a1 a2 : K) (val val' : K → K) (hv : ∀ t, val' t = -val t) (lo hi : K) :
    quadAxis (-a0) (-a1) (-a2) val' (-hi) (-lo)
      = (-(quadAxis a0 a1 a2 val lo hi).2, -(quadAxis a0 a1 a2 val lo hi).1) := by
  have e1 : -a0 - 2 * -a1 + -a2 = -(a0 - 2 * a1 + a2) := by ring
  have e2 : -a0 - -a1 = -(a0 - a1) := by ring
  simp only [quadAxis, e1, e2, ops_mn, ops_mx, ops_equal, equal_neg, neg_div_neg_eq, mnn, mxn]
  split
  · exact cand_neg val val' hv _ (min lo a2, max hi a2)
  · rfl

theorem fastStepG_rx (inner : K → K → K) (s : St K) (c : Cmd K) (hc : c.isArc = false)
    (hin : c.isCube = true → ∀ a b : K, inner a b = max a b) :
    fastStepG inner (rxS s) (c.mapP rxP) = rxS (fastStepG inner s c) := by
  cases c with
  | A rx ry phi l sw p => simp [Cmd.isArc] at hc
  | C cp1 cp2 p =>
    have h := hin rfl
    simp [fastStepG, rxS, rxP, Cmd.mapP, mnn, mxn, h]
  | _ => simp [fastStepG, rxS, rxP, Cmd.mapP, mnn, mxn]

theorem boundsStepG_rx (sw : Bool) (s : St K) (c : Cmd K) (hc : BoundsOk c) :
    boundsStepG sw (rxS s) (c.mapP rxP) = rxS (boundsStepG sw s c) := by
  cases c with
  | M p => simp [boundsStepG, rxS, rxP, Cmd.mapP, mnn, mxn]
  | L p => simp [boundsStepG, rxS, rxP, Cmd.mapP, mnn, mxn]
  | Z p => simp [boundsStepG, rxS, rxP, Cmd.mapP, mnn, mxn]
  | Q cp p =>
    have X := quadAxis_negX s.start.x cp.x p.x (fun t => (Ops.quadPos s.start cp p t).x)
      (fun t => (Ops.quadPos (rxP s.start) (rxP cp) (rxP p) t).x)
      (fun t => by simp only [ops_quadPos, quadPos_x, rxP, qb_neg]) s.xmin s.xmax
    have Y : (fun t => (Ops.quadPos (rxP s.start) (rxP cp) (rxP p) t).y) = (fun t => (Ops.quadPos s.start cp p t).y) := by
      funext t; simp only [ops_quadPos, quadPos_y, rxP]
    simp only [boundsStepG, rxS, Cmd.mapP]
    simp only [rxP] at X Y ⊢
    rw [X, Y]
  | C cp1 cp2 p => simp [BoundsOk, Cmd.isCube] at hc
  | A rx ry phi l sw' p => simp [BoundsOk, Cmd.isArc] at hc

/-! ## reflection y ↦ −y -/

def ryP (p : Pt K) : Pt K := { y := -p.y, x := p.x }
def ryS (s : St K) : St K :=
  { start := ryP s.start, ymin := -s.ymax, ymax := -s.ymin, xmin := s.xmin, xmax := s.xmax }
def ryR (r : Rct K) : Rct K := { y0 := -r.y1, x0 := r.x0, y1 := -r.y0, x1 := r.x1 }

theorem quadAxis_negY (a0 a1 a2 : K) (val val' : K → K) (hv : ∀ t, val' t = -val t) (lo hi : K) :
    quadAxis (-a0) (-a1) (-a2) val' (-hi) (-lo)
      = (-(quadAxis a0 a1 a2 val lo hi).2, -(quadAxis a0 a1 a2 val lo hi).1) := by
  have e1 : -a0 - 2 * -a1 + -a2 = -(a0 - 2 * a1 + a2) := by ring
  have e2 : -a0 - -a1 = -(a0 - a1) := by ring
  simp only [quadAxis, e1, e2, ops_mn, ops_mx, ops_equal, equal_neg, neg_div_neg_eq, mnn, mxn]
  split
  · exact cand_neg val val' hv _ (min lo a2, max hi a2)
  · rfl

theorem fastStepG_ry (inner : K → K → K) (s : St K) (c : Cmd K) (hc : c.isArc = false)
    (hin : c.isCube = true → ∀ a b : K, inner a b = max a b) :
    fastStepG inner (ryS s) (c.mapP ryP) = ryS (fastStepG inner s c) := by
  cases c with
  | A rx ry phi l sw p => simp [Cmd.isArc] at hc
  | C cp1 cp2 p =>
    have h := hin rfl
    simp [fastStepG, ryS, ryP, Cmd.mapP, mnn, mxn, h]
  | _ => simp [fastStepG, ryS, ryP, Cmd.mapP, mnn, mxn]

theorem boundsStepG_ry (sw : Bool) (s : St K) (c : Cmd K) (hc : BoundsOk c) :
    boundsStepG sw (ryS s) (c.mapP ryP) = ryS (boundsStepG sw s c) := by
  cases c with
  | M p => simp [boundsStepG, ryS, ryP, Cmd.mapP, mnn, mxn]
  | L p => simp [boundsStepG, ryS, ryP, Cmd.mapP, mnn, mxn]
  | Z p => simp [boundsStepG, ryS, ryP, Cmd.mapP, mnn, mxn]
  | Q cp p =>
    have Y := quadAxis_negY s.start.y cp.y p.y (fun t => (Ops.quadPos s.start cp p t).y)
      (fun t => (Ops.quadPos (ryP s.start) (ryP cp) (ryP p) t).y)
      (fun t => by simp only [ops_quadPos, quadPos_y, ryP, qb_neg]) s.ymin s.ymax
    have X : (fun t => (Ops.quadPos (ryP s.start) (ryP cp) (ryP p) t).x) = (fun t => (Ops.quadPos s.start cp p t).x) := by
      funext t; simp only [ops_quadPos, quadPos_x, ryP]
    simp only [boundsStepG, ryS, Cmd.mapP]
    simp only [ryP] at X Y ⊢
    rw [X, Y]
  | C cp1 cp2 p => simp [BoundsOk, Cmd.isCube] at hc
  | A rx ry phi l sw' p => simp [BoundsOk, Cmd.isArc] at hc

theorem init_tr (d p : Pt K) : St.init (trP d p) = trS d (St.init p) := rfl
theorem init_rx (p : Pt K) : St.init (rxP p) = rxS (St.init p) := rfl
theorem init_ry (p : Pt K) : St.init (ryP p) = ryS (St.init p) := rfl

end C08
