import CanvasModel.C18
/-! Helper lemmas for C18 (c): loop invariant of the ToUnicode bfrange/bfchar builder against the
strict §9.10.3 reader. -/
namespace C18L
open Canvas.C18

/-- the destination string the strict reader computes for a code (before UTF-16 decoding) -/
def tuRaw (R : List (Nat × Nat × Nat)) (C : List (Nat × Nat)) (code : Nat) : Option Dst :=
  match R.find? (inRange code) with
  | some r => if (dst r.2.2).last + (r.2.1 - r.1) ≤ 255 then some ((dst r.2.2).inc (code - r.1)) else none
  | none =>
    match C.find? (fun c => c.1 == code) with
    | some c => some (dst c.2)
    | none => none

theorem tuLookup_eq (R : List (Nat × Nat × Nat)) (C : List (Nat × Nat)) (code : Nat) :
    tuLookup R C code = (tuRaw R C code).bind Dst.scalar? := by
  unfold tuLookup tuRaw
  cases List.find? (inRange code) R with
  | some r => dsimp only; split <;> rfl
  | none => dsimp only; cases List.find? (fun c => c.1 == code) C <;> rfl

theorem dst_last (v : Nat) : (dst v).last = v % 256 := by
  unfold dst; split <;> rfl

theorem dst_inc (v k : Nat) (h : v % 256 + k ≤ 255) : (dst v).inc k = dst (v + k) := by
  unfold dst
  by_cases hv : v < 0x10000
  · have hv' : v + k < 0x10000 := by omega
    rw [if_pos hv, if_pos hv']
    simp only [Dst.inc]
    congr 1 <;> omega
  · have hv' : ¬ v + k < 0x10000 := by omega
    rw [if_neg hv, if_neg hv']
    simp only [Dst.inc]
    congr 1 <;> omega

/-- UTF-16BE of the packed word gives the code point back -/
theorem scalar_pack (u : Nat) (h : validScalar u = true) : (dst (pack u)).scalar? = some u := by
  simp only [validScalar, decide_eq_true_eq] at h
  unfold pack
  by_cases hu : 0x10000 ≤ u ∧ u ≤ 0x10FFFF
  · rw [if_pos hu]
    have h1 : (u - 0x10000) / 1024 % 1024 = (u - 0x10000) / 1024 := by omega
    rw [h1]
    obtain ⟨q, r, hr, hH⟩ : ∃ q r, r < 256 ∧ 0xD800 + (u - 0x10000) / 1024 = 256 * q + r :=
      ⟨(0xD800 + (u - 0x10000) / 1024) / 256, (0xD800 + (u - 0x10000) / 1024) % 256, by omega, by omega⟩
    obtain ⟨p, s, hs, hL⟩ : ∃ p s, s < 256 ∧ 0xDC00 + (u - 0x10000) % 1024 = 256 * p + s :=
      ⟨(0xDC00 + (u - 0x10000) % 1024) / 256, (0xDC00 + (u - 0x10000) % 1024) % 256, by omega, by omega⟩
    have hq : 0xD8 ≤ q ∧ q ≤ 0xDB := by omega
    have hp : 0xDC ≤ p ∧ p ≤ 0xDF := by omega
    have hv : (0xD800 + (u - 0x10000) / 1024) * 65536 + 0xDC00 + (u - 0x10000) % 1024
        = 16777216 * q + 65536 * r + 256 * p + s := by omega
    rw [hv]
    unfold dst
    have : ¬ 16777216 * q + 65536 * r + 256 * p + s < 0x10000 := by omega
    rw [if_neg this]
    have a1 : (16777216 * q + 65536 * r + 256 * p + s) / 16777216 % 256 = q := by omega
    have a2 : (16777216 * q + 65536 * r + 256 * p + s) / 65536 % 256 = r := by omega
    have a3 : (16777216 * q + 65536 * r + 256 * p + s) / 256 % 256 = p := by omega
    have a4 : (16777216 * q + 65536 * r + 256 * p + s) % 256 = s := by omega
    rw [a1, a2, a3, a4]
    simp only [Dst.scalar?]
    have c : q < 256 ∧ r < 256 ∧ p < 256 ∧ s < 256 ∧ 0xD800 ≤ q * 256 + r ∧ q * 256 + r ≤ 0xDBFF ∧
        0xDC00 ≤ p * 256 + s ∧ p * 256 + s ≤ 0xDFFF := by omega
    rw [if_pos c]
    apply congrArg some
    omega
  · rw [if_neg hu]
    have hlt : u < 0x10000 := by omega
    unfold dst
    rw [if_pos hlt]
    simp only [Dst.scalar?]
    have b1 : u / 256 * 256 + u % 256 = u := by omega
    rw [b1]
    have c : u / 256 < 256 ∧ u % 256 < 256 ∧ ¬ (0xD800 ≤ u ∧ u ≤ 0xDFFF) := by omega
    rw [if_pos c]

/-- loop invariant; `d` = packed values of the codes `0 … d.length-1` seen so far (`d[0] = U+FFFD`) -/
structure TInv (d : List Nat) (t : TU) : Prop where
  len1 : 1 ≤ t.len
  sc : t.sc + t.len = d.length
  pend : ∀ k, k < t.len → d[t.sc + k]? = some (t.su + k)
  fit : t.su % 256 + (t.len - 1) ≤ 255
  done : ∀ code v, code < t.sc → d[code]? = some v → tuRaw t.ranges t.chars code = some (dst v)
  freeR : ∀ code, t.sc ≤ code → t.ranges.find? (inRange code) = none
  freeC : ∀ code, t.sc ≤ code → t.chars.find? (fun c => c.1 == code) = none

theorem tinv_init : TInv [0xFFFD] TU.init := by
  refine ⟨by simp [TU.init], by simp [TU.init], ?_, by simp [TU.init], ?_, ?_, ?_⟩
  · intro k hk
    have : k = 0 := by simp [TU.init] at hk; omega
    subst this; simp [TU.init]
  · intro code v h; simp [TU.init] at h
  · intro code _; simp [TU.init]
  · intro code _; simp [TU.init]

/-- after `flush` every code seen so far reads back, and later codes are still unassigned -/
theorem flush_spec (d : List Nat) (t : TU) (h : TInv d t) :
    (∀ code v, d[code]? = some v → tuRaw t.flush.1 t.flush.2 code = some (dst v)) ∧
    (∀ code, d.length ≤ code → t.flush.1.find? (inRange code) = none) ∧
    (∀ code, d.length ≤ code → t.flush.2.find? (fun c => c.1 == code) = none) := by
  obtain ⟨len1, sc, pend, fit, done, freeR, freeC⟩ := h
  unfold TU.flush
  by_cases hl : 1 < t.len
  · rw [if_pos hl]
    dsimp only
    refine ⟨?_, ?_, ?_⟩
    · intro code v hv
      have hcl : code < d.length := (List.getElem?_eq_some_iff.1 hv).1
      unfold tuRaw
      rw [List.find?_append]
      by_cases hc : code < t.sc
      · have old := done code v hc hv
        unfold tuRaw at old
        cases hf : List.find? (inRange code) t.ranges with
        | some r => rw [hf] at old; simpa using old
        | none =>
          rw [hf] at old
          have : inRange code (t.sc, t.sc + t.len - 1, t.su) = false := by
            simp [inRange]; omega
          simp only [Option.none_or, List.find?_cons, this, List.find?_nil]
          exact old
      · rw [freeR code (by omega)]
        have : inRange code (t.sc, t.sc + t.len - 1, t.su) = true := by
          simp [inRange]; omega
        simp only [Option.none_or, List.find?_cons, this]
        have hfit : (dst t.su).last + (t.sc + t.len - 1 - t.sc) ≤ 255 := by
          rw [dst_last]; omega
        rw [if_pos hfit]
        have hk := pend (code - t.sc) (by omega)
        have e : t.sc + (code - t.sc) = code := by omega
        rw [e, hv] at hk
        injection hk with hk
        rw [dst_inc _ _ (by omega), hk]
    · intro code hc
      rw [List.find?_append, freeR code (by omega)]
      have : inRange code (t.sc, t.sc + t.len - 1, t.su) = false := by
        simp [inRange]; omega
      simp [this]
    · intro code hc
      exact freeC code (by omega)
  · rw [if_neg hl]
    dsimp only
    have hlen : t.len = 1 := by omega
    refine ⟨?_, ?_, ?_⟩
    · intro code v hv
      have hcl : code < d.length := (List.getElem?_eq_some_iff.1 hv).1
      unfold tuRaw
      by_cases hc : code < t.sc
      · have old := done code v hc hv
        unfold tuRaw at old
        cases hf : List.find? (inRange code) t.ranges with
        | some r => rw [hf] at old; simpa using old
        | none =>
          rw [hf] at old
          dsimp only at old ⊢
          rw [List.find?_append]
          cases hg : List.find? (fun c => c.1 == code) t.chars with
          | some c => rw [hg] at old; simpa using old
          | none => rw [hg] at old; cases old
      · have hcs : code = t.sc := by omega
        rw [freeR code (by omega)]
        dsimp only
        rw [List.find?_append, freeC code (by omega)]
        have : ((t.sc, t.su).1 == code) = true := by simp [hcs]
        simp only [Option.none_or, List.find?_cons, this]
        have hk := pend 0 (by omega)
        rw [Nat.add_zero, ← hcs, hv] at hk
        injection hk with hk
        rw [hk, Nat.add_zero]
    · intro code hc
      exact freeR code (by omega)
    · intro code hc
      rw [List.find?_append, freeC code (by omega)]
      have : ((t.sc, t.su).1 == code) = false := by
        simp; omega
      simp [this]

theorem getElem?_append_left' (d : List Nat) (v code w : Nat) (h : d[code]? = some w) : (d ++ [v])[code]? = some w := by
  have := (List.getElem?_eq_some_iff.1 h).1
  rw [List.getElem?_append_left this]; exact h

/-- one step keeps the invariant, for every input: the run is closed before the last byte would wrap -/
theorem tinv_step (d : List Nat) (t : TU) (v : Nat) (h : TInv d t) : TInv (d ++ [v]) (tuStep t d.length v) := by
  have hfl := flush_spec d t h
  obtain ⟨len1, sc, pend, fit, done, freeR, freeC⟩ := h
  unfold tuStep
  by_cases hc : d.length = t.sc + t.len ∧ v = t.su + t.len ∧ v % 256 ≠ 0
  · rw [if_pos hc]
    obtain ⟨_, hv, hnz⟩ := hc
    refine ⟨by dsimp only; omega, by simp; omega, ?_, by dsimp only; omega, ?_, freeR, freeC⟩
    · intro k hk
      dsimp only at hk ⊢
      by_cases hkl : k < t.len
      · exact getElem?_append_left' d v _ _ (pend k hkl)
      · have : t.sc + k = d.length := by omega
        rw [this]; simp; omega
    · intro code w hcode hw
      dsimp only at hcode ⊢
      have hcl : code < d.length := by omega
      rw [List.getElem?_append_left hcl] at hw
      exact done code w hcode hw
  · rw [if_neg hc]
    refine ⟨by simp, by simp, ?_, by dsimp only; omega, ?_, ?_, ?_⟩
    · intro k hk
      dsimp only at hk ⊢
      have : k = 0 := by omega
      subst this; simp
    · intro code w hcode hw
      dsimp only at hcode ⊢
      rw [List.getElem?_append_left hcode] at hw
      exact hfl.1 code w hw
    · intro code hcode
      exact hfl.2.1 code hcode
    · intro code hcode
      exact hfl.2.2 code hcode

theorem tuLoop_spec : ∀ (vs d : List Nat) (t : TU), TInv d t → TInv (d ++ vs) (tuLoop t d.length vs) := by
  intro vs
  induction vs with
  | nil => intro d t h; simpa [tuLoop] using h
  | cons v vs ih =>
    intro d t h
    have := ih (d ++ [v]) (tuStep t d.length v) (tinv_step d t v h)
    simp only [tuLoop]
    have e : (d ++ [v]).length = d.length + 1 := by simp
    rw [e] at this
    simpa using this

theorem encodeTUP_spec (vs : List Nat) (code v : Nat) (hv : (0xFFFD :: vs)[code]? = some v) :
    tuRaw (encodeTUP vs).1 (encodeTUP vs).2 code = some (dst v) := by
  have h := tuLoop_spec vs [0xFFFD] TU.init tinv_init
  have := (flush_spec _ _ h).1 code v (by simpa using hv)
  simpa [encodeTUP] using this

theorem packed_getElem (us : List Nat) (k : Nat) (hk : k < us.length) :
    (0xFFFD :: us.map pack)[k + 1]? = some (pack us[k]) := by
  simp [hk]

end C18L
