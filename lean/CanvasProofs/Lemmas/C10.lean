import CanvasModel.Path
/-! Helper lemmas for C10: the well-formedness automaton and its preservation by every builder call. -/
set_option linter.unusedSectionVars false
set_option linter.unusedVariables false
set_option linter.unusedSimpArgs false
namespace Canvas.Path
variable {α : Type} [DecidableEq α] (G : Geo α) (near : Pt α → Pt α → Bool) (b : Bool)

/-- `moved s` or `opened s`: a subpath is open for drawing -/
def Ready (st : St α) : Prop := ∃ s, st = .moved s ∨ st = .opened s

theorem endState_cons (c : Cmd α) (cs : RPath α) :
    endState near b (c :: cs) = (endState near b cs).bind fun st => step near b st c := rfl

theorem endState_cons_some {c : Cmd α} {cs : RPath α} {st : St α}
    (h : endState near b (c :: cs) = some st) :
    ∃ st0, endState near b cs = some st0 ∧ step near b st0 c = some st := by
  rw [endState_cons] at h
  cases h0 : endState near b cs with
  | none => simp [h0] at h
  | some st0 => exact ⟨st0, rfl, by simpa [h0] using h⟩

theorem endState_cons_of {c : Cmd α} {cs : RPath α} {st0 st : St α}
    (h0 : endState near b cs = some st0) (h : step near b st0 c = some st) :
    endState near b (c :: cs) = some st := by
  rw [endState_cons, h0]; simpa using h

theorem step_move_iff {st st' : St α} {p : Pt α} :
    step near b st (.move p) = some st' ↔ st' = .moved p ∧ (b = true → ∀ s, st ≠ .moved s) := by
  cases st <;> cases b <;> simp [step] <;> exact eq_comm

theorem step_close_iff {st st' : St α} {c : Pt α} :
    step near b st (.close c) = some st' ↔
      st' = .closed ∧ ∃ s, (st = .opened s ∨ (st = .moved s ∧ b = false)) ∧ (c = s ∨ near c s = true) := by
  cases st <;> cases b <;> simp [step] <;> (constructor <;> rintro ⟨h1, h2⟩ <;> first | exact ⟨h2.symm, h1⟩ | exact ⟨h2, h1.symm⟩)

theorem step_draw_iff {st st' : St α} {c : Cmd α} (hc : c.isDraw = true) :
    step near b st c = some st' ↔ ∃ s, (st = .moved s ∨ st = .opened s) ∧ st' = .opened s := by
  cases c <;> simp [Cmd.isDraw] at hc <;> cases st <;> simp [step] <;> exact eq_comm

theorem cmd_trichotomy (c : Cmd α) :
    (∃ p, c = .move p) ∨ (∃ p, c = .close p) ∨ c.isDraw = true := by
  cases c <;> simp [Cmd.isDraw]

/-- what the state says about the newest command -/
theorem state_head {cs : RPath α} {st : St α} (h : endState near b cs = some st) :
    (st = .start → cs = []) ∧
    (∀ s, st = .moved s → ∃ rest, cs = .move s :: rest) ∧
    (∀ s, st = .opened s → ∃ c rest, cs = c :: rest ∧ c.isDraw = true) ∧
    (st = .closed → ∃ c rest, cs = .close c :: rest) := by
  cases cs with
  | nil => simp [endState] at h; subst h; simp
  | cons c rest =>
    obtain ⟨st0, _, hs⟩ := endState_cons_some near b h
    rcases cmd_trichotomy c with ⟨p, rfl⟩ | ⟨p, rfl⟩ | hc
    · rw [step_move_iff] at hs; obtain ⟨rfl, _⟩ := hs; simp
    · rw [step_close_iff] at hs; obtain ⟨rfl, _⟩ := hs; simp
    · rw [step_draw_iff near b hc] at hs; obtain ⟨s, _, rfl⟩ := hs; simp [hc]

theorem ready_of_draw_head {c : Cmd α} {rest : RPath α} {st : St α} (hc : c.isDraw = true)
    (h : endState near b (c :: rest) = some st) :
    (∃ s, st = .opened s) ∧ ∃ st0, endState near b rest = some st0 ∧ Ready st0 := by
  obtain ⟨st0, h0, hs⟩ := endState_cons_some near b h
  rw [step_draw_iff near b hc] at hs
  obtain ⟨s, hs0, rfl⟩ := hs
  exact ⟨⟨s, rfl⟩, st0, h0, s, hs0⟩

theorem step_draw {c : Cmd α} {st : St α} (hc : c.isDraw = true) (hr : Ready st) :
    ∃ s, step near b st c = some (.opened s) := by
  obtain ⟨s, hs⟩ := hr
  exact ⟨s, (step_draw_iff near b hc).2 ⟨s, hs, rfl⟩⟩

theorem startPos_draw {c : Cmd α} (hc : c.isDraw = true) (rest : RPath α) :
    startPos G (c :: rest) = startPos G rest := by
  cases c <;> simp [Cmd.isDraw] at hc <;> rfl

theorem startPos_of_state {cs : RPath α} :
    ∀ {st : St α}, endState near b cs = some st →
      ∀ s, (st = .moved s ∨ st = .opened s) → startPos G cs = s := by
  induction cs with
  | nil => intro st h s hs; simp [endState] at h; subst h; simp at hs
  | cons c rest ih =>
    intro st h s hs
    obtain ⟨st0, h0, hstep⟩ := endState_cons_some near b h
    rcases cmd_trichotomy c with ⟨p, rfl⟩ | ⟨p, rfl⟩ | hc
    · rw [step_move_iff] at hstep; obtain ⟨rfl, _⟩ := hstep
      simp at hs; simp [startPos, hs]
    · rw [step_close_iff] at hstep; obtain ⟨rfl, _⟩ := hstep; simp at hs
    · rw [step_draw_iff near b hc] at hstep
      obtain ⟨s', hs0, rfl⟩ := hstep
      simp at hs; subst hs
      rw [startPos_draw G hc]
      exact ih h0 _ hs0

theorem startPos_of_ready {cs : RPath α} {st : St α} (h : endState near b cs = some st) (hr : Ready st) :
    st = .moved (startPos G cs) ∨ st = .opened (startPos G cs) := by
  obtain ⟨s, hs⟩ := hr
  have := startPos_of_state G near b h s hs
  subst this; exact hs

/-- the implicit MoveTo makes every well-formed path ready for drawing -/
theorem prep_ready {cs : RPath α} {st : St α} (h : endState near b cs = some st) :
    ∃ st', endState near b (prep G cs) = some st' ∧ Ready st' := by
  have hh := state_head near b h
  cases st with
  | start =>
    have := hh.1 rfl; subst this
    exact ⟨.moved G.origin, by simp [prep, endState, step], _, Or.inl rfl⟩
  | moved s =>
    obtain ⟨rest, hr⟩ := hh.2.1 s rfl; subst hr
    exact ⟨_, by simpa [prep] using h, s, Or.inl rfl⟩
  | opened s =>
    obtain ⟨c, rest, hr, hc⟩ := hh.2.2.1 s rfl; subst hr
    refine ⟨_, ?_, s, Or.inr rfl⟩
    cases c <;> simp [Cmd.isDraw] at hc <;> simpa [prep] using h
  | closed =>
    obtain ⟨c, rest, hr⟩ := hh.2.2.2 rfl; subst hr
    refine ⟨.moved c, ?_, c, Or.inl rfl⟩
    simp only [prep]
    exact endState_cons_of near b h (by simp [step])

/-- appending a drawing command after the implicit MoveTo keeps the path well-formed (and strict) -/
theorem draw_prep {cs : RPath α} {st : St α} (h : endState near b cs = some st) {c : Cmd α}
    (hc : c.isDraw = true) : ∃ s, endState near b (c :: prep G cs) = some (.opened s) := by
  obtain ⟨st', h', hr⟩ := prep_ready G near b h
  obtain ⟨s, hs⟩ := step_draw near b hc hr
  exact ⟨s, endState_cons_of near b h' hs⟩

theorem moveTo_state {cs : RPath α} {st : St α} (h : endState near b cs = some st) (p : Pt α) :
    endState near b (moveTo p cs) = some (.moved p) := by
  cases cs with
  | nil => simp [endState] at h; subst h; simp [moveTo, endState, step]
  | cons c rest =>
    obtain ⟨st0, h0, hs⟩ := endState_cons_some near b h
    rcases cmd_trichotomy c with ⟨q, rfl⟩ | ⟨q, rfl⟩ | hc
    · simp only [moveTo]
      apply endState_cons_of near b h0
      rw [step_move_iff] at hs ⊢
      exact ⟨rfl, hs.2⟩
    · simp only [moveTo]
      apply endState_cons_of near b h
      rw [step_close_iff] at hs; obtain ⟨rfl, _⟩ := hs
      rw [step_move_iff]; simp
    · have : moveTo p (c :: rest) = .move p :: c :: rest := by
        cases c <;> simp [Cmd.isDraw] at hc <;> rfl
      rw [this]
      apply endState_cons_of near b h
      rw [step_draw_iff near b hc] at hs; obtain ⟨s, _, rfl⟩ := hs
      rw [step_move_iff]; simp

/-- `Ok cs`: well-formed in the given mode -/
abbrev Ok (cs : RPath α) : Prop := ∃ st, endState near b cs = some st

/-- a drawing call either leaves the path alone or ends with a drawn segment -/
def DrawRes (st st' : St α) : Prop := st' = st ∨ ∃ s, st' = .opened s

theorem lineTo_res {cs : RPath α} {st : St α} (h : endState near b cs = some st) (p : Pt α) :
    ∃ st', endState near b (lineTo G p cs) = some st' ∧ DrawRes st st' := by
  unfold lineTo
  split
  · exact ⟨st, h, Or.inl rfl⟩
  · split
    · rename_i s rest hne
      obtain ⟨_, st0, h0, hr⟩ := ready_of_draw_head near b (c := .line s) rfl h
      dsimp only
      split
      · obtain ⟨s', hs'⟩ := step_draw near b (c := .line p) rfl hr
        exact ⟨_, endState_cons_of near b h0 hs', Or.inr ⟨_, rfl⟩⟩
      · obtain ⟨⟨s1, hs1⟩, _⟩ := ready_of_draw_head near b (c := .line s) rfl h
        subst hs1
        exact ⟨.opened s1, endState_cons_of near b h (by simp [step]), Or.inr ⟨_, rfl⟩⟩
    · obtain ⟨s, hs⟩ := draw_prep G near b h (c := .line p) rfl
      exact ⟨_, hs, Or.inr ⟨_, rfl⟩⟩

theorem quadTo_res {cs : RPath α} {st : St α} (h : endState near b cs = some st) (cp p : Pt α) :
    ∃ st', endState near b (quadTo G cp p cs) = some st' ∧ DrawRes st st' := by
  unfold quadTo
  simp only
  split
  · exact ⟨st, h, Or.inl rfl⟩
  · split
    · exact lineTo_res G near b h p
    · obtain ⟨s, hs⟩ := draw_prep G near b h (c := .quad cp p) rfl
      exact ⟨_, hs, Or.inr ⟨_, rfl⟩⟩

theorem cubeTo_res {cs : RPath α} {st : St α} (h : endState near b cs = some st) (c1 c2 p : Pt α) :
    ∃ st', endState near b (cubeTo G c1 c2 p cs) = some st' ∧ DrawRes st st' := by
  unfold cubeTo
  simp only
  split
  · exact ⟨st, h, Or.inl rfl⟩
  · split
    · exact lineTo_res G near b h p
    · obtain ⟨s, hs⟩ := draw_prep G near b h (c := .cube c1 c2 p) rfl
      exact ⟨_, hs, Or.inr ⟨_, rfl⟩⟩

theorem arcTo_res {cs : RPath α} {st : St α} (h : endState near b cs = some st) (rx ry rot : α)
    (l sw : Bool) (p : Pt α) :
    ∃ st', endState near b (arcTo G rx ry rot l sw p cs) = some st' ∧ DrawRes st st' := by
  unfold arcTo
  simp only
  split
  · exact ⟨st, h, Or.inl rfl⟩
  · split
    · exact lineTo_res G near b h p
    · obtain ⟨s, hs⟩ := draw_prep G near b h (c := .arc _ _ _ l sw p) rfl
      exact ⟨_, hs, Or.inr ⟨_, rfl⟩⟩

theorem lineTo_ok {cs : RPath α} (h : Ok near b cs) (p : Pt α) : Ok near b (lineTo G p cs) := by
  obtain ⟨st, h⟩ := h; obtain ⟨st', h', _⟩ := lineTo_res G near b h p; exact ⟨st', h'⟩

theorem quadTo_ok {cs : RPath α} (h : Ok near b cs) (cp p : Pt α) : Ok near b (quadTo G cp p cs) := by
  obtain ⟨st, h⟩ := h; obtain ⟨st', h', _⟩ := quadTo_res G near b h cp p; exact ⟨st', h'⟩

theorem cubeTo_ok {cs : RPath α} (h : Ok near b cs) (c1 c2 p : Pt α) : Ok near b (cubeTo G c1 c2 p cs) := by
  obtain ⟨st, h⟩ := h; obtain ⟨st', h', _⟩ := cubeTo_res G near b h c1 c2 p; exact ⟨st', h'⟩

theorem arcTo_ok {cs : RPath α} (h : Ok near b cs) (rx ry rot : α) (l sw : Bool) (p : Pt α) :
    Ok near b (arcTo G rx ry rot l sw p cs) := by
  obtain ⟨st, h⟩ := h; obtain ⟨st', h', _⟩ := arcTo_res G near b h rx ry rot l sw p; exact ⟨st', h'⟩

theorem arcBy_ok {cs : RPath α} (h : Ok near b cs) (rx ry rot t0 t1 : α) :
    Ok near b (arcBy G rx ry rot t0 t1 cs) := by
  unfold arcBy
  simp only
  split
  · split
    · exact arcTo_ok G near b (arcTo_ok G near b h ..) ..
    · exact arcTo_ok G near b (arcTo_ok G near b (arcTo_ok G near b h ..) ..) ..
  · exact arcTo_ok G near b h ..

/-- closing an opened subpath at its start point -/
theorem close_opened {cs : RPath α} {st : St α} (h : endState near b cs = some st)
    (hs : ∃ s, st = .opened s) : endState near b (.close (startPos G cs) :: cs) = some .closed := by
  obtain ⟨s, rfl⟩ := hs
  have := startPos_of_state G near b h s (Or.inr rfl)
  apply endState_cons_of near b h
  rw [step_close_iff]
  exact ⟨rfl, s, Or.inl rfl, Or.inl this⟩

theorem close_ok_weak {cs : RPath α} (h : Ok G.ptEq false cs) : Ok G.ptEq false (close G cs) := by
  obtain ⟨st, h⟩ := h
  unfold close
  split
  · exact ⟨_, rfl⟩
  · exact ⟨st, h⟩
  · obtain ⟨st0, h0, _⟩ := endState_cons_some _ _ h
    split
    · exact ⟨st0, h0⟩
    · exact ⟨st, h⟩
  · rename_i s rest
    obtain ⟨hop, st0, h0, hr⟩ := ready_of_draw_head _ _ (c := .line s) rfl h
    have hsp : startPos G (.line s :: rest) = startPos G rest := rfl
    have hst := startPos_of_ready G _ _ h0 hr
    dsimp only
    split
    · rename_i hpt
      refine ⟨.closed, endState_cons_of _ _ h0 ?_⟩
      rw [step_close_iff]
      refine ⟨rfl, startPos G rest, ?_, Or.inr (by simpa [hsp] using hpt)⟩
      rcases hst with hst | hst <;> simp [hst]
    · split
      · refine ⟨.closed, endState_cons_of _ _ h0 ?_⟩
        rw [step_close_iff]
        refine ⟨rfl, startPos G rest, ?_, Or.inl hsp⟩
        rcases hst with hst | hst <;> simp [hst]
      · exact ⟨_, close_opened G _ _ h hop⟩
  · rename_i hnil hclose hmove hline
    have hh := state_head _ _ h
    cases st with
    | start => exact absurd (hh.1 rfl) hnil
    | moved s => obtain ⟨rest, hr⟩ := hh.2.1 s rfl; exact absurd hr (hmove _ _)
    | closed => obtain ⟨c, rest, hr⟩ := hh.2.2.2 rfl; exact absurd hr (hclose _ _)
    | opened s => exact ⟨_, close_opened G _ _ h ⟨s, rfl⟩⟩

/-! ### Join / Append (weak mode) -/

/-- forward run of the automaton over a list in array order -/
def runF (st : St α) : List (Cmd α) → Option (St α)
  | [] => some st
  | c :: t => (step near b st c).bind fun st' => runF st' t

theorem endState_rev_append (l : List (Cmd α)) : ∀ base : RPath α,
    endState near b (l.reverse ++ base) = (endState near b base).bind fun st => runF near b st l := by
  induction l with
  | nil => intro base; simp [runF]
  | cons c t ih =>
    intro base
    have : (c :: t).reverse ++ base = t.reverse ++ (c :: base) := by simp
    rw [this, ih, endState_cons]
    cases endState near b base <;> simp [runF]

theorem runF_from_any {qf : List (Cmd α)} {st1 : St α} (hne : qf ≠ [])
    (h : runF near false .start qf = some st1) (st : St α) : runF near false st qf = some st1 := by
  cases qf with
  | nil => exact absurd rfl hne
  | cons c t =>
    rcases cmd_trichotomy c with ⟨a, rfl⟩ | ⟨a, rfl⟩ | hc
    · cases st <;> simpa [runF, step] using h
    · simp [runF, step] at h
    · cases c <;> simp [Cmd.isDraw] at hc <;> simp [runF, step] at h

/-- raw concatenation of two well-formed arrays is well-formed (consecutive MoveTos allowed) -/
theorem ok_concat_weak {p q : RPath α} (hp : Ok near false p) (hq : Ok near false q) :
    Ok near false (q ++ p) := by
  obtain ⟨sp, hp⟩ := hp
  obtain ⟨sq, hq⟩ := hq
  have hq' : q = q.reverse.reverse := by simp
  by_cases hne : q.reverse = []
  · have : q = [] := by simpa using hne
    subst this; exact ⟨sp, by simpa using hp⟩
  · show ∃ st, endState near false (q ++ p) = some st
    rw [hq', endState_rev_append, hp]
    rw [hq'] at hq
    have := endState_rev_append near false q.reverse []
    rw [List.append_nil] at this
    rw [this] at hq
    simp [endState] at hq
    exact ⟨sq, by simpa using runF_from_any near hne hq sp⟩

theorem dropTrailingMove_ok {cs : RPath α} (h : Ok near b cs) : Ok near b (dropTrailingMove cs) := by
  cases cs with
  | nil => exact h
  | cons c rest =>
    cases c with
    | move p =>
      obtain ⟨st, h⟩ := h
      obtain ⟨st0, h0, _⟩ := endState_cons_some near b h
      exact ⟨st0, h0⟩
    | _ => exact h

theorem append_ok_weak {p q : RPath α} (hp : Ok near false p) (hq : Ok near false q) :
    Ok near false (append p q) := by
  unfold append
  have hp0 : Ok near false (if isEmpty p = true then [] else p) := by
    split
    · exact ⟨_, rfl⟩
    · exact hp
  simp only
  split
  · exact hp0
  · exact ok_concat_weak near (dropTrailingMove_ok near false hp0) hq

theorem runF_cons_some {st r : St α} {c : Cmd α} {t : List (Cmd α)}
    (h : runF near b st (c :: t) = some r) : ∃ st2, step near b st c = some st2 ∧ runF near b st2 t = some r := by
  simp only [runF] at h
  cases h0 : step near b st c with
  | none => simp [h0] at h
  | some st2 => exact ⟨st2, rfl, by simpa [h0] using h⟩

theorem repairClose_draw {c : Cmd α} (hc : c.isDraw = true) (e : Pt α) (t : List (Cmd α)) :
    repairClose e (c :: t) = c :: repairClose e t := by
  cases c <;> simp [Cmd.isDraw] at hc <;> rfl

theorem repair_run {l : List (Cmd α)} : ∀ {st st' : St α} {s' : Pt α},
    Ready st → (st' = .moved s' ∨ st' = .opened s') →
    (∃ r, runF near false st l = some r) → ∃ r, runF near false st' (repairClose s' l) = some r := by
  induction l with
  | nil => intro st st' s' _ _ _; exact ⟨st', rfl⟩
  | cons c t ih =>
    intro st st' s' hr hs' ⟨r, hrun⟩
    rcases cmd_trichotomy c with ⟨a, rfl⟩ | ⟨a, rfl⟩ | hc
    · refine ⟨r, ?_⟩
      obtain ⟨s, hs | hs⟩ := hr <;> subst hs <;> rcases hs' with hs' | hs' <;> subst hs' <;>
        simpa [repairClose, runF, step] using hrun
    · refine ⟨r, ?_⟩
      obtain ⟨st2, h2, hrest⟩ := runF_cons_some near false hrun
      rw [step_close_iff] at h2
      obtain ⟨rfl, _⟩ := h2
      have h3 : step near false st' (.close s') = some .closed := by
        rw [step_close_iff]
        refine ⟨rfl, s', ?_, Or.inl rfl⟩
        rcases hs' with hs' | hs' <;> simp [hs']
      simp only [repairClose, runF, h3, Option.bind_some]
      exact hrest
    · rw [repairClose_draw hc]
      obtain ⟨s, hs⟩ := hr
      have h1 : step near false st c = some (.opened s) := (step_draw_iff near false hc).2 ⟨s, hs, rfl⟩
      have h2 : step near false st' c = some (.opened s') := (step_draw_iff near false hc).2 ⟨s', hs', rfl⟩
      simp only [runF, h1, h2, Option.bind_some] at hrun ⊢
      exact ih ⟨s, Or.inr rfl⟩ (Or.inr rfl) ⟨r, hrun⟩

theorem applyCmd_ok_weak {cs : RPath α} (h : Ok G.ptEq false cs) (c : Cmd α) :
    Ok G.ptEq false (applyCmd G c cs) := by
  cases c with
  | move p => obtain ⟨st, h⟩ := h; exact ⟨_, moveTo_state _ _ h p⟩
  | line p => exact lineTo_ok G _ _ h p
  | quad cp p => exact quadTo_ok G _ _ h cp p
  | cube c1 c2 p => exact cubeTo_ok G _ _ h c1 c2 p
  | arc rx ry phi l s p => exact arcTo_ok G _ _ h ..
  | close p => exact close_ok_weak G h

theorem applyCmd_draw_res {cs : RPath α} {st : St α} (h : endState near b cs = some st) {c : Cmd α}
    (hc : c.isDraw = true) : ∃ st', endState near b (applyCmd G c cs) = some st' ∧ DrawRes st st' := by
  cases c with
  | move p => simp [Cmd.isDraw] at hc
  | close p => simp [Cmd.isDraw] at hc
  | line p => exact lineTo_res G near b h p
  | quad cp p => exact quadTo_res G near b h cp p
  | cube c1 c2 p => exact cubeTo_res G near b h c1 c2 p
  | arc rx ry phi l s p => exact arcTo_res G near b h ..

theorem join_ok_weak {p q : RPath α} (hp : Ok G.ptEq false p) (hq : Ok G.ptEq false q) :
    Ok G.ptEq false (join G p q) := by
  unfold join
  split
  · exact hp
  · split
    · exact hq
    · rename_i hqe hpe
      split
      · rename_i m c1 restf hrev
        split
        · exact ok_concat_weak _ hp hq
        · rename_i hcond
          simp only [Bool.or_eq_true, not_or, Bool.not_eq_true] at hcond
          have hqeq : q = restf.reverse ++ [c1, m] := by
            have := congrArg List.reverse hrev
            simpa using this
          obtain ⟨sq, hq⟩ := hq
          rw [hqeq, endState_rev_append] at hq
          -- the first two records of q
          cases h2 : endState G.ptEq false [c1, m] with
          | none => simp [h2] at hq
          | some st1 =>
            simp only [h2, Option.bind_some] at hq
            obtain ⟨stm, hm, hc1⟩ := endState_cons_some _ _ h2
            obtain ⟨sp, hp⟩ := hp
            -- p is neither empty nor closed: it is ready
            have hpr : Ready sp := by
              have hh := state_head _ _ hp
              cases sp with
              | start => have := hh.1 rfl; subst this; simp [isEmpty] at hpe
              | closed =>
                obtain ⟨c, rest, hr⟩ := hh.2.2.2 rfl; subst hr; simp [headIsClose] at hcond
              | moved s => exact ⟨s, Or.inl rfl⟩
              | opened s => exact ⟨s, Or.inr rfl⟩
            dsimp only
            show ∃ st, endState G.ptEq false ((repairClose (startPos G (applyCmd G c1 p)) restf).reverse ++ applyCmd G c1 p) = some st
            rw [endState_rev_append]
            rcases cmd_trichotomy c1 with ⟨a, rfl⟩ | ⟨a, rfl⟩ | hc
            · -- q = M M …
              rw [step_move_iff] at hc1
              obtain ⟨rfl, _⟩ := hc1
              have hp' := moveTo_state G.ptEq false hp a
              have he : startPos G (applyCmd G (.move a) p) = a :=
                startPos_of_state G _ _ hp' a (Or.inl rfl)
              simp only [applyCmd] at he ⊢
              rw [hp', he]
              simp only [Option.bind_some]
              exact repair_run _ ⟨a, Or.inl rfl⟩ (Or.inl rfl) ⟨sq, hq⟩
            · -- q = M Z …
              rw [step_close_iff] at hc1
              obtain ⟨rfl, _⟩ := hc1
              obtain ⟨st', hp'⟩ := close_ok_weak G ⟨sp, hp⟩
              simp only [applyCmd]
              rw [hp']
              simp only [Option.bind_some]
              cases restf with
              | nil => exact ⟨st', rfl⟩
              | cons c t =>
                rcases cmd_trichotomy c with ⟨a', rfl⟩ | ⟨a', rfl⟩ | hc'
                · refine ⟨sq, ?_⟩
                  cases st' <;> simpa [repairClose, runF, step] using hq
                · simp [runF, step] at hq
                · cases c <;> simp [Cmd.isDraw] at hc' <;> simp [runF, step] at hq
            · -- the ordinary case: q = M (L|Q|C|A) …
              rw [step_draw_iff _ _ hc] at hc1
              obtain ⟨s1, _, rfl⟩ := hc1
              obtain ⟨st', hp', hres⟩ := applyCmd_draw_res G _ _ hp hc
              rw [hp']
              simp only [Option.bind_some]
              have hr' : Ready st' := by
                rcases hres with rfl | ⟨s, rfl⟩
                · exact hpr
                · exact ⟨s, Or.inr rfl⟩
              exact repair_run _ ⟨s1, Or.inr rfl⟩ (startPos_of_ready G _ _ hp' hr') ⟨sq, hq⟩
      · exact ok_concat_weak _ hp hq

/-! ### optimizeClose -/

theorem lastSubpath_spec : ∀ (body : RPath α) (acc sub : List (Cmd α)) (older : RPath α),
    lastSubpath body acc = (sub, older) →
    (∃ p front, body = front ++ .move p :: older ∧ (∀ c ∈ front, c.isMove = false) ∧
        sub = .move p :: (front.reverse ++ acc)) ∨
    (sub = body.reverse ++ acc ∧ ∀ c ∈ body, c.isMove = false) := by
  intro body
  induction body with
  | nil => intro acc sub older h; simp [lastSubpath] at h; right; simp [h.1]
  | cons c rest ih =>
    intro acc sub older h
    by_cases hm : c.isMove = true
    · obtain ⟨p, rfl⟩ : ∃ p, c = .move p := by cases c <;> simp [Cmd.isMove] at hm; exact ⟨_, rfl⟩
      simp [lastSubpath] at h
      left; exact ⟨p, [], by simp [h.2], by simp, by simp [h.1]⟩
    · have hstep : lastSubpath (c :: rest) acc = lastSubpath rest (c :: acc) := by
        cases c <;> simp [Cmd.isMove] at hm <;> rfl
      rw [hstep] at h
      rcases ih _ _ _ h with ⟨p, front, hb, hf, hs⟩ | ⟨hs, hf⟩
      · left
        refine ⟨p, c :: front, by simp [hb], ?_, by simp [hs]⟩
        intro c' hc'
        rcases List.mem_cons.1 hc' with rfl | hc'
        · simpa using hm
        · exact hf _ hc'
      · right
        refine ⟨by simp [hs], ?_⟩
        intro c' hc'
        rcases List.mem_cons.1 hc' with rfl | hc'
        · simpa using hm
        · exact hf _ hc'

/-- a run without MoveTo that ends ready for a Close consists of drawing commands only, so it can be
replayed from any other ready state -/
theorem runF_draws : ∀ (l : List (Cmd α)) (st r : St α), (∀ c ∈ l, c.isMove = false) →
    runF near b st l = some r → Ready r → Ready st →
    ∀ st2 s2, (st2 = .moved s2 ∨ st2 = .opened s2) → l ≠ [] → runF near b st2 l = some (.opened s2) := by
  intro l
  induction l with
  | nil => intro st r _ _ _ _ st2 s2 _ hne; exact absurd rfl hne
  | cons c t ih =>
    intro st r hnm hrun hr hst st2 s2 hs2 _
    obtain ⟨st1, h1, hrest⟩ := runF_cons_some near b hrun
    rcases cmd_trichotomy c with ⟨a, rfl⟩ | ⟨a, rfl⟩ | hc
    · have := hnm _ (List.mem_cons_self ..); simp [Cmd.isMove] at this
    · rw [step_close_iff] at h1
      obtain ⟨rfl, _⟩ := h1
      cases t with
      | nil => simp [runF] at hrest; subst hrest; obtain ⟨s, hs | hs⟩ := hr <;> simp at hs
      | cons c' t' =>
        have hc' := hnm c' (by simp)
        obtain ⟨st3, h3, _⟩ := runF_cons_some near b hrest
        rcases cmd_trichotomy c' with ⟨a', rfl⟩ | ⟨a', rfl⟩ | hd
        · simp [Cmd.isMove] at hc'
        · rw [step_close_iff] at h3; obtain ⟨_, s, hs, _⟩ := h3; simp at hs
        · rw [step_draw_iff near b hd] at h3; obtain ⟨s, hs, _⟩ := h3; simp at hs
    · rw [step_draw_iff near b hc] at h1
      obtain ⟨s, _, rfl⟩ := h1
      have h2 : step near b st2 c = some (.opened s2) := (step_draw_iff near b hc).2 ⟨s2, hs2, rfl⟩
      simp only [runF, h2, Option.bind_some]
      by_cases hne : t = []
      · subst hne; rfl
      · exact ih _ r (fun c' hc' => hnm c' (List.mem_cons_of_mem _ hc')) hrest hr ⟨s, Or.inr rfl⟩ _ s2
          (Or.inr rfl) hne

theorem optimizeClose_ok {cs : RPath α} (h : Ok near b cs) : Ok near b (optimizeClose G cs) := by
  unfold optimizeClose
  split
  · rename_i c body
    split
    · rename_i e n mid older hls
      split
      · exact h
      · rename_i m0 mid'
        split
        · -- the rewrite happens
          rcases lastSubpath_spec body [] _ _ hls with ⟨p, front, hb, hf, hs⟩ | ⟨hs, hf⟩
          · simp only [List.append_nil, List.cons.injEq, Cmd.move.injEq] at hs
            obtain ⟨rfl, hfr⟩ := hs
            have hfront : front = (m0 :: mid').reverse ++ [.line n] := by
              have := congrArg List.reverse hfr
              simpa using this.symm
            subst hfront
            obtain ⟨st, h⟩ := h
            obtain ⟨r, hbody, hclose⟩ := endState_cons_some near b h
            have hb' : body = (m0 :: mid').reverse ++ (.line n :: .move e :: older) := by
              rw [hb]; simp
            rw [hb', endState_rev_append] at hbody
            cases hbase : endState near b (.line n :: .move e :: older) with
            | none => simp [hbase] at hbody
            | some stb =>
              simp only [hbase, Option.bind_some] at hbody
              obtain ⟨⟨s1, rfl⟩, stm, hmove, _⟩ := ready_of_draw_head near b (c := .line n) rfl hbase
              obtain ⟨sto, hold, hstepm⟩ := endState_cons_some near b hmove
              rw [step_move_iff] at hstepm
              have hr : Ready r := by
                rw [step_close_iff] at hclose
                obtain ⟨_, s, hs | ⟨hs, _⟩, _⟩ := hclose
                · exact ⟨s, Or.inr hs⟩
                · exact ⟨s, Or.inl hs⟩
              have hnm : ∀ c ∈ (m0 :: mid'), c.isMove = false := by
                intro c hc
                exact hf c (by simp only [List.mem_append, List.mem_reverse]; exact Or.inl hc)
              have hrun := runF_draws near b _ _ r hnm hbody hr ⟨s1, Or.inr rfl⟩ (.moved n) n (Or.inl rfl)
                (by simp)
              refine ⟨.closed, ?_⟩
              apply endState_cons_of near b (st0 := .opened n)
              · rw [endState_rev_append]
                have : endState near b (.move n :: older) = some (.moved n) :=
                  endState_cons_of near b hold ((step_move_iff near b).2 ⟨rfl, hstepm.2⟩)
                rw [this]
                simpa using hrun
              · rw [step_close_iff]
                exact ⟨rfl, n, Or.inl rfl, Or.inl rfl⟩
          · -- no MoveTo at all: the first element of `sub` would be a MoveTo of `body`
            exfalso
            have : Cmd.move e ∈ body := by
              have : Cmd.move e ∈ body.reverse := by
                have h1 : body.reverse = .move e :: .line n :: m0 :: mid' := by simpa using hs.symm
                rw [h1]; simp
              simpa using this
            have := hf _ this
            simp [Cmd.isMove] at this
        · exact h
    · exact h
  · exact h

/-! ### the declarative framing -/

def stateOf (G : Geo α) : RPath α → St α
  | [] => .start
  | .move p :: _ => .moved p
  | .close _ :: _ => .closed
  | _ :: rest => .opened (startPos G rest)

theorem state_eq (G : Geo α) (near : Pt α → Pt α → Bool) {cs : RPath α} {st : St α}
    (h : endState near false cs = some st) : st = stateOf G cs := by
  have hh := state_head near false h
  cases st with
  | start => rw [hh.1 rfl]; rfl
  | moved s => obtain ⟨rest, rfl⟩ := hh.2.1 s rfl; rfl
  | closed => obtain ⟨c, rest, rfl⟩ := hh.2.2.2 rfl; rfl
  | opened s =>
    obtain ⟨c, rest, rfl, hc⟩ := hh.2.2.1 s rfl
    have := startPos_of_state G near false h s (Or.inr rfl)
    rw [startPos_draw G hc] at this
    cases c <;> simp [Cmd.isDraw] at hc <;> simp [stateOf, this]

theorem framed_cons (G : Geo α) (near : Pt α → Pt α → Bool) (c : Cmd α) (cs : RPath α) :
    Framed G near (c :: cs) ↔ Framed G near cs ∧
      ((cs = [] → c.isMove = true) ∧ (∀ a rest, cs = a :: rest → a.isClose = true → c.isMove = true) ∧
       (∀ p, c = .close p → p = startPos G cs ∨ near p (startPos G cs) = true)) := by
  unfold Framed
  constructor
  · rintro ⟨h1, h2, h3⟩
    refine ⟨⟨?_, ?_, ?_⟩, ?_, ?_, ?_⟩
    · intro c' hc'
      cases cs with
      | nil => simp at hc'
      | cons a rest => exact h1 c' (by simpa [List.getLast?_cons_cons] using hc')
    · intro a b' rest hs; exact h2 a b' rest (List.suffix_cons_iff.2 (Or.inr hs))
    · intro c' rest hs; exact h3 c' rest (List.suffix_cons_iff.2 (Or.inr hs))
    · intro hnil; subst hnil; exact h1 c (by simp)
    · intro a rest hcs; subst hcs; exact h2 a c rest (List.suffix_refl _)
    · intro p hp; subst hp; exact h3 p cs (List.suffix_refl _)
  · rintro ⟨⟨h1, h2, h3⟩, l1, l2, l3⟩
    refine ⟨?_, ?_, ?_⟩
    · intro c' hc'
      cases cs with
      | nil => simp at hc'; subst hc'; exact l1 rfl
      | cons a rest => exact h1 c' (by simpa [List.getLast?_cons_cons] using hc')
    · intro a b' rest hs
      rcases List.suffix_cons_iff.1 hs with heq | hs
      · simp only [List.cons.injEq] at heq; obtain ⟨rfl, rfl⟩ := heq; exact l2 a rest rfl
      · exact h2 a b' rest hs
    · intro c' rest hs
      rcases List.suffix_cons_iff.1 hs with heq | hs
      · simp only [List.cons.injEq] at heq; obtain ⟨rfl, rfl⟩ := heq; exact l3 c' rfl
      · exact h3 c' rest hs


/-! ### strict mode and zero-length segments -/

theorem pos_prep (cs : RPath α) : pos G (prep G cs) = pos G cs := by
  cases cs with
  | nil => rfl
  | cons c rest => cases c <;> rfl

theorem nz_prep {cs : RPath α} (h : noZero G cs = true) : noZero G (prep G cs) = true := by
  cases cs with
  | nil => simp [prep, noZero, nonzero]
  | cons c rest => cases c <;> simp_all [prep, noZero, nonzero]

theorem nz_moveTo {cs : RPath α} (h : noZero G cs = true) (p : Pt α) : noZero G (moveTo p cs) = true := by
  cases cs with
  | nil => simp [moveTo, noZero, nonzero]
  | cons c rest => cases c <;> simp_all [moveTo, noZero, nonzero]

theorem nz_push {cs : RPath α} (h : noZero G cs = true) {c : Cmd α}
    (hc : nonzero G (pos G cs) c = true) : noZero G (c :: prep G cs) = true := by
  simp [noZero, pos_prep, hc, nz_prep G h]

theorem nz_lineTo (hM : MergeSound G) {cs : RPath α} (h : noZero G cs = true) (p : Pt α) :
    noZero G (lineTo G p cs) = true := by
  unfold lineTo
  split
  · exact h
  · rename_i hne
    have hne' : G.ptEq (pos G cs) p = false := by simpa using hne
    split
    · rename_i s rest
      simp only [noZero, nonzero, Bool.and_eq_true, Bool.not_eq_true'] at h
      dsimp only
      split
      · rename_i hm
        simp only [Bool.and_eq_true] at hm
        have := hM (pos G rest) s p h.1 (by simpa [pos, Cmd.endp] using hne') hm.1 hm.2
        simp [noZero, nonzero, this, h.2]
      · simp only [noZero, nonzero, Bool.and_eq_true, Bool.not_eq_true', pos, Cmd.endp]
        exact ⟨by simpa [pos, Cmd.endp] using hne', h.1, h.2⟩
    · exact nz_push G h (by simp [nonzero, hne'])

theorem nz_quadTo (hM : MergeSound G) {cs : RPath α} (h : noZero G cs = true) (cp p : Pt α) :
    noZero G (quadTo G cp p cs) = true := by
  unfold quadTo
  simp only
  split
  · exact h
  · rename_i h1
    split
    · exact nz_lineTo G hM h p
    · exact nz_push G h (by
        cases hA : G.ptEq (pos G cs) p <;> cases hB : G.ptEq (pos G cs) cp <;> simp_all [nonzero])

theorem nz_cubeTo (hM : MergeSound G) {cs : RPath α} (h : noZero G cs = true) (c1 c2 p : Pt α) :
    noZero G (cubeTo G c1 c2 p cs) = true := by
  unfold cubeTo
  simp only
  split
  · exact h
  · rename_i h1
    split
    · exact nz_lineTo G hM h p
    · exact nz_push G h (by
        cases hA : G.ptEq (pos G cs) p <;> cases hB : G.ptEq (pos G cs) c1 <;>
          cases hC : G.ptEq (pos G cs) c2 <;> simp_all [nonzero])

theorem nz_arcTo (hM : MergeSound G) {cs : RPath α} (h : noZero G cs = true) (rx ry rot : α) (l sw : Bool)
    (p : Pt α) : noZero G (arcTo G rx ry rot l sw p cs) = true := by
  unfold arcTo
  simp only
  split
  · exact h
  · rename_i h1
    split
    · exact nz_lineTo G hM h p
    · exact nz_push G h (by simpa [nonzero] using h1)

theorem nz_arcBy (hM : MergeSound G) {cs : RPath α} (h : noZero G cs = true) (rx ry rot t0 t1 : α) :
    noZero G (arcBy G rx ry rot t0 t1 cs) = true := by
  unfold arcBy
  simp only
  split
  · split
    · exact nz_arcTo G hM (nz_arcTo G hM h ..) ..
    · exact nz_arcTo G hM (nz_arcTo G hM (nz_arcTo G hM h ..) ..) ..
  · exact nz_arcTo G hM h ..

theorem nz_close {cs : RPath α} (h : noZero G cs = true) : noZero G (close G cs) = true := by
  unfold close
  split
  · rfl
  · exact h
  · split
    · simp only [noZero, Bool.and_eq_true] at h; exact h.2
    · exact h
  · rename_i s rest
    have h2 : noZero G rest = true := by simp only [noZero, Bool.and_eq_true] at h; exact h.2
    dsimp only
    split
    · simp [noZero, nonzero, h2]
    · split
      · simp [noZero, nonzero, h2]
      · simp only [noZero, nonzero, Bool.true_and]; exact h
  · simp only [noZero, nonzero, Bool.true_and]; exact h

/-- Close in strict mode: with a sane oracle and no zero-length first line a Close never lands
directly on a MoveTo -/
theorem close_ok_strict (hS : Sane G) {cs : RPath α} (h : Ok G.ptEq true cs) (hz : noZero G cs = true) :
    Ok G.ptEq true (close G cs) := by
  obtain ⟨st, h⟩ := h
  unfold close
  split
  · exact ⟨_, rfl⟩
  · exact ⟨st, h⟩
  · obtain ⟨st0, h0, _⟩ := endState_cons_some _ _ h
    split
    · exact ⟨st0, h0⟩
    · exact ⟨st, h⟩
  · rename_i s rest
    obtain ⟨hop, st0, h0, hr⟩ := ready_of_draw_head _ _ (c := .line s) rfl h
    have hsp : startPos G (.line s :: rest) = startPos G rest := rfl
    have hst := startPos_of_ready G _ _ h0 hr
    have hnz : G.ptEq (pos G rest) s = false := by
      simp only [noZero, nonzero, Bool.and_eq_true, Bool.not_eq_true'] at hz; exact hz.1
    -- if the line directly follows the MoveTo, the pen before it is the subpath start
    have hmoved : st0 = .moved (startPos G rest) → pos G rest = startPos G rest := by
      intro hm
      obtain ⟨r, hr'⟩ := (state_head _ _ h0).2.1 _ hm
      rw [hr']; rfl
    dsimp only
    split
    · rename_i hpt
      refine ⟨.closed, endState_cons_of _ _ h0 ?_⟩
      rw [step_close_iff]
      refine ⟨rfl, startPos G rest, ?_, Or.inr (by simpa [hsp] using hpt)⟩
      rcases hst with hst | hst
      · exfalso
        rw [hsp, hS.ptEq_symm, ← hmoved hst, hnz] at hpt
        exact Bool.false_ne_true hpt
      · exact Or.inl hst
    · split
      · rename_i hang
        refine ⟨.closed, endState_cons_of _ _ h0 ?_⟩
        rw [step_close_iff]
        refine ⟨rfl, startPos G rest, ?_, Or.inl hsp⟩
        rcases hst with hst | hst
        · exfalso
          rw [hsp, hmoved hst] at hang
          have := hS.rev_not_aligned s (startPos G rest) (by rw [hS.ptEq_symm, ← hmoved hst]; exact hnz)
          rw [this] at hang
          exact Bool.false_ne_true hang
        · exact Or.inl hst
      · exact ⟨_, close_opened G _ _ h hop⟩
  · rename_i hnil hclose hmove hline
    have hh := state_head _ _ h
    cases st with
    | start => exact absurd (hh.1 rfl) hnil
    | moved s => obtain ⟨rest, hr⟩ := hh.2.1 s rfl; exact absurd hr (hmove _ _)
    | closed => obtain ⟨c, rest, hr⟩ := hh.2.2.2 rfl; exact absurd hr (hclose _ _)
    | opened s => exact ⟨_, close_opened G _ _ h ⟨s, rfl⟩⟩

theorem applyOp_strict (G : Geo α) (hS : Sane G) (hM : MergeSound G) (cs : RPath α) (o : Op α)
    (hp : o.isPublic = true) (h : Ok G.ptEq true cs ∧ noZero G cs = true) :
    Ok G.ptEq true (applyOp G cs o) ∧ noZero G (applyOp G cs o) = true := by
  obtain ⟨h, hz⟩ := h
  cases o with
  | moveTo p => obtain ⟨st, h⟩ := h; exact ⟨⟨_, moveTo_state _ _ h p⟩, nz_moveTo G hz p⟩
  | lineTo p => exact ⟨lineTo_ok G _ _ h p, nz_lineTo G hM hz p⟩
  | quadTo cp p => exact ⟨quadTo_ok G _ _ h cp p, nz_quadTo G hM hz cp p⟩
  | cubeTo c1 c2 p => exact ⟨cubeTo_ok G _ _ h c1 c2 p, nz_cubeTo G hM hz c1 c2 p⟩
  | arcTo rx ry rot l s p => exact ⟨arcTo_ok G _ _ h .., nz_arcTo G hM hz ..⟩
  | arc rx ry rot t0 t1 => exact ⟨arcBy_ok G _ _ h .., nz_arcBy G hM hz ..⟩
  | close => exact ⟨close_ok_strict G hS h hz, nz_close G hz⟩
  | optimizeClose => simp [Op.isPublic] at hp

theorem lineTo_pos (G : Geo α) (p : Pt α) (cs : RPath α) :
    pos G (lineTo G p cs) = p ∨ (lineTo G p cs = cs ∧ G.ptEq (pos G cs) p = true) := by
  unfold lineTo
  split
  · rename_i h; exact Or.inr ⟨rfl, h⟩
  · left
    split
    · dsimp only; split <;> rfl
    · rfl

/-! ### Append in strict mode -/

theorem runF_from_nonmoved {qf : List (Cmd α)} {st1 : St α} (hne : qf ≠ [])
    (h : runF near b .start qf = some st1) (st : St α) (hst : ∀ s, st ≠ .moved s) :
    runF near b st qf = some st1 := by
  cases qf with
  | nil => exact absurd rfl hne
  | cons c t =>
    obtain ⟨st2, h2, hrest⟩ := runF_cons_some near b h
    rcases cmd_trichotomy c with ⟨a, rfl⟩ | ⟨a, rfl⟩ | hc
    · rw [step_move_iff] at h2
      obtain ⟨rfl, _⟩ := h2
      have : step near b st (.move a) = some (.moved a) := (step_move_iff near b).2 ⟨rfl, fun _ => hst⟩
      simp only [runF, this, Option.bind_some]
      exact hrest
    · rw [step_close_iff] at h2; obtain ⟨_, s, hs, _⟩ := h2
      rcases hs with hs | ⟨hs, _⟩ <;> simp at hs
    · rw [step_draw_iff near b hc] at h2; obtain ⟨s, hs, _⟩ := h2; simp at hs

theorem ok_concat_nonmoved {p q : RPath α} {sp : St α} (hp : endState near b p = some sp)
    (hnm : ∀ s, sp ≠ .moved s) (hq : Ok near b q) : Ok near b (q ++ p) := by
  obtain ⟨sq, hq⟩ := hq
  have hq' : q = q.reverse.reverse := by simp
  by_cases hne : q.reverse = []
  · have : q = [] := by simpa using hne
    subst this; exact ⟨sp, by simpa using hp⟩
  · show ∃ st, endState near b (q ++ p) = some st
    rw [hq', endState_rev_append, hp]
    rw [hq'] at hq
    have := endState_rev_append near b q.reverse []
    rw [List.append_nil] at this
    rw [this] at hq
    simp [endState] at hq
    exact ⟨sq, by simpa using runF_from_nonmoved near b hne hq sp hnm⟩

theorem dropTrailingMove_not_moved {cs : RPath α} {st : St α} (h : endState near true cs = some st) :
    ∃ st', endState near true (dropTrailingMove cs) = some st' ∧ ∀ s, st' ≠ .moved s := by
  cases cs with
  | nil => simp [endState] at h; subst h; exact ⟨.start, rfl, by simp⟩
  | cons c rest =>
    rcases cmd_trichotomy c with ⟨a, rfl⟩ | ⟨a, rfl⟩ | hc
    · obtain ⟨st0, h0, hs⟩ := endState_cons_some near true h
      rw [step_move_iff] at hs
      exact ⟨st0, h0, hs.2 rfl⟩
    · obtain ⟨st0, _, hs⟩ := endState_cons_some near true h
      rw [step_close_iff] at hs; obtain ⟨rfl, _⟩ := hs
      exact ⟨.closed, h, by simp⟩
    · obtain ⟨st0, _, hs⟩ := endState_cons_some near true h
      rw [step_draw_iff near true hc] at hs; obtain ⟨s, _, rfl⟩ := hs
      have : dropTrailingMove (c :: rest) = c :: rest := by
        cases c <;> simp [Cmd.isDraw] at hc <;> rfl
      rw [this]
      exact ⟨.opened s, h, by simp⟩

theorem append_ok_strict {p q : RPath α} (hp : Ok near true p) (hq : Ok near true q) :
    Ok near true (append p q) := by
  unfold append
  have hp0 : Ok near true (if isEmpty p = true then [] else p) := by
    split
    · exact ⟨_, rfl⟩
    · exact hp
  simp only
  split
  · exact hp0
  · obtain ⟨st, h⟩ := hp0
    obtain ⟨st', h', hnm⟩ := dropTrailingMove_not_moved near h
    exact ok_concat_nonmoved near true h' hnm hq

end Canvas.Path
