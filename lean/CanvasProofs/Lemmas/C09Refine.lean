import CanvasProofs.Lemmas.C09SplitAt
import CanvasModel.C09.Intervals
/-! C09 helper lemmas: the structural SplitAt walk (builder, cutting loops, oracle inversion) and the
interval-walk specification agree on the position `T`, the remaining positions and the number of
finished pieces after every record - whatever the builder and the inversion answer. Core Lean only. -/
namespace C09L
open Canvas Canvas.Path Canvas.C09
variable {α : Type}

variable (G : Geo α) (O : SplitOps α)

/-! ### remaining cases of the structural walk -/

theorem lineCase_fold (start e : Pt α) (T dT : α) (l : List α) (s : SState α) (last : α) :
    let r := l.foldl (fun (acc : SState α × α) t =>
        let pos := O.interp start e (O.div (O.sub t T) dT)
        let st := acc.1
        let st := { st with q := lineTo G pos st.q }
        let st := st.push
        ({ st with q := moveTo pos st.q }, t)) (s, last)
    r.1.qs.length = s.qs.length + l.length ∧ r.1.rem = s.rem ∧ r.1.T = s.T := by
  induction l generalizing s last with
  | nil => simp
  | cons t ts ih =>
    simp only [List.foldl_cons]
    have h := ih ({ ({ s with q := lineTo G (O.interp start e (O.div (O.sub t T) dT)) s.q } : SState α).push with
      q := moveTo (O.interp start e (O.div (O.sub t T) dT))
        ({ s with q := lineTo G (O.interp start e (O.div (O.sub t T) dT)) s.q } : SState α).push.q }) t
    simp only [SState.push] at h ⊢
    refine ⟨by rw [h.1]; simp; omega, h.2.1, h.2.2⟩

theorem lineCase_bookkeeping (start e : Pt α) (dT : α) (s : SState α) (hrem : s.rem ≠ []) :
    (lineCase G O start e dT s).qs.length = s.qs.length + (selectCuts O s.T dT s.rem).1.length ∧
    (lineCase G O start e dT s).T = O.add s.T dT ∧
    (lineCase G O start e dT s).rem = (selectCuts O s.T dT s.rem).2 := by
  have hne : s.rem.isEmpty = false := by cases hs : s.rem <;> simp_all
  have h := lineCase_fold G O start e s.T dT (selectCuts O s.T dT s.rem).1 s s.T
  simp only [lineCase, hne, Bool.false_eq_true, if_false, and_self, and_true]
  split <;> simpa using h.1

theorem cubeCase_done (start c1 c2 e : Pt α) (o : SegOracle α) (s : SState α) (h : s.rem = []) :
    cubeCase G O start c1 c2 e o s = some { s with q := cubeTo G c1 c2 e s.q } := by
  simp [cubeCase, h]

theorem arcCase_done (rx ry phi : α) (l sw : Bool) (e : Pt α) (o : SegOracle α) (s : SState α) (h : s.rem = []) :
    arcCase G O rx ry phi l sw e o s = some { s with q := arcTo G rx ry (G.radToDeg phi) l sw e s.q } := by
  simp [arcCase, h]

theorem arcCuts_bookkeeping (rx ry phi : α) (sweep : Bool) (o : SegOracle α) (inv : List α) :
    ∀ (acc acc' : SState α × α × Bool), arcCuts G O rx ry phi sweep o inv acc = some acc' →
      acc'.1.qs.length = acc.1.qs.length + inv.length ∧ acc'.1.rem = acc.1.rem ∧ acc'.1.T = acc.1.T := by
  induction inv with
  | nil => intro acc acc' h; simp only [arcCuts, Option.some.injEq] at h; subst h; simp
  | cons th rest ih =>
    intro acc acc' h
    obtain ⟨st, startTheta, nl⟩ := acc
    simp only [arcCuts] at h
    split at h
    · exact absurd h (by simp)
    · have := ih _ acc' h
      simp only [SState.push] at this
      refine ⟨by rw [this.1]; simp; omega, this.2.1, this.2.2⟩

theorem arcCase_bookkeeping (rx ry phi : α) (l sw : Bool) (e : Pt α) (o : SegOracle α) (s s' : SState α)
    (hrem : s.rem ≠ []) (h : arcCase G O rx ry phi l sw e o s = some s') :
    s'.qs.length = s.qs.length + (selectCuts O s.T o.dT s.rem).1.length ∧
    s'.T = O.add s.T o.dT ∧ s'.rem = (selectCuts O s.T o.dT s.rem).2 := by
  have hne : s.rem.isEmpty = false := by cases hs : s.rem <;> simp_all
  simp only [arcCase, hne, Bool.false_eq_true, if_false] at h
  split at h
  · exact absurd h (by simp)
  · rename_i hlen
    have hlen' : (selectCuts O s.T o.dT s.rem).1.length = o.inv.length := by simpa using hlen
    split at h
    · exact absurd h (by simp)
    · rename_i st startTheta nextLarge hcuts
      have hb := arcCuts_bookkeeping G O rx ry phi sw o _ _ _ hcuts
      have hpl := polished_length O o s.T _ hlen'
      simp only [Option.some.injEq] at h
      subst h
      refine ⟨?_, rfl, rfl⟩
      simp only at hb ⊢
      split <;> simp [hb.1, hpl, hlen']

/-! ### the interval walk, same bookkeeping -/

theorem ivCut_fold_book (i : Nat) (T : α) (l : List α) (st : IState α) (last : α) :
    (l.foldl (ivCut O i T) (st, last)).1.done.length = st.done.length + l.length ∧
    (l.foldl (ivCut O i T) (st, last)).1.rem = st.rem ∧ (l.foldl (ivCut O i T) (st, last)).1.T = st.T := by
  induction l generalizing st last with
  | nil => simp
  | cons t ts ih =>
    simp only [List.foldl_cons]
    have h := ih (ivCut O i T (st, last) t).1 (ivCut O i T (st, last) t).2
    have hd : (ivCut O i T (st, last) t).1.done.length = st.done.length + 1 := by simp [ivCut]
    have hr : (ivCut O i T (st, last) t).1.rem = st.rem := rfl
    have hT : (ivCut O i T (st, last) t).1.T = st.T := rfl
    refine ⟨by rw [h.1, hd]; simp; omega, by rw [h.2.1, hr], by rw [h.2.2, hT]⟩

theorem ivSeg_book (i : Nat) (d : α) (s : IState α) :
    (s.rem = [] → (ivSeg O i d s).done.length = s.done.length ∧ (ivSeg O i d s).T = s.T ∧ (ivSeg O i d s).rem = s.rem) ∧
    (s.rem ≠ [] → (ivSeg O i d s).done.length = s.done.length + (selectCuts O s.T d s.rem).1.length ∧
      (ivSeg O i d s).T = O.add s.T d ∧ (ivSeg O i d s).rem = (selectCuts O s.T d s.rem).2) := by
  constructor
  · intro h; simp [ivSeg, h]
  · intro hrem
    have hne : s.rem.isEmpty = false := by cases hs : s.rem <;> simp_all
    have h := ivCut_fold_book O i s.T (selectCuts O s.T d s.rem).1 s O.zero
    simp only [ivSeg, hne, Bool.false_eq_true, if_false, and_self, and_true]
    exact h.1

/-! ### refinement -/

/-- the structural state and the specification state agree on what the property is about -/
def Agree (s : SState α) (t : IState α) : Prop :=
  s.T = t.T ∧ s.rem = t.rem ∧ s.qs.length = t.done.length

theorem agree_step {s s' : SState α} {t : IState α} (i : Nat) (d : α) (ha : Agree s t)
    (hdone : s.rem = [] → s'.qs.length = s.qs.length ∧ s'.T = s.T ∧ s'.rem = s.rem)
    (hcut : s.rem ≠ [] → s'.qs.length = s.qs.length + (selectCuts O s.T d s.rem).1.length ∧
      s'.T = O.add s.T d ∧ s'.rem = (selectCuts O s.T d s.rem).2) :
    Agree s' (ivSeg O i d t) := by
  obtain ⟨hT, hr, hq⟩ := ha
  have hb := ivSeg_book O i d t
  by_cases h : s.rem = []
  · obtain ⟨a1, a2, a3⟩ := hdone h
    obtain ⟨b1, b2, b3⟩ := hb.1 (by rw [← hr]; exact h)
    exact ⟨by rw [a2, b2, hT], by rw [a3, b3, hr], by rw [a1, b1, hq]⟩
  · obtain ⟨a1, a2, a3⟩ := hcut h
    obtain ⟨b1, b2, b3⟩ := hb.2 (by rw [← hr]; exact h)
    exact ⟨by rw [a2, b2, hT], by rw [a3, b3, hT, hr], by rw [a1, b1, hq, hT, hr]⟩

/-- Refinement: whenever the structural walk over the records succeeds (no panic), the interval walk
over the same records and segment lengths succeeds and both agree on `T`, the remaining positions and
the number of finished pieces. -/
theorem walkSub_refines (cs : List (Cmd α)) : ∀ (start : Pt α) (os os' : List (SegOracle α)) (s s' : SState α)
    (t : IState α) (i : Nat), Agree s t → walkSub G O cs start os s = some (s', os') →
    ∃ t', ivWalk O cs os i t = some t' ∧ Agree s' t' := by
  induction cs with
  | nil =>
    intro start os os' s s' t i ha h
    simp only [walkSub, Option.some.injEq, Prod.mk.injEq] at h
    exact ⟨t, rfl, by rw [← h.1]; exact ha⟩
  | cons c cs ih =>
    intro start os os' s s' t i ha h
    cases c with
    | move p =>
      simp only [walkSub] at h
      have ha' : Agree ({ s with q := moveTo p s.q }) t := ha
      obtain ⟨t', h1, h2⟩ := ih p os os' _ s' t i ha' h
      exact ⟨t', by simpa [ivWalk] using h1, h2⟩
    | line p =>
      cases os with
      | nil => simp [walkSub] at h
      | cons o os =>
        simp only [walkSub] at h
        have hstep : Agree (lineCase G O start p o.dT s) (ivSeg O i o.dT t) :=
          agree_step O i o.dT ha
            (fun he => by rw [lineCase_done G O start p o.dT s he]; exact ⟨rfl, rfl, rfl⟩)
            (fun hne => lineCase_bookkeeping G O start p o.dT s hne)
        obtain ⟨t', h1, h2⟩ := ih p os os' _ s' _ (i + 1) hstep h
        exact ⟨t', by simpa [ivWalk] using h1, h2⟩
    | close p =>
      cases os with
      | nil => simp [walkSub] at h
      | cons o os =>
        simp only [walkSub] at h
        have hstep : Agree (lineCase G O start p o.dT s) (ivSeg O i o.dT t) :=
          agree_step O i o.dT ha
            (fun he => by rw [lineCase_done G O start p o.dT s he]; exact ⟨rfl, rfl, rfl⟩)
            (fun hne => lineCase_bookkeeping G O start p o.dT s hne)
        obtain ⟨t', h1, h2⟩ := ih p os os' _ s' _ (i + 1) hstep h
        exact ⟨t', by simpa [ivWalk] using h1, h2⟩
    | quad cp p =>
      cases os with
      | nil => simp [walkSub] at h
      | cons o os =>
        simp only [walkSub] at h
        split at h
        · rename_i s1 hq
          have hstep : Agree s1 (ivSeg O i o.dT t) :=
            agree_step O i o.dT ha
              (fun he => by
                rw [quadCase_done G O start cp p o s he] at hq
                simp only [Option.some.injEq] at hq; subst hq; exact ⟨rfl, rfl, rfl⟩)
              (fun hne => quadCase_bookkeeping G O start cp p o s s1 hne hq)
          obtain ⟨t', h1, h2⟩ := ih p os os' _ s' _ (i + 1) hstep h
          exact ⟨t', by simpa [ivWalk] using h1, h2⟩
        · exact absurd h (by simp)
    | cube c1 c2 p =>
      cases os with
      | nil => simp [walkSub] at h
      | cons o os =>
        simp only [walkSub] at h
        split at h
        · rename_i s1 hq
          have hstep : Agree s1 (ivSeg O i o.dT t) :=
            agree_step O i o.dT ha
              (fun he => by
                rw [cubeCase_done G O start c1 c2 p o s he] at hq
                simp only [Option.some.injEq] at hq; subst hq; exact ⟨rfl, rfl, rfl⟩)
              (fun hne => cubeCase_bookkeeping G O start c1 c2 p o s s1 hne hq)
          obtain ⟨t', h1, h2⟩ := ih p os os' _ s' _ (i + 1) hstep h
          exact ⟨t', by simpa [ivWalk] using h1, h2⟩
        · exact absurd h (by simp)
    | arc rx ry phi l sw p =>
      cases os with
      | nil => simp [walkSub] at h
      | cons o os =>
        simp only [walkSub] at h
        split at h
        · rename_i s1 hq
          have hstep : Agree s1 (ivSeg O i o.dT t) :=
            agree_step O i o.dT ha
              (fun he => by
                rw [arcCase_done G O rx ry phi l sw p o s he] at hq
                simp only [Option.some.injEq] at hq; subst hq; exact ⟨rfl, rfl, rfl⟩)
              (fun hne => arcCase_bookkeeping G O rx ry phi l sw p o s s1 hne hq)
          obtain ⟨t', h1, h2⟩ := ih p os os' _ s' _ (i + 1) hstep h
          exact ⟨t', by simpa [ivWalk] using h1, h2⟩
        · exact absurd h (by simp)

/-! ### several subpaths: the walk over the pieces of `Split` is the walk over their concatenation -/

/-- the start point handed to `walkSub` is irrelevant when the records begin with a MoveTo -/
theorem walkSub_start_irrelevant (p : Pt α) (cs : List (Cmd α)) (st st' : Pt α) (os : List (SegOracle α))
    (s : SState α) : walkSub G O (.move p :: cs) st os s = walkSub G O (.move p :: cs) st' os s := rfl

theorem walkSub_append (xs : List (Cmd α)) : ∀ (p : Pt α) (ys : List (Cmd α)) (start st' : Pt α)
    (os : List (SegOracle α)) (s : SState α),
    walkSub G O (xs ++ .move p :: ys) start os s =
      match walkSub G O xs start os s with
      | some (s1, os1) => walkSub G O (.move p :: ys) st' os1 s1
      | none => none := by
  induction xs with
  | nil => intro p ys start st' os s; rfl
  | cons c cs ih =>
    intro p ys start st' os s
    cases c with
    | move q => simp only [List.cons_append, walkSub]; exact ih p ys q st' os _
    | line q =>
      cases os with
      | nil => simp [walkSub]
      | cons o os => simp only [List.cons_append, walkSub]; exact ih p ys q st' os _
    | close q =>
      cases os with
      | nil => simp [walkSub]
      | cons o os => simp only [List.cons_append, walkSub]; exact ih p ys q st' os _
    | quad cp q =>
      cases os with
      | nil => simp [walkSub]
      | cons o os =>
        simp only [List.cons_append, walkSub]
        cases quadCase G O start cp q o s with
        | none => rfl
        | some s1 => exact ih p ys q st' os s1
    | cube c1 c2 q =>
      cases os with
      | nil => simp [walkSub]
      | cons o os =>
        simp only [List.cons_append, walkSub]
        cases cubeCase G O start c1 c2 q o s with
        | none => rfl
        | some s1 => exact ih p ys q st' os s1
    | arc rx ry phi l sw q =>
      cases os with
      | nil => simp [walkSub]
      | cons o os =>
        simp only [List.cons_append, walkSub]
        cases arcCase G O rx ry phi l sw q o s with
        | none => rfl
        | some s1 => exact ih p ys q st' os s1

/-- every piece begins with a MoveTo -/
def AllStartWithMove (pss : List (List (Cmd α))) : Prop :=
  ∀ ps ∈ pss, ∃ p r, ps = Cmd.move p :: r

theorem walkSubs_flatten (pss : List (List (Cmd α))) (h : AllStartWithMove pss) :
    ∀ (os : List (SegOracle α)) (s : SState α),
    walkSubs G O pss os s = (walkSub G O pss.flatten G.origin os s).map (·.1) := by
  induction pss with
  | nil => intro os s; rfl
  | cons ps rest ih =>
    intro os s
    have hrest : AllStartWithMove rest := fun q hq => h q (by simp [hq])
    simp only [walkSubs, List.flatten_cons]
    cases rest with
    | nil =>
      simp only [List.flatten_nil, List.append_nil]
      cases walkSub G O ps G.origin os s with
      | none => rfl
      | some r => obtain ⟨s1, os1⟩ := r; rfl
    | cons q rest' =>
      obtain ⟨p, r, hq⟩ := hrest q (by simp)
      have e : (q :: rest').flatten = Cmd.move p :: (r ++ rest'.flatten) := by simp [hq]
      rw [e, walkSub_append G O ps p (r ++ rest'.flatten) G.origin G.origin os s]
      cases walkSub G O ps G.origin os s with
      | none => rfl
      | some res =>
        obtain ⟨s1, os1⟩ := res
        simp only
        rw [ih hrest os1 s1, e]

end C09L
