import CanvasProofs.Lemmas.C06Sort
import CanvasProofs.Lemmas.Wn
import Mathlib.Tactic.FieldSimp
import Mathlib.Algebra.Order.Field.Rat
set_option linter.unusedSimpArgs false
set_option linter.unusedVariables false

/-! # C06 — what one segment contributes to the ray's hit list, off the boundary

For a query point that does not lie on segment a→b the model of `intersectionLineLine` yields one of
five shapes (`EdgeCase`): nothing; one hit strictly inside the segment; one hit at its start; one at
its end; or — horizontal segment on the ray to the right of the point — the two overlapping end
hits. In every case the weight of the hits is `2·edgeW + [b on the ray] − [a on the ray]`: the
library's "half a crossing at each end point" and the specification's half-open rule differ by a
telescoping term. -/
namespace Canvas.C06
open Canvas.Wn

/-- the vertex lies on the ray, strictly to the right of the query point -/
def fR (p v : IPt) : Bool := decide (v.y = p.y ∧ p.x < v.x)
def fI (p v : IPt) : Int := if fR p v then 1 else 0

/-- p lies on the closed segment ab (for a non-horizontal segment collinearity and the y-range
suffice; a = b gives p = a) -/
def onSeg (p a b : IPt) : Prop :=
  isLeft a b p = 0 ∧ min a.y b.y ≤ p.y ∧ p.y ≤ max a.y b.y ∧
    (a.y = b.y → min a.x b.x ≤ p.x ∧ p.x ≤ max a.x b.x)

theorem hitX_start (p a b : IPt) (h : p.y = a.y) : hitX p a b = (a.x : Rat) := by
  simp [hitX, h]

theorem hitX_end (p a b : IPt) (h : p.y = b.y) (hne : a.y ≠ b.y) : hitX p a b = (b.x : Rat) := by
  have hd : ((b.y - a.y : Int) : Rat) ≠ 0 := by
    intro h0
    have : (b.y - a.y : Int) = 0 := by exact_mod_cast h0
    omega
  simp only [hitX, h]
  push_cast at hd ⊢
  field_simp
  ring

inductive EdgeCase (p a b : IPt) : Prop
  | none (h : edgeHits p a b = []) (fa : fR p a = false) (fb : fR p b = false) (w : edgeW p a b = 0)
  | mid (g : Hit) (h : edgeHits p a b = [g]) (tb : g.tb = .mid) (t0 : g.t0zero = false)
      (sm : g.same = false) (fa : fR p a = false) (fb : fR p b = false) (w : dir g.z = edgeW p a b)
  | start (s : Hit) (h : edgeHits p a b = [s]) (tb : s.tb = .zero) (x : s.x = (a.x : Rat))
      (t0 : s.t0zero = false) (sm : s.same = false) (fa : fR p a = true) (fb : fR p b = false)
      (w : dir s.z = 2 * edgeW p a b - 1)
  | fin (e : Hit) (h : edgeHits p a b = [e]) (tb : e.tb = .one) (x : e.x = (b.x : Rat))
      (t0 : e.t0zero = false) (sm : e.same = false) (fa : fR p a = false) (fb : fR p b = true)
      (w : dir e.z = 2 * edgeW p a b + 1)
  | horiz (s e : Hit) (h : edgeHits p a b = [s, e]) (tbs : s.tb = .zero) (tbe : e.tb = .one)
      (xs : s.x = (a.x : Rat)) (xe : e.x = (b.x : Rat)) (t0s : s.t0zero = false)
      (t0e : e.t0zero = false) (sms : s.same = true) (sme : e.same = true)
      (fa : fR p a = true) (fb : fR p b = true) (w : edgeW p a b = 0)

private theorem isLeft_at_a (ax ay bx b_y px : Int) :
    isLeft ⟨ax, ay⟩ ⟨bx, b_y⟩ ⟨px, ay⟩ = (ax - px) * (b_y - ay) := by
  simp only [isLeft]; ring

private theorem isLeft_at_b (ax ay bx b_y px : Int) :
    isLeft ⟨ax, ay⟩ ⟨bx, b_y⟩ ⟨px, b_y⟩ = (bx - px) * (b_y - ay) := by
  simp only [isLeft]; ring

/-- a point to the right of both end points is to the right of the segment -/
private theorem right_of_up (ax ay bx b_y px py : Int) (h1 : ay ≤ py) (h2 : py < b_y)
    (h3 : ax < px) (h4 : bx < px) : ¬ 0 < isLeft ⟨ax, ay⟩ ⟨bx, b_y⟩ ⟨px, py⟩ := by
  simp only [isLeft]
  intro h
  nlinarith [mul_nonneg (by linarith : (0:Int) ≤ py - ay) (by linarith : (0:Int) ≤ px - bx),
    mul_pos (by linarith : (0:Int) < b_y - py) (by linarith : (0:Int) < px - ax)]

private theorem right_of_down (ax ay bx b_y px py : Int) (h1 : b_y ≤ py) (h2 : py < ay)
    (h3 : ax < px) (h4 : bx < px) : ¬ isLeft ⟨ax, ay⟩ ⟨bx, b_y⟩ ⟨px, py⟩ < 0 := by
  simp only [isLeft]
  intro h
  nlinarith [mul_nonneg (by linarith : (0:Int) ≤ py - b_y) (by linarith : (0:Int) ≤ px - ax),
    mul_pos (by linarith : (0:Int) < ay - py) (by linarith : (0:Int) < px - bx)]

theorem edge_cases (p a b : IPt) (hne : a ≠ b) (hoff : ¬ onSeg p a b) : EdgeCase p a b := by
  obtain ⟨ax, ay⟩ := a
  obtain ⟨bx, b_y⟩ := b
  obtain ⟨px, py⟩ := p
  have hne' : ¬ (ax = bx ∧ ay = b_y) := by
    intro h; apply hne; simp [h.1, h.2]
  simp only [onSeg] at hoff
  by_cases hpre : (min ay b_y ≤ py ∧ py ≤ max ay b_y ∧ px ≤ max ax bx)
  · by_cases hh : ay = b_y
    · -- horizontal segment on the ray's line
      subst hh
      have hpy : py = ay := by omega
      subst hpy
      have hx : ax ≠ bx := by omega
      have hout : ¬ (min ax bx ≤ px ∧ px ≤ max ax bx) := by
        intro hb
        apply hoff
        refine ⟨by simp [isLeft], by omega, by omega, fun _ => hb⟩
      have hl : px < ax ∧ px < bx := by omega
      refine EdgeCase.horiz
        { x := (ax : Rat), t0zero := ax == px, into := false, tb := .zero, same := true }
        { x := (bx : Rat), t0zero := bx == px, into := false, tb := .one, same := true }
        ?_ rfl rfl rfl rfl ?_ ?_ rfl rfl ?_ ?_ ?_
      · have c1 : px ≤ ax ∧ px ≤ bx := by omega
        simp [edgeHits, hne, hpre, horizHits, c1]
      · simp; omega
      · simp; omega
      · simp [fR]; omega
      · simp [fR]; omega
      · simp [edgeW]
    · -- non-horizontal
      have hE : edgeHits ⟨px, py⟩ ⟨ax, ay⟩ ⟨bx, b_y⟩ = lineHits ⟨px, py⟩ ⟨ax, ay⟩ ⟨bx, b_y⟩ := by
        simp [edgeHits, hne, hpre, hh]
      have hnz : isLeft ⟨ax, ay⟩ ⟨bx, b_y⟩ ⟨px, py⟩ ≠ 0 := by
        intro h0
        apply hoff
        exact ⟨h0, hpre.1, hpre.2.1, fun h => absurd h hh⟩
      by_cases hs : side ⟨px, py⟩ ⟨ax, ay⟩ ⟨bx, b_y⟩ < 0
      · -- the line meets the ray's line to the left of the query point: no hit
        have hL : edgeHits ⟨px, py⟩ ⟨ax, ay⟩ ⟨bx, b_y⟩ = [] := by simp [hE, lineHits, hs]
        simp only [side] at hs
        refine EdgeCase.none hL ?_ ?_ ?_
        · simp only [fR, decide_eq_false_iff_not]
          rintro ⟨e, hlt⟩
          subst e
          rw [isLeft_at_a] at hs
          split at hs
          · have : 0 < (ax - px) * (b_y - ay) := mul_pos (by omega) (by omega)
            omega
          · have : (ax - px) * (b_y - ay) < 0 := mul_neg_of_pos_of_neg (by omega) (by omega)
            omega
        · simp only [fR, decide_eq_false_iff_not]
          rintro ⟨e, hlt⟩
          subst e
          rw [isLeft_at_b] at hs
          split at hs
          · have : 0 < (bx - px) * (b_y - ay) := mul_pos (by omega) (by omega)
            omega
          · have : (bx - px) * (b_y - ay) < 0 := mul_neg_of_pos_of_neg (by omega) (by omega)
            omega
        · simp only [edgeW]
          split at hs
          · have : ¬ 0 < isLeft ⟨ax, ay⟩ ⟨bx, b_y⟩ ⟨px, py⟩ := by omega
            have c2 : ¬ (b_y ≤ py ∧ py < ay) := by omega
            simp [this, c2]
          · have : ¬ isLeft ⟨ax, ay⟩ ⟨bx, b_y⟩ ⟨px, py⟩ < 0 := by omega
            have c1 : ¬ (ay ≤ py ∧ py < b_y) := by omega
            simp [this, c1]
      · -- one hit, to the right of the query point
        have hpos : 0 < side ⟨px, py⟩ ⟨ax, ay⟩ ⟨bx, b_y⟩ := by
          have : side ⟨px, py⟩ ⟨ax, ay⟩ ⟨bx, b_y⟩ ≠ 0 := by
            simp only [side]; split <;> omega
          omega
        have hz : (side ⟨px, py⟩ ⟨ax, ay⟩ ⟨bx, b_y⟩ == 0) = false := by
          simp; omega
        have hL : edgeHits ⟨px, py⟩ ⟨ax, ay⟩ ⟨bx, b_y⟩ =
            [{ x := hitX ⟨px, py⟩ ⟨ax, ay⟩ ⟨bx, b_y⟩, t0zero := false, into := decide (b_y < ay),
               tb := if py = ay then .zero else if py = b_y then .one else .mid, same := false }] := by
          simp [hE, lineHits, hs, hz]
        simp only [side] at hpos
        by_cases e1 : py = ay
        · -- at the start point
          subst e1
          rw [isLeft_at_a] at hpos
          have hax : px < ax := by
            split at hpos
            · by_contra hc
              have : (ax - px) * (b_y - py) ≤ 0 := mul_nonpos_of_nonpos_of_nonneg (by omega) (by omega)
              omega
            · by_contra hc
              have : 0 ≤ (ax - px) * (b_y - py) := mul_nonneg_of_nonpos_of_nonpos (by omega) (by omega)
              omega
          refine EdgeCase.start _ hL (by simp) (by simpa using hitX_start ⟨px, py⟩ ⟨ax, py⟩ ⟨bx, b_y⟩ rfl)
            rfl rfl (by simp [fR]; omega) (by simp [fR]; omega) ?_
          simp only [Hit.z, dir, edgeW, isLeft_at_a]
          by_cases hup : py < b_y
          · have h1 : 0 < (ax - px) * (b_y - py) := mul_pos (by omega) (by omega)
            have c : ¬ b_y < py := by omega
            simp [hup, h1, c]
          · have c : b_y < py := by omega
            simp [hup, c]
        · by_cases e2 : py = b_y
          · -- at the end point
            subst e2
            rw [isLeft_at_b] at hpos
            have hbx : px < bx := by
              split at hpos
              · by_contra hc
                have : (bx - px) * (py - ay) ≤ 0 := mul_nonpos_of_nonpos_of_nonneg (by omega) (by omega)
                omega
              · by_contra hc
                have : 0 ≤ (bx - px) * (py - ay) := mul_nonneg_of_nonpos_of_nonpos (by omega) (by omega)
                omega
            refine EdgeCase.fin _ hL (by simp [e1]) ?_ rfl rfl (by simp [fR]; omega) (by simp [fR]; omega) ?_
            · simpa using hitX_end ⟨px, py⟩ ⟨ax, ay⟩ ⟨bx, py⟩ rfl hh
            · simp only [Hit.z, dir, edgeW, isLeft_at_b]
              by_cases hup : ay < py
              · have c : ¬ py < ay := by omega
                simp [hup, c]
              · have c : py < ay := by omega
                have h1 : (bx - px) * (py - ay) < 0 := mul_neg_of_pos_of_neg (by omega) (by omega)
                simp [c, h1]
          · -- strictly inside the segment
            refine EdgeCase.mid _ hL (by simp [e1, e2]) rfl rfl (by simp [fR]; omega) (by simp [fR]; omega) ?_
            simp only [Hit.z, dir, edgeW]
            by_cases hup : ay < b_y
            · simp only [hup, if_true] at hpos
              have c1 : ay ≤ py ∧ py < b_y := by omega
              have c : ¬ b_y < ay := by omega
              simp [c1, hpos, c]
            · simp only [hup, if_false] at hpos
              have c1 : ¬ (ay ≤ py ∧ py < b_y) := by omega
              have c2 : b_y ≤ py ∧ py < ay := by omega
              have c : b_y < ay := by omega
              have h1 : isLeft ⟨ax, ay⟩ ⟨bx, b_y⟩ ⟨px, py⟩ < 0 := by omega
              simp [c1, c2, c, h1]
  · -- pre-check fails: no hit
    have hL : edgeHits ⟨px, py⟩ ⟨ax, ay⟩ ⟨bx, b_y⟩ = [] := by
      unfold edgeHits
      rw [if_neg hne, if_pos hpre]
    refine EdgeCase.none hL (by simp [fR]; omega) (by simp [fR]; omega) ?_
    simp only [edgeW]
    by_cases c1 : ay ≤ py ∧ py < b_y
    · have := right_of_up ax ay bx b_y px py c1.1 c1.2 (by omega) (by omega)
      simp [c1, this]
    · by_cases c2 : b_y ≤ py ∧ py < ay
      · have := right_of_down ax ay bx b_y px py c2.1 c2.2 (by omega) (by omega)
        simp [c1, c2, this]
      · simp [c1, c2]

end Canvas.C06
