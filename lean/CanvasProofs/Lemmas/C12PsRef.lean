import CanvasProofs.Lemmas.C12Ps
/-!
C12, PostScript refinement: the interpreter, started in the state the PS cache claims, paints exactly the
reference items of a `PS.RenderPath` call (fill, then native stroke or explicit outline), for paints
that PostScript can express (colours; the back-end has no gradients: recorded finding).
-/
namespace Canvas.C12
section
variable {ν : Type} {N : Num ν}

/-- as `SSim`, with the painted items -/
def SSimO (N : Num ν) (a : SAct ν) (w : SW ν) (c c' : List PathRef) (out : List (Painted ν)) : Prop :=
  psRun (sgC N w c) (a w).2 = (sgC N (a w).1 c', out)

theorem SSimO.nil (w : SW ν) (c : List PathRef) : SSimO N (SAct.seq []) w c c [] := by
  simp [SSimO, SAct.seq, psRun]

theorem SSimO.cons {a : SAct ν} {as : List (SAct ν)} {w : SW ν} {c c' c'' : List PathRef} {o1 o2 : List (Painted ν)}
    (h1 : SSimO N a w c c' o1) (h2 : SSimO N (SAct.seq as) (a w).1 c' c'' o2) :
    SSimO N (SAct.seq (a :: as)) w c c'' (o1 ++ o2) := by
  unfold SSimO at *
  simp [SAct.seq, psRun_append, h1, h2]

theorem SSimO.append {as bs : List (SAct ν)} {w : SW ν} {c c' c'' : List PathRef} {o1 o2 : List (Painted ν)}
    (h1 : SSimO N (SAct.seq as) w c c' o1) (h2 : SSimO N (SAct.seq bs) (SAct.seq as w).1 c' c'' o2) :
    SSimO N (SAct.seq (as ++ bs)) w c c'' (o1 ++ o2) := by
  unfold SSimO at *
  simp [SAct.seq_append, psRun_append, h1, h2]

/-! ### setters paint nothing -/

theorem setPaint_simO (p : Paint) (w : SW ν) (c : List PathRef) : SSimO N (setPaint p) w c c [] := by
  unfold SSimO setPaint
  split
  · simp [psRun]
  · by_cases hd : (p.nrgb != w.paint.nrgb) = true
    · simp only [hd, if_true, psRun, (colorOp_col _ _).1, (colorOp_col _ _).2]
      simp [sgC, sgOf]
    · have he : p.nrgb = w.paint.nrgb := by simpa using hd
      simp [psRun, sgC, sgOf, he]

theorem psSetLineWidth_simO (x : ν) (hx : N.beq x N.zero = false) (w : SW ν) (c : List PathRef) :
    SSimO N (psSetLineWidth N x) w c c [] := by
  unfold SSimO psSetLineWidth
  split <;> simp [psRun, psStep, sgC, sgOf, hx]

theorem psSetLineCap_simO (k : Nat) (w : SW ν) (c : List PathRef) : SSimO N (psSetLineCap k) w c c [] := by
  unfold SSimO psSetLineCap
  split <;> simp [psRun, psStep, sgC, sgOf]

theorem psSetLineJoin_simO (jn : Join ν) (hj : jn.pdfOk = true) (w : SW ν) (c : List PathRef) :
    SSimO N (psSetLineJoin N jn) w c c [] := by
  unfold SSimO psSetLineJoin
  split
  · cases jn with
    | bevel => simp [psRun, psStep, sgC, sgOf, psJoinCode]
    | round => simp [psRun, psStep, sgC, sgOf, psJoinCode]
    | arcs g l => simp [Join.pdfOk] at hj
    | miter g l =>
      cases l with
      | none => simp [Join.pdfOk] at hj
      | some l =>
        have : g = 0 := by simpa [Join.pdfOk] using hj
        subst this
        simp only [psSetMiterLimit]
        split <;> simp [psRun, psStep, sgC, sgOf, psJoinCode]
  · simp [psRun]

theorem psSetDashes_simO (o : ν) (a : List ν) (w : SW ν) (c : List PathRef) : SSimO N (psSetDashes N o a) w c c [] := by
  unfold SSimO psSetDashes
  split <;> simp [psRun, psStep, sgC, sgOf]

theorem path_simO (p : PathRef) (w : SW ν) (c : List PathRef) : SSimO N (ssay [.path p]) w c (c ++ [p]) [] := by
  simp [SSimO, ssay, psRun, psStep, sgC, sgOf]
  try rfl

/-! ### painting operators -/

def psFillItem (w : SW ν) (c : List PathRef) (eo : Bool) : List (Painted ν) :=
  if c.isEmpty then [] else [.fill c eo (psShade w.paint.nrgb) 255]

def psStrokeItem (N : Num ν) (w : SW ν) (c : List PathRef) : List (Painted ν) :=
  if c.isEmpty then [] else
  [.stroke c false (psShade w.paint.nrgb) 255 (sgOf N w).lw (sgOf N w).cap (sgOf N w).join
    (if (sgOf N w).join == 0 then some (sgOf N w).ml else none) w.dashes w.off]

theorem gsave_fill_grestore_simO (eo : Bool) (w : SW ν) (c : List PathRef) :
    SSimO N (ssay [.gsave, (if eo then SOp.eofill else SOp.fill), .grestore]) w c c (psFillItem w c eo) := by
  cases eo <;> by_cases hc : c.isEmpty = true <;> simp [SSimO, ssay, psRun, psStep, sgC, sgOf, hc, psFillItem]

theorem fill_simO (eo : Bool) (w : SW ν) (c : List PathRef) :
    SSimO N (ssay [if eo then SOp.eofill else SOp.fill]) w c [] (psFillItem w c eo) := by
  cases eo <;> by_cases hc : c.isEmpty = true <;> simp [SSimO, ssay, psRun, psStep, sgC, sgOf, hc, psFillItem]

theorem stroke_simO (w : SW ν) (c : List PathRef) : SSimO N (ssay [.stroke]) w c [] (psStrokeItem N w c) := by
  by_cases hc : c.isEmpty = true <;> simp [SSimO, ssay, psRun, psStep, sgC, sgOf, hc, psStrokeItem] <;> rfl

end
end Canvas.C12

namespace Canvas.C12
section
variable {ν : Type} {N : Num ν}

/-! ### the cache after each `set*` (lawful `==`) -/

theorem optBeq_eq (L : Lawful N) {a b : Option ν} (h : optBeq N a b = true) : a = b := by
  cases a <;> cases b <;> simp_all [optBeq]
  exact (L.beq_iff _ _).1 h

theorem Join.beq_eq (L : Lawful N) {a b : Join ν} (h : Join.beq N a b = true) : a = b := by
  cases a <;> cases b <;> simp_all [Join.beq]
  · exact optBeq_eq L h.2
  · exact optBeq_eq L h.2

/-- cache well-formedness: a cached miter join has its limit cached as the miter limit -/
def PSWF (w : SW ν) : Prop := ∀ g l, w.join = some (.miter g (some l)) → w.ml = l

theorem setPaint_w (p : Paint) (hp : p ≠ .none) (w : SW ν) : (setPaint p w).1 = { w with paint := p } := by
  obtain ⟨pt, lw, ml, cp, jn, off, ds⟩ := w
  unfold setPaint
  split
  · rename_i h
    have e := ((Paint.eq_iff _ _).1 h).1
    subst e; rfl
  · rfl

theorem psSetLineWidth_w (L : Lawful N) (x : ν) (w : SW ν) : (psSetLineWidth N x w).1 = { w with lw := x } := by
  obtain ⟨pt, lw, ml, cp, jn, off, ds⟩ := w
  unfold psSetLineWidth
  split
  · rfl
  · rename_i h
    have e : x = lw := (L.beq_iff _ _).1 (by simpa using h)
    subst e; rfl

theorem psSetLineCap_w (k : Nat) (w : SW ν) : (psSetLineCap k w).1 = { w with cap := some k } := by
  obtain ⟨pt, lw, ml, cp, jn, off, ds⟩ := w
  unfold psSetLineCap
  split
  · rfl
  · rename_i h
    have e : cp = some k := by simpa using h
    subst e; rfl

theorem psSetDashes_w (L : Lawful N) (o : ν) (a : List ν) (w : SW ν) :
    (psSetDashes N o a w).1 = { w with off := o, dashes := a } := by
  obtain ⟨pt, lw, ml, cp, jn, off, ds⟩ := w
  unfold psSetDashes
  split
  · rfl
  · rename_i h
    have h' : listBeq N a ds = true ∧ N.beq o off = true := by simpa using h
    have e1 := (listBeq_iff L _ _).1 h'.1
    have e2 := (L.beq_iff _ _).1 h'.2
    subst e1; subst e2; rfl

theorem psSetLineJoin_w (L : Lawful N) (jn : Join ν) (hj : jn.pdfOk = true) (w : SW ν) (hw : PSWF w) :
    (psSetLineJoin N jn w).1 =
      { w with join := some jn, ml := (match joinLimit jn with | some l => l | none => w.ml) } := by
  obtain ⟨pt, lw, ml, cp, j0, off, ds⟩ := w
  unfold psSetLineJoin
  split
  · cases jn with
    | bevel => simp [joinLimit]
    | round => simp [joinLimit]
    | arcs g l => simp [Join.pdfOk] at hj
    | miter g l =>
      cases l with
      | none => simp [Join.pdfOk] at hj
      | some l =>
        have : g = 0 := by simpa [Join.pdfOk] using hj
        subst this
        simp only [psSetMiterLimit, joinLimit]
        split
        · rfl
        · rename_i h
          have e : l = ml := (L.beq_iff _ _).1 (by simpa using h)
          subst e; rfl
  · rename_i h
    cases j0 with
    | none => simp [joinBeqOpt] at h
    | some j' =>
      have e : jn = j' := Join.beq_eq L (by simpa [joinBeqOpt] using h)
      subst e
      cases jn with
      | bevel => simp [joinLimit]
      | round => simp [joinLimit]
      | arcs g l => simp [Join.pdfOk] at hj
      | miter g l =>
        cases l with
        | none => simp [Join.pdfOk] at hj
        | some l =>
          have := hw g l rfl
          simp only at this
          subst this
          simp [joinLimit]

/-- the cache after the stroke tail -/
def psTailCache (s : Paint) (x : ν) (k : Nat) (jn : Join ν) (o : ν) (a : List ν) (w : SW ν) : SW ν :=
  { paint := s, lw := x, ml := (match joinLimit jn with | some l => l | none => w.ml), cap := some k, join := some jn,
    off := o, dashes := a }

theorem psTailCache_wf (s : Paint) (x : ν) (k : Nat) (jn : Join ν) (o : ν) (a : List ν) (w : SW ν) :
    PSWF (psTailCache s x k jn o a w) := by
  intro g l h
  simp only [psTailCache] at h ⊢
  have : jn = .miter g (some l) := by simpa using h
  subst this
  simp [joinLimit]

theorem psStrokeTail_w (L : Lawful N) (s : Paint) (hs : s ≠ .none) (x : ν) (k : Nat) (jn : Join ν) (hj : jn.pdfOk = true)
    (o : ν) (a : List ν) (w : SW ν) (hw : PSWF w) :
    (SAct.seq (psStrokeTail N s x k jn o a) w).1 = psTailCache s x k jn o a w := by
  simp only [psStrokeTail, SAct.seq, ssay]
  rw [setPaint_w s hs w, psSetLineWidth_w L, psSetLineCap_w,
    psSetLineJoin_w L jn hj _ (by intro g l h; exact hw g l h), psSetDashes_w L]
  rfl

theorem psJoinCode_ok (jn : Join ν) (hj : jn.pdfOk = true) : psJoinCode (some jn) = joinCode jn := by
  cases jn with
  | bevel => rfl
  | round => rfl
  | arcs g l => simp [Join.pdfOk] at hj
  | miter g l => rfl

/-- the stroke item painted from the tail cache is the reference's -/
theorem psStrokeItem_tail (s : Paint) (x : ν) (hx : N.beq x N.zero = false) (k : Nat) (jn : Join ν) (hj : jn.pdfOk = true)
    (o : ν) (a : List ν) (w : SW ν) (p : PathRef) :
    psStrokeItem N (psTailCache s x k jn o a w) [p] =
      [.stroke [p] false (psShade s.nrgb) 255 x k (joinCode jn) (joinLimit jn) a o] := by
  have hjc := psJoinCode_ok jn hj
  cases jn with
  | bevel => simp [psStrokeItem, psTailCache, sgOf, hx, psJoinCode, joinCode, joinLimit]
  | round => simp [psStrokeItem, psTailCache, sgOf, hx, psJoinCode, joinCode, joinLimit]
  | arcs g l => simp [Join.pdfOk] at hj
  | miter g l =>
    cases l with
    | none => simp [Join.pdfOk] at hj
    | some l => simp [psStrokeItem, psTailCache, sgOf, hx, psJoinCode, joinCode, joinLimit]

theorem psStrokeTail_simO (s : Paint) (x : ν) (k : Nat) (jn : Join ν) (o : ν) (a : List ν) (w : SW ν) (c : List PathRef)
    (hx : N.beq x N.zero = false) (hj : jn.pdfOk = true) :
    SSimO N (SAct.seq (psStrokeTail N s x k jn o a)) w c []
      (psStrokeItem N (SAct.seq [setPaint s, psSetLineWidth N x, psSetLineCap k, psSetLineJoin N jn, psSetDashes N o a] w).1 c) := by
  unfold psStrokeTail
  have h := SSimO.cons (setPaint_simO s w c)
    (SSimO.cons (psSetLineWidth_simO x hx _ c)
      (SSimO.cons (psSetLineCap_simO k _ c)
        (SSimO.cons (psSetLineJoin_simO jn hj _ c)
          (SSimO.cons (psSetDashes_simO o a _ c)
            (SSimO.cons (stroke_simO _ c) (SSimO.nil _ _))))))
  simpa [SAct.seq, ssay] using h

end
end Canvas.C12

namespace Canvas.C12
section
variable {ν : Type} {N : Num ν}

/-- paints PostScript can express (the back-end has no gradient support) -/
def Paint.noGrad : Paint → Prop
  | .grad _ => False
  | _ => True

theorem psOpaque_fill (p : Paint) (hg : p.noGrad) (r : List PathRef) (eo : Bool) :
    psOpaque (Painted.fill (ν := ν) r eo (shadeOf p) p.alpha) = .fill r eo (psShade p.nrgb) 255 := by
  cases p with
  | grad i => exact absurd hg id
  | none => simp [psOpaque, shadeOf, psShade, Paint.nrgb, unpremul]
  | col c => simp [psOpaque, shadeOf, psShade, Paint.nrgb]

theorem psOpaque_stroke (p : Paint) (hg : p.noGrad) (r : List PathRef) (cl : Bool) (lw : ν) (k j : Nat) (ml : Option ν)
    (da : List ν) (ph : ν) :
    psOpaque (Painted.stroke r cl (shadeOf p) p.alpha lw k j ml da ph) = .stroke r false (psShade p.nrgb) 255 lw k j ml da ph := by
  cases p with
  | grad i => exact absurd hg id
  | none => simp [psOpaque, shadeOf, psShade, Paint.nrgb, unpremul]
  | col c => simp [psOpaque, shadeOf, psShade, Paint.nrgb]

theorem psFillItem_paint (w : SW ν) (p : Paint) (r : PathRef) (eo : Bool) :
    psFillItem ({ w with paint := p } : SW ν) [r] eo = [.fill [r] eo (psShade p.nrgb) 255] := by
  simp [psFillItem]

theorem PSWF_paint {w : SW ν} (hw : PSWF w) (p : Paint) : PSWF ({ w with paint := p } : SW ν) := by
  intro g l h; exact hw g l h

/-- one `PS.RenderPath` call from ANY well-formed cache, for paints PostScript can express: the interpreter
paints the reference items (fill, then native stroke or the explicit outline) and ends in the state the new
cache claims; well-formedness is kept -/
theorem psDraw_refines (L : Lawful N) (d : Draw ν) (w : SW ν) (hw : PSWF w) (hgf : d.fill.noGrad) (hgs : d.stroke.noGrad) :
    psRun (sgOf N w) (psDraw N d w).2 = (sgOf N (psDraw N d w).1, psRef N d) ∧ PSWF (psDraw N d w).1 := by
  have hsg : ∀ w : SW ν, sgOf N w = sgC N w [] := fun w => by simp [sgC, sgOf]
  unfold psRef
  by_cases hst : d.hasStroke N d.join.pdfOk = true
  · have hsn : d.stroke ≠ .none := Paint.has_ne' (by simp [Draw.hasStroke] at hst; exact hst.1)
    have hx : N.beq (d.w' N d.join.pdfOk) N.zero = false :=
      L.pos_ne_zero _ (by simp [Draw.hasStroke] at hst; exact hst.2)
    by_cases hn : d.native d.join.pdfOk = true
    · have hj : d.join.pdfOk = true := by simp [Draw.native] at hn; exact hn.1
      have hst' : d.hasStroke N true = true := hj ▸ hst
      have hn' : d.native true = true := hj ▸ hn
      have hx' : N.beq (d.w' N true) N.zero = false := hj ▸ hx
      by_cases hfl : d.hasFill = true
      · have hfn : d.fill ≠ .none := Paint.has_ne' hfl
        have e : psDraw N d = SAct.seq ([ssay [.path (.orig d.pid)], setPaint d.fill,
            ssay [.gsave, (if d.evenOdd then SOp.eofill else SOp.fill), .grestore]] ++
            psStrokeTail N d.stroke (d.w' N true) d.cap d.join (d.off' N true) (d.dashes' N true)) := by
          funext w; simp [psDraw, hj, hst', hn', hfl, psStrokeTail]
        have h1 := SSimO.cons (path_simO (N := N) (.orig d.pid) w [])
          (SSimO.cons (setPaint_simO d.fill _ _) (SSimO.cons (gsave_fill_grestore_simO d.evenOdd _ _) (SSimO.nil _ _)))
        have e1 : (SAct.seq [ssay [.path (.orig d.pid)], setPaint d.fill,
            ssay [.gsave, (if d.evenOdd then SOp.eofill else SOp.fill), .grestore]] w).1 = { w with paint := d.fill } := by
          simp only [SAct.seq, ssay]; exact setPaint_w d.fill hfn w
        have h2 := psStrokeTail_simO (N := N) d.stroke (d.w' N true) d.cap d.join (d.off' N true) (d.dashes' N true)
          (SAct.seq [ssay [.path (.orig d.pid)], setPaint d.fill,
            ssay [.gsave, (if d.evenOdd then SOp.eofill else SOp.fill), .grestore]] w).1 ([] ++ [.orig d.pid]) hx' hj
        have h := SSimO.append h1 h2
        have et := psStrokeTail_w L d.stroke hsn (d.w' N true) d.cap d.join hj (d.off' N true) (d.dashes' N true)
          ({ w with paint := d.fill } : SW ν) (PSWF_paint hw _)
        simp only [psStrokeTail, SAct.seq, ssay] at et
        rw [e, hsg w]
        unfold SSimO at h
        refine ⟨?_, ?_⟩
        · rw [h]
          simp only [SAct.seq, ssay] at *
          rw [setPaint_w d.fill hfn w] at *
          simp only [List.nil_append, List.append_nil] at *
          rw [et, psFillItem_paint, psStrokeItem_tail d.stroke _ hx' _ _ hj]
          simp [refPaint, hj, hst', hn', hfl, psOpaque_fill _ hgf, psOpaque_stroke _ hgs, hsg, psStrokeTail, SAct.seq_append, SAct.seq, ssay,
            setPaint_w d.fill hfn w, et]
        · rw [SAct.seq_append, e1, psStrokeTail_w L d.stroke hsn _ _ _ hj _ _ _ (PSWF_paint hw _)]
          exact psTailCache_wf _ _ _ _ _ _ _
      · have e : psDraw N d = SAct.seq ([ssay [.path (.orig d.pid)]] ++
            psStrokeTail N d.stroke (d.w' N true) d.cap d.join (d.off' N true) (d.dashes' N true)) := by
          funext w; simp [psDraw, hj, hst', hn', hfl, psStrokeTail]
        have h1 := SSimO.cons (path_simO (N := N) (.orig d.pid) w []) (SSimO.nil _ _)
        have h2 := psStrokeTail_simO (N := N) d.stroke (d.w' N true) d.cap d.join (d.off' N true) (d.dashes' N true)
          (SAct.seq [ssay [.path (.orig d.pid)]] w).1 ([] ++ [.orig d.pid]) hx' hj
        have h := SSimO.append h1 h2
        have et := psStrokeTail_w L d.stroke hsn (d.w' N true) d.cap d.join hj (d.off' N true) (d.dashes' N true) w hw
        simp only [psStrokeTail, SAct.seq, ssay] at et
        rw [e, hsg w]
        unfold SSimO at h
        refine ⟨?_, ?_⟩
        · rw [h]
          simp only [SAct.seq, ssay, List.nil_append, List.append_nil] at *
          rw [et, psStrokeItem_tail d.stroke _ hx' _ _ hj]
          simp [refPaint, hj, hst', hn', hfl, psOpaque_stroke _ hgs, hsg, psStrokeTail, SAct.seq_append, SAct.seq, ssay, et]
        · rw [SAct.seq_append]
          have : (SAct.seq [ssay [SOp.path (.orig d.pid)]] w).1 = w := by simp [SAct.seq, ssay]
          rw [this, psStrokeTail_w L d.stroke hsn _ _ _ hj _ _ _ hw]
          exact psTailCache_wf _ _ _ _ _ _ _
    · by_cases hoe : d.outlineEmpty = true
      · -- empty outline: `setPaint stroke; fill` on an empty current path paints nothing
        by_cases hfl : d.hasFill = true
        · have hfn : d.fill ≠ .none := Paint.has_ne' hfl
          have e : psDraw N d = SAct.seq [ssay [.path (.orig d.pid)], setPaint d.fill,
              ssay [if d.evenOdd then SOp.eofill else SOp.fill], setPaint d.stroke, ssay [if false then SOp.eofill else SOp.fill]] := by
            funext w; simp [psDraw, hst, hn, hfl, hoe]
          have h := SSimO.cons (path_simO (N := N) (.orig d.pid) w []) (SSimO.cons (setPaint_simO d.fill _ _)
            (SSimO.cons (fill_simO d.evenOdd _ _)
              (SSimO.cons (setPaint_simO d.stroke _ _) (SSimO.cons (fill_simO false _ _) (SSimO.nil _ _)))))
          rw [e, hsg w]
          unfold SSimO at h
          refine ⟨?_, ?_⟩
          · rw [h]
            simp only [SAct.seq, ssay, List.nil_append, List.append_nil]
            rw [setPaint_w d.fill hfn w, psFillItem_paint]
            simp [refPaint, hst, hn, hfl, hoe, psOpaque_fill _ hgf, hsg, psFillItem]
          · simp only [SAct.seq, ssay]
            rw [setPaint_w d.fill hfn w, setPaint_w d.stroke hsn]
            exact PSWF_paint (PSWF_paint hw _) _
        · have e : psDraw N d = SAct.seq [setPaint d.stroke, ssay [if false then SOp.eofill else SOp.fill]] := by
            funext w; simp [psDraw, hst, hn, hfl, hoe]
          have h := SSimO.cons (setPaint_simO (N := N) d.stroke w []) (SSimO.cons (fill_simO false _ _) (SSimO.nil _ _))
          rw [e, hsg w]
          unfold SSimO at h
          refine ⟨?_, ?_⟩
          · rw [h]
            simp [SAct.seq, ssay, refPaint, hst, hn, hfl, hoe, hsg, psFillItem]
          · simp only [SAct.seq, ssay]
            rw [setPaint_w d.stroke hsn w]
            exact PSWF_paint hw _
      · by_cases hfl : d.hasFill = true
        · have hfn : d.fill ≠ .none := Paint.has_ne' hfl
          have e : psDraw N d = SAct.seq [ssay [.path (.orig d.pid)], setPaint d.fill,
              ssay [if d.evenOdd then SOp.eofill else SOp.fill], ssay [.path (.outline d.pid)], setPaint d.stroke, ssay [if false then SOp.eofill else SOp.fill]] := by
            funext w; simp [psDraw, hst, hn, hfl, hoe]
          have h := SSimO.cons (path_simO (N := N) (.orig d.pid) w []) (SSimO.cons (setPaint_simO d.fill _ _)
            (SSimO.cons (fill_simO d.evenOdd _ _) (SSimO.cons (path_simO (.outline d.pid) _ [])
              (SSimO.cons (setPaint_simO d.stroke _ _) (SSimO.cons (fill_simO false _ _) (SSimO.nil _ _))))))
          rw [e, hsg w]
          unfold SSimO at h
          refine ⟨?_, ?_⟩
          · rw [h]
            simp only [SAct.seq, ssay, List.nil_append, List.append_nil]
            rw [setPaint_w d.fill hfn w, setPaint_w d.stroke hsn, psFillItem_paint, psFillItem_paint]
            simp [refPaint, hst, hn, hfl, hoe, psOpaque_fill _ hgf, psOpaque_fill _ hgs, hsg]
          · simp only [SAct.seq, ssay]
            rw [setPaint_w d.fill hfn w, setPaint_w d.stroke hsn]
            exact PSWF_paint (PSWF_paint hw _) _
        · have e : psDraw N d = SAct.seq [ssay [.path (.outline d.pid)], setPaint d.stroke, ssay [if false then SOp.eofill else SOp.fill]] := by
            funext w; simp [psDraw, hst, hn, hfl, hoe]
          have h := SSimO.cons (path_simO (N := N) (.outline d.pid) w [])
              (SSimO.cons (setPaint_simO d.stroke _ _) (SSimO.cons (fill_simO false _ _) (SSimO.nil _ _)))
          rw [e, hsg w]
          unfold SSimO at h
          refine ⟨?_, ?_⟩
          · rw [h]
            simp only [SAct.seq, ssay, List.nil_append, List.append_nil]
            rw [setPaint_w d.stroke hsn w, psFillItem_paint]
            simp [refPaint, hst, hn, hfl, hoe, psOpaque_fill _ hgs, hsg]
          · simp only [SAct.seq, ssay]
            rw [setPaint_w d.stroke hsn w]
            exact PSWF_paint hw _
  · by_cases hfl : d.hasFill = true
    · have hfn : d.fill ≠ .none := Paint.has_ne' hfl
      have e : psDraw N d = SAct.seq [ssay [.path (.orig d.pid)], setPaint d.fill,
          ssay [if d.evenOdd then SOp.eofill else SOp.fill]] := by
        funext w; simp [psDraw, hst, hfl]
      have h := SSimO.cons (path_simO (N := N) (.orig d.pid) w []) (SSimO.cons (setPaint_simO d.fill _ _)
        (SSimO.cons (fill_simO d.evenOdd _ _) (SSimO.nil _ _)))
      rw [e, hsg w]
      unfold SSimO at h
      refine ⟨?_, ?_⟩
      · rw [h]
        simp only [SAct.seq, ssay, List.nil_append, List.append_nil]
        rw [setPaint_w d.fill hfn w, psFillItem_paint]
        simp [refPaint, hst, hfl, psOpaque_fill _ hgf, hsg]
      · simp only [SAct.seq, ssay]
        rw [setPaint_w d.fill hfn w]
        exact PSWF_paint hw _
    · have e : psDraw N d = SAct.seq [] := by
        funext w; simp [psDraw, hst, hfl]
      rw [e]
      simp [SAct.seq, psRun, refPaint, hst, hfl, hw]

end
end Canvas.C12
