import CanvasProofs.Lemmas.C17Finish
/-! C17 helper lemmas, part 5: what a well-formed chain says about the returned breakpoints. -/
set_option linter.unusedSectionVars false
set_option linter.unusedVariables false
namespace Canvas.C17

section
variable {α : Type} [Add α] [Sub α] [Mul α] [Div α] [Neg α] [LT α] [LE α] [BEq α]
  [DecidableLT α] [DecidableLE α] [NatCast α]

theorem chain_sorted {P : Params α} {items : List (Item α)} {lineW : α} {tol : Option α} {fb : Bool}
    {ch : List (ND α)} (h : ChainOK P items lineW tol fb ch) :
    (nonRootPos ch).Pairwise (· > ·) ∧ ∀ c0 rest, ch = c0 :: rest → ∀ x, x ∈ nonRootPos ch → x ≤ c0.pos := by
  induction h with
  | root => exact ⟨List.Pairwise.nil, fun _ _ _ x hx => by simp [nonRootPos] at hx⟩
  | normal c p rest it h1 h2 h3 _ _ _ _ _ _ _ ih =>
    have key : ∀ x, x ∈ nonRootPos (p :: rest) → x < c.pos := by
      intro x hx
      rcases h3 with h3 | h3
      · exact Nat.lt_of_le_of_lt (ih.2 p rest rfl x hx) h3
      · subst h3; simp [nonRootPos] at hx
    refine ⟨?_, ?_⟩
    · show (c.pos :: nonRootPos (p :: rest)).Pairwise (· > ·)
      exact List.Pairwise.cons (fun x hx => key x hx) ih.1
    · intro c0 r0 he x hx
      injection he with he1 he2
      subst he1
      change x ∈ c.pos :: nonRootPos (p :: rest) at hx
      rcases List.mem_cons.mp hx with rfl | hx
      · exact Nat.le_refl _
      · exact Nat.le_of_lt (key x hx)
  | fallback c p rest _ h1 h2 h3 _ _ _ _ _ _ ih =>
    have key : ∀ x, x ∈ nonRootPos (p :: rest) → x < c.pos := by
      intro x hx
      rcases h3 with h3 | h3
      · exact Nat.lt_of_le_of_lt (ih.2 p rest rfl x hx) h3
      · subst h3; simp [nonRootPos] at hx
    refine ⟨?_, ?_⟩
    · show (c.pos :: nonRootPos (p :: rest)).Pairwise (· > ·)
      exact List.Pairwise.cons (fun x hx => key x hx) ih.1
    · intro c0 r0 he x hx
      injection he with he1 he2
      subst he1
      change x ∈ c.pos :: nonRootPos (p :: rest) at hx
      rcases List.mem_cons.mp hx with rfl | hx
      · exact Nat.le_refl _
      · exact Nat.le_of_lt (key x hx)

theorem chain_legal {P : Params α} {items : List (Item α)} {lineW : α} {tol : Option α} {fb : Bool}
    {ch : List (ND α)} (h : ChainOK P items lineW tol fb ch) :
    ∀ x, x ∈ nonRootPos ch → legalAt P items x = true := by
  induction h with
  | root => intro x hx; simp [nonRootPos] at hx
  | normal c p rest it h1 _ _ _ _ _ _ _ _ _ ih =>
    intro x hx
    change x ∈ c.pos :: nonRootPos (p :: rest) at hx
    rcases List.mem_cons.mp hx with rfl | hx
    · exact h1
    · exact ih x hx
  | fallback c p rest _ h1 _ _ _ _ _ _ _ _ ih =>
    intro x hx
    change x ∈ c.pos :: nonRootPos (p :: rest) at hx
    rcases List.mem_cons.mp hx with rfl | hx
    · exact h1
    · exact ih x hx

/-- sums after the previous break (`none`: start of the paragraph) -/
def afterSums (P : Params α) (items : List (Item α)) : Option Nat → α × α × α
  | none => (k 0, k 0, k 0)
  | some a => sumsAfter P items a

/-- the reported `Ratio`: the line's adjustment ratio, or 0 outside `[-1, Tolerance]` -/
def clampVal (P : Params α) (r : α) : α := if r < -(k 1 : α) || P.tolerance < r then k 0 else r

/-- the returned breakpoint `d` reports the measures of the line from the break `prev` to `d.pos`:
`Width = Σw(d.pos) [+ penalty width] − Σw(after prev)`, and its adjustment ratio `r` (computed
from the same sums) lies in `[-1, tol]` and is reported as `clampVal r`. -/
def LineOK (P : Params α) (items : List (Item α)) (lineW : α) (tol : Option α) (prev : Option Nat) (d : ND α) : Prop :=
  ∃ it r, items[d.pos]? = some it ∧
    adjRatio P lineW it (pre items d.pos).1 (pre items d.pos).2.1 (pre items d.pos).2.2
      (afterSums P items prev).1 (afterSums P items prev).2.1 (afterSums P items prev).2.2 = some r ∧
    feasAt tol r = true ∧ d.ratio = clampVal P r ∧
    d.width = widthAt items d.pos - (afterSums P items prev).1

/-- `LineOK` for every breakpoint of a list given latest first -/
def LinesOKr (P : Params α) (items : List (Item α)) (lineW : α) (tol : Option α) : List (ND α) → Prop
  | [] => True
  | [d] => LineOK P items lineW tol none d
  | d :: p :: rest => LineOK P items lineW tol (some p.pos) d ∧ LinesOKr P items lineW tol (p :: rest)

theorem clampRatio_ratio (P : Params α) (c : ND α) : (clampRatio P c).ratio = clampVal P c.ratio := by
  unfold clampRatio clampVal; split <;> rfl

theorem clampRatio_pos (P : Params α) (c : ND α) : (clampRatio P c).pos = c.pos := by
  unfold clampRatio; split <;> rfl

theorem chain_lines {P : Params α} {items : List (Item α)} {lineW : α} {tol : Option α}
    {ch : List (ND α)} (h : ChainOK P items lineW tol false ch) :
    LinesOKr P items lineW tol (fixNonRoot P ch) := by
  induction h with
  | root => exact True.intro
  | normal c p rest it h1 h2 h3 h4 h5 h6 h7 h8 h9 h10 ih =>
    cases h10 with
    | root =>
      -- first line: the parent is the root with zero sums
      show LineOK P items lineW tol none _
      refine ⟨it, c.ratio, ?_, ?_, h8, clampRatio_ratio P c, ?_⟩
      · simpa [clampRatio_pos] using h4
      · simpa [clampRatio_pos, afterSums, rootD] using h7
      · simp only [clampRatio_pos, afterSums, rootD, h6]
    | normal _ q rest' it' g1 g2 g3 g4 g5 g6 g7 g8 g9 g10 =>
      have hp : (p.w, p.y, p.z) = sumsAfter P items p.pos := g5
      have hw : p.w = (sumsAfter P items p.pos).1 := congrArg (·.1) hp
      have hy : p.y = (sumsAfter P items p.pos).2.1 := congrArg (·.2.1) hp
      have hz : p.z = (sumsAfter P items p.pos).2.2 := congrArg (·.2.2) hp
      refine ⟨?_, ih⟩
      simp only [clampRatio_pos]
      refine ⟨it, c.ratio, ?_, ?_, h8, clampRatio_ratio P c, ?_⟩
      · simpa [clampRatio_pos] using h4
      · simp only [afterSums, ← hw, ← hy, ← hz]; exact h7
      · simp only [afterSums, ← hw, h6]
    | fallback _ q rest' g0 => cases g0
  | fallback c p rest h0 => cases h0

/-- Every successful run on a paragraph that ends in a forced legal break returns the (reversed)
parent walk of one node of the final active list of a completed pass that satisfies the invariant. -/
theorem run_chain (hrefl : ∀ a : α, (a == a) = true) (P : Params α) (items : List (Item α)) (lineW : α)
    (loose : Int) (breaks : List (ND α)) (fit : Bool) (m : Nat) (hlen : items.length = m + 1)
    (hfo : forcedAt P items m = true) (hle : legalAt P items m = true)
    (h : linebreak P items lineW loose = Outcome.ok breaks fit) :
    ∃ tol ovf0 lb nb, passLoop P items lineW tol 0 none items (initLB ovf0) = PassRes.done lb ∧
      Inv P items lineW tol items.length lb ∧ nb ∈ lb.act ∧
      breaks = (fixNonRoot P (nb.d :: nb.anc)).reverse ∧ fit = !lb.ovf ∧ nb.d.pos = m ∧ nb.anc ≠ [] ∧
      (loose = 0 → chooseBest lb.act none = some nb) := by
  obtain ⟨tol, ovf0, lb, hp, hf⟩ := linebreakFuel_done P items lineW loose breaks fit _ _ _ h
  have hI : Inv P items lineW tol items.length lb :=
    passLoop_inv hrefl P items lineW tol items 0 (initLB ovf0) lb rfl (Nat.zero_le _)
      (inv_init P items lineW tol ovf0) hp
  obtain ⟨nb, hnb, hb, hfit, hpos, hanc, h0⟩ := finish_spec P items lineW tol loose lb m hlen hfo hle hI breaks fit hf
  exact ⟨tol, ovf0, lb, nb, hp, hI, hnb, hb, hfit, hpos, hanc, h0⟩

end
end Canvas.C17
