import CanvasProofs.Lemmas.C17Finish
/-! C17 helper lemmas, part 5: what a well-formed chain says about the returned breakpoints. -/
set_option linter.unusedSectionVars false
set_option linter.unusedVariables false
namespace Canvas.C17

section
variable {α : Type} [Add α] [Sub α] [Mul α] [Div α] [Neg α] [LT α] [LE α] [BEq α]
  [DecidableLT α] [DecidableLE α] [NatCast α]

theorem chain_sorted {P : Params α} {items : List (Item α)} {lineW : α} {tol : Option α} {fb : Bool}
    {ch : List (ND α)} (h : ChainOK P items lineW tol fb ch) :
    (nonRootPos ch).Pairwise (· > ·) ∧ ∀ c0 rest, ch = c0 :: rest → ∀ x, x ∈ nonRootPos ch → x ≤ c0.pos := by
  induction h with
  | root => exact ⟨List.Pairwise.nil, fun _ _ _ x hx => by simp [nonRootPos] at hx⟩
  | normal c p rest it h1 h2 h3 _ _ _ _ _ _ _ ih =>
    have key : ∀ x, x ∈ nonRootPos (p :: rest) → x < c.pos := by
      intro x hx
      rcases h3 with h3 | h3
      · exact Nat.lt_of_le_of_lt (ih.2 p rest rfl x hx) h3
      · subst h3; simp [nonRootPos] at hx
    refine ⟨?_, ?_⟩
    · show (c.pos :: nonRootPos (p :: rest)).Pairwise (· > ·)
      exact List.Pairwise.cons (fun x hx => key x hx) ih.1
    · intro c0 r0 he x hx
      injection he with he1 he2
      subst he1
      change x ∈ c.pos :: nonRootPos (p :: rest) at hx
      rcases List.mem_cons.mp hx with rfl | hx
      · exact Nat.le_refl _
      · exact Nat.le_of_lt (key x hx)
  | fallback c p rest _ h1 h2 h3 _ _ _ _ _ _ ih =>
    have key : ∀ x, x ∈ nonRootPos (p :: rest) → x < c.pos := by
      intro x hx
      rcases h3 with h3 | h3
      · exact Nat.lt_of_le_of_lt (ih.2 p rest rfl x hx) h3
      · subst h3; simp [nonRootPos] at hx
    refine ⟨?_, ?_⟩
    · show (c.pos :: nonRootPos (p :: rest)).Pairwise (· > ·)
      exact List.Pairwise.cons (fun x hx => key x hx) ih.1
    · intro c0 r0 he x hx
      injection he with he1 he2
      subst he1
      change x ∈ c.pos :: nonRootPos (p :: rest) at hx
      rcases List.mem_cons.mp hx with rfl | hx
      · exact Nat.le_refl _
      · exact Nat.le_of_lt (key x hx)

theorem chain_legal {P : Params α} {items : List (Item α)} {lineW : α} {tol : Option α} {fb : Bool}
    {ch : List (ND α)} (h : ChainOK P items lineW tol fb ch) :
    ∀ x, x ∈ nonRootPos ch → legalAt P items x = true := by
  induction h with
  | root => intro x hx; simp [nonRootPos] at hx
  | normal c p rest it h1 _ _ _ _ _ _ _ _ _ ih =>
    intro x hx
    change x ∈ c.pos :: nonRootPos (p :: rest) at hx
    rcases List.mem_cons.mp hx with rfl | hx
    · exact h1
    · exact ih x hx
  | fallback c p rest _ h1 _ _ _ _ _ _ _ _ ih =>
    intro x hx
    change x ∈ c.pos :: nonRootPos (p :: rest) at hx
    rcases List.mem_cons.mp hx with rfl | hx
    · exact h1
    · exact ih x hx

/-- sums after the previous break (`none`: start of the paragraph) -/
def afterSums (P : Params α) (items : List (Item α)) : Option Nat → α × α × α
  | none => (k 0, k 0, k 0)
  | some a => sumsAfter P items a

/-- the reported `Ratio`: the line's adjustment ratio, or 0 outside `[-1, Tolerance]` -/
def clampVal (P : Params α) (r : α) : α := if r < -(k 1 : α) || P.tolerance < r then k 0 else r

/-- the returned breakpoint `d` reports the measures of the line from the break `prev` to `d.pos`:
`Width = Σw(d.pos) [+ penalty width] − Σw(after prev)`, and its adjustment ratio `r` (computed
from the same sums) lies in `[-1, tol]` and is reported as `clampVal r`. -/
def LineOK (P : Params α) (items : List (Item α)) (lineW : α) (tol : Option α) (prev : Option Nat) (d : ND α) : Prop :=
  ∃ it r, items[d.pos]? = some it ∧
    adjRatio P lineW it (pre items d.pos).1 (pre items d.pos).2.1 (pre items d.pos).2.2
      (afterSums P items prev).1 (afterSums P items prev).2.1 (afterSums P items prev).2.2 = some r ∧
    feasAt tol r = true ∧ d.ratio = clampVal P r ∧
    d.width = widthAt items d.pos - (afterSums P items prev).1

/-- `LineOK` for every breakpoint of a list given latest first -/
def LinesOKr (P : Params α) (items : List (Item α)) (lineW : α) (tol : Option α) : List (ND α) → Prop
  | [] => True
  | [d] => LineOK P items lineW tol none d
  | d :: p :: rest => LineOK P items lineW tol (some p.pos) d ∧ LinesOKr P items lineW tol (p :: rest)

theorem clampRatio_ratio (P : Params α) (c : ND α) : (clampRatio P c).ratio = clampVal P c.ratio := by
  unfold clampRatio clampVal; split <;> rfl

theorem clampRatio_pos (P : Params α) (c : ND α) : (clampRatio P c).pos = c.pos := by
  unfold clampRatio; split <;> rfl

theorem chain_lines {P : Params α} {items : List (Item α)} {lineW : α} {tol : Option α}
    {ch : List (ND α)} (h : ChainOK P items lineW tol false ch) :
    LinesOKr P items lineW tol (fixNonRoot P ch) := by
  induction h with
  | root => exact True.intro
  | normal c p rest it h1 h2 h3 h4 h5 h6 h7 h8 h9 h10 ih =>
    cases h10 with
    | root =>
      -- first line: the parent is the root with zero sums
      show LineOK P items lineW tol none _
      refine ⟨it, c.ratio, ?_, ?_, h8, clampRatio_ratio P c, ?_⟩
      · simpa [clampRatio_pos] using h4
      · simpa [clampRatio_pos, afterSums, rootD] using h7
      · simp only [clampRatio_pos, afterSums, rootD, h6]
    | normal _ q rest' it' g1 g2 g3 g4 g5 g6 g7 g8 g9 g10 =>
      have hp : (p.w, p.y, p.z) = sumsAfter P items p.pos := g5
      have hw : p.w = (sumsAfter P items p.pos).1 := congrArg (·.1) hp
      have hy : p.y = (sumsAfter P items p.pos).2.1 := congrArg (·.2.1) hp
      have hz : p.z = (sumsAfter P items p.pos).2.2 := congrArg (·.2.2) hp
      refine ⟨?_, ih⟩
      simp only [clampRatio_pos]
      refine ⟨it, c.ratio, ?_, ?_, h8, clampRatio_ratio P c, ?_⟩
      · simpa [clampRatio_pos] using h4
      · simp only [afterSums, ← hw, ← hy, ← hz]; exact h7
      · simp only [afterSums, ← hw, h6]
    | fallback _ q rest' g0 => cases g0
  | fallback c p rest h0 => cases h0

/-- the breakpoint `d` was made by the overflow fallback: its `Width` is measured like every other
breakpoint's, its `Ratio` is reported as 0 and its class as 1 -/
def LineFb (P : Params α) (items : List (Item α)) (prev : Option Nat) (d : ND α) : Prop :=
  (∃ it, items[d.pos]? = some it) ∧ d.ratio = k 0 ∧ d.fit = 1 ∧
    d.width = widthAt items d.pos - (afterSums P items prev).1

/-- `LineOK` or `LineFb` for every breakpoint of a list given latest first -/
def LinesAnyr (P : Params α) (items : List (Item α)) (lineW : α) (tol : Option α) : List (ND α) → Prop
  | [] => True
  | [d] => LineOK P items lineW tol none d ∨ LineFb P items none d
  | d :: p :: rest => (LineOK P items lineW tol (some p.pos) d ∨ LineFb P items (some p.pos) d) ∧
      LinesAnyr P items lineW tol (p :: rest)

/-- the width every returned breakpoint reports: running width at the break (plus the width of a
penalty) minus the sums after the previous break -/
def WidthsOKr (P : Params α) (items : List (Item α)) : List (ND α) → Prop
  | [] => True
  | [d] => d.width = widthAt items d.pos - (afterSums P items none).1
  | d :: p :: rest => d.width = widthAt items d.pos - (afterSums P items (some p.pos)).1 ∧
      WidthsOKr P items (p :: rest)

theorem linesAny_widths {P : Params α} {items : List (Item α)} {lineW : α} {tol : Option α} :
    ∀ l : List (ND α), LinesAnyr P items lineW tol l → WidthsOKr P items l := by
  intro l
  induction l with
  | nil => intro _; exact True.intro
  | cons d rest ih =>
    intro h
    cases rest with
    | nil =>
      rcases h with ⟨_, _, _, _, _, _, hw⟩ | ⟨_, _, _, hw⟩ <;> exact hw
    | cons p rest' =>
      obtain ⟨h1, h2⟩ := h
      refine ⟨?_, ih h2⟩
      rcases h1 with ⟨_, _, _, _, _, _, hw⟩ | ⟨_, _, _, hw⟩ <;> exact hw

theorem legalAt_some {P : Params α} {items : List (Item α)} {b : Nat} (h : legalAt P items b = true) :
    ∃ it, items[b]? = some it := by
  unfold legalAt at h
  cases hb : items[b]? with
  | none => rw [hb] at h; cases h
  | some it => exact ⟨it, rfl⟩

/-- sums carried by the head of a well-formed chain: zero for the root, `Σ after` otherwise -/
theorem chain_head_sums {P : Params α} {items : List (Item α)} {lineW : α} {tol : Option α} {fb : Bool}
    {p : ND α} {rest : List (ND α)} (h : ChainOK P items lineW tol fb (p :: rest)) :
    (rest = [] ∧ p = rootD) ∨ (rest ≠ [] ∧ (p.w, p.y, p.z) = sumsAfter P items p.pos) := by
  cases h with
  | root => exact Or.inl ⟨rfl, rfl⟩
  | normal _ q r it g1 g2 g3 g4 g5 => exact Or.inr ⟨by simp, g5⟩
  | fallback _ q r g0 g1 g2 g3 g4 => exact Or.inr ⟨by simp, g4⟩

theorem clampRatio_zero (P : Params α) (c : ND α) (h : c.ratio = k 0) : (clampRatio P c).ratio = k 0 := by
  unfold clampRatio; split
  · rfl
  · exact h

theorem clampRatio_fit (P : Params α) (c : ND α) : (clampRatio P c).fit = c.fit := by
  unfold clampRatio; split <;> rfl

/-- every returned breakpoint, also after an overflow, reports the measures of its line -/
theorem chain_lines_any {P : Params α} {items : List (Item α)} {lineW : α} {tol : Option α} {fb : Bool}
    {ch : List (ND α)} (h : ChainOK P items lineW tol fb ch) :
    LinesAnyr P items lineW tol (fixNonRoot P ch) := by
  induction h with
  | root => exact True.intro
  | normal c p rest it h1 h2 h3 h4 h5 h6 h7 h8 h9 h10 ih =>
    rcases chain_head_sums h10 with ⟨hr, hp⟩ | ⟨hr, hp⟩
    · subst hr; subst hp
      show LineOK P items lineW tol none _ ∨ _
      left
      refine ⟨it, c.ratio, ?_, ?_, h8, clampRatio_ratio P c, ?_⟩
      · simpa [clampRatio_pos] using h4
      · simpa [clampRatio_pos, afterSums, rootD] using h7
      · simp only [clampRatio_pos, afterSums, rootD, h6]
    · cases rest with
      | nil => exact absurd rfl hr
      | cons q rest' =>
        have hw : p.w = (sumsAfter P items p.pos).1 := congrArg (·.1) hp
        have hy : p.y = (sumsAfter P items p.pos).2.1 := congrArg (·.2.1) hp
        have hz : p.z = (sumsAfter P items p.pos).2.2 := congrArg (·.2.2) hp
        refine ⟨Or.inl ?_, ih⟩
        simp only [clampRatio_pos]
        refine ⟨it, c.ratio, ?_, ?_, h8, clampRatio_ratio P c, ?_⟩
        · simpa [clampRatio_pos] using h4
        · simp only [afterSums, ← hw, ← hy, ← hz]; exact h7
        · simp only [afterSums, ← hw, h6]
  | fallback c p rest h0 h1 h2 h3 h4 h5 h6 h7 h8 h9 ih =>
    obtain ⟨it, hit⟩ := legalAt_some h1
    rcases chain_head_sums h9 with ⟨hr, hp⟩ | ⟨hr, hp⟩
    · subst hr; subst hp
      show _ ∨ LineFb P items none _
      right
      refine ⟨⟨it, by simpa [clampRatio_pos] using hit⟩, clampRatio_zero P c h6, ?_, ?_⟩
      · show (clampRatio P c).fit = 1
        rw [clampRatio_fit]; exact h7
      · simp only [clampRatio_pos, afterSums, rootD, h5]
    · cases rest with
      | nil => exact absurd rfl hr
      | cons q rest' =>
        have hw : p.w = (sumsAfter P items p.pos).1 := congrArg (·.1) hp
        refine ⟨Or.inr ?_, ih⟩
        simp only [clampRatio_pos]
        refine ⟨⟨it, by simpa [clampRatio_pos] using hit⟩, clampRatio_zero P c h6, ?_, ?_⟩
        · show (clampRatio P c).fit = 1
          rw [clampRatio_fit]; exact h7
        · simp only [afterSums, ← hw, h5]

/-- Every successful run on a paragraph that ends in a forced legal break returns the (reversed)
parent walk of one node of the final active list of a completed pass that satisfies the invariant. -/
theorem run_chain (hrefl : ∀ a : α, (a == a) = true) (P : Params α) (items : List (Item α)) (lineW : α)
    (loose : Int) (breaks : List (ND α)) (fit : Bool) (m : Nat) (hlen : items.length = m + 1)
    (hfo : forcedAt P items m = true) (hle : legalAt P items m = true)
    (h : linebreak P items lineW loose = Outcome.ok breaks fit) :
    ∃ tol ovf0 lb nb, passLoop P items lineW tol 0 none items (initLB ovf0) = PassRes.done lb ∧
      Inv P items lineW tol items.length lb ∧ nb ∈ lb.act ∧
      breaks = (fixNonRoot P (nb.d :: nb.anc)).reverse ∧ fit = !lb.ovf ∧ nb.d.pos = m ∧ nb.anc ≠ [] ∧
      (loose = 0 → chooseBest lb.act none = some nb) := by
  obtain ⟨tol, ovf0, lb, hp, hf⟩ := linebreakFuel_done P items lineW loose breaks fit _ _ _ h
  have hI : Inv P items lineW tol items.length lb :=
    passLoop_inv hrefl P items lineW tol items 0 (initLB ovf0) lb rfl (Nat.zero_le _)
      (inv_init P items lineW tol ovf0) hp
  obtain ⟨nb, hnb, hb, hfit, hpos, hanc, h0⟩ := finish_spec P items lineW tol loose lb m hlen hfo hle hI breaks fit hf
  exact ⟨tol, ovf0, lb, nb, hp, hI, hnb, hb, hfit, hpos, hanc, h0⟩

end
end Canvas.C17
