import CanvasProofs.Lemmas.C17Opt3
/-! C17, towards `optimal`, part 4: DP completeness. For a well-formed paragraph and any legal
breaking `seq` whose lines are all feasible (measured as the code measures them), the first pass
runs to completion with a node in the final active list that costs no more than `seq`. -/
set_option linter.unusedSectionVars false
set_option linter.unusedVariables false
namespace Canvas.C17

section
variable {α : Type} [Add α] [Sub α] [Mul α] [Div α] [Neg α] [LT α] [LE α] [BEq α]
  [DecidableLT α] [DecidableLE α] [NatCast α]

/-- total demerits of the breaking `seq` continued after a break `prev` whose line had class `fit`
and accumulated demerits `acc`; `none` if some break is illegal or some line is not feasible.
Lines are measured like the code does (running sums, `adjRatio`). -/
def seqCost (P : Params α) (items : List (Item α)) (lineW : α) (tol : Option α) :
    Option Nat → Nat → α → List Nat → Option α
  | _, _, acc, [] => some acc
  | prev, fit, acc, b :: rest =>
    match items[b]? with
    | none => none
    | some it =>
      if legalAt P items b = true then
        match adjRatio P lineW it (pre items b).1 (pre items b).2.1 (pre items b).2.2
            (afterSums P items prev).1 (afterSums P items prev).2.1 (afterSums P items prev).2.2 with
        | none => none
        | some r =>
          if feasAt tol r = true then
            seqCost P items lineW tol (some b) (fitClass r)
              (lineDemerits P it r (flaggedAtOpt items prev) fit + acc) rest
          else none
      else none

/-- no forced break is skipped: none lies strictly between consecutive breaks of the sequence -/
def NoSkip (P : Params α) (items : List (Item α)) : Option Nat → List Nat → Prop
  | _, [] => True
  | prev, x :: rest =>
    (∀ f, (∀ a, prev = some a → a < f) → f < x → forcedAt P items f = false) ∧ NoSkip P items (some x) rest

end

section field
variable {K : Type} [Field K] [LinearOrder K] [IsStrictOrderedRing K]

/-- line demerits before the fitness-class term -/
def lineDem1 (P : Params K) (it : Item K) (r : K) (fl : Bool) : K :=
  let a := absS r
  let badness := k 100 * (a * a * a)
  let base := P.demLine + badness
  let d0 :=
    if it.ty = Ty.penalty && decide (k 0 ≤ it.penalty) then (base + it.penalty) * (base + it.penalty)
    else if it.ty = Ty.penalty && decide (-P.infinity < it.penalty) then base * base - it.penalty * it.penalty
    else base * base
  if fl && it.flagged then d0 + P.demFlagged else d0

theorem lineDemerits_eq (P : Params K) (it : Item K) (r : K) (fl : Bool) (f : Nat) :
    lineDemerits P it r fl f =
      if (decide (fitClass r + 1 < f) || decide (f + 1 < fitClass r)) = true then lineDem1 P it r fl + P.demFitness
      else lineDem1 P it r fl := rfl

theorem lineDemerits_fit_le (P : Params K) (it : Item K) (r : K) (fl : Bool) (f1 f2 : Nat)
    (hDF : 0 ≤ P.demFitness) : lineDemerits P it r fl f1 ≤ lineDemerits P it r fl f2 + P.demFitness := by
  rw [lineDemerits_eq, lineDemerits_eq]
  generalize lineDem1 P it r fl = d1
  split <;> split <;> linarith

/-- the node stands for the break `prev`: it carries the sums after it and its flag -/
def AtPrev (P : Params K) (items : List (Item K)) (n : Node K) (prev : Option Nat) : Prop :=
  (n.d.w, n.d.y, n.d.z) = afterSums P items prev ∧ flaggedAt items n.d.pos = flaggedAtOpt items prev

/-- continuing from `n` costs no more than continuing from a break of class `fit` with `acc` demerits -/
def Dom (P : Params K) (n : Node K) (fit : Nat) (acc : K) : Prop :=
  (n.d.fit = fit ∧ n.d.dem ≤ acc) ∨ n.d.dem + P.demFitness ≤ acc

/-- well-formedness of the paragraph (see `C17.WellFormed`) -/
structure WF (P : Params K) (items : List (Item K)) (lineW : K) : Prop where
  inf : 0 < P.infinity
  df : 0 ≤ P.demFitness
  lw : 0 < lineW
  itemsOK : ItemsOK items
  box : ∀ a b, a < b → legalAt P items a = true → legalAt P items b = true → lineStart P items (some a) ≤ b
  fl : flaggedAt items 0 = false
  np : ∀ b it, items[b]? = some it → it.ty = Ty.glue → b + 1 < items.length
  epsNonneg : 0 ≤ P.eps
  /-- the exact-fit guard of `computeAdjustmentRatio` (bb6487a: `|L−W| ≤ eps·W ⇒ L := W`,
  `|r+1| ≤ eps ⇒ r := −1`, `eps = 1e-10` in the code) does not alter the ratio of any candidate line:
  no line lies strictly inside the guard band. Trivial for `eps = 0` (`wf_snap_of_eps0`). -/
  snap : ∀ (prev : Option Nat) (b : Nat) (it : Item K), items[b]? = some it →
    (∀ a, prev = some a → a < items.length) →
    adjRatio P lineW it (pre items b).1 (pre items b).2.1 (pre items b).2.2
      (afterSums P items prev).1 (afterSums P items prev).2.1 (afterSums P items prev).2.2 =
    adjRatio0 P lineW it (pre items b).1 (pre items b).2.1 (pre items b).2.2
      (afterSums P items prev).1 (afterSums P items prev).2.1 (afterSums P items prev).2.2

/-- the guard-band condition of `WF` for `eps = 0` -/
theorem wf_snap_of_eps0 (P : Params K) (items : List (Item K)) (lineW : K) (h : P.eps = 0)
    (prev : Option Nat) (b : Nat) (it : Item K) :
    adjRatio P lineW it (pre items b).1 (pre items b).2.1 (pre items b).2.2
      (afterSums P items prev).1 (afterSums P items prev).2.1 (afterSums P items prev).2.2 =
    adjRatio0 P lineW it (pre items b).1 (pre items b).2.1 (pre items b).2.2
      (afterSums P items prev).1 (afterSums P items prev).2.1 (afterSums P items prev).2.2 :=
  adjRatio_eps0 P lineW it _ _ _ _ _ _ h

/-- executable form of the guard-band condition: the guard changes no candidate ratio -/
def snapFreeB (P : Params K) (items : List (Item K)) (lineW : K) : Bool :=
  (List.range items.length).all fun b =>
    match items[b]? with
    | none => true
    | some it =>
      (none :: (List.range items.length).map some).all fun prev =>
        decide (adjRatio P lineW it (pre items b).1 (pre items b).2.1 (pre items b).2.2
            (afterSums P items prev).1 (afterSums P items prev).2.1 (afterSums P items prev).2.2 =
          adjRatio0 P lineW it (pre items b).1 (pre items b).2.1 (pre items b).2.2
            (afterSums P items prev).1 (afterSums P items prev).2.1 (afterSums P items prev).2.2)

theorem snap_of_snapFreeB (P : Params K) (items : List (Item K)) (lineW : K) (h : snapFreeB P items lineW = true)
    (prev : Option Nat) (b : Nat) (it : Item K) (hit : items[b]? = some it)
    (hp : ∀ a, prev = some a → a < items.length) :
    adjRatio P lineW it (pre items b).1 (pre items b).2.1 (pre items b).2.2
      (afterSums P items prev).1 (afterSums P items prev).2.1 (afterSums P items prev).2.2 =
    adjRatio0 P lineW it (pre items b).1 (pre items b).2.1 (pre items b).2.2
      (afterSums P items prev).1 (afterSums P items prev).2.1 (afterSums P items prev).2.2 := by
  unfold snapFreeB at h
  have hb : b < items.length := (List.getElem?_eq_some_iff.mp hit).1
  have h1 := List.all_eq_true.mp h b (List.mem_range.mpr hb)
  rw [hit] at h1
  simp only at h1
  have hmem : prev ∈ none :: (List.range items.length).map some := by
    cases prev with
    | none => exact List.mem_cons_self
    | some a => exact List.mem_cons_of_mem _ (List.mem_map.mpr ⟨a, List.mem_range.mpr (hp a rfl), rfl⟩)
  have h2 := List.all_eq_true.mp h1 prev hmem
  exact of_decide_eq_true h2

theorem afterSums_le (P : Params K) (items : List (Item K)) (lineW : K) (hwf : WF P items lineW)
    (prev : Option Nat) (b : Nat) (hprev : ∀ a, prev = some a → a < b ∧ legalAt P items a = true)
    (hleg : legalAt P items b = true) :
    (afterSums P items prev).2.1 ≤ (pre items b).2.1 ∧ (afterSums P items prev).2.2 ≤ (pre items b).2.2 := by
  have hs : ∃ s, s ≤ b ∧ afterSums P items prev = pre items s := by
    cases prev with
    | none => exact ⟨0, Nat.zero_le _, by simp [afterSums, pre, k]⟩
    | some a =>
      obtain ⟨h1, h2⟩ := hprev a rfl
      exact ⟨_, hwf.box a b h1 h2 hleg, sumsAfter_eq_pre P items a⟩
  obtain ⟨s, hsb, hs⟩ := hs
  rw [hs]
  obtain ⟨_, h2, h3, _⟩ := pre_mono items hwf.itemsOK s (b - s)
  have e : s + (b - s) = b := by omega
  rw [e] at h2 h3
  exact ⟨h2, h3⟩

end field
end Canvas.C17
