import CanvasModel.C14
import Mathlib.Tactic.Ring
import Mathlib.Tactic.Linarith
import Mathlib.Tactic.Push
set_option linter.unusedSimpArgs false
set_option linter.unusedVariables false

/-! The bounding-box shortcuts of the PIX verdict handler do not change the winding number. -/
namespace Canvas.C14
open Canvas.Wn

/-- an edge lying entirely above, below or to the left of the point does not count -/
theorem edgeW_zero (p a b : IPt)
    (h : (p.y < a.y ∧ p.y < b.y) ∨ (a.y < p.y ∧ b.y < p.y) ∨ (a.x < p.x ∧ b.x < p.x)) : edgeW p a b = 0 := by
  unfold edgeW
  by_cases h1 : a.y ≤ p.y ∧ p.y < b.y
  · simp only [h1, and_self, if_true]
    have hx : a.x < p.x ∧ b.x < p.x := by
      rcases h with h | h | h
      · omega
      · omega
      · exact h
    have : ¬ (0 < isLeft a b p) := by
      unfold isLeft
      have e1 : 0 ≤ p.y - a.y := by omega
      have e2 : p.y - a.y < b.y - a.y := by omega
      have e3 : 0 < p.x - a.x := by omega
      have e4 : b.x - a.x < p.x - a.x := by omega
      by_cases hb : b.x - a.x ≤ 0
      · have : (b.x - a.x) * (p.y - a.y) ≤ 0 := Int.mul_nonpos_of_nonpos_of_nonneg hb e1
        have : 0 < (p.x - a.x) * (b.y - a.y) := Int.mul_pos e3 (by omega)
        omega
      · have hb' : 0 < b.x - a.x := by omega
        have s1 : (b.x - a.x) * (p.y - a.y) ≤ (b.x - a.x) * (b.y - a.y) :=
          Int.mul_le_mul_of_nonneg_left (by omega) (by omega)
        have s2 : (b.x - a.x) * (b.y - a.y) < (p.x - a.x) * (b.y - a.y) :=
          Int.mul_lt_mul_of_pos_right e4 (by omega)
        omega
    simp [this]
  · by_cases h2 : b.y ≤ p.y ∧ p.y < a.y
    · simp only [h1, h2, and_self, if_true, if_false]
      have hx : a.x < p.x ∧ b.x < p.x := by
        rcases h with h | h | h
        · omega
        · omega
        · exact h
      have : ¬ (isLeft a b p < 0) := by
        unfold isLeft
        -- isLeft a b p = (b.x-a.x)(p.y-a.y) - (p.x-a.x)(b.y-a.y) with b.y-a.y < 0 ≤ ... rewrite around b
        have e1 : p.y - a.y < 0 := by omega
        have e2 : b.y - a.y ≤ p.y - a.y := by omega
        have e3 : 0 < p.x - a.x := by omega
        have e4 : b.x - a.x < p.x - a.x := by omega
        by_cases hb : 0 ≤ b.x - a.x
        · -- (b.x-a.x)(p.y-a.y) ≥ (b.x-a.x)... both factors: nonneg * negative
          have s1 : (p.x - a.x) * (b.y - a.y) ≤ (p.x - a.x) * (p.y - a.y) :=
            Int.mul_le_mul_of_nonneg_left e2 (by omega)
          have s2 : (p.x - a.x) * (p.y - a.y) ≤ (b.x - a.x) * (p.y - a.y) :=
            Int.mul_le_mul_of_nonpos_right (by omega) (by omega)
          omega
        · have hb' : b.x - a.x < 0 := by omega
          have s1 : 0 < (b.x - a.x) * (p.y - a.y) := Int.mul_pos_of_neg_of_neg hb' e1
          have s2 : (p.x - a.x) * (b.y - a.y) < 0 := Int.mul_neg_of_pos_of_neg e3 (by omega)
          omega
      simp [this]
    · simp [h1, h2]

/-- the three one-sided conditions on a vertex -/
inductive Side | above | below | left
deriving DecidableEq

def Side.holds (s : Side) (p v : IPt) : Prop :=
  match s with
  | .above => p.y < v.y
  | .below => v.y < p.y
  | .left => v.x < p.x

theorem chainW_zero (s : Side) (p : IPt) (l : List IPt) (h : ∀ v ∈ l, s.holds p v) : chainW p l = 0 := by
  induction l with
  | nil => simp [chainW]
  | cons a t ih =>
    cases t with
    | nil => simp [chainW]
    | cons b t' =>
      simp only [chainW]
      have ha := h a (by simp)
      have hb := h b (by simp)
      have e : edgeW p a b = 0 := by
        apply edgeW_zero
        cases s
        · left; exact ⟨ha, hb⟩
        · right; left; exact ⟨ha, hb⟩
        · right; right; exact ⟨ha, hb⟩
      rw [e, ih (fun v hv => h v (by simp [hv]))]
      rfl

theorem wn1_zero (s : Side) (p : IPt) (poly : List IPt) (h : ∀ v ∈ poly, s.holds p v) : wn1 p poly = 0 := by
  unfold wn1
  cases poly with
  | nil => rfl
  | cons a t =>
    apply chainW_zero s
    intro v hv
    simp only [List.mem_append, List.mem_singleton] at hv
    rcases hv with hv | hv
    · exact h v hv
    · subst hv; exact h _ (by simp)

/-! ### the bounding box really bounds -/

theorem foldl_box (rest : List IPt) (b : BPoly) :
    let r := rest.foldl boxStep b
    r.pts = b.pts ∧ r.xmin ≤ b.xmin ∧ b.xmax ≤ r.xmax ∧ r.ymin ≤ b.ymin ∧ b.ymax ≤ r.ymax ∧
    ∀ v ∈ rest, r.xmin ≤ v.x ∧ v.x ≤ r.xmax ∧ r.ymin ≤ v.y ∧ v.y ≤ r.ymax := by
  induction rest generalizing b with
  | nil => simp
  | cons w t ih =>
    simp only [List.foldl_cons]
    obtain ⟨h0, h1, h2, h3, h4, h5⟩ := ih (boxStep b w)
    refine ⟨by simpa [boxStep] using h0, ?_, ?_, ?_, ?_, ?_⟩
    · have : (boxStep b w).xmin ≤ b.xmin := by simp only [boxStep]; omega
      omega
    · have : b.xmax ≤ (boxStep b w).xmax := by simp only [boxStep]; omega
      omega
    · have : (boxStep b w).ymin ≤ b.ymin := by simp only [boxStep]; omega
      omega
    · have : b.ymax ≤ (boxStep b w).ymax := by simp only [boxStep]; omega
      omega
    · intro v hv
      simp only [List.mem_cons] at hv
      rcases hv with hv | hv
      · subst hv
        have a1 : (boxStep b v).xmin ≤ v.x := by simp only [boxStep]; omega
        have a2 : v.x ≤ (boxStep b v).xmax := by simp only [boxStep]; omega
        have a3 : (boxStep b v).ymin ≤ v.y := by simp only [boxStep]; omega
        have a4 : v.y ≤ (boxStep b v).ymax := by simp only [boxStep]; omega
        omega
      · exact h5 v hv

theorem mkBPoly_pts (pts : List IPt) : (mkBPoly pts).pts = pts := by
  cases pts with
  | nil => rfl
  | cons a rest =>
    exact (foldl_box rest ⟨a :: rest, a.x, a.x, a.y, a.y⟩).1

theorem mkBPoly_bounds (pts : List IPt) :
    ∀ v ∈ pts, (mkBPoly pts).xmin ≤ v.x ∧ v.x ≤ (mkBPoly pts).xmax ∧ (mkBPoly pts).ymin ≤ v.y ∧ v.y ≤ (mkBPoly pts).ymax := by
  cases pts with
  | nil => intro v hv; cases hv
  | cons a rest =>
    obtain ⟨_, h1, h2, h3, h4, h5⟩ := foldl_box rest ⟨a :: rest, a.x, a.x, a.y, a.y⟩
    intro v hv
    have e : mkBPoly (a :: rest) = rest.foldl boxStep ⟨a :: rest, a.x, a.x, a.y, a.y⟩ := rfl
    rw [e]
    simp only [List.mem_cons] at hv
    rcases hv with hv | hv
    · subst hv
      simp only at h1 h2 h3 h4
      omega
    · exact h5 v hv

/-- the shortcut winding number of a boxed contour is the winding number -/
theorem BPoly_wn1 (pts : List IPt) (p : IPt) : (mkBPoly pts).wn1 p = wn1 p pts := by
  unfold BPoly.wn1
  have hb := mkBPoly_bounds pts
  by_cases h1 : p.y < (mkBPoly pts).ymin
  · simp only [h1, decide_true, Bool.true_or, if_true]
    exact (wn1_zero .above p pts (fun v hv => by have := hb v hv; simp only [Side.holds]; omega)).symm
  · by_cases h2 : (mkBPoly pts).ymax < p.y
    · simp only [h2, decide_true, Bool.true_or, Bool.or_true, if_true]
      exact (wn1_zero .below p pts (fun v hv => by have := hb v hv; simp only [Side.holds]; omega)).symm
    · by_cases h3 : (mkBPoly pts).xmax < p.x
      · simp only [h3, decide_true, Bool.or_true, if_true]
        exact (wn1_zero .left p pts (fun v hv => by have := hb v hv; simp only [Side.holds]; omega)).symm
      · simp [h1, h2, h3, mkBPoly_pts]

theorem BDraw_filled (d : IDraw) (p : IPt) : (mkBDraw d).filled p = filled d.rule d.polys p := by
  unfold BDraw.filled filled wn mkBDraw
  simp only [List.map_map]
  congr 2
  apply List.map_congr_left
  intro c _
  exact BPoly_wn1 c p

theorem ownerFastAux_eq (p : IPt) (ds : List IDraw) (k acc : Nat) :
    ownerFastAux p (ds.map mkBDraw) k acc = ownerAux p ds k acc := by
  induction ds generalizing k acc with
  | nil => rfl
  | cons d ds ih =>
    simp only [List.map_cons, ownerFastAux, ownerAux, BDraw_filled]
    exact ih _ _

end Canvas.C14
