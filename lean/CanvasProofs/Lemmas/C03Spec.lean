import CanvasModel.C03
import Mathlib.Algebra.Order.Field.Basic
import Mathlib.Tactic.Ring
import Mathlib.Tactic.Linarith
/-! C03: soundness of the executable flattening verdict `coveredBy` over an ordered field. -/
set_option linter.unusedSectionVars false
namespace C03L
open Canvas Canvas.C03
variable {K : Type} [Field K] [LinearOrder K] [IsStrictOrderedRing K]

theorem footParam_mem (p a b : Pt K) : 0 ≤ footParam p a b ∧ footParam p a b ≤ 1 := by
  unfold footParam
  simp only
  split_ifs <;> constructor <;> linarith

/-- one edge: the verdict distance is attained by a point of the segment -/
theorem distSq_sound (p a b : Pt K) (r2 : K) (h : distSqPointSeg p a b ≤ r2) :
    ∃ t : K, 0 ≤ t ∧ t ≤ 1 ∧ distSqAt p a b t ≤ r2 :=
  ⟨footParam p a b, (footParam_mem p a b).1, (footParam_mem p a b).2, h⟩

theorem mem_edges_sublist {β : Type} : ∀ (l : List β) (e : β × β), e ∈ edges l → e.1 ∈ l ∧ e.2 ∈ l
  | [], e, h => by simp [edges] at h
  | [_], e, h => by simp [edges] at h
  | a :: b :: rest, e, h => by
    simp only [edges, List.mem_cons] at h
    rcases h with rfl | h
    · simp
    · have := mem_edges_sublist (b :: rest) e h
      exact ⟨List.mem_cons_of_mem _ this.1, List.mem_cons_of_mem _ this.2⟩

/-- SOUNDNESS: verdict ok ⇒ for every sample there are an edge (a,b) of the polyline and a point
a + t·(b−a), 0 ≤ t ≤ 1, of that edge at squared distance ≤ r2 from the sample. -/
theorem coveredBy_sound (r2 : K) (samples poly : List (Pt K)) (h : coveredBy r2 samples poly = true) :
    ∀ s ∈ samples, ∃ e ∈ edges poly, ∃ t : K, 0 ≤ t ∧ t ≤ 1 ∧ distSqAt s e.1 e.2 t ≤ r2 := by
  intro s hs
  simp only [coveredBy, List.all_eq_true] at h
  have := h s hs
  simp only [nearPolyline, List.any_eq_true, decide_eq_true_eq] at this
  obtain ⟨e, he, hd⟩ := this
  exact ⟨e, he, distSq_sound s e.1 e.2 r2 hd⟩

/-- the verdict is monotone in the radius -/
theorem coveredBy_mono (r2 r2' : K) (hr : r2 ≤ r2') (samples poly : List (Pt K))
    (h : coveredBy r2 samples poly = true) : coveredBy r2' samples poly = true := by
  simp only [coveredBy, List.all_eq_true, nearPolyline, List.any_eq_true, decide_eq_true_eq] at *
  intro s hs
  obtain ⟨e, he, hd⟩ := h s hs
  exact ⟨e, he, le_trans hd hr⟩

/-- the verdict is invariant under translation of samples and polyline -/
theorem distSqPointSeg_translate (p a b v : Pt K) :
    distSqPointSeg ⟨p.x + v.x, p.y + v.y⟩ ⟨a.x + v.x, a.y + v.y⟩ ⟨b.x + v.x, b.y + v.y⟩ = distSqPointSeg p a b := by
  have hf : footParam (⟨p.x + v.x, p.y + v.y⟩ : Pt K) ⟨a.x + v.x, a.y + v.y⟩ ⟨b.x + v.x, b.y + v.y⟩ = footParam p a b := by
    unfold footParam
    simp only
    have e1 : b.x + v.x - (a.x + v.x) = b.x - a.x := by ring
    have e2 : b.y + v.y - (a.y + v.y) = b.y - a.y := by ring
    have e3 : p.x + v.x - (a.x + v.x) = p.x - a.x := by ring
    have e4 : p.y + v.y - (a.y + v.y) = p.y - a.y := by ring
    rw [e1, e2, e3, e4]
  unfold distSqPointSeg
  rw [hf]
  unfold distSqAt
  simp only
  ring

end C03L
