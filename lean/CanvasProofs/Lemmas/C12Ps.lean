import CanvasProofs.Lemmas.C12
/-!
C12, PostScript: every `set*` of the PS state cache is simulated by the interpreter from the state the
cache claims (with an arbitrary current path), `gsave fill grestore` restores it (since b63a583 the
colour cache compares like with like and needs no hypothesis).
-/
namespace Canvas.C12
section
variable {ν : Type} {N : Num ν}

/-- the interpreter state the cache claims, with current path `c` -/
def sgC (N : Num ν) (w : SW ν) (c : List PathRef) : SG ν := { sgOf N w with cur := c }

/-- action `a` from cache `w` and current path `c` ends in the claimed state with current path `c'` -/
def SSim (N : Num ν) (a : SAct ν) (w : SW ν) (c c' : List PathRef) : Prop :=
  (psRun (sgC N w c) (a w).2).1 = sgC N (a w).1 c'

theorem SSim.nil (w : SW ν) (c : List PathRef) : SSim N (SAct.seq []) w c c := by
  simp [SSim, SAct.seq, psRun]

theorem SSim.cons {a : SAct ν} {as : List (SAct ν)} {w : SW ν} {c c' c'' : List PathRef}
    (h1 : SSim N a w c c') (h2 : SSim N (SAct.seq as) (a w).1 c' c'') : SSim N (SAct.seq (a :: as)) w c c'' := by
  unfold SSim at *
  simp [SAct.seq, psRun_append, h1, h2]

theorem SAct.seq_append (as bs : List (SAct ν)) (w : SW ν) :
    SAct.seq (as ++ bs) w =
      ((SAct.seq bs (SAct.seq as w).1).1, (SAct.seq as w).2 ++ (SAct.seq bs (SAct.seq as w).1).2) := by
  induction as generalizing w with
  | nil => simp [SAct.seq]
  | cons a as ih => simp [SAct.seq, ih, List.append_assoc]

theorem SSim.append {as bs : List (SAct ν)} {w : SW ν} {c c' c'' : List PathRef}
    (h1 : SSim N (SAct.seq as) w c c') (h2 : SSim N (SAct.seq bs) (SAct.seq as w).1 c' c'') :
    SSim N (SAct.seq (as ++ bs)) w c c'' := by
  unfold SSim at *
  simp [SAct.seq_append, psRun_append, h1, h2]

theorem colorOp_col (t : Nat × Nat × Nat) (g : SG ν) :
    (psStep g (colorOp t)).1 = { g with col := t } ∧ (psStep g (colorOp (ν := ν) t)).2 = [] := by
  obtain ⟨a, b, c⟩ := t
  unfold colorOp
  by_cases h : (a == b && a == c) = true
  · have : a = b ∧ a = c := by simpa using h
    obtain ⟨rfl, rfl⟩ := this
    simp [psStep]
  · simp [h, psStep]

theorem setPaint_sim (p : Paint) (w : SW ν) (c : List PathRef) : SSim N (setPaint p) w c c := by
  unfold SSim setPaint
  split
  · simp [psRun]
  · by_cases hd : (p.nrgb != w.paint.nrgb) = true
    · simp only [hd, if_true, psRun, (colorOp_col _ _).1]
      simp [sgC, sgOf]
    · have he : p.nrgb = w.paint.nrgb := by simpa using hd
      simp [psRun, sgC, sgOf, he]

theorem psSetLineWidth_sim (x : ν) (hx : N.beq x N.zero = false) (w : SW ν) (c : List PathRef) :
    SSim N (psSetLineWidth N x) w c c := by
  unfold SSim psSetLineWidth
  split <;> simp [psRun, psStep, sgC, sgOf, hx]

theorem psSetMiterLimit_sim (x : ν) (w : SW ν) (c : List PathRef) : SSim N (psSetMiterLimit N x) w c c := by
  unfold SSim psSetMiterLimit
  split <;> simp [psRun, psStep, sgC, sgOf]

theorem psSetLineCap_sim (k : Nat) (w : SW ν) (c : List PathRef) : SSim N (psSetLineCap k) w c c := by
  unfold SSim psSetLineCap
  split <;> simp [psRun, psStep, sgC, sgOf]

theorem psSetLineJoin_sim (jn : Join ν) (hj : jn.pdfOk = true) (w : SW ν) (c : List PathRef) :
    SSim N (psSetLineJoin N jn) w c c := by
  unfold SSim psSetLineJoin
  split
  · cases jn with
    | bevel => simp [psRun, psStep, sgC, sgOf, psJoinCode]
    | round => simp [psRun, psStep, sgC, sgOf, psJoinCode]
    | arcs g l => simp [Join.pdfOk] at hj
    | miter g l =>
      cases l with
      | none => simp [Join.pdfOk] at hj
      | some l =>
        have : g = 0 := by simpa [Join.pdfOk] using hj
        subst this
        simp only [psSetMiterLimit]
        split <;> simp [psRun, psStep, sgC, sgOf, psJoinCode]
  · simp [psRun]

theorem psSetDashes_sim (o : ν) (a : List ν) (w : SW ν) (c : List PathRef) : SSim N (psSetDashes N o a) w c c := by
  unfold SSim psSetDashes
  split <;> simp [psRun, psStep, sgC, sgOf]

theorem path_sim (p : PathRef) (w : SW ν) (c : List PathRef) : SSim N (ssay [.path p]) w c (c ++ [p]) := by
  simp [SSim, ssay, psRun, psStep, sgC, sgOf]
  try rfl

/-- `gsave fill grestore`: paints and gives the path back -/
theorem gsave_fill_grestore_sim (eo : Bool) (w : SW ν) (c : List PathRef) :
    SSim N (ssay [.gsave, (if eo then SOp.eofill else SOp.fill), .grestore]) w c c := by
  cases eo <;> by_cases hc : c.isEmpty = true <;> simp [SSim, ssay, psRun, psStep, sgC, sgOf, hc]

theorem fill_sim (eo : Bool) (w : SW ν) (c : List PathRef) :
    SSim N (ssay [if eo then SOp.eofill else SOp.fill]) w c [] := by
  cases eo <;> by_cases hc : c.isEmpty = true <;> simp [SSim, ssay, psRun, psStep, sgC, sgOf, hc]

theorem stroke_sim (w : SW ν) (c : List PathRef) : SSim N (ssay [.stroke]) w c [] := by
  by_cases hc : c.isEmpty = true <;> simp [SSim, ssay, psRun, psStep, sgC, sgOf, hc] <;> rfl

end
end Canvas.C12

namespace Canvas.C12
section
variable {ν : Type} {N : Num ν}

/-- stroke tail of `PS.RenderPath`: setPaint, setlinewidth, setlinecap, setlinejoin(+miterlimit), setdash, stroke -/
def psStrokeTail (N : Num ν) (s : Paint) (x : ν) (k : Nat) (jn : Join ν) (o : ν) (a : List ν) : List (SAct ν) :=
  [setPaint s, psSetLineWidth N x, psSetLineCap k, psSetLineJoin N jn, psSetDashes N o a, ssay [.stroke]]

theorem psStrokeTail_sim (s : Paint) (x : ν) (k : Nat) (jn : Join ν) (o : ν) (a : List ν) (w : SW ν) (c : List PathRef)
    (hx : N.beq x N.zero = false) (hj : jn.pdfOk = true) :
    SSim N (SAct.seq (psStrokeTail N s x k jn o a)) w c [] := by
  unfold psStrokeTail
  exact SSim.cons (setPaint_sim s w c)
    (SSim.cons (psSetLineWidth_sim x hx _ c)
      (SSim.cons (psSetLineCap_sim k _ c)
        (SSim.cons (psSetLineJoin_sim jn hj _ c)
          (SSim.cons (psSetDashes_sim o a _ c)
            (SSim.cons (stroke_sim _ c) (SSim.nil _ _))))))

/-- one `PS.RenderPath` call from ANY cache: afterwards the interpreter is in the state the new cache claims -/
theorem psDraw_inv (L : Lawful N) (d : Draw ν) (w : SW ν) :
    (psRun (sgOf N w) (psDraw N d w).2).1 = sgOf N (psDraw N d w).1 := by
  have hsg : ∀ w : SW ν, sgOf N w = sgC N w [] := fun w => by simp [sgC, sgOf]
  by_cases hst : d.hasStroke N d.join.pdfOk = true
  · have hx : N.beq (d.w' N d.join.pdfOk) N.zero = false :=
      L.pos_ne_zero _ (by simp [Draw.hasStroke] at hst; exact hst.2)
    by_cases hn : d.native d.join.pdfOk = true
    · have hj : d.join.pdfOk = true := by simp [Draw.native] at hn; exact hn.1
      by_cases hfl : d.hasFill = true
      · have e : psDraw N d = SAct.seq ([ssay [.path (.orig d.pid)], setPaint d.fill,
            ssay [.gsave, (if d.evenOdd then SOp.eofill else SOp.fill), .grestore]] ++
            psStrokeTail N d.stroke (d.w' N d.join.pdfOk) d.cap d.join (d.off' N d.join.pdfOk) (d.dashes' N d.join.pdfOk)) := by
          funext w; simp [psDraw, hst, hn, hfl, psStrokeTail]
        have h1 : SSim N (SAct.seq [ssay [.path (.orig d.pid)], setPaint d.fill,
            ssay [.gsave, (if d.evenOdd then SOp.eofill else SOp.fill), .grestore]]) w [] [.orig d.pid] :=
          SSim.cons (path_sim _ w []) (SSim.cons (setPaint_sim d.fill _ _)
            (SSim.cons (gsave_fill_grestore_sim d.evenOdd _ _) (SSim.nil _ _)))
        have h2 := psStrokeTail_sim (N := N) d.stroke (d.w' N d.join.pdfOk) d.cap d.join (d.off' N d.join.pdfOk)
          (d.dashes' N d.join.pdfOk) (SAct.seq [ssay [.path (.orig d.pid)], setPaint d.fill,
            ssay [.gsave, (if d.evenOdd then SOp.eofill else SOp.fill), .grestore]] w).1 [.orig d.pid] hx hj
        rw [e, hsg w, hsg]
        exact SSim.append h1 h2
      · have e : psDraw N d = SAct.seq ([ssay [.path (.orig d.pid)]] ++
            psStrokeTail N d.stroke (d.w' N d.join.pdfOk) d.cap d.join (d.off' N d.join.pdfOk) (d.dashes' N d.join.pdfOk)) := by
          funext w; simp [psDraw, hst, hn, hfl, psStrokeTail]
        have h1 : SSim N (SAct.seq [ssay [.path (.orig d.pid)]]) w [] [.orig d.pid] :=
          SSim.cons (path_sim _ w []) (SSim.nil _ _)
        have h2 := psStrokeTail_sim (N := N) d.stroke (d.w' N d.join.pdfOk) d.cap d.join (d.off' N d.join.pdfOk)
          (d.dashes' N d.join.pdfOk) (SAct.seq [ssay [.path (.orig d.pid)]] w).1 [.orig d.pid] hx hj
        rw [e, hsg w, hsg]
        exact SSim.append h1 h2
    · by_cases hoe : d.outlineEmpty = true
      · by_cases hfl : d.hasFill = true
        · have e : psDraw N d = SAct.seq [ssay [.path (.orig d.pid)], setPaint d.fill,
              ssay [if d.evenOdd then SOp.eofill else SOp.fill], setPaint d.stroke, ssay [SOp.fill]] := by
            funext w; simp [psDraw, hst, hn, hfl, hoe]
          rw [e, hsg w, hsg]
          exact SSim.cons (path_sim _ w []) (SSim.cons (setPaint_sim d.fill _ _)
            (SSim.cons (fill_sim d.evenOdd _ _)
              (SSim.cons (setPaint_sim d.stroke _ _) (SSim.cons (fill_sim false _ _) (SSim.nil _ _)))))
        · have e : psDraw N d = SAct.seq [setPaint d.stroke, ssay [SOp.fill]] := by
            funext w; simp [psDraw, hst, hn, hfl, hoe]
          rw [e, hsg w, hsg]
          exact SSim.cons (setPaint_sim d.stroke w []) (SSim.cons (fill_sim false _ _) (SSim.nil _ _))
      · by_cases hfl : d.hasFill = true
        · have e : psDraw N d = SAct.seq [ssay [.path (.orig d.pid)], setPaint d.fill,
              ssay [if d.evenOdd then SOp.eofill else SOp.fill], ssay [.path (.outline d.pid)], setPaint d.stroke, ssay [SOp.fill]] := by
            funext w; simp [psDraw, hst, hn, hfl, hoe]
          rw [e, hsg w, hsg]
          exact SSim.cons (path_sim _ w []) (SSim.cons (setPaint_sim d.fill _ _)
            (SSim.cons (fill_sim d.evenOdd _ _) (SSim.cons (path_sim _ _ [])
              (SSim.cons (setPaint_sim d.stroke _ _) (SSim.cons (fill_sim false _ _) (SSim.nil _ _))))))
        · have e : psDraw N d = SAct.seq [ssay [.path (.outline d.pid)], setPaint d.stroke, ssay [SOp.fill]] := by
            funext w; simp [psDraw, hst, hn, hfl, hoe]
          rw [e, hsg w, hsg]
          exact SSim.cons (path_sim _ w []) (SSim.cons (setPaint_sim d.stroke _ _) (SSim.cons (fill_sim false _ _) (SSim.nil _ _)))
  · by_cases hfl : d.hasFill = true
    · have e : psDraw N d = SAct.seq [ssay [.path (.orig d.pid)], setPaint d.fill,
          ssay [if d.evenOdd then SOp.eofill else SOp.fill]] := by
        funext w; simp [psDraw, hst, hfl]
      rw [e, hsg w, hsg]
      exact SSim.cons (path_sim _ w []) (SSim.cons (setPaint_sim d.fill _ _) (SSim.cons (fill_sim d.evenOdd _ _) (SSim.nil _ _)))
    · have e : psDraw N d = SAct.seq [] := by
        funext w; simp [psDraw, hst, hfl]
      rw [e]
      simp [SAct.seq, psRun]

end
end Canvas.C12
