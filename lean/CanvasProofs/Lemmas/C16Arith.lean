import CanvasModel.C16
import Mathlib.Tactic.Ring
import Mathlib.Tactic.FieldSimp
import Mathlib.Tactic.Linarith
/-! Lemmas for C16 (e): horizontal placement of the spans of a line over an ordered field. -/
set_option linter.unusedSectionVars false
set_option linter.unusedSimpArgs false
namespace Canvas.C16
variable {K : Type} [Field K] [LinearOrder K] [IsStrictOrderedRing K]

/-- where the spans of a line start before the alignment shift: the indent on the first line -/
def ind (indent : K) (first : Bool) : K := if first then indent else 0

/-- positions `xs` with widths `ws` follow each other from `a` and end at `b` -/
def Follows : K → List K → List K → K → Prop
  | a, [], [], b => a = b
  | a, x :: xs, w :: ws, b => x = a ∧ Follows (a + w) xs ws b
  | _, _, _, _ => False

theorem layoutFrom_follows (ws : List K) : ∀ a, Follows a (layoutFrom a ws).1 ws (layoutFrom a ws).2 := by
  induction ws with
  | nil => intro a; simp [layoutFrom, Follows]
  | cons w r ih => intro a; simp only [layoutFrom, Follows, true_and]; exact ih _

theorem layoutFrom_end (ws : List K) : ∀ a, (layoutFrom a ws).2 = a + ws.sum := by
  induction ws with
  | nil => intro a; simp [layoutFrom]
  | cons w r ih => intro a; simp only [layoutFrom, ih, List.sum_cons]; ring

theorem follows_shift (d : K) : ∀ (a : K) (xs ws : List K) (b : K), Follows a xs ws b →
    Follows (a + d) (xs.map (· + d)) ws (b + d) := by
  intro a xs
  induction xs generalizing a with
  | nil => intro ws b h; cases ws <;> simp_all [Follows]
  | cons x r ih =>
    intro ws b h
    cases ws with
    | nil => simp [Follows] at h
    | cons w ws' =>
      simp only [Follows, List.map_cons] at h ⊢
      refine ⟨by rw [h.1], ?_⟩
      have := ih (a + w) ws' b h.2
      rw [show a + d + w = a + w + d by ring]; exact this

/-- Left and Justify: the spans follow each other from the indent (first line) resp. from 0 -/
theorem alignLine_left (width indent : K) (first : Bool) (ws : List K) :
    Follows (ind indent first) (alignLine HAlign.left width indent first ws) ws (ind indent first + ws.sum) := by
  have := layoutFrom_follows ws (if first then 0 + indent else 0)
  rw [layoutFrom_end] at this
  cases first <;> simpa [alignLine, ind] using this

theorem alignLine_justify (width indent : K) (first : Bool) (ws : List K) :
    Follows (ind indent first) (alignLine HAlign.justify width indent first ws) ws (ind indent first + ws.sum) := by
  have := layoutFrom_follows ws (if first then 0 + indent else 0)
  rw [layoutFrom_end] at this
  cases first <;> simpa [alignLine, ind] using this

/-- Right: the spans follow each other and the last one ends at the box width -/
theorem alignLine_right (width indent : K) (first : Bool) (ws : List K) :
    Follows (width - ws.sum) (alignLine HAlign.right width indent first ws) ws width := by
  have h := layoutFrom_follows ws (if first then 0 + indent else 0)
  have he := layoutFrom_end ws (if first then 0 + indent else 0)
  have := follows_shift (width - (layoutFrom (if first then 0 + indent else 0) ws).2) _ _ _ _ h
  simp only [alignLine]
  convert this using 1 <;> rw [he] <;> ring

/-- Center: the spans follow each other and are centred between the indent (first line) and the width -/
theorem alignLine_center (width indent : K) (first : Bool) (ws : List K) :
    ∃ a b, Follows a (alignLine HAlign.center width indent first ws) ws b ∧ b - a = ws.sum ∧
      (a + b) / 2 = (ind indent first + width) / 2 := by
  have h := layoutFrom_follows ws (if first then 0 + indent else 0)
  have he := layoutFrom_end ws (if first then 0 + indent else 0)
  have := follows_shift ((width - (layoutFrom (if first then 0 + indent else 0) ws).2) / 2) _ _ _ _ h
  refine ⟨_, _, by simpa only [alignLine] using this, ?_, ?_⟩
  · rw [he]; ring
  · rw [he]; cases first <;> simp [ind] <;> ring

/-- a line whose glue is adjusted by the ratio the breaker computed ends at the width -/
theorem justified_width (natural stretch width : K) (hs : stretch ≠ 0) :
    natural + (width - natural) / stretch * stretch = width := by
  field_simp; ring

end Canvas.C16
