import CanvasModel.C16
import Mathlib.Tactic.Ring
import Mathlib.Tactic.FieldSimp
import Mathlib.Tactic.Linarith
/-! Lemmas for C16 (e), (f): horizontal alignment arithmetic and line stacking over an ordered field. -/
set_option linter.unusedSectionVars false
set_option linter.unusedSimpArgs false
namespace Canvas.C16
variable {K : Type} [Field K] [LinearOrder K] [IsStrictOrderedRing K]

/-- where the spans of a line start before the alignment shift: the indent on the first line -/
def ind (indent : K) (first : Bool) : K := if first then indent else 0

theorem lineX0_left (width tw indent : K) (first : Bool) :
    lineX0 HAlign.left width tw indent first = ind indent first := by
  cases first <;> simp [lineX0, ind]

theorem lineX0_justify (width tw indent : K) (first : Bool) :
    lineX0 HAlign.justify width tw indent first = ind indent first := by
  cases first <;> simp [lineX0, ind]

/-- a right-aligned line ends at the width, whatever the shown width `tw` is -/
theorem lineX0_right (width tw indent : K) (first : Bool) :
    lineX0 HAlign.right width tw indent first + tw = width := by
  cases first <;> simp only [lineX0, if_true, if_false, Bool.false_eq_true] <;> ring

/-- a centred line is centred in `[indent, width]` (first line) resp. `[0, width]` -/
theorem lineX0_center (width tw indent : K) (first : Bool) :
    (lineX0 HAlign.center width tw indent first + (lineX0 HAlign.center width tw indent first + tw)) / 2
      = (ind indent first + width) / 2 := by
  cases first <;> simp only [lineX0, ind, if_true, if_false, Bool.false_eq_true] <;> ring

/-- a line whose glue is adjusted by the ratio the breaker computed ends at the width -/
theorem justified_width (natural stretch width : K) (hs : stretch ≠ 0) :
    natural + (width - natural) / stretch * stretch = width := by
  field_simp; ring

theorem stack_ge (hs : List (LH K)) : ∀ y : K, (∀ h ∈ hs, 0 ≤ h.asc ∧ 0 ≤ h.bot) → ∀ v ∈ stack y hs, y ≤ v := by
  induction hs with
  | nil => intro y _ v hv; simp [stack] at hv
  | cons h r ih =>
    intro y hh v hv
    have h0 := hh h (List.mem_cons_self ..)
    simp only [stack, List.mem_cons] at hv
    rcases hv with rfl | hv
    · linarith
    · have := ih (y + (h.asc + h.bot)) (fun h' hh' => hh h' (List.mem_cons_of_mem _ hh')) v hv
      linarith

theorem stack_sorted (hs : List (LH K)) : ∀ y : K, (∀ h ∈ hs, 0 ≤ h.asc ∧ 0 ≤ h.bot) →
    (stack y hs).Pairwise (· ≤ ·) := by
  induction hs with
  | nil => intro y _; simp [stack]
  | cons h r ih =>
    intro y hh
    have h0 := hh h (List.mem_cons_self ..)
    have hr : ∀ h' ∈ r, 0 ≤ h'.asc ∧ 0 ≤ h'.bot := fun h' hh' => hh h' (List.mem_cons_of_mem _ hh')
    simp only [stack, List.pairwise_cons]
    refine ⟨?_, ih _ hr⟩
    intro v hv
    have := stack_ge r (y + (h.asc + h.bot)) hr v hv
    linarith

/-- consecutive baselines are one line height apart: bottom of the upper + ascent of the lower line -/
theorem stack_gap (y : K) (h1 h2 : LH K) (r : List (LH K)) :
    ∃ t, stack y (h1 :: h2 :: r) = (y + h1.asc) :: (y + h1.asc + (h1.bot + h2.asc)) :: t := by
  refine ⟨stack (y + (h1.asc + h1.bot) + (h2.asc + h2.bot)) r, ?_⟩
  simp only [stack]
  congr 2
  ring

end Canvas.C16
