import CanvasModel.C04.Spec
import Mathlib.Tactic.Ring
import Mathlib.Tactic.Linarith
import Mathlib.Tactic.FieldSimp
import Mathlib.Tactic.Positivity
import Mathlib.Tactic.LinearCombination
import Mathlib.Tactic.Push
import Mathlib.Data.Rat.Defs
import Mathlib.Algebra.Order.Field.Rat
/-! C04 helper lemmas: soundness of the exact distance verdicts (`nearSeg`, `farFromSeg`, chains) and
of the primitives of `Canvas.C04.Spec` against the rational-parameter definition of the distance to a
segment. -/
set_option linter.unusedVariables false
namespace C04S
open Canvas Canvas.Wn Canvas.C04 Canvas.C04.Spec

/-- squared distance from `p` to the point at parameter `t` of segment `ab` -/
def segDist2 (p a b : IPt) (t : ℚ) : ℚ :=
  ((p.x : ℚ) - a.x - t * ((b.x : ℚ) - a.x)) ^ 2 + ((p.y : ℚ) - a.y - t * ((b.y : ℚ) - a.y)) ^ 2

/-- the three integers the verdicts look at -/
def AA (p a : IPt) : Int := (p.x - a.x) * (p.x - a.x) + (p.y - a.y) * (p.y - a.y)
def TT (p a b : IPt) : Int := (p.x - a.x) * (b.x - a.x) + (p.y - a.y) * (b.y - a.y)
def LL (a b : IPt) : Int := (b.x - a.x) * (b.x - a.x) + (b.y - a.y) * (b.y - a.y)
def CC (p a b : IPt) : Int := (b.x - a.x) * (p.y - a.y) - (b.y - a.y) * (p.x - a.x)

theorem segDist2_eq (p a b : IPt) (t : ℚ) :
    segDist2 p a b t = (AA p a : ℚ) - 2 * t * (TT p a b : ℚ) + t ^ 2 * (LL a b : ℚ) := by
  simp only [segDist2, AA, TT, LL]; push_cast; ring

theorem lagrange (p a b : IPt) : CC p a b * CC p a b = AA p a * LL a b - TT p a b * TT p a b := by
  simp only [CC, AA, LL, TT]; ring

theorem LL_nonneg (a b : IPt) : 0 ≤ LL a b := by
  simp only [LL]; nlinarith [mul_self_nonneg (b.x - a.x), mul_self_nonneg (b.y - a.y)]

theorem AA_b (p a b : IPt) : AA p b = AA p a - 2 * TT p a b + LL a b := by
  simp only [AA, TT, LL]; ring

theorem TT_of_LL_zero (p a b : IPt) (h : LL a b = 0) : TT p a b = 0 := by
  have h1 : (b.x - a.x) * (b.x - a.x) = 0 := by
    simp only [LL] at h; nlinarith [mul_self_nonneg (b.x - a.x), mul_self_nonneg (b.y - a.y)]
  have h2 : (b.y - a.y) * (b.y - a.y) = 0 := by
    simp only [LL] at h; nlinarith [mul_self_nonneg (b.x - a.x), mul_self_nonneg (b.y - a.y)]
  have hx : b.x - a.x = 0 := by simpa using mul_self_eq_zero.mp h1
  have hy : b.y - a.y = 0 := by simpa using mul_self_eq_zero.mp h2
  simp [TT, hx, hy]

/-! the quadratic `f t = A − 2tT + t²L` on `[0,1]` -/

theorem quad_left (A T L t : ℚ) (hL : 0 ≤ L) (hT : T ≤ 0) (ht : 0 ≤ t) :
    A ≤ A - 2 * t * T + t ^ 2 * L := by
  nlinarith [mul_nonneg ht (neg_nonneg.mpr hT), mul_nonneg (sq_nonneg t) hL]

theorem quad_right (A T L t : ℚ) (hL : 0 ≤ L) (hTL : L ≤ T) (ht : t ≤ 1) :
    A - 2 * T + L ≤ A - 2 * t * T + t ^ 2 * L := by
  nlinarith [mul_nonneg (sub_nonneg.mpr ht) (sub_nonneg.mpr hTL), mul_nonneg (sq_nonneg (1 - t)) hL]

theorem quad_mid (A T L t : ℚ) : A * L - T ^ 2 ≤ (A - 2 * t * T + t ^ 2 * L) * L := by
  nlinarith [sq_nonneg (t * L - T)]

/-- which of the three cases `nearSeg` / `farFromSeg` are in, and the minimum of the quadratic -/
theorem seg_min (p a b : IPt) :
    (TT p a b ≤ 0 ∧ (∀ t : ℚ, 0 ≤ t → t ≤ 1 → (AA p a : ℚ) ≤ segDist2 p a b t) ∧ segDist2 p a b 0 = AA p a) ∨
    (0 < TT p a b ∧ LL a b ≤ TT p a b ∧ (∀ t : ℚ, 0 ≤ t → t ≤ 1 → (AA p b : ℚ) ≤ segDist2 p a b t) ∧
      segDist2 p a b 1 = AA p b) ∨
    (0 < TT p a b ∧ TT p a b < LL a b ∧
      (∀ t : ℚ, 0 ≤ t → t ≤ 1 → ((CC p a b * CC p a b : Int) : ℚ) ≤ segDist2 p a b t * (LL a b : ℚ)) ∧
      ∃ t : ℚ, 0 ≤ t ∧ t ≤ 1 ∧ segDist2 p a b t * (LL a b : ℚ) = ((CC p a b * CC p a b : Int) : ℚ)) := by
  have hL : (0 : ℚ) ≤ (LL a b : ℚ) := by exact_mod_cast LL_nonneg a b
  rcases le_or_gt (TT p a b) 0 with hT | hT
  · left
    refine ⟨hT, ?_, ?_⟩
    · intro t h0 h1
      rw [segDist2_eq]
      exact quad_left _ _ _ _ hL (by exact_mod_cast hT) h0
    · rw [segDist2_eq]; ring
  · rcases le_or_gt (LL a b) (TT p a b) with hTL | hTL
    · right; left
      refine ⟨hT, hTL, ?_, ?_⟩
      · intro t h0 h1
        rw [segDist2_eq, AA_b p a b]; push_cast
        exact quad_right _ _ _ _ hL (by exact_mod_cast hTL) h1
      · rw [segDist2_eq, AA_b p a b]; push_cast; ring
    · right; right
      have hLpos : (0 : ℚ) < (LL a b : ℚ) := by exact_mod_cast lt_trans hT hTL
      refine ⟨hT, hTL, ?_, ?_⟩
      · intro t h0 h1
        rw [segDist2_eq, lagrange]; push_cast
        have := quad_mid (AA p a : ℚ) (TT p a b : ℚ) (LL a b : ℚ) t
        nlinarith [this]
      · refine ⟨(TT p a b : ℚ) / (LL a b : ℚ), ?_, ?_, ?_⟩
        · exact div_nonneg (by exact_mod_cast le_of_lt hT) hL
        · rw [div_le_one hLpos]; exact_mod_cast le_of_lt hTL
        · rw [segDist2_eq, lagrange]; push_cast
          field_simp
          ring

theorem nearSeg_eq (p a b : IPt) (d2 : Int) :
    nearSeg p a b d2 =
      if LL a b = 0 ∨ TT p a b ≤ 0 then decide (AA p a < d2)
      else if LL a b ≤ TT p a b then decide (AA p b < d2)
      else decide (CC p a b * CC p a b < d2 * LL a b) := by
  simp only [nearSeg, LL, TT, AA, CC, beq_iff_eq, Bool.or_eq_true, decide_eq_true_eq, ge_iff_le]
  try rfl

theorem farFromSeg_eq (p a b : IPt) (d2 : Int) :
    farFromSeg p a b d2 =
      if LL a b = 0 ∨ TT p a b ≤ 0 then decide (AA p a > d2)
      else if LL a b ≤ TT p a b then decide (AA p b > d2)
      else decide (CC p a b * CC p a b > d2 * LL a b) := by
  simp only [farFromSeg, LL, TT, AA, CC, beq_iff_eq, Bool.or_eq_true, decide_eq_true_eq, ge_iff_le, gt_iff_lt]
  try rfl

/-- `nearSeg` decides exactly: some point of the segment is closer than `√d2` -/
theorem nearSeg_iff (p a b : IPt) (d2 : Int) :
    nearSeg p a b d2 = true ↔ ∃ t : ℚ, 0 ≤ t ∧ t ≤ 1 ∧ segDist2 p a b t < d2 := by
  rw [nearSeg_eq]
  rcases seg_min p a b with ⟨hT, hmin, h0⟩ | ⟨hT, hTL, hmin, h1⟩ | ⟨hT, hTL, hmin, t0, ht0, ht1, heq⟩
  · rw [if_pos (Or.inr hT), decide_eq_true_eq]
    constructor
    · intro h; exact ⟨0, le_refl _, by norm_num, by rw [h0]; exact_mod_cast h⟩
    · rintro ⟨t, h0', h1', hlt⟩
      have := lt_of_le_of_lt (hmin t h0' h1') hlt
      exact_mod_cast this
  · have hne : ¬(LL a b = 0 ∨ TT p a b ≤ 0) := by
      rintro (h | h)
      · have := TT_of_LL_zero p a b h; omega
      · omega
    rw [if_neg hne, if_pos hTL, decide_eq_true_eq]
    constructor
    · intro h; exact ⟨1, by norm_num, le_refl _, by rw [h1]; exact_mod_cast h⟩
    · rintro ⟨t, h0', h1', hlt⟩
      have := lt_of_le_of_lt (hmin t h0' h1') hlt
      exact_mod_cast this
  · have hne : ¬(LL a b = 0 ∨ TT p a b ≤ 0) := by
      rintro (h | h)
      · have := TT_of_LL_zero p a b h; omega
      · omega
    have hLpos : (0 : ℚ) < (LL a b : ℚ) := by exact_mod_cast lt_trans hT hTL
    rw [if_neg hne, if_neg (not_le.mpr hTL), decide_eq_true_eq]
    constructor
    · intro h
      refine ⟨t0, ht0, ht1, ?_⟩
      have h' : ((CC p a b * CC p a b : Int) : ℚ) < (d2 : ℚ) * (LL a b : ℚ) := by exact_mod_cast h
      rw [← heq] at h'
      exact lt_of_mul_lt_mul_right h' (le_of_lt hLpos)
    · rintro ⟨t, h0', h1', hlt⟩
      have h1 := hmin t h0' h1'
      have h2 := mul_lt_mul_of_pos_right hlt hLpos
      have := lt_of_le_of_lt h1 h2
      exact_mod_cast this

/-- `farFromSeg` decides exactly: every point of the segment is farther than `√d2` -/
theorem farFromSeg_iff (p a b : IPt) (d2 : Int) :
    farFromSeg p a b d2 = true ↔ ∀ t : ℚ, 0 ≤ t → t ≤ 1 → (d2 : ℚ) < segDist2 p a b t := by
  rw [farFromSeg_eq]
  rcases seg_min p a b with ⟨hT, hmin, h0⟩ | ⟨hT, hTL, hmin, h1⟩ | ⟨hT, hTL, hmin, t0, ht0, ht1, heq⟩
  · rw [if_pos (Or.inr hT), decide_eq_true_eq]
    constructor
    · intro h t h0' h1'
      exact lt_of_lt_of_le (by exact_mod_cast h) (hmin t h0' h1')
    · intro h
      have := h 0 (le_refl _) (by norm_num)
      rw [h0] at this; exact_mod_cast this
  · have hne : ¬(LL a b = 0 ∨ TT p a b ≤ 0) := by
      rintro (h | h)
      · have := TT_of_LL_zero p a b h; omega
      · omega
    rw [if_neg hne, if_pos hTL, decide_eq_true_eq]
    constructor
    · intro h t h0' h1'
      exact lt_of_lt_of_le (by exact_mod_cast h) (hmin t h0' h1')
    · intro h
      have := h 1 (by norm_num) (le_refl _)
      rw [h1] at this; exact_mod_cast this
  · have hne : ¬(LL a b = 0 ∨ TT p a b ≤ 0) := by
      rintro (h | h)
      · have := TT_of_LL_zero p a b h; omega
      · omega
    have hLpos : (0 : ℚ) < (LL a b : ℚ) := by exact_mod_cast lt_trans hT hTL
    rw [if_neg hne, if_neg (not_le.mpr hTL), decide_eq_true_eq]
    constructor
    · intro h t h0' h1'
      have h' : (d2 : ℚ) * (LL a b : ℚ) < ((CC p a b * CC p a b : Int) : ℚ) := by exact_mod_cast h
      have := lt_of_lt_of_le h' (hmin t h0' h1')
      exact lt_of_mul_lt_mul_right this (le_of_lt hLpos)
    · intro h
      have := mul_lt_mul_of_pos_right (h t0 ht0 ht1) hLpos
      rw [heq] at this
      exact_mod_cast this

/-! ### monotonicity in the tolerance and translation invariance -/

theorem nearSeg_mono (p a b : IPt) (d d' : Int) (h : d ≤ d') : nearSeg p a b d = true → nearSeg p a b d' = true := by
  rw [nearSeg_iff, nearSeg_iff]
  rintro ⟨t, h0, h1, hlt⟩
  exact ⟨t, h0, h1, lt_of_lt_of_le hlt (by exact_mod_cast h)⟩

theorem farFromSeg_anti (p a b : IPt) (d d' : Int) (h : d ≤ d') : farFromSeg p a b d' = true → farFromSeg p a b d = true := by
  rw [farFromSeg_iff, farFromSeg_iff]
  intro hf t h0 h1
  exact lt_of_le_of_lt (by exact_mod_cast h) (hf t h0 h1)

/-- no point is both near (below `d`) and far (above `d'`) when `d ≤ d'`: the two verdicts exclude each other -/
theorem near_far_exclusive (p a b : IPt) (d d' : Int) (h : d ≤ d') :
    nearSeg p a b d = true → farFromSeg p a b d' = true → False := by
  rw [nearSeg_iff, farFromSeg_iff]
  rintro ⟨t, h0, h1, hlt⟩ hf
  have := hf t h0 h1
  have hc : (d : ℚ) ≤ d' := by exact_mod_cast h
  linarith

def shift (u : IPt) (p : IPt) : IPt := ⟨p.x + u.x, p.y + u.y⟩

theorem nearSeg_translate (u p a b : IPt) (d : Int) :
    nearSeg (shift u p) (shift u a) (shift u b) d = nearSeg p a b d := by
  rw [nearSeg_eq, nearSeg_eq]
  have h1 : LL (shift u a) (shift u b) = LL a b := by simp only [LL, shift]; ring
  have h2 : TT (shift u p) (shift u a) (shift u b) = TT p a b := by simp only [TT, shift]; ring
  have h3 : AA (shift u p) (shift u a) = AA p a := by simp only [AA, shift]; ring
  have h4 : AA (shift u p) (shift u b) = AA p b := by simp only [AA, shift]; ring
  have h5 : CC (shift u p) (shift u a) (shift u b) = CC p a b := by simp only [CC, shift]; ring
  rw [h1, h2, h3, h4, h5]

theorem farFromSeg_translate (u p a b : IPt) (d : Int) :
    farFromSeg (shift u p) (shift u a) (shift u b) d = farFromSeg p a b d := by
  rw [farFromSeg_eq, farFromSeg_eq]
  have h1 : LL (shift u a) (shift u b) = LL a b := by simp only [LL, shift]; ring
  have h2 : TT (shift u p) (shift u a) (shift u b) = TT p a b := by simp only [TT, shift]; ring
  have h3 : AA (shift u p) (shift u a) = AA p a := by simp only [AA, shift]; ring
  have h4 : AA (shift u p) (shift u b) = AA p b := by simp only [AA, shift]; ring
  have h5 : CC (shift u p) (shift u a) (shift u b) = CC p a b := by simp only [CC, shift]; ring
  rw [h1, h2, h3, h4, h5]

/-! ### chains and paths -/

/-- consecutive vertex pairs of a chain -/
def consec : List IPt → List (IPt × IPt)
  | a :: b :: rest => (a, b) :: consec (b :: rest)
  | _ => []

theorem nearChain_eq (p : IPt) (d : Int) : ∀ c : List IPt,
    nearChain p d c = (consec c).any (fun s => nearSeg p s.1 s.2 d) := by
  intro c
  induction c with
  | nil => rfl
  | cons a tl ih =>
    cases tl with
    | nil => rfl
    | cons b rest => simp only [nearChain, consec, List.any_cons, ih]

theorem farFromChain_eq (p : IPt) (d : Int) : ∀ c : List IPt,
    farFromChain p d c = (consec c).all (fun s => farFromSeg p s.1 s.2 d) := by
  intro c
  induction c with
  | nil => rfl
  | cons a tl ih =>
    cases tl with
    | nil => rfl
    | cons b rest => simp only [farFromChain, consec, List.all_cons, ih]

/-- `nearPath`: some point of some segment of the path is closer than `√d` -/
theorem nearPath_iff (p : IPt) (d : Int) (chains : List (List IPt)) :
    nearPath p d chains = true ↔
      ∃ c ∈ chains, ∃ s ∈ consec c, ∃ t : ℚ, 0 ≤ t ∧ t ≤ 1 ∧ segDist2 p s.1 s.2 t < d := by
  simp only [nearPath, List.any_eq_true, nearChain_eq, nearSeg_iff]

/-- `farPath`: every point of every segment of the path is farther than `√d` -/
theorem farPath_iff (p : IPt) (d : Int) (chains : List (List IPt)) :
    farPath p d chains = true ↔
      ∀ c ∈ chains, ∀ s ∈ consec c, ∀ t : ℚ, 0 ≤ t → t ≤ 1 → (d : ℚ) < segDist2 p s.1 s.2 t := by
  simp only [farPath, List.all_eq_true, farFromChain_eq, farFromSeg_iff]

/-! ### the primitives of the specification lie within `lo` of the path -/

theorem segDist2_one (p a b : IPt) : segDist2 p a b 1 = (AA p b : ℚ) := by
  rw [segDist2_eq, AA_b p a b]; push_cast; ring

theorem segDist2_foot (p a b : IPt) (hL : LL a b ≠ 0) :
    segDist2 p a b ((TT p a b : ℚ) / (LL a b : ℚ)) * (LL a b : ℚ) = ((CC p a b * CC p a b : Int) : ℚ) := by
  have hL' : (LL a b : ℚ) ≠ 0 := by exact_mod_cast hL
  rw [segDist2_eq, lagrange]; push_cast
  field_simp
  ring

theorem inDisc_near (p a v : IPt) (lo : Int) (h : inDisc p v lo = true) : nearSeg p a v (lo * lo) = true := by
  rw [nearSeg_iff]
  refine ⟨1, by norm_num, le_refl _, ?_⟩
  rw [segDist2_one]
  simp only [inDisc, Canvas.C04.Spec.sq, Bool.and_eq_true, decide_eq_true_eq] at h
  have : AA p v < lo * lo := by simp only [AA]; exact of_decide_eq_true h.2
  exact_mod_cast this

theorem geRadius_iff (v r l : Int) : geRadius v r l = true ↔ 0 ≤ v ∧ r * r * l ≤ v * v := by
  simp [geRadius]

theorem inSlab_near (p a b : IPt) (lo band : Int) (h : inSlab p a b lo band = true) :
    nearSeg p a b (lo * lo) = true := by
  simp only [inSlab, Bool.and_eq_true, geRadius_iff, decide_eq_true_eq, idot, icross] at h
  obtain ⟨⟨⟨hlo, hT0, _⟩, hT1, _⟩, hc⟩ := h
  have hc := of_decide_eq_true hc
  have hT0' : 0 ≤ TT p a b := by simp only [TT]; linarith
  have hT1' : 0 ≤ LL a b - TT p a b := by simp only [TT, LL]; linarith
  have hc' : CC p a b * CC p a b < lo * lo * LL a b := by simp only [CC, LL]; linarith
  have hLpos : 0 < LL a b := by
    rcases lt_or_eq_of_le (LL_nonneg a b) with h | h
    · exact h
    · exfalso; rw [← h] at hc'; nlinarith [mul_self_nonneg (CC p a b)]
  have hLq : (0 : ℚ) < (LL a b : ℚ) := by exact_mod_cast hLpos
  rw [nearSeg_iff]
  refine ⟨(TT p a b : ℚ) / (LL a b : ℚ), div_nonneg (by exact_mod_cast hT0') (le_of_lt hLq), ?_, ?_⟩
  · rw [div_le_one hLq]; exact_mod_cast (by linarith : TT p a b ≤ LL a b)
  · have hf := segDist2_foot p a b (ne_of_gt hLpos)
    have h' : ((CC p a b * CC p a b : Int) : ℚ) < ((lo * lo : Int) : ℚ) * (LL a b : ℚ) := by exact_mod_cast hc'
    rw [← hf] at h'
    exact lt_of_mul_lt_mul_right h' (le_of_lt hLq)

theorem bevel_ineq (q2 A B l0 l1 dt cc2 lo2 : Int)
    (hid : cc2 * q2 = A * A * l0 + B * B * l1 + 2 * (A * B) * dt) (hcs : dt * dt ≤ l0 * l1)
    (hD : 0 < lo2 * cc2 - A * A * l0 - B * B * l1)
    (h4 : 4 * (A * A) * (B * B) * (l0 * l1)
      < (lo2 * cc2 - A * A * l0 - B * B * l1) * (lo2 * cc2 - A * A * l0 - B * B * l1))
    (hcc : 0 < cc2) : q2 < lo2 := by
  generalize hDdef : lo2 * cc2 - A * A * l0 - B * B * l1 = D at *
  have hx : 2 * (A * B) * dt < D := by
    by_contra hge
    push Not at hge
    have h1 : D * D ≤ (2 * (A * B) * dt) * (2 * (A * B) * dt) :=
      mul_le_mul hge hge (le_of_lt hD) (le_trans (le_of_lt hD) hge)
    have e1 : (2 * (A * B) * dt) * (2 * (A * B) * dt) = 4 * ((A * B) * (A * B) * (dt * dt)) := by ring
    have e2 : 4 * (A * A) * (B * B) * (l0 * l1) = 4 * ((A * B) * (A * B) * (l0 * l1)) := by ring
    have e3 := mul_le_mul_of_nonneg_left hcs (mul_self_nonneg (A * B))
    linarith
  have : cc2 * q2 < cc2 * lo2 := by rw [hid]; linarith
  exact lt_of_mul_lt_mul_left this (le_of_lt hcc)

/-- the bevel triangle lies in the open disc of radius `lo` around the vertex -/
theorem bevelCore_disc (qx qy r0x r0y r1x r1y lo : Int)
    (h : bevelCore qx qy r0x r0y r1x r1y lo = true) : qx * qx + qy * qy < lo * lo := by
  simp only [bevelCore, icross, Bool.and_eq_true, decide_eq_true_eq] at h
  obtain ⟨⟨⟨⟨⟨hcc, hlo⟩, hA⟩, hB⟩, hD⟩, h4⟩ := h
  have hcc := of_decide_eq_true hcc
  have hD := of_decide_eq_true hD
  have h4 := of_decide_eq_true h4
  have hccpos : 0 < (r0x * r1y - r0y * r1x) * (r0x * r1y - r0y * r1x) := by
    rcases lt_or_eq_of_le (mul_self_nonneg (r0x * r1y - r0y * r1x)) with h | h
    · exact h
    · exact absurd (mul_self_eq_zero.mp h.symm) hcc
  have hcs : (r0x * r1x + r0y * r1y) * (r0x * r1x + r0y * r1y)
      ≤ (r0x * r0x + r0y * r0y) * (r1x * r1x + r1y * r1y) := by
    nlinarith [mul_self_nonneg (r0x * r1y - r0y * r1x)]
  by_cases hpos : r0x * r1y - r0y * r1x > 0
  · simp only [hpos, if_true, ite_true] at hD h4
    exact bevel_ineq (qx * qx + qy * qy) _ _ _ _ (r0x * r1x + r0y * r1y) _ (lo * lo) (by ring) hcs hD h4 hccpos
  · simp only [hpos, if_false, ite_false] at hD h4
    exact bevel_ineq (qx * qx + qy * qy) _ _ _ _ (r0x * r1x + r0y * r1y) _ (lo * lo) (by ring) hcs hD h4 hccpos

theorem inBevel_near (p a v b : IPt) (lo : Int) (h : inBevel p a v b lo = true) :
    nearSeg p a v (lo * lo) = true := by
  apply inDisc_near
  simp only [inBevel] at h
  have hlo : 0 < lo := by
    have h' := h
    simp only [bevelCore, Bool.and_eq_true, decide_eq_true_eq] at h'
    exact h'.1.1.1.1.2
  have := bevelCore_disc _ _ _ _ _ _ _ h
  simp only [inDisc, Canvas.C04.Spec.sq, Bool.and_eq_true, decide_eq_true_eq]
  exact ⟨hlo, decide_eq_true this⟩

/-- Bevel and Round joins: what the joiner must fill lies within `lo` of the segment ending at the vertex -/
theorem joinFilled_near (st : Style) (p a v b : IPt) (lo : Int) (hj : st.join ≤ 1)
    (h : joinFilled st p a v b lo = true) : nearSeg p a v (lo * lo) = true := by
  unfold joinFilled at h
  split at h
  · simp only [Bool.and_eq_true] at h
    exact inDisc_near p a v lo h.2
  · next hne =>
    have hj2 : ¬(st.join ≥ 2) := by omega
    simp only [Bool.or_eq_true, Bool.and_eq_true, decide_eq_true_eq] at h
    rcases h with h | h
    · exact inBevel_near p a v b lo h
    · exact absurd h.1.1 hj2

/-- Round / Square caps: the demanded half disc lies within `lo` of the last segment -/
theorem capFilled_near (st : Style) (p a v : IPt) (lo : Int) (h : capFilled st p a v lo = true) :
    nearSeg p a v (lo * lo) = true := by
  simp only [capFilled, Bool.and_eq_true] at h
  exact inDisc_near p a v lo h.1.2

/-- Whatever `mustFill` demands under Bevel or Round joins is within `lo` of a segment the geometry
names (a path segment, the segment ending at a join vertex, or the segment ending at an open end):
the specification never demands a point the property does not. -/
theorem mustFill_near (st : Style) (g : Geo) (L : Lens) (p : IPt) (hj : st.join ≤ 1)
    (h : mustFill st g L p = true) :
    (∃ s ∈ g.segs, nearSeg p s.1 s.2 (L.lo * L.lo) = true) ∨
    (∃ t ∈ g.joins, nearSeg p t.1 t.2.1 (L.lo * L.lo) = true) ∨
    (∃ e ∈ g.ends, nearSeg p e.1 e.2 (L.lo * L.lo) = true) := by
  simp only [mustFill, Bool.or_eq_true, List.any_eq_true] at h
  rcases h with (⟨s, hs, h⟩ | ⟨t, ht, h⟩) | ⟨e, he, h⟩
  · exact Or.inl ⟨s, hs, inSlab_near p s.1 s.2 L.lo L.band h⟩
  · exact Or.inr (Or.inl ⟨t, ht, joinFilled_near st p t.1 t.2.1 t.2.2 L.lo hj h⟩)
  · exact Or.inr (Or.inr ⟨e, he, capFilled_near st p e.1 e.2 L.lo h⟩)


end C04S
