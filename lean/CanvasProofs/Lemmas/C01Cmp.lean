import CanvasModel.C01Cmp
import Mathlib.Algebra.Order.Field.Basic
import Mathlib.Tactic.Ring
import Mathlib.Tactic.Linarith
import Mathlib.Tactic.FieldSimp
import Mathlib.Tactic.NormNum
import Mathlib.Algebra.Order.Field.Rat

/-!
# C01 (second wave) — laws of the sweep comparators over an arbitrary linearly ordered field

The model `CanvasModel/C01Cmp.lean` transcribes `LessH`, `CompareH`, `compareOverlapsV`,
`compareTangentsV`, `compareV`, `CompareV` and `SweepPoint.InterpolateY` of
/repo/path_intersection.go generically in a scalar class. Here the scalar is any linearly ordered
field `K` (exact arithmetic, `<`/`=` decided by the `LinearOrder` instance).

Lean's `x / 0 = 0` never enters a proof: every use of `interpolateY s _` whose value matters is on a
segment with `s.x ≠ s.ox`, which is what `WF` provides for the non-vertical branch of the code.
-/
namespace Canvas.C01Cmp

/-! ## compareOverlapsV (no arithmetic) -/
section overlaps
variable {K : Type}

theorem compareOverlapsV_range (a b : SP K) :
    compareOverlapsV a b = -1 ∨ compareOverlapsV a b = 0 ∨ compareOverlapsV a b = 1 := by
  unfold compareOverlapsV
  split_ifs <;> simp

theorem compareOverlapsV_antisymm (a b : SP K) :
    compareOverlapsV b a = - compareOverlapsV a b := by
  unfold compareOverlapsV
  cases a.clipping <;> cases b.clipping <;> simp <;>
    (rcases lt_trichotomy a.segment b.segment with h | h | h
     · simp [h, h.ne, h.ne', not_lt.mpr h.le]
     · simp [h]
     · simp [h, h.ne, h.ne', not_lt.mpr h.le])

theorem compareOverlapsV_eq_zero_iff (a b : SP K) :
    compareOverlapsV a b = 0 ↔ a.clipping = b.clipping ∧ a.segment = b.segment := by
  unfold compareOverlapsV
  cases a.clipping <;> cases b.clipping <;> simp <;>
    (by_cases h : a.segment = b.segment <;> simp [h]; split_ifs <;> simp)

theorem compareOverlapsV_self (a : SP K) : compareOverlapsV a a = 0 :=
  (compareOverlapsV_eq_zero_iff a a).2 ⟨rfl, rfl⟩

/-- Well-formedness of a sweep event: the `vertical` flag says that both endpoints have the same x.
(Only the direction `s.x = s.ox → s.vertical` is used by the proofs: the non-vertical branch of
`compareTangentsV` divides by `s.ox - s.x`.) -/
def WF (s : SP K) : Prop := s.vertical = true ↔ s.x = s.ox

theorem WF.ne {s : SP K} (h : WF s) (hv : s.vertical = false) : s.x ≠ s.ox := by
  intro e
  have := h.2 e
  simp [hv] at this

end overlaps

/-! ## the ordered-field instance of the scalar class -/
section field
variable {K : Type} [Field K] [LinearOrder K]

/-- exact arithmetic: the operations of the field, `<` and `=` decided by the linear order -/
instance scalarOfField : Scalar K where
  lt a b := decide (a < b)
  eq a b := decide (a = b)
  one := 1

@[simp] theorem lt_iff (a b : K) : (Scalar.lt a b = true) ↔ a < b := by
  show decide (a < b) = true ↔ a < b
  simp

@[simp] theorem eq_iff (a b : K) : (Scalar.eq a b = true) ↔ a = b := by
  show decide (a = b) = true ↔ a = b
  simp

/-- `InterpolateY` in field notation (definitional) -/
theorem interpolateY_def (s : SP K) (x : K) :
    interpolateY s x = (1 - (x - s.x) / (s.ox - s.x)) * s.y + (x - s.x) / (s.ox - s.x) * s.oy := rfl

/-- for a segment that is not vertical `InterpolateY` is the y of the line through both endpoints -/
theorem interpolateY_exact (s : SP K) (x : K) (h : s.x ≠ s.ox) :
    interpolateY s x = s.y + (x - s.x) * ((s.oy - s.y) / (s.ox - s.x)) := by
  have h' : s.ox - s.x ≠ 0 := sub_ne_zero.mpr (Ne.symm h)
  rw [interpolateY_def]
  field_simp
  ring

theorem interpolateY_self (s : SP K) (h : s.x ≠ s.ox) : interpolateY s s.x = s.y := by
  rw [interpolateY_exact s _ h]; simp

theorem interpolateY_other (s : SP K) (h : s.x ≠ s.ox) : interpolateY s s.ox = s.oy := by
  have h' : s.ox - s.x ≠ 0 := sub_ne_zero.mpr (Ne.symm h)
  rw [interpolateY_exact s _ h]
  field_simp
  ring

omit [Field K] in
/-- trichotomy with all the facts `simp` needs to decide the `if`s -/
theorem tri (x y : K) :
    (x < y ∧ x ≠ y ∧ y ≠ x ∧ ¬ y < x) ∨ x = y ∨ (y < x ∧ x ≠ y ∧ y ≠ x ∧ ¬ x < y) := by
  rcases lt_trichotomy x y with h | h | h
  · exact Or.inl ⟨h, h.ne, h.ne', not_lt.mpr h.le⟩
  · exact Or.inr (Or.inl h)
  · exact Or.inr (Or.inr ⟨h, h.ne', h.ne, not_lt.mpr h.le⟩)

/-! ## compareTangentsV -/

/-- Antisymmetry of `compareTangentsV`. The source documents the precondition "a and b coincide at
(a.X,a.Y), a.left==b.left"; only `a.left = b.left` and well-formedness are needed. -/
theorem compareTangentsV_antisymm (a b : SP K) (hl : a.left = b.left) (ha : WF a) (hb : WF b) :
    compareTangentsV b a = - compareTangentsV a b := by
  unfold compareTangentsV
  rw [compareOverlapsV_antisymm a b, ← hl]
  generalize compareOverlapsV a b = ov
  cases hva : a.vertical <;> cases hvb : b.vertical
  · -- neither is vertical
    have hax := ha.ne hva
    have hbx := hb.ne hvb
    rcases tri a.ox b.ox with ⟨h, h1, h2, h3⟩ | h | ⟨h, h1, h2, h3⟩
    · -- a.ox < b.ox
      generalize interpolateY b a.ox = v
      generalize interpolateY a b.ox = w
      cases a.left <;>
        rcases tri a.oy v with ⟨g, g1, g2, g3⟩ | g | ⟨g, g1, g2, g3⟩ <;>
        rcases tri w b.oy with ⟨k, k1, k2, k3⟩ | k | ⟨k, k1, k2, k3⟩ <;>
        simp [*]
    · -- a.ox = b.ox: both interpolate at the own other endpoint
      have e1 : interpolateY a b.ox = a.oy := by rw [← h]; exact interpolateY_other a hax
      have e2 : interpolateY b a.ox = b.oy := by rw [h]; exact interpolateY_other b hbx
      rw [e1, e2]
      cases a.left <;>
        rcases tri a.oy b.oy with ⟨g, g1, g2, g3⟩ | g | ⟨g, g1, g2, g3⟩ <;>
        simp [*]
    · -- b.ox < a.ox
      generalize interpolateY b a.ox = v
      generalize interpolateY a b.ox = w
      cases a.left <;>
        rcases tri a.oy v with ⟨g, g1, g2, g3⟩ | g | ⟨g, g1, g2, g3⟩ <;>
        rcases tri w b.oy with ⟨k, k1, k2, k3⟩ | k | ⟨k, k1, k2, k3⟩ <;>
        simp [*]
  · simp
  · simp
  · -- both vertical
    cases a.left <;>
      rcases tri a.y b.y with ⟨g, g1, g2, g3⟩ | g | ⟨g, g1, g2, g3⟩ <;>
      simp [*]


theorem compareTangentsV_self (a : SP K) : compareTangentsV a a = 0 := by
  unfold compareTangentsV
  rw [compareOverlapsV_self]
  cases a.vertical <;> simp

theorem compareTangentsV_range (a b : SP K) :
    compareTangentsV a b = -1 ∨ compareTangentsV a b = 0 ∨ compareTangentsV a b = 1 := by
  unfold compareTangentsV
  rcases compareOverlapsV_range a b with h | h | h <;> rw [h] <;>
    cases a.left <;> simp <;> split_ifs <;> simp

/-! ## CompareH / LessH (sweep queue order) -/

/-- `CompareH` is antisymmetric on well-formed events. No coincidence hypothesis is needed:
`compareTangentsV` is only reached when x, y and `left` agree. -/
theorem compareH_antisymm (a b : SP K) (ha : WF a) (hb : WF b) :
    compareH b a = - compareH a b := by
  unfold compareH
  rcases tri a.x b.x with ⟨h, h1, h2, h3⟩ | h | ⟨h, h1, h2, h3⟩
  · simp [*]
  · rcases tri a.y b.y with ⟨g, g1, g2, g3⟩ | g | ⟨g, g1, g2, g3⟩
    · simp [*]
    · cases hla : a.left <;> cases hlb : b.left <;> simp [h, g]
      · exact compareTangentsV_antisymm a b (by rw [hla, hlb]) ha hb
      · exact compareTangentsV_antisymm a b (by rw [hla, hlb]) ha hb
    · simp [*]
  · simp [*]

/-- `LessH` is `CompareH < 0` (holds for all events, well-formed or not). -/
theorem lessH_iff_compareH_neg (a b : SP K) : lessH a b = true ↔ compareH a b < 0 := by
  unfold lessH compareH
  rcases tri a.x b.x with ⟨h, h1, h2, h3⟩ | h | ⟨h, h1, h2, h3⟩
  · simp [*]
  · rcases tri a.y b.y with ⟨g, g1, g2, g3⟩ | g | ⟨g, g1, g2, g3⟩
    · simp [*]
    · cases hla : a.left <;> cases hlb : b.left <;> simp [h, g]
    · simp [*]
  · simp [*]

theorem compareH_self (a : SP K) : compareH a a = 0 := by
  unfold compareH
  rw [compareTangentsV_self]
  cases a.left <;> simp

theorem lessH_irrefl (a : SP K) : lessH a a = false := by
  have := lessH_iff_compareH_neg a a
  rw [compareH_self] at this
  cases h : lessH a a
  · rfl
  · exact absurd (this.1 h) (by decide)

theorem lessH_asymm (a b : SP K) (ha : WF a) (hb : WF b) (h : lessH a b = true) :
    lessH b a = false := by
  cases h' : lessH b a
  · rfl
  · have h1 := (lessH_iff_compareH_neg a b).1 h
    have h2 := (lessH_iff_compareH_neg b a).1 h'
    rw [compareH_antisymm a b ha hb] at h2
    omega

/-- `CompareH a b = 0` exactly when neither is `LessH` the other (well-formed events) -/
theorem compareH_eq_zero_iff (a b : SP K) (ha : WF a) (hb : WF b) :
    compareH a b = 0 ↔ (lessH a b = false ∧ lessH b a = false) := by
  have h1 := lessH_iff_compareH_neg a b
  have h2 := lessH_iff_compareH_neg b a
  rw [compareH_antisymm a b ha hb] at h2
  constructor
  · intro h
    rw [h] at h1 h2
    constructor
    · cases h' : lessH a b
      · rfl
      · exact absurd (h1.1 h') (by decide)
    · cases h' : lessH b a
      · rfl
      · exact absurd (h2.1 h') (by decide)
  · rintro ⟨h3, h4⟩
    have n1 : ¬ compareH a b < 0 := fun h => by rw [h1.2 h] at h3; cases h3
    have n2 : ¬ -compareH a b < 0 := fun h => by rw [h2.2 h] at h4; cases h4
    omega

/-! ## compareV / CompareV (sweep status order) -/

/-- structure of `CompareV`: at equal x the y of the two events decides (ties: tangents); otherwise
the later event is compared against the line of the earlier one by `compareV`, with the sign fixed
so that the result always speaks about (a, b). -/
theorem compareV_CompareV (a b : SP K) :
    (a.x = b.x → a.y = b.y → CompareV a b = compareTangentsV a b) ∧
    (a.x = b.x → a.y < b.y → CompareV a b = -1) ∧
    (a.x = b.x → b.y < a.y → CompareV a b = 1) ∧
    (a.x < b.x → CompareV a b = - compareV b a) ∧
    (b.x < a.x → CompareV a b = compareV a b) := by
  unfold CompareV
  refine ⟨?_, ?_, ?_, ?_, ?_⟩
  · intro h g; simp [h, g]
  · intro h g; simp [h, g, g.ne]
  · intro h g; simp [h, g.ne', not_lt.mpr g.le]
  · intro h; simp [h, h.ne]
  · intro h; simp [h.ne', not_lt.mpr h.le]

/-- The documented precondition of `CompareV a b` (sweep status): both events are left endpoints
of well-formed segments, each lies left of (or, if vertical, at the same x as) its other endpoint,
and the abscissa of the comparison, `max a.x b.x`, lies in the x-range of both segments. -/
def CompareVPre (a b : SP K) : Prop :=
  a.left = true ∧ b.left = true ∧ WF a ∧ WF b ∧ a.x ≤ a.ox ∧ b.x ≤ b.ox ∧
    max a.x b.x ≤ a.ox ∧ max a.x b.x ≤ b.ox

/-- the full statement asked for -/
def CompareV_antisymm_statement : Prop :=
  ∀ (K : Type) [Field K] [LinearOrder K] (a b : SP K), CompareVPre a b → CompareV b a = - CompareV a b

/-- Antisymmetry of `CompareV` needs much less than `CompareVPre`: for `a.x ≠ b.x` it holds by the
shape of the code (`CompareV a b` and `CompareV b a` evaluate the *same* `compareV` call and negate
one of them), for `a.x = b.x`, `a.y = b.y` it is `compareTangentsV_antisymm`. -/
theorem CompareV_antisymm_of_left (a b : SP K) (hl : a.left = b.left) (ha : WF a) (hb : WF b) :
    CompareV b a = - CompareV a b := by
  unfold CompareV
  rcases tri a.x b.x with ⟨h, h1, h2, h3⟩ | h | ⟨h, h1, h2, h3⟩
  · simp [*]
  · rcases tri a.y b.y with ⟨g, g1, g2, g3⟩ | g | ⟨g, g1, g2, g3⟩
    · simp [*]
    · simp [h, g]
      exact compareTangentsV_antisymm a b hl ha hb
    · simp [*]
  · simp [*]

/-- `CompareV` is antisymmetric on every pair satisfying its precondition (full statement). -/
theorem CompareV_antisymm (a b : SP K) (h : CompareVPre a b) : CompareV b a = - CompareV a b :=
  CompareV_antisymm_of_left a b (by rw [h.1, h.2.1]) h.2.2.1 h.2.2.2.1

theorem CompareV_antisymm_statement_holds : CompareV_antisymm_statement :=
  fun _ _ _ a b h => CompareV_antisymm a b h

/-- for events at different x antisymmetry of `CompareV` is unconditional -/
theorem CompareV_antisymm_of_ne (a b : SP K) (h : a.x ≠ b.x) : CompareV b a = - CompareV a b := by
  unfold CompareV
  rcases tri a.x b.x with ⟨h, h1, h2, h3⟩ | h' | ⟨h, h1, h2, h3⟩
  · simp [*]
  · exact absurd h' h
  · simp [*]

/-- the y at abscissa `x` that `CompareV` reads off an event: the event's own y if it sits at `x`,
otherwise `InterpolateY` -/
def yAt (s : SP K) (x : K) : K := if s.x = x then s.y else interpolateY s x

/-- Meaning of `CompareV` when the segments are apart at the comparison abscissa `max a.x b.x`:
the sign of the difference of the y-values there. (Under `CompareVPre` every interpolation in `yAt`
is on a segment with `x ≠ ox`, see `CompareVPre.interp_ok`, so it is the line's exact y by
`interpolateY_exact`.) -/
theorem CompareV_spec_y (a b : SP K) :
    (yAt a (max a.x b.x) < yAt b (max a.x b.x) → CompareV a b = -1) ∧
    (yAt b (max a.x b.x) < yAt a (max a.x b.x) → CompareV a b = 1) ∧
    (yAt a (max a.x b.x) = yAt b (max a.x b.x) →
      CompareV a b = if a.x < b.x then - compareTangentsV b a else compareTangentsV a b) := by
  unfold CompareV compareV yAt
  rcases tri a.x b.x with ⟨h, h1, h2, h3⟩ | h | ⟨h, h1, h2, h3⟩
  · rw [max_eq_right h.le]
    simp only [h1, if_true, if_false]
    refine ⟨fun g => ?_, fun g => ?_, fun g => ?_⟩
    · simp [h, h1, g.ne', not_lt.mpr g.le]
    · simp [h, h1, g, g.ne]
    · simp [h, h1, g]
  · rw [h, max_self]
    simp only [if_true]
    refine ⟨fun g => ?_, fun g => ?_, fun g => ?_⟩
    · simp [g, g.ne]
    · simp [g.ne', not_lt.mpr g.le]
    · simp [g]
  · rw [max_eq_left h.le]
    simp only [h2, if_true, if_false]
    refine ⟨fun g => ?_, fun g => ?_, fun g => ?_⟩
    · simp [h1, h3, g, g.ne]
    · simp [h1, h3, g.ne', not_lt.mpr g.le]
    · simp [h1, h3, g]

omit [Field K] in
/-- under `CompareVPre` the segment that is interpolated by `CompareV` is not degenerate in x -/
theorem CompareVPre.interp_ok {a b : SP K} (h : CompareVPre a b) :
    (a.x < b.x → a.x ≠ a.ox) ∧ (b.x < a.x → b.x ≠ b.ox) := by
  obtain ⟨-, -, -, -, -, -, h7, h8⟩ := h
  constructor
  · intro g e
    have : b.x ≤ a.ox := le_trans (le_max_right _ _) h7
    rw [← e] at this
    exact absurd g (not_lt.mpr this)
  · intro g e
    have : a.x ≤ b.ox := le_trans (le_max_left _ _) h8
    rw [← e] at this
    exact absurd g (not_lt.mpr this)

end field


/-! ## geometric meaning of the tangent comparison -/
section slope
variable {K : Type} [Field K] [LinearOrder K] [IsStrictOrderedRing K]

/-- slope of the (non-vertical) segment of an event -/
def slope (s : SP K) : K := (s.oy - s.y) / (s.ox - s.x)

/-- `compareTangentsV a b` for a left event `a` whose point lies on the line of the non-vertical
segment `b` (`b.x ≤ a.x < b.ox`, as documented: "compare segments vertically at a.X, b.X <= a.X,
and a and b coincide at (a.X,a.Y)"): the segment with the smaller slope is below. -/
theorem compareTangentsV_slope (a b : SP K)
    (hla : a.left = true) (hva : a.vertical = false) (hvb : b.vertical = false)
    (hax : a.x < a.ox) (hbx : b.x ≤ a.x) (hbo : a.x < b.ox)
    (hon : interpolateY b a.x = a.y) :
    (slope a < slope b → compareTangentsV a b = -1) ∧
    (slope b < slope a → compareTangentsV a b = 1) := by
  have hane : a.x ≠ a.ox := hax.ne
  have hbne : b.x ≠ b.ox := (lt_of_le_of_lt hbx hbo).ne
  have da : a.ox - a.x ≠ 0 := sub_ne_zero.mpr hane.symm
  have db : b.ox - b.x ≠ 0 := sub_ne_zero.mpr hbne.symm
  have e0 : b.y + (a.x - b.x) * slope b = a.y := by
    rw [← hon, interpolateY_exact b _ hbne]; rfl
  have eao : a.oy = a.y + (a.ox - a.x) * slope a := by
    unfold slope; field_simp; ring
  have ebo : b.oy = a.y + (b.ox - a.x) * slope b := by
    rw [← e0]; unfold slope; field_simp; ring
  have e1 : interpolateY b a.ox = a.y + (a.ox - a.x) * slope b := by
    rw [interpolateY_exact b _ hbne, ← e0]; unfold slope; ring
  have e2 : interpolateY a b.ox = a.y + (b.ox - a.x) * slope a := by
    rw [interpolateY_exact a _ hane]; rfl
  have p1 : 0 < a.ox - a.x := sub_pos.mpr hax
  have p2 : 0 < b.ox - a.x := sub_pos.mpr hbo
  unfold compareTangentsV
  rw [e1, e2]
  generalize slope a = sa at *
  generalize slope b = sb at *
  simp only [hla, hva, hvb, Bool.not_true, Bool.false_eq_true, if_false, Bool.true_and,
    Bool.false_and, Bool.or_false, Bool.and_eq_true, lt_iff, eq_iff]
  constructor
  · intro h
    have m1 : (a.ox - a.x) * sa < (a.ox - a.x) * sb := mul_lt_mul_of_pos_left h p1
    have m2 : (b.ox - a.x) * sa < (b.ox - a.x) * sb := mul_lt_mul_of_pos_left h p2
    split_ifs with c1 c2 c3 c4 c5 c6
    · exfalso; rw [← c1.1] at ebo; linarith [c1.2]
    · exfalso; linarith
    · simp
    · exfalso; linarith
    · exfalso; linarith
    · simp
    · exfalso; linarith
  · intro h
    have m1 : (a.ox - a.x) * sb < (a.ox - a.x) * sa := mul_lt_mul_of_pos_left h p1
    have m2 : (b.ox - a.x) * sb < (b.ox - a.x) * sa := mul_lt_mul_of_pos_left h p2
    split_ifs with c1 c2 c3 c4 c5 c6
    · exfalso; rw [← c1.1] at ebo; linarith [c1.2]
    · exfalso; linarith
    · exfalso; linarith
    · simp
    · exfalso; linarith
    · exfalso; linarith
    · simp

end slope

/-! ## witnesses over ℚ -/
section witnesses

/-- two left events sharing (0,0): a to (2,1), b to (1,2) -/
def wA : SP ℚ := ⟨0, 0, 2, 1, true, false, false, 0⟩
def wB : SP ℚ := ⟨0, 0, 1, 2, true, false, true, 1⟩

/-- non-vacuity: the precondition of `CompareV` is satisfiable, with a non-zero result -/
example : CompareVPre wA wB ∧ CompareV wA wB = -1 ∧ CompareV wB wA = 1 := by
  refine ⟨?_, ?_, ?_⟩
  · simp [CompareVPre, WF, wA, wB]
  · simp [CompareV, compareTangentsV, interpolateY_def, wA, wB]; norm_num
  · simp [CompareV, compareTangentsV, interpolateY_def, wA, wB]; norm_num

/-- `WF` cannot be dropped: with the `vertical` flag wrongly clear on two segments with x = ox the
division by `ox - x = 0` makes `compareTangentsV` return -1 in both argument orders (over a field,
Lean's `x/0 = 0`; the real float code divides 0/0 = NaN and returns +1 in both orders — replayed
through the hook, see harness/c01/cmp.go class `bad-flag`). -/
def wC : SP ℚ := ⟨0, 0, 0, 1, true, false, false, 0⟩
def wD : SP ℚ := ⟨0, 0, 0, 2, true, false, false, 0⟩

example : ¬ WF wC ∧ compareTangentsV wC wD = -1 ∧ compareTangentsV wD wC = -1 ∧
    compareH wD wC ≠ - compareH wC wD := by
  refine ⟨?_, ?_, ?_, ?_⟩
  · simp [WF, wC]
  · simp [compareTangentsV, interpolateY_def, wC, wD]
  · simp [compareTangentsV, interpolateY_def, wC, wD]
  · simp [compareH, compareTangentsV, interpolateY_def, wC, wD]

end witnesses

end Canvas.C01Cmp
