import CanvasProofs.Lemmas.C09Invol
/-! C09 helper lemmas: closedness flags and geometric segments of the reversed path. Core Lean only. -/
namespace C09L
open Canvas Canvas.Path Canvas.C09
variable {α : Type}

/-! ### closedness -/

theorem flatF_head (subs : List (SubPath α)) : flatF subs = [] ∨ ∃ p r, flatF subs = Cmd.move p :: r := by
  cases subs with
  | nil => exact Or.inl rfl
  | cons s more => exact Or.inr ⟨s.start, (s.segs ++ (if s.closed then [Cmd.close s.start] else [])) ++ flatF more, by simp [flatF, SubPath.flat]⟩

theorem closedFlags_body (body rest : List (Cmd α)) (h : body.all (fun c => !c.isMove) = true) :
    closedFlags (body ++ rest) = closedFlags rest := by
  induction body with
  | nil => rfl
  | cons c b ih =>
    simp only [List.all_cons, Bool.and_eq_true, Bool.not_eq_true'] at h
    rw [List.cons_append]
    cases c with
    | move p => simp [Cmd.isMove] at h
    | _ => simpa [closedFlags] using ih (by simpa using h.2)

theorem runClosed_draw (segs rest : List (Cmd α)) (h : segs.all Cmd.isDraw = true) :
    runClosed (segs ++ rest) = runClosed rest := by
  induction segs with
  | nil => rfl
  | cons c b ih =>
    simp only [List.all_cons, Bool.and_eq_true] at h
    rw [List.cons_append]
    cases c with
    | move p => simp [Cmd.isDraw] at h
    | close p => simp [Cmd.isDraw] at h
    | _ => simpa [runClosed] using ih h.2

theorem closedFlags_flat (subs : List (SubPath α)) (hd : ∀ s ∈ subs, s.drawOnly = true) :
    closedFlags (flatF subs) = subs.map (·.closed) := by
  induction subs with
  | nil => rfl
  | cons s more ih =>
    have hs := hd s (by simp)
    have e : flatF (s :: more) = Cmd.move s.start :: ((s.segs ++ (if s.closed then [Cmd.close s.start] else [])) ++ flatF more) := by
      simp [flatF, SubPath.flat]
    have hbody : (s.segs ++ (if s.closed then [Cmd.close s.start] else [])).all (fun c => !c.isMove) = true := by
      simp only [SubPath.drawOnly] at hs
      simp only [List.all_append, Bool.and_eq_true]
      constructor
      · rw [List.all_eq_true] at hs ⊢
        intro c hc; simp [isDraw_not_move c (hs c hc)]
      · cases s.closed <;> simp [Cmd.isMove]
    rw [e, closedFlags, closedFlags_body _ _ hbody, ih (fun t ht => hd t (by simp [ht]))]
    simp only [List.map_cons, List.cons.injEq, and_true]
    rw [List.append_assoc, runClosed_draw _ _ hs]
    rcases flatF_head more with h0 | ⟨p, r, h0⟩ <;> cases hcl : s.closed <;>
      simp [h0, runClosed, prevIsMoveOrNone, Cmd.isMove]

theorem revSub_closed_eq (eq : Pt α → Pt α → Bool) (s : SubPath α) : (revSub eq s).closed = s.closed := by
  unfold revSub
  cases s.closed <;> simp

/-! ### geometric segments -/

theorem chainSegs_append (a : Pt α) (xs ys : List (Cmd α)) :
    chainSegs a (xs ++ ys) = chainSegs a xs ++ chainSegs (chainEnd a xs) ys := by
  induction xs generalizing a with
  | nil => rfl
  | cons c cs ih => simp [chainSegs, ih]

theorem chainSegs_retarget (a : Pt α) (c : Cmd α) (h : c.isDraw = true) :
    chainSegs c.endp [retarget c a] = (chainSegs a [c]).map Seg.rev := by
  cases c <;> simp_all [chainSegs, retarget, Seg.rev, Cmd.endp, Cmd.isDraw]

theorem chainSegs_single_reverse (a : Pt α) (c : Cmd α) : (chainSegs a [c]).reverse = chainSegs a [c] := by
  cases c <;> rfl

theorem chainSegs_line (a e : Pt α) (cs : List (Cmd α)) :
    chainSegs a (Cmd.line e :: cs) = ⟨a, .line, e⟩ :: chainSegs e cs := rfl

/-- the reversed chain draws the reversed segments in reverse order -/
theorem chainSegs_revChain (a : Pt α) (cs : List (Cmd α)) (h : cs.all Cmd.isDraw = true) :
    chainSegs (chainEnd a cs) (revChain a cs) = ((chainSegs a cs).reverse).map Seg.rev := by
  induction cs generalizing a with
  | nil => rfl
  | cons c cs ih =>
    simp only [List.all_cons, Bool.and_eq_true] at h
    have e : chainSegs a (c :: cs) = chainSegs a [c] ++ chainSegs c.endp cs := by
      have := chainSegs_append a [c] cs
      simpa using this
    rw [chainEnd_cons, revChain_cons, chainSegs_append, ih _ h.2, chainEnd_revChain_self,
      chainSegs_retarget a c h.1, e, List.reverse_append, List.map_append, chainSegs_single_reverse]

variable (eq : Pt α → Pt α → Bool)

theorem geom_closed (start : Pt α) (segs : List (Cmd α)) :
    SubPath.geom eq ⟨start, segs, true⟩ =
      chainSegs start segs ++
        (if eq start (chainEnd start segs) then [] else [⟨chainEnd start segs, .line, start⟩]) := by
  simp only [SubPath.geom, Bool.true_and]
  cases eq start (chainEnd start segs) <;> simp

theorem geom_revSub (s : SubPath α) (h : s.RevOK eq) :
    SubPath.geom eq (revSub eq s) = ((SubPath.geom eq s).reverse).map Seg.rev := by
  obtain ⟨start, segs, closed⟩ := s
  obtain ⟨hd, hc⟩ := h
  simp only [SubPath.drawOnly] at hd
  cases closed with
  | false =>
    simp only [revSub, SubPath.geom, Bool.false_eq_true, if_false, Bool.false_and, List.append_nil]
    exact chainSegs_revChain start segs hd
  | true =>
    obtain ⟨hrefl, hfirst, _, hzero⟩ := hc rfl
    simp only at hrefl hfirst hzero
    cases segs with
    | nil =>
      rw [revSub_closed_pos eq start [] hrefl]
      simp [revClosedBody, geom_closed, hrefl, chainSegs]
    | cons c1 rest =>
      simp only [List.all_cons, Bool.and_eq_true] at hd
      have hen : chainEnd start (c1 :: rest) = chainEnd c1.endp rest := rfl
      have hsegs : chainSegs start (c1 :: rest) = chainSegs start [c1] ++ chainSegs c1.endp rest := by
        have := chainSegs_append start [c1] rest
        simpa using this
      by_cases hl : isLine c1 = true
      · have hc1 : eq start c1.endp = false := hfirst c1 rest rfl hl
        have hline : c1 = Cmd.line c1.endp := isLine_eq c1 hl
        have h1 : chainSegs start [c1] = [⟨start, .line, c1.endp⟩] := by
          rw [hline]; rfl
        by_cases he : eq start (chainEnd start (c1 :: rest)) = true
        · have hz : chainEnd c1.endp rest = start := hzero he
          have hrest : rest ≠ [] := by
            intro h0; subst h0
            simp only [chainEnd_cons, chainEnd_nil] at he
            rw [hc1] at he; exact absurd he (by simp)
          have hce : chainEnd start (revChain c1.endp rest) = c1.endp := chainEnd_revChain _ _ _ hrest
          have hcs : chainSegs start (revChain c1.endp rest) = ((chainSegs c1.endp rest).reverse).map Seg.rev := by
            have := chainSegs_revChain c1.endp rest hd.2
            rw [hz] at this; exact this
          rw [revSub_closed_pos eq _ _ he, revClosedBody_line _ _ _ hl, geom_closed, geom_closed, hce,
            hc1, he, hcs, hsegs, h1]
          simp [Seg.rev]
        · have he' : eq start (chainEnd start (c1 :: rest)) = false := by simpa using he
          have hce : chainEnd start (Cmd.line (chainEnd start (c1 :: rest)) :: revChain c1.endp rest) = c1.endp := by
            rw [chainEnd_cons, hen]; exact chainEnd_revChain_self _ _
          have hcs : chainSegs (chainEnd c1.endp rest) (revChain c1.endp rest) = ((chainSegs c1.endp rest).reverse).map Seg.rev :=
            chainSegs_revChain c1.endp rest hd.2
          rw [revSub_closed_neg eq _ _ he', revClosedBody_line _ _ _ hl, geom_closed, geom_closed, hce,
            hc1, he', hsegs, h1, chainSegs_line, hen, hcs]
          simp [Seg.rev]
      · have hl' : isLine c1 = false := by simpa using hl
        have hbody : revClosedBody start (c1 :: rest) = revChain start (c1 :: rest) :=
          revClosedBody_not_line _ _ (by simp [firstIsLine, hl'])
        have hcs := chainSegs_revChain start (c1 :: rest) (by simp [hd.1, hd.2])
        by_cases he : eq start (chainEnd start (c1 :: rest)) = true
        · have hz : chainEnd start (c1 :: rest) = start := hzero he
          have hce : chainEnd start (revChain start (c1 :: rest)) = start :=
            chainEnd_revChain _ _ _ (by simp)
          rw [hz] at hcs
          rw [revSub_closed_pos eq _ _ he, hbody, geom_closed, geom_closed, hce, hrefl, he, hcs]
          simp
        · have he' : eq start (chainEnd start (c1 :: rest)) = false := by simpa using he
          have hce : chainEnd start (Cmd.line (chainEnd start (c1 :: rest)) :: revChain start (c1 :: rest)) = start := by
            rw [chainEnd_cons]; exact chainEnd_revChain _ _ _ (by simp)
          rw [revSub_closed_neg eq _ _ he', hbody, geom_closed, geom_closed, hce, hrefl, he',
            chainSegs_line, hcs]
          simp [Seg.rev]

theorem flatMap_rev_map {β γ : Type} (f : β → β) (G : β → List γ) (r : γ → γ) (l : List β)
    (h : ∀ s ∈ l, G (f s) = ((G s).reverse).map r) :
    ((l.map f).reverse).flatMap G = ((l.flatMap G).reverse).map r := by
  induction l with
  | nil => rfl
  | cons s more ih =>
    simp only [List.map_cons, List.reverse_cons, List.flatMap_append, List.flatMap_cons,
      List.flatMap_nil, List.append_nil, List.reverse_append, List.map_append]
    rw [ih (fun t ht => h t (by simp [ht])), h s (by simp)]

/-- the reversed path draws the reversed segments in reverse order -/
theorem geom_reverse (subs : List (SubPath α)) (h : ∀ s ∈ subs, s.RevOK eq) :
    geom eq ((subs.map (revSub eq)).reverse) = ((geom eq subs).reverse).map Seg.rev :=
  flatMap_rev_map (revSub eq) (SubPath.geom eq) Seg.rev subs (fun s hs => geom_revSub eq s (h s hs))

end C09L
