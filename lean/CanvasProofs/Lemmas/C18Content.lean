import CanvasModel.C18
/-! Helper lemmas for C18 (g)(h)(i): literal-string escaping, TJ array structure, CIDToGIDMap. -/
namespace C18L
open Canvas.C18

/-- reading one escaped byte appends exactly that byte -/
theorem readLit_escByte (b : Nat) (hb : b < 256) (acc tail : List Nat) :
    readLit ⟨.normal, 0, acc⟩ (escByte b ++ tail) = readLit ⟨.normal, 0, acc ++ [b]⟩ tail := by
  unfold escByte
  by_cases h10 : b = 10
  · subst h10; simp [readLit, litStep, litNormal]
  by_cases h13 : b = 13
  · subst h13; simp [readLit, litStep, litNormal]
  by_cases h9 : b = 9
  · subst h9; simp [readLit, litStep, litNormal]
  by_cases h8 : b = 8
  · subst h8; simp [readLit, litStep, litNormal]
  by_cases h12 : b = 12
  · subst h12; simp [readLit, litStep, litNormal]
  by_cases h92 : b = 92
  · subst h92; simp [readLit, litStep, litNormal]
  by_cases h40 : b = 40
  · subst h40; simp [readLit, litStep, litNormal]
  by_cases h41 : b = 41
  · subst h41; simp [readLit, litStep, litNormal]
  · simp [h10, h13, h9, h8, h12, h92, h40, h41, readLit, litStep, litNormal]

theorem readLit_escCodes (cs : List Nat) (acc tail : List Nat) :
    readLit ⟨.normal, 0, acc⟩ (escCodes cs ++ tail) = readLit ⟨.normal, 0, acc ++ allCodeBytes cs⟩ tail := by
  induction cs generalizing acc with
  | nil => simp [escCodes, allCodeBytes]
  | cons c cs ih =>
    simp only [escCodes, allCodeBytes, codeBytes, List.append_assoc]
    rw [readLit_escByte _ (Nat.mod_lt _ (by decide)), readLit_escByte _ (Nat.mod_lt _ (by decide)), ih]
    simp

theorem tjAttach_snoc (p : List Nat) (c : Nat) (a : Int) :
    tjAttach (p ++ [c]) a = p.map (fun x => (x, (0 : Int))) ++ [(c, a)] := by
  induction p with
  | nil => simp [tjAttach]
  | cons x p ih =>
    cases p with
    | nil => simp [tjAttach]
    | cons y p => simp only [List.cons_append, tjAttach, List.map_cons] at ih ⊢; rw [ih]

theorem tjRead_go_lead (upm : Int) (p : List Nat) (gs : List (Nat × Int)) : (tjRead (tjGo upm p gs)).1 = 0 := by
  induction gs generalizing p with
  | nil =>
    simp only [tjGo, tjRead]
    split <;> rfl
  | cons g gs ih =>
    obtain ⟨c, dx⟩ := g
    simp only [tjGo]
    split
    · simp only [tjRead]
      have : p ++ [c] ≠ [] := by simp
      simp [this]
    · exact ih _

theorem tjRead_go (upm : Int) (p : List Nat) (gs : List (Nat × Int)) :
    (tjRead (tjGo upm p gs)).2 = p.map (fun x => (x, (0 : Int))) ++ gs.map (tjSpec upm) := by
  induction gs generalizing p with
  | nil =>
    simp only [tjGo, tjRead, List.map_nil, List.append_nil]
    by_cases hp : p = []
    · simp [hp]
    · simp only [hp, if_false]
      -- all glyphs of the last chunk carry no adjustment
      have : ∀ q : List Nat, q ≠ [] → tjAttach q 0 = q.map (fun x => (x, (0 : Int))) := by
        intro q
        induction q with
        | nil => intro h; exact absurd rfl h
        | cons x q ih =>
          intro _
          cases q with
          | nil => simp [tjAttach]
          | cons y q => simp only [tjAttach, List.map_cons]; rw [ih (by simp)]; simp
      simp [this p hp]
  | cons g gs ih =>
    obtain ⟨c, dx⟩ := g
    simp only [tjGo]
    by_cases hdx : dx = 0
    · subst hdx
      simp only [ne_eq, not_true_eq_false, if_false]
      rw [ih]
      simp [tjSpec]
    · simp only [ne_eq, hdx, not_false_eq_true, if_true, tjRead]
      have : p ++ [c] ≠ [] := by simp
      simp only [this, if_false]
      rw [tjAttach_snoc, tjRead_go_lead, ih]
      simp [tjSpec, hdx]

theorem encodeCidMap_length (ids : List Nat) : (encodeCidMap ids).length = 2 * ids.length := by
  induction ids with
  | nil => simp [encodeCidMap]
  | cons g gs ih => simp [encodeCidMap, ih]; omega

theorem cidToGid_encode (ids : List Nat) (hb : ∀ g ∈ ids, g < 65536) (cid : Nat) :
    cidToGid (encodeCidMap ids) cid = ids[cid]? := by
  induction ids generalizing cid with
  | nil => simp [encodeCidMap, cidToGid]
  | cons g gs ih =>
    have hg := hb g (by simp)
    cases cid with
    | zero =>
      simp only [encodeCidMap, cidToGid]
      simp
      omega
    | succ k =>
      have := ih (fun x hx => hb x (by simp [hx])) k
      simp only [cidToGid] at this ⊢
      simp only [encodeCidMap]
      have e1 : 2 * (k + 1) = (2 * k) + 1 + 1 := by omega
      have e2 : 2 * (k + 1) + 1 = (2 * k + 1) + 1 + 1 := by omega
      rw [e1]
      simp only [List.getElem?_cons_succ]
      rw [this]

end C18L
