import CanvasModel.C11
/-! Helper lemmas for C11: no-panic / progress invariants of the byte-level ParseSVGPath model. -/
namespace C11L
open Canvas.C11

/-- a number lexer never reports more bytes than the slice it was given -/
def LexBounded {α : Type} (lex : List Nat → α × Nat) : Prop := ∀ b, (lex b).2 ≤ b.length

/-- neither panic nor out of fuel -/
def Res.Safe {β : Type} : Res β → Prop
  | .ok _ => True
  | .err _ => True
  | .panic => False
  | .fuel => False

theorem safe_iff {β : Type} (r : Res β) : Res.Safe r ↔ r ≠ .panic ∧ r ≠ .fuel := by
  cases r <;> simp [Res.Safe]

theorem bind_safe {β γ : Type} (x : Res β) (f : β → Res γ)
    (hx : Res.Safe x) (hf : ∀ v, x = .ok v → Res.Safe (f v)) : Res.Safe (x.bind f) := by
  cases x with
  | ok v => exact hf v rfl
  | err e => simp [Res.bind, Res.Safe]
  | panic => exact hx.elim
  | fuel => exact hx.elim

theorem bind_eq_ok {β γ : Type} {x : Res β} {f : β → Res γ} {w : γ} (h : x.bind f = .ok w) :
    ∃ v, x = .ok v ∧ f v = .ok w := by
  cases x with
  | ok v => exact ⟨v, rfl, h⟩
  | err e => simp [Res.bind] at h
  | panic => simp [Res.bind] at h
  | fuel => simp [Res.bind] at h

theorem skipCW_le (l : List Nat) : skipCW l ≤ l.length := by
  induction l with
  | nil => simp [skipCW]
  | cons b bs ih => simp only [skipCW]; split <;> simp <;> omega

theorem skipAt_ok {path : List Nat} {i : Nat} (h : i ≤ path.length) :
    ∃ i', skipAt path i = .ok i' ∧ i ≤ i' ∧ i' ≤ path.length := by
  refine ⟨i + skipCW (path.drop i), ?_, by omega, ?_⟩
  · simp [skipAt, sliceFrom, h, Res.bind]
  · have := skipCW_le (path.drop i); simp at this; omega

theorem skipAt_panic {path : List Nat} {i : Nat} (h : path.length < i) : skipAt path i = .panic := by
  have : ¬ i ≤ path.length := by omega
  simp [skipAt, sliceFrom, this, Res.bind]

theorem idx_ok {path : List Nat} {i : Nat} (h : i < path.length) : ∃ b, idx path i = .ok b := by
  refine ⟨path[i], ?_⟩
  simp [idx, List.getElem?_eq_getElem h]

theorem idx_panic {path : List Nat} {i : Nat} (h : path.length ≤ i) : idx path i = .panic := by
  simp [idx, List.getElem?_eq_none h]

theorem guardedEq_ok (path : List Nat) (i v : Nat) :
    ∃ b, guardedEq path i v = .ok b ∧ (b = true → i < path.length) := by
  unfold guardedEq
  by_cases h : i < path.length
  · obtain ⟨b, hb⟩ := idx_ok h
    exact ⟨b == v, by simp [h, hb, Res.bind], fun _ => h⟩
  · exact ⟨false, by simp [h], by simp⟩

theorem set_ok {α : Type} (f : F7 α) {j : Nat} (v : α) (h : j < 7) : ∃ f', f.set j v = .ok f' := by
  have : j = 0 ∨ j = 1 ∨ j = 2 ∨ j = 3 ∨ j = 4 ∨ j = 5 ∨ j = 6 := by omega
  rcases this with h | h | h | h | h | h | h <;> subst h <;> exact ⟨_, rfl⟩

theorem cmdLens_le (c : Nat) : cmdLens c ≤ 7 := by
  unfold cmdLens; repeat (first | split | omega)

section
variable {α P : Type} (lex : List Nat → α × Nat) (num : Num α) (B : Builder α P)

/-- the argument loop: safe, stays inside the slice, and consumes at least one byte if it runs -/
theorem parseArgs_spec (hlex : LexBounded lex) (path : List Nat) (CMD cmd : Nat) (rep : Bool) (n : Nat) (hn : n ≤ 7) :
    ∀ (k i : Nat) (f : F7 α), k ≤ n → i ≤ path.length →
      Res.Safe (parseArgs lex num path CMD cmd rep n k i f) ∧
      ∀ i' f', parseArgs lex num path CMD cmd rep n k i f = .ok (i', f') →
        i ≤ i' ∧ i' ≤ path.length ∧ (0 < k → i < i') := by
  intro k
  induction k with
  | zero =>
    intro i f _ hi
    refine ⟨by simp [parseArgs, Res.Safe], ?_⟩
    intro i' f' h
    simp [parseArgs] at h
    omega
  | succ k ih =>
    intro i f hk hi
    have hj : n - (k + 1) < 7 := by omega
    -- continuation shared by the three "argument accepted" branches
    have cont : ∀ (i1 : Nat) (v : α), i < i1 → i1 ≤ path.length →
        Res.Safe ((f.set (n - (k + 1)) v).bind fun f' =>
          (skipAt path i1).bind fun i' => parseArgs lex num path CMD cmd rep n k i' f') ∧
        ∀ i' f', ((f.set (n - (k + 1)) v).bind fun f' =>
          (skipAt path i1).bind fun i' => parseArgs lex num path CMD cmd rep n k i' f') = .ok (i', f') →
          i ≤ i' ∧ i' ≤ path.length ∧ (0 < k + 1 → i < i') := by
      intro i1 v h1 h2
      obtain ⟨f1, hf1⟩ := set_ok f v hj
      obtain ⟨i2, hi2, h3, h4⟩ := skipAt_ok h2
      have := ih i2 f1 (by omega) h4
      simp only [hf1, hi2, Res.bind]
      refine ⟨this.1, ?_⟩
      intro i' f' h
      have := this.2 i' f' h
      omega
    unfold parseArgs
    simp only []
    split
    · -- arc flags
      obtain ⟨b1, hb1, hlt1⟩ := guardedEq_ok path i 49
      simp only [hb1, Res.bind]
      cases b1 with
      | true =>
        simp only [if_true]
        exact cont (i + 1) num.one (by omega) (by have := hlt1 rfl; omega)
      | false =>
        obtain ⟨b0, hb0, hlt0⟩ := guardedEq_ok path i 48
        simp only [hb0]
        cases b0 with
        | true =>
          simp only [if_true]
          exact cont (i + 1) num.zero (by omega) (by have := hlt0 rfl; omega)
        | false => simp [Res.Safe]
    · -- a number
      have hs : sliceFrom path i = .ok (path.drop i) := by simp [sliceFrom, hi]
      simp only [hs, Res.bind]
      have hb := hlex (path.drop i)
      simp only [List.length_drop] at hb
      split
      · -- no number: one of the three errors (the guarded path[i] cannot panic)
        split
        · rename_i h
          have hlt : i < path.length := by
            simp only [Bool.and_eq_true, decide_eq_true_eq] at h
            exact h.2
          obtain ⟨b, hb'⟩ := idx_ok hlt
          simp [hb', Res.Safe]
        · split <;> simp [Res.Safe]
      · rename_i hne
        have hpos : 0 < (lex (path.drop i)).2 := by
          simp only [beq_iff_eq] at hne
          omega
        exact cont (i + (lex (path.drop i)).2) (lex (path.drop i)).1 (by omega) (by omega)

theorem readCmd_spec (path : List Nat) (i prevCmd : Nat) (hi : i < path.length) :
    ∃ cmd rep i', readCmd path i prevCmd = .ok (cmd, rep, i') ∧ i' ≤ path.length ∧
      ((rep = false ∧ i < i') ∨ (rep = true ∧ i' = i ∧ cmd = prevCmd ∧ prevCmd ≠ 122 ∧ prevCmd ≠ 90)) := by
  obtain ⟨b, hb⟩ := idx_ok hi
  unfold readCmd
  simp only [hb, Res.bind]
  split
  · obtain ⟨i2, hi2, h3, h4⟩ := skipAt_ok (path := path) (i := i + 1) (by omega)
    exact ⟨b, false, i2, by simp [hi2], h4, Or.inl ⟨rfl, by omega⟩⟩
  · rename_i h
    simp only [Bool.or_eq_true, beq_iff_eq, Bool.not_eq_true', not_or] at h
    exact ⟨prevCmd, true, i, rfl, by omega, Or.inr ⟨rfl, rfl, rfl, h.1.1, h.1.2⟩⟩

/-- the 20 command bytes the `switch` accepts -/
def validCmds : List Nat := [77, 109, 90, 122, 76, 108, 72, 104, 86, 118, 67, 99, 83, 115, 81, 113, 84, 116, 65, 97]

theorem exec_some_valid (cmd prevCmd : Nat) (f : F7 α) (p : P) (q c p0 : α × α) (e : Exec α P)
    (h : exec num B cmd prevCmd f p q c p0 = some e) : cmd ∈ validCmds := by
  by_cases hv : cmd ∈ validCmds
  · exact hv
  · exfalso
    simp only [validCmds, List.mem_cons, List.mem_nil_iff, or_false, not_or] at hv
    obtain ⟨h1, h2, h3, h4, h5, h6, h7, h8, h9, h10, h11, h12, h13, h14, h15, h16, h17, h18, h19, h20⟩ := hv
    simp [exec, h1, h2, h3, h4, h5, h6, h7, h8, h9, h10, h11, h12, h13, h14, h15, h16, h17, h18, h19, h20] at h

theorem valid_args : ∀ cmd ∈ validCmds, cmd = 90 ∨ cmd = 122 ∨ 1 ≤ cmdLens (upper cmd) := by
  decide

/-- one loop iteration: safe, and the next iteration starts strictly further into the input -/
theorem step_spec (hlex : LexBounded lex) (path : List Nat) (st : St α P) (hi : st.i ≤ path.length) :
    Res.Safe (step lex num B path st) ∧
    ∀ st', step lex num B path st = .ok (.inr st') → st.i < st'.i ∧ st'.i ≤ path.length := by
  obtain ⟨i1, hi1, h1, h2⟩ := skipAt_ok hi
  unfold step
  simp only [hi1, Res.bind]
  split
  · exact ⟨by simp [Res.Safe], by intro st' h; simp at h⟩
  · rename_i hlt
    obtain ⟨cmd, rep, i2, hrc, h3, hcase⟩ := readCmd_spec path i1 st.prevCmd (by omega)
    simp only [hrc]
    have hpa := parseArgs_spec lex num hlex path (upper cmd) cmd rep (cmdLens (upper cmd)) (cmdLens_le _)
      (cmdLens (upper cmd)) i2 st.f (Nat.le_refl _) h3
    generalize hr : parseArgs lex num path (upper cmd) cmd rep (cmdLens (upper cmd)) (cmdLens (upper cmd)) i2 st.f = r at hpa
    cases r with
    | panic => exact hpa.1.elim
    | fuel => exact hpa.1.elim
    | err e => exact ⟨by simp [Res.Safe], by intro st' h; simp at h⟩
    | ok v =>
      obtain ⟨i3, f3⟩ := v
      have h4 := hpa.2 i3 f3 rfl
      simp only []
      split
      · exact ⟨by simp [Res.Safe], by intro st' h; simp at h⟩
      · rename_i e he
        refine ⟨by simp [Res.Safe], ?_⟩
        intro st' h
        simp only [Res.ok.injEq, Sum.inr.injEq] at h
        subst h
        simp only []
        refine ⟨?_, h4.2.1⟩
        rcases hcase with ⟨_, hlt2⟩ | ⟨_, heq, hcmd, hz, hZ⟩
        · omega
        · -- implicit repetition: the command takes at least one argument, so a number was consumed
          have hv := exec_some_valid num B cmd st.prevCmd f3 st.p st.q st.c st.p0 e he
          have := valid_args cmd hv
          have hpos : 0 < cmdLens (upper cmd) := by
            rcases this with h | h | h
            · omega
            · omega
            · omega
          have := h4.2.2 hpos
          omega

theorem loop_safe (hlex : LexBounded lex) (path : List Nat) :
    ∀ (fuel : Nat) (st : St α P), st.i ≤ path.length → path.length - st.i < fuel →
      Res.Safe (loop lex num B path fuel st) := by
  intro fuel
  induction fuel with
  | zero => intro st _ h; omega
  | succ fuel ih =>
    intro st hi hf
    have hs := step_spec lex num B hlex path st hi
    unfold loop
    apply bind_safe _ _ hs.1
    intro r hr
    cases r with
    | inl p => simp [Res.Safe]
    | inr st' =>
      have := hs.2 st' hr
      exact ih st' this.2 (by omega)
end

/-! ### the whitespace-only class and the first lines of ParseSVGPath -/

/-- non-empty, only whitespace/commas, not starting with a comma -/
def Defect (s : List Nat) : Prop := s ≠ [] ∧ s.head? ≠ some 44 ∧ skipCW s = s.length

instance (s : List Nat) : Decidable (Defect s) := by unfold Defect; exact inferInstance

theorem idx_zero {s : List Nat} (h : s ≠ []) : idx s 0 = .ok (s.head h) := by
  cases s with
  | nil => exact absurd rfl h
  | cons a t => simp [idx]

theorem skipAt_zero (s : List Nat) : skipAt s 0 = .ok (skipCW s) := by
  simp [skipAt, sliceFrom, Res.bind]

section
variable {α P : Type} (lex : List Nat → α × Nat) (num : Num α) (B : Builder α P)

/-- the parser before 91dc4d7: it panicked exactly on the whitespace-only class and was safe elsewhere -/
theorem parse_spec (hlex : LexBounded lex) (s : List Nat) :
    (parseSVGPathBefore91dc4d7 lex num B s = .panic ∧ Defect s) ∨ (Res.Safe (parseSVGPathBefore91dc4d7 lex num B s) ∧ ¬ Defect s) := by
  unfold parseSVGPathBefore91dc4d7 Defect
  by_cases he : (s.length == 0) = true
  · have : s = [] := by simpa using he
    subst this
    right
    simp [Res.Safe]
  · rw [if_neg he]
    have hs : s ≠ [] := by intro h; subst h; simp at he
    rw [skipAt_zero, idx_zero hs]
    simp only [Res.bind]
    have hhead : s.head? = some (s.head hs) := by cases s <;> simp_all
    by_cases h44 : (s.head hs == 44) = true
    · rw [if_pos h44]
      right
      have : s.head hs = 44 := by simpa using h44
      simp [Res.Safe, hhead, this]
    · rw [if_neg h44]
      have hn44 : s.head hs ≠ 44 := by simpa using h44
      by_cases hlt : skipCW s < s.length
      · obtain ⟨bi, hbi⟩ := idx_ok hlt
        rw [hbi]
        simp only []
        have hne' : skipCW s ≠ s.length := by omega
        right
        refine ⟨?_, fun h => hne' h.2.2⟩
        split
        · simp [Res.Safe]
        · exact loop_safe lex num B hlex s (s.length + 1) (initSt num B (skipCW s)) (by simp [initSt]; omega) (by simp [initSt]; omega)
      · have hle := skipCW_le s
        have heq : skipCW s = s.length := by omega
        rw [idx_panic (by omega)]
        left
        exact ⟨rfl, hs, by simp [hhead, hn44], heq⟩
end

/-! ### the number lexer never reports more than the slice -/

theorem scanMant_k (l : List Nat) : ∀ (i : Nat) (dot trunk : Option Nat) (n : Nat),
    (scanMant l i dot trunk n).k ≤ i + l.length := by
  induction l with
  | nil => intro i dot trunk n; simp [scanMant]
  | cons c cs ih =>
    intro i dot trunk n
    unfold scanMant
    split
    · split
      · split
        · have := ih (i + 1) dot (some i) n; simp only [List.length_cons]; omega
        · have := ih (i + 1) dot none ((n * 10 + (c - 48)) % u64); simp only [List.length_cons]; omega
      · rename_i t
        have := ih (i + 1) dot (some t) n; simp only [List.length_cons]; omega
    · split
      · have := ih (i + 1) (some i) trunk n; simp only [List.length_cons]; omega
      · simp

theorem scanIntDigits_k (l : List Nat) : ∀ (i n k m : Nat),
    scanIntDigits l i n = some (k, m) → k ≤ i + l.length := by
  induction l with
  | nil => intro i n k m h; simp [scanIntDigits] at h; omega
  | cons c cs ih =>
    intro i n k m h
    unfold scanIntDigits at h
    split at h
    · split at h
      · simp at h
      · have := ih _ _ _ _ h; simp only [List.length_cons]; omega
    · simp at h; omega

theorem parseInt_len (b : List Nat) : (parseInt b).2 ≤ b.length := by
  unfold parseInt
  simp only []
  split
  · simp
  · rename_i k n h
    have hk := scanIntDigits_k _ _ _ _ _ h
    simp only [List.length_drop, Nat.zero_add] at hk
    have hsign : (if (b.head? == some 43 || b.head? == some 45) = true then 1 else 0) ≤ b.length := by
      cases b with
      | nil => simp
      | cons a t => split <;> simp
    split
    · simp
    · split
      · simp
      · split <;> (simp only []; omega)

theorem scan_len (b : List Nat) : (scan b).len ≤ b.length := by
  unfold scan
  simp only []
  generalize hsg : (if (b.head? == some 43 || b.head? == some 45) = true then 1 else 0) = sign
  have hsign : sign ≤ b.length := by
    subst hsg
    cases b with
    | nil => simp
    | cons a t => split <;> simp
  have hm := scanMant_k (b.drop sign) 0 none none 0
  simp only [List.length_drop, Nat.zero_add] at hm
  generalize scanMant (b.drop sign) 0 none none 0 = m at hm ⊢
  split
  · simp
  · simp only []
    split
    · rename_i c r hafter
      have hlen : ((b.drop sign).drop m.k).length = r.length + 1 := by rw [hafter]; simp
      simp only [List.length_drop] at hlen
      have hp := parseInt_len r
      split
      · split
        · simp only []; omega
        · simp only []; omega
      · simp only []; omega
    · simp only []; omega

theorem lexFloat_bounded : LexBounded lexFloat := by
  intro b
  unfold lexFloat
  simp only []
  split
  · simp
  · exact scan_len b

end C11L
