import CanvasProofs.Lemmas.C08
import CanvasProofs.Lemmas.C08Equiv
import CanvasProofs.Lemmas.C08Cubic

/-! # C08 — tight boxes are unique, hence equivariant under every axis-aligned affine map

`Bounds` is characterised semantically (contains the path, every side attained); the image of a tight
box under an axis-aligned affine map `m` (diagonal or anti-diagonal linear part: translations, axis
reflections, axis scalings, the swap x↔y and the rotations by multiples of 90°) is the tight box of the
image set, and it is the generated `Rect.Transform r m`. -/
set_option linter.unusedSectionVars false
set_option linter.unusedVariables false
namespace C08
open Canvas Canvas.C08 GenK
variable {K : Type} [Field K] [LinearOrder K] [IsStrictOrderedRing K] [Env K] [ArcFns K]

/-- `r` contains the point set `S` and each of its sides is attained by a point of `S` -/
def TightBox (S : Pt K → Prop) (r : Rct K) : Prop :=
  (∀ q, S q → InRect r q) ∧
  (∃ q, S q ∧ q.x = r.x0) ∧ (∃ q, S q ∧ q.x = r.x1) ∧ (∃ q, S q ∧ q.y = r.y0) ∧ (∃ q, S q ∧ q.y = r.y1)

theorem tight_unique (S : Pt K → Prop) (r r' : Rct K) (h : TightBox S r) (h' : TightBox S r') : r = r' := by
  obtain ⟨c, ⟨q1, s1, e1⟩, ⟨q2, s2, e2⟩, ⟨q3, s3, e3⟩, ⟨q4, s4, e4⟩⟩ := h
  obtain ⟨c', ⟨q1', s1', e1'⟩, ⟨q2', s2', e2'⟩, ⟨q3', s3', e3'⟩, ⟨q4', s4', e4'⟩⟩ := h'
  cases r; cases r'
  simp only [InRect] at *
  congr 1
  · exact le_antisymm (e1' ▸ (c q1' s1').1) (e1 ▸ (c' q1 s1).1)
  · exact le_antisymm (e3' ▸ (c q3' s3').2.2.1) (e3 ▸ (c' q3 s3).2.2.1)
  · exact le_antisymm (e2 ▸ (c' q2 s2).2.1) (e2' ▸ (c q2' s2').2.1)
  · exact le_antisymm (e4 ▸ (c' q4 s4).2.2.2) (e4' ▸ (c q4' s4').2.2.2)

theorem tight_congr (S S' : Pt K → Prop) (r : Rct K) (h : ∀ q, S q ↔ S' q) (t : TightBox S r) : TightBox S' r := by
  obtain ⟨c, ⟨q1, s1, e1⟩, ⟨q2, s2, e2⟩, ⟨q3, s3, e3⟩, ⟨q4, s4, e4⟩⟩ := t
  exact ⟨fun q hq => c q ((h q).2 hq), ⟨q1, (h _).1 s1, e1⟩, ⟨q2, (h _).1 s2, e2⟩, ⟨q3, (h _).1 s3, e3⟩, ⟨q4, (h _).1 s4, e4⟩⟩

/-- the linear part is diagonal or anti-diagonal -/
def AxisAligned (m : Mat K) : Prop := (m.b = 0 ∧ m.d = 0) ∨ (m.a = 0 ∧ m.e = 0)

def Image (T : Pt K → Pt K) (S : Pt K → Prop) (q : Pt K) : Prop := ∃ q0, S q0 ∧ q = T q0

theorem affine_between (k c lo hi v : K) (h1 : lo ≤ v) (h2 : v ≤ hi) :
    min (k * lo + c) (k * hi + c) ≤ k * v + c ∧ k * v + c ≤ max (k * lo + c) (k * hi + c) := by
  rcases le_total 0 k with hk | hk
  · exact ⟨(min_le_left _ _).trans (by nlinarith), le_trans (by nlinarith) (le_max_right _ _)⟩
  · exact ⟨(min_le_right _ _).trans (by nlinarith), le_trans (by nlinarith) (le_max_left _ _)⟩

theorem min4 (u v : K) : min u (min v (min v u)) = min u v := by
  rcases le_total u v with h | h <;> simp [h]
theorem max4 (u v : K) : max u (max v (max v u)) = max u v := by
  rcases le_total u v with h | h <;> simp [h]
theorem min4' (u v : K) : min u (min u (min v v)) = min u v := by simp
theorem max4' (u v : K) : max u (max u (max v v)) = max u v := by simp

theorem rectTransform_diag (r : Rct K) (m : Mat K) (hb : m.b = 0) (hd : m.d = 0) :
    Rect.Transform r m = ⟨min (m.a * r.x0 + m.c) (m.a * r.x1 + m.c), min (m.e * r.y0 + m.f) (m.e * r.y1 + m.f),
      max (m.a * r.x0 + m.c) (m.a * r.x1 + m.c), max (m.e * r.y0 + m.f) (m.e * r.y1 + m.f)⟩ := by
  simp only [Rect.Transform, Matrix.Dot, hb, hd, zero_mul, add_zero, zero_add, min4, max4, min4', max4']

theorem rectTransform_anti (r : Rct K) (m : Mat K) (ha : m.a = 0) (he : m.e = 0) :
    Rect.Transform r m = ⟨min (m.b * r.y0 + m.c) (m.b * r.y1 + m.c), min (m.d * r.x0 + m.f) (m.d * r.x1 + m.f),
      max (m.b * r.y0 + m.c) (m.b * r.y1 + m.c), max (m.d * r.x0 + m.f) (m.d * r.x1 + m.f)⟩ := by
  simp only [Rect.Transform, Matrix.Dot, ha, he, zero_mul, add_zero, zero_add, min4, max4, min4', max4']

/-- the image of a tight box under an axis-aligned affine map is the tight box of the image -/
theorem tight_image (S : Pt K → Prop) (r : Rct K) (m : Mat K) (hm : AxisAligned m) (t : TightBox S r) :
    TightBox (Image (Matrix.Dot m) S) (Rect.Transform r m) := by
  obtain ⟨c, ⟨q1, s1, e1⟩, ⟨q2, s2, e2⟩, ⟨q3, s3, e3⟩, ⟨q4, s4, e4⟩⟩ := t
  rcases hm with ⟨hb, hd⟩ | ⟨ha, he⟩
  · rw [rectTransform_diag r m hb hd]
    refine ⟨?_, ?_, ?_, ?_, ?_⟩
    · rintro q ⟨q0, h0, rfl⟩
      obtain ⟨a1, a2, a3, a4⟩ := c q0 h0
      have X := affine_between m.a m.c r.x0 r.x1 q0.x a1 a2
      have Y := affine_between m.e m.f r.y0 r.y1 q0.y a3 a4
      simp only [InRect, Matrix.Dot, hb, hd, zero_mul, add_zero, zero_add]
      exact ⟨X.1, X.2, Y.1, Y.2⟩
    · rcases min_choice (m.a * r.x0 + m.c) (m.a * r.x1 + m.c) with e | e <;> simp only [e]
      · exact ⟨_, ⟨q1, s1, rfl⟩, by simp [Matrix.Dot, hb, e1]⟩
      · exact ⟨_, ⟨q2, s2, rfl⟩, by simp [Matrix.Dot, hb, e2]⟩
    · rcases max_choice (m.a * r.x0 + m.c) (m.a * r.x1 + m.c) with e | e <;> simp only [e]
      · exact ⟨_, ⟨q1, s1, rfl⟩, by simp [Matrix.Dot, hb, e1]⟩
      · exact ⟨_, ⟨q2, s2, rfl⟩, by simp [Matrix.Dot, hb, e2]⟩
    · rcases min_choice (m.e * r.y0 + m.f) (m.e * r.y1 + m.f) with e | e <;> simp only [e]
      · exact ⟨_, ⟨q3, s3, rfl⟩, by simp [Matrix.Dot, hd, e3]⟩
      · exact ⟨_, ⟨q4, s4, rfl⟩, by simp [Matrix.Dot, hd, e4]⟩
    · rcases max_choice (m.e * r.y0 + m.f) (m.e * r.y1 + m.f) with e | e <;> simp only [e]
      · exact ⟨_, ⟨q3, s3, rfl⟩, by simp [Matrix.Dot, hd, e3]⟩
      · exact ⟨_, ⟨q4, s4, rfl⟩, by simp [Matrix.Dot, hd, e4]⟩
  · rw [rectTransform_anti r m ha he]
    refine ⟨?_, ?_, ?_, ?_, ?_⟩
    · rintro q ⟨q0, h0, rfl⟩
      obtain ⟨a1, a2, a3, a4⟩ := c q0 h0
      have X := affine_between m.b m.c r.y0 r.y1 q0.y a3 a4
      have Y := affine_between m.d m.f r.x0 r.x1 q0.x a1 a2
      simp only [InRect, Matrix.Dot, ha, he, zero_mul, add_zero, zero_add]
      exact ⟨X.1, X.2, Y.1, Y.2⟩
    · rcases min_choice (m.b * r.y0 + m.c) (m.b * r.y1 + m.c) with e | e <;> simp only [e]
      · exact ⟨_, ⟨q3, s3, rfl⟩, by simp [Matrix.Dot, ha, e3]⟩
      · exact ⟨_, ⟨q4, s4, rfl⟩, by simp [Matrix.Dot, ha, e4]⟩
    · rcases max_choice (m.b * r.y0 + m.c) (m.b * r.y1 + m.c) with e | e <;> simp only [e]
      · exact ⟨_, ⟨q3, s3, rfl⟩, by simp [Matrix.Dot, ha, e3]⟩
      · exact ⟨_, ⟨q4, s4, rfl⟩, by simp [Matrix.Dot, ha, e4]⟩
    · rcases min_choice (m.d * r.x0 + m.f) (m.d * r.x1 + m.f) with e | e <;> simp only [e]
      · exact ⟨_, ⟨q1, s1, rfl⟩, by simp [Matrix.Dot, he, e1]⟩
      · exact ⟨_, ⟨q2, s2, rfl⟩, by simp [Matrix.Dot, he, e2]⟩
    · rcases max_choice (m.d * r.x0 + m.f) (m.d * r.x1 + m.f) with e | e <;> simp only [e]
      · exact ⟨_, ⟨q1, s1, rfl⟩, by simp [Matrix.Dot, he, e1]⟩
      · exact ⟨_, ⟨q2, s2, rfl⟩, by simp [Matrix.Dot, he, e2]⟩

/-! ## the point set of the mapped path is the image of the point set -/

theorem interp_affine (m : Mat K) (p q : Pt K) (t : K) :
    Point.Interpolate (Matrix.Dot m p) (Matrix.Dot m q) t = Matrix.Dot m (Point.Interpolate p q t) := by
  simp only [Point.Interpolate, Matrix.Dot]; congr 1 <;> ring
theorem quad_affine (m : Mat K) (p0 p1 p2 : Pt K) (t : K) :
    quadraticBezierPos (Matrix.Dot m p0) (Matrix.Dot m p1) (Matrix.Dot m p2) t = Matrix.Dot m (quadraticBezierPos p0 p1 p2 t) := by
  simp only [quadraticBezierPos, Point.Mul, Point.Add, Matrix.Dot]; congr 1 <;> ring
theorem cube_affine (m : Mat K) (p0 p1 p2 p3 : Pt K) (t : K) :
    cubicBezierPos (Matrix.Dot m p0) (Matrix.Dot m p1) (Matrix.Dot m p2) (Matrix.Dot m p3) t
      = Matrix.Dot m (cubicBezierPos p0 p1 p2 p3 t) := by
  simp only [cubicBezierPos, Point.Mul, Point.Add, Matrix.Dot]; congr 1 <;> ring

theorem endPt_mapP (f : Pt K → Pt K) (c : Cmd K) : (c.mapP f).endPt = f c.endPt := by cases c <;> rfl

theorem onSeg_map (m : Mat K) (start : Pt K) (c : Cmd K) (q : Pt K) :
    OnSeg (Matrix.Dot m start) (c.mapP (Matrix.Dot m)) q ↔ Image (Matrix.Dot m) (OnSeg start c) q := by
  cases c with
  | M p =>
    constructor
    · intro h; exact ⟨p, rfl, h⟩
    · rintro ⟨q0, h0, rfl⟩; cases h0; rfl
  | L p =>
    constructor
    · rintro ⟨t, t0, t1, rfl⟩; exact ⟨_, ⟨t, t0, t1, rfl⟩, interp_affine m _ _ t⟩
    · rintro ⟨q0, ⟨t, t0, t1, rfl⟩, rfl⟩; exact ⟨t, t0, t1, (interp_affine m _ _ t).symm⟩
  | Z p =>
    constructor
    · rintro ⟨t, t0, t1, rfl⟩; exact ⟨_, ⟨t, t0, t1, rfl⟩, interp_affine m _ _ t⟩
    · rintro ⟨q0, ⟨t, t0, t1, rfl⟩, rfl⟩; exact ⟨t, t0, t1, (interp_affine m _ _ t).symm⟩
  | Q cp p =>
    constructor
    · rintro ⟨t, t0, t1, rfl⟩; exact ⟨_, ⟨t, t0, t1, rfl⟩, quad_affine m _ _ _ t⟩
    · rintro ⟨q0, ⟨t, t0, t1, rfl⟩, rfl⟩; exact ⟨t, t0, t1, (quad_affine m _ _ _ t).symm⟩
  | C cp1 cp2 p =>
    constructor
    · rintro ⟨t, t0, t1, rfl⟩; exact ⟨_, ⟨t, t0, t1, rfl⟩, cube_affine m _ _ _ _ t⟩
    · rintro ⟨q0, ⟨t, t0, t1, rfl⟩, rfl⟩; exact ⟨t, t0, t1, (cube_affine m _ _ _ _ t).symm⟩
  | A rx ry phi l sw p =>
    constructor
    · intro h; exact h.elim
    · rintro ⟨q0, h0, _⟩; exact h0.elim

theorem onPathFrom_map (m : Mat K) (cs : List (Cmd K)) (start q : Pt K) :
    OnPathFrom (Matrix.Dot m start) (cs.map (Cmd.mapP (Matrix.Dot m))) q ↔ Image (Matrix.Dot m) (OnPathFrom start cs) q := by
  induction cs generalizing start with
  | nil =>
    constructor
    · intro h; exact h.elim
    · rintro ⟨q0, h0, _⟩; exact h0.elim
  | cons c cs ih =>
    simp only [List.map_cons, OnPathFrom, endPt_mapP]
    rw [onSeg_map, ih]
    constructor
    · rintro (⟨q0, h0, e⟩ | ⟨q0, h0, e⟩)
      · exact ⟨q0, Or.inl h0, e⟩
      · exact ⟨q0, Or.inr h0, e⟩
    · rintro ⟨q0, h0 | h0, e⟩
      · exact Or.inl ⟨q0, h0, e⟩
      · exact Or.inr ⟨q0, h0, e⟩

theorem onPath_map (m : Mat K) (cs : List (Cmd K)) (harc : ∀ c ∈ cs, c.isArc = false) (q : Pt K) :
    OnPath (cs.map (Cmd.mapP (Matrix.Dot m))) q ↔ Image (Matrix.Dot m) (OnPath cs) q := by
  cases cs with
  | nil =>
    constructor
    · intro h; exact h.elim
    · rintro ⟨q0, h0, _⟩; exact h0.elim
  | cons c cs =>
    simp only [List.map_cons, OnPath]
    rw [firstPt_mapP _ c (harc c (List.mem_cons_self ..)), onPathFrom_map]
    constructor
    · rintro (e | ⟨q0, h0, e⟩)
      · exact ⟨_, Or.inl rfl, e⟩
      · exact ⟨q0, Or.inr h0, e⟩
    · rintro ⟨q0, h0 | h0, e⟩
      · left; rw [e, h0]
      · exact Or.inr ⟨q0, h0, e⟩

/-! ## Bounds is the tight box, and commutes with every axis-aligned affine map -/

theorem bounds_tightBox (hε : (Env.epsilon : K) = 0) (hs : ∀ x : K, 0 ≤ x → Env.sqrt x * Env.sqrt x = x)
    (sw : Bool) (cs : List (Cmd K)) (hne : cs ≠ []) (harc : ∀ c ∈ cs, c.isArc = false) :
    TightBox (OnPath cs) (run (boundsStepG sw) cs) := by
  refine ⟨fun q hq => run_contains (boundsStep_good_full hε hs sw) cs q (fun c hc => harc c (List.mem_of_mem_tail hc)) hq, ?_⟩
  cases cs with
  | nil => exact absurd rfl hne
  | cons c cs =>
    have h0 : Att (fun q => q = c.firstPt) (St.init c.firstPt : St K) :=
      ⟨⟨_, rfl, rfl⟩, ⟨_, rfl, rfl⟩, ⟨_, rfl, rfl⟩, ⟨_, rfl, rfl⟩⟩
    exact fold_att (le_of_eq hε.symm) sw cs _ _ (fun c' hc' => harc c' (List.mem_cons_of_mem _ hc')) h0

theorem bounds_affine_gen (hε : (Env.epsilon : K) = 0) (hs : ∀ x : K, 0 ≤ x → Env.sqrt x * Env.sqrt x = x)
    (sw : Bool) (m : Mat K) (hm : AxisAligned m) (cs : List (Cmd K)) (hne : cs ≠ []) (harc : ∀ c ∈ cs, c.isArc = false) :
    run (boundsStepG sw) (cs.map (Cmd.mapP (Matrix.Dot m))) = Rect.Transform (run (boundsStepG sw) cs) m := by
  have t1 := bounds_tightBox hε hs sw (cs.map (Cmd.mapP (Matrix.Dot m))) (by simpa using hne)
    (by intro c hc; obtain ⟨c0, h0, rfl⟩ := List.mem_map.1 hc; rw [mapP_isArc]; exact harc c0 h0)
  have t2 := tight_image _ _ m hm (bounds_tightBox hε hs sw cs hne harc)
  exact tight_unique _ _ _ t1 (tight_congr _ _ _ (fun q => (onPath_map m cs harc q).symm) t2)

/-! ## FastBounds is the tight box of the control points -/

/-- the points a command contributes to the control polygon -/
def CtrlOf : Cmd K → Pt K → Prop
  | .M p, q => q = p
  | .L p, q => q = p
  | .Z p, q => q = p
  | .Q cp p, q => q = cp ∨ q = p
  | .C cp1 cp2 p, q => q = cp1 ∨ q = cp2 ∨ q = p
  | .A _ _ _ _ _ _, _ => False

def CtrlPts : List (Cmd K) → Pt K → Prop
  | [], _ => False
  | c :: cs, q => q = c.firstPt ∨ ∃ c' ∈ cs, CtrlOf c' q

def AttX (S : Pt K → Prop) (v : K) : Prop := ∃ q, S q ∧ q.x = v
def AttY (S : Pt K → Prop) (v : K) : Prop := ∃ q, S q ∧ q.y = v
theorem attX_min (S : Pt K → Prop) (a b : K) (ha : AttX S a) (hb : AttX S b) : AttX S (min a b) := by
  rcases min_choice a b with e | e <;> rw [e] <;> assumption
theorem attX_max (S : Pt K → Prop) (a b : K) (ha : AttX S a) (hb : AttX S b) : AttX S (max a b) := by
  rcases max_choice a b with e | e <;> rw [e] <;> assumption
theorem attY_min (S : Pt K → Prop) (a b : K) (ha : AttY S a) (hb : AttY S b) : AttY S (min a b) := by
  rcases min_choice a b with e | e <;> rw [e] <;> assumption
theorem attY_max (S : Pt K → Prop) (a b : K) (ha : AttY S a) (hb : AttY S b) : AttY S (max a b) := by
  rcases max_choice a b with e | e <;> rw [e] <;> assumption

theorem fastStep_ctrl_in (s : St K) (c : Cmd K) (q : Pt K) (h : CtrlOf c q) : StIn (fastStepG max s c) q := by
  cases c with
  | M p => cases h; simp [fastStepG, StIn]
  | L p => cases h; simp [fastStepG, StIn]
  | Z p => cases h; simp [fastStepG, StIn]
  | Q cp p => rcases h with h | h <;> subst h <;> simp [fastStepG, StIn]
  | C cp1 cp2 p => rcases h with h | h | h <;> subst h <;> simp [fastStepG, StIn]
  | A rx ry phi l sw p => exact h.elim

theorem fastStep_ctrl_att' (S : Pt K → Prop) (s : St K) (c : Cmd K) (hc : c.isArc = false) (h : Att S s)
    (hS : ∀ q, CtrlOf c q → S q) : Att S (fastStepG max s c) := by
  obtain ⟨o1, o2, o3, o4⟩ := h
  have cx : ∀ p, CtrlOf c p → AttX S p.x := fun p h => ⟨p, hS p h, rfl⟩
  have cy : ∀ p, CtrlOf c p → AttY S p.y := fun p h => ⟨p, hS p h, rfl⟩
  cases c with
  | M p => exact ⟨attX_min S _ _ o1 (cx p rfl), attX_max S _ _ o2 (cx p rfl), attY_min S _ _ o3 (cy p rfl), attY_max S _ _ o4 (cy p rfl)⟩
  | L p => exact ⟨attX_min S _ _ o1 (cx p rfl), attX_max S _ _ o2 (cx p rfl), attY_min S _ _ o3 (cy p rfl), attY_max S _ _ o4 (cy p rfl)⟩
  | Z p => exact ⟨attX_min S _ _ o1 (cx p rfl), attX_max S _ _ o2 (cx p rfl), attY_min S _ _ o3 (cy p rfl), attY_max S _ _ o4 (cy p rfl)⟩
  | Q cp p =>
    have n1 : CtrlOf (.Q cp p) cp := Or.inl rfl
    have n2 : CtrlOf (.Q cp p) p := Or.inr rfl
    exact ⟨attX_min S _ _ o1 (attX_min S _ _ (cx _ n1) (cx _ n2)), attX_max S _ _ o2 (attX_max S _ _ (cx _ n1) (cx _ n2)),
      attY_min S _ _ o3 (attY_min S _ _ (cy _ n1) (cy _ n2)), attY_max S _ _ o4 (attY_max S _ _ (cy _ n1) (cy _ n2))⟩
  | C cp1 cp2 p =>
    have n1 : CtrlOf (.C cp1 cp2 p) cp1 := Or.inl rfl
    have n2 : CtrlOf (.C cp1 cp2 p) cp2 := Or.inr (Or.inl rfl)
    have n3 : CtrlOf (.C cp1 cp2 p) p := Or.inr (Or.inr rfl)
    exact ⟨attX_min S _ _ o1 (attX_min S _ _ (cx _ n1) (attX_min S _ _ (cx _ n2) (cx _ n3))),
      attX_max S _ _ o2 (attX_max S _ _ (cx _ n1) (attX_max S _ _ (cx _ n2) (cx _ n3))),
      attY_min S _ _ o3 (attY_min S _ _ (cy _ n1) (attY_min S _ _ (cy _ n2) (cy _ n3))),
      attY_max S _ _ o4 (attY_max S _ _ (cy _ n1) (attY_max S _ _ (cy _ n2) (cy _ n3)))⟩
  | A rx ry phi l sw p => simp [Cmd.isArc] at hc

theorem fastStep_ctrl_att (P : Pt K → Prop) (s : St K) (c : Cmd K) (hc : c.isArc = false) (h : Att P s) :
    Att (fun q => P q ∨ CtrlOf c q) (fastStepG max s c) :=
  fastStep_ctrl_att' _ s c hc (att_weaken s (fun q hq => Or.inl hq) h) (fun q hq => Or.inr hq)

theorem fast_fold_in (cs : List (Cmd K)) (s : St K) (q : Pt K) (h : StIn s q ∨ ∃ c ∈ cs, CtrlOf c q) :
    StIn (cs.foldl (fastStepG max) s) q := by
  induction cs generalizing s with
  | nil =>
    rcases h with h | ⟨c, hc, _⟩
    · exact h
    · cases hc
  | cons c cs ih =>
    refine ih _ ?_
    rcases h with h | ⟨c', hc', hq⟩
    · exact Or.inl ((fastStepG_good (K := K) max).mono s c q h)
    · rcases List.mem_cons.1 hc' with e | e
      · subst e; exact Or.inl (fastStep_ctrl_in s _ q hq)
      · exact Or.inr ⟨c', e, hq⟩

theorem fast_fold_att (cs : List (Cmd K)) (P : Pt K → Prop) (s : St K) (hc : ∀ c ∈ cs, c.isArc = false) (h : Att P s) :
    Att (fun q => P q ∨ ∃ c ∈ cs, CtrlOf c q) (cs.foldl (fastStepG max) s) := by
  induction cs generalizing s P with
  | nil => exact att_weaken s (fun q hq => Or.inl hq) h
  | cons c cs ih =>
    have h1 := fastStep_ctrl_att P s c (hc c (List.mem_cons_self ..)) h
    have h2 := ih _ (fastStepG max s c) (fun c' hc' => hc c' (List.mem_cons_of_mem _ hc')) h1
    refine att_weaken _ ?_ h2
    rintro q ((hq | hq) | ⟨c', hc', hq⟩)
    · exact Or.inl hq
    · exact Or.inr ⟨c, List.mem_cons_self .., hq⟩
    · exact Or.inr ⟨c', List.mem_cons_of_mem _ hc', hq⟩

/-- FastBounds (corrected formula) is exactly the bounding box of the control polygon's vertices -/
theorem fast_tightBox (cs : List (Cmd K)) (hne : cs ≠ []) (harc : ∀ c ∈ cs, c.isArc = false) :
    TightBox (CtrlPts cs) (run (fastStepG max) cs) := by
  cases cs with
  | nil => exact absurd rfl hne
  | cons c cs =>
    refine ⟨fun q hq => ?_, ?_⟩
    · refine fast_fold_in cs _ q ?_
      rcases hq with e | h
      · left; rw [e]; exact stIn_init _
      · exact Or.inr h
    · have h0 : Att (fun q => q = c.firstPt) (St.init c.firstPt : St K) :=
        ⟨⟨_, rfl, rfl⟩, ⟨_, rfl, rfl⟩, ⟨_, rfl, rfl⟩, ⟨_, rfl, rfl⟩⟩
      exact fast_fold_att cs _ _ (fun c' hc' => harc c' (List.mem_cons_of_mem _ hc')) h0

theorem ctrlOf_map (f : Pt K → Pt K) (c : Cmd K) (q : Pt K) : CtrlOf (c.mapP f) q ↔ Image f (CtrlOf c) q := by
  cases c with
  | M p => exact ⟨fun h => ⟨p, rfl, h⟩, by rintro ⟨q0, h0, rfl⟩; cases h0; rfl⟩
  | L p => exact ⟨fun h => ⟨p, rfl, h⟩, by rintro ⟨q0, h0, rfl⟩; cases h0; rfl⟩
  | Z p => exact ⟨fun h => ⟨p, rfl, h⟩, by rintro ⟨q0, h0, rfl⟩; cases h0; rfl⟩
  | Q cp p =>
    constructor
    · rintro (h | h)
      · exact ⟨cp, Or.inl rfl, h⟩
      · exact ⟨p, Or.inr rfl, h⟩
    · rintro ⟨q0, h0 | h0, rfl⟩
      · left; rw [h0]
      · right; rw [h0]
  | C cp1 cp2 p =>
    constructor
    · rintro (h | h | h)
      · exact ⟨cp1, Or.inl rfl, h⟩
      · exact ⟨cp2, Or.inr (Or.inl rfl), h⟩
      · exact ⟨p, Or.inr (Or.inr rfl), h⟩
    · rintro ⟨q0, h0 | h0 | h0, rfl⟩
      · left; rw [h0]
      · right; left; rw [h0]
      · right; right; rw [h0]
  | A rx ry phi l sw p => exact ⟨fun h => h.elim, by rintro ⟨q0, h0, _⟩; exact h0.elim⟩

theorem ctrlPts_map (f : Pt K → Pt K) (cs : List (Cmd K)) (harc : ∀ c ∈ cs, c.isArc = false) (q : Pt K) :
    CtrlPts (cs.map (Cmd.mapP f)) q ↔ Image f (CtrlPts cs) q := by
  cases cs with
  | nil => exact ⟨fun h => h.elim, by rintro ⟨q0, h0, _⟩; exact h0.elim⟩
  | cons c cs =>
    simp only [List.map_cons, CtrlPts]
    rw [firstPt_mapP _ c (harc c (List.mem_cons_self ..))]
    constructor
    · rintro (e | ⟨c', hc', hq⟩)
      · exact ⟨_, Or.inl rfl, e⟩
      · obtain ⟨c0, h0, rfl⟩ := List.mem_map.1 hc'
        obtain ⟨q0, hq0, e⟩ := (ctrlOf_map f c0 q).1 hq
        exact ⟨q0, Or.inr ⟨c0, h0, hq0⟩, e⟩
    · rintro ⟨q0, h0 | ⟨c0, h0, hq0⟩, e⟩
      · left; rw [e, h0]
      · exact Or.inr ⟨c0.mapP f, List.mem_map.2 ⟨c0, h0, rfl⟩, (ctrlOf_map f c0 q).2 ⟨q0, hq0, e⟩⟩

theorem fast_affine_gen (m : Mat K) (hm : AxisAligned m) (cs : List (Cmd K)) (hne : cs ≠ []) (harc : ∀ c ∈ cs, c.isArc = false) :
    run (fastStepG max) (cs.map (Cmd.mapP (Matrix.Dot m))) = Rect.Transform (run (fastStepG max) cs) m := by
  have t1 := fast_tightBox (cs.map (Cmd.mapP (Matrix.Dot m))) (by simpa using hne)
    (by intro c hc; obtain ⟨c0, h0, rfl⟩ := List.mem_map.1 hc; rw [mapP_isArc]; exact harc c0 h0)
  have t2 := tight_image _ _ m hm (fast_tightBox cs hne harc)
  exact tight_unique _ _ _ t1 (tight_congr _ _ _ (fun q => (ctrlPts_map _ cs harc q).symm) t2)

end C08
