import CanvasModel.C16.Stack
import Mathlib.Tactic.Ring
import Mathlib.Tactic.Linarith
import Mathlib.Tactic.FieldSimp
/-! Lemmas for C16 (f): the line stacking of ToText (`stackFit`, `stackLines`) and Text.Bounds over an ordered field. -/
set_option linter.unusedSectionVars false
set_option linter.unusedSimpArgs false
namespace Canvas.C16
variable {K : Type} [Field K] [LinearOrder K] [IsStrictOrderedRing K]

/-- consecutive baselines are exactly one line height apart: bottom of the upper line + ascent of the
lower line, both scaled by the line spacing -/
def Gapped (ls : K) : List K → List (LM K) → Prop
  | y1 :: y2 :: ys, l1 :: l2 :: r => y2 - y1 = l1.bot * ls + l2.asc * ls ∧ Gapped ls (y2 :: ys) (l2 :: r)
  | _, _ => True

theorem stackFit_cons (ls height : K) (first : Bool) (y : K) (l : LM K) (r : List (LM K)) :
    stackFit ls height first y (l :: r) =
      if (!(height == 0)) && height < y + (if first then l.asc else l.asc * ls) + l.desc then ([], y)
      else ((y + (if first then l.asc else l.asc * ls)) :: (stackFit ls height false (y + ((if first then l.asc else l.asc * ls) + l.bot * ls)) r).1,
            (stackFit ls height false (y + ((if first then l.asc else l.asc * ls) + l.bot * ls)) r).2) := by
  simp only [stackFit]

theorem fit_length (ls height : K) (lines : List (LM K)) : ∀ (first : Bool) (y : K),
    (stackFit ls height first y lines).1.length ≤ lines.length := by
  induction lines with
  | nil => intro first y; simp [stackFit]
  | cons l r ih =>
    intro first y
    rw [stackFit_cons]
    generalize (if first = true then l.asc else l.asc * ls) = a
    split
    · simp
    · simp only [List.length_cons]; have := ih false (y + (a + l.bot * ls)); omega

/-- without a box height every line is kept -/
theorem fit_unbounded (ls : K) (lines : List (LM K)) : ∀ (first : Bool) (y : K),
    (stackFit ls 0 first y lines).1.length = lines.length := by
  induction lines with
  | nil => intro first y; simp [stackFit]
  | cons l r ih =>
    intro first y
    rw [stackFit_cons]
    simp [ih]

theorem fit_head (ls height : K) (lines : List (LM K)) (first : Bool) (y : K) :
    ∀ v ∈ (stackFit ls height first y lines).1.head?, ∃ l ∈ lines.head?, v = y + (if first then l.asc else l.asc * ls) := by
  cases lines with
  | nil => simp [stackFit]
  | cons l r =>
    rw [stackFit_cons]
    generalize ha : (if first = true then l.asc else l.asc * ls) = a
    split
    · simp
    · simp [ha]

theorem fit_gapped (ls height : K) (lines : List (LM K)) : ∀ (first : Bool) (y : K),
    Gapped ls (stackFit ls height first y lines).1 lines := by
  induction lines with
  | nil => intro first y; simp [stackFit, Gapped]
  | cons l r ih =>
    intro first y
    rw [stackFit_cons]
    generalize (if first = true then l.asc else l.asc * ls) = a
    split
    · simp [Gapped]
    · have hrec := ih false (y + (a + l.bot * ls))
      have hhd := fit_head ls height r false (y + (a + l.bot * ls))
      cases hq : (stackFit ls height false (y + (a + l.bot * ls)) r).1 with
      | nil => simp [Gapped]
      | cons v vs =>
        rw [hq] at hrec hhd
        cases r with
        | nil => simp [stackFit] at hq
        | cons l2 r2 =>
          simp only [Gapped]
          refine ⟨?_, hrec⟩
          obtain ⟨l', hl', hv⟩ := hhd v (by simp)
          simp at hl'; subst hl'
          rw [hv]; simp; ring

/-- every kept line lies inside the box: baseline + descent ≤ height -/
theorem fit_in_box (ls height : K) (hh : height ≠ 0) (lines : List (LM K)) : ∀ (first : Bool) (y : K) (j : Nat) (v : K) (l : LM K),
    (stackFit ls height first y lines).1[j]? = some v → lines[j]? = some l → v + l.desc ≤ height := by
  induction lines with
  | nil => intro first y j v l hv; simp [stackFit] at hv
  | cons l0 r ih =>
    intro first y j v l hv hl
    rw [stackFit_cons] at hv
    generalize (if first = true then l0.asc else l0.asc * ls) = a at hv
    split at hv
    · simp at hv
    · rename_i hc
      cases j with
      | zero =>
        simp at hv hl
        subst hv; subst hl
        have hne : (height == 0) = false := by simpa using hh
        simp only [hne, Bool.not_false, Bool.true_and, decide_eq_true_eq, not_lt] at hc
        exact hc
      | succ j =>
        simp at hv hl
        exact ih false _ j v l hv hl

theorem gapped_ge {ls : K} (h0 : 0 ≤ ls) : ∀ (ys : List K) (lines : List (LM K)), (∀ l ∈ lines, 0 ≤ l.asc ∧ 0 ≤ l.bot) →
    ys.length ≤ lines.length → Gapped ls ys lines → ∀ y0 ∈ ys.head?, ∀ v ∈ ys, y0 ≤ v := by
  intro ys
  induction ys with
  | nil => intro lines _ _ _ y0 h; simp at h
  | cons y1 ys ih =>
    intro lines hn hlen hg y0 hy0 v hv
    simp at hy0; subst hy0
    simp only [List.mem_cons] at hv
    rcases hv with rfl | hv
    · exact le_refl _
    · cases ys with
      | nil => simp at hv
      | cons y2 ys' =>
        cases lines with
        | nil => simp at hlen
        | cons l1 r =>
          cases r with
          | nil => simp at hlen
          | cons l2 r' =>
            simp only [Gapped] at hg
            have h1 := hn l1 (by simp)
            have h2 := hn l2 (by simp)
            have := ih (l2 :: r') (fun l hl => hn l (List.mem_cons_of_mem _ hl)) (by simpa using hlen) hg.2 y2 (by simp) v hv
            have e := hg.1
            have : 0 ≤ l1.bot * ls + l2.asc * ls := add_nonneg (mul_nonneg h1.2 h0) (mul_nonneg h2.1 h0)
            linarith

/-- lines are stacked monotonically -/
theorem gapped_sorted {ls : K} (h0 : 0 ≤ ls) : ∀ (ys : List K) (lines : List (LM K)), (∀ l ∈ lines, 0 ≤ l.asc ∧ 0 ≤ l.bot) →
    ys.length ≤ lines.length → Gapped ls ys lines → ys.Pairwise (· ≤ ·) := by
  intro ys
  induction ys with
  | nil => intro _ _ _ _; simp
  | cons y1 ys ih =>
    intro lines hn hlen hg
    rw [List.pairwise_cons]
    refine ⟨fun v hv => gapped_ge h0 (y1 :: ys) lines hn hlen hg y1 (by simp) v (List.mem_cons_of_mem _ hv), ?_⟩
    cases lines with
    | nil => simp at hlen
    | cons l1 r =>
      cases ys with
      | nil => simp
      | cons y2 ys' =>
        cases r with
        | nil => simp at hlen
        | cons l2 r' =>
          simp only [Gapped] at hg
          exact ih (l2 :: r') (fun l hl => hn l (List.mem_cons_of_mem _ hl)) (by simpa using hlen) hg.2

theorem fit_sorted (ls height : K) (h0 : 0 ≤ ls) (lines : List (LM K)) (hn : ∀ l ∈ lines, 0 ≤ l.asc ∧ 0 ≤ l.bot)
    (first : Bool) (y : K) : (stackFit ls height first y lines).1.Pairwise (· ≤ ·) :=
  gapped_sorted h0 _ lines hn (fit_length ..) (fit_gapped ..)

/-- the running `y` behind the kept lines: last baseline + its bottom -/
theorem fit_end (ls height : K) (lines : List (LM K)) : ∀ (first : Bool) (y : K),
    (stackFit ls height first y lines).2 =
      match (stackFit ls height first y lines).1.getLast?, (lines.take (stackFit ls height first y lines).1.length).getLast? with
      | some v, some l => v + l.bot * ls
      | _, _ => y := by
  induction lines with
  | nil => intro first y; simp [stackFit]
  | cons l r ih =>
    intro first y
    rw [stackFit_cons]
    generalize (if first = true then l.asc else l.asc * ls) = a
    split
    · simp
    · have hrec := ih false (y + (a + l.bot * ls))
      simp only []
      rw [hrec]
      cases hq : (stackFit ls height false (y + (a + l.bot * ls)) r).1 with
      | nil => simp; ring
      | cons v vs =>
        have hlen := fit_length ls height r false (y + (a + l.bot * ls))
        rw [hq] at hlen
        cases r with
        | nil => simp at hlen
        | cons l2 r2 =>
          simp only [List.length_cons, List.take_succ_cons, List.getLast?_cons_cons]
          obtain ⟨w, hw⟩ := Option.isSome_iff_exists.mp (by simp : ((v :: vs).getLast?).isSome)
          obtain ⟨m, hm⟩ := Option.isSome_iff_exists.mp (by simp : ((l2 :: List.take vs.length r2).getLast?).isSome)
          rw [hw, hm]

/-! ## Rect.Add / Bounds -/

theorem boundsFold_encloses (rs : List (R4 K)) : ∀ (acc : R4 K),
    let b := rs.foldl (R4.add min max) acc
    (b.x0 ≤ acc.x0 ∧ b.y0 ≤ acc.y0 ∧ acc.x1 ≤ b.x1 ∧ acc.y1 ≤ b.y1) ∧
    ∀ r ∈ rs, b.x0 ≤ r.x0 ∧ b.y0 ≤ r.y0 ∧ r.x1 ≤ b.x1 ∧ r.y1 ≤ b.y1 := by
  induction rs with
  | nil => intro acc; simp
  | cons q r ih =>
    intro acc
    simp only [List.foldl_cons]
    obtain ⟨h1, h2⟩ := ih (R4.add min max acc q)
    simp only [R4.add] at h1
    refine ⟨⟨le_trans h1.1 (min_le_left _ _), le_trans h1.2.1 (min_le_left _ _), le_trans (le_max_left _ _) h1.2.2.1,
      le_trans (le_max_left _ _) h1.2.2.2⟩, ?_⟩
    intro t ht
    simp only [List.mem_cons] at ht
    rcases ht with rfl | ht
    · exact ⟨le_trans h1.1 (min_le_right _ _), le_trans h1.2.1 (min_le_right _ _), le_trans (le_max_right _ _) h1.2.2.1,
        le_trans (le_max_right _ _) h1.2.2.2⟩
    · exact h2 t ht

/-- Text.Bounds contains the rectangle of every span (and the origin) -/
theorem bounds_encloses (rs : List (R4 K)) : ∀ r ∈ rs,
    (boundsOf min max rs).x0 ≤ r.x0 ∧ (boundsOf min max rs).y0 ≤ r.y0 ∧ r.x1 ≤ (boundsOf min max rs).x1 ∧ r.y1 ≤ (boundsOf min max rs).y1 :=
  (boundsFold_encloses rs ⟨0, 0, 0, 0⟩).2

end Canvas.C16

namespace Canvas.C16
variable {K : Type} [Field K] [LinearOrder K] [IsStrictOrderedRing K]

/-- after "remove line gap of last line": the total is the last baseline plus the last descent -/
theorem stackLines_total (cast : Nat → K) (ls height : K) (va : VAlign) (lines : List (LM K)) (v : K) (l : LM K)
    (hv : (stackFit ls height true 0 lines).1.getLast? = some v)
    (hl : (lines.take (stackFit ls height true 0 lines).1.length).getLast? = some l) (he : l.empty = false) :
    (stackLines cast ls height va lines).total = v + l.desc := by
  have hend := fit_end ls height lines true 0
  rw [hv, hl] at hend
  simp only [] at hend
  unfold stackLines
  simp only [hl, he, hend]
  simp

theorem spread_getLast (ddy : K) : ∀ (ys : List K) (d v : K), ys.getLast? = some v →
    (spread ddy d ys).getLast? = some (v + (d + ((ys.length : K) - 1) * ddy)) := by
  intro ys
  induction ys with
  | nil => intro d v h; simp at h
  | cons y r ih =>
    intro d v h
    cases r with
    | nil =>
      simp at h; subst h
      simp [spread]
    | cons y2 r2 =>
      rw [List.getLast?_cons_cons] at h
      have := ih (d + ddy) v h
      simp only [spread, List.getLast?_cons_cons] at this ⊢
      rw [this]
      simp only [List.length_cons]
      push_cast
      congr 1
      ring

theorem spread_head (ddy : K) (ys : List K) (d : K) : (spread ddy d ys).head? = ys.head?.map (· + d) := by
  cases ys <;> simp [spread]

/-- Bottom: the last line's descent touches the bottom of the box -/
theorem valign_bottom (cast : Nat → K) (ls height : K) (lines : List (LM K)) (v : K) (l : LM K)
    (hv : (stackFit ls height true 0 lines).1.getLast? = some v)
    (hl : (lines.take (stackFit ls height true 0 lines).1.length).getLast? = some l) (he : l.empty = false) :
    ∃ w, (stackLines cast ls height .bottom lines).ys.getLast? = some w ∧ w + l.desc = height := by
  have ht := stackLines_total cast ls height .bottom lines v l hv hl he
  refine ⟨v + (height - (v + l.desc)), ?_, by ring⟩
  have hys : (stackLines cast ls height .bottom lines).ys
      = (stackFit ls height true 0 lines).1.map (· + (height - (stackLines cast ls height .bottom lines).total)) := by
    unfold stackLines; rfl
  rw [hys, ht, List.getLast?_map, hv]; rfl

/-- Center: the margin above the first line equals the margin below the last line -/
theorem valign_center (cast : Nat → K) (ls height : K) (lines : List (LM K)) (v : K) (l l0 : LM K)
    (hv : (stackFit ls height true 0 lines).1.getLast? = some v)
    (hl : (lines.take (stackFit ls height true 0 lines).1.length).getLast? = some l) (he : l.empty = false)
    (h0 : lines.head? = some l0) :
    ∃ f w, (stackLines cast ls height .center lines).ys.head? = some f ∧
      (stackLines cast ls height .center lines).ys.getLast? = some w ∧
      f - l0.asc = height - (w + l.desc) := by
  have ht := stackLines_total cast ls height .center lines v l hv hl he
  have hys : (stackLines cast ls height .center lines).ys
      = (stackFit ls height true 0 lines).1.map (· + (height - (stackLines cast ls height .center lines).total) / 2) := by
    unfold stackLines; rfl
  have hne : (stackFit ls height true 0 lines).1 ≠ [] := by
    intro h; rw [h] at hv; simp at hv
  obtain ⟨f0, hf0⟩ := Option.isSome_iff_exists.mp (by
    cases h : (stackFit ls height true 0 lines).1 with
    | nil => exact absurd h hne
    | cons a r => simp : ((stackFit ls height true 0 lines).1.head?).isSome)
  obtain ⟨l', hl', hfe⟩ := fit_head ls height lines true 0 f0 (by simp [hf0])
  rw [h0] at hl'; simp at hl'; subst hl'
  simp at hfe
  refine ⟨f0 + (height - (v + l.desc)) / 2, v + (height - (v + l.desc)) / 2, ?_, ?_, ?_⟩
  · rw [hys, ht, List.head?_map, hf0]; rfl
  · rw [hys, ht, List.getLast?_map, hv]; rfl
  · rw [hfe]; ring

/-- Justify: the first line keeps its place and, with at least two lines, the last line's descent
touches the bottom of the box -/
theorem valign_justify (ls height : K) (lines : List (LM K)) (v : K) (l : LM K)
    (hv : (stackFit ls height true 0 lines).1.getLast? = some v)
    (hl : (lines.take (stackFit ls height true 0 lines).1.length).getLast? = some l) (he : l.empty = false)
    (h2 : 2 ≤ (stackFit ls height true 0 lines).1.length) :
    (stackLines (fun n => (n : K)) ls height .justify lines).ys.head? = (stackFit ls height true 0 lines).1.head? ∧
    ∃ w, (stackLines (fun n => (n : K)) ls height .justify lines).ys.getLast? = some w ∧ w + l.desc = height := by
  have ht := stackLines_total (fun n => (n : K)) ls height .justify lines v l hv hl he
  have hys : (stackLines (fun n => (n : K)) ls height .justify lines).ys
      = spread ((height - (stackLines (fun n => (n : K)) ls height .justify lines).total) /
          (((stackFit ls height true 0 lines).1.length - 1 : Nat) : K)) 0 (stackFit ls height true 0 lines).1 := by
    unfold stackLines; rfl
  refine ⟨?_, ?_⟩
  · rw [hys, spread_head]; cases (stackFit ls height true 0 lines).1.head? <;> simp
  · rw [hys, ht, spread_getLast _ _ _ _ hv]
    refine ⟨_, rfl, ?_⟩
    have hn : (((stackFit ls height true 0 lines).1.length - 1 : Nat) : K) = ((stackFit ls height true 0 lines).1.length : K) - 1 := by
      rw [Nat.cast_sub (by omega)]; simp
    rw [hn]
    have hpos : ((stackFit ls height true 0 lines).1.length : K) - 1 ≠ 0 := by
      have : (2 : K) ≤ ((stackFit ls height true 0 lines).1.length : K) := by exact_mod_cast h2
      intro h; linarith
    field_simp
    ring

end Canvas.C16

namespace Canvas.C16
variable {K : Type} [Field K] [LinearOrder K] [IsStrictOrderedRing K]

/-- with a line spacing of at least 1 the lines do not overlap vertically: every later line's ascent
stays below the first baseline and the first line's descent stays above every later baseline
(applied to suffixes: any two lines) -/
theorem gapped_disjoint {ls : K} (h1 : 1 ≤ ls) : ∀ (ys : List K) (lines : List (LM K)),
    (∀ l ∈ lines, 0 ≤ l.asc ∧ 0 ≤ l.desc ∧ l.desc ≤ l.bot) → ys.length ≤ lines.length → Gapped ls ys lines →
    ∀ y1 l1, (ys.zip lines).head? = some (y1, l1) → ∀ p ∈ (ys.zip lines).tail, y1 ≤ p.1 - p.2.asc ∧ y1 + l1.desc ≤ p.1 := by
  intro ys
  induction ys with
  | nil => intro lines _ _ _ y1 l1 h; simp at h
  | cons ya ys ih =>
    intro lines hn hlen hg y1 l1 hh p hp
    cases lines with
    | nil => simp at hlen
    | cons la r =>
      simp at hh
      have e1 : ya = y1 := hh.1
      have e2 : la = l1 := hh.2
      subst e1 e2
      cases ys with
      | nil => simp at hp
      | cons yb ys' =>
        cases r with
        | nil => simp at hlen
        | cons lb r' =>
          simp only [Gapped] at hg
          have ha := hn _ (List.mem_cons_self ..)
          have hb := hn lb (by simp)
          have e := hg.1
          have m1 : lb.asc ≤ lb.asc * ls := by nlinarith [hb.1]
          have hbot : 0 ≤ la.bot := le_trans ha.2.1 ha.2.2
          have m3 : la.bot ≤ la.bot * ls := by nlinarith
          simp only [List.zip_cons_cons, List.tail_cons, List.mem_cons] at hp
          rcases hp with rfl | hp
          · simp only []
            constructor <;> linarith
          · have := ih (lb :: r') (fun l hl => hn l (List.mem_cons_of_mem _ hl)) (by simpa using hlen) hg.2 yb lb (by simp) p
              (by simpa using hp)
            constructor
            · linarith [this.1]
            · have := this.2
              linarith [hb.2.1]

end Canvas.C16
