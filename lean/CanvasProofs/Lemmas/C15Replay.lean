import CanvasModel.C15
/-!
# C15 — the layer map is exactly the log grouped by z-index; replay order

`WF cv` : `cv.layers` (the model of the Go map `layers map[int][]layer`) is exactly the ghost
recording-order log `cv.log` grouped by z-index.  It holds for `newCanvas` and is preserved by every
operation of the model (`WF_step`, `WF_run`).  For a well-formed canvas the z-tagged replay
`replayZ` (whose second projection is `Canvas.renderViewTo`) is sorted by z, stable within each z
and a permutation of the log.  Core Lean only; generic in `α` and in `Ops α`.
-/
namespace C15
open Canvas Canvas.C15
variable {α : Type}

/-! ## `sortInts` -/

theorem insertSorted_perm (k : Int) (l : List Int) : (insertSorted k l).Perm (k :: l) := by
  induction l with
  | nil => exact List.Perm.refl _
  | cons x xs ih =>
    simp only [insertSorted]
    split
    · exact List.Perm.refl _
    · exact (List.Perm.cons x ih).trans (List.Perm.swap k x xs)

theorem sortInts_perm (l : List Int) : (sortInts l).Perm l := by
  induction l with
  | nil => exact List.Perm.refl _
  | cons x xs ih =>
    show (insertSorted x (sortInts xs)).Perm (x :: xs)
    exact (insertSorted_perm x _).trans (List.Perm.cons x ih)

theorem mem_sortInts {k : Int} {l : List Int} : k ∈ sortInts l ↔ k ∈ l :=
  (sortInts_perm l).mem_iff

theorem insertSorted_sorted (k : Int) (l : List Int) (h : l.Pairwise (· ≤ ·)) :
    (insertSorted k l).Pairwise (· ≤ ·) := by
  induction l with
  | nil => simp [insertSorted]
  | cons x xs ih =>
    simp only [insertSorted]
    have hx := List.pairwise_cons.mp h
    split
    · rename_i hk
      refine List.pairwise_cons.mpr ⟨?_, h⟩
      intro y hy
      rcases List.mem_cons.mp hy with rfl | hy
      · exact hk
      · exact Int.le_trans hk (hx.1 y hy)
    · rename_i hk
      refine List.pairwise_cons.mpr ⟨?_, ih hx.2⟩
      intro y hy
      rcases List.mem_cons.mp ((insertSorted_perm k xs).mem_iff.mp hy) with rfl | hy
      · omega
      · exact hx.1 y hy

theorem sortInts_sorted (l : List Int) : (sortInts l).Pairwise (· ≤ ·) := by
  induction l with
  | nil => simp [sortInts]
  | cons x xs ih => exact insertSorted_sorted x _ ih

theorem sortInts_nodup {l : List Int} (h : l.Nodup) : (sortInts l).Nodup :=
  (sortInts_perm l).nodup_iff.mpr h

theorem sortInts_strict {l : List Int} (h : l.Nodup) : (sortInts l).Pairwise (· < ·) := by
  have h1 := sortInts_sorted l
  have h2 : (sortInts l).Pairwise (· ≠ ·) := sortInts_nodup h
  exact (h1.and h2).imp (fun ⟨a, b⟩ => by omega)

/-! ## the association list -/

theorem keys_assocAppend (z : Int) (c : Call α) (l : List (Int × List (Call α))) :
    (assocAppend z c l).map (·.1) =
      if z ∈ l.map (·.1) then l.map (·.1) else l.map (·.1) ++ [z] := by
  induction l with
  | nil => simp [assocAppend]
  | cons kl rest ih =>
    obtain ⟨k, l⟩ := kl
    simp only [assocAppend]
    by_cases hk : k = z
    · simp [hk]
    · have hk' : ¬ z = k := fun h => hk h.symm
      simp only [hk, if_false, List.map_cons, ih, List.mem_cons, hk', false_or]
      split <;> simp

theorem lookupZ_assocAppend (k z : Int) (c : Call α) (l : List (Int × List (Call α))) :
    lookupZ k (assocAppend z c l) = if z = k then lookupZ k l ++ [c] else lookupZ k l := by
  induction l with
  | nil =>
    simp only [assocAppend, lookupZ]
    split <;> simp
  | cons kl rest ih =>
    obtain ⟨k', l⟩ := kl
    simp only [assocAppend]
    by_cases hk : k' = z
    · subst hk
      simp only [if_true, lookupZ]
      split <;> rfl
    · simp only [hk, if_false, lookupZ, ih]
      by_cases hk2 : k' = k
      · have : ¬ z = k := fun h => hk (hk2.trans h.symm)
        simp [hk2, this]
      · simp [hk2]

theorem lookupZ_of_not_mem (k : Int) (l : List (Int × List (Call α))) (h : k ∉ l.map (·.1)) :
    lookupZ k l = [] := by
  induction l with
  | nil => rfl
  | cons kl rest ih =>
    obtain ⟨k', l⟩ := kl
    simp only [List.map_cons, List.mem_cons, not_or] at h
    have : ¬ k' = k := fun e => h.1 e.symm
    simp only [lookupZ, this, if_false]
    exact ih h.2

theorem lookupZ_map (k : Int) (f : Call α → Call α) (l : List (Int × List (Call α))) :
    lookupZ k (l.map (fun kl => (kl.1, kl.2.map f))) = (lookupZ k l).map f := by
  induction l with
  | nil => rfl
  | cons kl rest ih =>
    obtain ⟨k', l⟩ := kl
    simp only [List.map_cons, lookupZ]
    split
    · rfl
    · exact ih

/-! ## the invariant -/

/-- `layers` is exactly `log` grouped by z-index: the keys are distinct, the list stored at `k` is
the sub-list of the log recorded at z-index `k` (in recording order), and `k` is a key iff some
log entry was recorded at `k` (so no key stores an empty list). -/
def WF (cv : Canvas α) : Prop :=
  (cv.layers.map (·.1)).Nodup ∧
  (∀ k : Int, lookupZ k cv.layers = (cv.log.filter (fun zc => decide (zc.1 = k))).map (·.2)) ∧
  (∀ k : Int, k ∈ cv.layers.map (·.1) ↔ ∃ c, (k, c) ∈ cv.log)

theorem WF_new (W H : α) : WF (newCanvas W H) := by
  refine ⟨?_, ?_, ?_⟩ <;> simp [newCanvas, lookupZ]

theorem WF_render (cv : Canvas α) (c : Call α) : WF cv → WF (cv.render c) := by
  rintro ⟨hn, hl, hk⟩
  refine ⟨?_, ?_, ?_⟩
  · show ((assocAppend cv.z c cv.layers).map (·.1)).Nodup
    rw [keys_assocAppend]
    split
    · exact hn
    · rename_i hz
      rw [List.nodup_append]
      refine ⟨hn, by simp, ?_⟩
      intro a ha b hb
      simp only [List.mem_singleton] at hb
      subst hb
      intro e
      exact hz (e ▸ ha)
  · intro k
    show lookupZ k (assocAppend cv.z c cv.layers) = _
    rw [lookupZ_assocAppend, hl k]
    simp only [Canvas.render, List.filter_append, List.map_append, List.filter_cons,
      List.filter_nil]
    by_cases hz : cv.z = k <;> simp [hz]
  · intro k
    show k ∈ (assocAppend cv.z c cv.layers).map (·.1) ↔ _
    rw [keys_assocAppend]
    simp only [Canvas.render, List.mem_append, List.mem_singleton, Prod.mk.injEq]
    by_cases hz : cv.z ∈ cv.layers.map (·.1)
    · rw [if_pos hz, hk k]
      constructor
      · rintro ⟨c', h⟩
        exact ⟨c', Or.inl h⟩
      · rintro ⟨c', h | ⟨rfl, _⟩⟩
        · exact ⟨c', h⟩
        · exact (hk _).mp hz
    · rw [if_neg hz, List.mem_append, hk k]
      constructor
      · rintro (⟨c', h⟩ | h)
        · exact ⟨c', Or.inl h⟩
        · exact ⟨c, Or.inr ⟨List.mem_singleton.mp h, rfl⟩⟩
      · rintro ⟨c', h | ⟨rfl, _⟩⟩
        · exact Or.inl ⟨c', h⟩
        · exact Or.inr (List.mem_singleton.mpr rfl)

theorem WF_setZ (cv : Canvas α) (z : Int) : WF cv → WF { cv with z := z } := fun h => h

/-- `WF` only depends on `layers` and `log` -/
theorem WF_congr {cv cv' : Canvas α} (h1 : cv'.layers = cv.layers) (h2 : cv'.log = cv.log) :
    WF cv → WF cv' := by
  unfold WF
  rw [h1, h2]
  exact id

theorem WF_transform (o : Ops α) (m : Mat α) (cv : Canvas α) : WF cv → WF (cv.transform o m) := by
  rintro ⟨hn, hl, hk⟩
  have keys : (cv.transform o m).layers.map (·.1) = cv.layers.map (·.1) := by
    simp [Canvas.transform, List.map_map, Function.comp_def]
  refine ⟨?_, ?_, ?_⟩
  · rw [keys]; exact hn
  · intro k
    show lookupZ k (cv.layers.map (fun kl => (kl.1, kl.2.map (Call.pre o m)))) = _
    rw [lookupZ_map, hl k]
    simp only [Canvas.transform, List.filter_map, List.map_map, Function.comp_def]
  · intro k
    rw [keys, hk k]
    simp only [Canvas.transform, List.mem_map, Prod.mk.injEq]
    constructor
    · rintro ⟨c, h⟩
      exact ⟨_, ⟨(k, c), h, rfl, rfl⟩⟩
    · rintro ⟨c, ⟨⟨k', c'⟩, h, e, _⟩⟩
      simp only at e
      subst e
      exact ⟨c', h⟩

theorem WF_clip (o : Ops α) (r : Rct α) (cv : Canvas α) : WF cv → WF (cv.clip o r) := fun h =>
  WF_congr (cv := cv.transform o (o.translate o.ident (o.neg r.x0) (o.neg r.y0))) rfl rfl
    (WF_transform o _ cv h)

theorem WF_fit (o : Ops α) (margin : α) (cv : Canvas α) : WF cv → WF (cv.fit o margin) :=
  WF_clip o _ cv

theorem WF_reset (cv : Canvas α) : WF cv → WF cv.reset := fun _ =>
  WF_congr (cv := newCanvas cv.W cv.H) rfl rfl (WF_new _ _)

/-! ## `step` and `run` -/

theorem WF_emit (c : Ctx α) (call : Call α) : WF c.cv → WF (c.emit call).cv :=
  WF_render c.cv call

theorem WF_drawPathLoop (o : Ops α) (off : α) (dashes : List α) (m : Mat α) (style : Style α)
    (ps : List (PathRef α)) (c : Ctx α) :
    WF c.cv → WF (drawPathLoop o off dashes m style ps c).cv := by
  induction ps generalizing style c with
  | nil => exact id
  | cons p ps ih =>
    intro h
    simp only [drawPathLoop]
    exact ih _ _ (WF_emit _ _ h)

theorem WF_drawPath (o : Ops α) (c : Ctx α) (x y : α) (ps : List (PathRef α)) :
    WF c.cv → WF (c.drawPath o x y ps).cv := by
  intro h
  unfold Ctx.drawPath
  split
  · exact h
  · exact WF_drawPathLoop o _ _ _ _ _ _ h

theorem WF_drawText (o : Ops α) (c : Ctx α) (x y : α) (t : TextRef α) :
    WF c.cv → WF (c.drawText o x y t).cv := by
  intro h
  unfold Ctx.drawText
  split
  · exact h
  · exact WF_emit _ _ h

theorem WF_drawImage (o : Ops α) (c : Ctx α) (x y : α) (i : ImgRef α) (res : α) :
    WF c.cv → WF (c.drawImage o x y i res).cv := by
  intro h
  unfold Ctx.drawImage
  split
  · exact h
  · exact WF_emit _ _ h

theorem WF_fitImage (o : Ops α) (c : Ctx α) (i : ImgRef α) (r : Rct α) (fit : Nat) :
    WF c.cv → WF (c.fitImage o i r fit).cv := by
  intro h
  unfold Ctx.fitImage
  split
  · exact h
  · exact WF_emit _ _ h

theorem WF_foldl_render (calls : List (Call α)) (cv : Canvas α) : WF cv → WF (calls.foldl Canvas.render cv) := by
  induction calls generalizing cv with
  | nil => exact id
  | cons k ks ih => intro h; exact ih _ (WF_render cv k h)

theorem WF_renderInto (o : Ops α) (src : Canvas α) (view : Mat α) (dst : Canvas α) :
    WF dst → WF (src.renderInto o view dst) := WF_foldl_render _ dst

theorem WF_step (o : Ops α) (op : Op α) (c : Ctx α) : WF c.cv → WF (step o op c).cv := by
  intro h
  cases op with
  | pop =>
    simp only [step]
    split <;> exact h
  | setZIndex z => exact WF_setZ c.cv z h
  | drawPath x y ps => exact WF_drawPath o c x y ps h
  | drawText x y t => exact WF_drawText o c x y t h
  | drawImage x y i res => exact WF_drawImage o c x y i res h
  | fitImage i r fit => exact WF_fitImage o c i r fit h
  | fill p => exact WF_drawPath o (c.withStyle _) o.zero o.zero [p] h
  | stroke p => exact WF_drawPath o (c.withStyle _) o.zero o.zero [p] h
  | fillStroke p => exact WF_drawPath o c o.zero o.zero [p] h
  | cvTransform m => exact WF_transform o m c.cv h
  | cvClip r => exact WF_clip o r c.cv h
  | cvFit margin => exact WF_fit o margin c.cv h
  | cvReset => exact WF_reset c.cv h
  | cvNest view => exact WF_renderInto o c.cv view _ (WF_new _ _)
  | _ => exact h

theorem WF_run (o : Ops α) (h : List (Op α)) (c : Ctx α) : WF c.cv → WF (run o h c).cv := by
  induction h generalizing c with
  | nil => exact id
  | cons op ops ih =>
    intro hw
    exact ih _ (WF_step o op c hw)

/-! ## z-tagged replay -/

/-- `Canvas.renderViewTo` with every emitted call tagged with the key it was stored under -/
def replayZ (o : Ops α) (view : Mat α) (cv : Canvas α) : List (Int × Call α) :=
  (sortInts (cv.layers.map (·.1))).flatMap
    (fun k => (lookupZ k cv.layers).map (fun c => (k, Call.pre o view c)))

theorem replayZ_snd (o : Ops α) (view : Mat α) (cv : Canvas α) :
    (replayZ o view cv).map (·.2) = cv.renderViewTo o view := by
  simp only [replayZ, Canvas.renderViewTo, List.map_flatMap, List.map_map, Function.comp_def]

theorem pairwise_const {β : Type} {p : Prop} (hp : p) (l : List β) :
    l.Pairwise (fun _ _ => p) := by
  induction l with
  | nil => exact List.Pairwise.nil
  | cons x xs ih => exact List.pairwise_cons.mpr ⟨fun _ _ => hp, ih⟩

/-- sortedness needs no invariant: the keys are visited in sorted order -/
theorem replayZ_sorted (o : Ops α) (view : Mat α) (cv : Canvas α) :
    (replayZ o view cv).Pairwise (fun a b => a.1 ≤ b.1) := by
  unfold replayZ
  rw [List.pairwise_flatMap]
  constructor
  · intro k _
    rw [List.pairwise_map]
    exact pairwise_const (Int.le_refl k) _
  · refine (sortInts_sorted _).imp ?_
    intro a b hab x hx y hy
    simp only [List.mem_map] at hx hy
    obtain ⟨_, _, rfl⟩ := hx
    obtain ⟨_, _, rfl⟩ := hy
    exact hab

theorem replay_sorted (o : Ops α) (view : Mat α) (cv : Canvas α) :
    WF cv → (replayZ o view cv).Pairwise (fun a b => a.1 ≤ b.1) :=
  fun _ => replayZ_sorted o view cv

/-- filtering a key-indexed `flatMap` over distinct keys by one key selects that key's block -/
theorem filter_flatMap_key {β : Type} (f : Int → List (Int × β)) (hf : ∀ k, ∀ x ∈ f k, x.1 = k)
    (ks : List Int) (hn : ks.Nodup) (k : Int) :
    (ks.flatMap f).filter (fun a => decide (a.1 = k)) = if k ∈ ks then f k else [] := by
  induction ks with
  | nil => rfl
  | cons k' ks ih =>
    have hn' := List.nodup_cons.mp hn
    rw [List.flatMap_cons, List.filter_append, ih hn'.2]
    by_cases hk : k' = k
    · subst hk
      have h1 : (f k').filter (fun a => decide (a.1 = k')) = f k' :=
        List.filter_eq_self.mpr (fun x hx => by simp [hf k' x hx])
      simp [h1, hn'.1]
    · have h1 : (f k').filter (fun a => decide (a.1 = k)) = [] :=
        List.filter_eq_nil_iff.mpr (fun x hx => by simp [hf k' x hx, hk])
      have hk' : ¬ k = k' := fun e => hk e.symm
      simp [h1, List.mem_cons, hk']

/-- under `WF` the block emitted for key `k` is the log filtered at `k` -/
theorem block_eq (o : Ops α) (view : Mat α) (cv : Canvas α) (hw : WF cv) (k : Int) :
    (lookupZ k cv.layers).map (fun c => (k, Call.pre o view c)) =
      (cv.log.filter (fun zc => decide (zc.1 = k))).map (fun zc => (zc.1, Call.pre o view zc.2)) := by
  rw [hw.2.1 k, List.map_map]
  apply List.map_congr_left
  intro zc hzc
  have : zc.1 = k := by simpa using (List.mem_filter.mp hzc).2
  simp [this]

theorem replay_stable (o : Ops α) (view : Mat α) (cv : Canvas α) (hw : WF cv) (k : Int) :
    (replayZ o view cv).filter (fun a => decide (a.1 = k)) =
      (cv.log.filter (fun zc => decide (zc.1 = k))).map (fun zc => (zc.1, Call.pre o view zc.2)) := by
  unfold replayZ
  rw [filter_flatMap_key _ _ _ (sortInts_nodup hw.1) k]
  · split
    · exact block_eq o view cv hw k
    · rename_i hk
      rw [← block_eq o view cv hw k, lookupZ_of_not_mem k cv.layers (fun h => hk (mem_sortInts.mpr h))]
      rfl
  · intro k' x hx
    simp only [List.mem_map] at hx
    obtain ⟨_, _, rfl⟩ := hx
    rfl

/-- grouping a list by a duplicate-free key list permutes the entries whose key is listed -/
theorem flatMap_filter_perm {β : Type} (l : List (Int × β)) (ks : List Int) (hn : ks.Nodup) :
    (ks.flatMap (fun k => l.filter (fun a => decide (a.1 = k)))).Perm
      (l.filter (fun a => decide (a.1 ∈ ks))) := by
  induction ks with
  | nil => simp
  | cons k ks ih =>
    have hn' := List.nodup_cons.mp hn
    rw [List.flatMap_cons]
    refine (List.Perm.append_left _ (ih hn'.2)).trans ?_
    -- split `filter (∈ k :: ks)` into `filter (= k)` and `filter (∈ ks)`
    clear ih
    induction l with
    | nil => simp
    | cons a l ihl =>
      simp only [List.filter_cons]
      simp only [List.mem_cons] at ihl
      by_cases h1 : a.1 = k
      · have h2 : a.1 ∉ ks := h1 ▸ hn'.1
        simp only [h1, decide_true, if_true, List.mem_cons, true_or, List.cons_append]
        have h2' : ¬ k ∈ ks := hn'.1
        simp only [h2', decide_false, Bool.false_eq_true, if_false]
        exact List.Perm.cons a (by simpa [h1] using ihl)
      · by_cases h3 : a.1 ∈ ks
        · simp only [h1, decide_false, Bool.false_eq_true, if_false, h3, decide_true, if_true,
            List.mem_cons, or_true]
          exact List.perm_middle.trans (List.Perm.cons a ihl)
        · simp only [h1, decide_false, Bool.false_eq_true, if_false, h3, List.mem_cons, or_self]
          exact ihl

theorem replay_perm (o : Ops α) (view : Mat α) (cv : Canvas α) (hw : WF cv) :
    (replayZ o view cv).Perm (cv.log.map (fun zc => (zc.1, Call.pre o view zc.2))) := by
  have e : replayZ o view cv =
      ((sortInts (cv.layers.map (·.1))).flatMap
        (fun k => cv.log.filter (fun zc => decide (zc.1 = k)))).map
          (fun zc => (zc.1, Call.pre o view zc.2)) := by
    unfold replayZ
    rw [List.map_flatMap]
    congr 1
    funext k
    exact block_eq o view cv hw k
  rw [e]
  apply List.Perm.map
  refine (flatMap_filter_perm cv.log _ (sortInts_nodup hw.1)).trans ?_
  rw [List.filter_eq_self.mpr]
  intro zc hzc
  have : zc.1 ∈ cv.layers.map (·.1) := (hw.2.2 zc.1).mpr ⟨zc.2, hzc⟩
  simpa using mem_sortInts.mpr this

end C15
