import CanvasModel.C16.Glue
/-! Lemmas for C16: soundness of the character-conservation verdict `conserve`. -/
namespace Canvas.C16

/-- number of spans that contain rune `i` -/
def cover (spans : List (Nat × Nat)) (i : Nat) : Nat :=
  (spans.filter (fun s => decide (s.1 ≤ i ∧ i < s.2))).length

theorem cover_nil (i : Nat) : cover [] i = 0 := rfl

theorem cover_cons (s : Nat × Nat) (r : List (Nat × Nat)) (i : Nat) :
    cover (s :: r) i = (if s.1 ≤ i ∧ i < s.2 then 1 else 0) + cover r i := by
  unfold cover
  simp only [List.filter_cons]
  split <;> simp_all <;> omega

theorem cover_append (a b : List (Nat × Nat)) (i : Nat) : cover (a ++ b) i = cover a i + cover b i := by
  unfold cover; simp [List.filter_append]

/-- the spans of an accepted line tile `[pos, e)` -/
theorem lineOK_cover (cls : List RC) (sp : List (Nat × Nat)) : ∀ (pos e : Nat), lineOK cls pos sp = some e →
    pos ≤ e ∧ e ≤ max pos cls.length ∧ ∀ i, cover sp i = if pos ≤ i ∧ i < e then 1 else 0 := by
  induction sp with
  | nil =>
    intro pos e h
    simp only [lineOK] at h
    injection h with h; subst h
    refine ⟨Nat.le_refl _, by omega, fun i => ?_⟩
    simp [cover_nil]
  | cons s r ih =>
    intro pos e h
    obtain ⟨a, b⟩ := s
    simp only [lineOK] at h
    split at h
    · rename_i hc
      obtain ⟨h1, h2, h3⟩ := ih b e h
      refine ⟨by omega, by omega, fun i => ?_⟩
      rw [cover_cons, h3 i]
      simp only []
      split <;> split <;> split <;> omega
    · cases h

theorem sliceR_all {cls : List RC} {p : RC → Bool} {a b : Nat} (h : (sliceR cls a b).all p = true) :
    ∀ i, a ≤ i → i < b → ∀ c, cls[i]? = some c → p c = true := by
  intro i hai hib c hc
  unfold sliceR at h
  rw [List.all_eq_true] at h
  apply h
  rw [List.mem_iff_getElem?]
  refine ⟨i - a, ?_⟩
  rw [List.getElem?_take]
  have : i - a < b - a := by omega
  simp only [this, if_true]
  rw [List.getElem?_drop]
  rw [show a + (i - a) = i by omega]; exact hc

/-- MAIN: if the verdict is `ok`, every rune from `pos` on that is not droppable white space / a line
separator / an optional break lies in exactly one of the remaining spans, and no remaining span
reaches back before `pos` -/
theorem conserveGo_sound (cls : List RC) (lines : List (List (Nat × Nat))) :
    ∀ (pos empties : Nat) (first : Bool), conserveGo cls pos empties first lines = .ok →
    ∀ i, (i < pos → cover lines.flatten i = 0) ∧ cover lines.flatten i ≤ 1 ∧
      (pos ≤ i → ∀ c, cls[i]? = some c → c.droppable = false → cover lines.flatten i = 1) := by
  induction lines with
  | nil =>
    intro pos empties first h i
    simp only [conserveGo] at h
    split at h
    · rename_i hall
      refine ⟨fun _ => by simp [cover_nil], by simp [cover_nil], fun hpi c hc hd => ?_⟩
      have hlen : i < cls.length := by
        have := List.getElem?_eq_some_iff.mp hc
        exact this.1
      have := sliceR_all hall i hpi hlen c hc
      rw [this] at hd; cases hd
    · cases h
  | cons ln rest ih =>
    intro pos empties first h i
    cases ln with
    | nil =>
      simp only [conserveGo] at h
      simpa using ih pos (empties + 1) first h i
    | cons s sp =>
      obtain ⟨a, b⟩ := s
      simp only [conserveGo] at h
      split at h
      · cases h
      · rename_i hap
        split at h
        · cases h
        · split at h
          · cases h
          · rename_i hgap
            split at h
            · cases h
            · split at h
              · cases h
              · split at h
                · split at h <;> cases h
                · rename_i e hl
                  obtain ⟨l1, l2, l3⟩ := lineOK_cover cls ((a, b) :: sp) a e hl
                  have hrec := ih e 0 false h i
                  have hgap' : (sliceR cls pos a).all RC.droppable = true := by simpa using hgap
                  simp only [List.flatten_cons, cover_append, l3 i]
                  refine ⟨fun hip => ?_, ?_, fun hpi c hc hd => ?_⟩
                  · have := hrec.1 (by omega)
                    rw [this]; simp; omega
                  · by_cases hie : i < e
                    · have := hrec.1 hie
                      rw [this]; split <;> omega
                    · have := hrec.2.1
                      split <;> omega
                  · by_cases hia : i < a
                    · have hdrop := sliceR_all hgap' i hpi hia c hc
                      rw [hdrop] at hd; cases hd
                    · by_cases hie : i < e
                      · have := hrec.1 hie
                        rw [this]; simp; omega
                      · have := hrec.2.2 (by omega) c hc hd
                        rw [this]; simp; omega

theorem conserve_sound (cls : List RC) (lines : List (List (Nat × Nat))) (h : conserve cls lines = .ok) :
    ∀ i c, cls[i]? = some c → c.droppable = false → cover lines.flatten i = 1 :=
  fun i c hc hd => ((conserveGo_sound cls lines 0 0 true h i).2.2 (Nat.zero_le _)) c hc hd

theorem conserve_atmost (cls : List RC) (lines : List (List (Nat × Nat))) (h : conserve cls lines = .ok) :
    ∀ i, cover lines.flatten i ≤ 1 :=
  fun i => (conserveGo_sound cls lines 0 0 true h i).2.1

end Canvas.C16
