import CanvasModel.C06Ray
set_option linter.unusedSimpArgs false
set_option linter.unusedVariables false

/-! # C06 — pairing survives the stable sort; `windings` on paired lists is a weight sum

`WP`: the walk of `windings` finds, after every end-point hit, an end-point hit at the same place.
Inserting (stable, by x) a generic hit, or two end-point hits of equal x one after the other, keeps
`WP` — no order property of `<` on the keys is needed, only that partners have EQUAL keys.
On such lists `windings` returns half the sum of the hit weights (2 for a crossing strictly inside a
segment, 1 for an end-point hit, 0 for an overlapping hit; signed by the direction), a quantity that
does not depend on the order of the list. -/
namespace Canvas.C06

/-- walk pairing on hits: an end-point hit is followed by an end-point hit with the same x -/
def WP : List Hit → Bool
  | [] => true
  | h :: rest =>
    if h.tb = .mid then WP rest
    else match rest with
      | [] => false
      | h2 :: rest' => (h2.tb != .mid) && (h2.x == h.x) && WP rest'

theorem WP_cons_mid (g : Hit) (s : List Hit) (hg : g.tb = .mid) : WP (g :: s) = WP s := by
  conv => lhs; unfold WP
  simp [hg]

theorem WP_cons_pair (z1 z2 : Hit) (s : List Hit) (h1 : z1.tb ≠ .mid) (h2 : z2.tb ≠ .mid)
    (hx : z2.x = z1.x) : WP (z1 :: z2 :: s) = WP s := by
  conv => lhs; unfold WP
  simp [h1, h2, hx]

/-- inserting a generic hit keeps the pairing -/
theorem WP_ins_mid (g : Hit) (hg : g.tb = .mid) (s : List Hit) (hs : WP s = true) :
    WP (ins g s) = true := by
  fun_induction WP s with
  | case1 => simp [ins, WP, hg]
  | case2 h rest hm ih =>
    simp only [ins]
    split
    · rw [WP_cons_mid _ _ hm]; exact ih hs
    · rw [WP_cons_mid _ _ hg, WP_cons_mid _ _ hm]; exact hs
  | case3 h hm => exact absurd hs (by simp)
  | case4 h hm h2 rest' ih =>
    simp only [Bool.and_eq_true, bne_iff_ne, ne_eq, beq_iff_eq] at hs
    obtain ⟨⟨h2m, h2x⟩, hr⟩ := hs
    simp only [ins]
    split
    · rename_i hlt
      have hlt2 : h2.x < g.x := by rw [h2x]; exact hlt
      simp only [hlt2, if_true]
      rw [WP_cons_pair _ _ _ hm h2m h2x]; exact ih hr
    · rw [WP_cons_mid _ _ hg, WP_cons_pair _ _ _ hm h2m h2x]; exact hr

/-- `ins` after `ins` of an equal key: the first goes right in front of the second -/
theorem WP_ins_pair (z1 z2 : Hit) (h1 : z1.tb ≠ .mid) (h2 : z2.tb ≠ .mid) (hx : z2.x = z1.x)
    (hirr : ¬ z1.x < z1.x) (s : List Hit) (hs : WP s = true) :
    WP (ins z1 (ins z2 s)) = true := by
  fun_induction WP s with
  | case1 =>
    have : ¬ z2.x < z1.x := by rw [hx]; exact hirr
    simp [ins, this, WP, h1, h2, hx]
  | case2 h rest hm ih =>
    simp only [ins]
    split
    · rename_i hlt
      have hlt1 : h.x < z1.x := by rw [← hx]; exact hlt
      simp only [ins, hlt1, if_true]
      rw [WP_cons_mid _ _ hm]; exact ih hs
    · have : ¬ z2.x < z1.x := by rw [hx]; exact hirr
      simp only [ins, this, if_false]
      rw [WP_cons_pair _ _ _ h1 h2 hx, WP_cons_mid _ _ hm]; exact hs
  | case3 h hm => exact absurd hs (by simp)
  | case4 h hm h2' rest' ih =>
    simp only [Bool.and_eq_true, bne_iff_ne, ne_eq, beq_iff_eq] at hs
    obtain ⟨⟨h2m, h2x⟩, hr⟩ := hs
    simp only [ins]
    split
    · rename_i hlt
      have hlt2 : h2'.x < z2.x := by rw [h2x]; exact hlt
      have hlt1 : h.x < z1.x := by rw [← hx]; exact hlt
      have hlt21 : h2'.x < z1.x := by rw [h2x]; exact hlt1
      simp only [hlt2, if_true, ins, hlt1, hlt21]
      rw [WP_cons_pair _ _ _ hm h2m h2x]; exact ih hr
    · have : ¬ z2.x < z1.x := by rw [hx]; exact hirr
      simp only [ins, this, if_false]
      rw [WP_cons_pair _ _ _ h1 h2 hx, WP_cons_pair _ _ _ hm h2m h2x]; exact hr

/-! ### weights -/

def weight (z : Z) : Int := if z.same then 0 else if z.endpoint then dir z else 2 * dir z

def W : List Z → Int
  | [] => 0
  | z :: rest => weight z + W rest

def nsame : List Z → Nat
  | [] => 0
  | z :: rest => (if z.same then 1 else 0) + nsame rest

theorem W_append (a b : List Z) : W (a ++ b) = W a + W b := by
  induction a with
  | nil => simp [W]
  | cons z r ih => simp only [List.cons_append, W, ih]; omega

theorem nsame_append (a b : List Z) : nsame (a ++ b) = nsame a + nsame b := by
  induction a with
  | nil => simp [nsame]
  | cons z r ih => simp only [List.cons_append, nsame, ih]; omega

theorem W_ins (h : Hit) (s : List Hit) : W ((ins h s).map Hit.z) = weight h.z + W (s.map Hit.z) := by
  induction s with
  | nil => simp [ins, W]
  | cons g r ih =>
    simp only [ins]; split
    · simp only [List.map_cons, W, ih]; omega
    · simp only [List.map_cons, W]

theorem nsame_ins (h : Hit) (s : List Hit) :
    nsame ((ins h s).map Hit.z) = (if h.z.same then 1 else 0) + nsame (s.map Hit.z) := by
  induction s with
  | nil => simp [ins, nsame]
  | cons g r ih =>
    simp only [ins]; split
    · simp only [List.map_cons, nsame, ih]; omega
    · simp only [List.map_cons, nsame]

/-- the weight sum does not see the sort -/
theorem W_isort (l : List Hit) : W ((isort l).map Hit.z) = W (l.map Hit.z) := by
  induction l with
  | nil => simp [isort]
  | cons h r ih => simp only [isort, W_ins, List.map_cons, W, ih]

theorem nsame_isort (l : List Hit) : nsame ((isort l).map Hit.z) = nsame (l.map Hit.z) := by
  induction l with
  | nil => simp [isort]
  | cons h r ih => simp only [isort, nsame_ins, List.map_cons, nsame, ih]

theorem mem_ins (h g : Hit) (s : List Hit) : g ∈ ins h s ↔ g = h ∨ g ∈ s := by
  induction s with
  | nil => simp [ins]
  | cons a r ih =>
    simp only [ins]; split
    · simp only [List.mem_cons, ih]
      constructor
      · rintro (h1 | h1 | h1) <;> simp [h1]
      · rintro (h1 | h1 | h1) <;> simp [h1]
    · simp [List.mem_cons]

theorem mem_isort (g : Hit) (l : List Hit) : g ∈ isort l ↔ g ∈ l := by
  induction l with
  | nil => simp [isort]
  | cons h r ih => simp only [isort, mem_ins, ih, List.mem_cons]

/-- walk pairing on flag lists -/
def WPz : List Z → Bool
  | [] => true
  | z :: rest =>
    if !z.endpoint then WPz rest
    else match rest with
      | [] => false
      | z2 :: rest' => z2.endpoint && WPz rest'

theorem WPz_of_WP (l : List Hit) (h : WP l = true) : WPz (l.map Hit.z) = true := by
  fun_induction WP l with
  | case1 => simp [WPz]
  | case2 h0 rest hm ih =>
    rw [List.map_cons, WPz.eq_def]; simpa [Hit.z, hm] using ih h
  | case3 h0 hm => exact absurd h (by simp)
  | case4 h0 hm h2 rest' ih =>
    simp only [Bool.and_eq_true, bne_iff_ne, ne_eq, beq_iff_eq] at h
    obtain ⟨⟨h2m, _⟩, hr⟩ := h
    simp [WPz, Hit.z, hm, h2m, ih hr]

/-- what an open overlapping section still owes: the direction it was entered with -/
def phi (st : Bool × Bool) : Int := if st.1 then (if st.2 then -1 else 1) else 0

/-- flags as they occur off the boundary: no hit at the ray start, overlapping hits are end-point hits -/
def Clean (zs : List Z) : Prop := ∀ z ∈ zs, z.t0zero = false ∧ (z.same = true → z.endpoint = true)

/-- On a walk-paired clean list `windings` never reads past the end, keeps the boundary flag, and —
when the overlapping sections close (even number of overlapping hits relative to the entry state) —
twice its result is the weight sum plus what the open section owed. -/
theorem go_weight (zs : List Z) (n : Int) (b : Bool) (st : Bool × Bool)
    (hw : WPz zs = true) (hc : Clean zs) :
    ∃ m, go zs n b st = .ok m b ∧
      ((st.1 != decide (nsame zs % 2 = 1)) = false → 2 * m = 2 * n + phi st + W zs) := by
  fun_induction go zs n b st with
  | case1 n b st =>
    refine ⟨n, rfl, ?_⟩
    intro h
    have : st.1 = false := by simpa [nsame] using h
    simp [phi, this, W]
  | case2 z rest n b st ht ih =>
    exact absurd ht (by simp [(hc z (by simp)).1])
  | case3 z rest n b st ht he ih =>
    have hz := hc z (by simp)
    have he' : z.endpoint = false := by simpa using he
    have hs : z.same = false := by
      cases h : z.same with
      | false => rfl
      | true => have := hz.2 h; simp [he'] at this
    have hw' : WPz rest = true := by
      rw [WPz.eq_def] at hw; simpa [he'] using hw
    obtain ⟨m, hm, hv⟩ := ih hw' (fun z hz => hc z (by simp [hz]))
    refine ⟨m, by simpa [hs] using hm, ?_⟩
    intro hcond
    have := hv (by simpa [nsame, hs] using hcond)
    simp [hs] at this
    simp only [W, weight, hs, he', Bool.false_eq_true, if_false]
    omega
  | case4 z n b st ht he =>
    rw [WPz.eq_def] at hw; simp at he; simp [he] at hw
  | case5 z n b st ht he z2 rest' hss ih =>
    -- neither overlapping: the vertex pair
    have he' : z.endpoint = true := by simpa using he
    have hs1 : z.same = false := by cases h : z.same <;> simp_all
    have hs2 : z2.same = false := by cases h : z2.same <;> simp_all
    have hw' : z2.endpoint = true ∧ WPz rest' = true := by
      rw [WPz.eq_def] at hw; simpa [he'] using hw
    obtain ⟨m, hm, hv⟩ := ih hw'.2 (fun z hz => hc z (by simp [hz]))
    refine ⟨m, hm, ?_⟩
    intro hcond
    have := hv (by simpa [nsame, hs1, hs2] using hcond)
    simp only [W, weight, hs1, hs2, he', hw'.1, Bool.false_eq_true, if_false, if_true]
    unfold dir at this ⊢
    cases hi1 : z.into <;> cases hi2 : z2.into <;> simp_all <;> omega
  | case6 z n b st ht he z2 rest' hss hne into hov ih =>
    -- entering an overlapping section
    have he' : z.endpoint = true := by simpa using he
    have hw' : z2.endpoint = true ∧ WPz rest' = true := by
      rw [WPz.eq_def] at hw; simpa [he'] using hw
    obtain ⟨m, hm, hv⟩ := ih hw'.2 (fun z hz => hc z (by simp [hz]))
    refine ⟨m, hm, ?_⟩
    intro hcond
    have hst : st.1 = false := by simpa using hov
    have hpar : (true != decide (nsame rest' % 2 = 1)) = false := by
      cases h1 : z.same <;> cases h2 : z2.same <;> simp_all [nsame] <;> omega
    have := hv hpar
    simp only [W, weight, he', hw'.1, if_true]
    simp only [phi, hst, Bool.false_eq_true, if_false] at this ⊢
    unfold dir
    have hI : into = if z.same = true then z2.into else z.into := by
      simp only [into]; split <;> rfl
    clear_value into
    subst hI
    cases h1 : z.same <;> cases h2 : z2.same <;> cases hi1 : z.into <;> cases hi2 : z2.into <;>
      simp_all <;> omega
  | case7 z n b st ht he z2 rest' hss hne into hov ih =>
    -- leaving an overlapping section
    have he' : z.endpoint = true := by simpa using he
    have hw' : z2.endpoint = true ∧ WPz rest' = true := by
      rw [WPz.eq_def] at hw; simpa [he'] using hw
    obtain ⟨m, hm, hv⟩ := ih hw'.2 (fun z hz => hc z (by simp [hz]))
    refine ⟨m, hm, ?_⟩
    intro hcond
    have hst : st.1 = true := by simpa using hov
    have hpar : (false != decide (nsame rest' % 2 = 1)) = false := by
      cases h1 : z.same <;> cases h2 : z2.same <;> simp_all [nsame] <;> omega
    have := hv hpar
    simp only [W, weight, he', hw'.1, if_true]
    simp only [phi, hst, if_true, Bool.false_eq_true, if_false] at this ⊢
    unfold dir
    have hI : into = if z.same = true then z2.into else z.into := by
      simp only [into]; split <;> rfl
    clear_value into
    subst hI
    clear ih hm hv hw hc hcond hpar hov hss
    cases h1 : z.same <;> cases h2 : z2.same <;> cases hi1 : z.into <;> cases hi2 : z2.into <;>
      cases hst2 : st.2 <;> simp [h1, h2, hi1, hi2, hst2] at this hne ⊢ <;> omega
  | case8 z n b st ht he z2 rest' hss hne ih =>
    -- both overlapping
    have he' : z.endpoint = true := by simpa using he
    have hs1 : z.same = true := by cases h : z.same <;> cases h' : z2.same <;> simp_all
    have hs2 : z2.same = true := by cases h : z.same <;> cases h' : z2.same <;> simp_all
    have hw' : z2.endpoint = true ∧ WPz rest' = true := by
      rw [WPz.eq_def] at hw; simpa [he'] using hw
    obtain ⟨m, hm, hv⟩ := ih hw'.2 (fun z hz => hc z (by simp [hz]))
    refine ⟨m, hm, ?_⟩
    intro hcond
    have hpar : (st.1 != decide (nsame rest' % 2 = 1)) = false := by
      have e : (1 + (1 + nsame rest')) % 2 = nsame rest' % 2 := by omega
      simpa [nsame, hs1, hs2, e] using hcond
    have := hv hpar
    simp only [W, weight, hs1, hs2, if_true]
    omega

end Canvas.C06
